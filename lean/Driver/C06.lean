import Lean.Data.Json
import PynguinModel.Model.Cdg
import PynguinModel.Model.CdgQueries
import PynguinModel.Model.CdgFilter
/-! Line-protocol driver for C06 (and the CDG part reused by C07). -/
open Lean PynguinModel.Cdg

structure JEdge where
  s : Nat
  t : Nat
  l : Option Bool
  deriving FromJson

structure Case where
  nodes : List Nat          -- nodes of the augmented CFG
  blocks : List Nat         -- which of them are basic-block nodes
  edges : List JEdge        -- augmented CFG edges, in networkx iteration order
  parent : List (Nat × Nat) -- post-dominator tree: (child, immediate post-dominator)
  entry : Nat
  exit : Nat
  root : Nat                -- AUGMENTED_ENTRY
  certs : Bool              -- validate the tree against post-dominance with certificates
  rawNodes : List Nat       -- the graph handed to `filter_dead_code_nodes` (after `_insert_dummy_nodes`) …
  rawEdges : List (Nat × Nat) -- … and its edges
  deriving FromJson

def tripleJ (x : Nat × Nat × Option Bool) : Json :=
  Json.arr #[toJson x.1, toJson x.2.1, toJson x.2.2]

def sortTriples (l : List (Nat × Nat × Option Bool)) : List (Nat × Nat × Option Bool) :=
  let key (x : Nat × Nat × Option Bool) : Nat := x.1 * 1000003 + x.2.1
  (l.toArray.qsort (fun a b => key a < key b || (key a == key b && toString a.2.2 < toString b.2.2))).toList

def runCase (c : Case) : Json :=
  let E : List Edge := c.edges.map (fun e => ⟨e.s, e.t, e.l⟩)
  let par : Nat → Option Nat := fun v => (c.parent.find? (·.1 == v)).map (·.2)
  let tbl : List (Nat × List Nat) := c.nodes.map (fun v => (v, upFrom par (c.nodes.length + 1) v))
  let up := upOf tbl
  let algo := cdgAlgo E up
  let g := cdgImpl E up c.entry c.exit
  let isBlock : Nat → Bool := fun n => c.blocks.contains n
  let gnodes := c.nodes.filter (fun n => n != c.entry && n != c.exit)
  -- tree = strict post-dominance, validated pair by pair with checked certificates
  let bad : List (Nat × Nat × String) :=
    if c.certs then
      c.nodes.flatMap (fun v => c.nodes.filterMap (fun b =>
        match decidePdom E c.nodes c.exit b v with
        | none => some (b, v, "no-certificate")
        | some d => if d == (up v).contains b then none else some (b, v, "tree-disagrees")))
    else []
  -- the repaired `filter_dead_code_nodes` on the graph it was given
  let rawE : List Edge := c.rawEdges.map (fun e => ⟨e.1, e.2, none⟩)
  let live : Json := match filterDeadFull rawE c.entry c.rawNodes with
    | some r => toJson (r.toArray.qsort (· < ·)).toList
    | none => Json.null
  let loopOnly := (filterDead rawE c.entry c.rawNodes.length c.rawNodes).length
  Json.mkObj [
    ("live", live),
    ("loopOnly", toJson loopOnly),
    ("cdg", Json.arr ((sortTriples g).map tripleJ).toArray),
    ("treeOK", toJson (treeOKb tbl)),
    ("labelConsistent", toJson (labelConsistentb algo)),
    ("uniform", toJson (uniformb g isBlock)),
    ("pdomPairs", toJson (if c.certs then c.nodes.length * c.nodes.length else 0)),
    ("pdomBad", Json.arr (bad.map (fun x => Json.arr #[toJson x.1, toJson x.2.1, toJson x.2.2])).toArray),
    ("deps", Json.arr (gnodes.map (fun n =>
        Json.arr #[toJson n, toJson ((controlDeps g isBlock n).map (fun d => (d.1, d.2)))])).toArray),
    ("rootDep", Json.arr (gnodes.map (fun n => Json.arr #[toJson n, toJson (rootDep g isBlock c.root n)])).toArray)
  ]

partial def loop (h : IO.FS.Stream) : IO Unit := do
  let line ← h.getLine
  if line.isEmpty then return ()
  let out := match Json.parse line >>= fromJson? (α := Case) with
    | .ok c => (runCase c).compress
    | .error e => (Json.mkObj [("bad-op", e)]).compress
  IO.println out
  loop h

def main : IO Unit := do loop (← IO.getStdin)
