import Lean.Data.Json
import PynguinModel.Model.Cache
/-! Line-protocol driver for C12: one JSON history per line in, one JSON result per line out.
Runs `Ver.repo` (the code with the two proposed C12 repairs) on `stdSems`; after every operation it
prints the operation's output and a snapshot of the chromosomes the operation touched, at the end the
whole world.  Fitness values are printed exactly, in units of `2^-60`.  A suite is printed position by position
(`Suite.members`: an object that sits at two positions is printed twice). -/
open Lean PynguinModel.Cache

deriving instance FromJson for SubEff
deriving instance FromJson for MutEff
deriving instance FromJson for SuiteMutEff
deriving instance FromJson for Query
deriving instance FromJson for Ref
deriving instance FromJson for Op

structure Case where
  ops : List Op
  deriving FromJson

def outJ : Out → Json
  | .unit => Json.null
  | .val v => Json.mkObj [("v", toJson v)]
  | .flag b => Json.mkObj [("b", toJson b)]
  | .mean s n => Json.mkObj [("mean", toJson [s, n])]
  | .err .key => Json.mkObj [("err", "KeyError")]
  | .err .statistics => Json.mkObj [("err", "StatisticsError")]
  | .err .badRef => Json.mkObj [("err", "BadRef")]

def cacheJ (c : Cache) : List Json :=
  [toJson c.funcs, toJson c.covFuncs, toJson c.fitC, toJson (c.isC.map fun p => (p.1, if p.2 then 1 else 0)),
   toJson c.covC]

def tcJ (t : Tc) : Json :=
  Json.arr ([toJson t.content, toJson t.changed, toJson t.result] ++ cacheJ t.cache).toArray

def suJ (s : Suite) : Json :=
  Json.arr ([Json.arr (s.members.map tcJ).toArray, toJson s.changed] ++ cacheJ s.cache).toArray

def snapTc (w : World) (i : Nat) : Json :=
  Json.arr #["tc", toJson i, match w.tcs[i]? with | some t => tcJ t | none => Json.null]

def snapSu (w : World) (i : Nat) : Json :=
  Json.arr #["su", toJson i, match w.suites[i]? with | some s => suJ s | none => Json.null]

def refSnap (w : World) : Ref → Json
  | .tc i => snapTc w i
  | .su s => snapSu w s
  | .mem s _ => snapSu w s

/-- snapshots of what `op` touched, taken in the world after the step -/
def touched (w : World) : Op → List Json
  | .newTc .. => [snapTc w (w.tcs.length - 1)]
  | .cloneTc _ dst => [snapTc w dst]
  | .mutateTc i _ => [snapTc w i]
  | .xoverTc i j .. => [snapTc w i, snapTc w j]
  | .newSuite => [snapSu w (w.suites.length - 1)]
  | .cloneSuite _ dst => [snapSu w dst]
  | .addTest s _ => [snapSu w s]
  | .delTest s _ => [snapSu w s]
  | .setTest s .. => [snapSu w s]
  | .addAlias s _ => [snapSu w s]
  | .setAlias s .. => [snapSu w s]
  | .mutateSuite s _ => [snapSu w s]
  | .xoverSuite s t .. => [snapSu w s, snapSu w t]
  | .crossTc i .. => [snapTc w i]
  | .crossSuite s .. => [snapSu w s]
  | .addFit r _ => [refSnap w r]
  | .addCov r _ => [refSnap w r]
  | .invalidate r => [refSnap w r]
  | .query r _ => [refSnap w r]

def runCase (c : Case) : Json :=
  let (w, outs) := c.ops.foldl (fun (acc : World × Array Json) op =>
    let p := step stdSems Ver.repo acc.1 op
    (p.1, acc.2.push (Json.mkObj [("o", outJ p.2), ("t", Json.arr (touched p.1 op).toArray)]))) (({} : World), #[])
  Json.mkObj [("steps", Json.arr outs),
    ("final", Json.mkObj [("tcs", Json.arr (w.tcs.map tcJ).toArray), ("suites", Json.arr (w.suites.map suJ).toArray)])]

partial def loop (h : IO.FS.Stream) : IO Unit := do
  let line ← h.getLine
  if line.isEmpty then return
  let out := match Json.parse line.trimAscii.toString with
    | .error e => Json.mkObj [("bad-op", e)]
    | .ok j => match (fromJson? j : Except String Case) with
      | .error e => Json.mkObj [("bad-op", e)]
      | .ok c => runCase c
  IO.println out.compress
  loop h

def main : IO Unit := do loop (← IO.getStdin)
