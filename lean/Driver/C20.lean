import Lean.Data.Json
import PynguinModel.Model.AssertTrace
/-! Line-protocol driver for C20: one JSON case per line in, one JSON result per line out.
The JSON encodings are documented in `harness/c20.py` / `harness/c23_common.py`. -/
open Lean PynguinModel.Literals PynguinModel.AssertRender

namespace C20Driver

def err {α} (msg : String) : Except String α := .error msg

/-- Hex string (`-0x1f`, `0x0`) → Int (ints travel as hex: Python's `json`/`str` digit limit). -/
def hexDigit (c : Char) : Except String Nat :=
  if '0' ≤ c ∧ c ≤ '9' then pure (c.toNat - '0'.toNat)
  else if 'a' ≤ c ∧ c ≤ 'f' then pure (c.toNat - 'a'.toNat + 10)
  else err s!"bad hex digit {c}"

def parseHex (s : String) : Except String Int := do
  let (neg, body) := if s.startsWith "-" then (true, (s.drop 1).toString) else (false, s)
  if !body.startsWith "0x" then err s!"bad hex {s}"
  let ds := (body.drop 2).toString.toList
  if ds.isEmpty then err s!"bad hex {s}"
  let mut acc : Nat := 0
  for c in ds do
    acc := acc * 16 + (← hexDigit c)
  pure (if neg then -(acc : Int) else acc)

def natToHex (n : Nat) : String :=
  "0x" ++ String.ofList (Nat.toDigits 16 n)

def intToHex (z : Int) : String := if z < 0 then "-" ++ natToHex z.natAbs else natToHex z.natAbs

def getNat (j : Json) : Except String Nat := do
  let n ← j.getNat?
  pure n

def getInt (j : Json) : Except String Int := j.getInt?

def getArr (j : Json) : Except String (Array Json) := j.getArr?

def getChars (j : Json) : Except String Chars := do
  let a ← getArr j
  a.toList.mapM getNat

/-- `[neg, kind, bits]`. -/
def floatOfJson (j : Json) : Except String PyFloat := do
  let a ← getArr j
  if a.size != 3 then err "float: want [neg, kind, bits]"
  let neg ← a[0]!.getBool?
  let kind ← a[1]!.getStr?
  let bits ← getNat a[2]!
  match kind with
  | "nan" => pure (.nan neg)
  | "inf" => pure (.inf neg)
  | "fin" => pure (.fin neg bits)
  | k => err s!"float kind {k}"

def floatToJson : PyFloat → Json
  | .nan s => Json.arr #[toJson s, "nan", toJson (0 : Nat)]
  | .inf s => Json.arr #[toJson s, "inf", toJson (0 : Nat)]
  | .fin s m => Json.arr #[toJson s, "fin", toJson m]

partial def valOfJson (j : Json) : Except String LitVal := do
  match j with
  | .null => pure .none
  | .bool b => pure (.bool b)
  | .obj _ =>
    if let .ok x := j.getObjVal? "i" then return .int (← parseHex (← x.getStr?))
    if let .ok x := j.getObjVal? "f" then return .float (← floatOfJson x)
    if let .ok x := j.getObjVal? "c" then
      let a ← getArr x
      if a.size != 2 then err "complex: want [re, im]"
      return .complex (← floatOfJson a[0]!) (← floatOfJson a[1]!)
    if let .ok x := j.getObjVal? "s" then return .str (← getChars x)
    if let .ok x := j.getObjVal? "b" then return .bytes (← getChars x)
    if let .ok x := j.getObjVal? "l" then return .list (← (← getArr x).toList.mapM valOfJson)
    if let .ok x := j.getObjVal? "t" then return .tuple (← (← getArr x).toList.mapM valOfJson)
    if let .ok x := j.getObjVal? "S" then return .set (← (← getArr x).toList.mapM valOfJson)
    if let .ok x := j.getObjVal? "d" then
      let ps ← (← getArr x).toList.mapM (fun p => do
        let a ← getArr p
        if a.size != 2 then err "dict entry: want [k, v]"
        pure ((← valOfJson a[0]!), (← valOfJson a[1]!)))
      return .dict ps
    err s!"value: unknown object {j.compress}"
  | _ => err s!"value: unexpected {j.compress}"

partial def valToJson : LitVal → Json
  | .none => .null
  | .bool b => .bool b
  | .int z => Json.mkObj [("i", intToHex z)]
  | .float f => Json.mkObj [("f", floatToJson f)]
  | .complex re im => Json.mkObj [("c", Json.arr #[floatToJson re, floatToJson im])]
  | .str s => Json.mkObj [("s", toJson s)]
  | .bytes b => Json.mkObj [("b", toJson b)]
  | .list xs => Json.mkObj [("l", Json.arr (xs.map valToJson).toArray)]
  | .tuple xs => Json.mkObj [("t", Json.arr (xs.map valToJson).toArray)]
  | .set xs => Json.mkObj [("S", Json.arr (xs.map valToJson).toArray)]
  | .dict kvs => Json.mkObj [("d", Json.arr (kvs.map (fun (k, v) => Json.arr #[valToJson k, valToJson v])).toArray)]

def digitsOfString (s : String) : Except String (List Nat) :=
  s.toList.mapM (fun c => if '0' ≤ c ∧ c ≤ '9' then pure (c.toNat - '0'.toNat) else err s!"bad digit {c}")

def digitsToString (ds : List Nat) : String :=
  String.ofList (ds.map (fun d => Char.ofNat (d + '0'.toNat)))

partial def exprOfJson (j : Json) : Except String Expr := do
  if let .ok x := j.getObjVal? "n" then return .name (← x.getStr?)
  if let .ok x := j.getObjVal? "I" then return .integer (← digitsOfString (← x.getStr?))
  if let .ok x := j.getObjVal? "F" then return .float (← getNat x)
  if let .ok x := j.getObjVal? "s" then return .str (← getChars x)
  if let .ok x := j.getObjVal? "b" then return .bytes (← getChars x)
  if let .ok x := j.getObjVal? "bad" then return .badToken (← x.getStr?)
  if let .ok x := j.getObjVal? "neg" then return .neg (← exprOfJson x)
  if let .ok x := j.getObjVal? "call" then
    let args ← (← getArr (← j.getObjVal? "a")).toList.mapM exprOfJson
    return .call (← x.getStr?) args
  if let .ok x := j.getObjVal? "attr" then
    return .attr (← exprOfJson x) (← (← j.getObjVal? "a").getStr?)
  if let .ok x := j.getObjVal? "l" then return .list (← (← getArr x).toList.mapM exprOfJson)
  if let .ok x := j.getObjVal? "t" then
    return .tuple (← (← getArr x).toList.mapM exprOfJson) (← (← j.getObjVal? "c").getBool?)
  if let .ok x := j.getObjVal? "S" then return .set (← (← getArr x).toList.mapM exprOfJson)
  if let .ok x := j.getObjVal? "d" then
    let ps ← (← getArr x).toList.mapM (fun p => do
      let a ← getArr p
      if a.size != 2 then err "dict entry: want [k, v]"
      pure ((← exprOfJson a[0]!), (← exprOfJson a[1]!)))
    return .dict ps
  err s!"expr: unknown {j.compress}"

partial def exprToJson : Expr → Json
  | .name id => Json.mkObj [("n", id)]
  | .integer ds => Json.mkObj [("I", digitsToString ds)]
  | .float m => Json.mkObj [("F", toJson m)]
  | .str s => Json.mkObj [("s", toJson s)]
  | .bytes b => Json.mkObj [("b", toJson b)]
  | .badToken t => Json.mkObj [("bad", t)]
  | .neg e => Json.mkObj [("neg", exprToJson e)]
  | .call f args => Json.mkObj [("call", f), ("a", Json.arr (args.map exprToJson).toArray)]
  | .attr e a => Json.mkObj [("attr", exprToJson e), ("a", a)]
  | .list es => Json.mkObj [("l", Json.arr (es.map exprToJson).toArray)]
  | .tuple es c => Json.mkObj [("t", Json.arr (es.map exprToJson).toArray), ("c", c)]
  | .set es => Json.mkObj [("S", Json.arr (es.map exprToJson).toArray)]
  | .dict kvs => Json.mkObj [("d", Json.arr (kvs.map (fun (k, v) => Json.arr #[exprToJson k, exprToJson v])).toArray)]


def strList (j : Json) : Except String (List String) := do
  (← getArr j).toList.mapM (fun x => x.getStr?)

def typeIdOfJson (j : Json) : Except String TypeId := do
  pure ⟨← (← j.getObjVal? "module").getStr?, ← strList (← j.getObjVal? "qual"),
        ← getNat (← j.getObjVal? "serial")⟩

/-- `{"cls": typeId}` | `{"other": n}`. -/
def refOfJson (j : Json) : Except String PyRef := do
  if let .ok x := j.getObjVal? "cls" then return .cls (← typeIdOfJson x)
  if let .ok x := j.getObjVal? "other" then return .other (← getNat x)
  err s!"ref: unknown {j.compress}"

def lookupEdge (o : PyRef) (n : String) : List (PyRef × String × PyRef) → Option PyRef
  | [] => none
  | (o', n', r) :: rest => if o = o' ∧ n = n' then some r else lookupEdge o n rest

/-- `{"moduleName", "builtins": ref, "sutModule": ref | null, "getattr": [[ref, name, ref], …]}`. -/
def typeEnvOfJson (tej : Json) : Except String TypeEnv := do
  let edges ← (← getArr (← tej.getObjVal? "getattr")).toList.mapM (fun p => do
    let a ← getArr p
    if a.size != 3 then err "getattr entry: want [owner, name, target]"
    pure ((← refOfJson a[0]!), (← a[1]!.getStr?), (← refOfJson a[2]!)))
  let sut ← match (← tej.getObjVal? "sutModule") with
    | .null => pure none
    | r => do pure (some (← refOfJson r))
  pure ⟨← (← tej.getObjVal? "moduleName").getStr?,
        ⟨fun o n => lookupEdge o n edges, ← refOfJson (← tej.getObjVal? "builtins")⟩, sut⟩

def globalsOfJson (nsj : Json) : Except String (List (String × PyRef)) := do
  (← getArr (← nsj.getObjVal? "globals")).toList.mapM (fun p => do
    let a ← getArr p
    if a.size != 2 then err "globals entry: want [name, ref]"
    pure ((← a[0]!.getStr?), (← refOfJson a[1]!)))

partial def avalOfJson (j : Json) : Except String AVal := do
  match j with
  | .null => pure .none
  | .bool b => pure (.bool b)
  | .obj _ =>
    if let .ok x := j.getObjVal? "i" then return .int (← parseHex (← x.getStr?))
    if let .ok x := j.getObjVal? "f" then return .float (← floatOfJson x)
    if let .ok x := j.getObjVal? "c" then
      let a ← getArr x
      if a.size != 2 then err "complex: want [re, im]"
      return .complex (← floatOfJson a[0]!) (← floatOfJson a[1]!)
    if let .ok x := j.getObjVal? "s" then return .str (← getChars x)
    if let .ok x := j.getObjVal? "b" then return .bytes (← getChars x)
    if let .ok x := j.getObjVal? "e" then
      let a ← strList x
      match a with
      | [c, m] => return .enum c m
      | _ => err "enum: want [cls, member]"
    if let .ok x := j.getObjVal? "obj" then
      let len ← optOfJson getNat (← x.getObjVal? "len")
      return .obj (← typeIdOfJson x) len
    if let .ok x := j.getObjVal? "l" then return .list (← (← getArr x).toList.mapM avalOfJson)
    if let .ok x := j.getObjVal? "t" then return .tuple (← (← getArr x).toList.mapM avalOfJson)
    if let .ok x := j.getObjVal? "S" then return .set (← (← getArr x).toList.mapM avalOfJson)
    if let .ok x := j.getObjVal? "d" then
      let ps ← (← getArr x).toList.mapM (fun p => do
        let a ← getArr p
        if a.size != 2 then err "dict entry: want [k, v]"
        pure ((← avalOfJson a[0]!), (← avalOfJson a[1]!)))
      return .dict ps
    err s!"value: unknown object {j.compress}"
  | _ => err s!"value: unexpected {j.compress}"
where
  optOfJson {α} (f : Json → Except String α) (j : Json) : Except String (Option α) :=
    match j with
    | .null => pure none
    | _ => do pure (some (← f j))

def stmtToJson : Stmt → Json
  | .cmp l op r => Json.mkObj [("k", "cmp"), ("l", exprToJson l),
      ("op", match op with | .is => "is" | .eq => "eq"), ("r", exprToJson r)]
  | .approx l v a r => Json.mkObj [("k", "approx"), ("l", exprToJson l), ("v", exprToJson v),
      ("a", exprToJson a), ("r", exprToJson r)]
  | .typeName v e => Json.mkObj [("k", "typeName"), ("v", exprToJson v), ("expected", e)]
  | .isInstance v ty => Json.mkObj [("k", "isinstance"), ("v", exprToJson v), ("ty", exprToJson ty)]
  | .len v n => Json.mkObj [("k", "len"), ("v", exprToJson v), ("n", exprToJson n)]

def kindOf : Assertion → String
  | .float _ _ => "float" | .object _ _ => "object" | .typeName _ _ => "typeName"
  | .isInstance _ _ => "isinstance" | .collectionLength _ _ => "len"

def optBoolJ : Option Bool → Json
  | some b => toJson b
  | none => Json.null

/-! ### Histories: the observer path (`Model/AssertTrace.lean`) -/

def itemOfJson (j : Json) : Except String Item := do
  if let .ok x := j.getObjVal? "ref" then return .ref (← getNat x)
  return .imm (← avalOfJson j)

def cellOfJson (j : Json) : Except String Cell := do
  if let .ok x := j.getObjVal? "l" then return .list (← (← getArr x).toList.mapM itemOfJson)
  if let .ok x := j.getObjVal? "t" then return .tuple (← (← getArr x).toList.mapM itemOfJson)
  if let .ok x := j.getObjVal? "S" then return .set (← (← getArr x).toList.mapM itemOfJson)
  if let .ok x := j.getObjVal? "d" then
    let ps ← (← getArr x).toList.mapM (fun p => do
      let a ← getArr p
      if a.size != 2 then err "dict cell entry: want [k, v]"
      pure ((← itemOfJson a[0]!), (← itemOfJson a[1]!)))
    return .dict ps
  err s!"cell: unknown {j.compress}"

def pairsOfJson {α} (f : Json → Except String α) (j : Json) : Except String (List (String × α)) := do
  (← getArr j).toList.mapM (fun p => do
    let a ← getArr p
    if a.size != 2 then err "pair: want [name, x]"
    pure ((← a[0]!.getStr?), (← f a[1]!)))

def nvalOfJson (j : Json) : Except String (NValOf Item) := do
  if let .ok x := j.getObjVal? "plain" then return .plain (← itemOfJson x)
  if let .ok x := j.getObjVal? "inst" then
    let len ← match (← x.getObjVal? "len") with
      | .null => pure none
      | l => do pure (some (← getNat l))
    return .inst (← typeIdOfJson x) len (← pairsOfJson itemOfJson (← x.getObjVal? "fields"))
  err s!"nval: unknown {j.compress}"

def hsnapOfJson (j : Json) : Except String HSnapshot := do
  let heap ← (← getArr (← j.getObjVal? "heap")).toList.mapM (fun p => do
    let a ← getArr p
    if a.size != 2 then err "heap entry: want [addr, cell]"
    pure ((← getNat a[0]!), (← cellOfJson a[1]!)))
  let classes ← (← getArr (← j.getObjVal? "classes")).toList.mapM (fun p => do
    let a ← getArr p
    if a.size != 2 then err "classes entry: want [typeId, fields]"
    pure ((← typeIdOfJson a[0]!), (← pairsOfJson nvalOfJson a[1]!)))
  pure ⟨heap, ⟨← (← j.getObjVal? "bound").getStr?, ← pairsOfJson nvalOfJson (← j.getObjVal? "vars"),
               ← pairsOfJson nvalOfJson (← j.getObjVal? "mod"), classes⟩⟩

def sourceOf : Assertion → String
  | .float s _ | .object s _ | .typeName s _ | .isInstance s _ | .collectionLength s _ => s

/-- Depth bound of `reify` in the driver: `is_assertable` gives up below depth 4, so deeper levels
(and the unfolding of cyclic structures) are never looked at. -/
def fuel : Nat := 8

def runHist (j : Json) : Except String Json := do
  let prec ← floatOfJson (← j.getObjVal? "prec")
  let lim ← getNat (← j.getObjVal? "lim")
  let tej ← j.getObjVal? "te"
  let te ← typeEnvOfJson tej
  let aliasOf ← (← j.getObjVal? "alias").getStr?
  let env : RenderEnv := ⟨fun _ => aliasOf⟩
  let nsj ← j.getObjVal? "ns"
  let globals ← globalsOfJson nsj
  let enums ← strList (← nsj.getObjVal? "enums")
  let hs ← (← getArr (← j.getObjVal? "positions")).toList.mapM hsnapOfJson
  let hEnd : Heap := match hs.getLast? with
    | some s => s.heap
    | none => []
  let some snaps := allSome (hs.map (HSnapshot.observe fuel))
    | return Json.mkObj [("err", "dangling-reference")]
  let some recorded := recordHistory fuel te aliasOf hs
    | return Json.mkObj [("err", "dangling-reference")]
  let renderJ (a : Assertion) : Option Json := (renderLim lim env prec a).map stmtToJson
  let outs := (hs.zip (snaps.zip recorded)).map (fun (h, s, as) =>
    let ns := nsAt aliasOf enums globals te.world s
    -- what a shallow copy / no copy would show when the assertions are rendered (diagnosis only)
    let table (mode : CopyMode) : List (String × AVal) :=
      match h.observeWith fuel mode hEnd with
      | some s' => s'.flat aliasOf
      | none => []
    let shallowT := table .shallow
    let aliasT := table .alias
    let alt (mode : CopyMode) (a : Assertion) : Option Json :=
      match a with
      | .object src _ =>
          match lookup src (match mode with | .shallow => shallowT | _ => aliasT) with
          | some v' => renderJ (.object src v')
          | none => none
      | _ => none
    Json.arr (as.map (fun a =>
      match renderLim lim env prec a with
      | none => Json.mkObj [("kind", kindOf a), ("src", sourceOf a), ("err", "ValueError")]
      | some st =>
        let base := [("kind", toJson (kindOf a)), ("src", toJson (sourceOf a)), ("stmt", stmtToJson st),
                     ("valid", toJson st.valid), ("eval", optBoolJ (evalStmt ns st))]
        let sh := alt .shallow a
        let al := alt .alias a
        let extra :=
          (if sh.isSome && sh != some (stmtToJson st) then [("ifShallow", sh.getD Json.null)] else []) ++
          (if al.isSome && al != some (stmtToJson st) then [("ifAlias", al.getD Json.null)] else [])
        Json.mkObj (base ++ extra))).toArray)
  pure (Json.mkObj [("positions", Json.arr outs.toArray)])

def runCase (j : Json) : Except String Json := do
  let op ← (← j.getObjVal? "op").getStr?
  match op with
  | "check" =>
    let v ← avalOfJson (← j.getObjVal? "v")
    let src ← (← j.getObjVal? "src").getStr?
    let prec ← floatOfJson (← j.getObjVal? "prec")
    let lim ← getNat (← j.getObjVal? "lim")
    let tej ← j.getObjVal? "te"
    let te ← typeEnvOfJson tej
    let aliasOf ← (← j.getObjVal? "alias").getStr?
    let env : RenderEnv := ⟨fun _ => aliasOf⟩
    let nsj ← j.getObjVal? "ns"
    let ns : Namespace := { vars := [(src, v)], enumClasses := ← strList (← nsj.getObjVal? "enums"),
                            globals := ← globalsOfJson nsj, world := te.world,
                            hasPytest := ← (← nsj.getObjVal? "pytest").getBool? }
    let assertions := checkValue te src v
    let outs := assertions.map (fun a =>
      match renderLim lim env prec a with
      | none => Json.mkObj [("kind", kindOf a), ("err", "ValueError")]
      | some st => Json.mkObj [("kind", kindOf a), ("stmt", stmtToJson st), ("valid", st.valid),
          ("eval", optBoolJ (evalStmt ns st))])
    pure (Json.mkObj [("assertable", isAssertable 0 v), ("assertions", Json.arr outs.toArray)])
  | "hist" => runHist j
  | o => err s!"unknown op {o}"

end C20Driver

partial def loop (h : IO.FS.Stream) : IO Unit := do
  let line ← h.getLine
  if line.isEmpty then return ()
  let out := match Json.parse line >>= C20Driver.runCase with
    | .ok j => j.compress
    | .error e => (Json.mkObj [("bad-op", e)]).compress
  IO.println out
  loop h

def main : IO Unit := do loop (← IO.getStdin)
