import Lean.Data.Json
import PynguinModel.Model.MasterWorker
/-! Line-protocol driver for C33: one JSON case (cfg, task, script of worker fates) per line in,
one JSON line (outcome of `runPynguin`, final `RunningTask` state, ghost timeline) per line out. -/
open Lean PynguinModel.MasterWorker

instance : FromJson Elapsed where
  fromJson? j := do
    let num ← j.getObjValAs? Int "num"
    let den ← j.getObjValAs? Nat "den"
    if h : 0 < den then pure ⟨num, den, h⟩ else throw "elapsed: den must be positive"

deriving instance FromJson for ReturnCode
deriving instance FromJson for Behaviour
deriving instance FromJson for Fate
deriving instance FromJson for PynguinModel.MasterWorker.Task
deriving instance FromJson for Cfg

structure Case where
  cfg : Cfg
  task : PynguinModel.MasterWorker.Task
  fates : List Fate
  deriving FromJson

def rcJ : ReturnCode → Json
  | .ok => "ok" | .setupFailed => "setupFailed" | .noTestsGenerated => "noTestsGenerated"
  | .finalMetricsTrackingFailed => "finalMetricsTrackingFailed"

def resultJ : Option WorkerResult → Json
  | none => Json.null
  | some r => Json.mkObj [
      ("wrc", match r.workerReturnCode with | .ok => "ok" | .error => "error"),
      ("rc", match r.returnCode with | none => Json.null | some rc => rcJ rc),
      ("hasError", r.hasError), ("restartCount", r.restartCount)]

def stateJ (s : State) : Json := Json.mkObj [
  ("searchTime", toJson s.task.maxSearchTime), ("subprocess", s.task.subprocess),
  ("subprocessIfRecommended", s.task.subprocessIfRecommended), ("restarts", s.restartCount),
  ("force", s.forceSubprocess), ("writeEndClosed", s.writeEndClosed), ("started", s.started),
  ("timeline", toJson s.timeline)]

def runCase (c : Case) : Json :=
  match runPynguin c.cfg c.task c.fates with
  | .code rc r s => Json.mkObj [("outcome", "code"), ("rc", rcJ rc), ("result", resultJ r), ("state", stateJ s)]
  | .blocked s => Json.mkObj [("outcome", "blocked"), ("state", stateJ s)]
  | .hang s => Json.mkObj [("outcome", "hang"), ("state", stateJ s)]

partial def loop (h : IO.FS.Stream) : IO Unit := do
  let line ← h.getLine
  if line.isEmpty then return ()
  let out := match Json.parse line >>= fromJson? (α := Case) with
    | .ok c => (runCase c).compress
    | .error e => (Json.mkObj [("bad-op", e)]).compress
  IO.println out
  loop h

def main : IO Unit := do loop (← IO.getStdin)
