import Lean.Data.Json
import PynguinModel.Model.Types
import PynguinModel.Model.Generators
/-! Line-protocol driver for C25 (and the type queries of C26): one JSON case per line in, one JSON line out.

Case: `{"classes":[[cls,[base,…]],…], "extra":[[sup,sub],…], "tower":[bool,int,float,complex]|null,
        "generics":[[cls,k],…], "anyD":n, "pool":[ty,…], "qs":[[op,[i,j]],…]}`
Types: `"A"` Any, `"N"` None, `{"i":[cls,[ty,…]]}`, `{"t":[unknown_size,[ty,…]]}`, `{"u":[ty,…]}`.
Ops (i, j index the pool, or are class ids for `subclass`/`spl`):
`sub maybe cov dist subclass spl wf fixup`.

Optional `"hist":{"nodes":[cls,…],"ops":[[op,[i,j]],…]}`: a HISTORY on one type system that starts with the registered
classes `nodes`, no edges and empty caches — `edge` (`add_subclass_edge(super=i, sub=j)`) interleaved with the memoised
queries `sub maybe dist` (pool indices), `subclass` (class ids), `subclasses superclasses` (class id `i`); run through
the memo model `Generators.run` (repaired `add_subclass_edge`); output `"hist"`: one answer per query in order, and
`"hist_edges"`: the edges of the final graph. -/
open Lean PynguinModel.Types

partial def parseTy (j : Json) : Except String Ty :=
  match j with
  | .str "A" => pure .any
  | .str "N" => pure .none
  | .obj _ =>
    match j.getObjVal? "i" with
    | .ok (.arr #[c, .arr as]) => do
        let c ← c.getNat?
        let as ← as.toList.mapM parseTy
        pure (.inst c as)
    | .ok _ => throw "bad inst"
    | .error _ =>
    match j.getObjVal? "t" with
    | .ok (.arr #[.bool u, .arr as]) => do pure (.tuple u (← as.toList.mapM parseTy))
    | .ok _ => throw "bad tuple"
    | .error _ =>
    match j.getObjVal? "u" with
    | .ok (.arr is) => do pure (.union (← is.toList.mapM parseTy))
    | _ => throw "bad type"
  | _ => throw "bad type"

partial def tyJson : Ty → Json
  | .any => "A"
  | .none => "N"
  | .inst c as => Json.mkObj [("i", Json.arr #[toJson c, Json.arr (as.map tyJson).toArray])]
  | .tuple u as => Json.mkObj [("t", Json.arr #[toJson u, Json.arr (as.map tyJson).toArray])]
  | .union is => Json.mkObj [("u", Json.arr (is.map tyJson).toArray)]

structure Hist where
  nodes : List Nat
  ops : List (String × Nat × Nat)
  deriving FromJson

structure Case where
  hist : Option Hist
  classes : List (Nat × List Nat)
  extra : List (Nat × Nat)
  tower : Option (List Nat)
  generics : List (Nat × Nat)
  anyD : Nat
  pool : List Json
  qs : List (String × Nat × Nat)
  deriving FromJson

def optJ : Option Nat → Json
  | some n => toJson n
  | none => Json.null

def ansJ : PynguinModel.Generators.Answer → Json
  | .b v => toJson v
  | .d v => optJ v
  | .cs v => toJson v

/-- the history part: memoised run from the empty graph over the registered classes -/
def runHist (c : Case) (pool : Array Ty) (h : Hist) : Except String (List (String × Json)) := do
  let get (i : Nat) : Except String Ty :=
    match pool[i]? with | some t => pure t | none => throw s!"pool index {i}"
  let ops ← h.ops.mapM fun (op, i, j) => do
    match op with
    | "edge" => pure (PynguinModel.Generators.Op.edge i j)
    | "sub" => pure (.ask (.sub (← get i) (← get j)))
    | "maybe" => pure (.ask (.maybe (← get i) (← get j)))
    | "dist" => pure (.ask (.dist (← get i) (← get j)))
    | "subclass" => pure (.ask (.subclass i j))
    | "subclasses" => pure (.ask (.subclasses i))
    | "superclasses" => pure (.ask (.superclasses i))
    | _ => throw s!"unknown history op {op}"
  let g0 : Graph := { nodes := h.nodes, edges := [], generics := c.generics }
  let r := PynguinModel.Generators.run c.anyD false ⟨g0, []⟩ ops
  pure [("hist", Json.arr (r.2.map ansJ).toArray), ("hist_edges", toJson r.1.g.edges)]

def runCase (c : Case) : Except String Json := do
  let g0 := ofClassTable c.classes c.generics
  let g1 := c.extra.foldl (fun g e => addEdge g e.1 e.2) g0
  let g ← match c.tower with
    | none => pure g1
    | some [b, i, f, x] => pure (enableTower g1 b i f x)
    | some _ => throw "bad tower"
  let pool ← c.pool.mapM parseTy
  let pool := pool.toArray
  let get (i : Nat) : Except String Ty :=
    match pool[i]? with | some t => pure t | none => throw s!"pool index {i}"
  let outs ← c.qs.mapM fun (op, i, j) => do
    match op with
    | "subclass" => pure (toJson (isSubclass g i j))
    | "spl" => pure (optJ (spl g i j))
    | "sub" => pure (toJson (isSubtype g (← get i) (← get j)))
    | "maybe" => pure (toJson (isMaybeSubtype g (← get i) (← get j)))
    | "cov" => pure (toJson (isMaybeSubtypeCov g (← get i) (← get j)))
    | "dist" => pure (optJ (dist g c.anyD (← get i) (← get j)))
    | "wf" => pure (toJson ((← get i).wf g))
    | "fixup" => pure (tyJson (fixup g (← get i)))
    | _ => throw s!"unknown op {op}"
  let hist ← match c.hist with
    | none => pure []
    | some h => runHist c pool h
  pure (Json.mkObj ([("edges", toJson g.edges), ("nodes", toJson (allNodes g)),
                    ("convex", toJson (genericsConvexB g)), ("out", Json.arr outs.toArray)] ++ hist))

partial def loop (h : IO.FS.Stream) : IO Unit := do
  let line ← h.getLine
  if line.isEmpty then return
  let l := line.trimAscii.toString
  if l.isEmpty then
    IO.println "{\"bad-op\":\"empty\"}"
  else
    let r := do
      let j ← Json.parse l
      let c : Case ← fromJson? j
      runCase c
    match r with
    | .ok j => IO.println j.compress
    | .error e => IO.println (Json.mkObj [("bad-op", e)]).compress
  loop h

def main : IO Unit := do
  loop (← IO.getStdin)
