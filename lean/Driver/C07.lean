import Lean.Data.Json
import PynguinModel.Model.GoalGraph
/-! Line-protocol driver for C07: one exported module (registries, per-code-object CDGs, the answers the
real CDG gave, a cover schedule) per line in, one JSON line out:
model of `_create_covered_cdg` re-linking, of the two CDG queries (C06's DFS models), of
`_build_graph`, of `_GoalsManager.__init__/update`, and the verified hypothesis checkers. -/
open Lean PynguinModel.Cdg PynguinModel.GoalGraph

structure JGoal where
  co : Nat
  pid : Option Nat
  val : Option Bool
  deriving FromJson

structure JE where
  s : Nat
  t : Nat
  l : Option Bool
  deriving FromJson

structure JPred where
  id : Nat
  co : Nat
  node : Nat
  deriving FromJson

def es (l : List JE) : List (Nat × Nat × Option Bool) := l.map (fun e => (e.s, e.t, e.l))

structure JAns where
  node : Nat
  deps : List (Nat × Bool)
  rootDep : Bool
  deriving FromJson

/-- One node of the unpruned CDG as `_create_covered_cdg` / `visit_node` see it (answers of the real `AstInfo`). -/
structure JBlock where
  node : Nat
  isBlock : Bool
  elems : List Bool                      -- per element of the basic block: a real `Instr`?
  last : Nat                             -- 0 no last instruction, 1 lineno not an int, 2 conditional excluded, 3 covered
  lines : List Nat                       -- per original instruction: 0 lineno not an int, 1 line excluded, 2 covered
  deriving FromJson

def JBlock.info (b : JBlock) : Option BlockInfo :=
  let last : Option (Option (Option Bool)) := match b.last with
    | 0 => some none
    | 1 => some (some none)
    | 2 => some (some (some false))
    | 3 => some (some (some true))
    | _ => none
  let lines : Option (List (Option Bool)) := b.lines.mapM (fun l => match l with
    | 0 => some none
    | 1 => some (some false)
    | 2 => some (some true)
    | _ => none)
  match last, lines with
  | some la, some li => some ⟨b.node, b.isBlock, b.elems, la, li⟩
  | _, _ => none

structure JCo where
  co : Nat
  nodes : List Nat                       -- `cdg.graph.nodes`, in order
  blocks : List Nat                      -- the `BasicBlockNode`s among them
  root : Nat                             -- AUGMENTED_ENTRY
  ge : List JE                           -- stored CDG; edges into a node in `predecessors` order
  full : Option (List JE)                -- CDG before `_create_covered_cdg` removed nodes
  removed : List Nat                     -- removed nodes, in removal order
  ans : List JAns                        -- what the real CDG answered for the predicate nodes
  hasAst : Option Bool := none           -- `ast_info is not None` in `_create_covered_cdg`
  binfo : Option (List JBlock) := none   -- nodes of the unpruned CDG in `tuple(cdg.graph)` order
  deriving FromJson

def JCo.g (jc : JCo) : List (Nat × Nat × Option Bool) := es jc.ge

structure Case where
  goals : List JGoal
  preds : List JPred
  cos : List JCo
  sched : List (List Nat)                -- per `update` call: the goals some solution of the batch covers
  deriving FromJson

def toGoal (j : JGoal) : Option GoalKind :=
  match j.pid, j.val with
  | some p, some v => some (.branch j.co p v)
  | none, none => some (.branchless j.co)
  | _, _ => none

/-- Unverified search: backward closure of `n` along pass edges, latest discovery first. -/
def backSearch (g : CG) (isBlock : Nat → Bool) : Nat → List Nat → List Nat → List Nat
  | 0, _, S => S
  | _ + 1, [], S => S
  | fuel + 1, m :: work, S =>
    let new := ((g.filter (fun e => e.2.1 == m && isPass isBlock e)).map (·.1)).eraseDups.filter
      (fun p => !S.contains p)
    backSearch g isBlock fuel (work ++ new) (new.reverse ++ S)

/-- Unverified search: forward closure of `root`, latest discovery first. -/
def fwdSearch (g : CG) : Nat → List Nat → List Nat → List Nat
  | 0, _, S => S
  | _ + 1, [], S => S
  | fuel + 1, m :: work, S =>
    let new := ((g.filter (fun e => e.1 == m)).map (·.2.1)).eraseDups.filter (fun p => !S.contains p)
    fwdSearch g fuel (work ++ new) (new.reverse ++ S)

/-- Unverified: pass-edge distance from the root (breadth first), used as the ranking of `checkAns`. -/
def passDist (g : CG) (isBlock : Nat → Bool) : Nat → Nat → List Nat → List (Nat × Nat) → List (Nat × Nat)
  | 0, _, _, acc => acc
  | fuel + 1, d, frontier, acc =>
    if frontier.isEmpty then acc
    else
      let next := ((g.filter (fun e => frontier.contains e.1 && isPass isBlock e)).map (·.2.1)).eraseDups.filter
        (fun n => !acc.any (fun x => x.1 == n))
      passDist g isBlock fuel (d + 1) next (acc ++ next.map (fun n => (n, d + 1)))

def errName : BuildErr → String
  | .keyError _ => "keyError"
  | .goalNotFound => "goalNotFound"
  | .sanity => "sanity"
  | .nodeMissing => "nodeMissing"
  | .noPredicate => "noPredicate"
  | .noCodeObject => "noCodeObject"

def buildJ : Except BuildErr GG → Json
  | .ok G => Json.mkObj [("roots", toJson G.roots), ("edges", toJson G.edges)]
  | .error e => Json.mkObj [("err", toJson (errName e))]

/-- `_GoalsManager.update` with an explicit bound on the `while new_goals_added` loop. -/
def updateChk (G : GG) (cov : Goal → Bool) : Nat → St → Option St
  | 0, _ => none
  | fuel + 1, s =>
    let r := pass G cov s
    if r.2 then updateChk G cov fuel r.1 else some r.1

def stJ (s : St) : Json := Json.mkObj [("cur", toJson s.current), ("cov", toJson s.covered)]

def traceOf (G : GG) (fuel : Nat) (sched : List (List Nat)) : Json :=
  let rec go (s : St) (acc : Array Json) : List (List Nat) → Array Json
    | [] => acc
    | c :: cs =>
      let cov : Goal → Bool := fun g => c.contains g
      match updateChk G cov fuel s with
      | none => acc.push (Json.mkObj [("err", "fuel")])
      | some s' =>
        -- the bounded loop and the model's `update` agree whenever the bound is not hit
        let same := (update G cov fuel s).current == s'.current && (update G cov fuel s).covered == s'.covered
        go s' (acc.push (if same then stJ s' else Json.mkObj [("err", "update-mismatch")])) cs
  Json.arr (go (init G) #[stJ (init G)] sched)

def sortEdges (l : List (Nat × Nat × Option Bool)) : List (Nat × Nat × Option Bool) :=
  let key (x : Nat × Nat × Option Bool) : Nat := x.1 * 1000003 + x.2.1
  (l.toArray.qsort (fun a b => key a < key b || (key a == key b && toString a.2.2 < toString b.2.2))).toList

/-- The model's `_create_covered_cdg` on the exported unpruned CDG: removed nodes, covered CDG, `checkPrune`,
and whether every registered predicate sits on a node that passed `visit_node`'s gate. -/
def pruneJ (preds : List Pred) (jc : JCo) : Json :=
  match jc.full, jc.hasAst, jc.binfo with
  | some f, some ha, some jb =>
    match jb.mapM JBlock.info with
    | none => Json.mkObj [("bad-op", "binfo")]
    | some bs =>
      let isBlock : Nat → Bool := fun n => bs.any (fun b => b.node == n && b.isBlock)
      Json.mkObj [
        ("removed", toJson (removedNodes ha bs)),
        ("prune", toJson (checkPrune preds jc.co ha isBlock jc.root bs (es f))),
        ("regGate", toJson (preds.all (fun p => p.co != jc.co ||
            bs.any (fun b => b.node == p.node && visitGate ha b)))),
        ("covered", Json.arr ((sortEdges (coveredCdg ha bs (es f))).map
            (fun e => Json.arr #[toJson e.1, toJson e.2.1, toJson e.2.2])).toArray)]
  | _, _, _ => Json.null

def runCase (c : Case) : Json :=
  match c.goals.mapM toGoal with
  | none => Json.mkObj [("bad-op", "goal")]
  | some goals =>
    let preds : List Pred := c.preds.map (fun p => ⟨p.id, p.co, p.node⟩)
    -- the model's own answers (C06's DFS models on the stored CDG, entry node as `entry_node` finds it)
    let modelCos : List (JCo × CoInfo) := c.cos.map (fun jc =>
      let isBlock : Nat → Bool := fun n => jc.blocks.contains n
      let entry : Nat := match entryNode jc.nodes jc.g with
        | some r => r
        | none => jc.nodes.foldl max 0 + 1   -- `(None, node) in edges` is never true
      (jc, { co := jc.co, hasNode := fun n => jc.nodes.contains n,
             rootDep := fun n => rootDep jc.g isBlock entry n,
             deps := fun n => controlDeps jc.g isBlock n }))
    let build := buildGraph goals preds (modelCos.map (·.2))
    -- the implementation's answers + certificates found by search, checked by the verified checkers
    let datas : List CoData := c.cos.map (fun jc =>
      let isBlock : Nat → Bool := fun n => jc.blocks.contains n
      let fuel := jc.nodes.length + 2
      { co := jc.co, nodes := jc.nodes, blocks := jc.blocks, root := jc.root, g := jc.g,
        fwd := fwdSearch jc.g fuel [jc.root] [jc.root],
        rank := passDist jc.g isBlock fuel 0 [jc.root] [(jc.root, 0)],
        ans := jc.ans.map (fun a =>
          { node := a.node, deps := a.deps, rootDep := a.rootDep,
            back := backSearch jc.g isBlock fuel [a.node] [a.node] }) })
    let hyp := checkModule goals preds datas
    let buildReal := buildGraph goals preds (datas.map CoData.toInfo)
    let trace : Json := match build with
      | .ok G => traceOf G (goals.length + 2) c.sched
      | .error _ => Json.null
    Json.mkObj [
      ("build", buildJ build),
      ("buildFromRealAnswers", buildJ buildReal),
      ("hyp", toJson hyp),
      ("hypParts", Json.arr ((datas.map (fun d => toJson (checkCo preds d))).toArray.push
          (toJson (checkRegistry goals preds datas)))),
      ("answers", Json.arr (modelCos.map (fun (jc, ci) =>
        Json.arr (jc.ans.map (fun a => Json.mkObj [("node", toJson a.node),
          ("deps", toJson (ci.deps a.node)), ("rootDep", toJson (ci.rootDep a.node))])).toArray)).toArray),
      ("entry", Json.arr (c.cos.map (fun jc => toJson (entryNode jc.nodes jc.g))).toArray),
      ("relinked", Json.arr (c.cos.map (fun jc => match jc.full with
        | some f => Json.arr ((sortEdges (removeNodes (es f) jc.removed)).map
            (fun e => Json.arr #[toJson e.1, toJson e.2.1, toJson e.2.2])).toArray
        | none => Json.null)).toArray),
      ("prune", Json.arr (c.cos.map (pruneJ preds)).toArray),
      ("trace", trace)
    ]

partial def loop (h : IO.FS.Stream) : IO Unit := do
  let line ← h.getLine
  if line.isEmpty then return ()
  let out := match Json.parse line >>= fromJson? (α := Case) with
    | .ok c => (runCase c).compress
    | .error e => (Json.mkObj [("bad-op", e)]).compress
  IO.println out
  loop h

def main : IO Unit := do loop (← IO.getStdin)
