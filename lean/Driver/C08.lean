import Lean.Data.Json
import PynguinModel.Lemmas.Exclusions
/-! Line-protocol driver for C08: one JSON case per line in, one JSON result per line out.
Input: the region tree, marker lines, configuration and the CFG data of the exclusion-free run.
Output: everything `harness/c08.py` asks the real `ModuleAstInfo` / `AstInfo` / instrumentation. -/
open Lean PynguinModel.Exclusions

def kindOf : String → Except String Kind
  | "other" => pure .other | "module" => pure .module | "scope" => pure .scope | "ifK" => pure .ifK
  | "loop" => pure .loop | "tryK" => pure .tryK | "matchK" => pure .matchK | "handler" => pure .handler
  | "case" => pure .case | s => throw s!"unknown kind {s}"

partial def parseNode (j : Json) : Except String Node := do
  let a ← j.getArr?
  if a.size != 12 then throw "node: expected 12 fields"
  let k ← kindOf (← a[0]!.getStr?)
  let fa ← a[1]!.getBool?
  let fb ← a[2]!.getBool?
  let nm ← a[3]!.getStr?
  let f ← a[4]!.getNat?
  let s ← a[5]!.getNat?
  let e ← a[6]!.getNat?
  let kids (x : Json) : Except String (List Node) := do
    let arr ← x.getArr?
    arr.toList.mapM parseNode
  return .mk k fa fb nm f s e (← kids a[7]!) (← kids a[8]!) (← kids a[9]!) (← kids a[10]!) (← kids a[11]!)

def optNat (j : Json) : Except String (Option Nat) :=
  if j.isNull then pure none else some <$> j.getNat?

def parseInstr (j : Json) : Except String Instr := do
  let a ← j.getArr?
  if a.size != 2 then throw "instr: expected 2 fields"
  return ⟨← optNat a[0]!, ← a[1]!.getBool?⟩

def parseBlock (j : Json) : Except String Block := do
  let a ← j.getArr?
  if a.size != 5 then throw "block: expected 5 fields"
  let ins ← (← a[4]!.getArr?).toList.mapM parseInstr
  return ⟨← a[0]!.getNat?, ← a[1]!.getBool?, ← optNat a[2]!, ← a[3]!.getBool?, ins⟩

/-- Parses the code-object tree, numbering code objects in DFS preorder; returns the key table. -/
partial def parseCo (j : Json) (next : Nat) (keys : Array Json) :
    Except String (CodeObj × Nat × Array Json) := do
  let a ← j.getArr?
  if a.size != 6 then throw "code object: expected 6 fields"
  let name := a[0]!
  let first ← a[1]!.getNat?
  let isMod ← a[2]!.getBool?
  let isAnn ← a[3]!.getBool?
  let blocks ← (← a[4]!.getArr?).toList.mapM parseBlock
  let id := next
  let mut nxt := next + 1
  let mut ks := keys.push (Json.arr #[name, toJson first])
  let mut kids : List CodeObj := []
  for c in (← a[5]!.getArr?) do
    let (co, n', k') ← parseCo c nxt ks
    kids := kids ++ [co]
    nxt := n'
    ks := k'
  return (.mk id first isMod isAnn blocks kids, nxt, ks)

def bits (f : Nat → Bool) (lo hi : Nat) : String :=
  String.ofList ((List.range' lo (hi + 1 - lo)).map fun l => if f l then '1' else '0')

/-- Hypothesis `Laminar` of Props/C08 (regions vs scopes). `a ∈ preorder b` is evaluated by preorder
positions (the descendants of the node at position j are the positions j .. j + size - 1); this Bool
version is not proved equivalent to the Prop (no decidable equality on the nested tree). -/
def laminarB (cfg : Cfg) (mod : Node) : Bool :=
  let nodes := (preorder mod).zipIdx
  nodes.all fun (a, i) =>
    !a.isBranch || (regions cfg.noCover a).all fun r =>
      nodes.all fun (b, j) =>
        !b.isScope
        || (r.2 < b.first || b.e < r.1)
        || (r.1 ≤ b.first && b.e ≤ r.2 && a.s ≤ b.s && b.s ≤ a.e && b.first ≤ b.s && b.s ≤ b.e)
        || (j ≤ i && i < j + (preorder b).length)

def runCase (j : Json) : Except String Json := do
  let tree ← parseNode (← j.getObjVal? "tree")
  let nats (k : String) : Except String (List Nat) := do
    (← (← j.getObjVal? k).getArr?).toList.mapM (·.getNat?)
  let strs (k : String) : Except String (List String) := do
    (← (← j.getObjVal? k).getArr?).toList.mapM (·.getStr?)
  let pragmaLines ← nats "pragmaLines"
  let pynLines ← nats "pynLines"
  let enPragma ← (← j.getObjVal? "pragma").getBool?
  let enPyn ← (← j.getObjVal? "pyn").getBool?
  let only ← strs "only"
  let no ← strs "no"
  let ignore ← strs "ignore"
  let modname ← (← j.getObjVal? "modname").getStr?
  let nlines ← (← j.getObjVal? "nlines").getNat?
  let (co, _, keys) ← parseCo (← j.getObjVal? "co") 0 #[]
  let noNames := ignoreToNoCover modname no ignore
  match fromPath tree pynLines pragmaLines enPyn enPragma only noNames with
  | none => return Json.mkObj [("no_names", toJson noNames), ("err", "ValueError")]
  | some cfg =>
    let scopes := (preorder tree).filter (·.isScope)
    let getScopeIdx (l : Nat) : Int :=
      match scopes.findIdx? (fun n => n.first == l) with
      | some i => i
      | none => -1
    let rows := scopes.map fun sc =>
      let lo := (min sc.first sc.s) - 1
      let hi := sc.e + 1
      Json.arr #[toJson lo, toJson (shouldBeCovered cfg tree sc),
                 toJson (bits (shouldCoverLine cfg tree sc) lo hi),
                 toJson (bits (shouldCoverCond cfg tree sc) lo hi)]
    let g := instrument cfg tree co
    let key (i : Nat) : Json := keys.getD i Json.null
    let lineJ : Option Nat → Json
      | some l => toJson l
      | none => toJson (-1 : Int)
    let goals := Json.mkObj [
      ("lines", Json.arr (g.lines.map lineJ).toArray),
      ("preds", Json.arr (g.preds.map fun (i, b) => Json.arr #[key i, toJson b]).toArray),
      ("cos", Json.arr (g.cos.map key).toArray)]
    return Json.mkObj [
      ("no_names", toJson noNames), ("nc", toJson cfg.noCover), ("oc", toJson cfg.onlyCover),
      ("get_scope", toJson ((List.range (nlines + 1)).map getScopeIdx)),
      ("scopes", Json.arr rows.toArray), ("goals", goals),
      ("hyp", Json.mkObj [("laminar", toJson (laminarB cfg tree)),
                          ("attributed", toJson (attributed tree co))])]

partial def loop (h : IO.FS.Stream) : IO Unit := do
  let line ← h.getLine
  if line.isEmpty then return ()
  let out := match Json.parse line >>= runCase with
    | .ok j => j.compress
    | .error e => (Json.mkObj [("bad-op", e)]).compress
  IO.println out
  loop h

def main : IO Unit := do loop (← IO.getStdin)
