import Lean.Data.Json
import PynguinModel.Model.SeedRoundTrip
/-! Line-protocol driver for C24: one JSON case per line in, one JSON result per line out.
The compact array encoding of expressions / statements is documented in `harness/c24.py` (`absify`). -/
open Lean PynguinModel.SeedRoundTrip

namespace C24Driver

def err {α} (msg : String) : Except String α := .error msg

def strs (j : Json) : Except String (List String) := do
  (← j.getArr?).toList.mapM (·.getStr?)

def optStr (j : Json) : Except String (Option String) :=
  match j with
  | .null => pure none
  | _ => do pure (some (← j.getStr?))

def constOf (kind tok : String) : Except String Const :=
  match kind with
  | "int" => match tok.toNat? with
    | some n => pure (.int n)
    | none => err s!"bad int {tok}"
  | "float" => pure (.float tok)
  | "str" => pure (.str tok)
  | "bytes" => pure (.bytes tok)
  | "true" => pure .true
  | "false" => pure .false
  | "none" => pure .none
  | k => err s!"bad const kind {k}"

def cmpOf (s : String) : CmpOp :=
  match s with
  | "eq" => .eq
  | "is" => .is_
  | t => .other t

partial def exprOf (j : Json) : Except String Expr := do
  let a ← j.getArr?
  if a.size == 0 then err "empty expr"
  let tag ← a[0]!.getStr?
  let many (x : Json) : Except String (List Expr) := do (← x.getArr?).toList.mapM exprOf
  match tag, a.size with
  | "n", 2 => pure (.name (← a[1]!.getStr?))
  | "a", 3 => pure (.attr (← exprOf a[1]!) (← a[2]!.getStr?))
  | "c", 3 => pure (.call (← exprOf a[1]!) (← many a[2]!))
  | "kw", 3 => pure (.kwarg (← a[1]!.getStr?) (← exprOf a[2]!))
  | "st", 3 => pure (.star (← a[1]!.getNat?) (← exprOf a[2]!))
  | "k", 3 => pure (.const (← constOf (← a[1]!.getStr?) (← a[2]!.getStr?)))
  | "neg", 2 => pure (.neg (← exprOf a[1]!))
  | "l", 2 => pure (.list (← many a[1]!))
  | "t", 2 => pure (.tuple (← many a[1]!))
  | "s", 2 => pure (.set (← many a[1]!))
  | "d", 2 => pure (.dict (← many a[1]!))
  | "lam", 3 => pure (.lam (← strs a[1]!) (← exprOf a[2]!))
  | "cmp", 4 => pure (.cmp (← exprOf a[1]!) (cmpOf (← a[2]!.getStr?)) (← exprOf a[3]!))
  | "or", 3 => pure (.or_ (← exprOf a[1]!) (← exprOf a[2]!))
  | "f", 2 => pure (.fstr (← many a[1]!))
  | "o", 3 => pure (.opaque (← a[1]!.getStr?) (← many a[2]!))
  | t, n => err s!"bad expr tag {t}/{n}"

def smallOf (j : Json) : Except String Small := do
  let a ← j.getArr?
  if a.size == 0 then err "empty small"
  let tag ← a[0]!.getStr?
  match tag, a.size with
  | "=", 3 => pure (.assign (← (← a[1]!.getArr?).toList.mapM exprOf) (← exprOf a[2]!))
  | "e", 2 => pure (.expr (← exprOf a[1]!))
  | "as", 2 => pure (.assert_ (← exprOf a[1]!))
  | "im", 3 => pure (.impMod (← strs a[1]!) (← optStr a[2]!))
  | "if", 3 =>
    let ns ← (← a[2]!.getArr?).toList.mapM (fun p => do
      let q ← p.getArr?
      if q.size != 2 then err "bad import alias"
      pure ((← q[0]!.getStr?), (← optStr q[1]!)))
    pure (.impFrom (← strs a[1]!) ns)
  | "x", 2 => pure (.other (← a[1]!.getStr?))
  | t, n => err s!"bad small tag {t}/{n}"

def lineOf (j : Json) : Except String Line := do
  let a ← j.getArr?
  if a.size == 0 then err "empty line"
  let tag ← a[0]!.getStr?
  match tag, a.size with
  | "s", 2 => pure (.small (← smallOf a[1]!))
  | "w", 3 => pure (.with_ (← (← a[1]!.getArr?).toList.mapM exprOf) (← (← a[2]!.getArr?).toList.mapM smallOf))
  | t, n => err s!"bad line tag {t}/{n}"

def constJ : Const → Json
  | .int n => Json.arr #["k", "int", toString n]
  | .float t => Json.arr #["k", "float", t]
  | .str t => Json.arr #["k", "str", t]
  | .bytes t => Json.arr #["k", "bytes", t]
  | .true => Json.arr #["k", "true", ""]
  | .false => Json.arr #["k", "false", ""]
  | .none => Json.arr #["k", "none", ""]

def cmpJ : CmpOp → String
  | .eq => "eq"
  | .is_ => "is"
  | .other t => t

partial def exprJ : Expr → Json
  | .name n => Json.arr #["n", n]
  | .attr e a => Json.arr #["a", exprJ e, a]
  | .call f args => Json.arr #["c", exprJ f, Json.arr (args.map exprJ).toArray]
  | .kwarg k v => Json.arr #["kw", k, exprJ v]
  | .star n v => Json.arr #["st", toJson n, exprJ v]
  | .const k => constJ k
  | .neg e => Json.arr #["neg", exprJ e]
  | .list es => Json.arr #["l", Json.arr (es.map exprJ).toArray]
  | .tuple es => Json.arr #["t", Json.arr (es.map exprJ).toArray]
  | .set es => Json.arr #["s", Json.arr (es.map exprJ).toArray]
  | .dict es => Json.arr #["d", Json.arr (es.map exprJ).toArray]
  | .lam ps b => Json.arr #["lam", toJson ps, exprJ b]
  | .cmp l op r => Json.arr #["cmp", exprJ l, cmpJ op, exprJ r]
  | .or_ l r => Json.arr #["or", exprJ l, exprJ r]
  | .fstr ps => Json.arr #["f", Json.arr (ps.map exprJ).toArray]
  | .opaque t ss => Json.arr #["o", t, Json.arr (ss.map exprJ).toArray]

def optJ : Option String → Json
  | some s => s
  | none => Json.null

def smallJ : Small → Json
  | .assign ts v => Json.arr #["=", Json.arr (ts.map exprJ).toArray, exprJ v]
  | .expr e => Json.arr #["e", exprJ e]
  | .assert_ t => Json.arr #["as", exprJ t]
  | .impMod d a => Json.arr #["im", toJson d, optJ a]
  | .impFrom d ns => Json.arr #["if", toJson d, Json.arr (ns.map (fun p => Json.arr #[p.1, optJ p.2])).toArray]
  | .other t => Json.arr #["x", t]

def lineJ : Line → Json
  | .small s => Json.arr #["s", smallJ s]
  | .with_ items body => Json.arr #["w", Json.arr (items.map exprJ).toArray, Json.arr (body.map smallJ).toArray]

def assertionJ (a : Assertion) : Json :=
  let (kind, src) := match a with
    | .object s _ => ("ObjectAssertion", s)
    | .float s _ => ("FloatAssertion", s)
    | .isinstance s _ _ => ("IsInstanceAssertion", s)
    | .len s _ => ("CollectionLengthAssertion", s)
    | .typeName s _ _ => ("TypeNameAssertion", s)
  Json.mkObj [("k", kind), ("src", toJson src), ("t", exprJ (renderTest a))]

def pstmtJ (p : PStmt) : Json :=
  Json.mkObj [("node", lineJ p.node), ("bound", optJ p.bound),
              ("asserts", Json.arr (p.assertions.map assertionJ).toArray)]

def runCase (j : Json) : Except String Json := do
  let alias ← (← j.getObjVal? "alias").getStr?
  let moduleName ← strs (← j.getObjVal? "module")
  let ambient ← strs (← j.getObjVal? "ambient")
  let builtins ← strs (← j.getObjVal? "builtins")
  let ca ← (← j.getObjVal? "ca").getBool?
  let header ← (← (← j.getObjVal? "header").getArr?).toList.mapM smallOf
  let fns ← (← (← j.getObjVal? "fns").getArr?).toList.mapM (fun f => do (← f.getArr?).toList.mapM lineOf)
  let c : Cfg := { alias := alias, moduleName := moduleName, ambient := ambient, builtinNames := builtins,
                   createAssertions := ca }
  let b0 := headerBindings c header
  let outs := (List.zip (parseFunctions c b0 fns) (specBodies c b0 fns)).map (fun (ps, spec) =>
    Json.mkObj [("stmts", Json.arr (ps.map pstmtJ).toArray),
                ("render", Json.arr ((renderBody ps).map lineJ).toArray),
                ("spec", Json.arr (spec.map lineJ).toArray)])
  -- `parse_seed_module`'s return value: file-order positions of the functions that contribute a test case
  let returned := contributing (parseFunctions c b0 fns)
  pure (Json.mkObj [("fns", Json.arr outs.toArray), ("returned", toJson returned)])

partial def loop (h : IO.FS.Stream) (out : IO.FS.Stream) : IO Unit := do
  let line ← h.getLine
  if line.isEmpty then return
  let res := match Json.parse line with
    | .error e => Json.mkObj [("bad-op", s!"json: {e}")]
    | .ok j => match runCase j with
      | .ok r => r
      | .error e => Json.mkObj [("bad-op", e)]
  out.putStrLn res.compress
  loop h out

end C24Driver

def main : IO Unit := do
  C24Driver.loop (← IO.getStdin) (← IO.getStdout)
