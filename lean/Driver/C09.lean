import Lean.Data.Json
import PynguinModel.Model.PyMini
/-! Line-protocol driver for C09: one JSON case per line in, one JSON result per line out.

* `{"mini": {"prog": <Prog>, "fuel": n}}` — run the PyMini program + test, slice every statement /
  assertion criterion with the backward slicer of `Model/Slice.lean`.
* `{"trace": {"evs": [<Ev>…], "crits": [n…]}}` — slice a given trace (used for hand-made traces).
* `{"akey": {"addr": n, "uses": [[addr, "name"]…]}}` — pending attribute uses `(addr, name)` as the keys
  `_add_attribute_uses` stores, then the conversion at the creation of the object at `addr`. -/
open Lean PynguinModel.Slice PynguinModel.PyMini

deriving instance FromJson for Var
deriving instance FromJson for Ev
deriving instance FromJson for BinOp
deriving instance FromJson for CmpOp
deriving instance FromJson for Recv
deriving instance FromJson for Expr
deriving instance FromJson for Cond
deriving instance FromJson for Tgt
deriving instance FromJson for Stmt
deriving instance FromJson for Fun
deriving instance FromJson for Cls
deriving instance FromJson for TStmt
deriving instance FromJson for Prog

structure MiniCase where
  prog : Prog
  fuel : Nat
  deriving FromJson

structure TraceCase where
  evs : List Ev
  crits : List Nat
  retNone : Option (List Nat)     -- positions of `return None` steps (for the statement path)
  deriving FromJson

structure AKeyCase where
  addr : Nat
  uses : List (Nat × String)
  deriving FromJson

inductive Case where
  | mini (c : MiniCase) | trace (c : TraceCase) | akey (c : AKeyCase)
  deriving FromJson

def sortDedup (l : List Nat) : List Nat := (l.mergeSort (· ≤ ·)).eraseDups

def runTrace (c : TraceCase) : Json :=
  if c.crits.any (fun k => k ≥ c.evs.length) then Json.mkObj [("bad-op", "criterion outside the trace")]
  else Json.mkObj [
    ("slices", toJson (c.crits.map (fun k => sliceBack c.evs k))),
    ("lines", toJson (c.crits.map (fun k => sortDedup (sliceLines c.evs k)))),
    ("checked", toJson (sortDedup (checkedLines c.evs c.crits))),
    ("schecked", toJson (sortDedup (stmtCheckedLines c.evs (fun q => (c.retNone.getD []).contains q) c.crits))),
    ("executed", toJson (sortDedup (executedLines c.evs)))]

def runMini (c : MiniCase) : Json :=
  match run c.prog c.fuel with
  | none => Json.mkObj [("err", "fuel")]
  | some r =>
    let tr := r.trace
    let keyed := rekey (codeOfFn r.codeOf) tr
    Json.mkObj [
      ("vals", toJson r.vals),
      ("n", toJson tr.length),
      ("executed", toJson (sortDedup (executedLines tr))),
      ("slices", toJson (r.crits.map (fun k => sortDedup (sliceLines tr k)))),
      ("aslices", toJson (r.acrits.map (fun k => sortDedup (sliceLines tr k)))),
      -- compute_statement_checked_lines: per-statement cleansing of the trailing `return None`, then union
      ("checked", toJson (sortDedup (stmtCheckedLines tr (fun q => r.retNone.contains q) r.crits))),
      ("stmtlines", toJson (r.crits.map (fun k => sortDedup (stmtLines tr (fun q => r.retNone.contains q) k)))),
      ("cleansed", toJson (r.crits.map (fun k => cleanseLine tr (fun q => r.retNone.contains q) (sliceBack tr k)))),
      ("achecked", toJson (sortDedup (checkedLines tr r.acrits))),
      -- the same criteria sliced with locals keyed by code object instead of frame (pynguin's keying)
      ("cslices", toJson (r.crits.map (fun k => sortDedup (sliceLines keyed k)))),
      ("frames", toJson (r.codeOf.length)),
      -- the same program traced without loop-carried control dependence (only the first evaluation of
      -- a loop test controls the body): a lower bound the real slicer must reach even on loops
      ("wslices", match run c.prog c.fuel false with
        | some w => toJson (w.crits.map (fun k => sortDedup (sliceLines w.trace k)))
        | none => Json.null),
      ("waslices", match run c.prog c.fuel false with
        | some w => toJson (w.acrits.map (fun k => sortDedup (sliceLines w.trace k)))
        | none => Json.null),
      ("wchecked", match run c.prog c.fuel false with
        | some w => toJson (sortDedup (stmtCheckedLines w.trace (fun q => w.retNone.contains q) w.crits))
        | none => Json.null)]

def runAKey (c : AKeyCase) : Json :=
  -- `context.attr_uses` is a set: duplicates collapse
  let keys := (c.uses.map (fun u => attrUseKey u.1 u.2.toList)).eraseDups
  let r := convertAttrUses c.addr keys
  Json.mkObj [
    ("keys", toJson (keys.map String.ofList)),
    ("names", toJson (r.1.eraseDups.map String.ofList)),
    ("remaining", toJson (r.2.map String.ofList)),
    ("covered", toJson (!r.1.isEmpty)),
    -- per use: the name recovered from its own key (theorem: = the name)
    ("recovered", toJson (c.uses.map (fun u => String.ofList (attrNameOfKey (attrUseKey u.1 u.2.toList)))))]

def runCase : Case → Json
  | .mini c => runMini c
  | .trace c => runTrace c
  | .akey c => runAKey c

partial def loop (h : IO.FS.Stream) : IO Unit := do
  let line ← h.getLine
  if line.isEmpty then return ()
  let out := match Json.parse line >>= fromJson? (α := Case) with
    | .ok c => (runCase c).compress
    | .error e => (Json.mkObj [("bad-op", e)]).compress
  IO.println out
  loop h

def main : IO Unit := do loop (← IO.getStdin)
