import Lean.Data.Json
import PynguinModel.Model.Stopping
import PynguinModel.Generated.C17Stopping
/-! Line-protocol driver for C17: one JSON case per line in, one JSON result per line out.

Input: `{"algo": "MOSA", "maxIterations": 3|null, "maxStatements": ..|null, "maxExecutions": ..|null,
"pre": [stmts of each execution before the loop], "effs": [{"pure": bool, "execs": [..]}, ..]}`.
The skeleton and the condition rows come from the tables regenerated from the live source.
Output: how many iterations the model starts, and at every boundary (the started ones, then the
final one) the conditions' counters (in list order) and the ghost counters `[iters, execs, stmts]`. -/
open Lean PynguinModel.Stopping

structure EffectJ where
  pure : Bool
  execs : List Nat
  deriving FromJson

structure Case where
  algo : String
  maxIterations : Option Nat
  maxStatements : Option Nat
  maxExecutions : Option Nat
  pre : List Nat
  effs : List EffectJ
  deriving FromJson

def runCase (c : Case) : Json :=
  match Generated.skeletons.find? (fun sk => sk.algo == c.algo) with
  | none => Json.mkObj [("bad-op", toJson s!"no skeleton for algorithm {c.algo}")]
  | some sk =>
    let specs := Generated.configured c.maxIterations c.maxStatements c.maxExecutions []
    let r := run sk specs c.pre (c.effs.map (fun e => ⟨e.pure, e.execs⟩))
    let bounds := r.starts ++ [r.final]
    Json.mkObj [
      ("started", toJson r.starts.length),
      ("counters", toJson (bounds.map (fun s => s.conds.map (·.counter)))),
      ("fulfilled", toJson (bounds.map (fun s => s.conds.map (·.fulfilled)))),
      ("ghost", toJson (bounds.map (fun s => [s.iters, s.execs, s.stmts])))]

partial def loopIO (h : IO.FS.Stream) : IO Unit := do
  let line ← h.getLine
  if line.isEmpty then return ()
  let out := match Json.parse line >>= fromJson? (α := Case) with
    | .ok c => (runCase c).compress
    | .error e => (Json.mkObj [("bad-op", e)]).compress
  IO.println out
  loopIO h

def main : IO Unit := do loopIO (← IO.getStdin)
