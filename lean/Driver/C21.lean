import Lean.Data.Json
import PynguinModel.Model.SetCover
import PynguinModel.Model.AssertFilter
/-! Line-protocol driver for C21: one JSON case per line in, one JSON result per line out. -/
open Lean PynguinModel.SetCover PynguinModel.AssertFilter

deriving instance FromJson for Obs
deriving instance FromJson for VTrace
deriving instance FromJson for Res
deriving instance FromJson for Assertion

inductive Case where
  | select (map : List ((Nat × Nat) × List Nat))
  | score (created killed timeout : Int)
  | summary (n : Nat) (rows : List (List (Option Obs)))
  | pipeline (lazy : Bool) (minimize : Bool) (tests : List (List (List Assertion)))
      (stream : List (Option (List (Option Res))))
  | filter (test : List (List Nat)) (rounds : List VTrace)
  deriving FromJson

def err (s : String) : Json := Json.mkObj [("err", s)]

def scoreJ : Option (Int × Int) → Json
  | some (n, d) => Json.arr #[toJson n, toJson d]
  | none => err "AssertionError"

def summaryFields (infos : List MutantInfo) : List (String × Json) :=
  let mt := getMetrics infos
  [("killed", toJson ((infos.filter isKilled).map (·.mutNum))),
   ("timeout", toJson ((infos.filter isTimedOut).map (·.mutNum))),
   ("survived", toJson ((infos.filter isSurvived).map (·.mutNum))),
   ("killed_by", toJson (infos.map (·.killedBy))),
   ("timed_out_by", toJson (infos.map (·.timedOutBy))),
   ("metrics", toJson [mt.created, mt.killed, mt.timeout]),
   ("score", scoreJ (getScore mt))]

def keysNodup (m : KillMap) : Bool :=
  let ks := m.map (·.1)
  ks.eraseDups.length == ks.length

def runCase : Case → Json
  | .select m =>
    if !keysNodup m then Json.mkObj [("bad-op", "duplicate dict keys")]
    else match selectMinimal? m with
      | some keep => Json.mkObj [("keep", toJson ((isort keyLe keep).map (fun k => [k.1, k.2])))]
      | none => err "loop-budget-exhausted"
  | .score c k t => Json.mkObj [("score", scoreJ (getScore ⟨c, k, t⟩))]
  | .summary n rows =>
    match computeSummary n rows with
    | some infos => Json.mkObj (summaryFields infos)
    | none => err "ValueError"
  | .pipeline lz mn tests stream =>
    match handleAddExec lz mn tests stream with
    | some o =>
      Json.mkObj (summaryFields o.infos ++
        [("tests", toJson (o.tests.map (fun t => t.map (fun st => st.map (·.id)))))])
    | none => err "shape"
  | .filter test rounds =>
    match filterRounds test rounds with
    | some r => Json.mkObj [("rounds", toJson r)]
    | none => err "remove"

partial def loop (h : IO.FS.Stream) : IO Unit := do
  let line ← h.getLine
  if line.isEmpty then return ()
  let out := match Json.parse line >>= fromJson? (α := Case) with
    | .ok c => (runCase c).compress
    | .error e => (Json.mkObj [("bad-op", e)]).compress
  IO.println out
  loop h

def main : IO Unit := do loop (← IO.getStdin)
