import Lean.Data.Json
import PynguinModel.Model.Fitness
/-! Line-protocol driver shared by C10 and C11: one JSON case per line in, one JSON result per line out.

Case: `{"mode": "c10"|"c11", "reg": …, "traces": […], "exCode": […], "exT": […], "exF": […],
        "perm": [indices] , "split": n}`; a float is `"inf"` or `[num, den]`. -/
open Lean PynguinModel.Fitness

/-! ### decoding -/

instance : FromJson Dist where
  fromJson? j :=
    match j with
    | .str "inf" => .ok .inf
    | .arr #[n, d] => do
      let n ← fromJson? (α := Int) n
      let d ← fromJson? (α := Nat) d
      if d = 0 then .error "zero denominator" else .ok (.fin (mkRat n d))
    | _ => .error "float: expected \"inf\" or [num, den]"

structure UpdJ where
  p : Nat
  t : Dist
  f : Dist
  deriving FromJson

/-- the literal state of an `ExecutionTrace` followed by `update_predicate_distances` calls -/
structure TraceJ where
  code : List Nat
  cnt : List (Nat × Nat)
  dT : List (Nat × Dist)
  dF : List (Nat × Dist)
  lines : List Nat
  checked : List Nat
  updates : List UpdJ
  deriving FromJson

structure PathJ where
  src : Nat
  dst : Nat
  len : Nat
  deriving FromJson

structure CodeJ where
  id : Nat
  diameter : Nat
  paths : List PathJ
  deriving FromJson

structure PredJ where
  id : Nat
  code : Nat
  node : Nat
  deriving FromJson

structure RegJ where
  codes : List CodeJ
  preds : List PredJ
  lines : List Nat
  deriving FromJson

structure Case where
  mode : String
  reg : RegJ
  traces : List TraceJ
  exCode : List Nat
  exT : List Nat
  exF : List Nat
  perm : List Nat
  split : Nat
  deriving FromJson

def uniqueKeys {V} (d : List (Nat × V)) : Bool := (d.map (·.1)).eraseDups.length == d.length

/-- A Python dict / OrderedSet cannot hold a key twice: such input is rejected, not repaired. -/
def TraceJ.toTrace (t : TraceJ) : Except String Trace :=
  if uniqueKeys t.cnt && uniqueKeys t.dT && uniqueKeys t.dF && t.code.eraseDups.length == t.code.length
      && t.lines.eraseDups.length == t.lines.length && t.checked.eraseDups.length == t.checked.length then
    .ok (t.updates.foldl (fun acc u => updatePredicateDistances acc u.t u.f u.p)
      ⟨t.code, t.cnt, t.dT, t.dF, t.lines, t.checked⟩)
  else .error "duplicate key in a dict/set of a trace"

def RegJ.toRegistry (r : RegJ) : Except String Registry :=
  let codes := r.codes.map (fun c => (⟨c.id, c.diameter, c.paths.map (fun p => (p.src, p.dst, p.len))⟩ : CodeMeta))
  let preds := r.preds.map (fun p => (⟨p.id, p.code, p.node⟩ : PredMeta))
  if (codes.map (·.id)).eraseDups.length == codes.length && (preds.map (·.id)).eraseDups.length == preds.length
      && r.lines.eraseDups.length == r.lines.length then
    .ok ⟨codes, preds, r.lines⟩
  else .error "duplicate key in a registry dict"

/-! ### encoding -/

def ratJ (q : Rat) : Json := Json.arr #[toJson q.num, toJson q.den]

def distJ : Dist → Json
  | .inf => Json.str "inf"
  | .fin q => ratJ q

def errJ : Err → Json
  | .key => Json.mkObj [("err", "KeyError")]
  | .runtime => Json.mkObj [("err", "RuntimeError")]
  | .assertion => Json.mkObj [("err", "AssertionError")]

def exJ {α} (f : α → Json) : Except Err α → Json
  | .ok a => Json.mkObj [("ok", f a)]
  | .error e => errJ e

def traceJ (t : Trace) : Json :=
  Json.mkObj [
    ("code", toJson t.code),
    ("cnt", Json.arr (t.cnt.map (fun e => Json.arr #[toJson e.1, toJson e.2])).toArray),
    ("dT", Json.arr (t.dT.map (fun e => Json.arr #[toJson e.1, distJ e.2])).toArray),
    ("dF", Json.arr (t.dF.map (fun e => Json.arr #[toJson e.1, distJ e.2])).toArray),
    ("lines", toJson t.lines),
    ("checked", toJson t.checked)]

/-- All suite-level values of one trace. -/
def suiteJ (t : Trace) (r : Registry) (exCode exT exF : List Nat) : Json :=
  Json.mkObj [
    ("bfit", exJ ratJ (branchFitness t r [] [] [])),
    ("bfit_ex", exJ ratJ (branchFitness t r exCode exT exF)),
    ("bis", toJson (branchIsCovered t r [] [] [])),
    ("bis_ex", toJson (branchIsCovered t r exCode exT exF)),
    ("bis_orig", toJson (branchIsCoveredOrig t r [] [] [])),
    ("bis_orig_ex", toJson (branchIsCoveredOrig t r exCode exT exF)),
    ("bcov", exJ ratJ (branchCoverage t r)),
    ("lcov", exJ ratJ (lineCoverage t r)),
    ("ccov", exJ ratJ (checkedCoverage t r)),
    ("lfit", toJson (lineSuiteFitness t r)),
    ("cfit", toJson (checkedSuiteFitness t r)),
    ("lis", toJson (lineIsCovered t r)),
    ("cis", toJson (checkedIsCovered t r))]

/-- The `_predicate_fitness` summands one by one (= the branch fitness restricted to a single branch):
`[p, _predicate_fitness(p, true_distances, t), _predicate_fitness(p, false_distances, t)]`. -/
def summandsJ (t : Trace) (r : Registry) : Json :=
  Json.arr (r.predIds.map (fun p => Json.arr #[toJson p, exJ ratJ (predicateFitness p t.dT t),
    exJ ratJ (predicateFitness p t.dF t)])).toArray

def goalsJ (t : Trace) (r : Registry) : Json :=
  Json.mkObj [
    ("codes", Json.arr (r.codeIds.map (fun c => Json.arr #[toJson c,
        exJ ratJ (branchlessGoalFitness t r c), toJson (branchlessGoalIsCovered t c)])).toArray),
    ("branches", Json.arr ((r.predIds.flatMap (fun p => [(p, true), (p, false)])).map (fun pv =>
        Json.arr #[toJson pv.1, toJson pv.2, exJ ratJ (branchGoalFitness t r pv.1 pv.2),
          exJ toJson (branchGoalIsCovered t pv.1 pv.2)])).toArray),
    ("lines", Json.arr (r.lines.map (fun l => Json.arr #[toJson l, ratJ (lineGoalFitness t l),
        toJson (lineGoalIsCovered t l), ratJ (checkedGoalFitness t l), toJson (checkedGoalIsCovered t l)])).toArray)]

def prefixes {α} (l : List α) : List (List α) := (List.range (l.length + 1)).map (fun k => l.take k)

def runCase (c : Case) : Except String Json := do
  let r ← c.reg.toRegistry
  let ts ← c.traces.mapM TraceJ.toTrace
  match c.mode with
  | "c10" =>
    let t := analyze ts
    -- test-case level functions call `analyze_results([result])` on the (already merged) trace
    let t1 := analyze [t]
    pure (Json.mkObj [("trace", traceJ t), ("suite", suiteJ t r c.exCode c.exT c.exF),
      ("case_level", suiteJ t1 r [] [] []), ("goals", goalsJ t r), ("summands", summandsJ t r)])
  | "c11" =>
    if c.perm.length != ts.length || c.perm.any (· ≥ ts.length) || c.split > ts.length then
      throw "bad perm/split"
    let permuted := c.perm.map (fun i => ts[i]!)
    let t := analyze ts
    let grouped := merge (analyze (ts.take c.split)) (analyze (ts.drop c.split))
    pure (Json.mkObj [
      ("prefix", Json.arr ((prefixes ts).map (fun p => suiteJ (analyze p) r c.exCode c.exT c.exF)).toArray),
      ("prefix_summands", Json.arr ((prefixes ts).map (fun p => summandsJ (analyze p) r)).toArray),
      ("final", traceJ t),
      ("permuted", traceJ (analyze permuted)),
      ("grouped", traceJ grouped),
      ("self", traceJ (merge t t)),
      ("permuted_suite", suiteJ (analyze permuted) r c.exCode c.exT c.exF),
      ("grouped_suite", suiteJ grouped r c.exCode c.exT c.exF)])
  | m => throw s!"unknown mode {m}"

partial def loop (h : IO.FS.Stream) : IO Unit := do
  let line ← h.getLine
  if line.isEmpty then return ()
  let out := match Json.parse line >>= fromJson? (α := Case) with
    | .ok c =>
      match runCase c with
      | .ok j => j.compress
      | .error e => (Json.mkObj [("bad-op", e)]).compress
    | .error e => (Json.mkObj [("bad-op", e)]).compress
  IO.println out
  loop h

def main : IO Unit := do loop (← IO.getStdin)
