import Lean.Data.Json
import PynguinModel.Model.ExecIsolation
/-! Line-protocol driver for C30: one JSON case per line in, one JSON result per line out. -/
open Lean PynguinModel.ExecIsolation

deriving instance FromJson for Slot
deriving instance FromJson for Action
deriving instance FromJson for CtxOp
deriving instance FromJson for Cfg
deriving instance FromJson for Rng
deriving instance FromJson for Inst

structure Init where
  /-- descriptors open when the history starts -/
  openFds : List Nat
  nullFd : Nat
  cfgSeed : Nat
  globalRng : Rng
  tracked : List Inst
  deriving FromJson

structure Case where
  cfg : Cfg
  init : Init
  /-- `exec`: a history of test cases run by `TestCaseExecutor.execute` -/
  tests : Option (List (List Action))
  /-- `ctx`: a raw protocol on `OutputSuppressionContext` objects -/
  ops : Option (List CtxOp)
  deriving FromJson

def initProc (i : Init) : Proc :=
  { inp := .orig, out := .orig, err := .orig, origInClosed := false, origOutClosed := false,
    origErrClosed := false, nullClosed := false, nullFd := i.nullFd,
    fds := i.openFds.map (fun n => (n, if n = i.nullFd then devNull else n)),
    logDisable := 0, globalRng := i.globalRng, tracked := i.tracked, glob := 0, cfgSeed := i.cfgSeed }

def objJ : Obj → Json
  | .orig => "orig" | .null => "null" | .other false => "other" | .other true => "otherClosed"

def fdJ (t : FdTable) (i : Nat) : Json :=
  match lookup t i with
  | none => Json.null
  | some d => if d < 3 then toJson d else "x"

def snapJ (s : Proc) : Json :=
  Json.mkObj [("inp", objJ s.inp), ("out", objJ s.out), ("err", objJ s.err),
    ("inClosed", toJson s.origInClosed), ("outClosed", toJson s.origOutClosed),
    ("errClosed", toJson s.origErrClosed), ("nullClosed", toJson s.nullClosed),
    ("nullFd", if s.nullClosed then Json.null else toJson s.nullFd),
    ("fds", Json.arr #[fdJ s.fds 0, fdJ s.fds 1, fdJ s.fds 2]), ("nopen", toJson (openCount s.fds)),
    ("log", toJson s.logDisable), ("grng", toJson [s.globalRng.seed, s.globalRng.draws]),
    ("tracked", toJson (s.tracked.map fun i => (i.isPynguin, i.rng.seed, i.rng.draws))),
    ("glob", toJson s.glob)]

def outJ : Outcome → Json
  | .ok => "ok"
  | .fd n => Json.mkObj [("fd", toJson n)]
  | .rnd s d => Json.mkObj [("rnd", toJson [s, d])]
  | .val v => Json.mkObj [("val", toJson v)]
  | .closedFile => Json.mkObj [("exc", "ValueError")]
  | .osError => Json.mkObj [("exc", "OSError")]
  | .raised => Json.mkObj [("exc", "KeyError")]
  | .notSut => Json.mkObj [("exc", "notSut")]

def runExec (cfg : Cfg) (s0 : Proc) (tests : List (List Action)) : Json :=
  let (_, outs) := tests.foldl (fun (acc : Proc × Array Json) t =>
    let r := execute cfg acc.1 t
    (r.1, acc.2.push (Json.mkObj [("res", Json.arr (r.2.map outJ).toArray), ("snap", snapJ r.1)])))
    (s0, #[])
  Json.mkObj [("tests", Json.arr outs)]

def runCtx (cfg : Cfg) (s0 : Proc) (ops : List CtxOp) : Json :=
  let (_, outs) := ops.foldl (fun (acc : (Ctx × Proc) × Array Json) op =>
    let r := ctxStep cfg acc.1 op
    (r.1, acc.2.push (Json.mkObj [("res", match r.2 with | some o => outJ o | none => Json.null),
      ("snap", snapJ r.1.2), ("saved", toJson (r.1.1.savedFds.map fun p => [p.1, p.2]))])))
    ((Ctx.new, s0), #[])
  Json.mkObj [("ops", Json.arr outs)]

def runCase (c : Case) : Json :=
  let s0 := initProc c.init
  match c.tests, c.ops with
  | some ts, none => runExec c.cfg s0 ts
  | none, some ops => runCtx c.cfg s0 ops
  | _, _ => Json.mkObj [("bad-op", "exactly one of tests/ops expected")]

partial def loop (h : IO.FS.Stream) : IO Unit := do
  let line ← h.getLine
  if line.isEmpty then return ()
  let out := match Json.parse line >>= fromJson? (α := Case) with
    | .ok c => (runCase c).compress
    | .error e => (Json.mkObj [("bad-op", e)]).compress
  IO.println out
  loop h

def main : IO Unit := do loop (← IO.getStdin)
