import Lean.Data.Json
import PynguinModel.Model.TestCase
/-! Line-protocol driver for C15: one JSON history per line in (`{"events":[...]}`), one JSON line out
(`{"trace":[...]}`, one entry per event).  Names: JSON number `k` = `var_k`, JSON string = any other name. -/
open Lean PynguinModel.TestCase

abbrev VName := PynguinModel.TestCase.Name

instance : FromJson VName where
  fromJson? j := match j.getNat? with
    | .ok k => .ok (.var k)
    | .error _ => match j.getStr? with
      | .ok s => .ok (.ext s)
      | .error e => .error e

instance : ToJson VName where
  toJson | .var k => toJson k | .ext s => toJson s

deriving instance FromJson for Stmt

inductive Ev where
  | new (id : Nat)
  | clone (id nid : Nat)
  | nextVar (id : Nat)
  | add (id : Nat) (s : Stmt)
  | insert (id i : Nat) (s : Stmt)
  | replace (id i : Nat) (s : Stmt)
  | remove (id i : Nat)
  | batch (id : Nat) (idxs : List Nat)
  | chop (id : Nat) (pos : Int)
  | fwd (id i : Nat)
  | removeFwd (id i : Nat)
  | deleteGracefully (id pos : Nat)
  | removeUnused (id : Nat) (keep : Bool)
  | appendFrom (id oid : Nat) (other : List Stmt) (start : Nat) (draws : List Nat)
  | splice (id oid nid : Nat) (other : List Stmt) (p1 p2 : Nat) (draws : List Nat) (len : Nat)
  | expectChop (id : Nat) (chopMax : Bool) (len : Nat) (last : Option Nat)
  | guard (before after len : Nat)
  | snap (ids : List Nat)
  deriving FromJson

structure Case where
  events : List Ev
  deriving FromJson

abbrev Pool := List (Nat × TC)

def Pool.get (p : Pool) (id : Nat) : Except String TC :=
  match p.lookup id with
  | some tc => .ok tc
  | none => .error s!"unknown test case id {id}"

def Pool.set (p : Pool) (id : Nat) (tc : TC) : Pool := (id, tc) :: p.filter (fun x => x.1 != id)

def stmtJ (s : Stmt) : Json :=
  Json.arr #[toJson s.bound, toJson s.btype, toJson s.uses, toJson s.asserts, toJson s.simpleAssign]

def fullJ (tc : TC) : Json :=
  Json.mkObj [("stmts", Json.arr (tc.stmts.map stmtJ).toArray), ("counter", toJson tc.counter),
              ("registry", toJson tc.registry)]

def lightJ (tc : TC) : Json := Json.arr #[toJson tc.size, toJson tc.counter, toJson (wfB tc)]

def sameSet (a b : List VName) : Bool := a.all (fun x => decide (x ∈ b)) && b.all (fun x => decide (x ∈ a))

def stmtEquiv (a b : Stmt) : Bool :=
  decide (a.bound = b.bound) && decide (a.btype = b.btype) && decide (a.asserts = b.asserts) &&
    decide (a.simpleAssign = b.simpleAssign) && sameSet a.uses b.uses

def listEquiv : List Stmt → List Stmt → Bool
  | [], [] => true
  | a :: l, b :: m => stmtEquiv a b && listEquiv l m
  | _, _ => false

def errJ (e : String) : Json := Json.mkObj [("err", e)]

def step (p : Pool) : Ev → Except String (Pool × Json)
  | .new id => pure (p.set id TC.empty, Json.mkObj [("l", lightJ TC.empty)])
  | .clone id nid => do
    let tc ← p.get id
    pure (p.set nid tc.clone, Json.mkObj [("l", lightJ tc.clone)])
  | .nextVar id => do
    let tc ← p.get id
    let r := tc.nextVar
    pure (p.set id r.2, Json.mkObj [("r", toJson r.1), ("l", lightJ r.2)])
  | .add id s => do
    let tc ← p.get id
    let tc' := tc.add s
    pure (p.set id tc', Json.mkObj [("ok", toJson (insertOKb tc tc.stmts.length s)), ("l", lightJ tc')])
  | .insert id i s => do
    let tc ← p.get id
    let tc' := tc.insert i s
    pure (p.set id tc', Json.mkObj [("ok", toJson (insertOKb tc i s)), ("l", lightJ tc')])
  | .replace id i s => do
    let tc ← p.get id
    match tc.replace i s with
    | some tc' => pure (p.set id tc', Json.mkObj [("ok", toJson (replaceOKb tc i s)), ("l", lightJ tc')])
    | none => pure (p, errJ "IndexError")
  | .remove id i => do
    let tc ← p.get id
    match tc.remove i with
    | some r => pure (p.set id r.2, Json.mkObj [("r", stmtJ r.1), ("l", lightJ r.2)])
    | none => pure (p, errJ "IndexError")
  | .batch id idxs => do
    let tc ← p.get id
    let tc' := tc.removeBatch idxs
    pure (p.set id tc', Json.mkObj [("l", lightJ tc')])
  | .chop id pos => do
    let tc ← p.get id
    let tc' := tc.chop pos
    pure (p.set id tc', Json.mkObj [("l", lightJ tc'), ("full", fullJ tc')])
  | .fwd id i => do
    let tc ← p.get id
    match tc.forwardDeps i with
    | some r => pure (p, Json.mkObj [("r", toJson r)])
    | none => pure (p, errJ "IndexError")
  | .removeFwd id i => do
    let tc ← p.get id
    match tc.removeFwd i with
    | some r => pure (p.set id r.1, Json.mkObj [("r", toJson r.2), ("l", lightJ r.1), ("full", fullJ r.1)])
    | none => pure (p, errJ "IndexError")
  | .deleteGracefully id pos => do
    let tc ← p.get id
    match tc.deleteGracefully pos with
    | some r => pure (p.set id r.1, Json.mkObj [("r", toJson r.2), ("l", lightJ r.1), ("full", fullJ r.1)])
    | none => pure (p, errJ "fuel")
  | .removeUnused id keep => do
    let tc ← p.get id
    let tc' := tc.removeUnusedV keep
    pure (p.set id tc', Json.mkObj [("l", lightJ tc'), ("full", fullJ tc')])
  | .appendFrom id oid other start draws => do
    let tc ← p.get id
    let o ← p.get oid
    let tc' := tc.appendFrom other start draws
    pure (p.set id tc', Json.mkObj [("otherOk", toJson (listEquiv other o.stmts)), ("l", lightJ tc'),
                                    ("full", fullJ tc')])
  | .splice id oid nid other p1 p2 draws len => do
    let parent ← p.get id
    let o ← p.get oid
    let r := splice len parent { o with stmts := other } p1 p2 draws
    let res := spliceResult len parent { o with stmts := other } p1 p2 draws
    pure (p.set nid r.1, Json.mkObj [("otherOk", toJson (listEquiv other o.stmts)), ("accepted", toJson r.2),
                                     ("resultIsOffspring", toJson (decide (res = r.1) && r.2)),
                                     ("l", lightJ r.1), ("full", fullJ r.1)])
  | .expectChop id chopMax len last => do
    let tc ← p.get id
    pure (p, Json.mkObj [("full", fullJ (mutateChop chopMax len last tc))])
  | .guard before after len => do
    let b ← p.get before
    let a ← p.get after
    let g := insertGuard len b a
    pure (p, Json.mkObj [("rolledBack", toJson (decide (g = b) && !decide (a = b))),
                         ("size", toJson g.size)])
  | .snap ids => do
    let tcs ← ids.mapM p.get
    pure (p, Json.mkObj [("snap", Json.arr (tcs.map fullJ).toArray)])

def runCase (c : Case) : Json :=
  let rec go (p : Pool) (evs : List Ev) (acc : Array Json) : Except String (Array Json) :=
    match evs with
    | [] => .ok acc
    | e :: rest => match step p e with
      | .ok (p', j) => go p' rest (acc.push j)
      | .error m => .error m
  match go [] c.events #[] with
  | .ok tr => Json.mkObj [("trace", Json.arr tr)]
  | .error m => Json.mkObj [("bad-op", m)]

partial def loop (h : IO.FS.Stream) : IO Unit := do
  let line ← h.getLine
  if line.isEmpty then return ()
  let out := match Json.parse line >>= fromJson? (α := Case) with
    | .ok c => (runCase c).compress
    | .error e => (Json.mkObj [("bad-op", e)]).compress
  IO.println out
  loop h

def main : IO Unit := do loop (← IO.getStdin)
