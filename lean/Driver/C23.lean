import Lean.Data.Json
import PynguinModel.Model.Literals
/-! Line-protocol driver for C23: one JSON case per line in, one JSON result per line out.
The JSON encodings of values / expressions / draws are documented in `harness/c23.py`. -/
open Lean PynguinModel.Literals

namespace C23Driver

def err {α} (msg : String) : Except String α := .error msg

/-- Hex string (`-0x1f`, `0x0`) → Int (ints travel as hex: Python's `json`/`str` digit limit). -/
def hexDigit (c : Char) : Except String Nat :=
  if '0' ≤ c ∧ c ≤ '9' then pure (c.toNat - '0'.toNat)
  else if 'a' ≤ c ∧ c ≤ 'f' then pure (c.toNat - 'a'.toNat + 10)
  else err s!"bad hex digit {c}"

def parseHex (s : String) : Except String Int := do
  let (neg, body) := if s.startsWith "-" then (true, (s.drop 1).toString) else (false, s)
  if !body.startsWith "0x" then err s!"bad hex {s}"
  let ds := (body.drop 2).toString.toList
  if ds.isEmpty then err s!"bad hex {s}"
  let mut acc : Nat := 0
  for c in ds do
    acc := acc * 16 + (← hexDigit c)
  pure (if neg then -(acc : Int) else acc)

def natToHex (n : Nat) : String :=
  "0x" ++ String.ofList (Nat.toDigits 16 n)

def intToHex (z : Int) : String := if z < 0 then "-" ++ natToHex z.natAbs else natToHex z.natAbs

def getNat (j : Json) : Except String Nat := do
  let n ← j.getNat?
  pure n

def getInt (j : Json) : Except String Int := j.getInt?

def getArr (j : Json) : Except String (Array Json) := j.getArr?

def getChars (j : Json) : Except String Chars := do
  let a ← getArr j
  a.toList.mapM getNat

/-- `[neg, kind, bits]`. -/
def floatOfJson (j : Json) : Except String PyFloat := do
  let a ← getArr j
  if a.size != 3 then err "float: want [neg, kind, bits]"
  let neg ← a[0]!.getBool?
  let kind ← a[1]!.getStr?
  let bits ← getNat a[2]!
  match kind with
  | "nan" => pure (.nan neg)
  | "inf" => pure (.inf neg)
  | "fin" => pure (.fin neg bits)
  | k => err s!"float kind {k}"

def floatToJson : PyFloat → Json
  | .nan s => Json.arr #[toJson s, "nan", toJson (0 : Nat)]
  | .inf s => Json.arr #[toJson s, "inf", toJson (0 : Nat)]
  | .fin s m => Json.arr #[toJson s, "fin", toJson m]

partial def valOfJson (j : Json) : Except String LitVal := do
  match j with
  | .null => pure .none
  | .bool b => pure (.bool b)
  | .obj _ =>
    if let .ok x := j.getObjVal? "i" then return .int (← parseHex (← x.getStr?))
    if let .ok x := j.getObjVal? "f" then return .float (← floatOfJson x)
    if let .ok x := j.getObjVal? "c" then
      let a ← getArr x
      if a.size != 2 then err "complex: want [re, im]"
      return .complex (← floatOfJson a[0]!) (← floatOfJson a[1]!)
    if let .ok x := j.getObjVal? "s" then return .str (← getChars x)
    if let .ok x := j.getObjVal? "b" then return .bytes (← getChars x)
    if let .ok x := j.getObjVal? "l" then return .list (← (← getArr x).toList.mapM valOfJson)
    if let .ok x := j.getObjVal? "t" then return .tuple (← (← getArr x).toList.mapM valOfJson)
    if let .ok x := j.getObjVal? "S" then return .set (← (← getArr x).toList.mapM valOfJson)
    if let .ok x := j.getObjVal? "d" then
      let ps ← (← getArr x).toList.mapM (fun p => do
        let a ← getArr p
        if a.size != 2 then err "dict entry: want [k, v]"
        pure ((← valOfJson a[0]!), (← valOfJson a[1]!)))
      return .dict ps
    err s!"value: unknown object {j.compress}"
  | _ => err s!"value: unexpected {j.compress}"

partial def valToJson : LitVal → Json
  | .none => .null
  | .bool b => .bool b
  | .int z => Json.mkObj [("i", intToHex z)]
  | .float f => Json.mkObj [("f", floatToJson f)]
  | .complex re im => Json.mkObj [("c", Json.arr #[floatToJson re, floatToJson im])]
  | .str s => Json.mkObj [("s", toJson s)]
  | .bytes b => Json.mkObj [("b", toJson b)]
  | .list xs => Json.mkObj [("l", Json.arr (xs.map valToJson).toArray)]
  | .tuple xs => Json.mkObj [("t", Json.arr (xs.map valToJson).toArray)]
  | .set xs => Json.mkObj [("S", Json.arr (xs.map valToJson).toArray)]
  | .dict kvs => Json.mkObj [("d", Json.arr (kvs.map (fun (k, v) => Json.arr #[valToJson k, valToJson v])).toArray)]

def digitsOfString (s : String) : Except String (List Nat) :=
  s.toList.mapM (fun c => if '0' ≤ c ∧ c ≤ '9' then pure (c.toNat - '0'.toNat) else err s!"bad digit {c}")

def digitsToString (ds : List Nat) : String :=
  String.ofList (ds.map (fun d => Char.ofNat (d + '0'.toNat)))

partial def exprOfJson (j : Json) : Except String Expr := do
  if let .ok x := j.getObjVal? "n" then return .name (← x.getStr?)
  if let .ok x := j.getObjVal? "I" then return .integer (← digitsOfString (← x.getStr?))
  if let .ok x := j.getObjVal? "F" then return .float (← getNat x)
  if let .ok x := j.getObjVal? "s" then return .str (← getChars x)
  if let .ok x := j.getObjVal? "b" then return .bytes (← getChars x)
  if let .ok x := j.getObjVal? "bad" then return .badToken (← x.getStr?)
  if let .ok x := j.getObjVal? "neg" then return .neg (← exprOfJson x)
  if let .ok x := j.getObjVal? "call" then
    let args ← (← getArr (← j.getObjVal? "a")).toList.mapM exprOfJson
    return .call (← x.getStr?) args
  if let .ok x := j.getObjVal? "attr" then
    return .attr (← exprOfJson x) (← (← j.getObjVal? "a").getStr?)
  if let .ok x := j.getObjVal? "l" then return .list (← (← getArr x).toList.mapM exprOfJson)
  if let .ok x := j.getObjVal? "t" then
    return .tuple (← (← getArr x).toList.mapM exprOfJson) (← (← j.getObjVal? "c").getBool?)
  if let .ok x := j.getObjVal? "S" then return .set (← (← getArr x).toList.mapM exprOfJson)
  if let .ok x := j.getObjVal? "d" then
    let ps ← (← getArr x).toList.mapM (fun p => do
      let a ← getArr p
      if a.size != 2 then err "dict entry: want [k, v]"
      pure ((← exprOfJson a[0]!), (← exprOfJson a[1]!)))
    return .dict ps
  err s!"expr: unknown {j.compress}"

partial def exprToJson : Expr → Json
  | .name id => Json.mkObj [("n", id)]
  | .integer ds => Json.mkObj [("I", digitsToString ds)]
  | .float m => Json.mkObj [("F", toJson m)]
  | .str s => Json.mkObj [("s", toJson s)]
  | .bytes b => Json.mkObj [("b", toJson b)]
  | .badToken t => Json.mkObj [("bad", t)]
  | .neg e => Json.mkObj [("neg", exprToJson e)]
  | .call f args => Json.mkObj [("call", f), ("a", Json.arr (args.map exprToJson).toArray)]
  | .attr e a => Json.mkObj [("attr", exprToJson e), ("a", a)]
  | .list es => Json.mkObj [("l", Json.arr (es.map exprToJson).toArray)]
  | .tuple es c => Json.mkObj [("t", Json.arr (es.map exprToJson).toArray), ("c", c)]
  | .set es => Json.mkObj [("S", Json.arr (es.map exprToJson).toArray)]
  | .dict kvs => Json.mkObj [("d", Json.arr (kvs.map (fun (k, v) => Json.arr #[exprToJson k, exprToJson v])).toArray)]

def rawOfString : String → Except String RawType
  | "bool" => pure .bool | "int" => pure .int | "float" => pure .float | "complex" => pure .complex
  | "str" => pure .str | "bytes" => pure .bytes | "list" => pure .list | "set" => pure .set
  | "tuple" => pure .tuple | "dict" => pure .dict | "other" => pure .other
  | s => err s!"raw type {s}"

def fracOfJson (j : Json) : Except String Frac := do
  let a ← getArr j
  if a.size != 2 then err "frac: want [num, den]"
  pure ⟨← getNat a[0]!, ← getNat a[1]!⟩

def cfgOfJson (j : Json) : Except String Config := do
  pure {
    seedProb := ← fracOfJson (← j.getObjVal? "seedProb")
    assemblyProb := ← fracOfJson (← j.getObjVal? "assemblyProb")
    refProb := ← fracOfJson (← j.getObjVal? "refProb")
    perturbProb := ← fracOfJson (← j.getObjVal? "perturbProb")
    stringLength := ← getNat (← j.getObjVal? "stringLength")
    bytesLength := ← getNat (← j.getObjVal? "bytesLength")
    collectionSize := ← getNat (← j.getObjVal? "collectionSize")
    maxAssembledTokens := ← getNat (← j.getObjVal? "maxAssembledTokens") }

def optOf {α} (f : Json → Except String α) (j : Json) : Except String (Option α) :=
  match j with
  | .null => pure none
  | _ => do pure (some (← f j))

def drawOfJson (j : Json) : Except String Draw := do
  if let .str "gauss" := j then return .gauss
  if let .ok x := j.getObjVal? "flt" then
    let f ← fracOfJson x
    return .flt f.num f.den
  if let .ok x := j.getObjVal? "bool" then return .bool (← x.getBool?)
  if let .ok x := j.getObjVal? "int" then
    let a ← getArr x
    if a.size != 3 then err "int draw: want [lo, hi, i]"
    return .int (← getInt a[0]!) (← getInt a[1]!) (← getInt a[2]!)
  if let .ok x := j.getObjVal? "choice" then
    let a ← getArr x
    if a.size != 2 then err "choice draw: want [n, i]"
    return .choice (← getNat a[0]!) (← getNat a[1]!)
  if let .ok x := j.getObjVal? "ai" then return .arithInt (← parseHex (← x.getStr?))
  if let .ok x := j.getObjVal? "af" then return .arithFloat (← floatOfJson x)
  if let .ok x := j.getObjVal? "string" then
    let a ← getArr x
    if a.size != 2 then err "string draw: want [len, cps]"
    return .string (← getNat a[0]!) (← getChars a[1]!)
  if let .ok x := j.getObjVal? "bytes" then
    let a ← getArr x
    if a.size != 2 then err "bytes draw: want [len, bs]"
    return .bytes (← getNat a[0]!) (← getChars a[1]!)
  if let .ok x := j.getObjVal? "ci" then
    return .constInt (← optOf (fun y => do parseHex (← y.getStr?)) x)
  if let .ok x := j.getObjVal? "cf" then return .constFloat (← optOf floatOfJson x)
  if let .ok x := j.getObjVal? "cc" then
    return .constComplex (← optOf (fun y => do
      let a ← getArr y
      if a.size != 2 then err "complex: want [re, im]"
      pure ((← floatOfJson a[0]!), (← floatOfJson a[1]!))) x)
  if let .ok x := j.getObjVal? "cs" then return .constStr (← optOf getChars x)
  if let .ok x := j.getObjVal? "cb" then return .constBytes (← optOf getChars x)
  if let .ok x := j.getObjVal? "all" then return .allStr (← (← getArr x).toList.mapM getChars)
  err s!"draw: unknown {j.compress}"

def optJ {α} (f : α → Json) : Option α → Json
  | some a => f a
  | none => Json.null

/-- `{"some": v}` / `null`: keeps a parsed Python `None` value apart from "not parseable". -/
def optWrap (o : Option LitVal) : Json :=
  match o with
  | some v => Json.mkObj [("some", valToJson v)]
  | none => Json.null

def runCase (j : Json) : Except String Json := do
  let op ← (← j.getObjVal? "op").getStr?
  match op with
  | "render" =>
    let lim ← getNat (← j.getObjVal? "lim")
    let v ← valOfJson (← j.getObjVal? "v")
    match litToCstLim lim v with
    | none => pure (Json.mkObj [("err", "ValueError")])
    | some e =>
      pure (Json.mkObj [("expr", exprToJson e), ("valid", e.valid),
        ("eval", optWrap (eval e)),
        ("parse", optWrap (parseLiteral rdDefault v.typeOf e))])
  | "parse" =>
    let raw ← rawOfString (← (← j.getObjVal? "raw").getStr?)
    let e ← exprOfJson (← j.getObjVal? "e")
    pure (Json.mkObj [("parse", optWrap (parseLiteral rdDefault raw e))])
  | "gen" =>
    let cfg ← cfgOfJson (← j.getObjVal? "cfg")
    let raw ← rawOfString (← (← j.getObjVal? "raw").getStr?)
    let pool ← (← getArr (← j.getObjVal? "pool")).toList.mapM exprOfJson
    let draws ← (← getArr (← j.getObjVal? "draws")).toList.mapM drawOfJson
    match genLiteral cfg pool raw draws with
    | none => pure (Json.mkObj [("fail", true)])
    | some (e, rest) => pure (Json.mkObj [("expr", exprToJson e), ("rest", rest.length),
        ("valid", e.valid), ("type", optJ (fun v => toJson (v.typeOf == raw)) (eval e))])
  | "mutate" =>
    let cfg ← cfgOfJson (← j.getObjVal? "cfg")
    let raw ← rawOfString (← (← j.getObjVal? "raw").getStr?)
    let pool ← (← getArr (← j.getObjVal? "pool")).toList.mapM exprOfJson
    let e0 ← exprOfJson (← j.getObjVal? "e")
    let draws ← (← getArr (← j.getObjVal? "draws")).toList.mapM drawOfJson
    match mutateLiteral rdDefault cfg pool raw e0 draws with
    | none => pure (Json.mkObj [("fail", true)])
    | some (e, rest) => pure (Json.mkObj [("expr", exprToJson e), ("rest", rest.length),
        ("valid", e.valid), ("type", optJ (fun v => toJson (v.typeOf == raw)) (eval e))])
  | o => err s!"unknown op {o}"

end C23Driver

partial def loop (h : IO.FS.Stream) : IO Unit := do
  let line ← h.getLine
  if line.isEmpty then return ()
  let out := match Json.parse line >>= C23Driver.runCase with
    | .ok j => j.compress
    | .error e => (Json.mkObj [("bad-op", e)]).compress
  IO.println out
  loop h

def main : IO Unit := do loop (← IO.getStdin)
