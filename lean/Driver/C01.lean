import Lean.Data.Json
import PynguinModel.Model.StackMachine
import PynguinModel.Model.Callbacks
/-! Line-protocol driver for C01: one JSON case per line in, one JSON result per line out.
`{"run": {"ops": [...], "stack": [...], "unbound": [[kind,name],...], "userRaises": bool}}` runs the
stack machine; `{"check": {"item": ...}}` evaluates the checkers on an item; `{"pred": {...}}` runs the predicate-callback
model and `{"prov": {...}}` the seeding-callback model of Model/Callbacks.lean. -/
open Lean PynguinModel.StackMachine

deriving instance FromJson for Lit
deriving instance FromJson for Val
deriving instance FromJson for Op
deriving instance FromJson for Item

structure RunCase where
  ops : List Op
  stack : List Val
  unbound : List (Nat × Nat)
  userRaises : Bool
  deriving FromJson

structure CheckCase where
  item : Item
  deriving FromJson

partial def valJ : Val → Json
  | .tok i => Json.str s!"t{i}"
  | .lit (.const c) => Json.str s!"c{c}"
  | .lit (.env k n) => Json.str s!"e{k}_{n}"
  | .lit .res => Json.str "None"
  | .lit (.out _ j) => Json.str s!"out{j}"
  | .meth n s => Json.arr #[Json.str "meth", toJson n, valJ s]
  | .tup a b => Json.arr #[Json.str "tup", valJ a, valJ b]
  | .sum a b => Json.arr #[Json.str "sum", valJ a, valJ b]

def evJ : Ev → Json
  | .call callee _ args =>
      let name : Json := match callee with | .meth n _ => toJson n | v => valJ v
      Json.arr #[Json.str "call", name, Json.arr (args.map valJ).toArray]
  | .orig _ args => Json.arr #[Json.str "orig", Json.arr (args.map valJ).toArray]

def errJ : Option Err → Json
  | none => Json.null
  | some .underflow => Json.str "underflow"
  | some .badOp => Json.str "badOp"
  | some (.unbound _ _) => Json.str "NameError"
  | some .userRaised => Json.str "userRaised"
  | some (.origRaised _) => Json.str "origRaised"

def runCase (c : RunCase) : Json :=
  let w : World := ⟨fun k n => !(c.unbound.contains (k, n)), fun _ _ => c.userRaises⟩
  let r := run w c.ops c.stack
  Json.mkObj [("stack", Json.arr (r.stack.map valJ).toArray),
              ("events", Json.arr (r.events.map evJ).toArray), ("err", errJ r.err)]

def checkCase (c : CheckCase) : Json :=
  Json.mkObj [("checked", toJson c.item.checked), ("stackNeutral", toJson c.item.stackNeutral)]


/-! ### callbacks (Model/Callbacks.lean) -/
section Callbacks
open PynguinModel.Callbacks

deriving instance FromJson for F
deriving instance FromJson for Base
deriving instance FromJson for Operand

def excOfString : String → Option Exc
  | "typeError" => some .typeError
  | "valueError" => some .valueError
  | "overflowError" => some .overflowError
  | "assertionError" => some .assertionError
  | "other" => some (.other 0)
  | "base" => some (.base 0)
  | _ => none

def excJ : Exc → Json
  | .typeError => "typeError"
  | .valueError => "valueError"
  | .overflowError => "overflowError"
  | .assertionError => "assertionError"
  | .other _ => "other"
  | .base _ => "base"

def fJ : F → Json
  | .negInf => "negInf" | .neg => "neg" | .zero => "zero" | .pos => "pos" | .posInf => "posInf" | .nan => "nan"

/-- `{"ok": x}` or `{"err": "<exception class>"}` -/
def outOf {α : Type} [FromJson α] (j : Json) : Except String (Out α) :=
  match j.getObjVal? "err" with
  | .ok e =>
    match e.getStr? with
    | .ok s => match excOfString s with
      | some x => .ok (.error x)
      | none => .error s!"unknown exception class {s}"
    | .error m => .error m
  | .error _ =>
    match j.getObjVal? "ok" with
    | .ok v => (fromJson? v : Except String α).map fun a => (.ok a : Out α)
    | .error m => .error m

def distJ : Out (F × F) → Json
  | .error e => Json.mkObj [("err", excJ e)]
  | .ok (dt, df) => Json.mkObj [("ok", Json.arr #[fJ dt, fJ df])]

def predCase (j : Json) : Except String Json := do
  let kind ← (← j.getObjVal? "kind").getStr?
  let primary ← outOf (α := Bool) (← j.getObjVal? "primary")
  if kind == "compare" then
    let td ← outOf (α := F) (← j.getObjVal? "td")
    let fd ← outOf (α := F) (← j.getObjVal? "fd")
    return distJ (executedComparePredicate primary td fd)
  else if kind == "bool" then
    let fd ← outOf (α := F) (← j.getObjVal? "fd")
    return distJ (executedBoolPredicate primary fd)
  else throw s!"unknown predicate kind {kind}"

def baseJ : Base → Json
  | .str => "str" | .bytes => "bytes" | .int => "int" | .float => "float" | .complex => "complex"
  | .bool => "bool" | .tuple => "tuple" | .none => "none" | .other => "other"

def provCase (j : Json) : Except String Json := do
  let entryName ← (← j.getObjVal? "entry").getStr?
  let maxLen ← (← j.getObjVal? "maxLen").getNat?
  let v ← (fromJson? (← j.getObjVal? "v") : Except String Operand)
  let p ← (fromJson? (← j.getObjVal? "p") : Except String Operand)
  let entry ← match entryName with
    | "addValue" => pure Entry.addValue
    | "strings" => do pure (Entry.strings (← (← j.getObjVal? "name").getStr?))
    | "startswith" => pure Entry.startswith
    | "endswith" => pure Entry.endswith
    | s => throw s!"unknown entry {s}"
  let cs := provider maxLen entry v p
  let user := (userCalls cs).filterMap fun
    | .user i op => some (Json.arr #[toJson i, Json.str op])
    | _ => none
  let pool := (poolAdds cs).map fun (b, n) => Json.arr #[baseJ b, toJson n]
  return Json.mkObj [("user", Json.arr user.toArray), ("pool", Json.arr pool.toArray)]

end Callbacks

def handle (line : String) : Json :=
  match Json.parse line with
  | .error e => Json.mkObj [("bad-op", Json.str e)]
  | .ok j =>
    match j.getObjVal? "pred", j.getObjVal? "prov" with
    | .ok r, _ => (match predCase r with | .ok o => o | .error e => Json.mkObj [("bad-op", Json.str e)])
    | _, .ok r => (match provCase r with | .ok o => o | .error e => Json.mkObj [("bad-op", Json.str e)])
    | _, _ =>
    match j.getObjVal? "run", j.getObjVal? "check" with
    | .ok r, _ =>
      match (fromJson? r : Except String RunCase) with
      | .error e => Json.mkObj [("bad-op", Json.str e)]
      | .ok c => runCase c
    | _, .ok r =>
      match (fromJson? r : Except String CheckCase) with
      | .error e => Json.mkObj [("bad-op", Json.str e)]
      | .ok c => checkCase c
    | _, _ => Json.mkObj [("bad-op", Json.str "neither run nor check")]

partial def loop (h : IO.FS.Stream) : IO Unit := do
  let line ← h.getLine
  if line.isEmpty then return
  let l := line.trimAsciiEnd.toString
  if !l.isEmpty then IO.println (handle l).compress
  loop h

def main : IO Unit := do loop (← IO.getStdin)
