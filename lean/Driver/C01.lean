import Lean.Data.Json
import PynguinModel.Model.StackMachine
/-! Line-protocol driver for C01: one JSON case per line in, one JSON result per line out.
`{"run": {"ops": [...], "stack": [...], "unbound": [[kind,name],...], "userRaises": bool}}` runs the
stack machine; `{"check": {"item": ...}}` evaluates the checkers on an item. -/
open Lean PynguinModel.StackMachine

deriving instance FromJson for Lit
deriving instance FromJson for Val
deriving instance FromJson for Op
deriving instance FromJson for Item

structure RunCase where
  ops : List Op
  stack : List Val
  unbound : List (Nat × Nat)
  userRaises : Bool
  deriving FromJson

structure CheckCase where
  item : Item
  deriving FromJson

partial def valJ : Val → Json
  | .tok i => Json.str s!"t{i}"
  | .lit (.const c) => Json.str s!"c{c}"
  | .lit (.env k n) => Json.str s!"e{k}_{n}"
  | .lit .res => Json.str "None"
  | .lit (.out _ j) => Json.str s!"out{j}"
  | .meth n s => Json.arr #[Json.str "meth", toJson n, valJ s]
  | .tup a b => Json.arr #[Json.str "tup", valJ a, valJ b]
  | .sum a b => Json.arr #[Json.str "sum", valJ a, valJ b]

def evJ : Ev → Json
  | .call callee _ args =>
      let name : Json := match callee with | .meth n _ => toJson n | v => valJ v
      Json.arr #[Json.str "call", name, Json.arr (args.map valJ).toArray]
  | .orig _ args => Json.arr #[Json.str "orig", Json.arr (args.map valJ).toArray]

def errJ : Option Err → Json
  | none => Json.null
  | some .underflow => Json.str "underflow"
  | some .badOp => Json.str "badOp"
  | some (.unbound _ _) => Json.str "NameError"
  | some .userRaised => Json.str "userRaised"
  | some (.origRaised _) => Json.str "origRaised"

def runCase (c : RunCase) : Json :=
  let w : World := ⟨fun k n => !(c.unbound.contains (k, n)), fun _ _ => c.userRaises⟩
  let r := run w c.ops c.stack
  Json.mkObj [("stack", Json.arr (r.stack.map valJ).toArray),
              ("events", Json.arr (r.events.map evJ).toArray), ("err", errJ r.err)]

def checkCase (c : CheckCase) : Json :=
  Json.mkObj [("checked", toJson c.item.checked), ("stackNeutral", toJson c.item.stackNeutral)]

def handle (line : String) : Json :=
  match Json.parse line with
  | .error e => Json.mkObj [("bad-op", Json.str e)]
  | .ok j =>
    match j.getObjVal? "run", j.getObjVal? "check" with
    | .ok r, _ =>
      match (fromJson? r : Except String RunCase) with
      | .error e => Json.mkObj [("bad-op", Json.str e)]
      | .ok c => runCase c
    | _, .ok r =>
      match (fromJson? r : Except String CheckCase) with
      | .error e => Json.mkObj [("bad-op", Json.str e)]
      | .ok c => checkCase c
    | _, _ => Json.mkObj [("bad-op", Json.str "neither run nor check")]

partial def loop (h : IO.FS.Stream) : IO Unit := do
  let line ← h.getLine
  if line.isEmpty then return
  let l := line.trimAsciiEnd.toString
  if !l.isEmpty then IO.println (handle l).compress
  loop h

def main : IO Unit := do loop (← IO.getStdin)
