import Lean.Data.Json
import PynguinModel.Model.Report
/-! Line-protocol driver for C35: one JSON case per line in, one JSON result per line out. -/
open Lean PynguinModel.Report

instance : FromJson Dist where
  fromJson? j := match j with
    | .str "inf" => .ok .inf
    | .str "nan" => .ok .nan
    | .arr #[n, d] => do
        let n ← fromJson? (α := Int) n
        let d ← fromJson? (α := Nat) d
        if d = 0 then .error "zero denominator" else pure (.fin n d)
    | _ => .error "bad distance"

structure JCo where
  id : Nat
  first : Int
  deriving FromJson
structure JPred where
  id : Nat
  line : Option Int
  co : Nat
  deriving FromJson
structure JLine where
  id : Nat
  co : Nat
  file : String
  line : Option Int
  deriving FromJson
structure JReg where
  co : Nat
  file : String
  line : Option Int
  deriving FromJson
structure JEntry where
  k : Nat
  v : Dist
  deriving FromJson
structure JTrace where
  exec : List Nat
  td : List JEntry
  fd : List JEntry
  cov : List Nat
  deriving FromJson
structure Case where
  nsrc : Nat
  branch : Bool
  line : Bool
  cos : List JCo
  preds : List JPred
  lines : List JLine
  regs : List JReg
  traces : List JTrace
  deriving FromJson

def ratJ (q : Rat) : Json := Json.arr #[toJson q.num, toJson q.den]
def optRatJ : Option Rat → Json
  | some q => ratJ q
  | none => Json.null
def covJ (c : CovEntry) : Json := Json.arr #[toJson c.covered, toJson c.existing]
def lineNoJ : LineNo → Json
  | some n => toJson n
  | none => Json.null
def annJ (a : LineAnn) : Json :=
  Json.arr #[toJson a.lineNo, covJ a.total, covJ a.branches, covJ a.branchless, covJ a.lines]
def xmlLineJ (x : XmlLine) : Json :=
  Json.arr #[toJson x.number, toJson x.hits, toJson x.branch,
    match x.condition with
    | some (c, e) => Json.arr #[toJson c, toJson e]
    | none => Json.null]
def errJ : Err → Json
  | .keyError => Json.mkObj [("err", "KeyError")]
  | .assertionError => Json.mkObj [("err", "AssertionError")]
  | .runtimeError => Json.mkObj [("err", "RuntimeError")]

def runCase (c : Case) : Json :=
  let raw : List (Nat × LineMeta) := c.lines.map (fun l => (l.id, ⟨l.co, l.file, l.line⟩))
  -- a Python dict literal with repeated keys keeps the last value at the first position
  let raw := raw.foldl (fun m e => dictSet m e.1 e.2) []
  let (lines, ids) := c.regs.foldl (fun (acc : List (Nat × LineMeta) × Array Nat) r =>
    let (ls, id) := registerLine acc.1 ⟨r.co, r.file, r.line⟩
    (ls, acc.2.push id)) (raw, #[])
  let reg : Registry :=
    { codeObjects := c.cos.map (fun x => (x.id, x.first))
      predicates := c.preds.map (fun p => (p.id, ⟨p.line, p.co⟩))
      lines := lines }
  let traces : List Trace := c.traces.map (fun t =>
    { executedCodeObjects := t.exec, trueDistances := t.td.map (fun e => (e.k, e.v)),
      falseDistances := t.fd.map (fun e => (e.k, e.v)), coveredLineIds := t.cov })
  let regJ := ("reg_ids", toJson ids)
  let linesJ := ("reg_lines", Json.arr (lines.map (fun e =>
      Json.arr #[toJson e.1, toJson e.2.file, lineNoJ e.2.lineNo])).toArray)
  match getCoverageReport traces reg ⟨c.branch, c.line⟩ c.nsrc with
  | .error e => (errJ e).mergeObj (Json.mkObj [regJ, linesJ])
  | .ok r =>
    let t := xmlTotals r
    Json.mkObj [regJ, linesJ,
      ("bc", optRatJ r.branchCoverage), ("lc", optRatJ r.lineCoverage),
      ("branches", covJ r.branches), ("branchless", covJ r.branchless), ("lines", covJ r.lines),
      ("anns", Json.arr (r.lineAnnotations.map annJ).toArray),
      ("xml_totals", Json.arr #[optRatJ t.lineRate, optRatJ t.branchRate, toJson t.linesCovered,
        toJson t.linesValid, toJson t.branchesCovered, toJson t.branchesValid]),
      ("xml_lines", Json.arr ((r.lineAnnotations.filterMap xmlLine).map xmlLineJ).toArray),
      ("html", Json.arr (r.lineAnnotations.map (fun a =>
        Json.arr #[toJson (htmlClass a),
          if a.total.existing = 0 then Json.null else toJson a.message])).toArray)]

partial def loop (h : IO.FS.Stream) : IO Unit := do
  let line ← h.getLine
  if line.isEmpty then return ()
  let out := match Json.parse line >>= fromJson? (α := Case) with
    | .ok c => (runCase c).compress
    | .error e => (Json.mkObj [("bad-op", e)]).compress
  IO.println out
  loop h

def main : IO Unit := do loop (← IO.getStdin)
