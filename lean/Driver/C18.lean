import Lean.Data.Json
import PynguinModel.Model.ExportImports
import PynguinModel.Model.SeedPatch
/-! Line-protocol driver for C18: one JSON suite per line in, one JSON description of the emitted file
(as the model predicts it) per line out. -/
open Lean PynguinModel.ExportImports PynguinModel.SeedPatch

deriving instance FromJson for Obj
deriving instance FromJson for Cls
deriving instance FromJson for AKind
deriving instance FromJson for Assertion
deriving instance FromJson for Stmt
deriving instance FromJson for Suite
deriving instance FromJson for Val
deriving instance FromJson for SeedArg

def effJ : Eff → Json
  | .val v => Json.mkObj [("val", v.repr)]
  | .tyName s => Json.mkObj [("ty", s)]

/-- What the emitted `_pynguin_deterministic_seed` and the generation-time patch hand the original `seed`
for every probe argument (only when the file has a seed preamble). -/
def seedJ (s : Suite) (probes : List SeedArg) : Json :=
  match s.seed with
  | none => Json.null
  | some n => Json.mkObj [("export", Json.arr (probes.map (fun x => effJ (exportSeed n x))).toArray),
                          ("gen", Json.arr (probes.map (fun x => effJ (genSeed n x))).toArray)]

def kindStr : AKind → String
  | .float => "float" | .object => "object" | .typeName => "typeName"
  | .isinstance => "isinstance" | .len => "len" | .exception => "exception"

def optStr : Option String → Json
  | some s => Json.str s
  | none => Json.null

def itemJ : Item → Json
  | .bare s => Json.arr #["bare", optStr s.bound]
  | .raises c s => Json.arr #["raises", c.name, optStr s.bound]
  | .assertion a => Json.arr #["assert", kindStr a.kind]

def outcomeStr : Outcome → String
  | .passed => "passed" | .failed => "failed" | .xfailed => "xfailed" | .xpassStrictFailed => "failed"

def runCase (s : Suite) (probes : List SeedArg) : Json :=
  let env := moduleEnv s
  let excTops := excImportTops s.sutName (allUsedExc s)
  let report := runFile s (fun st => st.exc) (fun _ => true)
  Json.mkObj [
    ("needs_pytest", toJson (needsPytest s)),
    ("names", toJson (env.map (·.1))),
    ("exc_imports", toJson (excTops.map (fun t => t.binds.map (·.1)))),
    ("fns", Json.arr ((fns s).map (fun f =>
        Json.mkObj [("xfail", toJson f.xfail), ("items", Json.arr (f.items.map itemJ).toArray)])).toArray),
    ("imports_ok", toJson ((runTops (tops s) []).isSome)),
    ("names_ok", toJson ((fns s).all (fun f => (fnRefs s f).all (refOk env)))),
    -- per function: the classes named by `pytest.raises(...)`, the module that defines each, and whether the
    -- emitted file's module-level names resolve the class name to that class (theorem `raises_class_imported`)
    ("raises_classes", toJson ((fns s).map (fun f => (usedExc f).map (fun c =>
        Json.arr #[c.name, c.module, toJson (refOk env (c.name, clsObj s.sutName c.module c.name))])))),
    ("seed_eff", seedJ s probes),
    ("report", match report with
      | some l => toJson (l.map outcomeStr)
      | none => Json.null) ]

partial def loop (h : IO.FS.Stream) : IO Unit := do
  let line ← h.getLine
  if line.isEmpty then return ()
  let parsed : Except String (Suite × List SeedArg) := do
    let j ← Json.parse line
    let c ← fromJson? (α := Suite) j
    let probes ← match j.getObjVal? "seedProbes" with
      | .ok pj => fromJson? (α := List SeedArg) pj
      | .error _ => pure []
    pure (c, probes)
  let out := match parsed with
    | .ok (c, probes) => (runCase c probes).compress
    | .error e => (Json.mkObj [("bad-op", e)]).compress
  IO.println out
  loop h

def main : IO Unit := do loop (← IO.getStdin)
