import Lean.Data.Json
import PynguinModel.Model.Generators
/-! Line-protocol driver for C26: one JSON case per line in, one JSON line out.

Case: `{"classes":[[cls,[base,…]],…], "extra":[[sup,sub],…], "tower":[bool,int,float,complex]|null,
        "generics":[[cls,k],…], "anyD":n, "maxU":n, "prims":[cls,…], "strs":[str(class),…], "pool":[ty,…],
        "accs":[[retPoolIndex, fixedPoolIndex|null],…] (by generator id), "adds":[generatorId,…],
        "ops":[["q",[kind,[i,j]]] | ["edge",["",[sup,sub]]] | ["gens",["",[i,0]]] | ["upd",["",[generatorId,obsPoolIndex]]]
               | ["add",["",[generatorId,0]]],…], "final":[[kind,[i,j]],…]}`
Types: `"A"` Any, `"N"` None, `{"i":[cls,[ty,…]]}`, `{"t":[unknown_size,[ty,…]]}`, `{"u":[ty,…]}`.
Query kinds (i, j index the pool, or are class ids): `subclass sub maybe dist subs sups`.
Output: `{"edges":…, "table":[[ty,[id,…]],…] (after the initial adds), "out":[answer|null|{"h":[[id,d],…],"r":[id,…]}
         |{"tbl":table,"ret":ty} (after `upd`/`add`: the whole table and the accessible's signature return type),…],
         "final":[answer,…], "table_end":table, "rets":[ty,…]}`. -/
open Lean PynguinModel.Types PynguinModel.Generators

partial def parseTy (j : Json) : Except String Ty :=
  match j with
  | .str "A" => pure .any
  | .str "N" => pure .none
  | .obj _ =>
    match j.getObjVal? "i" with
    | .ok (.arr #[c, .arr as]) => do
        let c ← c.getNat?
        let as ← as.toList.mapM parseTy
        pure (.inst c as)
    | .ok _ => throw "bad inst"
    | .error _ =>
    match j.getObjVal? "t" with
    | .ok (.arr #[.bool u, .arr as]) => do pure (.tuple u (← as.toList.mapM parseTy))
    | .ok _ => throw "bad tuple"
    | .error _ =>
    match j.getObjVal? "u" with
    | .ok (.arr is) => do pure (.union (← is.toList.mapM parseTy))
    | _ => throw "bad type"
  | _ => throw "bad type"

partial def tyJson : Ty → Json
  | .any => "A"
  | .none => "N"
  | .inst c as => Json.mkObj [("i", Json.arr #[toJson c, Json.arr (as.map tyJson).toArray])]
  | .tuple u as => Json.mkObj [("t", Json.arr #[toJson u, Json.arr (as.map tyJson).toArray])]
  | .union is => Json.mkObj [("u", Json.arr (is.map tyJson).toArray)]

structure Case where
  classes : List (Nat × List Nat)
  extra : List (Nat × Nat)
  tower : Option (List Nat)
  generics : List (Nat × Nat)
  anyD : Nat
  maxU : Nat
  prims : List Nat
  strs : List String
  pool : List Json
  accs : List (Nat × Option Nat)
  adds : List Nat
  ops : List (String × String × Nat × Nat)
  final : List (String × Nat × Nat)
  deriving FromJson

def optJ : Option Nat → Json
  | some n => toJson n
  | none => Json.null

def ansJ : Answer → Json
  | .b v => toJson v
  | .d v => optJ v
  | .cs v => toJson v

def runCase (c : Case) : Except String Json := do
  let g0 := ofClassTable c.classes c.generics
  let g1 := c.extra.foldl (fun g e => addEdge g e.1 e.2) g0
  let g ← match c.tower with
    | none => pure g1
    | some [b, i, f, x] => pure (enableTower g1 b i f x)
    | some _ => throw "bad tower"
  let pool ← c.pool.mapM parseTy
  let pool := pool.toArray
  let get (i : Nat) : Except String Ty :=
    match pool[i]? with | some t => pure t | none => throw s!"pool index {i}"
  let mkq (kind : String) (i j : Nat) : Except String Query := do
    match kind with
    | "subclass" => pure (.subclass i j)
    | "sub" => pure (.sub (← get i) (← get j))
    | "maybe" => pure (.maybe (← get i) (← get j))
    | "dist" => pure (.dist (← get i) (← get j))
    | "subs" => pure (.subclasses i)
    | "sups" => pure (.superclasses i)
    | _ => throw s!"unknown query kind {kind}"
  let accs ← c.accs.mapM fun (ri, fi) => do
    let fixed ← match fi with
      | some k => do pure (some (← get k))
      | none => pure none
    pure ({ ret := (← get ri), fixed := fixed } : Acc)
  let key := tyStr c.strs
  let tblJ (tbl : Table) : Json := Json.arr (tbl.map fun p => Json.arr #[tyJson p.1, toJson p.2]).toArray
  let retJ (cl : Cl) (i : Nat) : Json := match cl.accs[i]? with | some a => tyJson a.ret | none => Json.null
  let mut cl : Cl := c.adds.foldl (addGenerator c.prims) ⟨[], accs⟩
  let tbl0 := cl.tbl
  let mut s : St := ⟨g, []⟩
  let mut outs : Array Json := #[]
  for (op, kind, i, j) in c.ops do
    match op with
    | "q" =>
      let r := ask c.anyD s (← mkq kind i j)
      s := r.1
      outs := outs.push (ansJ r.2)
    | "edge" =>
      s := addSubclassEdge s i j
      outs := outs.push Json.null
    | "gens" =>
      let T ← get i
      let h := offeredHeuristic s.g c.anyD c.prims cl.tbl T
      let r := offeredRandom s.g cl.tbl T
      outs := outs.push (Json.mkObj [
        ("h", Json.arr (h.map fun p => Json.arr #[toJson p.1, optJ p.2]).toArray), ("r", toJson r)])
    | "upd" =>
      cl := updateReturnType key c.maxU cl i (← get j)
      outs := outs.push (Json.mkObj [("tbl", tblJ cl.tbl), ("ret", retJ cl i)])
    | "add" =>
      cl := addGenerator c.prims cl i
      outs := outs.push (Json.mkObj [("tbl", tblJ cl.tbl), ("ret", retJ cl i)])
    | _ => throw s!"unknown op {op}"
  let mut fin : Array Json := #[]
  for (kind, i, j) in c.final do
    let r := ask c.anyD s (← mkq kind i j)
    s := r.1
    fin := fin.push (ansJ r.2)
  pure (Json.mkObj [("edges", toJson s.g.edges),
                    ("table", tblJ tbl0), ("out", Json.arr outs), ("final", Json.arr fin),
                    ("table_end", tblJ cl.tbl), ("rets", Json.arr (cl.accs.map fun a => tyJson a.ret).toArray)])

partial def loop (h : IO.FS.Stream) : IO Unit := do
  let line ← h.getLine
  if line.isEmpty then return
  let l := line.trimAscii.toString
  if l.isEmpty then
    IO.println "{\"bad-op\":\"empty\"}"
  else
    let r := do
      let j ← Json.parse l
      let c : Case ← fromJson? j
      runCase c
    match r with
    | .ok j => IO.println j.compress
    | .error e => IO.println (Json.mkObj [("bad-op", e)]).compress
  loop h

def main : IO Unit := do
  loop (← IO.getStdin)
