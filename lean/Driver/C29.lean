import Lean.Data.Json
import PynguinModel.Model.FsIsolation
/-! Line-protocol driver for C29: one JSON case per line in, one JSON result per line out.
case = {"init": [[path, node]…], "ops": [op…]};  result = {"res": […], "created": […], "pre": fs, "post": fs} -/
open Lean PynguinModel.FsIsolation

deriving instance FromJson, ToJson for Node
deriving instance FromJson for Mode
deriving instance FromJson for Flags
deriving instance FromJson for OpenApi
deriving instance FromJson for RenameApi
deriving instance FromJson for CopyApi
deriving instance FromJson for RemoveApi
deriving instance FromJson for RmdirApi
deriving instance FromJson for Op

structure Case where
  init : List (Path × Node)
  ops : List Op
  deriving FromJson

def resJ : Res → Json
  | .ok => "ok"
  | .refused => "refused"
  | .failed => "failed"
  | .notFound => "failed"
  | .unmodelled => "unmodelled"

def fsJ (fs : FS) : Json :=
  Json.arr (fs.map (fun e => Json.arr #[toJson e.1, toJson e.2])).toArray

def runCase (c : Case) : Json :=
  if !prefixClosedB c.init then Json.mkObj [("bad-op", "initial tree is not prefix-closed")] else
  let r := runLog c.ops ⟨c.init, []⟩
  Json.mkObj [("res", Json.arr (r.2.map resJ).toArray), ("created", toJson r.1.created),
              ("pre", fsJ r.1.fs), ("post", fsJ (exitCleanup r.1))]

partial def loop (h : IO.FS.Stream) : IO Unit := do
  let line ← h.getLine
  if line.isEmpty then return ()
  let out := match Json.parse line >>= fromJson? (α := Case) with
    | .ok c => (runCase c).compress
    | .error e => (Json.mkObj [("bad-op", e)]).compress
  IO.println out
  loop h

def main : IO Unit := do loop (← IO.getStdin)
