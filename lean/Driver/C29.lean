import Lean.Data.Json
import PynguinModel.Model.FsCwd
/-! Line-protocol driver for C29: one JSON case per line in, one JSON result per line out.
case = {"init": [[path, node]…], "ops": [op | {"chdir": {"p": path}} | {"reenter": {}} …],
        "spell": [{"sp": segs?, "sq": segs?, "rel": bool?, "relq": bool?}…]?, "probes": [path…]?};
one PROCESS: the operations run inside a `FilesystemIsolation`, `reenter` exits it and enters a new one, `chdir`
changes the working directory (initially the sandbox root).  A spelling is absolute (segments below the sandbox
root; it must normalise to the argument it spells) or, with `rel`/`relq`, relative to the CURRENT working directory
(then the argument written in the operation is only the generator's intention: the model resolves the spelling).
result = {"res": […], "args": [resolved arguments | null …], "cwds": [working directory after each step | null …],
"rounds": [{"created", "pre", "post", "iso"}…]} — one round per isolation; `iso` is the STRING walk of
`_is_isolated` (`isIsolatedStr`) on the recorded set before that exit, for every probe path. -/
open Lean PynguinModel.FsIsolation

deriving instance FromJson, ToJson for Node
deriving instance FromJson for Mode
deriving instance FromJson for Flags
deriving instance FromJson for OpenApi
deriving instance FromJson for RenameApi
deriving instance FromJson for CopyApi
deriving instance FromJson for RemoveApi
deriving instance FromJson for RmdirApi
deriving instance FromJson for Op

/-- how step `i` spells its arguments (absent = the plain absolute normal form); `bare` (no leading `./`) only
concerns the implementation side -/
structure SpellJ where
  sp : Option (List String) := none
  sq : Option (List String) := none
  rel : Option Bool := none
  relq : Option Bool := none
  deriving FromJson

inductive JOp where
  | op (o : Op)
  | chdir (p : Path)
  | reenter

def parseJOp (j : Json) : Except String JOp :=
  match j.getObjVal? "chdir" with
  | .ok v => do
    let p ← v.getObjValAs? (List String) "p"
    pure (.chdir p)
  | .error _ =>
    match j.getObjVal? "reenter" with
    | .ok _ => pure .reenter
    | .error _ => .op <$> (fromJson? j : Except String Op)

instance : FromJson JOp := ⟨parseJOp⟩

structure Case where
  init : List (Path × Node)
  ops : List JOp
  spell : Option (List SpellJ) := none
  probes : Option (List Path) := none
  deriving FromJson

def resJ : Res → Json
  | .ok => "ok"
  | .refused => "refused"
  | .failed => "failed"
  | .notFound => "failed"
  | .unmodelled => "unmodelled"

def fsJ (fs : FS) : Json :=
  Json.arr (fs.map (fun e => Json.arr #[toJson e.1, toJson e.2])).toArray

def segOk (s : String) : Bool := s == "" || s == "." || s == ".." || cleanNameB s

/-- the spelling of one argument; an absolute spelling must normalise to the argument it spells -/
def mkSpell (rel : Bool) (segs : Option (List String)) (p : Path) : Except String Spell :=
  let sp : Spell := ⟨rel, segs.getD p⟩
  if !sp.segs.all segOk then .error "a spelling has a segment that is neither a file name nor '', '.', '..'"
  else if !rel && climb [] sp.segs != some p then .error "a spelling does not normalise to its argument"
  else .ok sp

def toCOp (j : JOp) (sl : SpellJ) : Except String COp :=
  let rel := sl.rel.getD false
  let relq := sl.relq.getD rel
  match j with
  | .reenter => .ok .reenter
  | .chdir p => do
    let sp ← mkSpell rel sl.sp p
    pure (.chdir sp)
  | .op o =>
    let a := opArgs o
    match a.2, sl.sq with
    | none, some _ => .error "a spelling for an argument the operation does not have"
    | _, _ => do
      let sp ← mkSpell rel sl.sp a.1
      let sq ← mkSpell relq sl.sq (a.2.getD [])
      pure (.op o sp sq)

def cops (c : Case) : Except String (List COp) :=
  match c.spell with
  | none => c.ops.mapM (fun j => toCOp j {})
  | some sl =>
    if sl.length != c.ops.length then .error "spell list does not match the operations"
    else (c.ops.zip sl).mapM (fun x => toCOp x.1 x.2)

def jopPaths : JOp → List Path
  | .op o => let a := opArgs o; a.1 :: a.2.toList
  | .chdir p => [p]
  | .reenter => []

def pathsJ (l : List Path) : Json := toJson l

/-- the arguments the step acts on, resolved against the working directory of the call -/
def argsJ (s : CSt) : COp → Json
  | .reenter => pathsJ []
  | .chdir sp => match resolve s.cwd sp with | some p => pathsJ [p] | none => Json.null
  | .op o sp sq =>
    match resolveArgs s o sp sq with
    | some (p, q) => pathsJ (if hasDst o then [p, q] else [p])
    | none => Json.null

def roundJ (probes : List Path) (s : St) : Json :=
  Json.mkObj [("created", toJson s.created), ("pre", fsJ s.fs), ("post", fsJ (exitCleanup s)),
              ("iso", toJson (probes.map (fun p => isIsolatedStr s.created p)))]

structure RunAcc where
  s : CSt
  res : Array Json := #[]
  args : Array Json := #[]
  cwds : Array Json := #[]
  rounds : Array Json := #[]
  bad : Bool := false

def cwdJ : Option Path → Json
  | some d => toJson d
  | none => Json.null

def runCase (c : Case) : Json :=
  if !prefixClosedB c.init then Json.mkObj [("bad-op", "initial tree is not prefix-closed")] else
  let probes := c.probes.getD []
  if !(c.init.all (fun e => cleanPathB e.1) && c.ops.all (fun o => (jopPaths o).all cleanPathB)
       && probes.all cleanPathB) then
    Json.mkObj [("bad-op", "a path component is not a file name (empty, '.', '..' or contains '/')")] else
  match cops c with
  | .error e => Json.mkObj [("bad-op", e)]
  | .ok ops =>
  let a := ops.foldl (fun (a : RunAcc) co =>
      let aj := argsJ a.s co
      let bad := a.bad || !a.s.st.created.all cleanPathB
      let rounds := match co with
        | .reenter => a.rounds.push (roundJ probes a.s.st)
        | _ => a.rounds
      let r := stepC co a.s
      { s := r.1, res := a.res.push (resJ r.2), args := a.args.push aj, cwds := a.cwds.push (cwdJ r.1.cwd),
        rounds := rounds, bad := bad }) { s := startC c.init [] }
  if a.bad || !a.s.st.created.all cleanPathB then
    Json.mkObj [("bad-op", "a recorded path is not made of file names")] else
  Json.mkObj [("res", Json.arr a.res), ("args", Json.arr a.args), ("cwds", Json.arr a.cwds),
              ("rounds", Json.arr (a.rounds.push (roundJ probes a.s.st)))]

partial def loop (h : IO.FS.Stream) : IO Unit := do
  let line ← h.getLine
  if line.isEmpty then return ()
  let out := match Json.parse line >>= fromJson? (α := Case) with
    | .ok c => (runCase c).compress
    | .error e => (Json.mkObj [("bad-op", e)]).compress
  IO.println out
  loop h

def main : IO Unit := do loop (← IO.getStdin)
