import Lean.Data.Json
import PynguinModel.Model.FsPathStr
/-! Line-protocol driver for C29: one JSON case per line in, one JSON result per line out.
case = {"init": [[path, node]…], "ops": [op…], "spell": [{"sp": segs?, "sq": segs?}…]?, "probes": [path…]?};
result = {"res": […], "created": […], "pre": fs, "post": fs, "iso": [bool…]} where `iso` is the STRING walk of
`_is_isolated` (`isIsolatedStr`) on the recorded set before exit, for every probe path.  Every path component
must be a real file name and every spelling must normalise (`normSegs`) to the argument it spells. -/
open Lean PynguinModel.FsIsolation

deriving instance FromJson, ToJson for Node
deriving instance FromJson for Mode
deriving instance FromJson for Flags
deriving instance FromJson for OpenApi
deriving instance FromJson for RenameApi
deriving instance FromJson for CopyApi
deriving instance FromJson for RemoveApi
deriving instance FromJson for RmdirApi
deriving instance FromJson for Op

/-- how operation `i` spells its arguments (segments relative to the sandbox root; absent = normal form);
`rel` (spelled relative to the working directory = the sandbox root) only concerns the implementation side -/
structure SpellJ where
  sp : Option (List String) := none
  sq : Option (List String) := none
  rel : Option Bool := none
  deriving FromJson

structure Case where
  init : List (Path × Node)
  ops : List Op
  spell : Option (List SpellJ) := none
  probes : Option (List Path) := none
  deriving FromJson

def resJ : Res → Json
  | .ok => "ok"
  | .refused => "refused"
  | .failed => "failed"
  | .notFound => "failed"
  | .unmodelled => "unmodelled"

def fsJ (fs : FS) : Json :=
  Json.arr (fs.map (fun e => Json.arr #[toJson e.1, toJson e.2])).toArray

def spOps (c : Case) : Option (List SpOp) :=
  match c.spell with
  | none => some (c.ops.map (fun o => ⟨o, none, none⟩))
  | some sl =>
    if sl.length != c.ops.length then none
    else some ((c.ops.zip sl).map (fun x => ⟨x.1, x.2.sp, x.2.sq⟩))

def argPaths (o : Op) : List Path := let a := opArgs o; a.1 :: a.2.toList

def runCase (c : Case) : Json :=
  if !prefixClosedB c.init then Json.mkObj [("bad-op", "initial tree is not prefix-closed")] else
  let probes := c.probes.getD []
  if !(c.init.all (fun e => cleanPathB e.1) && c.ops.all (fun o => (argPaths o).all cleanPathB)
       && probes.all cleanPathB) then
    Json.mkObj [("bad-op", "a path component is not a file name (empty, '.', '..' or contains '/')")] else
  match spOps c with
  | none => Json.mkObj [("bad-op", "spell list does not match the operations")]
  | some ops =>
  if !ops.all spellsArgs then Json.mkObj [("bad-op", "a spelling does not normalise to its argument")] else
  let r := runLogSp ops ⟨c.init, []⟩
  if !r.1.created.all cleanPathB then Json.mkObj [("bad-op", "a recorded path is not made of file names")] else
  Json.mkObj [("res", Json.arr (r.2.map resJ).toArray), ("created", toJson r.1.created),
              ("pre", fsJ r.1.fs), ("post", fsJ (exitCleanup r.1)),
              ("iso", toJson (probes.map (fun p => isIsolatedStr r.1.created p)))]

partial def loop (h : IO.FS.Stream) : IO Unit := do
  let line ← h.getLine
  if line.isEmpty then return ()
  let out := match Json.parse line >>= fromJson? (α := Case) with
    | .ok c => (runCase c).compress
    | .error e => (Json.mkObj [("bad-op", e)]).compress
  IO.println out
  loop h

def main : IO Unit := do loop (← IO.getStdin)
