import Lean.Data.Json
import PynguinModel.Model.SubprocessAlign
import PynguinModel.Model.SubprocessConfig
import PynguinModel.Model.SubprocessPickle
/-! Line-protocol driver for C31: one JSON case per line in, one JSON result per line out. -/
open Lean PynguinModel.SubprocessAlign

deriving instance FromJson, ToJson for Assertion
deriving instance FromJson, ToJson for Cov
deriving instance FromJson, ToJson for Res

deriving instance FromJson for RoundTrip

/-- What the harness knows about a probe: the answer of `baditems` itself (`bad` / `raised`), or — `trips` —
what `dill.copy` does to every single item (measured by the harness, item by item); then the model computes
the answer of `dill.detect.baditems` as the code calls it (`codeExact`). -/
inductive ProbeJ (α : Type) where
  | bad (items : List α) | raised
  | trips (items : List (α × RoundTrip))
  deriving FromJson

/-- An item the harness did not measure cannot occur (the harness measures every item of the result); it
counts as not picklable so that an incomplete table is noticed. -/
def tripOf [DecidableEq α] (items : List (α × RoundTrip)) (a : α) : RoundTrip := (dget items a).getD .raises

def ProbeJ.toProbe [DecidableEq α] (all : List α) : ProbeJ α → Probe α
  | .bad items => .bad items
  | .raised => .raised
  | .trips items => .bad (badItems codeExact (tripOf items) all)

structure ProbesJ where
  excs : ProbeJ Nat
  asserts : ProbeJ Assertion
  auxOut : List String
  deriving FromJson

/-- The probes for result `r`: `baditems(result.exceptions)` and `baditems(list(chain(*trace.values())))`. -/
def ProbesJ.toProbes (p : ProbesJ) (r : Res) : Probes :=
  { excs := p.excs.toProbe (r.excs.map (·.1)), asserts := p.asserts.toProbe (allAssertions r.trace),
    aux := fun _ => p.auxOut }

inductive ReplyJ where
  | noResults | recvFailed | child
  | results (rs : List Res) (newB : List (Option Bindings))
  deriving FromJson

structure TestJ where
  bound : Bindings
  run : Res
  probes : ProbesJ
  deriving FromJson

structure ExecCase where
  tests : List TestJ
  batch : ReplyJ
  singles : List ReplyJ
  deriving FromJson

deriving instance FromJson for ExecConfig

/-- A `config` case: the parent's configuration, the sizes and bindings of the tests of the batch and,
per started child in start order (batch first), whether it runs at all (`alive`). -/
structure ConfigCase where
  settings : Nat
  cfg : ExecConfig
  sizes : List Nat
  bound : List Bindings
  alive : List Bool
  deriving FromJson

structure TimedTestJ where
  bound : Bindings
  run : Res
  probes : ProbesJ
  size : Nat
  dur : Nat
  deriving FromJson

/-- A `timed` case: real (slow) tests whose nominal duration is known; no child crashes. -/
structure TimedCase where
  cfg : ExecConfig
  tests : List TimedTestJ
  deriving FromJson

inductive Case where
  | fix (stmts : List (Option String)) (trace : Trace) (new : Option Bindings)
  | pickle (res : Res) (probes : ProbesJ)
  | exec (c : ExecCase)
  | config (c : ConfigCase)
  | timed (c : TimedCase)
  deriving FromJson

def errJ : Err → Json
  | .key => Json.mkObj [("err", "KeyError")]
  | .value => Json.mkObj [("err", "ValueError")]

def runExec (c : ExecCase) : Json :=
  let n := c.tests.length
  let dflt : TestJ := { bound := [], run := timeoutRes, probes := { excs := .bad [], asserts := .bad [], auxOut := [] } }
  let get (i : Nat) : TestJ := c.tests.getD i dflt
  let run (i : Nat) : Res := (get i).run
  let probe (i : Nat) : Probes := (get i).probes.toProbes (get i).run
  let bind (i : Nat) : Bindings := (get i).bound
  let conv (ts : List Nat) (r : ReplyJ) : Reply :=
    match r with
    | .noResults => .noResults
    | .recvFailed => .recvFailed
    | .child => let x := childRun run probe bind ts; .results x.1 x.2
    | .results rs nb => .results rs nb
  let remote (ts : List Nat) : Reply :=
    if ts == List.range n then conv ts c.batch
    else match ts with
      | [i] => conv ts (c.singles.getD i .noResults)
      | _ => .noResults
  match executeMultiple remote bind (List.range n) with
  | .ok out => Json.mkObj [("ok", toJson out)]
  | .error e => errJ e

def argJ : Arg Nat → Json
  | .patchRandom g => Json.mkObj [("patchRandom", toJson g)]
  | .props h => Json.mkObj [("props", toJson h)]
  | .provider h => Json.mkObj [("provider", toJson h)]
  | .num n => Json.mkObj [("num", toJson n)]
  | .observers os => Json.mkObj [("observers", toJson os)]
  | .tests ts => Json.mkObj [("tests", toJson ts)]
  | .bindings bs => Json.mkObj [("bindings", toJson bs)]
  | .conn => Json.str "conn"

def runConfig (c : ConfigCase) : Json :=
  let n := c.sizes.length
  let size (i : Nat) : Nat := c.sizes.getD i 0
  let bind (i : Nat) : Bindings := c.bound.getD i []
  let ls := launches c.settings c.cfg size bind (fun _ => c.alive.getD 0 false) (List.range n)
  let one (k : Nat) (l : Launch Nat) : Json :=
    let child : Json :=
      if c.alive.getD k false then
        match childEntry l.args with
        | none => Json.mkObj [("raises", true)]
        | some s => Json.mkObj [("settings", toJson s.settings), ("maxT", toJson s.cfg.maxTimeout),
            ("perStmt", toJson s.cfg.perStatement), ("props", toJson s.cfg.props),
            ("provider", toJson s.cfg.provider), ("observers", toJson s.cfg.yieldRemote),
            ("bounds", toJson (s.tests.map (fun t => timeBound s.cfg (size t))))]
      else Json.null
    Json.mkObj [("args", Json.arr (l.args.map argJ).toArray), ("poll", toJson l.poll), ("child", child)]
  Json.mkObj [("launches", Json.arr ((List.range ls.length).zip ls |>.map (fun p => one p.1 p.2)).toArray),
              ("local", toJson (c.sizes.map (timeBound c.cfg)))]

def runTimed (c : TimedCase) : Json :=
  let n := c.tests.length
  let dflt : TimedTestJ := { bound := [], run := timeoutRes, probes := { excs := .bad [], asserts := .bad [], auxOut := [] },
                             size := 0, dur := 0 }
  let get (i : Nat) : TimedTestJ := c.tests.getD i dflt
  let size (i : Nat) : Nat := (get i).size
  let dur (i : Nat) : Nat := (get i).dur
  let body (_ _ : Nat) (_ : List String) (i : Nat) : Res := (get i).run
  let probe (i : Nat) : Probes := (get i).probes.toProbes (get i).run
  let bind (i : Nat) : Bindings := (get i).bound
  let loc := (List.range n).map (execute c.cfg size dur body)
  match executeMultiple (remoteCfg 1 c.cfg size dur body probe bind (fun _ => .none)) bind (List.range n) with
  | .ok out => Json.mkObj [("ok", toJson out), ("local", toJson loc)]
  | .error e => errJ e

def runCase : Case → Json
  | .fix stmts t new =>
    let old := createBinding stmts
    match fixOne old { timeoutRes with trace := t } new with
    | .ok r => Json.mkObj [("old", toJson old), ("ok", toJson r.trace)]
    | .error e => Json.mkObj [("old", toJson old), ("err", match e with | .key => "KeyError" | .value => "ValueError")]
  | .pickle r p =>
    let r' := fixForPickle (p.toProbes r) r
    Json.mkObj [("res", toJson r'), ("newB", toJson (newBindings r' [(0, "b")]).isSome)]
  | .exec c =>
    if c.tests.length > 1 && c.singles.length != c.tests.length then
      Json.mkObj [("bad-op", "singles must have one reply per test")]
    else runExec c
  | .config c =>
    if c.bound.length != c.sizes.length then Json.mkObj [("bad-op", "one binding dict per test")]
    else runConfig c
  | .timed c => runTimed c

partial def loop (h : IO.FS.Stream) : IO Unit := do
  let line ← h.getLine
  if line.isEmpty then return ()
  let out := match Json.parse line >>= fromJson? (α := Case) with
    | .ok c => (runCase c).compress
    | .error e => (Json.mkObj [("bad-op", e)]).compress
  IO.println out
  loop h

def main : IO Unit := do loop (← IO.getStdin)
