import Lean.Data.Json
import PynguinModel.Model.SubprocessAlign
/-! Line-protocol driver for C31: one JSON case per line in, one JSON result per line out. -/
open Lean PynguinModel.SubprocessAlign

deriving instance FromJson, ToJson for Assertion
deriving instance FromJson, ToJson for Cov
deriving instance FromJson, ToJson for Res

inductive ProbeJ (α : Type) where
  | bad (items : List α) | raised
  deriving FromJson

def ProbeJ.toProbe : ProbeJ α → Probe α
  | .bad items => .bad items
  | .raised => .raised

structure ProbesJ where
  excs : ProbeJ Nat
  asserts : ProbeJ Assertion
  auxOut : List String
  deriving FromJson

def ProbesJ.toProbes (p : ProbesJ) : Probes :=
  { excs := p.excs.toProbe, asserts := p.asserts.toProbe, aux := fun _ => p.auxOut }

inductive ReplyJ where
  | noResults | recvFailed | child
  | results (rs : List Res) (newB : List (Option Bindings))
  deriving FromJson

structure TestJ where
  bound : Bindings
  run : Res
  probes : ProbesJ
  deriving FromJson

structure ExecCase where
  tests : List TestJ
  batch : ReplyJ
  singles : List ReplyJ
  deriving FromJson

inductive Case where
  | fix (stmts : List (Option String)) (trace : Trace) (new : Option Bindings)
  | pickle (res : Res) (probes : ProbesJ)
  | exec (c : ExecCase)
  deriving FromJson

def errJ : Err → Json
  | .key => Json.mkObj [("err", "KeyError")]
  | .value => Json.mkObj [("err", "ValueError")]

def runExec (c : ExecCase) : Json :=
  let n := c.tests.length
  let dflt : TestJ := { bound := [], run := timeoutRes, probes := { excs := .bad [], asserts := .bad [], auxOut := [] } }
  let get (i : Nat) : TestJ := c.tests.getD i dflt
  let run (i : Nat) : Res := (get i).run
  let probe (i : Nat) : Probes := (get i).probes.toProbes
  let bind (i : Nat) : Bindings := (get i).bound
  let conv (ts : List Nat) (r : ReplyJ) : Reply :=
    match r with
    | .noResults => .noResults
    | .recvFailed => .recvFailed
    | .child => let x := childRun run probe bind ts; .results x.1 x.2
    | .results rs nb => .results rs nb
  let remote (ts : List Nat) : Reply :=
    if ts == List.range n then conv ts c.batch
    else match ts with
      | [i] => conv ts (c.singles.getD i .noResults)
      | _ => .noResults
  match executeMultiple remote bind (List.range n) with
  | .ok out => Json.mkObj [("ok", toJson out)]
  | .error e => errJ e

def runCase : Case → Json
  | .fix stmts t new =>
    let old := createBinding stmts
    match fixOne old { timeoutRes with trace := t } new with
    | .ok r => Json.mkObj [("old", toJson old), ("ok", toJson r.trace)]
    | .error e => Json.mkObj [("old", toJson old), ("err", match e with | .key => "KeyError" | .value => "ValueError")]
  | .pickle r p =>
    let r' := fixForPickle p.toProbes r
    Json.mkObj [("res", toJson r'), ("newB", toJson (newBindings r' [(0, "b")]).isSome)]
  | .exec c =>
    if c.tests.length > 1 && c.singles.length != c.tests.length then
      Json.mkObj [("bad-op", "singles must have one reply per test")]
    else runExec c

partial def loop (h : IO.FS.Stream) : IO Unit := do
  let line ← h.getLine
  if line.isEmpty then return ()
  let out := match Json.parse line >>= fromJson? (α := Case) with
    | .ok c => (runCase c).compress
    | .error e => (Json.mkObj [("bad-op", e)]).compress
  IO.println out
  loop h

def main : IO Unit := do loop (← IO.getStdin)
