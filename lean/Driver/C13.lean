import Lean.Data.Json
import PynguinModel.Model.Archive
/-! Line-protocol driver for C13: one JSON case per line in, one JSON result per line out. -/
open Lean PynguinModel.Archive

deriving instance FromJson for Sol
deriving instance FromJson for Op
deriving instance FromJson for POp
deriving instance FromJson for MInput
deriving instance FromJson for MOp

inductive CCmd where
  | op (op : Op) | solutions
  deriving FromJson

structure CovCase where
  objs : List Nat
  cmds : List CCmd
  deriving FromJson

structure GmCase where
  objs : List Nat
  current : List Nat
  children : List (Nat × List Nat)
  fuel : Nat
  cmds : List (List Sol)
  deriving FromJson

structure PopCase where
  cap : Nat
  cmds : List POp
  deriving FromJson

structure MioCase where
  targets : List Nat
  size : Nat
  cmds : List MOp
  deriving FromJson

inductive Case where
  | cov (c : CovCase) | gm (c : GmCase) | pop (c : PopCase) | mio (c : MioCase)
  deriving FromJson

def errJ : Err → Json
  | .assertion => Json.mkObj [("err", "AssertionError")]
  | .index => Json.mkObj [("err", "IndexError")]
  | .key => Json.mkObj [("err", "KeyError")]

def optId (o : Option Sol) : Json := match o with | some s => toJson s.id | none => Json.null

def snapC (a : CArchive) : List (String × Json) :=
  [("cov", toJson (a.covered.map (fun p => (p.1, p.2.id)))), ("unc", toJson a.uncovered),
   ("obj", toJson a.objectives)]

def finalC (a : CArchive) : List (String × Json) :=
  [("notified", toJson a.notified),
   ("log", Json.arr (a.log.map (fun e => Json.arr #[toJson e.goal, optId e.old, toJson e.new.id])).toArray)]

def runCov (c : CovCase) : Json :=
  let (a, outs) := c.cmds.foldl (fun (acc : CArchive × Array Json) cmd =>
    match cmd with
    | .op (.update sols) =>
      let r := acc.1.update sols
      (r.1, acc.2.push (Json.mkObj (("upd", toJson r.2) :: snapC r.1)))
    | .op (.addGoals gs) =>
      let a' := acc.1.addGoals gs
      (a', acc.2.push (Json.mkObj (("upd", Json.null) :: snapC a')))
    | .solutions =>
      (acc.1, acc.2.push (match acc.1.solutions with
        | some l => Json.mkObj [("sols", toJson (l.map (·.id)))]
        | none => Json.mkObj [("err", "AssertionError")]))) (CArchive.init c.objs, #[])
  Json.mkObj (("outs", Json.arr outs) :: finalC a)

def runGm (c : GmCase) : Json :=
  let m0 : GM := ⟨(CArchive.init c.objs).addGoals c.current, c.current, c.children⟩
  let (m, outs) := c.cmds.foldl (fun (acc : GM × Array Json) sols =>
    match gmUpdate c.fuel acc.1 sols with
    | none => (acc.1, acc.2.push (Json.mkObj [("err", "fuel")]))
    | some m' => (m', acc.2.push (Json.mkObj (("cur", toJson m'.current) :: snapC m'.archive)))) (m0, #[])
  Json.mkObj (("outs", Json.arr outs) :: finalC m.archive)

def snapP (p : Pop) : List (String × Json) :=
  [("cap", toJson p.capacity), ("cnt", toJson p.counter),
   ("sols", toJson (p.sols.map (fun x => (x.1, x.2.id, x.2.size)))),
   ("cov", toJson p.isCovered), ("best", optId p.best)]

def runPop (c : PopCase) : Json :=
  let (_, outs) := c.cmds.foldl (fun (acc : Pop × Array Json) cmd =>
    let (p', o) : Pop × Json := match cmd with
      | .add h s => match acc.1.addSolution h s with
        | .ok r => (r.1, toJson r.2)
        | .error e => (acc.1, errJ e)
      | .shrink n => match acc.1.shrink n with
        | .ok r => (r, Json.null)
        | .error e => (acc.1, errJ e)
      | .sample r => let x := acc.1.sample r; (x.1, optId x.2)
    (p', acc.2.push (Json.mkObj (("r", o) :: snapP p')))) (Pop.init c.cap, #[])
  Json.mkObj [("outs", Json.arr outs)]

def snapM (m : MArchive) : List (String × Json) :=
  [("pops", Json.arr (m.pops.map (fun gp => Json.mkObj (("g", toJson gp.1) :: snapP gp.2))).toArray),
   ("notified", toJson m.notified), ("solutions", toJson (m.solutions.map (·.id))),
   ("ncov", toJson m.numCovered)]

def runMio (c : MioCase) : Json :=
  let (_, outs) := c.cmds.foldl (fun (acc : MArchive × Array Json) cmd =>
    let (m', o) : MArchive × Json := match cmd with
      | .update inps =>
        let r := acc.1.update inps
        (r.m, match r.err with | some e => errJ e | none => toJson r.updated)
      | .shrink n => match acc.1.shrink n with
        | .ok r => (r, Json.null)
        | .error e => (acc.1, errJ e)
    (m', acc.2.push (Json.mkObj (("r", o) :: snapM m')))) (MArchive.init c.targets c.size, #[])
  Json.mkObj [("outs", Json.arr outs)]

/-- `MIOArchive.update` needs one `h` per target for every offered solution. -/
def wellFormed : Case → Bool
  | .mio c =>
    let nt := (MArchive.init c.targets c.size).pops.length
    c.cmds.all (fun cmd => match cmd with
      | .update inps => inps.all (fun i => i.hs.length == nt)
      | .shrink _ => true)
  | _ => true

def runCase (c : Case) : Json :=
  if !wellFormed c then Json.mkObj [("bad-op", "hs length differs from the number of targets")]
  else match c with
    | .cov c => runCov c
    | .gm c => runGm c
    | .pop c => runPop c
    | .mio c => runMio c

partial def loop (h : IO.FS.Stream) : IO Unit := do
  let line ← h.getLine
  if line.isEmpty then return ()
  let out := match Json.parse line >>= fromJson? (α := Case) with
    | .ok c => (runCase c).compress
    | .error e => (Json.mkObj [("bad-op", e)]).compress
  IO.println out
  loop h

def main : IO Unit := do loop (← IO.getStdin)
