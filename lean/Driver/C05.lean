import Lean.Data.Json
import PynguinModel.Model.TracerState
/-! Line-protocol driver for C05: one JSON case per line in, one JSON result per line out. -/
open Lean PynguinModel.TracerState

deriving instance FromJson for Variant
deriving instance FromJson for Exc
deriving instance FromJson for Catch
deriving instance FromJson for Ev

structure Case where
  variant : Variant
  enabled : Bool
  evs : List Ev
  deriving FromJson

def excJ : Option Exc → Json
  | none => Json.null
  | some .exception => "exception"
  | some .base => "base"

def snapJ (s : Snap) : Json :=
  Json.mkObj [("disabled", toJson s.disabled), ("lines", toJson s.lines),
    ("preds", toJson (s.preds.map fun (p, c) => [p, c])), ("instrs", toJson s.instrs),
    ("codeObjs", toJson s.codeObjs)]

def runCase (c : Case) : Json :=
  let t0 : Trace := ⟨[], [], [], []⟩
  let s0 : State := ⟨c.enabled, t0⟩
  let r := execList c.variant s0 c.evs
  let rr := refList c.enabled t0 c.evs
  Json.mkObj [("final", snapJ (snap r.1)), ("raised", excJ r.2),
    ("log", Json.arr ((execListLog c.variant s0 c.evs).map snapJ).toArray),
    ("flags", toJson ((flagsAfter c.variant s0 c.evs).map fun b => !b)),
    ("ref", snapJ ⟨!c.enabled, rr.1.lines, rr.1.preds, rr.1.instrs, rr.1.codeObjs⟩),
    ("refRaised", excJ rr.2)]

partial def loop (h : IO.FS.Stream) : IO Unit := do
  let line ← h.getLine
  if line.isEmpty then return ()
  let out := match Json.parse line >>= fromJson? (α := Case) with
    | .ok c => (runCase c).compress
    | .error e => (Json.mkObj [("bad-op", e)]).compress
  IO.println out
  loop h

def main : IO Unit := do loop (← IO.getStdin)
