import Lean.Data.Json
import PynguinModel.Model.TracerState
/-! Line-protocol driver for C05: one JSON case per line in, one JSON result per line out. -/
open Lean PynguinModel.TracerState

deriving instance FromJson for Variant
deriving instance FromJson for Ev

structure Case where
  variant : Variant
  enabled : Bool
  evs : List Ev
  deriving FromJson

def snapJ (s : Snap) : Json :=
  Json.mkObj [("disabled", toJson s.disabled), ("lines", toJson s.lines),
    ("preds", toJson (s.preds.map fun (p, c) => [p, c]))]

def runCase (c : Case) : Json :=
  let s0 : State := ⟨c.enabled, ⟨[], []⟩⟩
  let r := execList c.variant s0 c.evs
  let rr := refList c.enabled ⟨[], []⟩ c.evs
  Json.mkObj [("final", snapJ (snap r.1)), ("raised", toJson r.2),
    ("log", Json.arr ((execListLog c.variant s0 c.evs).map snapJ).toArray),
    ("ref", snapJ ⟨!c.enabled, rr.1.lines, rr.1.preds⟩)]

partial def loop (h : IO.FS.Stream) : IO Unit := do
  let line ← h.getLine
  if line.isEmpty then return ()
  let out := match Json.parse line >>= fromJson? (α := Case) with
    | .ok c => (runCase c).compress
    | .error e => (Json.mkObj [("bad-op", e)]).compress
  IO.println out
  loop h

def main : IO Unit := do loop (← IO.getStdin)
