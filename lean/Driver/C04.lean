import Lean.Data.Json
import PynguinModel.Model.Distances
/-! Line-protocol driver for C04: one JSON case per line in, one JSON result per line out.
Floats are exact rationals `[num, den]` or the tokens `"nan"`, `"inf"`, `"-inf"`. -/
open Lean PynguinModel.Distances

abbrev P := Except String

def getInt (j : Json) : P Int :=
  match j with
  | .num n => if n.exponent == 0 then pure n.mantissa else throw s!"not an int: {j.compress}"
  | _ => throw s!"not an int: {j.compress}"

def getNat (j : Json) : P Nat := do
  let z ← getInt j
  if z < 0 then throw "negative" else pure z.toNat

def getBool (j : Json) : P Bool :=
  match j with
  | .bool b => pure b
  | _ => throw s!"not a bool: {j.compress}"

def getArr (j : Json) : P (List Json) :=
  match j with
  | .arr a => pure a.toList
  | _ => throw s!"not an array: {j.compress}"

def getNum (j : Json) : P Num :=
  match j with
  | .str "nan" => pure .nan
  | .str "inf" => pure .pinf
  | .str "-inf" => pure .ninf
  | .arr #[n, d] => do
    let n ← getInt n
    let d ← getNat d
    if d == 0 then throw "zero denominator" else pure (.fin ((n : Rat) / (d : Rat)))
  | _ => throw s!"not a number: {j.compress}"

def getErr (j : Json) : P Err :=
  match j with
  | .str "TypeError" => pure .typeError
  | .str "ValueError" => pure .valueError
  | .str "OverflowError" => pure .overflowError
  | .str "AssertionError" => pure .assertionError
  | .str "Other" => pure .other
  | _ => throw s!"unknown error kind: {j.compress}"

def getRes {α} (f : Json → P α) (j : Json) : P (Res α) :=
  match j.getObjVal? "ok", j.getObjVal? "err" with
  | .ok v, .error _ => do pure (.ok (← f v))
  | .error _, .ok e => do pure (.error (← getErr e))
  | _, _ => throw s!"neither ok nor err: {j.compress}"

def getScalar (j : Json) : P Scalar :=
  match j with
  | .str "none" => pure .none
  | _ =>
    match j.getObj? with
    | .ok o =>
      match o.toList with
      | [("int", v)] => do pure (.int (← getInt v))
      | [("bool", v)] => do pure (.bool (← getBool v))
      | [("float", v)] => do pure (.float (← getNum v))
      | [("str", v)] => do pure (.str (← (← getArr v).mapM getNat))
      | [("bytes", v)] => do pure (.bytes (← (← getArr v).mapM getNat))
      | _ => throw s!"unknown scalar: {j.compress}"
    | .error _ => throw s!"unknown scalar: {j.compress}"

def getVal (j : Json) : P PyVal :=
  match j.getObjVal? "list" with
  | .ok v => do pure (.list (← (← getArr v).mapM getScalar))
  | .error _ => do pure (.sc (← getScalar j))

def getOp (j : Json) : P CmpOp :=
  match j with
  | .str "lt" => pure .lt | .str "le" => pure .le | .str "eq" => pure .eq | .str "ne" => pure .ne
  | .str "gt" => pure .gt | .str "ge" => pure .ge | .str "in" => pure .isIn
  | .str "notin" => pure .notIn | .str "is" => pure .is | .str "isnot" => pure .isNot
  | _ => throw s!"unknown op: {j.compress}"

def getVariant (j : Json) : P Variant :=
  match j with
  | .str "repaired" => pure .repaired
  | .str "legacy" => pure .legacy
  | _ => throw s!"unknown variant: {j.compress}"

def numJ : Num → Json
  | .nan => "nan"
  | .pinf => "inf"
  | .ninf => "-inf"
  | .fin q => Json.arr #[Json.num (JsonNumber.fromInt q.num), Json.num (JsonNumber.fromNat q.den)]

def errJ : Err → Json
  | .typeError => "TypeError"
  | .valueError => "ValueError"
  | .overflowError => "OverflowError"
  | .assertionError => "AssertionError"
  | .other => "Other"

def resJ {α} (f : α → Json) : Res α → Json
  | .ok a => Json.mkObj [("ok", f a)]
  | .error e => Json.mkObj [("err", errJ e)]

def pairJ (p : Num × Num) : Json := Json.arr #[numJ p.1, numJ p.2]

def field (j : Json) (k : String) : P Json :=
  match j.getObjVal? k with
  | .ok v => pure v
  | .error _ => throw s!"missing field {k}"

def rd : Rounding := roundNearestEven

def runCase (j : Json) : P Json := do
  let kind ← field j "kind"
  match kind with
  | .str "cmp" =>
    let v ← getVariant (← field j "variant")
    let op ← getOp (← field j "op")
    let same ← getBool (← field j "same")
    let v1 ← getVal (← field j "v1")
    let v2 ← getVal (← field j "v2")
    pure <| Json.mkObj [
      ("py", resJ Json.bool (pyOperator op same v1 v2)),
      ("estT", resJ numJ (trueDistance rd op same v1 v2)),
      ("estF", resJ numJ (falseDistance rd op same v1 v2)),
      ("res", resJ pairJ (executedComparePredicate v rd op same v1 v2))]
  | .str "abs" =>
    let v ← getVariant (← field j "variant")
    let cmp ← getRes getBool (← field j "cmp")
    let eT ← getRes getNum (← field j "estT")
    let eF ← getRes getNum (← field j "estF")
    pure <| Json.mkObj [("res", resJ pairJ (recordCompare v cmp eT eF))]
  | .str "bool" =>
    let v ← getVariant (← field j "variant")
    let x ← getVal (← field j "v")
    pure <| Json.mkObj [
      ("truth", Json.bool (truthy x)),
      ("est", resJ numJ (falsyDistance rd x)),
      ("res", resJ pairJ (executedBoolPredicate v rd x))]
  | .str "boolabs" =>
    let v ← getVariant (← field j "variant")
    let t ← getRes getBool (← field j "truth")
    let e ← getRes getNum (← field j "est")
    pure <| Json.mkObj [("res", resJ pairJ (recordBool v t e))]
  | .str "exc" =>
    let v ← getVariant (← field j "variant")
    let err ← (← getArr (← field j "err")).mapM getNat
    let excs ← (← getArr (← field j "excs")).mapM fun x => do
      let mro ← (← getArr (← field x "mro")).mapM getNat
      let issub ← getBool (← field x "issub")
      pure (HandlerClass.mk mro issub)
    pure <| Json.mkObj [
      ("py", Json.bool (pyExceptMatches err excs)),
      ("match", Json.bool (givenExceptionMatches v err excs)),
      ("res", resJ pairJ (executedExceptionMatch v err excs))]
  | .str "round" =>
    let q ← getNum (← field j "q")
    match q with
    | .fin q => pure <| Json.mkObj [("r", numJ (rd q))]
    | _ => throw "round needs a finite rational"
  | _ => throw s!"unknown kind {kind.compress}"

partial def loop (h : IO.FS.Stream) : IO Unit := do
  let line ← h.getLine
  if line.isEmpty then return ()
  let out := match Json.parse line >>= runCase with
    | .ok j => j.compress
    | .error e => (Json.mkObj [("bad-op", e)]).compress
  IO.println out
  loop h

def main : IO Unit := do loop (← IO.getStdin)
