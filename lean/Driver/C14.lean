import Lean.Data.Json
import PynguinModel.Model.Ranking
/-! Line-protocol driver for C14: one JSON case per line in, one JSON result per line out.

Cases (`op` selects the operation; a float is `[num, den]`, a chromosome `{"sid","len","fit"}`):
* `{"op":"rank","sols":[…],"goals":[…],"population":N,"flips":[…]}`  compute_ranking_assignment
* `{"op":"zero","sols":[…],"goals":[…],"flips":[…]}`                 _get_zero_front
* `{"op":"nondom","sols":[…],"goals":[…]}`                           _get_non_dominated_solutions
* `{"op":"cmp","sols":[…],"goals":[…]}`                              both comparators on all pairs (+ None)
* `{"op":"crowd","sols":[…],"goals":[…],"fmax":[n,d]}`               fast_epsilon_dominance_assignment
* `{"op":"sel","bias":[n,d],"r":[n,d],"n":N}`                        RankSelection.get_index -/
open Lean PynguinModel.Ranking

structure Q where
  q : Rat

instance : FromJson Q where
  fromJson? j :=
    match j with
    | .arr #[n, d] => do
      let n ← fromJson? (α := Int) n
      let d ← fromJson? (α := Nat) d
      if d = 0 then .error "zero denominator" else .ok ⟨mkRat n d⟩
    | _ => .error "float: expected [num, den]"

structure IndJ where
  sid : Nat
  len : Nat
  fit : List Q
  deriving FromJson

def IndJ.toInd (i : IndJ) : Ind := { sid := i.sid, len := i.len, fit := i.fit.map (·.q) }

structure Case where
  op : String
  sols : Option (List IndJ)
  goals : Option (List Nat)
  population : Option Nat
  flips : Option (List Bool)
  fmax : Option Q
  bias : Option Q
  r : Option Q
  n : Option Nat
  deriving FromJson

def indJ (c : Ind) : Json := Json.arr #[toJson c.sid, toJson c.len]
def indsJ (l : List Ind) : Json := Json.arr (l.map indJ).toArray
def ratJ (q : Rat) : Json := Json.arr #[toJson q.num, toJson q.den]
def errJ (e : String) : Json := Json.mkObj [("err", e)]

def need {α} (what : String) : Option α → Except String α
  | some a => .ok a
  | none => .error s!"missing field {what}"

def runCase (c : Case) : Except String Json := do
  match c.op with
  | "rank" =>
    let sols := (← need "sols" c.sols).map (·.toInd)
    let goals ← need "goals" c.goals
    let pop ← need "population" c.population
    let flips ← need "flips" c.flips
    match computeRanking sols goals pop flips with
    | .empty => pure (Json.mkObj [("fronts", Json.null)])
    | .fronts fs fl => pure (Json.mkObj [("fronts", Json.arr (fs.map indsJ).toArray),
                                         ("flipsLeft", toJson fl.length)])
    | .assertion => pure (errJ "AssertionError")
    | .bound => pure (errJ "model-iteration-bound")
  | "zero" =>
    let sols := (← need "sols" c.sols).map (·.toInd)
    let goals ← need "goals" c.goals
    let flips ← need "flips" c.flips
    match zeroFront sols goals [] flips with
    | none => pure (errJ "AssertionError")
    | some (zf, fl) => pure (Json.mkObj [("front", indsJ zf), ("flipsLeft", toJson fl.length)])
  | "nondom" =>
    let sols := (← need "sols" c.sols).map (·.toInd)
    let goals ← need "goals" c.goals
    pure (Json.mkObj [("front", indsJ (nonDominated goals sols))])
  | "cmp" =>
    let sols := (← need "sols" c.sols).map (·.toInd)
    let goals ← need "goals" c.goals
    let opts : List (Option Ind) := none :: sols.map some
    let dom := opts.map fun a => toJson (opts.map fun b => domCompare goals a b)
    let pref := goals.map fun g => toJson (opts.map fun a => toJson (opts.map fun b => prefCompare g a b))
    pure (Json.mkObj [("dom", Json.arr dom.toArray), ("pref", Json.arr pref.toArray)])
  | "crowd" =>
    let sols := (← need "sols" c.sols).map (·.toInd)
    let goals ← need "goals" c.goals
    let fmax ← need "fmax" c.fmax
    pure (Json.mkObj [("dist", Json.arr ((crowding fmax.q sols goals).map ratJ).toArray)])
  | "sel" =>
    let bias ← need "bias" c.bias
    let r ← need "r" c.r
    let n ← need "n" c.n
    match rankIndex bias.q r.q n with
    | .idx i => pure (Json.mkObj [("idx", toJson i)])
    | .inexact => pure (Json.mkObj [("inexact", true)])
    | .zeroDivision => pure (errJ "ZeroDivisionError")
    | .valueError => pure (errJ "ValueError")
  | other => .error s!"unknown op {other}"

partial def loop (h : IO.FS.Stream) : IO Unit := do
  let line ← h.getLine
  if line.isEmpty then return ()
  let out := match Json.parse line >>= fromJson? (α := Case) >>= runCase with
    | .ok j => j.compress
    | .error e => (Json.mkObj [("bad-op", e)]).compress
  IO.println out
  loop h

def main : IO Unit := do loop (← IO.getStdin)
