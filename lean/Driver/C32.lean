import Lean.Data.Json
import PynguinModel.Model.ThreadGuard
/-! Line-protocol driver for C32: one JSON case per line in, one JSON result per line out.

Case: `{"n": <threads>, "evs": [{"tid": t, "op": <op>}…], "hist": [<HEv>…], "execs": [{"k": k, "tid": t}…],
"fine": [<FEv>…]}` (`fine`: the history's tracer schedule with callbacks split into guard and write; `[]` for schedules).
A schedule case has `hist = []`; a history case has `evs = []` and gives the whole history (tracer
calls, `put`s of the test threads, `collect`s of the main thread) in `hist`; its tracer schedule is
`callsOf hist`.
Output: per tracer call whether it raised, the final `current`, import trace, per-thread flag/trace, and
for each listed execution what `TestCaseExecutor.execute` returns according to the model (per-execution
result queue: `hrun .perExecution`), whether the thread's calls have the shape `execOps stmts` and (if so
and a result was returned) whether the returned trace equals `soloTrace`; `sharedDiffers` tells whether a
single shared queue would have returned something else anywhere in this history. -/
open Lean PynguinModel.ThreadGuard

deriving instance FromJson for Cb
deriving instance FromJson for Op
deriving instance FromJson for Ev

deriving instance FromJson for HEv
deriving instance FromJson for FOp
deriving instance FromJson for FEv

structure Exec where
  k : Nat
  tid : Nat
  deriving FromJson

structure Case where
  n : Nat
  evs : List Ev
  hist : List HEv
  execs : List Exec
  /-- the tracer schedule of the history at the finer grain: callbacks as guard (`cbBegin`, where the
  recorder saw the `check()`) and write (`cbEnd`, where the call returned; missing for a thread that is
  stuck inside the call for ever) -/
  fine : List FEv
  deriving FromJson

def traceJ (t : Trace) : Json :=
  Json.mkObj [("codes", toJson t.codes), ("lines", toJson t.lines),
    ("preds", toJson (t.preds.map fun (p, c) => [p, c])), ("tcov", toJson t.tcov),
    ("fcov", toJson t.fcov)]

/-- Split a prefix of callbacks off an operation list. -/
def takeCbs : List Op → List Cb × List Op
  | .cb c :: rest => let r := takeCbs rest; (c :: r.1, r.2)
  | rest => ([], rest)

/-- Parse the statements of an executor-shaped operation list (after `initTrace, enter`). -/
partial def parseStmts : List Op → Option (List Stmt)
  | [.exit] => some []
  | .check :: .disable :: rest =>
    let (before, r1) := takeCbs rest
    match r1 with
    | .enable :: r2 =>
      let (body, r3) := takeCbs r2
      match r3 with
      | .check :: .disable :: r4 =>
        let (after, r5) := takeCbs r4
        match r5 with
        | .enable :: r6 => (parseStmts r6).map fun sts => ⟨before, body, after⟩ :: sts
        | _ => none
      | _ => none
    | _ => none
  | _ => none

def parseExec : List Op → Option (List Stmt)
  | .initTrace :: .enter :: rest => parseStmts rest
  | _ => none

def resJ : HResult → Json
  | .timeout => "timeout"
  | .ok p r => Json.mkObj [("producer", toJson p), ("trace", traceJ r.trace),
      ("exc", toJson (r.exc.map fun (i, x) => [i, x]))]

def runCase (c : Case) : Json :=
  let s0 := T.init
  let evs := if c.hist.isEmpty then c.evs else callsOf c.hist
  let hr := hrun .perExecution (H.init s0) [] c.hist
  let fin := if c.hist.isEmpty then run s0 evs else hr.1.tr
  let results := hr.2
  let shared := (hrun .shared (H.init s0) [] c.hist).2
  let locals := (List.range c.n).map fun t =>
    Json.mkObj [("enabled", toJson (fin.loc t).enabled), ("trace", traceJ (fin.loc t).trace)]
  let execs := c.execs.map fun e =>
    let ops := opsOf e.tid evs
    let res := (results.lookup e.k).getD .timeout
    -- the import trace in force when the thread called init_trace: the schedule's final import trace
    -- (import-time calls precede all executions in the histories sent here)
    let shape : Json := match parseExec ops with
      | some stmts =>
        if execOps stmts = ops then
          match res with
          | .ok _ r => Json.mkObj [("shape", "exec"), ("soloEq", toJson (decide (r.trace = soloTrace fin.imp stmts)))]
          | .timeout => Json.mkObj [("shape", "exec")]
        else Json.mkObj [("shape", "parse-mismatch")]
      | none => Json.mkObj [("shape", "other")]
    Json.mkObj [("k", toJson e.k), ("tid", toJson e.tid), ("result", resJ res),
      ("collected", toJson (results.lookup e.k).isSome),
      ("raised", toJson (raisedBy e.tid s0 evs)), ("form", shape)]
  -- the fine-grained replay (no lock = the code): runs to its end, and ends in the same tracer state as
  -- the coarse schedule in which every completed callback sits where its guard was passed
  let fineJ : Json := match frun .none (F.init s0) c.fine with
    | some f =>
      Json.mkObj [("ran", true),
        ("sameAsCoarse", toJson (decide (f.tr.current = fin.current ∧ f.tr.imp = fin.imp
          ∧ (List.range c.n).all fun t => decide (f.tr.loc t = fin.loc t)))),
        ("raised", toJson (frunLog .none (F.init s0) c.fine)),
        ("inside", toJson ((List.range c.n).filter fun t => f.inside t)),
        ("lockBlocks", toJson (frun .updateLock (F.init s0) c.fine).isNone)]
    | none => Json.mkObj [("ran", false)]
  Json.mkObj [("raised", toJson (runLog s0 evs)), ("fine", fineJ),
    ("current", match fin.current with | some t => toJson t | none => Json.null),
    ("imp", traceJ fin.imp), ("locals", Json.arr locals.toArray), ("execs", Json.arr execs.toArray),
    ("sharedDiffers", toJson (decide (shared ≠ results)))]

partial def loop (h : IO.FS.Stream) : IO Unit := do
  let line ← h.getLine
  if line.isEmpty then return ()
  let out := match Json.parse line >>= fromJson? (α := Case) with
    | .ok c => (runCase c).compress
    | .error e => (Json.mkObj [("bad-op", e)]).compress
  IO.println out
  loop h

def main : IO Unit := do loop (← IO.getStdin)
