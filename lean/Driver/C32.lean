import Lean.Data.Json
import PynguinModel.Model.ThreadGuard
/-! Line-protocol driver for C32: one JSON case per line in, one JSON result per line out.

Case: `{"n": <threads>, "evs": [{"tid": t, "op": <op>}…], "execs": [{"tid": t, "stopped": b}…]}`.
Output: per event whether it raised, the final `current`, import trace, per-thread flag/trace, and for
each listed execution what `TestCaseExecutor.execute` returns according to the model, whether the
thread's calls have the shape `execOps stmts` and (if so and a result was delivered) whether the
delivered trace equals `soloTrace`. -/
open Lean PynguinModel.ThreadGuard

deriving instance FromJson for Cb
deriving instance FromJson for Op
deriving instance FromJson for Ev

structure Exec where
  tid : Nat
  stopped : Bool
  deriving FromJson

structure Case where
  n : Nat
  evs : List Ev
  execs : List Exec
  deriving FromJson

def traceJ (t : Trace) : Json :=
  Json.mkObj [("codes", toJson t.codes), ("lines", toJson t.lines),
    ("preds", toJson (t.preds.map fun (p, c) => [p, c])), ("tcov", toJson t.tcov),
    ("fcov", toJson t.fcov)]

/-- Split a prefix of callbacks off an operation list. -/
def takeCbs : List Op → List Cb × List Op
  | .cb c :: rest => let r := takeCbs rest; (c :: r.1, r.2)
  | rest => ([], rest)

/-- Parse the statements of an executor-shaped operation list (after `initTrace, enter`). -/
partial def parseStmts : List Op → Option (List Stmt)
  | [.exit] => some []
  | .check :: .disable :: rest =>
    let (before, r1) := takeCbs rest
    match r1 with
    | .enable :: r2 =>
      let (body, r3) := takeCbs r2
      match r3 with
      | .check :: .disable :: r4 =>
        let (after, r5) := takeCbs r4
        match r5 with
        | .enable :: r6 => (parseStmts r6).map fun sts => ⟨before, body, after⟩ :: sts
        | _ => none
      | _ => none
    | _ => none
  | _ => none

def parseExec : List Op → Option (List Stmt)
  | .initTrace :: .enter :: rest => parseStmts rest
  | _ => none

def runCase (c : Case) : Json :=
  let s0 := T.init
  let fin := run s0 c.evs
  let locals := (List.range c.n).map fun t =>
    Json.mkObj [("enabled", toJson (fin.loc t).enabled), ("trace", traceJ (fin.loc t).trace)]
  let execs := c.execs.map fun e =>
    let ops := opsOf e.tid c.evs
    let res := executeResult e.stopped (threadOutcome e.tid s0 c.evs)
    -- the import trace in force when the thread called init_trace: the schedule's final import trace
    -- (import-time calls precede all executions in the histories sent here)
    let shape : Json := match parseExec ops with
      | some stmts =>
        if execOps stmts = ops then
          match res with
          | .ok tr => Json.mkObj [("shape", "exec"), ("soloEq", toJson (decide (tr = soloTrace fin.imp stmts)))]
          | .timeout => Json.mkObj [("shape", "exec")]
        else Json.mkObj [("shape", "parse-mismatch")]
      | none => Json.mkObj [("shape", "other")]
    let r : Json := match res with
      | .timeout => "timeout"
      | .ok tr => traceJ tr
    Json.mkObj [("tid", toJson e.tid), ("result", r), ("raised", toJson (raisedBy e.tid s0 c.evs)),
      ("form", shape)]
  Json.mkObj [("raised", toJson (runLog s0 c.evs)),
    ("current", match fin.current with | some t => toJson t | none => Json.null),
    ("imp", traceJ fin.imp), ("locals", Json.arr locals.toArray), ("execs", Json.arr execs.toArray)]

partial def loop (h : IO.FS.Stream) : IO Unit := do
  let line ← h.getLine
  if line.isEmpty then return ()
  let out := match Json.parse line >>= fromJson? (α := Case) with
    | .ok c => (runCase c).compress
    | .error e => (Json.mkObj [("bad-op", e)]).compress
  IO.println out
  loop h

def main : IO Unit := do loop (← IO.getStdin)
