import Lean.Data.Json
import PynguinModel.Model.Repro
/-! Line-protocol driver for C16: one JSON case per line in, one JSON result per line out.

* `{"sort": {"names": [...]}}` → `sorted(names)` as the model computes it;
* `{"append": {"self": TC, "other": [Stmt], "start": n, "orders": [[name]], "draws": [n]}}` →
  the state after the repaired `self.append_test_case_from(other, start)`;
* `{"render": {"v": PyVal}}` (set nodes list their members in the iteration order the
  implementation saw) → the text of `_value_to_cst(value)` for the repaired renderer (`sorted`) and
  for the original one (`hashorder`);
* `{"subseed": {"seed": n, "total": n, "cap": i}}` → the seeds of the sampling streams
  `FirstOrderMutator._select_mutations` creates. -/
open Lean PynguinModel.Repro

deriving instance FromJson for Stmt
deriving instance FromJson for TC

structure AppendCase where
  self : TC
  other : List Stmt
  start : Nat
  orders : List (List String)
  draws : List Nat
  deriving FromJson

deriving instance FromJson for PyVal

inductive Case where
  | sort (names : List String)
  | append (c : AppendCase)
  | render (v : PyVal)
  | subseed (seed : Nat) (total : Nat) (cap : Int)
  deriving FromJson

def optJ {α} [ToJson α] : Option α → Json
  | some a => toJson a
  | none => Json.null

def stmtJ (s : Stmt) : Json :=
  Json.mkObj [("bound", optJ s.bound), ("ty", optJ s.ty), ("names", toJson s.names)]

def runCase : Case → Json
  | .sort names => Json.mkObj [("sorted", toJson (sortNames names))]
  | .render v =>
    Json.mkObj [("sorted", toJson (render true (fun l => l) v)),
                ("hashorder", toJson (render false (fun l => l) v))]
  | .subseed seed total cap => Json.mkObj [("seeds", toJson (samplingSeeds seed total cap))]
  | .append c =>
    if c.orders.length != (c.other.drop c.start).length then
      Json.mkObj [("bad-op", "orders do not match the tail")]
    else
      match appendFrom true c.self c.other c.start c.orders c.draws with
      | .error .outOfDraws => Json.mkObj [("err", "outOfDraws")]
      | .ok st =>
        Json.mkObj [
          ("stmts", Json.arr (st.tc.stmts.map stmtJ).toArray),
          ("counter", toJson st.tc.counter),
          ("rename", Json.arr (st.rename.map fun (k, v) => Json.arr #[toJson k, toJson v]).toArray),
          ("dropped", toJson st.dropped),
          ("draws_left", toJson st.draws.length)]

partial def loop (h : IO.FS.Stream) : IO Unit := do
  let line ← h.getLine
  if line.isEmpty then return ()
  let out := match Json.parse line >>= fromJson? (α := Case) with
    | .ok c => (runCase c).compress
    | .error e => (Json.mkObj [("bad-op", e)]).compress
  IO.println out
  loop h

def main : IO Unit := do loop (← IO.getStdin)
