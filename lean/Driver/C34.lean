import Lean.Data.Json
import PynguinModel.Model.OrderedSet
/-! Line-protocol driver for C34: one JSON case per line in, one JSON result per line out. -/
open Lean PynguinModel.OrderedSet

deriving instance FromJson for Op

inductive Cmd where
  | op (op : Op) | pop | contains (x : Int) | getitem (i : Int) | len | iter | reversed
  | issubset (o : List Int) | issuperset (o : List Int) | eq (o : List Int) | index (x : Int)
  | union (os : List (List Int)) | intersection (os : List (List Int))
  | difference (os : List (List Int)) | symmetricDifference (o : List Int)
  deriving FromJson

structure Case where
  init : List Int
  cmds : List Cmd
  deriving FromJson

def optJ {α} [ToJson α] (err : String) : Option α → Json
  | some a => toJson a
  | none => Json.mkObj [("err", err)]

def exec (l : List Int) : Cmd → List Int × Json
  | .op o =>
    match o with
    | .remove x => if x ∈ l then (step l o, Json.null) else (l, Json.mkObj [("err", "KeyError")])
    | _ => (step l o, Json.null)
  | .pop => match pop l with
    | some (x, l') => (l', toJson x)
    | none => (l, Json.mkObj [("err", "KeyError")])
  | .contains x => (l, toJson (contains l x))
  | .getitem i => (l, optJ "IndexError" (getitem l i))
  | .len => (l, toJson (len l))
  | .iter => (l, toJson (iter l))
  | .reversed => (l, toJson (reversed l))
  | .issubset o => (l, toJson (issubset l o))
  | .issuperset o => (l, toJson (issuperset l o))
  | .eq o => (l, toJson (eq l (new o)))
  | .index x => (l, optJ "ValueError" (index l x))
  | .union os => (l, toJson (union l os))
  | .intersection os => (l, toJson (intersection l os))
  | .difference os => (l, toJson (difference l os))
  | .symmetricDifference o => (l, toJson (symmetricDifference l o))

def runCase (c : Case) : Json :=
  let (l, outs) := c.cmds.foldl (fun (acc : List Int × Array Json) cmd =>
    let (l', o) := exec acc.1 cmd
    (l', acc.2.push o)) (new c.init, #[])
  Json.mkObj [("final", toJson l), ("outs", Json.arr outs)]

partial def loop (h : IO.FS.Stream) : IO Unit := do
  let line ← h.getLine
  if line.isEmpty then return ()
  let out := match Json.parse line >>= fromJson? (α := Case) with
    | .ok c => (runCase c).compress
    | .error e => (Json.mkObj [("bad-op", e)]).compress
  IO.println out
  loop h

def main : IO Unit := do loop (← IO.getStdin)
