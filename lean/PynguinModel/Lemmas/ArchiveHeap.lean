/-
C13 — lemmas for the reference level of the coverage archive (`Model/ArchiveHeap.lean`).
-/
import PynguinModel.Model.ArchiveHeap
import PynguinModel.Lemmas.Archive

namespace PynguinModel.Archive

/-! ### where the entries of `_covered` come from -/

theorem updSol_covered_mem (g : Goal) (st : UState) (s : Sol) (p : Goal × Sol)
    (h : p ∈ (updSol g st s).a.covered) : p ∈ st.a.covered ∨ p.2 = s := by
  unfold updSol at h
  split at h
  · have h' : p ∈ dictSet st.a.covered g s := by
      simp only at h
      split at h <;> exact h
    rcases mem_dictSet h' with h' | h'
    · exact Or.inr (by rw [h'])
    · exact Or.inl h'
  · exact Or.inl h

theorem foldl_updSol_covered_mem (g : Goal) (sols : List Sol) (st : UState) (p : Goal × Sol)
    (h : p ∈ (sols.foldl (updSol g) st).a.covered) : p ∈ st.a.covered ∨ p.2 ∈ sols := by
  induction sols generalizing st with
  | nil => exact Or.inl h
  | cons s sols ih =>
    rcases ih (updSol g st s) h with h' | h'
    · rcases updSol_covered_mem g st s p h' with h'' | h''
      · exact Or.inl h''
      · exact Or.inr (by simp [h''])
    · exact Or.inr (List.mem_cons_of_mem _ h')

theorem foldl_updGoal_covered_mem (sols : List Sol) (gs : List Goal) (acc : CArchive × Bool) (p : Goal × Sol)
    (h : p ∈ (gs.foldl (updGoal sols) acc).1.covered) : p ∈ acc.1.covered ∨ p.2 ∈ sols := by
  induction gs generalizing acc with
  | nil => exact Or.inl h
  | cons g gs ih =>
    rcases ih (updGoal sols acc g) h with h' | h'
    · exact foldl_updSol_covered_mem g sols _ p h'
    · exact Or.inr h'

/-- An entry of `_covered` after `update(solutions)` was there before or is one of `solutions`. -/
theorem update_covered_mem (a : CArchive) (sols : List Sol) (p : Goal × Sol)
    (h : p ∈ (a.update sols).1.covered) : p ∈ a.covered ∨ p.2 ∈ sols :=
  foldl_updGoal_covered_mem sols a.objectives (a, false) p h

/-! ### the store -/

/-- Every object carries its address as identity. -/
def WF (h : Heap) : Prop := ∀ (r : Nat) (s : Sol), h[r]? = some s → s.id = r

/-- The archive's entries are exactly the objects they refer to (nothing was altered since insertion). -/
def Coh (h : Heap) (a : CArchive) : Prop := ∀ p ∈ a.covered, h[p.2.id]? = some p.2

structure HInv (w : World) : Prop where
  wf : WF w.heap
  coh : Coh w.heap w.a

theorem refresh_of_coh {h : Heap} {a : CArchive} (hc : Coh h a) : refresh h a = a := by
  unfold refresh
  have : a.covered.map (fun p => (p.1, (h[p.2.id]?).getD p.2)) = a.covered := by
    conv => rhs; rw [← List.map_id a.covered]
    apply List.map_congr_left
    intro p hp
    simp [hc p hp]
  rw [this]

theorem getElem?_of_prefix {h h' : Heap} (hp : h <+: h') {r : Nat} {s : Sol} (hr : h[r]? = some s) :
    h'[r]? = some s := by
  obtain ⟨t, rfl⟩ := hp
  have hlt : r < h.length := by
    rcases Nat.lt_or_ge r h.length with hlt | hge
    · exact hlt
    · simp [List.getElem?_eq_none hge] at hr
  rw [List.getElem?_append_left hlt]; exact hr

theorem coh_of_prefix {h h' : Heap} {a : CArchive} (hp : h <+: h') (hc : Coh h a) : Coh h' a :=
  fun p hpm => getElem?_of_prefix hp (hc p hpm)

theorem wf_allocAll {h : Heap} (hw : WF h) (vs : List Sol) : WF (allocAll h vs) := by
  unfold WF
  intro r s hr
  unfold allocAll at hr
  rcases Nat.lt_or_ge r h.length with hlt | hge
  · rw [List.getElem?_append_left hlt] at hr; exact hw r s hr
  · rw [List.getElem?_append_right hge, List.getElem?_mapIdx] at hr
    cases hv : vs[r - h.length]? with
    | none => simp [hv] at hr
    | some v =>
      simp [hv] at hr
      rw [← hr]; simp; omega

theorem wf_overwrite {h : Heap} (hw : WF h) (e : Nat × Sol) : WF (overwrite h e) := by
  unfold WF
  intro r s hr
  unfold overwrite at hr
  rw [List.getElem?_set] at hr
  split at hr
  · split at hr
    · simp at hr; rw [← hr]; simp; omega
    · simp at hr
  · exact hw r s hr

theorem wf_foldl_overwrite {h : Heap} (hw : WF h) (es : List (Nat × Sol)) : WF (es.foldl overwrite h) := by
  induction es generalizing h with
  | nil => exact hw
  | cons e es ih => exact ih (wf_overwrite hw e)

/-- In-place edits at addresses beyond `h` leave `h` alone. -/
theorem foldl_overwrite_beyond (h t : Heap) (es : List (Nat × Sol)) (hes : ∀ e ∈ es, h.length ≤ e.1) :
    ∃ t', es.foldl overwrite (h ++ t) = h ++ t' := by
  induction es generalizing t with
  | nil => exact ⟨t, rfl⟩
  | cons e es ih =>
    have he : h.length ≤ e.1 := hes e (by simp)
    have : overwrite (h ++ t) e = h ++ t.set (e.1 - h.length) { e.2 with id := e.1 } := by
      unfold overwrite; rw [List.set_append_right _ _ he]
    simp only [List.foldl_cons, this]
    exact ih _ (fun e' he' => hes e' (List.mem_cons_of_mem _ he'))

theorem mem_deref {h : Heap} {refs : List Nat} {s : Sol} (hs : s ∈ deref h refs) : ∃ r : Nat, h[r]? = some s := by
  unfold deref at hs
  obtain ⟨r, _, hr⟩ := List.mem_filterMap.1 hs
  exact ⟨r, hr⟩

theorem hinv_update {w : World} (hi : HInv w) (refs : List Nat) :
    HInv (w.update refs) ∧ (w.update refs).a = (w.a.update (deref w.heap refs)).1 ∧
      (w.update refs).heap = w.heap := by
  have hr := refresh_of_coh hi.coh
  refine ⟨⟨hi.wf, ?_⟩, by simp [World.update, hr], rfl⟩
  intro p hp
  simp only [World.update, hr] at hp
  rcases update_covered_mem _ _ p hp with h' | h'
  · exact hi.coh p h'
  · obtain ⟨r, hr'⟩ := mem_deref h'
    have := hi.wf r p.2 hr'
    show w.heap[p.2.id]? = some p.2
    rw [this]; exact hr'

/-- The value-level event (if any) an alias-free loop operation amounts to. -/
def LOp.events (w : World) : LOp → List Op
  | .alloc _ => []
  | .update refs => [.update (deref w.heap refs)]
  | .addGoals gs => [.addGoals gs]
  | .localSearch edits =>
    let archived := archivedRefs w.a
    let base := w.heap.length
    let h1 := allocAll w.heap (deref w.heap archived)
    let h2 := (edits.map (fun e => (base + e.1, e.2))).foldl overwrite h1
    [.update (deref h2 (List.range' base archived.length))]
  | .aliasLocalSearch _ => []

theorem step_frame {w : World} (hi : HInv w) (op : LOp) (hop : op.aliasFree = true) :
    w.heap <+: (w.step op).heap ∧ HInv (w.step op) ∧ (w.step op).a = w.a.run (op.events w) := by
  cases op with
  | alloc vs =>
    have hp : w.heap <+: allocAll w.heap vs := ⟨_, rfl⟩
    exact ⟨hp, ⟨wf_allocAll hi.wf vs, coh_of_prefix hp hi.coh⟩, rfl⟩
  | update refs =>
    obtain ⟨h1, h2, h3⟩ := hinv_update hi refs
    refine ⟨by show w.heap <+: (w.update refs).heap; rw [h3]; exact List.prefix_refl _, h1, ?_⟩
    show (w.update refs).a = _
    rw [h2]; rfl
  | addGoals gs =>
    have hr := refresh_of_coh hi.coh
    refine ⟨List.prefix_refl _, ⟨hi.wf, ?_⟩, ?_⟩
    · intro p hp
      simp only [World.step, hr, addGoals_covered] at hp
      exact hi.coh p hp
    · simp [World.step, hr, LOp.events, CArchive.run, CArchive.step]
  | localSearch edits =>
    obtain ⟨t', ht'⟩ := foldl_overwrite_beyond w.heap
      ((deref w.heap (archivedRefs w.a)).mapIdx (fun i v => { v with id := w.heap.length + i }))
      (edits.map (fun e => (w.heap.length + e.1, e.2)))
      (by intro e he; obtain ⟨e0, _, rfl⟩ := List.mem_map.1 he; simp)
    have hp : w.heap <+: (edits.map (fun e => (w.heap.length + e.1, e.2))).foldl overwrite
        (allocAll w.heap (deref w.heap (archivedRefs w.a))) := ⟨t', by unfold allocAll; rw [ht']⟩
    have hi' : HInv ⟨List.foldl overwrite
        (allocAll w.heap (deref w.heap (archivedRefs w.a))) (edits.map (fun e => (w.heap.length + e.1, e.2))), w.a⟩ :=
      ⟨wf_foldl_overwrite (wf_allocAll hi.wf _) _, coh_of_prefix hp hi.coh⟩
    obtain ⟨h1, h2, h3⟩ := hinv_update hi' (List.range' w.heap.length (archivedRefs w.a).length)
    refine ⟨?_, h1, ?_⟩
    · show w.heap <+: (World.update _ _).heap
      rw [h3]; exact hp
    · show (World.update _ _).a = _
      rw [h2]; rfl
  | aliasLocalSearch edits => simp [LOp.aliasFree] at hop

theorem run_frame {w : World} (hi : HInv w) (ops : List LOp) (hops : ∀ op ∈ ops, op.aliasFree = true) :
    w.heap <+: (w.run ops).heap ∧ HInv (w.run ops) ∧ ∃ evs, (w.run ops).a = w.a.run evs := by
  induction ops generalizing w with
  | nil => exact ⟨List.prefix_refl _, hi, [], rfl⟩
  | cons op ops ih =>
    obtain ⟨hp, hi', ha⟩ := step_frame hi op (hops op (by simp))
    obtain ⟨hp2, hi2, evs, he⟩ := ih hi' (fun o ho => hops o (List.mem_cons_of_mem _ ho))
    refine ⟨List.IsPrefix.trans hp hp2, hi2, op.events w ++ evs, ?_⟩
    show ((w.step op).run ops).a = _
    rw [he, ha]; simp [CArchive.run, List.foldl_append]

theorem hinv_init (objs : List Goal) : HInv (World.init objs) :=
  ⟨fun r s h => by simp [World.init] at h, fun p hp => by simp [World.init, CArchive.init] at hp⟩

end PynguinModel.Archive
