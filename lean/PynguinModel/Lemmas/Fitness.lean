import PynguinModel.Model.Fitness
/-!
Helper lemmas and the well-formedness predicates for the fitness/coverage model (C10, C11).
The property theorems are in `Props/C10.lean` and `Props/C11.lean`.  Mathlib-free (core `Rat`).
-/
namespace PynguinModel.Fitness

/-! ### `x / (1 + x)` on non-negative rationals -/

theorem inv_facts (q : Rat) (h : 0 ≤ q) : 0 < (1 + q)⁻¹ ∧ (1 + q) * (1 + q)⁻¹ = 1 := by
  have h1 : 0 < 1 + q := by grind
  exact ⟨Rat.inv_pos.2 h1, Rat.mul_inv_cancel _ (by grind)⟩

theorem nq_eq (q : Rat) (h : 0 ≤ q) : q / (1 + q) = 1 - (1 + q)⁻¹ := by
  have ⟨_, h2⟩ := inv_facts q h
  rw [Rat.div_def]; grind

theorem nq_nonneg (q : Rat) (h : 0 ≤ q) : 0 ≤ q / (1 + q) := by
  have ⟨h1, _⟩ := inv_facts q h
  rw [Rat.div_def]; exact Rat.mul_nonneg h (Rat.le_of_lt h1)

theorem nq_lt_one (q : Rat) (h : 0 ≤ q) : q / (1 + q) < 1 := by
  have ⟨h1, _⟩ := inv_facts q h
  rw [nq_eq q h]; grind

theorem nq_zero (q : Rat) (h : 0 ≤ q) : q / (1 + q) = 0 ↔ q = 0 := by
  have ⟨h1, _⟩ := inv_facts q h
  rw [Rat.div_def, Rat.mul_eq_zero]; grind

theorem nq_mono (a b : Rat) (h : 0 ≤ a) (hab : a ≤ b) : a / (1 + a) ≤ b / (1 + b) := by
  have hb : 0 ≤ b := Rat.le_trans h hab
  have ⟨ha1, ha2⟩ := inv_facts a h
  have ⟨hb1, hb2⟩ := inv_facts b hb
  rw [nq_eq a h, nq_eq b hb]
  have hp : 0 ≤ (1 + a)⁻¹ * (1 + b)⁻¹ := Rat.mul_nonneg (Rat.le_of_lt ha1) (Rat.le_of_lt hb1)
  have := Rat.mul_le_mul_of_nonneg_left (c := (1 + a)⁻¹ * (1 + b)⁻¹) (a := 1 + a) (b := 1 + b)
    (by grind) hp
  have e1 : (1 + a)⁻¹ * (1 + b)⁻¹ * (1 + a) = (1 + b)⁻¹ := by grind
  have e2 : (1 + a)⁻¹ * (1 + b)⁻¹ * (1 + b) = (1 + a)⁻¹ := by grind
  grind

theorem natRatio_le_one (a b : Nat) (hb : 0 < b) (h : a ≤ b) : (a : Rat) / (b : Rat) ≤ 1 := by
  have hb' : (0 : Rat) < (b : Rat) := Rat.natCast_pos.2 hb
  have hi := Rat.inv_pos.2 hb'
  have hc := Rat.mul_inv_cancel (b : Rat) (by grind)
  have hab : (a : Rat) ≤ (b : Rat) := Rat.natCast_le_natCast.2 h
  have := Rat.mul_le_mul_of_nonneg_right hab (Rat.le_of_lt hi)
  rw [Rat.div_def]; grind

theorem natRatio_nonneg (a b : Nat) : 0 ≤ (a : Rat) / (b : Rat) := by
  rw [Rat.div_def]
  by_cases hb : b = 0
  · subst hb; simp
  · have hb' : (0 : Rat) < (b : Rat) := Rat.natCast_pos.2 (Nat.pos_of_ne_zero hb)
    exact Rat.mul_nonneg Rat.natCast_nonneg (Rat.le_of_lt (Rat.inv_pos.2 hb'))

theorem natRatio_eq_one (a b : Nat) (hb : 0 < b) : (a : Rat) / (b : Rat) = 1 ↔ a = b := by
  have hb' : (0 : Rat) < (b : Rat) := Rat.natCast_pos.2 hb
  have hne : (b : Rat) ≠ 0 := by grind
  constructor
  · intro h
    have := Rat.div_mul_cancel (a := (a : Rat)) hne
    rw [h, Rat.one_mul] at this
    exact Rat.natCast_inj.1 this.symm
  · intro h; subst h; rw [Rat.div_def, Rat.mul_inv_cancel _ hne]

theorem natRatio_mono (a a' b : Nat) (h : a ≤ a') : (a : Rat) / (b : Rat) ≤ (a' : Rat) / (b : Rat) := by
  rw [Rat.div_def, Rat.div_def]
  by_cases hb : b = 0
  · subst hb; simp
  · have hb' : (0 : Rat) < (b : Rat) := Rat.natCast_pos.2 (Nat.pos_of_ne_zero hb)
    exact Rat.mul_le_mul_of_nonneg_right (Rat.natCast_le_natCast.2 h) (Rat.le_of_lt (Rat.inv_pos.2 hb'))

/-! ### `Dist`: order, `min`, the total version of `normalise` -/

/-- `a <= b` on floats (no NaN): not `b < a`. -/
def Dist.le (a b : Dist) : Prop := Dist.lt b a = false

/-- The value `normalise` returns when it does not raise. -/
def norm : Dist → Rat
  | .fin q => q / (1 + q)
  | .inf => 1

theorem normalise_of_nonneg {d : Dist} (h : d.nonneg = true) : normalise d = .ok (norm d) := by
  cases d with
  | inf => rfl
  | fin q =>
    simp only [Dist.nonneg, decide_eq_true_eq] at h
    have : ¬ q < 0 := Rat.not_lt.2 h
    simp [normalise, norm, this]

theorem norm_nonneg {d : Dist} (h : d.nonneg = true) : 0 ≤ norm d := by
  cases d with
  | inf => show (0 : Rat) ≤ 1; decide
  | fin q => simp only [Dist.nonneg, decide_eq_true_eq] at h; exact nq_nonneg q h

theorem norm_le_one {d : Dist} (h : d.nonneg = true) : norm d ≤ 1 := by
  cases d with
  | inf => exact Rat.le_refl
  | fin q => simp only [Dist.nonneg, decide_eq_true_eq] at h; exact Rat.le_of_lt (nq_lt_one q h)

theorem norm_eq_zero_iff {d : Dist} (h : d.nonneg = true) : norm d = 0 ↔ d.isZero = true := by
  cases d with
  | inf => simp [norm, Dist.isZero]
  | fin q =>
    simp only [Dist.nonneg, decide_eq_true_eq] at h
    simp [norm, Dist.isZero, nq_zero q h]

theorem norm_mono {a b : Dist} (ha : a.nonneg = true) (hab : Dist.le a b) : norm a ≤ norm b := by
  cases a with
  | inf =>
    cases b with
    | inf => exact Rat.le_refl
    | fin q => simp [Dist.le, Dist.lt] at hab
  | fin p =>
    simp only [Dist.nonneg, decide_eq_true_eq] at ha
    cases b with
    | inf => exact Rat.le_of_lt (nq_lt_one p ha)
    | fin q =>
      simp only [Dist.le, Dist.lt, decide_eq_false_iff_not, Rat.not_lt] at hab
      exact nq_mono p q ha hab

theorem dmin_le_left (a b : Dist) : Dist.le (dmin a b) a := by
  unfold dmin Dist.le
  cases a <;> cases b <;> simp [Dist.lt] <;> grind

theorem dmin_le_right (a b : Dist) : Dist.le (dmin a b) b := by
  unfold dmin Dist.le
  cases a <;> cases b <;> simp [Dist.lt] <;> grind

theorem dmin_nonneg {a b : Dist} (ha : a.nonneg = true) (hb : b.nonneg = true) :
    (dmin a b).nonneg = true := by
  unfold dmin; split <;> assumption

theorem dmin_isZero {a b : Dist} (ha : a.nonneg = true) (hb : b.nonneg = true) :
    (dmin a b).isZero = (a.isZero || b.isZero) := by
  unfold dmin
  cases a <;> cases b <;> simp [Dist.lt, Dist.isZero, Dist.nonneg] at * <;> grind

theorem dmin_comm (a b : Dist) : dmin a b = dmin b a := by
  unfold dmin
  cases a <;> cases b <;> simp [Dist.lt] <;> grind

theorem dmin_assoc (a b c : Dist) : dmin (dmin a b) c = dmin a (dmin b c) := by
  unfold dmin
  cases a <;> cases b <;> cases c <;> simp [Dist.lt] <;> grind

theorem dmin_self (a : Dist) : dmin a a = a := by
  unfold dmin; split <;> rfl

theorem dmin_inf_left (a : Dist) : dmin .inf a = a := by
  unfold dmin; cases a <;> simp [Dist.lt]

theorem dmin_inf_right (a : Dist) : dmin a .inf = a := by
  unfold dmin; cases a <;> simp [Dist.lt]

/-! ### Dictionaries -/

theorem mem_keys_iff {V} (d : Dict V) (k : Nat) : k ∈ keys d ↔ (dget d k).isSome = true := by
  induction d with
  | nil => simp [keys, dget]
  | cons e d ih =>
    obtain ⟨k', v⟩ := e
    simp only [keys, List.map_cons, List.mem_cons, dget] at ih ⊢
    by_cases h : k' = k
    · simp [h]
    · simp only [h, if_false]; rw [← ih]; constructor
      · rintro (h' | h')
        · exact absurd h'.symm h
        · exact h'
      · exact Or.inr

theorem dget_dset {V} (d : Dict V) (k : Nat) (v : V) (k' : Nat) :
    dget (dset d k v) k' = if k = k' then some v else dget d k' := by
  induction d with
  | nil => simp [dset, dget]
  | cons e d ih =>
    obtain ⟨k₀, v₀⟩ := e
    simp only [dset]
    by_cases h : k₀ = k
    · subst h; simp only [if_true, dget]; split <;> rfl
    · simp only [h, if_false, dget, ih]
      by_cases h' : k₀ = k'
      · subst h'; simp [Ne.symm h]
      · simp [h']

theorem keys_dset {V} (d : Dict V) (k : Nat) (v : V) :
    keys (dset d k v) = if k ∈ keys d then keys d else keys d ++ [k] := by
  induction d with
  | nil => simp [dset, keys]
  | cons e d ih =>
    obtain ⟨k₀, v₀⟩ := e
    simp only [dset, keys, List.map_cons, List.mem_cons] at ih ⊢
    by_cases h : k₀ = k
    · subst h; simp
    · simp only [h, if_false, List.map_cons, ih]
      have : ¬ k = k₀ := fun h' => h h'.symm
      simp only [this, false_or]
      by_cases hm : k ∈ List.map (fun x => x.fst) d <;> simp [hm]

theorem keys_dset_nodup {V} {d : Dict V} (h : (keys d).Nodup) (k : Nat) (v : V) :
    (keys (dset d k v)).Nodup := by
  rw [keys_dset]
  split
  · exact h
  · rename_i hk
    rw [List.nodup_append]
    refine ⟨h, by simp, ?_⟩
    intro a ha b hb
    simp only [List.mem_singleton] at hb
    subst hb; intro hab; subst hab; exact hk ha

theorem dget_eq_some_iff {V} {d : Dict V} (h : (keys d).Nodup) (k : Nat) (v : V) :
    dget d k = some v ↔ (k, v) ∈ d := by
  induction d with
  | nil => simp [dget]
  | cons e d ih =>
    obtain ⟨k₀, v₀⟩ := e
    simp only [keys, List.map_cons, List.nodup_cons] at h
    simp only [dget, List.mem_cons, Prod.mk.injEq]
    by_cases hk : k₀ = k
    · subst hk
      simp only [if_true, Option.some.injEq, true_and]
      constructor
      · intro h'; exact Or.inl h'.symm
      · rintro (h' | h')
        · exact h'.symm
        · exact absurd (List.mem_map.2 ⟨(k₀, v), h', rfl⟩) h.1
    · simp only [hk, if_false]
      rw [ih h.2]
      constructor
      · exact Or.inr
      · rintro (⟨h', _⟩ | h')
        · exact absurd h'.symm hk
        · exact h'

theorem dget_mergeWith {V} (f : Option V → V → V) (a b : Dict V) (hb : (keys b).Nodup) (k : Nat) :
    dget (mergeWith f a b) k =
      match dget b k with
      | none => dget a k
      | some v => some (f (dget a k) v) := by
  induction b generalizing a with
  | nil => simp [mergeWith, dget]
  | cons e b ih =>
    obtain ⟨k₀, v₀⟩ := e
    simp only [keys, List.map_cons, List.nodup_cons] at hb
    have ih' := ih (dset a k₀ (f (dget a k₀) v₀)) hb.2
    simp only [mergeWith, List.foldl_cons] at ih' ⊢
    rw [ih']
    simp only [dget, dget_dset]
    by_cases hk : k₀ = k
    · subst hk
      have : dget b k₀ = none := by
        cases hg : dget b k₀ with
        | none => rfl
        | some v =>
          have := (mem_keys_iff b k₀).2 (by simp [hg])
          exact absurd this hb.1
      simp [this]
    · simp [hk]

theorem keys_mergeWith_nodup {V} (f : Option V → V → V) (a b : Dict V) (ha : (keys a).Nodup) :
    (keys (mergeWith f a b)).Nodup := by
  induction b generalizing a with
  | nil => simpa [mergeWith] using ha
  | cons e b ih =>
    simp only [mergeWith, List.foldl_cons]
    exact ih _ (keys_dset_nodup ha _ _)

/-! ### Ordered sets -/

theorem mem_osAdd (l : List Nat) (x y : Nat) : y ∈ osAdd l x ↔ y ∈ l ∨ y = x := by
  unfold osAdd; split
  · constructor
    · exact Or.inl
    · rintro (h | h)
      · exact h
      · subst h; assumption
  · simp

theorem nodup_osAdd {l : List Nat} (h : l.Nodup) (x : Nat) : (osAdd l x).Nodup := by
  unfold osAdd; split
  · exact h
  · rename_i hx
    rw [List.nodup_append]
    refine ⟨h, by simp, ?_⟩
    intro a ha b hb
    simp only [List.mem_singleton] at hb
    subst hb; intro hab; subst hab; exact hx ha

theorem length_le_osAdd (l : List Nat) (x : Nat) : l.length ≤ (osAdd l x).length := by
  unfold osAdd; split <;> simp

theorem mem_osUpdate (l xs : List Nat) (y : Nat) : y ∈ osUpdate l xs ↔ y ∈ l ∨ y ∈ xs := by
  induction xs generalizing l with
  | nil => simp [osUpdate]
  | cons x xs ih =>
    simp only [osUpdate, List.foldl_cons] at ih ⊢
    rw [ih, mem_osAdd]; simp only [List.mem_cons]
    constructor
    · rintro ((h | h) | h)
      · exact Or.inl h
      · exact Or.inr (Or.inl h)
      · exact Or.inr (Or.inr h)
    · rintro (h | h | h)
      · exact Or.inl (Or.inl h)
      · exact Or.inl (Or.inr h)
      · exact Or.inr h

theorem nodup_osUpdate {l : List Nat} (h : l.Nodup) (xs : List Nat) : (osUpdate l xs).Nodup := by
  induction xs generalizing l with
  | nil => simpa [osUpdate] using h
  | cons x xs ih => simp only [osUpdate, List.foldl_cons]; exact ih (nodup_osAdd h x)

theorem length_le_osUpdate (l xs : List Nat) : l.length ≤ (osUpdate l xs).length := by
  induction xs generalizing l with
  | nil => simp [osUpdate]
  | cons x xs ih =>
    simp only [osUpdate, List.foldl_cons]
    exact Nat.le_trans (length_le_osAdd l x) (ih _)

/-! ### Counting in duplicate-free lists -/

theorem length_eq_of_nodup_ext {α} {l₁ l₂ : List α} (h₁ : l₁.Nodup) (h₂ : l₂.Nodup)
    (h : ∀ a, a ∈ l₁ ↔ a ∈ l₂) : l₁.length = l₂.length :=
  ((List.perm_ext_iff_of_nodup h₁ h₂).2 h).length_eq

/-- A duplicate-free list contained in another duplicate-free list is as long as the part of the
second list that lies in the first. -/
theorem length_eq_countP_of_subset {l₁ l₂ : List Nat} (h₁ : l₁.Nodup) (h₂ : l₂.Nodup)
    (hs : ∀ a ∈ l₁, a ∈ l₂) : l₁.length = l₂.countP (fun a => decide (a ∈ l₁)) := by
  rw [List.countP_eq_length_filter]
  apply length_eq_of_nodup_ext h₁ (List.Pairwise.filter _ h₂)
  intro a; simp only [List.mem_filter, decide_eq_true_eq]
  exact ⟨fun h => ⟨hs a h, h⟩, fun h => h.2⟩

theorem length_le_of_nodup_subset {l₁ l₂ : List Nat} (h₁ : l₁.Nodup) (h₂ : l₂.Nodup)
    (hs : ∀ a ∈ l₁, a ∈ l₂) : l₁.length ≤ l₂.length := by
  rw [length_eq_countP_of_subset h₁ h₂ hs]; exact List.countP_le_length

theorem length_eq_iff_of_nodup_subset {l₁ l₂ : List Nat} (h₁ : l₁.Nodup) (h₂ : l₂.Nodup)
    (hs : ∀ a ∈ l₁, a ∈ l₂) : l₁.length = l₂.length ↔ ∀ a ∈ l₂, a ∈ l₁ := by
  rw [length_eq_countP_of_subset h₁ h₂ hs, List.countP_eq_length]; simp

/-- The keys whose value is `0.0`. -/
def zeroKeys (d : Dict Dist) : List Nat := (d.filter (fun e => e.2.isZero)).map (·.1)

theorem zeroCount_eq (d : Dict Dist) : zeroCount d = (zeroKeys d).length := by
  simp [zeroCount, zeroKeys]

theorem zeroKeys_nodup {d : Dict Dist} (h : (keys d).Nodup) : (zeroKeys d).Nodup :=
  List.Nodup.sublist (List.Sublist.map _ List.filter_sublist) h

theorem mem_zeroKeys {d : Dict Dist} (h : (keys d).Nodup) (k : Nat) :
    k ∈ zeroKeys d ↔ zeroAt d k = true := by
  unfold zeroKeys zeroAt
  simp only [List.mem_map, List.mem_filter]
  constructor
  · rintro ⟨⟨k', v⟩, ⟨hm, hz⟩, rfl⟩
    simp only
    rw [(dget_eq_some_iff h k' v).2 hm]; exact hz
  · intro hz
    cases hg : dget d k with
    | none => simp [hg] at hz
    | some v =>
      simp only [hg] at hz
      exact ⟨(k, v), ⟨(dget_eq_some_iff h k v).1 hg, hz⟩, rfl⟩

theorem zeroAt_mem_keys {d : Dict Dist} {k : Nat} (h : zeroAt d k = true) : k ∈ keys d := by
  rw [mem_keys_iff]; unfold zeroAt at h
  cases hg : dget d k with
  | none => simp [hg] at h
  | some v => rfl

/-- The number of zero values of a dict equals the number of registered ids whose value is zero,
provided all keys are registered. -/
theorem zeroCount_eq_countP {d : Dict Dist} {ids : List Nat} (hd : (keys d).Nodup) (hi : ids.Nodup)
    (hs : ∀ k ∈ keys d, k ∈ ids) : zeroCount d = ids.countP (zeroAt d) := by
  rw [zeroCount_eq, List.countP_eq_length_filter]
  apply length_eq_of_nodup_ext (zeroKeys_nodup hd) (List.Pairwise.filter _ hi)
  intro k
  rw [mem_zeroKeys hd, List.mem_filter]
  exact ⟨fun h => ⟨hs k (zeroAt_mem_keys h), h⟩, fun h => h.2⟩

/-! ### Sums of rationals over a list -/

theorem sum_map_nonneg {l : List Nat} {g : Nat → Rat} (h : ∀ x ∈ l, 0 ≤ g x) : 0 ≤ (l.map g).sum := by
  induction l with
  | nil => simp
  | cons x l ih =>
    simp only [List.map_cons, List.sum_cons]
    exact Rat.add_nonneg (h x (by simp)) (ih (fun y hy => h y (by simp [hy])))

theorem sum_map_eq_zero_iff {l : List Nat} {g : Nat → Rat} (h : ∀ x ∈ l, 0 ≤ g x) :
    (l.map g).sum = 0 ↔ ∀ x ∈ l, g x = 0 := by
  induction l with
  | nil => simp
  | cons x l ih =>
    have hx := h x (by simp)
    have hl : ∀ y ∈ l, 0 ≤ g y := fun y hy => h y (by simp [hy])
    have hs := sum_map_nonneg hl
    simp only [List.map_cons, List.sum_cons, List.mem_cons, forall_eq_or_imp]
    rw [← ih hl]
    constructor
    · intro h0; constructor <;> grind
    · rintro ⟨h1, h2⟩; grind

theorem sum_map_le_sum_map {l : List Nat} {g g' : Nat → Rat} (h : ∀ x ∈ l, g x ≤ g' x) :
    (l.map g).sum ≤ (l.map g').sum := by
  induction l with
  | nil => simp
  | cons x l ih =>
    simp only [List.map_cons, List.sum_cons]
    have h1 := h x (by simp)
    have h2 := ih (fun y hy => h y (by simp [hy]))
    grind

theorem sum_map_le_length {l : List Nat} {g : Nat → Rat} {b : Rat} (h : ∀ x ∈ l, g x ≤ b) :
    (l.map g).sum ≤ (l.length : Nat) * b := by
  induction l with
  | nil => simp
  | cons x l ih =>
    simp only [List.map_cons, List.sum_cons, List.length_cons]
    have h1 := h x (by simp)
    have h2 := ih (fun y hy => h y (by simp [hy]))
    have : ((l.length + 1 : Nat) : Rat) = (l.length : Rat) + 1 := by simp
    rw [this]; grind

theorem sumExcept_ok {f : Nat → Except Err Rat} {g : Nat → Rat} {l : List Nat}
    (h : ∀ p ∈ l, f p = .ok (g p)) : sumExcept f l = .ok (l.map g).sum := by
  induction l with
  | nil => rfl
  | cons x l ih =>
    simp only [sumExcept, h x (by simp), ih (fun y hy => h y (by simp [hy])), List.map_cons,
      List.sum_cons]

/-! ### Well-formedness of traces and registries -/

/-- Invariants of the `ExecutionTrace` data structure itself: `OrderedSet`s and `dict`s have unique
elements/keys; `update_predicate_distances` and `merge` keep the three predicate dicts on the same
key set; distances are non-negative (C04). -/
structure Shape (t : Trace) : Prop where
  code_nodup : t.code.Nodup
  lines_nodup : t.lines.Nodup
  checked_nodup : t.checked.Nodup
  cnt_nodup : (keys t.cnt).Nodup
  dT_nodup : (keys t.dT).Nodup
  dF_nodup : (keys t.dF).Nodup
  keysT : ∀ k, (dget t.dT k).isSome = (dget t.cnt k).isSome
  keysF : ∀ k, (dget t.dF k).isSome = (dget t.cnt k).isSome
  nonnegT : ∀ k v, dget t.dT k = some v → v.nonneg = true
  nonnegF : ∀ k v, dget t.dF k = some v → v.nonneg = true

/-- Registry invariants: dict keys are unique, every predicate belongs to a registered code object. -/
structure RWF (r : Registry) : Prop where
  codes_nodup : r.codeIds.Nodup
  preds_nodup : r.predIds.Nodup
  lines_nodup : r.lines.Nodup
  pred_code : ∀ m ∈ r.preds, m.code ∈ r.codeIds

/-- `SubjectProperties.validate_execution_trace`, plus: checked lines are registered lines. -/
structure Valid (r : Registry) (t : Trace) : Prop where
  code_sub : ∀ c ∈ t.code, c ∈ r.codeIds
  pred_sub : ∀ k, (dget t.cnt k).isSome = true → k ∈ r.predIds
  lines_sub : ∀ l ∈ t.lines, l ∈ r.lines
  checked_sub : ∀ l ∈ t.checked, l ∈ r.lines

/-- What the branch-goal theorem needs beyond `Shape`: the instrumentation records the entry into a
code object before any of its predicates; a CFG with a predicate has diameter ≥ 1; at most one
predicate per CDG node (asserted by `register_predicate`); a path of length 0 joins a node to itself. -/
structure GoalHyp (r : Registry) (t : Trace) : Prop where
  pred_code_exec : ∀ m ∈ r.preds, (dget t.cnt m.id).isSome = true → m.code ∈ t.code
  diameter_pos : ∀ m ∈ r.preds, ∀ cm, r.findCode m.code = some cm → 1 ≤ cm.diameter
  node_inj : ∀ m ∈ r.preds, ∀ m' ∈ r.preds, m.code = m'.code → m.node = m'.node → m.id = m'.id
  path_zero : ∀ cm ∈ r.codes, ∀ a b, cm.pathLen a b = some 0 → a = b

theorem shape_empty : Shape Trace.empty := by
  constructor <;> simp [Trace.empty, keys, dget]

theorem valid_empty (r : Registry) : Valid r Trace.empty := by
  constructor <;> simp [Trace.empty, dget]

theorem branchless_nodup {r : Registry} (h : RWF r) : r.branchless.Nodup :=
  List.Pairwise.filter _ h.codes_nodup

theorem branchless_sub {r : Registry} {c : Nat} (h : c ∈ r.branchless) : c ∈ r.codeIds :=
  (List.mem_filter.1 h).1

/-! ### The values the fitness functions return when they do not raise -/

def pfPure (p : Nat) (bd : Dict Dist) (t : Trace) : Rat :=
  if zeroAt bd p then 0
  else
    match dget t.cnt p with
    | some c => if 2 ≤ c then norm (getInf bd p) else 1
    | none => 1

section pf
set_option linter.unusedSectionVars false
variable {bd : Dict Dist} {t : Trace}
  (hk : ∀ k, (dget bd k).isSome = (dget t.cnt k).isSome)
  (hn : ∀ k v, dget bd k = some v → v.nonneg = true)
include hk hn

theorem predicateFitness_eq (p : Nat) : predicateFitness p bd t = .ok (pfPure p bd t) := by
  unfold predicateFitness pfPure
  by_cases hz : zeroAt bd p = true
  · simp [hz]
  · simp only [hz, Bool.false_eq_true, if_false]
    cases hc : dget t.cnt p with
    | none => rfl
    | some c =>
      simp only
      by_cases h2 : 2 ≤ c
      · simp only [h2, if_true]
        cases hg : dget bd p with
        | none => have := hk p; simp [hg, hc] at this
        | some d => simp only [getInf, hg, Option.getD_some]; exact normalise_of_nonneg (hn p d hg)
      · simp [h2]

theorem getInf_nonneg (p : Nat) : (getInf bd p).nonneg = true := by
  unfold getInf
  cases hg : dget bd p with
  | none => rfl
  | some d => exact hn p d hg

theorem pfPure_nonneg (p : Nat) : 0 ≤ pfPure p bd t := by
  unfold pfPure
  split
  · exact Rat.le_refl
  · split
    · split
      · exact norm_nonneg (getInf_nonneg hk hn p)
      · decide
    · decide

theorem pfPure_le_one (p : Nat) : pfPure p bd t ≤ 1 := by
  unfold pfPure
  split
  · decide
  · split
    · split
      · exact norm_le_one (getInf_nonneg hk hn p)
      · exact Rat.le_refl
    · exact Rat.le_refl

theorem pfPure_eq_zero_iff (p : Nat) : pfPure p bd t = 0 ↔ zeroAt bd p = true := by
  unfold pfPure
  by_cases hz : zeroAt bd p = true
  · simp [hz]
  · simp only [hz, Bool.false_eq_true, if_false, iff_false]
    cases hc : dget t.cnt p with
    | none => simp
    | some c =>
      simp only
      by_cases h2 : 2 ≤ c
      · simp only [h2, if_true]
        rw [norm_eq_zero_iff (getInf_nonneg hk hn p)]
        cases hg : dget bd p with
        | none => have := hk p; simp [hg, hc] at this
        | some d =>
          simp only [getInf, hg, Option.getD_some]
          simpa [zeroAt, hg] using hz
      · simp [h2]

end pf

def predTermPure (t : Trace) (exT exF : List Nat) (p : Nat) : Rat :=
  (if p ∈ exT then 0 else pfPure p t.dT t) + (if p ∈ exF then 0 else pfPure p t.dF t)

theorem predTerm_eq {t : Trace} (h : Shape t) (exT exF : List Nat) (p : Nat) :
    predTerm t exT exF p = .ok (predTermPure t exT exF p) := by
  unfold predTerm predTermPure
  by_cases h1 : p ∈ exT <;> by_cases h2 : p ∈ exF <;>
    simp [h1, h2, predicateFitness_eq h.keysT h.nonnegT, predicateFitness_eq h.keysF h.nonnegF]

theorem predTermPure_nonneg {t : Trace} (h : Shape t) (exT exF : List Nat) (p : Nat) :
    0 ≤ predTermPure t exT exF p := by
  unfold predTermPure
  apply Rat.add_nonneg
  · split
    · exact Rat.le_refl
    · exact pfPure_nonneg h.keysT h.nonnegT p
  · split
    · exact Rat.le_refl
    · exact pfPure_nonneg h.keysF h.nonnegF p

theorem predTermPure_le_two {t : Trace} (h : Shape t) (exT exF : List Nat) (p : Nat) :
    predTermPure t exT exF p ≤ 2 := by
  unfold predTermPure
  have a : (if p ∈ exT then 0 else pfPure p t.dT t) ≤ 1 := by
    split
    · decide
    · exact pfPure_le_one h.keysT h.nonnegT p
  have b : (if p ∈ exF then 0 else pfPure p t.dF t) ≤ 1 := by
    split
    · decide
    · exact pfPure_le_one h.keysF h.nonnegF p
  grind

theorem predTermPure_eq_zero_iff {t : Trace} (h : Shape t) (exT exF : List Nat) (p : Nat) :
    predTermPure t exT exF p = 0 ↔
      ((p ∈ exT ∨ zeroAt t.dT p = true) ∧ (p ∈ exF ∨ zeroAt t.dF p = true)) := by
  unfold predTermPure
  have a0 := pfPure_nonneg h.keysT h.nonnegT p
  have b0 := pfPure_nonneg h.keysF h.nonnegF p
  have az := pfPure_eq_zero_iff h.keysT h.nonnegT p
  have bz := pfPure_eq_zero_iff h.keysF h.nonnegF p
  by_cases h1 : p ∈ exT <;> by_cases h2 : p ∈ exF <;> simp only [h1, h2, if_true, if_false,
    true_or, false_or, true_and, and_true] <;> grind

def branchFitnessPure (t : Trace) (r : Registry) (exCode exT exF : List Nat) : Rat :=
  (codeObjectsMissing t r exCode : Nat) + (r.predIds.map (predTermPure t exT exF)).sum

theorem branchFitness_eq {t : Trace} (h : Shape t) (r : Registry) (exCode exT exF : List Nat) :
    branchFitness t r exCode exT exF = .ok (branchFitnessPure t r exCode exT exF) := by
  unfold branchFitness branchFitnessPure
  rw [sumExcept_ok (g := predTermPure t exT exF) (fun p _ => predTerm_eq h exT exF p)]

/-! ### Coverage counts seen from the registry -/

theorem keys_sub_of_valid {r : Registry} {t : Trace} {d : Dict Dist} (hv : Valid r t)
    (hk : ∀ k, (dget d k).isSome = (dget t.cnt k).isSome) : ∀ k ∈ keys d, k ∈ r.predIds := by
  intro k hkm
  apply hv.pred_sub
  rw [← hk]; exact (mem_keys_iff d k).1 hkm

theorem branchCovered_eq {r : Registry} {t : Trace} (hr : RWF r) (h : Shape t) (hv : Valid r t) :
    branchCovered t r = r.branchless.countP (fun c => decide (c ∈ t.code))
      + r.predIds.countP (zeroAt t.dT) + r.predIds.countP (zeroAt t.dF) := by
  unfold branchCovered
  rw [zeroCount_eq_countP h.dT_nodup hr.preds_nodup (keys_sub_of_valid hv h.keysT),
    zeroCount_eq_countP h.dF_nodup hr.preds_nodup (keys_sub_of_valid hv h.keysF)]
  congr 2
  rw [List.countP_eq_length_filter]
  apply length_eq_of_nodup_ext (List.Pairwise.filter _ h.code_nodup)
    (List.Pairwise.filter _ (branchless_nodup hr))
  intro a; simp only [List.mem_filter, decide_eq_true_eq]; exact And.comm

theorem predIds_length (r : Registry) : r.predIds.length = r.preds.length := by
  simp [Registry.predIds]

theorem branchCovered_le {r : Registry} {t : Trace} (hr : RWF r) (h : Shape t) (hv : Valid r t) :
    branchCovered t r ≤ branchExisting r := by
  rw [branchCovered_eq hr h hv]; unfold branchExisting
  have a := List.countP_le_length (p := fun c => decide (c ∈ t.code)) (l := r.branchless)
  have b := List.countP_le_length (p := zeroAt t.dT) (l := r.predIds)
  have c := List.countP_le_length (p := zeroAt t.dF) (l := r.predIds)
  rw [predIds_length] at b c
  omega

theorem branchCovered_eq_existing_iff {r : Registry} {t : Trace} (hr : RWF r) (h : Shape t)
    (hv : Valid r t) :
    branchCovered t r = branchExisting r ↔
      (∀ c ∈ r.branchless, c ∈ t.code) ∧ (∀ p ∈ r.predIds, zeroAt t.dT p = true)
        ∧ (∀ p ∈ r.predIds, zeroAt t.dF p = true) := by
  rw [branchCovered_eq hr h hv]; unfold branchExisting
  have a := List.countP_le_length (p := fun c => decide (c ∈ t.code)) (l := r.branchless)
  have b := List.countP_le_length (p := zeroAt t.dT) (l := r.predIds)
  have c := List.countP_le_length (p := zeroAt t.dF) (l := r.predIds)
  have a' := List.countP_eq_length (p := fun c => decide (c ∈ t.code)) (l := r.branchless)
  have b' := List.countP_eq_length (p := zeroAt t.dT) (l := r.predIds)
  have c' := List.countP_eq_length (p := zeroAt t.dF) (l := r.predIds)
  simp only [decide_eq_true_eq] at a'
  rw [← a', ← b', ← c']
  rw [predIds_length] at *
  omega

/-! ### `ratio` -/

def ratioPure (covered existing : Nat) : Rat :=
  if existing = 0 then 1 else (covered : Rat) / (existing : Rat)

theorem ratioPure_bounds {covered existing : Nat} (h : covered ≤ existing) :
    0 ≤ ratioPure covered existing ∧ ratioPure covered existing ≤ 1 := by
  unfold ratioPure
  split
  · exact ⟨by decide, Rat.le_refl⟩
  · rename_i he
    exact ⟨natRatio_nonneg _ _, natRatio_le_one _ _ (Nat.pos_of_ne_zero he) h⟩

theorem ratio_eq {covered existing : Nat} (h : covered ≤ existing) :
    ratio covered existing = .ok (ratioPure covered existing) := by
  have hb := ratioPure_bounds h
  unfold ratio; unfold ratioPure at hb ⊢
  simp only [hb, and_self, if_true]

theorem ratioPure_eq_one_iff {covered existing : Nat} :
    ratioPure covered existing = 1 ↔ (existing = 0 ∨ covered = existing) := by
  unfold ratioPure
  split
  · rename_i he; simp [he]
  · rename_i he
    rw [natRatio_eq_one _ _ (Nat.pos_of_ne_zero he)]
    simp [he]

theorem ratioPure_mono {covered covered' existing : Nat} (h : covered ≤ covered') :
    ratioPure covered existing ≤ ratioPure covered' existing := by
  unfold ratioPure
  split
  · exact Rat.le_refl
  · exact natRatio_mono _ _ _ h

/-! ### Registry look-ups -/

theorem findPred_of_mem {r : Registry} (hr : RWF r) {m : PredMeta} (hm : m ∈ r.preds) :
    r.findPred m.id = some m := by
  have hn := hr.preds_nodup
  unfold Registry.findPred Registry.predIds at *
  generalize r.preds = l at hn hm
  induction l with
  | nil => cases hm
  | cons x l ih =>
    simp only [List.map_cons, List.nodup_cons] at hn
    simp only [List.find?_cons]
    rcases List.mem_cons.1 hm with h | h
    · subst h; simp
    · have : x.id ≠ m.id := by
        intro he; apply hn.1; rw [he]; exact List.mem_map.2 ⟨m, h, rfl⟩
      simp only [this, decide_false]
      exact ih hn.2 h

theorem findPred_some {r : Registry} {p : Nat} {m : PredMeta} (h : r.findPred p = some m) :
    m ∈ r.preds ∧ m.id = p := by
  unfold Registry.findPred at h
  exact ⟨List.mem_of_find?_eq_some h, by simpa using List.find?_some h⟩

theorem findPred_of_mem_ids {r : Registry} {p : Nat} (h : p ∈ r.predIds) :
    ∃ m, r.findPred p = some m := by
  unfold Registry.predIds at h
  obtain ⟨m, hm, rfl⟩ := List.mem_map.1 h
  cases hf : r.findPred m.id with
  | some m' => exact ⟨m', rfl⟩
  | none =>
    unfold Registry.findPred at hf
    have := List.find?_eq_none.1 hf m hm
    simp at this

theorem findCode_some {r : Registry} {c : Nat} {cm : CodeMeta} (h : r.findCode c = some cm) :
    cm ∈ r.codes ∧ cm.id = c := by
  unfold Registry.findCode at h
  exact ⟨List.mem_of_find?_eq_some h, by simpa using List.find?_some h⟩

theorem findCode_of_mem_ids {r : Registry} {c : Nat} (h : c ∈ r.codeIds) :
    ∃ cm, r.findCode c = some cm := by
  unfold Registry.codeIds at h
  obtain ⟨m, hm, rfl⟩ := List.mem_map.1 h
  cases hf : r.findCode m.id with
  | some m' => exact ⟨m', rfl⟩
  | none =>
    unfold Registry.findCode at hf
    have := List.find?_eq_none.1 hf m hm
    simp at this

end PynguinModel.Fitness
