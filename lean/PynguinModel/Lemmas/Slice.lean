import PynguinModel.Model.Slice

/-!
# C09 — correctness of the backward dynamic slicer

The single backward pass with kill sets (`sliceBack`) computes exactly the transitive closure
(`Reach`) of the forward-defined dynamic dependence relation `Dep`.

No Mathlib.
-/
namespace PynguinModel.Slice

/-! ## 1. Dependence edges go strictly backwards -/

theorem dep_lt {tr : Trace} {i j : Nat} (h : Dep tr i j) : j < i := by
  rcases h with ⟨v, _, h, _⟩ | ⟨_, h, _⟩ <;> exact h

theorem reach_le {tr : Trace} {c i : Nat} (h : Reach tr c i) : i ≤ c := by
  induction h with
  | refl => exact Nat.le_refl _
  | step _ hd ih => have := dep_lt hd; omega

/-! ## 2. One step of the slicer, in closed form -/

/-- The step at `j` is put into the slice. -/
def addB (tr : Trace) (cx : Ctx) (j : Nat) : Bool :=
  ((evAt tr j).isBranch &&
      cx.ctrlDeps.any (fun p => (evAt tr p).anc.contains (evAt tr j).node))
    || cx.varUses.any (fun v => (evAt tr j).defs.contains v)

theorem isEmpty_filter_eq {α : Type} (p : α → Bool) (l : List α) :
    (l.filter p).isEmpty = !l.any p := by
  induction l with
  | nil => rfl
  | cons a l ih => cases h : p a <;> simp [h, ih]

theorem filter_const_true {α : Type} (l : List α) : l.filter (fun _ => true) = l := by
  induction l with
  | nil => rfl
  | cons a l ih => simp

theorem step_eq (tr : Trace) (cx : Ctx) (j : Nat) :
    step tr cx j =
      { inSlice := if addB tr cx j then j :: cx.inSlice else cx.inSlice,
        ctrlDeps := (if addB tr cx j && (evAt tr j).pend then [j] else []) ++
          cx.ctrlDeps.filter
            (fun p => !((evAt tr j).isBranch && (evAt tr p).anc.contains (evAt tr j).node)),
        varUses := (if addB tr cx j then (evAt tr j).uses else []) ++
          cx.varUses.filter (fun v => !(evAt tr j).defs.contains v) } := by
  unfold step addB checkControlDependency checkExplicitDataDependency addUses addControlDependency
  cases hb : (evAt tr j).isBranch <;> cases hp : (evAt tr j).pend <;>
    simp [isEmpty_filter_eq, hb, hp] <;> split <;> simp [filter_const_true]

theorem step_inSlice (tr : Trace) (cx : Ctx) (j : Nat) :
    (step tr cx j).inSlice = if addB tr cx j then j :: cx.inSlice else cx.inSlice := by
  rw [step_eq]

theorem mem_step_varUses (tr : Trace) (cx : Ctx) (j : Nat) (v : Var) :
    v ∈ (step tr cx j).varUses ↔
      (addB tr cx j = true ∧ v ∈ (evAt tr j).uses) ∨
        (v ∈ cx.varUses ∧ v ∉ (evAt tr j).defs) := by
  rw [step_eq]
  cases addB tr cx j <;> simp [List.mem_filter]

theorem mem_step_ctrlDeps (tr : Trace) (cx : Ctx) (j : Nat) (p : Nat) :
    p ∈ (step tr cx j).ctrlDeps ↔
      (addB tr cx j = true ∧ (evAt tr j).pend = true ∧ p = j) ∨
        (p ∈ cx.ctrlDeps ∧ ¬ Controls tr p j) := by
  rw [step_eq]
  unfold Controls
  cases addB tr cx j <;> cases (evAt tr j).pend <;> cases (evAt tr j).isBranch <;>
    simp [List.mem_filter]

theorem addB_iff (tr : Trace) (cx : Ctx) (j : Nat) :
    addB tr cx j = true ↔
      (∃ p, p ∈ cx.ctrlDeps ∧ Controls tr p j) ∨
        (∃ v, v ∈ cx.varUses ∧ v ∈ (evAt tr j).defs) := by
  simp only [addB, Controls, Bool.or_eq_true, Bool.and_eq_true, List.any_eq_true,
    List.contains_iff_mem]
  constructor
  · rintro (⟨hb, p, hp, hn⟩ | h)
    · exact Or.inl ⟨p, hp, hb, hn⟩
    · exact Or.inr h
  · rintro (⟨p, hp, hb, hn⟩ | h)
    · exact Or.inl ⟨hb, p, hp, hn⟩
    · exact Or.inr h

/-! ## 3. The invariant of the backward walk -/

/-- State of the slicer after the positions `c-1, …, j` have been processed. -/
structure Inv (tr : Trace) (c j : Nat) (cx : Ctx) : Prop where
  i1 : ∀ i, i ∈ cx.inSlice ↔ (j ≤ i ∧ Reach tr c i)
  i2 : ∀ v, v ∈ cx.varUses ↔
    ∃ i, i ∈ cx.inSlice ∧ v ∈ (evAt tr i).uses ∧ ∀ k, j ≤ k → k < i → v ∉ (evAt tr k).defs
  i3 : ∀ p, p ∈ cx.ctrlDeps ↔
    p ∈ cx.inSlice ∧ (evAt tr p).pend = true ∧ ∀ k, j ≤ k → k < p → ¬ Controls tr p k

theorem init_inSlice (tr : Trace) (c : Nat) : (init tr c).inSlice = [c] := by
  unfold init addUses addControlDependency
  split <;> rfl

theorem init_varUses (tr : Trace) (c : Nat) : (init tr c).varUses = (evAt tr c).uses := by
  unfold init addUses addControlDependency
  split <;> simp

theorem init_ctrlDeps (tr : Trace) (c : Nat) :
    (init tr c).ctrlDeps = if (evAt tr c).pend then [c] else [] := by
  unfold init addUses addControlDependency
  split <;> rfl

theorem inv_init (tr : Trace) (c : Nat) : Inv tr c c (init tr c) := by
  refine ⟨?_, ?_, ?_⟩
  · intro i
    rw [init_inSlice]
    constructor
    · intro h
      have : i = c := by simpa using h
      subst this
      exact ⟨Nat.le_refl _, Reach.refl⟩
    · rintro ⟨h1, h2⟩
      have := reach_le h2
      have : i = c := by omega
      simp [this]
  · intro v
    rw [init_inSlice, init_varUses]
    constructor
    · intro h
      exact ⟨c, by simp, h, fun k h1 h2 => by omega⟩
    · rintro ⟨i, hi, hv, _⟩
      have : i = c := by simpa using hi
      subst this
      exact hv
  · intro p
    rw [init_inSlice, init_ctrlDeps]
    constructor
    · intro h
      cases hp : (evAt tr c).pend
      · simp [hp] at h
      · have : p = c := by simpa [hp] using h
        subst this
        exact ⟨by simp, hp, fun k h1 h2 => by omega⟩
    · rintro ⟨hi, hp, _⟩
      have : p = c := by simpa using hi
      subst this
      simp [hp]

theorem reach_cases {tr : Trace} {c j : Nat} (h : Reach tr c j) :
    j = c ∨ ∃ i, Reach tr c i ∧ Dep tr i j := by
  cases h with
  | refl => exact Or.inl rfl
  | step hr hd => exact Or.inr ⟨_, hr, hd⟩

theorem addB_iff_reach {tr : Trace} {c j : Nat} {cx : Ctx} (inv : Inv tr c (j + 1) cx)
    (hj : j < c) : addB tr cx j = true ↔ Reach tr c j := by
  rw [addB_iff]
  constructor
  · rintro (⟨p, hp, hc⟩ | ⟨v, hv, hd⟩)
    · obtain ⟨hps, hpend, hno⟩ := (inv.i3 p).1 hp
      obtain ⟨hlt, hr⟩ := (inv.i1 p).1 hps
      exact Reach.step hr (Or.inr ⟨hpend, by omega, hc, fun k h1 h2 => hno k (by omega) h2⟩)
    · obtain ⟨i, his, hu, hno⟩ := (inv.i2 v).1 hv
      obtain ⟨hlt, hr⟩ := (inv.i1 i).1 his
      exact Reach.step hr
        (Or.inl ⟨v, hu, by omega, hd, fun k h1 h2 => hno k (by omega) h2⟩)
  · intro h
    rcases reach_cases h with rfl | ⟨i, hr, hd⟩
    · omega
    · have hlt := dep_lt hd
      have his : i ∈ cx.inSlice := (inv.i1 i).2 ⟨by omega, hr⟩
      rcases hd with ⟨v, hu, _, hdef, hno⟩ | ⟨hpend, _, hc, hno⟩
      · exact Or.inr ⟨v, (inv.i2 v).2 ⟨i, his, hu, fun k h1 h2 => hno k (by omega) h2⟩, hdef⟩
      · exact Or.inl ⟨i, (inv.i3 i).2 ⟨his, hpend, fun k h1 h2 => hno k (by omega) h2⟩, hc⟩

theorem inv_step_i1 {tr : Trace} {c j : Nat} {cx : Ctx} (inv : Inv tr c (j + 1) cx)
    (hj : j < c) (i : Nat) : i ∈ (step tr cx j).inSlice ↔ (j ≤ i ∧ Reach tr c i) := by
  have hadd := addB_iff_reach inv hj
  have h1 := inv.i1 i
  rw [step_inSlice]
  by_cases hb : addB tr cx j = true
  · have hr := hadd.1 hb
    rw [if_pos hb, List.mem_cons, h1]
    constructor
    · rintro (rfl | ⟨h, h'⟩)
      · exact ⟨Nat.le_refl _, hr⟩
      · exact ⟨by omega, h'⟩
    · rintro ⟨h, h'⟩
      by_cases e : i = j
      · exact Or.inl e
      · exact Or.inr ⟨by omega, h'⟩
  · have hr : ¬ Reach tr c j := fun h => hb (hadd.2 h)
    rw [if_neg hb, h1]
    constructor
    · rintro ⟨h, h'⟩
      exact ⟨by omega, h'⟩
    · rintro ⟨h, h'⟩
      have e : i ≠ j := by
        rintro rfl
        exact hr h'
      exact ⟨by omega, h'⟩

theorem inv_step {tr : Trace} {c j : Nat} {cx : Ctx} (inv : Inv tr c (j + 1) cx)
    (hj : j < c) : Inv tr c j (step tr cx j) := by
  have hadd := addB_iff_reach inv hj
  have hI1 := inv_step_i1 inv hj
  refine ⟨hI1, ?_, ?_⟩
  · intro v
    rw [mem_step_varUses]
    constructor
    · rintro (⟨hb, hu⟩ | ⟨hv, hnd⟩)
      · exact ⟨j, (hI1 j).2 ⟨Nat.le_refl _, hadd.1 hb⟩, hu, fun k h1 h2 => by omega⟩
      · obtain ⟨i, his, hu, hno⟩ := (inv.i2 v).1 hv
        obtain ⟨hlt, hr⟩ := (inv.i1 i).1 his
        refine ⟨i, (hI1 i).2 ⟨by omega, hr⟩, hu, fun k h1 h2 => ?_⟩
        by_cases e : k = j
        · subst e; exact hnd
        · exact hno k (by omega) h2
    · rintro ⟨i, his, hu, hno⟩
      obtain ⟨hle, hr⟩ := (hI1 i).1 his
      by_cases e : i = j
      · subst e
        exact Or.inl ⟨hadd.2 hr, hu⟩
      · refine Or.inr ⟨(inv.i2 v).2 ⟨i, (inv.i1 i).2 ⟨by omega, hr⟩, hu,
          fun k h1 h2 => hno k (by omega) h2⟩, hno j (Nat.le_refl _) (by omega)⟩
  · intro p
    rw [mem_step_ctrlDeps]
    constructor
    · rintro (⟨hb, hpend, rfl⟩ | ⟨hp, hnc⟩)
      · exact ⟨(hI1 p).2 ⟨Nat.le_refl _, hadd.1 hb⟩, hpend, fun k h1 h2 => by omega⟩
      · obtain ⟨hps, hpend, hno⟩ := (inv.i3 p).1 hp
        obtain ⟨hlt, hr⟩ := (inv.i1 p).1 hps
        refine ⟨(hI1 p).2 ⟨by omega, hr⟩, hpend, fun k h1 h2 => ?_⟩
        by_cases e : k = j
        · subst e; exact hnc
        · exact hno k (by omega) h2
    · rintro ⟨hps, hpend, hno⟩
      obtain ⟨hle, hr⟩ := (hI1 p).1 hps
      by_cases e : p = j
      · subst e
        exact Or.inl ⟨hadd.2 hr, hpend, rfl⟩
      · refine Or.inr ⟨(inv.i3 p).2 ⟨(inv.i1 p).2 ⟨by omega, hr⟩, hpend,
          fun k h1 h2 => hno k (by omega) h2⟩, hno j (Nat.le_refl _) (by omega)⟩

theorem inv_walk (tr : Trace) (c : Nat) :
    ∀ (j : Nat) (cx : Ctx), j ≤ c → Inv tr c j cx → Inv tr c 0 (walk tr j cx) := by
  intro j
  induction j with
  | zero => intro cx _ h; exact h
  | succ j ih =>
    intro cx hj h
    show Inv tr c 0 (walk tr j (step tr cx j))
    exact ih _ (by omega) (inv_step h (by omega))

/-! ## 4. Main theorem and corollaries -/

theorem mem_sliceBack_iff_reach (tr : Trace) (c i : Nat) :
    i ∈ sliceBack tr c ↔ Reach tr c i := by
  have h := (inv_walk tr c c (init tr c) (Nat.le_refl _) (inv_init tr c)).i1 i
  unfold sliceBack
  rw [h]
  exact ⟨fun h => h.2, fun h => ⟨Nat.zero_le _, h⟩⟩

theorem sliceBack_closed (tr : Trace) (c : Nat) {i j : Nat} (hi : i ∈ sliceBack tr c)
    (hd : Dep tr i j) : j ∈ sliceBack tr c :=
  (mem_sliceBack_iff_reach tr c j).2 (Reach.step ((mem_sliceBack_iff_reach tr c i).1 hi) hd)

theorem criterion_mem_sliceBack (tr : Trace) (c : Nat) : c ∈ sliceBack tr c :=
  (mem_sliceBack_iff_reach tr c c).2 Reach.refl

theorem sliceBack_least (tr : Trace) (c : Nat) (S : Nat → Prop) (hc : S c)
    (hcl : ∀ i j, S i → Dep tr i j → S j) : ∀ i ∈ sliceBack tr c, S i := by
  intro i hi
  have hr := (mem_sliceBack_iff_reach tr c i).1 hi
  induction hr with
  | refl => exact hc
  | step hr hd ih => exact hcl _ _ (ih ((mem_sliceBack_iff_reach tr c _).2 hr)) hd

theorem sliceBack_le (tr : Trace) (c : Nat) : ∀ i ∈ sliceBack tr c, i ≤ c :=
  fun i hi => reach_le ((mem_sliceBack_iff_reach tr c i).1 hi)

/-! ## 5. Checked lines are executed lines -/

theorem evAt_mem {tr : Trace} {p : Nat} (h : p < tr.length) : evAt tr p ∈ tr := by
  have : evAt tr p = tr[p] := by
    simp [evAt, List.getD_eq_getElem?_getD, List.getElem?_eq_getElem h]
  rw [this]
  exact List.getElem_mem h

theorem linesOf_subset_executed (tr : Trace) (ps : List Nat) (h : ∀ p ∈ ps, p < tr.length) :
    ∀ l ∈ linesOf tr ps, l ∈ executedLines tr := by
  intro l hl
  unfold linesOf at hl
  unfold executedLines
  rw [List.mem_filter, List.mem_map] at *
  obtain ⟨⟨p, hp, rfl⟩, hne⟩ := hl
  exact ⟨⟨evAt tr p, evAt_mem (h p hp), rfl⟩, hne⟩

theorem sliceLines_subset_executed (tr : Trace) (c : Nat) (hc : c < tr.length) :
    ∀ l ∈ sliceLines tr c, l ∈ executedLines tr :=
  linesOf_subset_executed tr _ (fun p hp => Nat.lt_of_le_of_lt (sliceBack_le tr c p hp) hc)

theorem checkedLines_subset_executed (tr : Trace) (crits : List Nat)
    (hc : ∀ c ∈ crits, c < tr.length) : ∀ l ∈ checkedLines tr crits, l ∈ executedLines tr := by
  intro l hl
  unfold checkedLines at hl
  rw [List.mem_flatMap] at hl
  obtain ⟨c, hcm, hl⟩ := hl
  exact sliceLines_subset_executed tr c (hc c hcm) l hl

/-! ## 5b. `compute_statement_checked_lines`: cleansing is per statement, accumulation is monotone -/

theorem mem_cleanse {tr : Trace} {rn : Nat → Bool} {sl lines : List Nat} {l : Nat} :
    l ∈ cleanse tr rn sl lines ↔ l ∈ lines ∧ cleanseLine tr rn sl ≠ some l := by
  unfold cleanse
  cases h : cleanseLine tr rn sl with
  | none => simp
  | some x =>
    simp only [List.mem_filter, bne_iff_ne, ne_eq, Option.some.injEq]
    constructor
    · rintro ⟨h1, h2⟩; exact ⟨h1, fun e => h2 e.symm⟩
    · rintro ⟨h1, h2⟩; exact ⟨h1, fun e => h2 e.symm⟩

theorem cleanse_subset {tr : Trace} {rn : Nat → Bool} {sl lines : List Nat} :
    ∀ l ∈ cleanse tr rn sl lines, l ∈ lines := fun _ h => (mem_cleanse.1 h).1

/-- The cleansed line is the line of a `return None` step of the slice. -/
theorem cleanseLine_spec {tr : Trace} {rn : Nat → Bool} {sl : List Nat} {l : Nat}
    (h : cleanseLine tr rn sl = some l) : ∃ r ∈ sl, rn r = true ∧ (evAt tr r).line = l := by
  unfold cleanseLine at h
  split at h
  · next x r q t hrev =>
    split at h
    · next hc =>
      simp only [Bool.and_eq_true] at hc
      refine ⟨r, ?_, hc.1, by simpa using h⟩
      have : r ∈ sl.reverse := by rw [hrev]; simp
      simpa using this
    · exact absurd h (by simp)
  · exact absurd h (by simp)

theorem mem_stmtCheckedLoop {tr : Trace} {rn : Nat → Bool} (crits : List Nat) :
    ∀ (acc : List Nat) (l : Nat),
      l ∈ stmtCheckedLoop tr rn crits acc ↔ l ∈ acc ∨ ∃ c ∈ crits, l ∈ stmtLines tr rn c := by
  induction crits with
  | nil => intro acc l; simp [stmtCheckedLoop]
  | cons c rest ih =>
    intro acc l
    simp only [stmtCheckedLoop, ih, List.mem_append, List.mem_cons, exists_eq_or_imp]
    constructor
    · rintro ((h | h) | h)
      · exact Or.inl h
      · exact Or.inr (Or.inl h)
      · exact Or.inr (Or.inr h)
    · rintro (h | h | h)
      · exact Or.inl (Or.inl h)
      · exact Or.inl (Or.inr h)
      · exact Or.inr h

theorem mem_stmtCheckedLines {tr : Trace} {rn : Nat → Bool} {crits : List Nat} {l : Nat} :
    l ∈ stmtCheckedLines tr rn crits ↔ ∃ c ∈ crits, l ∈ stmtLines tr rn c := by
  simp [stmtCheckedLines, mem_stmtCheckedLoop]

theorem stmtLines_subset_sliceLines {tr : Trace} {rn : Nat → Bool} {c : Nat} :
    ∀ l ∈ stmtLines tr rn c, l ∈ sliceLines tr c := fun _ h => cleanse_subset _ h

theorem stmtCheckedLines_subset_executed (tr : Trace) (rn : Nat → Bool) (crits : List Nat)
    (hc : ∀ c ∈ crits, c < tr.length) :
    ∀ l ∈ stmtCheckedLines tr rn crits, l ∈ executedLines tr := by
  intro l hl
  obtain ⟨c, hcm, hl⟩ := mem_stmtCheckedLines.1 hl
  exact sliceLines_subset_executed tr c (hc c hcm) l (stmtLines_subset_sliceLines l hl)

/-! ## 6. Semantic reading: replaying a super-set of the slice -/

section Replay

variable (tr : Trace) (sem : Nat → (Var → Int) → Var → Int) (sel : Nat → Bool) (ρ0 : Var → Int)

theorem replay_succ_of_not_def {n : Nat} {v : Var} (h : v ∉ (evAt tr n).defs) :
    replay tr sem sel ρ0 (n + 1) v = replay tr sem sel ρ0 n v := by
  simp only [replay]
  cases sel n <;> simp [h]

theorem replay_succ_of_def {n : Nat} {v : Var} (h : v ∈ (evAt tr n).defs) (hs : sel n = true) :
    replay tr sem sel ρ0 (n + 1) v = sem n (replay tr sem sel ρ0 n) v := by
  simp [replay, hs, h]

theorem replay_eq_of_no_def {j : Nat} {v : Var} :
    ∀ i, j ≤ i → (∀ k, j ≤ k → k < i → v ∉ (evAt tr k).defs) →
      replay tr sem sel ρ0 i v = replay tr sem sel ρ0 j v := by
  intro i
  induction i with
  | zero =>
    intro h _
    have : j = 0 := by omega
    rw [this]
  | succ i ih =>
    intro h hno
    by_cases e : j = i + 1
    · rw [e]
    · rw [replay_succ_of_not_def tr sem sel ρ0 (hno i (by omega) (by omega))]
      exact ih (by omega) (fun k h1 h2 => hno k h1 (by omega))

theorem replay_of_lastDef {i j : Nat} {u : Var} (h : LastDef tr i u j) (hs : sel j = true) :
    replay tr sem sel ρ0 i u = sem j (replay tr sem sel ρ0 j) u := by
  obtain ⟨hlt, hd, hno⟩ := h
  rw [replay_eq_of_no_def tr sem sel ρ0 (j := j + 1) i (by omega)
    (fun k h1 h2 => hno k (by omega) h2)]
  exact replay_succ_of_def tr sem sel ρ0 hd hs

theorem replay_of_no_def {i : Nat} {u : Var} (h : ∀ k, k < i → u ∉ (evAt tr k).defs) :
    replay tr sem sel ρ0 i u = ρ0 u :=
  replay_eq_of_no_def tr sem sel ρ0 (j := 0) i (Nat.zero_le _) (fun k _ h2 => h k h2)

theorem lastDef_or_none (v : Var) :
    ∀ i, (∀ k, k < i → v ∉ (evAt tr k).defs) ∨ ∃ j, LastDef tr i v j := by
  intro i
  induction i with
  | zero => exact Or.inl (fun k h => by omega)
  | succ i ih =>
    by_cases hd : v ∈ (evAt tr i).defs
    · exact Or.inr ⟨i, by omega, hd, fun k h1 h2 => by omega⟩
    · rcases ih with h | ⟨j, hlt, hj, hno⟩
      · refine Or.inl (fun k hk => ?_)
        by_cases e : k = i
        · subst e; exact hd
        · exact h k (by omega)
      · refine Or.inr ⟨j, by omega, hj, fun k h1 h2 => ?_⟩
        by_cases e : k = i
        · subst e; exact hd
        · exact hno k h1 (by omega)

theorem replay_slice_agrees
    (hsem : ∀ i ρ ρ', (∀ u ∈ (evAt tr i).uses, ρ u = ρ' u) → ∀ v, sem i ρ v = sem i ρ' v)
    (ρ0 : Var → Int) (c : Nat) (sel : Nat → Bool)
    (hsel : ∀ i, Reach tr c i → sel i = true) :
    ∀ i, Reach tr c i → ∀ u ∈ (evAt tr i).uses,
      replay tr sem sel ρ0 i u = replay tr sem (fun _ => true) ρ0 i u := by
  intro i
  induction i using Nat.strongRecOn with
  | ind i ih =>
    intro hr u hu
    rcases lastDef_or_none tr u i with hno | ⟨j, hl⟩
    · rw [replay_of_no_def tr sem sel ρ0 hno, replay_of_no_def tr sem _ ρ0 hno]
    · have hrj : Reach tr c j := Reach.step hr (Or.inl ⟨u, hu, hl⟩)
      rw [replay_of_lastDef tr sem sel ρ0 hl (hsel j hrj),
        replay_of_lastDef tr sem (fun _ => true) ρ0 hl rfl]
      exact hsem j _ _ (fun u' hu' => ih j hl.1 hrj u' hu') u

end Replay

/-! ## 7. Re-keying variables through an injective map changes nothing -/

section Rekey

variable (f : Nat → Nat)

/-- The variable renaming induced by a renaming of scopes. -/
def rekeyVar (v : Var) : Var := ⟨f v.scope, v.name⟩

def Ctx.rekey (cx : Ctx) : Ctx := { cx with varUses := cx.varUses.map (rekeyVar f) }

theorem rekeyVar_injective (hf : ∀ a b, f a = f b → a = b) {v w : Var}
    (h : rekeyVar f v = rekeyVar f w) : v = w := by
  cases v; cases w
  simp only [rekeyVar, Var.mk.injEq] at h
  obtain ⟨h1, h2⟩ := h
  rw [hf _ _ h1, h2]

theorem contains_map_rekeyVar (hf : ∀ a b, f a = f b → a = b) (l : List Var) (v : Var) :
    (l.map (rekeyVar f)).contains (rekeyVar f v) = l.contains v := by
  rw [Bool.eq_iff_iff]
  simp only [List.contains_iff_mem, List.mem_map]
  constructor
  · rintro ⟨w, hw, e⟩
    rw [← rekeyVar_injective f hf e]
    exact hw
  · intro h
    exact ⟨v, h, rfl⟩

theorem evAt_rekey (tr : Trace) (i : Nat) : evAt (rekey f tr) i = (evAt tr i).rekey f := by
  simp only [evAt, rekey, List.getD_eq_getElem?_getD, List.getElem?_map]
  cases tr[i]? <;> rfl

theorem rekey_defs (e : Ev) : (e.rekey f).defs = e.defs.map (rekeyVar f) := rfl
theorem rekey_uses (e : Ev) : (e.rekey f).uses = e.uses.map (rekeyVar f) := rfl
theorem rekey_isBranch (e : Ev) : (e.rekey f).isBranch = e.isBranch := rfl
theorem rekey_node (e : Ev) : (e.rekey f).node = e.node := rfl
theorem rekey_anc (e : Ev) : (e.rekey f).anc = e.anc := rfl
theorem rekey_pend (e : Ev) : (e.rekey f).pend = e.pend := rfl

theorem addB_rekey (hf : ∀ a b, f a = f b → a = b) (tr : Trace) (cx : Ctx) (j : Nat) :
    addB (rekey f tr) (cx.rekey f) j = addB tr cx j := by
  unfold addB
  simp only [evAt_rekey, rekey_defs, rekey_isBranch, rekey_node, rekey_anc, Ctx.rekey,
    List.any_map, Function.comp_def, contains_map_rekeyVar f hf]

theorem step_rekey (hf : ∀ a b, f a = f b → a = b) (tr : Trace) (cx : Ctx) (j : Nat) :
    step (rekey f tr) (cx.rekey f) j = (step tr cx j).rekey f := by
  rw [step_eq, step_eq, addB_rekey f hf]
  simp only [evAt_rekey, rekey_defs, rekey_uses, rekey_isBranch, rekey_node, rekey_anc,
    rekey_pend, Ctx.rekey, List.filter_map, Function.comp_def, contains_map_rekeyVar f hf,
    List.map_append]
  cases addB tr cx j <;> rfl

theorem init_rekey (tr : Trace) (c : Nat) : init (rekey f tr) c = (init tr c).rekey f := by
  unfold init addUses addControlDependency
  simp only [evAt_rekey, rekey_uses, rekey_pend, Ctx.rekey]
  cases (evAt tr c).pend <;> simp

theorem walk_rekey (hf : ∀ a b, f a = f b → a = b) (tr : Trace) :
    ∀ (n : Nat) (cx : Ctx), walk (rekey f tr) n (cx.rekey f) = (walk tr n cx).rekey f := by
  intro n
  induction n with
  | zero => intro cx; rfl
  | succ n ih =>
    intro cx
    show walk (rekey f tr) n (step (rekey f tr) (cx.rekey f) n) = _
    rw [step_rekey f hf, ih]
    rfl

theorem sliceBack_rekey_injective (f : Nat → Nat) (hf : ∀ a b, f a = f b → a = b) (tr : Trace)
    (c : Nat) : sliceBack (rekey f tr) c = sliceBack tr c := by
  unfold sliceBack
  rw [init_rekey, walk_rekey f hf]
  rfl

end Rekey

/-! ## Attribute uses: `'<hex address>_<name>'` keys and their conversion at object creation -/

theorem hexChar_ne : ∀ d, d < 16 → hexChar d ≠ '_' := by decide

theorem hexAux_ne (f : Nat) : ∀ (n : Nat) (acc : List Char), (∀ c ∈ acc, c ≠ '_') →
    ∀ c ∈ hexAux f n acc, c ≠ '_' := by
  induction f with
  | zero => intro n acc h; simpa [hexAux] using h
  | succ f ih =>
    intro n acc h
    unfold hexAux
    split
    · rename_i hn
      intro c hc
      rcases List.mem_cons.mp hc with rfl | hc
      · exact hexChar_ne n hn
      · exact h c hc
    · apply ih
      intro c hc
      rcases List.mem_cons.mp hc with rfl | hc
      · exact hexChar_ne _ (Nat.mod_lt _ (by omega))
      · exact h c hc

theorem pyHex_ne (n : Nat) : ∀ c ∈ pyHex n, c ≠ '_' := by
  intro c hc
  unfold pyHex at hc
  rcases List.mem_cons.mp hc with rfl | hc
  · decide
  rcases List.mem_cons.mp hc with rfl | hc
  · decide
  exact hexAux_ne _ _ [] (by simp) c hc

theorem splitU_ne_nil (s : List Char) : splitU s ≠ [] := by
  cases s with
  | nil => simp [splitU]
  | cons c cs =>
    unfold splitU
    split
    · simp
    · split <;> simp

theorem joinU_splitU (s : List Char) : joinU (splitU s) = s := by
  induction s with
  | nil => simp [splitU, joinU]
  | cons c cs ih =>
    unfold splitU
    split
    · rename_i hc
      cases hs : splitU cs with
      | nil => exact absurd hs (splitU_ne_nil cs)
      | cons y r => rw [hs] at ih; simp [joinU, ih, hc]
    · cases hs : splitU cs with
      | nil => exact absurd hs (splitU_ne_nil cs)
      | cons h t =>
        rw [hs] at ih
        cases t with
        | nil => simp [joinU] at ih ⊢; exact ih
        | cons y r => simp [joinU] at ih ⊢; exact ih

theorem splitU_prefix (pre rest : List Char) (h : ∀ c ∈ pre, c ≠ '_') :
    splitU (pre ++ '_' :: rest) = pre :: splitU rest := by
  induction pre with
  | nil => simp [splitU]
  | cons c cs ih =>
    have hc : c ≠ '_' := h c (by simp)
    have ih' := ih (fun d hd => h d (by simp [hd]))
    simp only [List.cons_append]
    rw [splitU]
    simp [hc, ih']

/-- The name component of the address-qualified key is recovered exactly, for every address and
every name (leading / trailing / inner underscores included). -/
theorem attrNameOfKey_attrUseKey (addr : Nat) (name : List Char) :
    attrNameOfKey (attrUseKey addr name) = name := by
  unfold attrNameOfKey attrUseKey
  rw [splitU_prefix _ _ (pyHex_ne addr)]
  exact joinU_splitU name

theorem attrUseOf_attrUseKey (addr : Nat) (name : List Char) :
    attrUseOf addr (attrUseKey addr name) = true := by
  simp [attrUseOf, attrUseKey]

/-- Every pending attribute use on the created object is converted into exactly its own name and
leaves the pending uses. -/
theorem convertAttrUses_complete (addr : Nat) (h0 : addr ≠ 0) (uses : List (List Char))
    (name : List Char) (h : attrUseKey addr name ∈ uses) :
    name ∈ (convertAttrUses addr uses).1 ∧ attrUseKey addr name ∉ (convertAttrUses addr uses).2 := by
  simp only [convertAttrUses, h0, if_false]
  constructor
  · apply List.mem_map.mpr
    exact ⟨attrUseKey addr name, List.mem_filter.mpr ⟨h, attrUseOf_attrUseKey addr name⟩,
      attrNameOfKey_attrUseKey addr name⟩
  · intro hm
    have := (List.mem_filter.mp hm).2
    simp [attrUseOf_attrUseKey] at this

/-- Uses that are not attribute uses on the created object stay pending. -/
theorem convertAttrUses_keeps (addr : Nat) (uses : List (List Char)) (u : List Char)
    (h : u ∈ uses) (hn : attrUseOf addr u = false) : u ∈ (convertAttrUses addr uses).2 := by
  unfold convertAttrUses
  split
  · exact h
  · exact List.mem_filter.mpr ⟨h, by simp [hn]⟩

end PynguinModel.Slice
