import PynguinModel.Model.FsPathStr
import PynguinModel.Lemmas.FsIsolationRun
/-!
# Path strings vs. path components (C29)

The ancestor walk of `_is_isolated` over path STRINGS (`isolatedWalk`, `dirnameC`) decides exactly the
component-wise containment `covered` that the isolation invariant (`Inv.cov`, `Inv.owns_fresh`) is stated
with — provided every component is a real file name (non-empty, no separator).  Character-wise containment
(`charCovered`) is strictly weaker: it also accepts siblings whose NAME merely extends a recorded name.
-/

namespace PynguinModel.FsIsolation

/-- a real file name: non-empty and without a separator -/
def CleanName (c : String) : Prop := c.toList ≠ [] ∧ sepC ∉ c.toList

def CleanPath (p : Path) : Prop := ∀ c ∈ p, CleanName c

theorem CleanPath.tail {c : String} {p : Path} (h : CleanPath (c :: p)) : CleanPath p :=
  fun d hd => h d (List.mem_cons_of_mem _ hd)

theorem CleanPath.head {c : String} {p : Path} (h : CleanPath (c :: p)) : CleanName c :=
  h c List.mem_cons_self

theorem CleanPath.append {p q : Path} (hp : CleanPath p) (hq : CleanPath q) : CleanPath (p ++ q) := by
  intro c hc
  rcases List.mem_append.1 hc with h | h
  · exact hp c h
  · exact hq c h

theorem CleanPath.left {p q : Path} (h : CleanPath (p ++ q)) : CleanPath p :=
  fun c hc => h c (List.mem_append_left _ hc)

theorem CleanPath.right {p q : Path} (h : CleanPath (p ++ q)) : CleanPath q :=
  fun c hc => h c (List.mem_append_right _ hc)

theorem cleanName_of_check {c : String} (h : cleanNameB c = true) : CleanName c := by
  simp only [cleanNameB, Bool.and_eq_true, bne_iff_ne, ne_eq, Bool.not_eq_true'] at h
  refine ⟨?_, ?_⟩
  · intro h0
    exact h.1.1.1 (String.ext (by simpa using h0))
  · intro hm
    have := List.contains_iff_mem.2 hm
    rw [h.2] at this
    exact Bool.false_ne_true this

theorem cleanPath_of_check {p : Path} (h : cleanPathB p = true) : CleanPath p := by
  intro c hc
  exact cleanName_of_check (List.all_eq_true.1 h c hc)

/-! ## `render` -/

theorem render_append (p q : Path) : render (p ++ q) = render p ++ render q := by
  induction p with
  | nil => rfl
  | cons c p ih => simp [render, ih]

theorem render_singleton (c : String) : render [c] = sepC :: c.toList := by simp [render]

theorem render_snoc (p : Path) (c : String) : render (p ++ [c]) = render p ++ sepC :: c.toList := by
  rw [render_append, render_singleton]

/-- a rendered path is empty or starts with the separator -/
theorem render_head (p : Path) : render p = [] ∨ ∃ t, render p = sepC :: t := by
  cases p with
  | nil => exact Or.inl rfl
  | cons c p => exact Or.inr ⟨_, rfl⟩

theorem render_eq_nil {p : Path} : render p = [] ↔ p = [] := by
  cases p with
  | nil => simp [render]
  | cons c p => simp [render]

/-- two separator-free names followed by (nothing or a separator …) that agree as strings agree name by name -/
theorem name_split {a b x y : PStr} (ha : sepC ∉ a) (hb : sepC ∉ b)
    (hx : x = [] ∨ ∃ t, x = sepC :: t) (hy : y = [] ∨ ∃ t, y = sepC :: t)
    (h : a ++ x = b ++ y) : a = b ∧ x = y := by
  induction a generalizing b with
  | nil =>
    cases b with
    | nil => exact ⟨rfl, by simpa using h⟩
    | cons d b =>
      exfalso
      rcases hx with hx | ⟨t, hx⟩
      · subst hx; simp at h
      · subst hx
        simp only [List.nil_append, List.cons_append, List.cons.injEq] at h
        exact hb (h.1 ▸ List.mem_cons_self)
  | cons e a ih =>
    cases b with
    | nil =>
      exfalso
      rcases hy with hy | ⟨t, hy⟩
      · subst hy; simp at h
      · subst hy
        simp only [List.nil_append, List.cons_append, List.cons.injEq] at h
        exact ha (h.1 ▸ List.mem_cons_self)
    | cons d b =>
      simp only [List.cons_append, List.cons.injEq] at h
      have ha' : sepC ∉ a := fun hm => ha (List.mem_cons_of_mem _ hm)
      have hb' : sepC ∉ b := fun hm => hb (List.mem_cons_of_mem _ hm)
      obtain ⟨h1, h2⟩ := ih ha' hb' h.2
      exact ⟨by rw [h.1, h1], h2⟩

/-- on real file names the path string determines the components -/
theorem render_injective {p q : Path} (hp : CleanPath p) (hq : CleanPath q) (h : render p = render q) : p = q := by
  induction p generalizing q with
  | nil =>
    have : render q = [] := by simpa [render] using h.symm
    exact (render_eq_nil.1 this).symm
  | cons c p ih =>
    cases q with
    | nil => simp [render] at h
    | cons d q =>
      simp only [render, List.cons.injEq, true_and] at h
      obtain ⟨h1, h2⟩ := name_split hp.head.2 hq.head.2 (render_head p) (render_head q) h
      rw [String.toList_inj.1 h1, ih hp.tail hq.tail h2]

theorem mem_map_render {cr : List Path} {r : Path} (hcr : ∀ c ∈ cr, CleanPath c) (hr : CleanPath r) :
    (cr.map render).contains (render r) = decide (r ∈ cr) := by
  rw [Bool.eq_iff_iff, List.contains_iff_mem, decide_eq_true_iff, List.mem_map]
  constructor
  · rintro ⟨c, hc, he⟩
    exact render_injective (hcr c hc) hr he ▸ hc
  · intro h
    exact ⟨r, h, rfl⟩

/-! ## `dirnameC` -/

theorem dirnameC_snoc (s n : PStr) (hn : sepC ∉ n) : dirnameC (s ++ sepC :: n) = s := by
  unfold dirnameC
  have h1 : (s ++ sepC :: n).reverse = n.reverse ++ sepC :: s.reverse := by simp
  have h2 : ∀ a ∈ n.reverse, (fun ch => ch != sepC) a = true := by
    intro x hx
    have : x ≠ sepC := fun he => hn (he ▸ List.mem_reverse.1 hx)
    simpa using this
  rw [h1, List.dropWhile_append_of_pos h2]
  simp

theorem dirnameC_render_snoc (p : Path) (c : String) (hc : sepC ∉ c.toList) :
    dirnameC (render (p ++ [c])) = render p := by
  rw [render_snoc, dirnameC_snoc _ _ hc]

theorem dirnameC_nil : dirnameC [] = [] := rfl

/-! ## component-wise containment -/

theorem covered_nil_path (cr : List Path) : covered cr [] = decide (([] : Path) ∈ cr) := by
  rw [Bool.eq_iff_iff, covered_iff, decide_eq_true_iff]
  constructor
  · rintro ⟨c, hc, hu⟩
    have : c = [] := List.prefix_nil.1 (under_iff.1 hu)
    exact this ▸ hc
  · intro h
    exact ⟨[], h, under_refl _⟩

theorem covered_snoc (cr : List Path) (p : Path) (c : String) :
    covered cr (p ++ [c]) = (decide ((p ++ [c]) ∈ cr) || covered cr p) := by
  rw [Bool.eq_iff_iff, Bool.or_eq_true, decide_eq_true_iff, covered_iff, covered_iff]
  constructor
  · rintro ⟨a, ha, hu⟩
    rcases List.prefix_concat_iff.1 (under_iff.1 hu) with h | h
    · exact Or.inl (h ▸ ha)
    · exact Or.inr ⟨a, ha, under_iff.2 h⟩
  · rintro (h | ⟨a, ha, hu⟩)
    · exact ⟨_, h, under_refl _⟩
    · exact ⟨a, ha, under_trans hu (under_append p [c])⟩

/-- containment is decided by components: some recorded path is a component-wise prefix -/
theorem covered_iff_prefix {cr : List Path} {r : Path} : covered cr r = true ↔ ∃ c ∈ cr, ∃ t, r = c ++ t := by
  rw [covered_iff]
  constructor
  · rintro ⟨c, hc, hu⟩
    obtain ⟨t, ht⟩ := under_iff.1 hu
    exact ⟨c, hc, t, ht.symm⟩
  · rintro ⟨c, hc, t, rfl⟩
    exact ⟨c, hc, under_append c t⟩

theorem render_snoc_ne (p : Path) (c : String) : render p ≠ render (p ++ [c]) := by
  rw [render_snoc]
  intro h
  have := congrArg List.length h
  simp at this

/-- **the ancestor walk over path strings is the component-wise containment** -/
theorem isolatedWalk_eq_covered (cr : List Path) (hcr : ∀ c ∈ cr, CleanPath c) :
    ∀ (n : Nat) (r : Path), r.length = n → CleanPath r → ∀ fuel, n ≤ fuel →
      isolatedWalk (cr.map render) fuel (render r) = covered cr r := by
  intro n
  induction n with
  | zero =>
    intro r hl hr fuel _
    have : r = [] := List.length_eq_zero_iff.1 hl
    subst this
    rw [covered_nil_path]
    cases fuel with
    | zero => simpa only [isolatedWalk] using mem_map_render hcr hr
    | succ f =>
      have e : render [] = [] := rfl
      have h := mem_map_render (r := []) hcr hr
      rw [e] at h
      simp only [isolatedWalk, e, dirnameC_nil, h, bne_self_eq_false, Bool.false_and, Bool.or_false]
  | succ n ih =>
    intro r hl hr fuel hf
    have hne : r ≠ [] := by intro h; simp [h] at hl
    obtain ⟨p, c, rfl⟩ : ∃ p c, r = p ++ [c] := ⟨r.dropLast, r.getLast hne, (List.dropLast_concat_getLast hne).symm⟩
    have hpl : p.length = n := by simpa using hl
    cases fuel with
    | zero => omega
    | succ f =>
      have hc : CleanName c := hr c (by simp)
      simp only [isolatedWalk]
      rw [dirnameC_render_snoc p c hc.2, covered_snoc, mem_map_render hcr hr,
        ih p hpl hr.left f (by omega)]
      have : (render p != render (p ++ [c])) = true := by simpa using render_snoc_ne p c
      rw [this, Bool.true_and]

theorem length_le_render (r : Path) : r.length ≤ (render r).length := by
  induction r with
  | nil => simp [render]
  | cons c r ih => simp [render]; omega

theorem isIsolatedStr_eq_covered {cr : List Path} {r : Path} (hcr : ∀ c ∈ cr, CleanPath c) (hr : CleanPath r) :
    isIsolatedStr cr r = covered cr r :=
  isolatedWalk_eq_covered cr hcr r.length r rfl hr _ (length_le_render r)

/-! ## character-wise containment is weaker -/

theorem charCovered_of_covered {cr : List Path} {r : Path} (h : covered cr r = true) :
    charCovered (cr.map render) (render r) = true := by
  obtain ⟨c, hc, t, rfl⟩ := covered_iff_prefix.1 h
  simp only [charCovered, List.any_map, List.any_eq_true, Function.comp]
  refine ⟨c, hc, ?_⟩
  rw [render_append]
  exact List.isPrefixOf_iff_prefix.2 (List.prefix_append _ _)

/-! ## spelled paths: the normal form is a fixed point and resolves like itself -/

theorem normStep_clean {acc : Path} {c : String} (h : cleanNameB c = true) : normStep acc c = acc ++ [c] := by
  simp only [cleanNameB, Bool.and_eq_true, bne_iff_ne, ne_eq] at h
  simp [normStep, h.1.1.1, h.1.1.2, h.1.2]

theorem foldl_normStep_clean (acc p : Path) (h : cleanPathB p = true) : p.foldl normStep acc = acc ++ p := by
  induction p generalizing acc with
  | nil => simp
  | cons c p ih =>
    simp only [cleanPathB, List.all_cons, Bool.and_eq_true] at h
    rw [List.foldl_cons, normStep_clean h.1, ih _ h.2]
    simp

/-- `normpath` leaves a normal form alone -/
theorem normSegs_clean {p : Path} (h : cleanPathB p = true) : normSegs p = p := by
  simpa [normSegs] using foldl_normStep_clean [] p h

theorem resolvesLikeNorm_clean (fs : FS) (acc p : Path) (h : cleanPathB p = true) :
    resolvesLikeNorm fs acc p = true := by
  induction p generalizing acc with
  | nil => rfl
  | cons c p ih =>
    simp only [cleanPathB, List.all_cons, Bool.and_eq_true] at h
    have hc := h.1
    simp only [cleanNameB, Bool.and_eq_true, bne_iff_ne, ne_eq] at hc
    simp only [resolvesLikeNorm, hc.1.1.1, hc.1.1.2, hc.1.2, or_self, if_false]
    exact ih _ h.2

/-! ## spelled operations preserve the invariant -/

theorem stepSp_pres {init : FS} (hpc : PrefixClosed init) (o : SpOp) : Pres init (stepSp o) := by
  intro s hs
  unfold stepSp
  split
  · exact step_pres hpc o.op s hs
  · exact hs

theorem runSp_inv {init : FS} (hpc : PrefixClosed init) (ops : List SpOp) :
    ∀ s, Inv init s → Inv init (runSp ops s) := by
  induction ops with
  | nil => intro s hs; exact hs
  | cons o rest ih =>
    intro s hs
    simp only [runSp, List.foldl_cons]
    exact ih _ (stepSp_pres hpc o s hs)

end PynguinModel.FsIsolation
