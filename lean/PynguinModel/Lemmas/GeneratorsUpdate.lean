import PynguinModel.Lemmas.Generators
/-!
# Lemmas for C26, part 2: the generator table under run-time return-type updates

* `tyBeq_refl` / `tyBeq_iff` (the dict key equality is exactly `=`), `DecidableEq Ty`;
* the table as a dict (`Distinct`), `add1` / `discard` / `drop` membership lemmas;
* `Filed`: every generator sits in the bucket of its current generated type — kept by `addGenerator`,
  `updateReturnType` (for realistic observations of constructors) and trivially by edges (`run_filed`).
-/
namespace PynguinModel.Generators
open PynguinModel.Types

/-! ## structural equality is reflexive -/

mutual
theorem tyBeq_refl : ∀ a : Ty, tyBeq a a = true
  | .any => rfl
  | .none => rfl
  | .inst c as => by simp only [tyBeq, beq_self_eq_true, Bool.true_and]; exact tyBeqL_refl as
  | .tuple u as => by simp only [tyBeq, beq_self_eq_true, Bool.true_and]; exact tyBeqL_refl as
  | .union as => by simp only [tyBeq]; exact tyBeqL_refl as
theorem tyBeqL_refl : ∀ as : List Ty, tyBeqL as as = true
  | [] => rfl
  | a :: as => by simp only [tyBeqL, tyBeq_refl a, tyBeqL_refl as, Bool.and_self]
end

theorem tyBeq_iff {a b : Ty} : tyBeq a b = true ↔ a = b :=
  ⟨tyBeq_eq a b, fun h => h ▸ tyBeq_refl a⟩

instance : DecidableEq Ty := fun a b => decidable_of_iff (tyBeq a b = true) tyBeq_iff

theorem tyBeq_false_of_ne {a b : Ty} (h : a ≠ b) : tyBeq a b = false := by
  cases hb : tyBeq a b
  · rfl
  · exact absurd (tyBeq_eq a b hb) h

/-! ## the table as a dict: distinct keys -/

/-- the keys of the table are pairwise different (it is a `dict`) -/
def Distinct (tbl : Table) : Prop := (tbl.map (·.1)).Nodup

theorem distinct_nil : Distinct [] := List.nodup_nil

theorem distinct_cons {e : Ty × List Nat} {rest : Table} :
    Distinct (e :: rest) ↔ (∀ q ∈ rest, q.1 ≠ e.1) ∧ Distinct rest := by
  simp only [Distinct, List.map_cons, List.nodup_cons, List.mem_map, not_exists, not_and]

theorem getFor_of_mem : ∀ {tbl : Table} {p : Ty × List Nat}, Distinct tbl → p ∈ tbl → tbl.getFor p.1 = p.2
  | [], _, _, h => by cases h
  | (S', ids) :: rest, p, hd, h => by
    obtain ⟨h1, h2⟩ := distinct_cons.mp hd
    simp only [List.mem_cons] at h
    rcases h with rfl | h
    · simp only [Table.getFor, tyBeq_refl, if_true]
    · have : tyBeq S' p.1 = false := tyBeq_false_of_ne (fun e => h1 p h e.symm)
      simp only [Table.getFor, this, Bool.false_eq_true, if_false]
      exact getFor_of_mem h2 h

/-! ## `add1` -/

theorem add1_mem : ∀ {tbl : Table} {S : Ty} {i : Nat} {p : Ty × List Nat} {j : Nat},
    p ∈ tbl.add1 S i → j ∈ p.2 → (p.1 = S ∧ j = i) ∨ ∃ q ∈ tbl, q.1 = p.1 ∧ j ∈ q.2
  | [], S, i, p, j, hp, hj => by
    simp only [Table.add1, List.mem_singleton] at hp
    subst hp
    simp only [List.mem_singleton] at hj
    exact Or.inl ⟨rfl, hj⟩
  | (S', ids) :: rest, S, i, p, j, hp, hj => by
    simp only [Table.add1] at hp
    split at hp
    · rename_i hm
      simp only [List.mem_cons] at hp
      rcases hp with rfl | hp
      · simp only at hj
        split at hj
        · exact Or.inr ⟨(S', ids), by simp, rfl, hj⟩
        · simp only [List.mem_append, List.mem_singleton] at hj
          rcases hj with hj | hj
          · exact Or.inr ⟨(S', ids), by simp, rfl, hj⟩
          · exact Or.inl ⟨tyBeq_eq _ _ hm, hj⟩
      · exact Or.inr ⟨p, by simp [hp], rfl, hj⟩
    · simp only [List.mem_cons] at hp
      rcases hp with rfl | hp
      · exact Or.inr ⟨(S', ids), by simp, rfl, hj⟩
      · rcases add1_mem hp hj with h | ⟨q, hq, hqe, hqj⟩
        · exact Or.inl h
        · exact Or.inr ⟨q, by simp [hq], hqe, hqj⟩

theorem add1_distinct : ∀ {tbl : Table} (S : Ty) (i : Nat), Distinct tbl → Distinct (tbl.add1 S i)
  | [], S, i, _ => by simp [Table.add1, Distinct]
  | (S', ids) :: rest, S, i, hd => by
    obtain ⟨h1, h2⟩ := distinct_cons.mp hd
    simp only [Table.add1]
    split
    · exact distinct_cons.mpr ⟨h1, h2⟩
    · rename_i hm
      refine distinct_cons.mpr ⟨?_, add1_distinct S i h2⟩
      intro q hq
      rcases add1_keys hq with h | ⟨q', hq', he⟩
      · intro e
        apply hm
        show tyBeq S' S = true
        rw [← h, e]; exact tyBeq_refl _
      · rw [← he]; exact h1 q' hq'

/-- after `add1` the generator is in the bucket of the type -/
theorem add1_self : ∀ (tbl : Table) (S : Ty) (i : Nat), ∃ p ∈ tbl.add1 S i, p.1 = S ∧ i ∈ p.2
  | [], S, i => ⟨(S, [i]), by simp [Table.add1], rfl, by simp⟩
  | (S', ids) :: rest, S, i => by
    simp only [Table.add1]
    split
    · rename_i hm
      refine ⟨_, List.mem_cons_self, tyBeq_eq _ _ hm, ?_⟩
      show i ∈ (if ids.contains i then ids else ids ++ [i])
      split
      · rename_i hc; simpa using hc
      · simp
    · obtain ⟨p, hp, h1, h2⟩ := add1_self rest S i
      exact ⟨p, List.mem_cons_of_mem _ hp, h1, h2⟩

/-- other generators stay where they are -/
theorem add1_keeps : ∀ {tbl : Table} (S : Ty) (i : Nat) {q : Ty × List Nat} {j : Nat}, q ∈ tbl → j ∈ q.2 →
    ∃ p ∈ tbl.add1 S i, p.1 = q.1 ∧ j ∈ p.2
  | [], _, _, _, _, hq, _ => by cases hq
  | (S', ids) :: rest, S, i, q, j, hq, hj => by
    simp only [List.mem_cons] at hq
    simp only [Table.add1]
    split
    · rcases hq with rfl | hq
      · refine ⟨_, List.mem_cons_self, rfl, ?_⟩
        show j ∈ (if ids.contains i then ids else ids ++ [i])
        split
        · exact hj
        · exact List.mem_append_left _ hj
      · exact ⟨q, List.mem_cons_of_mem _ hq, rfl, hj⟩
    · rcases hq with rfl | hq
      · exact ⟨_, List.mem_cons_self, rfl, hj⟩
      · obtain ⟨p, hp, h1, h2⟩ := add1_keeps S i hq hj
        exact ⟨p, List.mem_cons_of_mem _ hp, h1, h2⟩

/-! ## `discard` / `drop` -/

theorem discard_keys : ∀ {tbl : Table} {S : Ty} {i : Nat} {p : Ty × List Nat},
    p ∈ tbl.discard S i → ∃ q ∈ tbl, q.1 = p.1
  | [], _, _, _, hp => by simp [Table.discard] at hp
  | (S', ids) :: rest, S, i, p, hp => by
    simp only [Table.discard] at hp
    split at hp
    · split at hp
      · exact ⟨p, List.mem_cons_of_mem _ hp, rfl⟩
      · simp only [List.mem_cons] at hp
        rcases hp with rfl | hp
        · exact ⟨(S', ids), by simp, rfl⟩
        · exact ⟨p, List.mem_cons_of_mem _ hp, rfl⟩
    · simp only [List.mem_cons] at hp
      rcases hp with rfl | hp
      · exact ⟨(S', ids), by simp, rfl⟩
      · obtain ⟨q, hq, he⟩ := discard_keys hp
        exact ⟨q, List.mem_cons_of_mem _ hq, he⟩

theorem discard_distinct : ∀ {tbl : Table} (S : Ty) (i : Nat), Distinct tbl → Distinct (tbl.discard S i)
  | [], _, _, _ => by simp [Table.discard, Distinct]
  | (S', ids) :: rest, S, i, hd => by
    obtain ⟨h1, h2⟩ := distinct_cons.mp hd
    simp only [Table.discard]
    split
    · split
      · exact h2
      · exact distinct_cons.mpr ⟨h1, h2⟩
    · refine distinct_cons.mpr ⟨?_, discard_distinct S i h2⟩
      intro q hq
      obtain ⟨q', hq', he⟩ := discard_keys hq
      rw [← he]; exact h1 q' hq'

/-- what is left after `discard S i` was there before, and `i` is no longer in the bucket of `S` -/
theorem discard_mem : ∀ {tbl : Table} {S : Ty} {i : Nat} {p : Ty × List Nat} {j : Nat}, Distinct tbl →
    p ∈ tbl.discard S i → j ∈ p.2 → (∃ q ∈ tbl, q.1 = p.1 ∧ j ∈ q.2) ∧ ¬ (j = i ∧ p.1 = S)
  | [], _, _, _, _, _, hp, _ => by simp [Table.discard] at hp
  | (S', ids) :: rest, S, i, p, j, hd, hp, hj => by
    obtain ⟨h1, h2⟩ := distinct_cons.mp hd
    simp only [Table.discard] at hp
    split at hp
    · rename_i hm
      have hS : S' = S := tyBeq_eq _ _ hm
      have inRest : p ∈ rest → (∃ q ∈ (S', ids) :: rest, q.1 = p.1 ∧ j ∈ q.2) ∧ ¬ (j = i ∧ p.1 = S) := by
        intro hpr
        exact ⟨⟨p, List.mem_cons_of_mem _ hpr, rfl, hj⟩, fun h => h1 p hpr (h.2.trans hS.symm)⟩
      split at hp
      · exact inRest hp
      · simp only [List.mem_cons] at hp
        rcases hp with rfl | hp
        · simp only [List.mem_filter, bne_iff_ne, ne_eq] at hj
          exact ⟨⟨(S', ids), by simp, rfl, hj.1⟩, fun h => hj.2 h.1⟩
        · exact inRest hp
    · rename_i hm
      simp only [List.mem_cons] at hp
      rcases hp with rfl | hp
      · refine ⟨⟨(S', ids), by simp, rfl, hj⟩, fun h => hm ?_⟩
        show tyBeq S' S = true
        rw [← h.2]; exact tyBeq_refl _
      · obtain ⟨⟨q, hq, he, hqj⟩, hn⟩ := discard_mem h2 hp hj
        exact ⟨⟨q, List.mem_cons_of_mem _ hq, he, hqj⟩, hn⟩

/-- generators other than `i`, and `i` in other buckets, survive `discard S i` -/
theorem discard_keeps : ∀ {tbl : Table} (S : Ty) (i : Nat) {q : Ty × List Nat} {j : Nat}, q ∈ tbl → j ∈ q.2 →
    j ≠ i → ∃ p ∈ tbl.discard S i, p.1 = q.1 ∧ j ∈ p.2
  | [], _, _, _, _, hq, _, _ => by cases hq
  | (S', ids) :: rest, S, i, q, j, hq, hj, hne => by
    simp only [List.mem_cons] at hq
    simp only [Table.discard]
    have hjf : j ∈ q.2.filter (· != i) := by simp [List.mem_filter, hj, hne]
    split
    · split
      · rename_i he
        rcases hq with rfl | hq
        · simp only [List.isEmpty_iff] at he
          rw [he] at hjf; cases hjf
        · exact ⟨q, hq, rfl, hj⟩
      · rcases hq with rfl | hq
        · exact ⟨_, List.mem_cons_self, rfl, hjf⟩
        · exact ⟨q, List.mem_cons_of_mem _ hq, rfl, hj⟩
    · rcases hq with rfl | hq
      · exact ⟨_, List.mem_cons_self, rfl, hj⟩
      · obtain ⟨p, hp, h1, h2⟩ := discard_keeps S i hq hj hne
        exact ⟨p, List.mem_cons_of_mem _ hp, h1, h2⟩

theorem drop_distinct {tbl : Table} (S : Ty) (i : Nat) (hd : Distinct tbl) : Distinct (tbl.drop S i) := by
  unfold Table.drop
  split
  · exact hd
  · exact discard_distinct S i hd

/-- `_drop_generator`: what is left was there before, and `i` is in no bucket keyed `S` any more -/
theorem drop_mem {tbl : Table} {S : Ty} {i : Nat} {p : Ty × List Nat} {j : Nat} (hd : Distinct tbl)
    (hp : p ∈ tbl.drop S i) (hj : j ∈ p.2) : (∃ q ∈ tbl, q.1 = p.1 ∧ j ∈ q.2) ∧ ¬ (j = i ∧ p.1 = S) := by
  unfold Table.drop at hp
  split at hp
  · rename_i he
    refine ⟨⟨p, hp, rfl, hj⟩, fun h => ?_⟩
    have := getFor_of_mem hd hp
    rw [h.2] at this
    rw [this, List.isEmpty_iff] at he
    rw [he] at hj; cases hj
  · exact discard_mem hd hp hj

theorem drop_keeps {tbl : Table} (S : Ty) (i : Nat) {q : Ty × List Nat} {j : Nat} (hq : q ∈ tbl) (hj : j ∈ q.2)
    (hne : j ≠ i) : ∃ p ∈ tbl.drop S i, p.1 = q.1 ∧ j ∈ p.2 := by
  unfold Table.drop
  split
  · exact ⟨q, hq, rfl, hj⟩
  · exact discard_keeps S i hq hj hne

/-! ## the invariant of the cluster: every generator is filed under its CURRENT generated type -/

/-- `fixed` (the `_generated_type` of a constructor) of accessible `i` -/
def fixedOf (accs : List Acc) (i : Nat) : Option Ty := (accs[i]?).bind (·.fixed)

/-- Invariant of the generator table under additions and run-time return-type updates.
* `distinct`: the table is a dict;
* `filed`: a generator sits only in the bucket keyed by its current generated type — for a constructor (fixed
  generated type `F`) also in the bucket of the one-element union `F` it is moved to by the first observation;
* `fixedRet`: the signature of a constructor says `F` or the one-element union of `F`; `F` is not a union. -/
structure Filed (cl : Cl) : Prop where
  distinct : Distinct cl.tbl
  filed : ∀ p ∈ cl.tbl, ∀ j ∈ p.2, ∃ a : Acc, cl.accs[j]? = some a ∧
    (p.1 = a.gen ∨ (a.fixed.isSome = true ∧ p.1 = .union [a.gen]))
  fixedRet : ∀ (j : Nat) (a : Acc) (F : Ty), cl.accs[j]? = some a → a.fixed = some F →
    F.isUnion = false ∧ (a.ret = F ∨ a.ret = .union [F])

/-- the observation reported for a constructor call is the constructed class (`type(C(...)) is C`) -/
def WOp.realistic (fx : Nat → Option Ty) : WOp → Prop
  | .update i obs => ∀ F, fx i = some F → obs = F
  | _ => True

theorem addOrMakeUnion_fixed (key : Ty → String) (m : Nat) {F : Ty} (hF : F.isUnion = false) :
    addOrMakeUnion key m F F = .union [F] := by
  cases F <;> first | (simp [Ty.isUnion] at hF; done) | simp [addOrMakeUnion, tyBeq_refl, isAny]

theorem addOrMakeUnion_fixed' (key : Ty → String) (m : Nat) (F : Ty) :
    addOrMakeUnion key m (.union [F]) F = .union [F] := by
  simp [addOrMakeUnion, tyBeq_refl]

theorem gen_of_fixed {a : Acc} {F : Ty} (h : a.fixed = some F) : a.gen = F := by
  simp [Acc.gen, h]

theorem gen_of_not_fixed {a : Acc} (h : a.fixed = none) : a.gen = a.ret := by
  simp [Acc.gen, h]

theorem addGenerator_filed (prims : List Cls) {cl : Cl} (h : Filed cl) (i : Nat) :
    Filed (addGenerator prims cl i) := by
  unfold addGenerator
  split
  · exact h
  · rename_i a ha
    unfold add
    split
    · exact h
    · refine ⟨add1_distinct _ _ h.distinct, ?_, h.fixedRet⟩
      intro p hp j hj
      rcases add1_mem hp hj with ⟨h1, h2⟩ | ⟨q, hq, he, hqj⟩
      · subst h2; exact ⟨a, ha, Or.inl h1⟩
      · rw [← he]; exact h.filed q hq j hqj

theorem updateReturnType_accs_fixed (key : Ty → String) (m : Nat) (cl : Cl) (i : Nat) (obs : Ty) :
    fixedOf (updateReturnType key m cl i obs).accs = fixedOf cl.accs := by
  funext j
  unfold updateReturnType
  split
  · rfl
  · rename_i a ha
    simp only
    split
    · rfl
    · simp only [fixedOf]
      by_cases hji : i = j
      · subst hji
        have hlt : i < cl.accs.length := by
          rcases Nat.lt_or_ge i cl.accs.length with h | h
          · exact h
          · rw [List.getElem?_eq_none h] at ha; cases ha
        rw [List.getElem?_set_self hlt, ha]; rfl
      · rw [List.getElem?_set_ne hji]

theorem updateReturnType_filed (key : Ty → String) (m : Nat) {cl : Cl} (h : Filed cl) (i : Nat) (obs : Ty)
    (hr : ∀ F, fixedOf cl.accs i = some F → obs = F) : Filed (updateReturnType key m cl i obs) := by
  unfold updateReturnType
  split
  · exact h
  · rename_i a ha
    simp only
    split
    · exact h
    · rename_i hchg
      have hlt : i < cl.accs.length := by
        rcases Nat.lt_or_ge i cl.accs.length with h' | h'
        · exact h'
        · rw [List.getElem?_eq_none h'] at ha; cases ha
      -- the new type of a constructor is the one-element union of its class
      have hnewF : ∀ F, a.fixed = some F → addOrMakeUnion key m a.ret obs = .union [F] := by
        intro F hF
        have hobs : obs = F := hr F (by simp [fixedOf, ha, hF])
        obtain ⟨hnu, hret⟩ := h.fixedRet i a F ha hF
        subst hobs
        rcases hret with e | e
        · rw [e]; exact addOrMakeUnion_fixed key m hnu
        · exfalso
          apply hchg
          rw [e, addOrMakeUnion_fixed']; exact tyBeq_refl _
      refine ⟨add1_distinct _ _ (drop_distinct _ _ h.distinct), ?_, ?_⟩
      · intro p hp j hj
        rcases add1_mem hp hj with ⟨h1, h2⟩ | ⟨q, hq, he, hqj⟩
        · subst h2
          refine ⟨{ a with ret := addOrMakeUnion key m a.ret obs }, by rw [List.getElem?_set_self hlt], ?_⟩
          cases hfx : a.fixed with
          | none => left; rw [h1]; simp [Acc.gen]
          | some F => right; rw [h1, hnewF F hfx]; simp [Acc.gen]
        · obtain ⟨⟨q0, hq0, he0, hq0j⟩, hn⟩ := drop_mem h.distinct hq hqj
          obtain ⟨b, hb, hbk⟩ := h.filed q0 hq0 j hq0j
          by_cases hji : j = i
          · subst hji
            rw [ha] at hb; cases hb
            refine ⟨{ a with ret := addOrMakeUnion key m a.ret obs }, by rw [List.getElem?_set_self hlt], ?_⟩
            rcases hbk with hk | ⟨hfs, hk⟩
            · exact absurd ⟨rfl, he0.symm.trans hk⟩ hn
            · obtain ⟨F, hF⟩ := Option.isSome_iff_exists.mp hfs
              right
              refine ⟨by simp [hF], ?_⟩
              rw [← he, ← he0, hk]; simp [Acc.gen, hF]
          · refine ⟨b, ?_, ?_⟩
            · rw [List.getElem?_set_ne (fun e => hji e.symm)]; exact hb
            · rw [← he, ← he0]; exact hbk
      · intro j b F hb hF
        by_cases hji : j = i
        · subst hji
          rw [List.getElem?_set_self hlt] at hb
          cases hb
          simp only at hF
          exact ⟨(h.fixedRet j a F ha hF).1, Or.inr (hnewF F hF)⟩
        · rw [List.getElem?_set_ne (fun e => hji e.symm)] at hb
          exact h.fixedRet j b F hb hF

theorem step_fixedOf (key : Ty → String) (m : Nat) (prims : List Cls) (w : World) (op : WOp) :
    fixedOf (w.step key m prims op).cl.accs = fixedOf w.cl.accs := by
  cases op with
  | add i =>
    simp only [World.step, addGenerator]
    split <;> rfl
  | update i obs => exact updateReturnType_accs_fixed key m w.cl i obs
  | edge a b => rfl

theorem step_filed (key : Ty → String) (m : Nat) (prims : List Cls) (w : World) (op : WOp) (h : Filed w.cl)
    (hr : op.realistic (fixedOf w.cl.accs)) : Filed (w.step key m prims op).cl := by
  cases op with
  | add i => exact addGenerator_filed prims h i
  | update i obs => exact updateReturnType_filed key m h i obs hr
  | edge a b => exact h

theorem run_filed (key : Ty → String) (m : Nat) (prims : List Cls) : ∀ (ops : List WOp) (w : World), Filed w.cl →
    (∀ op ∈ ops, op.realistic (fixedOf w.cl.accs)) → Filed (w.run key m prims ops).cl
  | [], _, h, _ => h
  | op :: ops, w, h, hr => by
    simp only [World.run, List.foldl_cons]
    refine run_filed key m prims ops _ (step_filed key m prims w op h (hr op (by simp))) ?_
    intro op' hop'
    rw [step_fixedOf]
    exact hr op' (by simp [hop'])

/-- a cluster before the analysis has added anything: empty table; constructors' signatures return their class -/
theorem filed_init (accs : List Acc)
    (h : ∀ a ∈ accs, ∀ F, a.fixed = some F → F.isUnion = false ∧ a.ret = F) : Filed ⟨[], accs⟩ := by
  refine ⟨distinct_nil, ?_, ?_⟩
  · intro p hp; exact absurd hp List.not_mem_nil
  intro j a F ha hF
  obtain ⟨h1, h2⟩ := h a (List.mem_of_getElem? ha) F hF
  exact ⟨h1, Or.inl h2⟩

/-- a bucket whose key is the generated type or its one-element union is as compatible as the generated type -/
theorem sub_of_filed_key (g : Graph) (v : Bool) {K G T : Ty} (hk : K = G ∨ K = .union [G])
    (h : sub g true v K T = true) : sub g true v G T = true := by
  rcases hk with rfl | rfl
  · exact h
  · by_cases hT : T = .any
    · subst hT; exact sub_any_right g _ _ _
    · rw [sub_union_left g true v [G] T hT] at h
      simpa using h

end PynguinModel.Generators
