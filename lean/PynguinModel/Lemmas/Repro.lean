import PynguinModel.Model.Repro
/-! Helper lemmas for C16 (`Model/Repro.lean`). -/
namespace PynguinModel.Repro

theorem nameLe_linear : LinearLe nameLe where
  trans := by
    intro a b c hab hbc
    simp only [nameLe, decide_eq_true_eq] at *
    exact String.le_trans hab hbc
  total := by
    intro a b
    simp only [nameLe, Bool.or_eq_true, decide_eq_true_eq]
    exact String.le_total a b
  antisymm := by
    intro a b hab hba
    simp only [nameLe, decide_eq_true_eq] at *
    exact String.le_antisymm hab hba

theorem insertSorted_perm {α} (le : α → α → Bool) (x : α) (l : List α) :
    (insertSorted le x l).Perm (x :: l) := by
  induction l with
  | nil => exact List.Perm.refl _
  | cons y ys ih =>
    simp only [insertSorted]
    split
    · exact List.Perm.refl _
    · exact (List.Perm.cons y ih).trans (List.Perm.swap x y ys)

theorem isort_perm {α} (le : α → α → Bool) (l : List α) : (isort le l).Perm l := by
  induction l with
  | nil => exact List.Perm.refl _
  | cons x xs ih => exact (insertSorted_perm le x _).trans (List.Perm.cons x ih)

theorem insertSorted_pairwise {α} {le : α → α → Bool} (h : LinearLe le) (x : α) (l : List α)
    (hl : l.Pairwise (fun a b => le a b = true)) :
    (insertSorted le x l).Pairwise (fun a b => le a b = true) := by
  induction l with
  | nil => simp [insertSorted]
  | cons y ys ih =>
    simp only [insertSorted]
    have hy := List.pairwise_cons.1 hl
    split
    · rename_i hxy
      refine List.pairwise_cons.2 ⟨?_, hl⟩
      intro z hz
      rcases List.mem_cons.1 hz with rfl | hz
      · exact hxy
      · exact h.trans _ _ _ hxy (hy.1 z hz)
    · rename_i hxy
      have hyx : le y x = true := by
        have := h.total x y
        simp only [Bool.or_eq_true] at this
        rcases this with h1 | h1
        · exact absurd h1 hxy
        · exact h1
      refine List.pairwise_cons.2 ⟨?_, ih hy.2⟩
      intro z hz
      rcases List.mem_cons.1 ((insertSorted_perm le x ys).mem_iff.1 hz) with rfl | hz
      · exact hyx
      · exact hy.1 z hz

theorem isort_pairwise {α} {le : α → α → Bool} (h : LinearLe le) (l : List α) :
    (isort le l).Pairwise (fun a b => le a b = true) := by
  induction l with
  | nil => simp [isort]
  | cons x xs ih => exact insertSorted_pairwise h x _ ih

/-- Sorting forgets the order the elements arrived in. -/
theorem isort_eq_of_perm {α} {le : α → α → Bool} (h : LinearLe le) {l₁ l₂ : List α}
    (hp : l₁.Perm l₂) : isort le l₁ = isort le l₂ := by
  apply List.Perm.eq_of_pairwise (le := fun a b => le a b = true)
  · intro a b _ _ hab hba
    exact h.antisymm a b hab hba
  · exact isort_pairwise h l₁
  · exact isort_pairwise h l₂
  · exact (isort_perm le l₁).trans (hp.trans (isort_perm le l₂).symm)

theorem sortNames_eq_of_perm {l₁ l₂ : List Name} (hp : l₁.Perm l₂) : sortNames l₁ = sortNames l₂ :=
  isort_eq_of_perm nameLe_linear hp

theorem iter_eq_of_not_hashed {α} {le : α → α → Bool} (h : LinearLe le) {π₁ π₂ : List α → List α}
    (h₁ : HashOrder π₁) (h₂ : HashOrder π₂) {c : Coll α} (hc : c.isHashed = false) :
    c.iter le π₁ = c.iter le π₂ := by
  cases c with
  | ordered l => rfl
  | sortedSet l => exact isort_eq_of_perm h ((h₁ l).trans (h₂ l).symm)
  | hashed l => simp [Coll.isHashed] at hc

theorem stepRun_eq {σ α} {le : α → α → Bool} (h : LinearLe le) {π₁ π₂ : List α → List α}
    (h₁ : HashOrder π₁) (h₂ : HashOrder π₂) (draws : Nat → Nat) (stp : Step σ α) (st : σ × Nat)
    (hc : ∀ c, stp.coll? st.1 = some c → c.isHashed = false) :
    stepRun le π₁ draws stp st = stepRun le π₂ draws stp st := by
  obtain ⟨s, i⟩ := st
  cases stp with
  | choose c k =>
    have := iter_eq_of_not_hashed h h₁ h₂ (hc (c s) rfl)
    simp only [stepRun, this]
  | forEach c body =>
    have := iter_eq_of_not_hashed h h₁ h₂ (hc (c s) rfl)
    simp only [stepRun, this]
  | draw f => rfl

theorem run_eq {σ α} {le : α → α → Bool} (h : LinearLe le) {π₁ π₂ : List α → List α}
    (h₁ : HashOrder π₁) (h₂ : HashOrder π₂) (draws : Nat → Nat) (prog : σ → Option (Step σ α))
    (hp : OrderedOnly prog) (fuel : Nat) (st : σ × Nat) :
    run le π₁ draws prog fuel st = run le π₂ draws prog fuel st := by
  induction fuel generalizing st with
  | zero => rfl
  | succ n ih =>
    simp only [run]
    cases hs : prog st.1 with
    | none => rfl
    | some stp =>
      simp only
      rw [stepRun_eq h h₁ h₂ draws stp st (fun c hc => hp st.1 stp c hs hc)]
      exact ih _

/-- A listing of `l` that has `x` at position `i`. -/
def placeAt {α} [BEq α] (l : List α) (x : α) (i : Nat) : List α :=
  (l.erase x).take i ++ x :: (l.erase x).drop i

theorem placeAt_perm {α} [BEq α] [LawfulBEq α] {l : List α} {x : α} (hx : x ∈ l) (i : Nat) :
    (placeAt l x i).Perm l := by
  unfold placeAt
  refine List.perm_middle.trans ?_
  rw [List.take_append_drop]
  exact (List.perm_cons_erase hx).symm

theorem placeAt_getElem {α} [BEq α] [LawfulBEq α] {l : List α} {x : α} (hx : x ∈ l) {i : Nat}
    (hi : i < l.length) : (placeAt l x i)[i]? = some x := by
  unfold placeAt
  have hlen : (l.erase x).length = l.length - 1 := List.length_erase_of_mem hx
  have ht : ((l.erase x).take i).length = i := by
    rw [List.length_take]; omega
  rw [List.getElem?_append_right (by omega)]
  simp [ht]

theorem isEmpty_eq_of_perm {α} {l₁ l₂ : List α} (hp : l₁.Perm l₂) : l₁.isEmpty = l₂.isEmpty := by
  cases l₁ <;> cases l₂ <;> simp_all

mutual
theorem render_sorted_eq_val {π₁ π₂ : List String → List String} (h₁ : HashOrder π₁)
    (h₂ : HashOrder π₂) : ∀ v : PyVal, render true π₁ v = render true π₂ v
  | .atom t => by simp [render]
  | .list es => by simp only [render, render_sorted_eq_all h₁ h₂ es]
  | .tuple es => by simp only [render, render_sorted_eq_all h₁ h₂ es]
  | .set es => by
    have hp : (π₁ (renderAll true π₂ es)).Perm (π₂ (renderAll true π₂ es)) :=
      (h₁ _).trans (h₂ _).symm
    simp only [render, render_sorted_eq_all h₁ h₂ es, isEmpty_eq_of_perm hp, if_true,
      sortNames_eq_of_perm hp]
  | .dict ks vs => by
    simp only [render, render_sorted_eq_all h₁ h₂ ks, render_sorted_eq_all h₁ h₂ vs]
theorem render_sorted_eq_all {π₁ π₂ : List String → List String} (h₁ : HashOrder π₁)
    (h₂ : HashOrder π₂) : ∀ vs : List PyVal, renderAll true π₁ vs = renderAll true π₂ vs
  | [] => by simp [renderAll]
  | v :: vs => by
    simp only [renderAll, render_sorted_eq_val h₁ h₂ v, render_sorted_eq_all h₁ h₂ vs]
end

theorem render_sorted_eq {π₁ π₂ : List String → List String} (h₁ : HashOrder π₁)
    (h₂ : HashOrder π₂) :
    (∀ v : PyVal, render true π₁ v = render true π₂ v) ∧
    (∀ vs : List PyVal, renderAll true π₁ vs = renderAll true π₂ vs) :=
  ⟨render_sorted_eq_val h₁ h₂, render_sorted_eq_all h₁ h₂⟩

end PynguinModel.Repro
