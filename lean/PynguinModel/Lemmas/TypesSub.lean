import PynguinModel.Lemmas.Types
/-! Lemmas about `sub` (`is_subtype` / `is_maybe_subtype`): reflexivity, unions, transitivity. -/
namespace PynguinModel.Types

/-! ### list-lifted predicates -/
theorem wfL_iff {g : Graph} {ts : List Ty} : wfL g ts = true ↔ ∀ t ∈ ts, t.wf g = true := by
  induction ts with
  | nil => simp [wfL]
  | cons a as ih => simp [wfL, ih]

theorem anyFreeL_iff {ts : List Ty} : anyFreeL ts = true ↔ ∀ t ∈ ts, t.anyFree = true := by
  induction ts with
  | nil => simp [anyFreeL]
  | cons a as ih => simp [anyFreeL, ih]

theorem noArgsL_iff {ts : List Ty} : noArgsL ts = true ↔ ∀ t ∈ ts, t.noArgs = true := by
  induction ts with
  | nil => simp [noArgsL]
  | cons a as ih => simp [noArgsL, ih]

theorem reflOKL_iff {ts : List Ty} : reflOKL ts = true ↔ ∀ t ∈ ts, t.reflOK = true := by
  induction ts with
  | nil => simp [reflOKL]
  | cons a as ih => simp [reflOKL, ih]

theorem wf_union {g : Graph} {is : List Ty} :
    (Ty.union is).wf g = true ↔ is ≠ [] ∧ ∀ t ∈ is, t.wf g = true := by
  simp [Ty.wf, wfL_iff]

theorem wf_tuple {g : Graph} {u : Bool} {as : List Ty} :
    (Ty.tuple u as).wf g = true ↔ ∀ t ∈ as, t.wf g = true := by
  simp [Ty.wf, wfL_iff]

theorem wf_inst {g : Graph} {c : Cls} {as : List Ty} (h : (Ty.inst c as).wf g = true) :
    (∀ k, arity g c = some k → as.length = k) ∧ ∀ t ∈ as, t.wf g = true := by
  simp only [Ty.wf, Bool.and_eq_true, wfL_iff] at h
  refine ⟨?_, h.2⟩
  intro k hk
  have := h.1.2
  rw [hk] at this
  simpa using this

/-! ### `all2` -/
theorem all2_self {f : Ty → Ty → Bool} : ∀ {as : List Ty}, (∀ a ∈ as, f a a = true) → all2 f as as = true
  | [], _ => rfl
  | a :: as, h => by
    simp only [all2, Bool.and_eq_true]
    exact ⟨h a (by simp), all2_self (fun x hx => h x (by simp [hx]))⟩

theorem all2_trans {f f' f'' : Ty → Ty → Bool} : ∀ {as bs cs : List Ty},
    all2 f as bs = true → all2 f' bs cs = true →
    (∀ a ∈ as, ∀ b ∈ bs, ∀ c ∈ cs, f a b = true → f' b c = true → f'' a c = true) →
    all2 f'' as cs = true
  | [], [], [], _, _, _ => rfl
  | [], [], _ :: _, _, h, _ => by simp [all2] at h
  | [], _ :: _, _, h, _, _ => by simp [all2] at h
  | _ :: _, [], _, h, _, _ => by simp [all2] at h
  | _ :: _, _ :: _, [], _, h, _ => by simp [all2] at h
  | a :: as, b :: bs, c :: cs, h1, h2, h => by
    simp only [all2, Bool.and_eq_true] at h1 h2 ⊢
    exact ⟨h a (by simp) b (by simp) c (by simp) h1.1 h2.1,
      all2_trans h1.2 h2.2 (fun x hx y hy z hz => h x (by simp [hx]) y (by simp [hy]) z (by simp [hz]))⟩

theorem all2_length {f : Ty → Ty → Bool} : ∀ {as bs : List Ty}, all2 f as bs = true → as.length = bs.length
  | [], [], _ => rfl
  | [], _ :: _, h => by simp [all2] at h
  | _ :: _, [], h => by simp [all2] at h
  | _ :: as, _ :: bs, h => by
    simp only [all2, Bool.and_eq_true] at h
    simp [all2_length h.2]

/-! ### basic facts about `sub` -/
theorem sub_any_right (g : Graph) (u v : Bool) (L : Ty) : sub g u v L .any = true := by
  rw [sub_unfold]; cases L <;> rfl

theorem sub_any_left (g : Graph) (u v : Bool) : ∀ (n : Nat) (R : Ty), R.size ≤ n → R.wf g = true →
    sub g u v .any R = true := by
  intro n
  induction n with
  | zero => intro R h; have := R.size_pos; omega
  | succ n ih =>
    intro R hn hw
    rw [sub_unfold]
    cases R with
    | union rs =>
      simp only [subStep]
      obtain ⟨hne, hall⟩ := wf_union.mp hw
      obtain ⟨r, hr⟩ := List.exists_mem_of_ne_nil _ hne
      refine List.any_eq_true.mpr ⟨r, hr, ih r ?_ (hall r hr)⟩
      have := size_le_sizeL hr; simp only [Ty.size] at hn; omega
    | _ => rfl

theorem sub_union_right_of_mem (g : Graph) (u v : Bool) : ∀ (n : Nat) (L r : Ty) (rs : List Ty),
    L.size ≤ n → L.wf g = true → r ∈ rs → sub g u v L r = true → sub g u v L (.union rs) = true := by
  intro n
  induction n with
  | zero => intro L _ _ h; have := L.size_pos; omega
  | succ n ih =>
    intro L r rs hn hw hr h
    rw [sub_unfold]
    cases L with
    | union ls =>
      obtain ⟨hne, hall⟩ := wf_union.mp hw
      have hsz : ∀ l ∈ ls, l.size ≤ n := by
        intro l hl; have := size_le_sizeL hl; simp only [Ty.size] at hn; omega
      simp only [subStep]
      have key : ∀ l ∈ ls, sub g u v l r = true → sub g u v l (.union rs) = true :=
        fun l hl h' => ih l r rs (hsz l hl) (hall l hl) hr h'
      rw [sub_unfold] at h
      cases r with
      | any =>
        have all' : ∀ l ∈ ls, sub g u v l (.union rs) = true :=
          fun l hl => key l hl (sub_any_right g u v l)
        cases u
        · simpa [List.all_eq_true] using all'
        · obtain ⟨l, hl⟩ := List.exists_mem_of_ne_nil _ hne
          simpa using ⟨l, hl, all' l hl⟩
      | none | inst _ _ | tuple _ _ | union _ =>
        simp only [subStep] at h
        cases u
        · simp only [Bool.false_eq_true, if_false, List.all_eq_true] at h ⊢
          exact fun l hl => key l hl (h l hl)
        · simp only [if_true, List.any_eq_true] at h ⊢
          obtain ⟨l, hl, h'⟩ := h
          exact ⟨l, hl, key l hl h'⟩
    | any | none | inst _ _ | tuple _ _ =>
      simp only [subStep]
      exact List.any_eq_true.mpr ⟨r, hr, h⟩

theorem sub_refl_aux (g : Graph) (u v : Bool) : ∀ (n : Nat) (T : Ty), T.size ≤ n → T.wf g = true →
    sub g u v T T = true := by
  intro n
  induction n with
  | zero => intro T h; have := T.size_pos; omega
  | succ n ih =>
    intro T hn hw
    cases T with
    | any => exact sub_any_right g u v _
    | none => rw [sub_unfold]; rfl
    | inst c as =>
      rw [sub_unfold]
      simp only [subStep, Bool.and_eq_true]
      refine ⟨(isSubclass_iff g c c).mpr (Reach.refl c), ?_⟩
      split
      · apply all2_self
        intro a ha
        have := size_le_sizeL ha; simp only [Ty.size] at hn
        have := ih a (by omega) ((wf_inst hw).2 a ha)
        simp [this]
      · rfl
    | tuple k as =>
      rw [sub_unfold]
      simp only [subStep, Bool.and_eq_true, beq_self_eq_true, true_and]
      apply all2_self
      intro a ha
      have := size_le_sizeL ha; simp only [Ty.size] at hn
      exact ih a (by omega) (wf_tuple.mp hw a ha)
    | union ls =>
      obtain ⟨hne, hall⟩ := wf_union.mp hw
      have all' : ∀ l ∈ ls, sub g u v l (.union ls) = true := by
        intro l hl
        have := size_le_sizeL hl; simp only [Ty.size] at hn
        exact sub_union_right_of_mem g u v l.size l l ls (Nat.le_refl _) (hall l hl) hl (ih l (by omega) (hall l hl))
      rw [sub_unfold]
      simp only [subStep]
      cases u
      · simpa [List.all_eq_true] using all'
      · obtain ⟨l, hl⟩ := List.exists_mem_of_ne_nil _ hne
        simpa using ⟨l, hl, all' l hl⟩


theorem anyFree_union {is : List Ty} : (Ty.union is).anyFree = true ↔ ∀ t ∈ is, t.anyFree = true := by
  simp [Ty.anyFree, anyFreeL_iff]
theorem anyFree_inst {c : Cls} {is : List Ty} : (Ty.inst c is).anyFree = true ↔ ∀ t ∈ is, t.anyFree = true := by
  simp [Ty.anyFree, anyFreeL_iff]
theorem anyFree_tuple {k : Bool} {is : List Ty} : (Ty.tuple k is).anyFree = true ↔ ∀ t ∈ is, t.anyFree = true := by
  simp [Ty.anyFree, anyFreeL_iff]

def Ty.isUnion : Ty → Bool
  | .union _ => true
  | _ => false

theorem sub_union_left (g : Graph) (u v : Bool) (ls : List Ty) (R : Ty) (hR : R ≠ .any) :
    sub g u v (.union ls) R = if u then ls.any (fun l => sub g u v l R) else ls.all (fun l => sub g u v l R) := by
  rw [sub_unfold]; cases R <;> first | exact absurd rfl hR | rfl

theorem sub_union_right (g : Graph) (u v : Bool) (L : Ty) (rs : List Ty) (hL : L.isUnion = false) :
    sub g u v L (.union rs) = rs.any (fun r => sub g u v L r) := by
  rw [sub_unfold]; cases L <;> first | (simp [Ty.isUnion] at hL; done) | rfl

theorem sub_none_left (g : Graph) (u v : Bool) (R : Ty) (hR : R ≠ .any) (hRu : R.isUnion = false)
    (h : sub g u v .none R = true) : R = .none := by
  rw [sub_unfold] at h
  cases R <;> first | rfl | exact absurd rfl hR | (simp [Ty.isUnion] at hRu; done) | (simp [subStep] at h; done)

theorem sub_inst_inst (g : Graph) (u v : Bool) (c d : Cls) (as bs : List Ty) :
    sub g u v (.inst c as) (.inst d bs) =
      (isSubclass g c d &&
        (if arity g c == arity g d && (arity g c).isSome
         then all2 (fun a b => sub g u v a b && (v || sub g u v b a)) as bs else true)) := by
  rw [sub_unfold]; rfl

theorem sub_tuple_tuple (g : Graph) (u v : Bool) (k k' : Bool) (as bs : List Ty) :
    sub g u v (.tuple k as) (.tuple k' bs) = (as.length == bs.length && all2 (sub g u v) as bs) := by
  rw [sub_unfold]; rfl

theorem sub_inst_left (g : Graph) (u v : Bool) (c : Cls) (as : List Ty) (R : Ty) (hR : R ≠ .any)
    (hRu : R.isUnion = false) (h : sub g u v (.inst c as) R = true) : ∃ d bs, R = .inst d bs := by
  rw [sub_unfold] at h
  cases R <;> first | exact ⟨_, _, rfl⟩ | exact absurd rfl hR | (simp [Ty.isUnion] at hRu; done) | (simp [subStep] at h; done)

theorem sub_tuple_left (g : Graph) (u v : Bool) (k : Bool) (as : List Ty) (R : Ty) (hR : R ≠ .any)
    (hRu : R.isUnion = false) (h : sub g u v (.tuple k as) R = true) : ∃ k' bs, R = .tuple k' bs := by
  rw [sub_unfold] at h
  cases R <;> first | exact ⟨_, _, rfl⟩ | exact absurd rfl hR | (simp [Ty.isUnion] at hRu; done) | (simp [subStep] at h; done)

theorem sub_trans_aux (g : Graph) (hconv : GenericsConvex g) : ∀ (n : Nat) (A B C : Ty),
    A.size + B.size + C.size ≤ n → A.wf g = true → B.wf g = true → C.wf g = true → B.anyFree = true →
    sub g false false A B = true → sub g false false B C = true → sub g false false A C = true := by
  intro n
  induction n with
  | zero => intro A _ _ h; have := A.size_pos; omega
  | succ n ih =>
    intro A B C hn hA hB hC hF hAB hBC
    by_cases hCany : C = .any
    · subst hCany; exact sub_any_right g _ _ A
    by_cases hAany : A = .any
    · subst hAany; exact sub_any_left g _ _ C.size C (Nat.le_refl _) hC
    have hBany : B ≠ .any := by intro h; subst h; simp [Ty.anyFree] at hF
    -- A is a union: every member is below B, hence below C
    cases hAu : A.isUnion with
    | true =>
      cases A <;> simp [Ty.isUnion] at hAu
      rename_i as
      rw [sub_union_left g _ _ as B hBany] at hAB
      rw [sub_union_left g _ _ as C hCany]
      simp only [Bool.false_eq_true, if_false, List.all_eq_true] at hAB ⊢
      intro a ha
      have := size_le_sizeL ha; simp only [Ty.size] at hn
      exact ih a B C (by omega) ((wf_union.mp hA).2 a ha) hB hC hF (hAB a ha) hBC
    | false =>
    -- B is a union: A is below a member, every member is below C
    cases hBu : B.isUnion with
    | true =>
      cases B <;> simp [Ty.isUnion] at hBu
      rename_i bs
      rw [sub_union_right g _ _ A bs hAu] at hAB
      rw [sub_union_left g _ _ bs C hCany] at hBC
      simp only [Bool.false_eq_true, if_false, List.all_eq_true, List.any_eq_true] at hAB hBC
      obtain ⟨b, hb, hab⟩ := hAB
      have := size_le_sizeL hb; simp only [Ty.size] at hn
      exact ih A b C (by omega) hA ((wf_union.mp hB).2 b hb) hC (anyFree_union.mp hF b hb) hab (hBC b hb)
    | false =>
    -- C is a union: B is below a member
    cases hCu : C.isUnion with
    | true =>
      cases C <;> simp [Ty.isUnion] at hCu
      rename_i cs
      rw [sub_union_right g _ _ B cs hBu] at hBC
      rw [sub_union_right g _ _ A cs hAu]
      simp only [List.any_eq_true] at hBC ⊢
      obtain ⟨c, hc, hbc⟩ := hBC
      have := size_le_sizeL hc; simp only [Ty.size] at hn
      exact ⟨c, hc, ih A B c (by omega) hA hB ((wf_union.mp hC).2 c hc) hF hAB hbc⟩
    | false =>
    -- three non-union, non-Any types
    cases A with
    | any => exact absurd rfl hAany
    | union _ => simp [Ty.isUnion] at hAu
    | none =>
      have := sub_none_left g _ _ B hBany hBu hAB; subst this
      have := sub_none_left g _ _ C hCany hCu hBC; subst this
      exact hAB
    | tuple k as =>
      obtain ⟨k', bs, rfl⟩ := sub_tuple_left g _ _ k as B hBany hBu hAB
      obtain ⟨k'', cs, rfl⟩ := sub_tuple_left g _ _ k' bs C hCany hCu hBC
      rw [sub_tuple_tuple] at hAB hBC ⊢
      simp only [Bool.and_eq_true, beq_iff_eq] at hAB hBC ⊢
      refine ⟨by omega, all2_trans hAB.2 hBC.2 ?_⟩
      intro a ha b hb c hc h1 h2
      have := size_le_sizeL ha; have := size_le_sizeL hb; have := size_le_sizeL hc
      simp only [Ty.size] at hn
      exact ih a b c (by omega) (wf_tuple.mp hA a ha) (wf_tuple.mp hB b hb) (wf_tuple.mp hC c hc)
        (anyFree_tuple.mp hF b hb) h1 h2
    | inst a as =>
      obtain ⟨b, bs, rfl⟩ := sub_inst_left g _ _ a as B hBany hBu hAB
      obtain ⟨c, cs, rfl⟩ := sub_inst_left g _ _ b bs C hCany hCu hBC
      rw [sub_inst_inst] at hAB hBC ⊢
      simp only [Bool.and_eq_true] at hAB hBC ⊢
      have hab := (isSubclass_iff g a b).mp hAB.1
      have hbc := (isSubclass_iff g b c).mp hBC.1
      refine ⟨(isSubclass_iff g a c).mpr (hbc.trans hab), ?_⟩
      split
      · rename_i hcond
        simp only [beq_iff_eq] at hcond
        have hb' : arity g b = arity g a := hconv a b c hAB.1 hBC.1 hcond.2 hcond.1
        have h1 := hAB.2
        have h2 := hBC.2
        rw [if_pos (by rw [hb']; exact ⟨by simp, hcond.2⟩)] at h1
        rw [if_pos (by rw [hb']; exact ⟨by simp [hcond.1], hcond.2⟩)] at h2
        refine all2_trans h1 h2 ?_
        intro x hx y hy z hz hxy hyz
        have := size_le_sizeL hx; have := size_le_sizeL hy; have := size_le_sizeL hz
        simp only [Ty.size] at hn
        simp only [Bool.false_or, Bool.and_eq_true] at hxy hyz ⊢
        have wx := (wf_inst hA).2 x hx
        have wy := (wf_inst hB).2 y hy
        have wz := (wf_inst hC).2 z hz
        have fy := anyFree_inst.mp hF y hy
        exact ⟨ih x y z (by omega) wx wy wz fy hxy.1 hyz.1, ih z y x (by omega) wz wy wx fy hyz.2 hxy.2⟩
      · rfl

/-! ### strict ⇒ lenient -/
theorem all2_imp_mem {f f' : Ty → Ty → Bool} : ∀ {as bs : List Ty},
    (∀ a ∈ as, ∀ b ∈ bs, f a b = true → f' a b = true) → all2 f as bs = true → all2 f' as bs = true
  | [], [], _, _ => rfl
  | [], _ :: _, _, h => by simp [all2] at h
  | _ :: _, [], _, h => by simp [all2] at h
  | a :: as, b :: bs, hm, h => by
    simp only [all2, Bool.and_eq_true] at h ⊢
    exact ⟨hm a (by simp) b (by simp) h.1,
      all2_imp_mem (fun x hx y hy => hm x (by simp [hx]) y (by simp [hy])) h.2⟩

/-- `is_subtype(L, R)` ⇒ `is_maybe_subtype(L, R)` (the two visitors differ only in `visit_union_type`,
`all` vs `any` over a non-empty union). -/
theorem sub_lenient_of_strict_aux (g : Graph) (v : Bool) : ∀ (n : Nat) (L R : Ty), L.size + R.size ≤ n →
    L.wf g = true → R.wf g = true → sub g false v L R = true → sub g true v L R = true := by
  intro n
  induction n with
  | zero => intro L _ h; have := L.size_pos; omega
  | succ n ih =>
    intro L R hn hL hR h
    have right_union : ∀ rs, R = .union rs → L.isUnion = false → sub g true v L R = true := by
      intro rs hrs hLu
      subst hrs
      rw [sub_union_right g _ _ L rs hLu] at h ⊢
      obtain ⟨r, hr, h'⟩ := List.any_eq_true.mp h
      have := size_le_sizeL hr; simp only [Ty.size] at hn
      exact List.any_eq_true.mpr ⟨r, hr, ih L r (by omega) hL ((wf_union.mp hR).2 r hr) h'⟩
    cases L with
    | union ls =>
      by_cases hRa : R = .any
      · subst hRa; exact sub_any_right g _ _ _
      · rw [sub_union_left g _ _ ls R hRa] at h ⊢
        simp only [Bool.false_eq_true, if_false, if_true] at h ⊢
        obtain ⟨hne, hall⟩ := wf_union.mp hL
        obtain ⟨l, hl⟩ := List.exists_mem_of_ne_nil _ hne
        have := size_le_sizeL hl; simp only [Ty.size] at hn
        exact List.any_eq_true.mpr ⟨l, hl, ih l R (by omega) (hall l hl) hR (List.all_eq_true.mp h l hl)⟩
    | any =>
      cases R with
      | union rs => exact right_union rs rfl rfl
      | _ => rw [sub_unfold]; rfl
    | none =>
      cases R with
      | union rs => exact right_union rs rfl rfl
      | _ => rw [sub_unfold] at h ⊢; exact h
    | tuple k as =>
      cases R with
      | union rs => exact right_union rs rfl rfl
      | tuple k' bs =>
        rw [sub_tuple_tuple] at h ⊢
        simp only [Bool.and_eq_true] at h ⊢
        refine ⟨h.1, all2_imp_mem ?_ h.2⟩
        intro a ha b hb hab
        have := size_le_sizeL ha; have := size_le_sizeL hb; simp only [Ty.size] at hn
        exact ih a b (by omega) (wf_tuple.mp hL a ha) (wf_tuple.mp hR b hb) hab
      | _ => rw [sub_unfold] at h ⊢; exact h
    | inst c as =>
      cases R with
      | union rs => exact right_union rs rfl rfl
      | inst d bs =>
        rw [sub_inst_inst] at h ⊢
        simp only [Bool.and_eq_true] at h ⊢
        refine ⟨h.1, ?_⟩
        have h2 := h.2
        split at h2
        · rename_i hc
          rw [if_pos hc]
          refine all2_imp_mem ?_ h2
          intro a ha b hb hab
          have := size_le_sizeL ha; have := size_le_sizeL hb; simp only [Ty.size] at hn
          simp only [Bool.and_eq_true, Bool.or_eq_true] at hab ⊢
          refine ⟨ih a b (by omega) ((wf_inst hL).2 a ha) ((wf_inst hR).2 b hb) hab.1, ?_⟩
          rcases hab.2 with hv | hba
          · exact Or.inl hv
          · exact Or.inr (ih b a (by omega) ((wf_inst hR).2 b hb) ((wf_inst hL).2 a ha) hba)
        · rename_i hc
          rw [if_neg hc]
      | _ => rw [sub_unfold] at h ⊢; exact h

end PynguinModel.Types
