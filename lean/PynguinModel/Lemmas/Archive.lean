import PynguinModel.Model.Archive
/-!
Helper lemmas for C13 (`Props/C13.lean`): dict/OrderedSet primitives, the invariant `Inv` of the
coverage archive and its preservation by every loop body, population invariants for MIO.
-/
namespace PynguinModel.Archive

/-! ### dict primitives -/

theorem lookup_eq_none_iff {β : Type} (d : List (Goal × β)) (g : Goal) :
    lookup d g = none ↔ g ∉ keys d := by
  induction d with
  | nil => simp [lookup, keys]
  | cons p d ih =>
    obtain ⟨k, v⟩ := p
    by_cases h : k = g
    · simp [lookup, keys, h]
    · have : ¬ g = k := fun e => h e.symm
      simpa [lookup, keys, h, this] using ih

theorem lookup_some_mem {β : Type} {d : List (Goal × β)} {g : Goal} {v : β}
    (h : lookup d g = some v) : (g, v) ∈ d := by
  induction d with
  | nil => simp [lookup] at h
  | cons p d ih =>
    obtain ⟨k, w⟩ := p
    by_cases hk : k = g
    · simp [lookup, hk] at h; simp [hk, h]
    · simp [lookup, hk] at h; exact List.mem_cons_of_mem _ (ih h)

theorem keys_dictSet {β : Type} (d : List (Goal × β)) (g : Goal) (s : β) :
    keys (dictSet d g s) = if g ∈ keys d then keys d else keys d ++ [g] := by
  induction d with
  | nil => simp [dictSet, keys]
  | cons p d ih =>
    obtain ⟨k, v⟩ := p
    by_cases h : k = g
    · simp [dictSet, keys, h]
    · have hne : ¬ g = k := fun e => h e.symm
      simp only [dictSet, h, if_false, keys, List.map_cons, List.mem_cons, hne, false_or] at ih ⊢
      rw [ih]; split <;> simp [*]

theorem lookup_dictSet {β : Type} (d : List (Goal × β)) (g g' : Goal) (s : β) :
    lookup (dictSet d g s) g' = if g = g' then some s else lookup d g' := by
  induction d with
  | nil => simp [dictSet, lookup]
  | cons p d ih =>
    obtain ⟨k, v⟩ := p
    by_cases h : k = g
    · subst h
      by_cases h' : k = g' <;> simp [dictSet, lookup, h']
    · by_cases h' : k = g'
      · subst h'
        simp [dictSet, lookup, h, show ¬ g = k from fun e => h e.symm]
      · simp [dictSet, lookup, h, h', ih]

theorem mem_dictSet {β : Type} {d : List (Goal × β)} {g : Goal} {s : β} {p : Goal × β}
    (h : p ∈ dictSet d g s) : p = (g, s) ∨ p ∈ d := by
  induction d with
  | nil => simp [dictSet] at h; exact Or.inl h
  | cons q d ih =>
    obtain ⟨k, v⟩ := q
    by_cases hk : k = g
    · simp [dictSet, hk] at h
      rcases h with h | h
      · exact Or.inl h
      · exact Or.inr (List.mem_cons_of_mem _ h)
    · simp [dictSet, hk] at h
      rcases h with h | h
      · exact Or.inr (by simp [h])
      · rcases ih h with h | h
        · exact Or.inl h
        · exact Or.inr (List.mem_cons_of_mem _ h)

theorem keys_prefix_dictSet {β : Type} (d : List (Goal × β)) (g : Goal) (s : β) :
    keys d <+: keys (dictSet d g s) := by
  rw [keys_dictSet]; split
  · exact List.prefix_refl _
  · exact List.prefix_append _ _

/-! ### OrderedSet primitives -/

theorem nodup_osetAdd {α : Type} [DecidableEq α] {l : List α} (h : l.Nodup) (x : α) :
    (osetAdd l x).Nodup := by
  unfold osetAdd; split
  · exact h
  · rename_i hx
    exact List.nodup_append.2 ⟨h, by simp, by intro a ha b hb; simp at hb; subst hb; exact fun e => hx (e ▸ ha)⟩

theorem mem_osetAdd {α : Type} [DecidableEq α] {l : List α} {x y : α} :
    y ∈ osetAdd l x ↔ y ∈ l ∨ y = x := by
  unfold osetAdd; split
  · rename_i hx; constructor
    · exact Or.inl
    · rintro (h | h); exact h; exact h ▸ hx
  · simp

theorem nodup_osetNew_aux {α : Type} [DecidableEq α] (xs acc : List α) (h : acc.Nodup) :
    (xs.foldl osetAdd acc).Nodup := by
  induction xs generalizing acc with
  | nil => exact h
  | cons x xs ih => exact ih _ (nodup_osetAdd h x)

theorem nodup_osetNew {α : Type} [DecidableEq α] (xs : List α) : (osetNew xs).Nodup :=
  nodup_osetNew_aux xs [] List.nodup_nil

theorem mem_osetNew_aux {α : Type} [DecidableEq α] (xs acc : List α) (y : α) :
    y ∈ xs.foldl osetAdd acc ↔ y ∈ acc ∨ y ∈ xs := by
  induction xs generalizing acc with
  | nil => simp
  | cons x xs ih =>
    simp only [List.foldl_cons, ih, mem_osetAdd, List.mem_cons]
    constructor
    · rintro ((h | h) | h)
      · exact Or.inl h
      · exact Or.inr (Or.inl h)
      · exact Or.inr (Or.inr h)
    · rintro (h | h | h)
      · exact Or.inl (Or.inl h)
      · exact Or.inl (Or.inr h)
      · exact Or.inr h

theorem mem_osetNew {α : Type} [DecidableEq α] (xs : List α) (y : α) : y ∈ osetNew xs ↔ y ∈ xs := by
  simp [osetNew, mem_osetNew_aux]

/-! ### the replacement rule of `CoverageArchive` -/

theorem isBetterThanCurrent_iff (o s : Sol) :
    isBetterThanCurrent o s = true ↔ (o.erroneous = true ∧ s.clean = true) ∨ s.size < o.size := by
  unfold isBetterThanCurrent
  cases ho : o.erroneous <;> cases hs : s.clean <;> simp

/-- What the property demands of one executed assignment `_covered[goal] = new`. -/
def RuleOK (e : Event) : Prop :=
  e.new.coversB e.goal = true ∧
    ∀ o, e.old = some o → (o.erroneous = true ∧ e.new.clean = true) ∨ e.new.size < o.size

theorem replayLog_append (log : List Event) (e : Event) :
    replayLog (log ++ [e]) =
      match replayLog log with
      | none => none
      | some d => if lookup d e.goal = e.old then some (dictSet d e.goal e.new) else none := by
  unfold replayLog; rw [List.foldl_append]; rfl

/-! ### invariant of the coverage archive -/

structure Inv (a : CArchive) : Prop where
  objNodup : a.objectives.Nodup
  unc : a.uncovered = a.objectives.filter (fun g => decide (g ∉ keys a.covered))
  keysNodup : (keys a.covered).Nodup
  keysObj : ∀ g ∈ keys a.covered, g ∈ a.objectives
  notif : a.notified = keys a.covered
  covers : ∀ p ∈ a.covered, p.2.coversB p.1 = true
  replay : replayLog a.log = some a.covered
  rule : ∀ e ∈ a.log, RuleOK e

theorem inv_init (objs : List Goal) : Inv (CArchive.init objs) where
  objNodup := nodup_osetNew objs
  unc := by
    show osetNew objs = (osetNew objs).filter _
    exact (List.filter_eq_self.2 (by simp [keys, CArchive.init])).symm
  keysNodup := by simp [CArchive.init, keys]
  keysObj := by simp [CArchive.init, keys]
  notif := by simp [CArchive.init, keys]
  covers := by simp [CArchive.init]
  replay := by simp [CArchive.init, replayLog]
  rule := by simp [CArchive.init]

/-- What one pass of the inner loop body maintains. -/
structure UInv (g : Goal) (st : UState) : Prop where
  inv : Inv st.a
  gObj : g ∈ st.a.objectives
  best : st.best = lookup st.a.covered g

theorem updSol_objectives (g : Goal) (st : UState) (s : Sol) :
    (updSol g st s).a.objectives = st.a.objectives := by
  unfold updSol; split
  · simp only; split <;> rfl
  · rfl

theorem updSol_uinv {g : Goal} {st : UState} (h : UInv g st) (s : Sol) : UInv g (updSol g st s) := by
  obtain ⟨inv, gObj, best⟩ := h
  unfold updSol
  split
  case isFalse => exact ⟨inv, gObj, best⟩
  case isTrue hc =>
    simp only [Bool.and_eq_true] at hc
    obtain ⟨hcov, hbet⟩ := hc
    have hrule : RuleOK ⟨g, lookup st.a.covered g, s⟩ := by
      refine ⟨hcov, ?_⟩
      intro o ho
      simp only at ho
      rw [← best] at ho
      rw [ho] at hbet
      exact (isBetterThanCurrent_iff o s).1 hbet
    have hreplay : replayLog (st.a.log ++ [⟨g, lookup st.a.covered g, s⟩])
        = some (dictSet st.a.covered g s) := by
      rw [replayLog_append, inv.replay]; simp
    have hcovers : ∀ p ∈ dictSet st.a.covered g s, p.2.coversB p.1 = true := by
      intro p hp
      rcases mem_dictSet hp with h | h
      · subst h; exact hcov
      · exact inv.covers p h
    have hrules : ∀ e ∈ st.a.log ++ [⟨g, lookup st.a.covered g, s⟩], RuleOK e := by
      intro e he
      rcases List.mem_append.1 he with h | h
      · exact inv.rule e h
      · simp at h; subst h; exact hrule
    by_cases hu : g ∈ st.a.uncovered
    · -- first solution for `g`
      have hnk : g ∉ keys st.a.covered := by
        rw [inv.unc] at hu; simpa using (List.mem_filter.1 hu).2
      have hkeys : keys (dictSet st.a.covered g s) = keys st.a.covered ++ [g] := by
        rw [keys_dictSet]; simp [hnk]
      simp only [hu, if_true]
      refine ⟨⟨inv.objNodup, ?_, ?_, ?_, ?_, hcovers, hreplay, hrules⟩, gObj, ?_⟩
      · simp only [osetRemove, hkeys]
        rw [inv.unc, List.filter_filter]
        apply List.filter_congr
        intro x _
        by_cases hx : x = g <;> simp [hx, hnk]
      · simp only [hkeys]
        exact List.nodup_append.2 ⟨inv.keysNodup, by simp, by
          intro a ha b hb; simp at hb; subst hb; exact fun e => hnk (e ▸ ha)⟩
      · intro x hx
        simp only [hkeys, List.mem_append, List.mem_singleton] at hx
        rcases hx with hx | hx
        · exact inv.keysObj x hx
        · exact hx ▸ gObj
      · simp only [hkeys, inv.notif]
      · simp [lookup_dictSet]
    · have hk : g ∈ keys st.a.covered := by
        rw [inv.unc] at hu
        by_cases hk : g ∈ keys st.a.covered
        · exact hk
        · exact absurd (List.mem_filter.2 ⟨gObj, by simpa using hk⟩) hu
      have hkeys : keys (dictSet st.a.covered g s) = keys st.a.covered := by
        rw [keys_dictSet]; simp [hk]
      simp only [hu, if_false]
      refine ⟨⟨inv.objNodup, ?_, ?_, ?_, ?_, hcovers, hreplay, hrules⟩, gObj, ?_⟩
      · simp only [hkeys]; exact inv.unc
      · simp only [hkeys]; exact inv.keysNodup
      · simp only [hkeys]; exact inv.keysObj
      · simp only [hkeys]; exact inv.notif
      · simp [lookup_dictSet]

theorem foldl_updSol_uinv {g : Goal} (sols : List Sol) {st : UState} (h : UInv g st) :
    UInv g (sols.foldl (updSol g) st) := by
  induction sols generalizing st with
  | nil => exact h
  | cons s sols ih => exact ih (updSol_uinv h s)

theorem foldl_updSol_objectives (g : Goal) (sols : List Sol) (st : UState) :
    (sols.foldl (updSol g) st).a.objectives = st.a.objectives := by
  induction sols generalizing st with
  | nil => rfl
  | cons s sols ih => simp only [List.foldl_cons]; rw [ih, updSol_objectives]

theorem updGoal_objectives (sols : List Sol) (acc : CArchive × Bool) (g : Goal) :
    (updGoal sols acc g).1.objectives = acc.1.objectives := by
  simp [updGoal, foldl_updSol_objectives]

theorem updGoal_inv {sols : List Sol} {acc : CArchive × Bool} {g : Goal} (h : Inv acc.1)
    (hg : g ∈ acc.1.objectives) : Inv (updGoal sols acc g).1 :=
  (foldl_updSol_uinv sols (st := ⟨acc.1, lookup acc.1.covered g, acc.2⟩) ⟨h, hg, rfl⟩).inv

theorem foldl_updGoal_inv (sols : List Sol) (gs : List Goal) (acc : CArchive × Bool) (h : Inv acc.1)
    (hg : ∀ g ∈ gs, g ∈ acc.1.objectives) :
    Inv (gs.foldl (updGoal sols) acc).1 ∧ (gs.foldl (updGoal sols) acc).1.objectives = acc.1.objectives := by
  induction gs generalizing acc with
  | nil => exact ⟨h, rfl⟩
  | cons g gs ih =>
    simp only [List.foldl_cons]
    have h1 := updGoal_inv (sols := sols) h (hg g (by simp))
    have ho := updGoal_objectives sols acc g
    have := ih (updGoal sols acc g) h1 (by intro x hx; rw [ho]; exact hg x (by simp [hx]))
    exact ⟨this.1, this.2.trans ho⟩

theorem update_inv {a : CArchive} (h : Inv a) (sols : List Sol) : Inv (a.update sols).1 :=
  (foldl_updGoal_inv sols a.objectives (a, false) h (fun _ hg => hg)).1

theorem update_objectives (a : CArchive) (sols : List Sol) :
    (a.update sols).1.objectives = a.objectives := by
  have : ∀ (gs : List Goal) (acc : CArchive × Bool),
      (gs.foldl (updGoal sols) acc).1.objectives = acc.1.objectives := by
    intro gs
    induction gs with
    | nil => intro _; rfl
    | cons g gs ih => intro acc; simp only [List.foldl_cons]; rw [ih, updGoal_objectives]
  exact this _ _

theorem addGoal_inv {a : CArchive} (h : Inv a) (g : Goal) : Inv (addGoal a g) := by
  unfold addGoal
  split
  · exact h
  · rename_i hg
    have hnk : g ∉ keys a.covered := fun hk => hg (h.keysObj g hk)
    have hnu : g ∉ a.uncovered := by
      rw [h.unc]; intro hm; exact hg (List.mem_filter.1 hm).1
    refine ⟨?_, ?_, h.keysNodup, ?_, h.notif, h.covers, h.replay, h.rule⟩
    · exact List.nodup_append.2 ⟨h.objNodup, by simp, by
        intro x hx b hb; simp at hb; subst hb; exact fun e => hg (e ▸ hx)⟩
    · have hadd : osetAdd a.uncovered g = a.uncovered ++ [g] := by simp [osetAdd, hnu]
      show osetAdd a.uncovered g = _
      rw [hadd, List.filter_append, ← h.unc]
      simp [hnk]
    · intro x hx; exact List.mem_append_left _ (h.keysObj x hx)

theorem addGoals_inv {a : CArchive} (h : Inv a) (gs : List Goal) : Inv (a.addGoals gs) := by
  unfold CArchive.addGoals
  induction gs generalizing a with
  | nil => exact h
  | cons g gs ih => exact ih (addGoal_inv h g)

theorem step_inv {a : CArchive} (h : Inv a) (op : Op) : Inv (a.step op) := by
  cases op with
  | update sols => exact update_inv h sols
  | addGoals gs => exact addGoals_inv h gs

theorem run_inv {a : CArchive} (h : Inv a) (ops : List Op) : Inv (a.run ops) := by
  unfold CArchive.run
  induction ops generalizing a with
  | nil => exact h
  | cons op ops ih => exact ih (step_inv h op)

/-! ### monotonicity of the covered dict (no invariant needed) -/

theorem updSol_prefix (g : Goal) (st : UState) (s : Sol) :
    keys st.a.covered <+: keys (updSol g st s).a.covered := by
  unfold updSol; split
  · simp only; split <;> exact keys_prefix_dictSet _ _ _
  · exact List.prefix_refl _

theorem foldl_updSol_prefix (g : Goal) (sols : List Sol) (st : UState) :
    keys st.a.covered <+: keys (sols.foldl (updSol g) st).a.covered := by
  induction sols generalizing st with
  | nil => exact List.prefix_refl _
  | cons s sols ih => exact (updSol_prefix g st s).trans (ih _)

theorem foldl_updGoal_prefix (sols : List Sol) (gs : List Goal) (acc : CArchive × Bool) :
    keys acc.1.covered <+: keys (gs.foldl (updGoal sols) acc).1.covered := by
  induction gs generalizing acc with
  | nil => exact List.prefix_refl _
  | cons g gs ih =>
    have h1 : keys acc.1.covered <+: keys (updGoal sols acc g).1.covered :=
      foldl_updSol_prefix g sols ⟨acc.1, lookup acc.1.covered g, acc.2⟩
    exact h1.trans (ih (updGoal sols acc g))

theorem addGoals_covered (a : CArchive) (gs : List Goal) : (a.addGoals gs).covered = a.covered := by
  unfold CArchive.addGoals
  induction gs generalizing a with
  | nil => rfl
  | cons g gs ih =>
    simp only [List.foldl_cons]; rw [ih]; unfold addGoal; split <;> rfl

theorem step_prefix (a : CArchive) (op : Op) : keys a.covered <+: keys (a.step op).covered := by
  cases op with
  | update sols => exact foldl_updGoal_prefix sols a.objectives (a, false)
  | addGoals gs => simp [CArchive.step, addGoals_covered]

theorem run_prefix (a : CArchive) (ops : List Op) : keys a.covered <+: keys (a.run ops).covered := by
  unfold CArchive.run
  induction ops generalizing a with
  | nil => exact List.prefix_refl _
  | cons op ops ih => exact (step_prefix a op).trans (ih _)

theorem addGoal_objectives_prefix (a : CArchive) (g : Goal) :
    a.objectives <+: (addGoal a g).objectives := by
  unfold addGoal; split
  · exact List.prefix_refl _
  · exact List.prefix_append _ _

theorem step_objectives_prefix (a : CArchive) (op : Op) : a.objectives <+: (a.step op).objectives := by
  cases op with
  | update sols => simp [CArchive.step, update_objectives]
  | addGoals gs =>
    simp only [CArchive.step, CArchive.addGoals]
    induction gs generalizing a with
    | nil => exact List.prefix_refl _
    | cons g gs ih => exact (addGoal_objectives_prefix a g).trans (ih _)

theorem run_objectives_prefix (a : CArchive) (ops : List Op) : a.objectives <+: (a.run ops).objectives := by
  unfold CArchive.run
  induction ops generalizing a with
  | nil => exact List.prefix_refl _
  | cons op ops ih => exact (step_objectives_prefix a op).trans (ih _)

theorem mem_addGoals_objectives (a : CArchive) (gs : List Goal) (g : Goal) :
    g ∈ (a.addGoals gs).objectives ↔ g ∈ a.objectives ∨ g ∈ gs := by
  unfold CArchive.addGoals
  induction gs generalizing a with
  | nil => simp
  | cons x gs ih =>
    simp only [List.foldl_cons, ih, List.mem_cons]
    have : g ∈ (addGoal a x).objectives ↔ g ∈ a.objectives ∨ g = x := by
      unfold addGoal; split
      · rename_i hx; constructor
        · exact Or.inl
        · rintro (h | h); exact h; exact h ▸ hx
      · simp
    rw [this]; constructor
    · rintro ((h | h) | h)
      · exact Or.inl h
      · exact Or.inr (Or.inl h)
      · exact Or.inr (Or.inr h)
    · rintro (h | h | h)
      · exact Or.inl (Or.inl h)
      · exact Or.inl (Or.inr h)
      · exact Or.inr h

/-! ### `_GoalsManager.update` -/

/-- the accumulated `new_goals` stay duplicate-free and never contain a covered goal -/
def GAcc (covered : List Goal) (acc : List Goal × Bool) : Prop :=
  acc.1.Nodup ∧ ∀ g ∈ acc.1, g ∉ covered

theorem gmChild_acc {current covered : List Goal} {acc : List Goal × Bool} (h : GAcc covered acc)
    (child : Goal) : GAcc covered (gmChild current covered acc child) := by
  unfold gmChild; split
  · rename_i hc
    refine ⟨nodup_osetAdd h.1 child, ?_⟩
    intro g hg
    rcases mem_osetAdd.1 hg with hg | hg
    · exact h.2 g hg
    · exact hg ▸ hc.2
  · exact h

theorem gmOld_acc {gr : List (Goal × List Goal)} {current covered : List Goal}
    {acc : List Goal × Bool} (h : GAcc covered acc) (old : Goal) :
    GAcc covered (gmOld gr current covered acc old) := by
  unfold gmOld; split
  · generalize childrenOf gr old = cs
    induction cs generalizing acc with
    | nil => exact h
    | cons c cs ih => exact ih (gmChild_acc h c)
  · rename_i ho
    refine ⟨nodup_osetAdd h.1 old, ?_⟩
    intro g hg
    rcases mem_osetAdd.1 hg with hg | hg
    · exact h.2 g hg
    · exact hg ▸ ho

theorem foldl_gmOld_acc {gr : List (Goal × List Goal)} {current covered : List Goal}
    (olds : List Goal) {acc : List Goal × Bool} (h : GAcc covered acc) :
    GAcc covered (olds.foldl (gmOld gr current covered) acc) := by
  induction olds generalizing acc with
  | nil => exact h
  | cons o olds ih => exact ih (gmOld_acc h o)

theorem gmIter_archive (m : GM) (sols : List Sol) :
    (gmIter m sols).1.archive = m.archive.run [.update sols, .addGoals (gmIter m sols).1.current] := rfl

theorem gmIter_current {m : GM} (h : Inv m.archive) (sols : List Sol) :
    Inv (gmIter m sols).1.archive ∧ (gmIter m sols).1.current.Nodup ∧
      ∀ g ∈ (gmIter m sols).1.current, g ∈ (gmIter m sols).1.archive.uncovered := by
  have hacc := foldl_gmOld_acc (gr := m.children) (current := m.current)
    (covered := (m.archive.update sols).1.coveredGoals) m.current (acc := ([], false))
    ⟨List.nodup_nil, by simp⟩
  have hinv : Inv (gmIter m sols).1.archive := by
    rw [gmIter_archive]; exact run_inv h _
  refine ⟨hinv, hacc.1, ?_⟩
  intro g hg
  rw [hinv.unc]
  refine List.mem_filter.2 ⟨?_, ?_⟩
  · exact (mem_addGoals_objectives _ _ g).2 (Or.inr hg)
  · have := hacc.2 g hg
    simp only [gmIter, addGoals_covered]
    simpa [CArchive.coveredGoals] using this

theorem gmUpdate_spec (fuel : Nat) {m m' : GM} {sols : List Sol} (h : Inv m.archive)
    (hr : gmUpdate fuel m sols = some m') :
    (∃ ops, m'.archive = m.archive.run ops) ∧ Inv m'.archive ∧ m'.current.Nodup ∧
      ∀ g ∈ m'.current, g ∈ m'.archive.uncovered := by
  induction fuel generalizing m with
  | zero => simp [gmUpdate] at hr
  | succ fuel ih =>
    simp only [gmUpdate] at hr
    have hi := gmIter_current h sols
    split at hr
    · obtain ⟨⟨ops, hops⟩, rest⟩ := ih hi.1 hr
      refine ⟨⟨[.update sols, .addGoals (gmIter m sols).1.current] ++ ops, ?_⟩, rest⟩
      rw [hops, gmIter_archive]; simp [CArchive.run]
    · injection hr with hr
      subst hr
      exact ⟨⟨_, gmIter_archive m sols⟩, hi⟩

end PynguinModel.Archive
