/-
Helper lemmas for `Props/C22.lean`: generic loop invariants of the minimization visitors, the backward
closure of the protected variables, and "a forward-dependency removal rooted at an unprotected statement
removes no protected statement".
-/
import PynguinModel.Model.Minimize
import PynguinModel.Lemmas.TestCase

namespace PynguinModel.Minimize
open PynguinModel.TestCase

/-! ### generic invariants of the statement loops -/

theorem clone_removeFwd (tc : TC) (i : Nat) : tc.clone.removeFwd i = tc.removeFwd i := by
  simp [TC.removeFwd, TC.clone, TC.withStmts]

/-- every accepted removal of an unprotected statement keeps `P` -/
def StepOK (acc : TC → Bool) (prot : List Name) (P : TC → Prop) : Prop :=
  ∀ tc i s r, P tc → tc.stmts[i]? = some s → isProt s prot = false → tc.removeFwd i = some r →
    acc r.1 = true → P r.1

theorem scanFwd_inv {acc : TC → Bool} {prot : List Name} {P : TC → Prop} (h : StepOK acc prot P) :
    ∀ fuel tc i rem ch r, P tc → scanFwd acc prot fuel tc i rem ch = some r → P r.1 := by
  intro fuel
  induction fuel with
  | zero => intro tc i rem ch r _ hr; simp [scanFwd] at hr
  | succ fuel ih =>
    intro tc i rem ch r hp hr
    unfold scanFwd at hr
    cases hs : tc.stmts[i]? with
    | none => simp only [hs] at hr; cases hr; exact hp
    | some s =>
      simp only [hs] at hr
      cases hprot : isProt s prot with
      | true => simp only [hprot, if_true] at hr; exact ih _ _ _ _ _ hp hr
      | false =>
        simp only [hprot, Bool.false_eq_true, if_false, clone_removeFwd] at hr
        cases hrm : tc.removeFwd i with
        | none => simp [hrm] at hr
        | some q =>
          simp only [hrm] at hr
          cases ha : acc q.1 with
          | true => simp only [ha, if_true] at hr; exact ih _ _ _ _ _ (h tc i s q hp hs hprot hrm ha) hr
          | false => simp only [ha, Bool.false_eq_true, if_false] at hr; exact ih _ _ _ _ _ hp hr

theorem fwdOuter_inv {acc : TC → Bool} {prot : List Name} {P : TC → Prop} (h : StepOK acc prot P) :
    ∀ fuel tc rem r, P tc → fwdOuter acc prot fuel tc rem = some r → P r.1 := by
  intro fuel
  induction fuel with
  | zero => intro tc rem r _ hr; simp [fwdOuter] at hr
  | succ fuel ih =>
    intro tc rem r hp hr
    unfold fwdOuter at hr
    cases hsc : scanFwd acc prot (tc.size + 1) tc 0 rem false with
    | none => simp [hsc] at hr
    | some q =>
      simp only [hsc] at hr
      have hq := scanFwd_inv h _ _ _ _ _ _ hp hsc
      cases hch : q.2.2 with
      | true => simp only [hch, if_true] at hr; exact ih _ _ _ hq hr
      | false => simp only [hch, Bool.false_eq_true, if_false] at hr; cases hr; exact hq

theorem scanBwd_inv {acc : TC → Bool} {prot : List Name} {P : TC → Prop} (h : StepOK acc prot P) (tc : TC)
    (hp : P tc) : ∀ j r, scanBwd acc prot tc j = some (some r) → P r.1 := by
  intro j
  induction j with
  | zero => intro r hr; simp [scanBwd] at hr
  | succ j ih =>
    intro r hr
    unfold scanBwd at hr
    cases hs : tc.stmts[j]? with
    | none => simp [hs] at hr
    | some s =>
      simp only [hs] at hr
      cases hprot : isProt s prot with
      | true => simp only [hprot, if_true] at hr; exact ih _ hr
      | false =>
        simp only [hprot, Bool.false_eq_true, if_false, clone_removeFwd] at hr
        cases hrm : tc.removeFwd j with
        | none => simp [hrm] at hr
        | some q =>
          simp only [hrm] at hr
          cases ha : acc q.1 with
          | true =>
            simp only [ha, if_true, Option.some.injEq] at hr
            cases hr
            exact h tc j s q hp hs hprot hrm ha
          | false => simp only [ha, Bool.false_eq_true, if_false] at hr; exact ih _ hr

theorem bwdOuter_inv {acc : TC → Bool} {prot : List Name} {P : TC → Prop} (h : StepOK acc prot P) :
    ∀ fuel tc rem r, P tc → bwdOuter acc prot fuel tc rem = some r → P r.1 := by
  intro fuel
  induction fuel with
  | zero => intro tc rem r _ hr; simp [bwdOuter] at hr
  | succ fuel ih =>
    intro tc rem r hp hr
    unfold bwdOuter at hr
    by_cases hsz : tc.size > 0
    · simp only [hsz, if_true] at hr
      cases hsc : scanBwd acc prot tc tc.size with
      | none => simp [hsc] at hr
      | some o =>
        cases o with
        | none => simp only [hsc, Option.some.injEq] at hr; cases hr; exact hp
        | some q =>
          simp only [hsc] at hr
          exact ih _ _ _ (scanBwd_inv h tc hp _ _ hsc) hr
    · simp only [hsz, if_false, Option.some.injEq] at hr; cases hr; exact hp


/-! ### `get_assertion_protected_variables`: backward closure, termination -/

/-- a statement that binds a name of `p` reads only names of `p` -/
def BackClosed (l : List Stmt) (p : List Name) : Prop :=
  ∀ s ∈ l, ∀ v, s.bound = some v → v ∈ p → ∀ u ∈ s.uses, u ∈ p

theorem addUsed_mono (us p : List Name) (ch : Bool) : ∀ v ∈ p, v ∈ (addUsed us p ch).1 := by
  induction us generalizing p ch with
  | nil => intro v hv; simpa [addUsed] using hv
  | cons u us ih =>
    intro v hv
    unfold addUsed
    split
    · exact ih _ _ v hv
    · exact ih _ _ v (List.mem_cons_of_mem _ hv)

theorem addUsed_false (us p : List Name) (ch : Bool) (h : (addUsed us p ch).2 = false) :
    ch = false ∧ (addUsed us p ch).1 = p ∧ ∀ u ∈ us, u ∈ p := by
  induction us generalizing p ch with
  | nil => simp [addUsed] at h ⊢; exact h
  | cons u us ih =>
    unfold addUsed at h ⊢
    split
    · rename_i hu
      simp only [hu, if_true] at h
      obtain ⟨h1, h2, h3⟩ := ih _ _ h
      exact ⟨h1, h2, by intro x hx; rcases List.mem_cons.1 hx with rfl | hx; exact hu; exact h3 x hx⟩
    · rename_i hu
      simp only [hu, if_false] at h
      have := (ih _ _ h).1
      simp at this

theorem backSweep_mono (l : List Stmt) (p : List Name) (ch : Bool) : ∀ v ∈ p, v ∈ (backSweep l p ch).1 := by
  induction l generalizing p ch with
  | nil => intro v hv; simpa [backSweep] using hv
  | cons s l ih =>
    intro v hv
    unfold backSweep
    split
    · split
      · exact ih _ _ v (addUsed_mono _ _ _ v hv)
      · exact ih _ _ v hv
    · exact ih _ _ v hv

theorem backSweep_false (l : List Stmt) (p : List Name) (ch : Bool) (h : (backSweep l p ch).2 = false) :
    ch = false ∧ (backSweep l p ch).1 = p ∧ BackClosed l p := by
  induction l generalizing p ch with
  | nil => simp [backSweep] at h ⊢; exact ⟨h, by intro s hs; cases hs⟩
  | cons s l ih =>
    unfold backSweep at h ⊢
    cases hb : s.bound with
    | none =>
      simp only [hb] at h ⊢
      obtain ⟨h1, h2, h3⟩ := ih _ _ h
      refine ⟨h1, h2, ?_⟩
      intro x hx v hv
      rcases List.mem_cons.1 hx with rfl | hx
      · rw [hb] at hv; cases hv
      · exact h3 x hx v hv
    | some bv =>
      simp only [hb] at h ⊢
      by_cases hm : bv ∈ p
      · simp only [hm, if_true] at h ⊢
        obtain ⟨h1, h2, h3⟩ := ih _ _ h
        obtain ⟨g1, g2, g3⟩ := addUsed_false _ _ _ h1
        rw [g2] at h3
        refine ⟨g1, h2.trans g2, ?_⟩
        intro x hx v hv hvp
        rcases List.mem_cons.1 hx with rfl | hx
        · exact g3
        · exact h3 x hx v hv hvp
      · simp only [hm, if_false] at h ⊢
        obtain ⟨h1, h2, h3⟩ := ih _ _ h
        refine ⟨h1, h2, ?_⟩
        intro x hx v hv hvp
        rcases List.mem_cons.1 hx with rfl | hx
        · rw [hb] at hv; cases hv; exact absurd hvp hm
        · exact h3 x hx v hv hvp

theorem backLoop_spec (l : List Stmt) : ∀ fuel p p', backLoop l fuel p = some p' →
    BackClosed l p' ∧ ∀ v ∈ p, v ∈ p' := by
  intro fuel
  induction fuel with
  | zero => intro p p' h; simp [backLoop] at h
  | succ fuel ih =>
    intro p p' h
    unfold backLoop at h
    cases hc : (backSweep l p false).2 with
    | true =>
      simp only [hc, if_true] at h
      obtain ⟨h1, h2⟩ := ih _ _ h
      exact ⟨h1, fun v hv => h2 v (backSweep_mono _ _ _ v hv)⟩
    | false =>
      simp only [hc, Bool.false_eq_true, if_false, Option.some.injEq] at h
      obtain ⟨_, g2, g3⟩ := backSweep_false _ _ _ hc
      subst h
      rw [g2]
      exact ⟨g3, fun v hv => hv⟩

/-- number of entries of `U` not (yet) in `p` -/
def missing : List Name → List Name → Nat
  | [], _ => 0
  | x :: U, p => (if x ∈ p then 0 else 1) + missing U p

theorem missing_le_length (U p : List Name) : missing U p ≤ U.length := by
  induction U with
  | nil => simp [missing]
  | cons x U ih => simp only [missing, List.length_cons]; split <;> omega

theorem missing_cons_le (U p : List Name) (u : Name) : missing U (u :: p) ≤ missing U p := by
  induction U with
  | nil => simp [missing]
  | cons x U ih =>
    simp only [missing, List.mem_cons]
    by_cases h1 : x ∈ p
    · simp [h1]; exact ih
    · by_cases h2 : x = u
      · simp [h1, h2]; omega
      · simp [h1, h2]; exact ih

theorem missing_cons_lt {U p : List Name} {u : Name} (hu : u ∈ U) (hp : u ∉ p) :
    missing U (u :: p) < missing U p := by
  induction U with
  | nil => cases hu
  | cons x U ih =>
    simp only [missing, List.mem_cons]
    by_cases h2 : x = u
    · subst h2
      have := missing_cons_le U p x
      simp [hp]; omega
    · have hu' : u ∈ U := by
        rcases List.mem_cons.1 hu with h | h
        · exact absurd h.symm h2
        · exact h
      have := ih hu'
      by_cases h1 : x ∈ p
      · simp [h1]; exact this
      · simp [h1, h2]; exact this

theorem addUsed_missing (U us p : List Name) (ch : Bool) (hU : ∀ u ∈ us, u ∈ U) :
    missing U (addUsed us p ch).1 ≤ missing U p ∧
    ((addUsed us p ch).2 = true → ch = true ∨ missing U (addUsed us p ch).1 < missing U p) := by
  induction us generalizing p ch with
  | nil => simp [addUsed]
  | cons u us ih =>
    have hU' : ∀ x ∈ us, x ∈ U := fun x hx => hU x (List.mem_cons_of_mem _ hx)
    unfold addUsed
    split
    · exact ih _ _ hU'
    · rename_i hu
      have h1 := ih (u :: p) true hU'
      have h2 := missing_cons_lt (hU u (List.mem_cons_self ..)) hu
      exact ⟨by omega, fun _ => Or.inr (by omega)⟩

theorem backSweep_missing (U : List Name) (l : List Stmt) (p : List Name) (ch : Bool)
    (hU : ∀ s ∈ l, ∀ u ∈ s.uses, u ∈ U) :
    missing U (backSweep l p ch).1 ≤ missing U p ∧
    ((backSweep l p ch).2 = true → ch = true ∨ missing U (backSweep l p ch).1 < missing U p) := by
  induction l generalizing p ch with
  | nil => simp [backSweep]
  | cons s l ih =>
    have hU' : ∀ x ∈ l, ∀ u ∈ x.uses, u ∈ U := fun x hx => hU x (List.mem_cons_of_mem _ hx)
    unfold backSweep
    split
    · split
      · have h1 := addUsed_missing U s.uses p ch (hU s (List.mem_cons_self ..))
        have h2 := ih (addUsed s.uses p ch).1 (addUsed s.uses p ch).2 hU'
        refine ⟨by omega, fun h => ?_⟩
        rcases h2.2 h with h3 | h3
        · rcases h1.2 h3 with h4 | h4
          · exact Or.inl h4
          · exact Or.inr (by omega)
        · exact Or.inr (by omega)
      · exact ih _ _ hU'
    · exact ih _ _ hU'

theorem backLoop_total (U : List Name) (l : List Stmt) (hU : ∀ s ∈ l, ∀ u ∈ s.uses, u ∈ U) :
    ∀ fuel p, missing U p < fuel → ∃ p', backLoop l fuel p = some p' := by
  intro fuel
  induction fuel with
  | zero => intro p h; omega
  | succ fuel ih =>
    intro p h
    unfold backLoop
    have hm := backSweep_missing U l p false hU
    cases hc : (backSweep l p false).2 with
    | true =>
      simp only [if_true]
      rcases hm.2 hc with h1 | h1
      · cases h1
      · exact ih _ (by omega)
    | false => exact ⟨(backSweep l p false).1, by simp⟩

theorem protectedVars_total (l : List Stmt) : ∃ p, protectedVars l = some p := by
  unfold protectedVars
  simp only
  split
  · exact ⟨_, rfl⟩
  · apply backLoop_total (l.flatMap (·.uses)) l
    · intro s hs u hu
      exact List.mem_flatMap.2 ⟨s, hs, hu⟩
    · have := missing_le_length (l.flatMap (·.uses)) (directAsserted l)
      omega

theorem protectedVars_spec {l : List Stmt} {p : List Name} (h : protectedVars l = some p) :
    BackClosed l p ∧ ∀ v ∈ directAsserted l, v ∈ p := by
  unfold protectedVars at h
  simp only at h
  split at h
  · rename_i he
    cases h
    have : directAsserted l = [] := by simpa using he
    rw [this]
    exact ⟨fun s _ v _ hv => absurd hv (List.not_mem_nil), fun v hv => hv⟩
  · exact backLoop_spec l _ _ _ h


/-! ### `remove_statement_with_forward_dependencies` rooted at an unprotected statement -/

theorem maskFilter_split (l : List Stmt) (i : Nat) (root : Stmt) (m' : List Bool) (h : l[i]? = some root) :
    maskFilter l (List.replicate i false ++ true :: m') = l.take i ++ maskFilter (l.drop (i + 1)) m' := by
  induction i generalizing l with
  | zero =>
    cases l with
    | nil => simp at h
    | cons x rest => simp [maskFilter]
  | succ i ih =>
    cases l with
    | nil => simp at h
    | cons x rest =>
      have h' : rest[i]? = some root := by simpa using h
      simp only [List.replicate_succ, List.cons_append, maskFilter, Bool.false_eq_true, if_false,
        List.take_succ_cons, List.drop_succ_cons]
      rw [ih rest h']

theorem removeFwd_shape {tc : TC} {i : Nat} {r : TC × List Nat} (h : tc.removeFwd i = some r) :
    ∃ root T m', tc.stmts[i]? = some root ∧
      closureLoop false (tc.stmts.length - (i + 1) + 1) (taintAdd [] root.bound) (tc.stmts.drop (i + 1)) []
        = some (T, m') ∧
      r.1 = tc.withStmts (tc.stmts.take i ++ maskFilter (tc.stmts.drop (i + 1)) m') := by
  unfold TC.removeFwd closureMask at h
  cases hroot : tc.stmts[i]? with
  | none => simp [hroot] at h
  | some root =>
    simp only [hroot, List.length_drop] at h
    cases hl : closureLoop false (tc.stmts.length - (i + 1) + 1) (taintAdd [] root.bound)
        (tc.stmts.drop (i + 1)) [] with
    | none => simp [hl] at h
    | some q =>
      simp only [hl, Option.some.injEq] at h
      refine ⟨root, q.1, q.2, rfl, by rw [hl], ?_⟩
      rw [← h, maskFilter_split _ _ _ _ hroot]

theorem removeFwd_total (tc : TC) (i : Nat) (hi : i < tc.size) : ∃ r, tc.removeFwd i = some r := by
  obtain ⟨m, hm, _⟩ := closureMask_spec false tc.stmts i hi
  exact ⟨(tc.withStmts (maskFilter tc.stmts m), maskIdxs m), by simp [TC.removeFwd, hm]⟩

theorem removeFwd_sublist {tc : TC} {i : Nat} {r : TC × List Nat} (h : tc.removeFwd i = some r) :
    r.1.stmts.Sublist tc.stmts ∧ r.1.counter = tc.counter := by
  unfold TC.removeFwd at h
  cases hm : closureMask false tc.stmts i with
  | none => simp [hm] at h
  | some m =>
    simp only [hm, Option.some.injEq] at h
    subst h
    exact ⟨maskFilter_sublist _ _, rfl⟩

theorem removeFwd_size_lt {tc : TC} {i : Nat} {r : TC × List Nat} (h : tc.removeFwd i = some r) :
    r.1.size < tc.size := by
  obtain ⟨root, T, m', hroot, _, hr⟩ := removeFwd_shape h
  have hi : i < tc.stmts.length := by
    rcases Nat.lt_or_ge i tc.stmts.length with h1 | h1
    · exact h1
    · rw [List.getElem?_eq_none h1] at hroot; cases hroot
  have hsub := (maskFilter_sublist (tc.stmts.drop (i + 1)) m').length_le
  rw [hr]
  simp only [TC.size, TC.withStmts, List.length_append, List.length_take, List.length_drop] at hsub ⊢
  omega

theorem closurePass_noProt (p : List Name) (strict : Bool) (t : List Name) (l : List Stmt) (m : List Bool)
    (hcl : BackClosed l p) (ht : ∀ v ∈ t, v ∉ p) : ∀ v ∈ (closurePass strict t l m).1, v ∉ p := by
  induction l generalizing t m with
  | nil => simpa [closurePass] using ht
  | cons s l ih =>
    have hcl' : BackClosed l p := fun x hx => hcl x (List.mem_cons_of_mem _ hx)
    unfold closurePass
    split
    · exact ih _ _ hcl' ht
    · split
      · rename_i hu
        refine ih _ _ hcl' ?_
        intro v hv
        rcases mem_taintAdd.1 hv with hv | hv
        · exact ht v hv
        · intro hvp
          simp only [usesAny, List.any_eq_true, decide_eq_true_eq] at hu
          obtain ⟨u, hu1, hu2⟩ := hu
          exact ht u hu2 (hcl s (List.mem_cons_self ..) v hv hvp u hu1)
      · exact ih _ _ hcl' ht

theorem closureLoop_noProt (p : List Name) (strict : Bool) (l : List Stmt) (hcl : BackClosed l p) :
    ∀ fuel t m r, closureLoop strict fuel t l m = some r → (∀ v ∈ t, v ∉ p) → ∀ v ∈ r.1, v ∉ p := by
  intro fuel
  induction fuel with
  | zero => intro t m r h; simp [closureLoop] at h
  | succ fuel ih =>
    intro t m r h ht
    unfold closureLoop at h
    have hp := closurePass_noProt p strict t l m hcl ht
    cases hc : (closurePass strict t l m).2.2 with
    | true => simp only [hc, if_true] at h; exact ih _ _ _ h hp
    | false => simp only [hc, Bool.false_eq_true, if_false, Option.some.injEq] at h; subst h; exact hp

theorem mem_maskFilter_of_remOK {T : List Name} {l : List Stmt} {m : List Bool} (hr : remOK T l m)
    {s : Stmt} (hs : s ∈ l) {v : Name} (hb : s.bound = some v) (hv : v ∉ T) : s ∈ maskFilter l m := by
  induction l generalizing m with
  | nil => cases hs
  | cons x l ih =>
    rw [maskFilter_cons]
    obtain ⟨h1, h2⟩ := hr
    rcases List.mem_cons.1 hs with rfl | hs
    · cases hm : m.headD false with
      | true => exact absurd (h1 hm v hb) hv
      | false => simp
    · have := ih h2 hs
      split
      · exact this
      · exact List.mem_cons_of_mem _ this

/-- Removing an unprotected statement with its forward dependencies removes no protected statement. -/
theorem removeFwd_keeps_protected {tc : TC} {i : Nat} {r : TC × List Nat} {p : List Name} {root : Stmt}
    (h : tc.removeFwd i = some r) (hroot : tc.stmts[i]? = some root) (hnp : isProt root p = false)
    (hcl : BackClosed tc.stmts p) : ∀ s ∈ tc.stmts, isProt s p = true → s ∈ r.1.stmts := by
  obtain ⟨root', T, m', hroot', hloop, hr⟩ := removeFwd_shape h
  rw [hroot] at hroot'
  cases hroot'
  have hi : i < tc.stmts.length := by
    rcases Nat.lt_or_ge i tc.stmts.length with h1 | h1
    · exact h1
    · rw [List.getElem?_eq_none h1] at hroot; cases hroot
  have hsplit : tc.stmts = tc.stmts.take i ++ root :: tc.stmts.drop (i + 1) := by
    have : tc.stmts[i] = root := by
      rw [List.getElem?_eq_getElem hi] at hroot; exact Option.some.inj hroot
    rw [← this, ← List.drop_eq_getElem_cons hi, List.take_append_drop]
  have hclS : BackClosed (tc.stmts.drop (i + 1)) p := fun x hx => hcl x (List.mem_of_mem_drop hx)
  have ht0 : ∀ v ∈ taintAdd [] root.bound, v ∉ p := by
    intro v hv hvp
    rcases mem_taintAdd.1 hv with hv | hv
    · cases hv
    · simp [isProt, hv, hvp] at hnp
  have hT := closureLoop_noProt p false _ hclS _ _ _ _ hloop ht0
  obtain ⟨T', m'', hl', hrem, _, _⟩ := closureLoop_spec false ((tc.stmts.drop (i + 1)).length + 1)
    (taintAdd [] root.bound) (tc.stmts.drop (i + 1)) [] (by rw [cf_nil_mask]; omega) (remOK_nil_mask _ _)
  rw [List.length_drop, hloop] at hl'
  cases hl'
  intro s hs hsp
  rw [hr]
  simp only [TC.withStmts]
  rw [hsplit] at hs
  rcases List.mem_append.1 hs with hs | hs
  · exact List.mem_append.2 (Or.inl hs)
  · rcases List.mem_cons.1 hs with rfl | hs
    · rw [hnp] at hsp; cases hsp
    · refine List.mem_append.2 (Or.inr ?_)
      cases hb : s.bound with
      | none => simp [isProt, hb] at hsp
      | some v =>
        have hvp : v ∈ p := by simpa [isProt, hb] using hsp
        exact mem_maskFilter_of_remOK hrem hs hb (fun hvT => hT v hvT hvp)


/-! ### the combined visitor -/

theorem stepOK_keep (acc : TC → Bool) (l0 : List Stmt) (p : List Name) (hcl : BackClosed l0 p) :
    StepOK acc p (fun t => t.stmts.Sublist l0 ∧ ∀ s ∈ l0, isProt s p = true → s ∈ t.stmts) := by
  intro tc i s r hp hs hnp hrm _
  have hsub := (removeFwd_sublist hrm).1
  refine ⟨hsub.trans hp.1, fun st hst hpr => ?_⟩
  have hcl' : BackClosed tc.stmts p := fun x hx => hcl x (hp.1.subset hx)
  exact removeFwd_keeps_protected hrm hs hnp hcl' st (hp.2 st hst hpr) hpr

theorem unzipP_append_cons (done : List PTC) (t : TC) (p : List Name) (todo : List PTC) :
    unzipP (done ++ (t, p) :: todo) = unzipP done ++ t :: unzipP todo := by
  simp [unzipP]

theorem combFor_inv {V : Type} [DecidableEq V] (cov : Suite → V) (orig : V) (Q : List PTC → Prop)
    (hstep : ∀ (done : List PTC) (x : PTC) (todo : List PTC), StepOK (fun cl => decide (cov (unzipP done ++ cl :: unzipP todo) = orig)) x.2
      (fun t => Q (done ++ (t, x.2) :: todo))) :
    ∀ todo done rem ch r, Q (done ++ todo) → combFor cov orig done todo rem ch = some r → Q r.1 := by
  intro todo
  induction todo with
  | nil => intro done rem ch r hq hr; simp [combFor] at hr; subst hr; simpa using hq
  | cons x todo ih =>
    intro done rem ch r hq hr
    unfold combFor at hr
    cases hsc : scanFwd (fun cl => decide (cov (unzipP done ++ cl :: unzipP todo) = orig)) x.2 (x.1.size + 1)
        x.1 0 rem false with
    | none => simp [hsc] at hr
    | some q =>
      simp only [hsc] at hr
      have hq' := scanFwd_inv (hstep done x todo) _ _ _ _ _ _ (by simpa using hq) hsc
      exact ih _ _ _ _ (by simpa using hq') hr

theorem combOuter_inv {V : Type} [DecidableEq V] (cov : Suite → V) (orig : V) (Q : List PTC → Prop)
    (hstep : ∀ (done : List PTC) (x : PTC) (todo : List PTC), StepOK (fun cl => decide (cov (unzipP done ++ cl :: unzipP todo) = orig)) x.2
      (fun t => Q (done ++ (t, x.2) :: todo))) :
    ∀ fuel s rem r, Q s → combOuter cov orig fuel s rem = some r → Q r.1 := by
  intro fuel
  induction fuel with
  | zero => intro s rem r _ hr; simp [combOuter] at hr
  | succ fuel ih =>
    intro s rem r hq hr
    unfold combOuter at hr
    cases hc : combFor cov orig [] s rem false with
    | none => simp [hc] at hr
    | some q =>
      simp only [hc] at hr
      have hq' := combFor_inv cov orig Q hstep s [] _ _ _ (by simpa using hq) hc
      cases hch : q.2.2 with
      | true => simp only [hch, if_true] at hr; exact ih _ _ _ hq' hr
      | false => simp only [hch, Bool.false_eq_true, if_false, Option.some.injEq] at hr; subst hr; exact hq'

/-- pointwise relation between two lists of equal length -/
inductive All2 {α β : Type} (R : α → β → Prop) : List α → List β → Prop
  | nil : All2 R [] []
  | cons {a : α} {b : β} {l₁ : List α} {l₂ : List β} : R a b → All2 R l₁ l₂ → All2 R (a :: l₁) (b :: l₂)

theorem forall₂_append {α β : Type} {R : α → β → Prop} {a c : List α} {b d : List β}
    (h1 : All2 R a b) (h2 : All2 R c d) : All2 R (a ++ c) (b ++ d) := by
  induction h1 with
  | nil => simpa using h2
  | cons h _ ih => exact All2.cons h ih

/-- what the combined visitor keeps of one test case: `y` = the unminimized test case with its protected set -/
def KeepRel (x y : PTC) : Prop :=
  x.2 = y.2 ∧ BackClosed y.1.stmts y.2 ∧ x.1.stmts.Sublist y.1.stmts ∧
    ∀ st ∈ y.1.stmts, isProt st y.2 = true → st ∈ x.1.stmts

theorem combFor_keep {V : Type} [DecidableEq V] (cov : Suite → V) (orig : V) :
    ∀ todo t0 done d0 rem ch r, All2 KeepRel done d0 → All2 KeepRel todo t0 →
      combFor cov orig done todo rem ch = some r → All2 KeepRel r.1 (d0 ++ t0) := by
  intro todo
  induction todo with
  | nil =>
    intro t0 done d0 rem ch r h1 h2 hr
    cases h2
    simp [combFor] at hr
    subst hr
    simpa using h1
  | cons x todo ih =>
    intro t0 done d0 rem ch r h1 h2 hr
    cases h2 with
    | cons hxy hrest =>
      rename_i y t0'
      unfold combFor at hr
      cases hsc : scanFwd (fun cl => decide (cov (unzipP done ++ cl :: unzipP todo) = orig)) x.2 (x.1.size + 1)
          x.1 0 rem false with
      | none => simp [hsc] at hr
      | some q =>
        simp only [hsc] at hr
        obtain ⟨e, hcl, hsub, hkeep⟩ := hxy
        have hq := scanFwd_inv (stepOK_keep _ y.1.stmts x.2 (e ▸ hcl)) _ _ _ _ _ _
          ⟨hsub, fun st hst hp => hkeep st hst (e ▸ hp)⟩ hsc
        have hnew : KeepRel (q.1, x.2) y := ⟨e, hcl, hq.1, fun st hst hp => hq.2 st hst (e ▸ hp)⟩
        have := ih t0' (done ++ [(q.1, x.2)]) (d0 ++ [y]) _ _ _
          (forall₂_append h1 (All2.cons hnew All2.nil)) hrest hr
        simpa using this

theorem combOuter_keep {V : Type} [DecidableEq V] (cov : Suite → V) (orig : V) (ps0 : List PTC) :
    ∀ fuel s rem r, All2 KeepRel s ps0 → combOuter cov orig fuel s rem = some r →
      All2 KeepRel r.1 ps0 := by
  intro fuel
  induction fuel with
  | zero => intro s rem r _ hr; simp [combOuter] at hr
  | succ fuel ih =>
    intro s rem r hq hr
    unfold combOuter at hr
    cases hc : combFor cov orig [] s rem false with
    | none => simp [hc] at hr
    | some q =>
      simp only [hc] at hr
      have hq' := combFor_keep cov orig s ps0 [] [] _ _ _ All2.nil hq hc
      simp only [List.nil_append] at hq'
      cases hch : q.2.2 with
      | true => simp only [hch, if_true] at hr; exact ih _ _ _ hq' hr
      | false => simp only [hch, Bool.false_eq_true, if_false, Option.some.injEq] at hr; subst hr; exact hq'

theorem withProt_spec : ∀ (s : Suite) (ps : List PTC), withProt true s = some ps →
    unzipP ps = s ∧ All2 KeepRel ps ps ∧ ∀ y ∈ ps, protectedVars y.1.stmts = some y.2 := by
  intro s
  induction s with
  | nil => intro ps h; simp [withProt] at h; subst h; exact ⟨rfl, All2.nil, by simp⟩
  | cons t s ih =>
    intro ps h
    unfold withProt at h
    simp only [if_true] at h
    cases hp : protectedVars t.stmts with
    | none => simp [hp] at h
    | some p =>
      simp only [hp] at h
      cases hw : withProt true s with
      | none => simp [hw] at h
      | some r =>
        simp only [hw, Option.some.injEq] at h
        subst h
        obtain ⟨h1, h2, h3⟩ := ih r hw
        refine ⟨by simp [unzipP] at h1 ⊢; exact h1, All2.cons ?_ h2, ?_⟩
        · exact ⟨rfl, (protectedVars_spec hp).1, List.Sublist.refl _, fun st hst _ => hst⟩
        · intro y hy
          rcases List.mem_cons.1 hy with rfl | hy
          · exact hp
          · exact h3 y hy


theorem withProt_unzip (g : Bool) : ∀ (s : Suite) (ps : List PTC), withProt g s = some ps → unzipP ps = s := by
  intro s
  induction s with
  | nil => intro ps h; simp [withProt] at h; subst h; rfl
  | cons t s ih =>
    intro ps h
    unfold withProt at h
    cases hp : (if g = true then protectedVars t.stmts else some []) with
    | none => simp [hp] at h
    | some p =>
      simp only [hp] at h
      cases hw : withProt g s with
      | none => simp [hw] at h
      | some r =>
        simp only [hw, Option.some.injEq] at h
        subst h
        have := ih r hw
        simp [unzipP] at this ⊢
        exact this

theorem All2.map_imp {α β γ δ : Type} {R : α → β → Prop} {R' : γ → δ → Prop} (f : α → γ) (g : β → δ)
    {l1 : List α} {l2 : List β} (h : All2 R l1 l2) (himp : ∀ x y, y ∈ l2 → R x y → R' (f x) (g y)) :
    All2 R' (l1.map f) (l2.map g) := by
  induction h with
  | nil => exact All2.nil
  | cons hab _ ih =>
    refine All2.cons (himp _ _ (List.mem_cons_self ..) hab) (ih ?_)
    intro x y hy
    exact himp x y (List.mem_cons_of_mem _ hy)

theorem All2.exists_of_mem_right {α β : Type} {R : α → β → Prop} {l1 : List α} {l2 : List β} (h : All2 R l1 l2)
    {y : β} (hy : y ∈ l2) : ∃ x ∈ l1, R x y := by
  induction h with
  | nil => cases hy
  | cons hab _ ih =>
    rcases List.mem_cons.1 hy with rfl | hy
    · exact ⟨_, List.mem_cons_self .., hab⟩
    · obtain ⟨x, hx, hr⟩ := ih hy
      exact ⟨x, List.mem_cons_of_mem _ hx, hr⟩

theorem All2.refl_of {α : Type} {R : α → α → Prop} (l : List α) (h : ∀ x ∈ l, R x x) : All2 R l l := by
  induction l with
  | nil => exact All2.nil
  | cons a l ih => exact All2.cons (h a (List.mem_cons_self ..)) (ih fun x hx => h x (List.mem_cons_of_mem _ hx))

/-! ### "no new statement": subsequences up to the loss of a binder -/

/-- `a` is the statement `s`, possibly after `remove_unused_variables` took its binder away -/
def Unb (a s : Stmt) : Prop := a = s ∨ (a.bound = none ∧ a.uses = s.uses)

/-- `l'` is a subsequence of `l` up to `Unb` -/
inductive SubU : List Stmt → List Stmt → Prop
  | nil : SubU [] []
  | skip {l' l : List Stmt} (s : Stmt) : SubU l' l → SubU l' (s :: l)
  | keep {l' l : List Stmt} {a s : Stmt} : Unb a s → SubU l' l → SubU (a :: l') (s :: l)

/-- every test case of `s'` stems from a test case of `s` (in order), its statements from that test case's -/
inductive SuiteSub : Suite → Suite → Prop
  | nil : SuiteSub [] []
  | skip {s' s : Suite} (t : TC) : SuiteSub s' s → SuiteSub s' (t :: s)
  | keep {s' s : Suite} {t' t : TC} : SubU t'.stmts t.stmts → SuiteSub s' s → SuiteSub (t' :: s') (t :: s)

theorem SubU.of_all2 {l' l : List Stmt} (h : All2 Unb l' l) : SubU l' l := by
  induction h with
  | nil => exact SubU.nil
  | cons hab _ ih => exact SubU.keep hab ih

theorem SubU.refl (l : List Stmt) : SubU l l := by
  induction l with
  | nil => exact SubU.nil
  | cons a l ih => exact SubU.keep (Or.inl rfl) ih

theorem SubU.sublist_left {l'' l' l : List Stmt} (hs : l''.Sublist l') (h : SubU l' l) : SubU l'' l := by
  induction h generalizing l'' with
  | nil => cases hs; exact SubU.nil
  | skip s _ ih => exact SubU.skip s (ih hs)
  | keep hab _ ih =>
    cases hs with
    | cons _ hs' => exact SubU.skip _ (ih hs')
    | cons_cons _ hs' => exact SubU.keep hab (ih hs')

theorem SuiteSub.of_all2 {s' s : Suite} (h : All2 (fun t' t => SubU t'.stmts t.stmts) s' s) : SuiteSub s' s := by
  induction h with
  | nil => exact SuiteSub.nil
  | cons hab _ ih => exact SuiteSub.keep hab ih

theorem SuiteSub.refl (s : Suite) : SuiteSub s s := by
  induction s with
  | nil => exact SuiteSub.nil
  | cons a l ih => exact SuiteSub.keep (SubU.refl _) ih

theorem SuiteSub.sublist_left {s'' s' s : Suite} (hs : s''.Sublist s') (h : SuiteSub s' s) : SuiteSub s'' s := by
  induction h generalizing s'' with
  | nil => cases hs; exact SuiteSub.nil
  | skip t _ ih => exact SuiteSub.skip t (ih hs)
  | keep hab _ ih =>
    cases hs with
    | cons _ hs' => exact SuiteSub.skip _ (ih hs')
    | cons_cons _ hs' => exact SuiteSub.keep hab (ih hs')

theorem removeFirst_sublist (x : TC) (s : Suite) : (removeFirst x s).Sublist s := by
  induction s with
  | nil => exact List.Sublist.refl _
  | cons t l ih =>
    unfold removeFirst
    split
    · exact List.sublist_cons_self _ _
    · exact ih.cons_cons _

theorem suiteLoop_sublist {V : Type} [DecidableEq V] (cov : Suite → V) (orig : V) :
    ∀ fuel chrom tcs i rem r, suiteLoop cov orig fuel chrom tcs i rem = some r → r.1.Sublist chrom := by
  intro fuel
  induction fuel with
  | zero => intro chrom tcs i rem r h; simp [suiteLoop] at h
  | succ fuel ih =>
    intro chrom tcs i rem r h
    unfold suiteLoop at h
    cases ht : tcs[i]? with
    | none => simp only [ht, Option.some.injEq] at h; subst h; exact List.Sublist.refl _
    | some t =>
      simp only [ht] at h
      split at h
      · simp only [Option.some.injEq] at h; subst h; exact List.Sublist.refl _
      · cases hx : chrom[i]? with
        | none => simp [hx] at h
        | some x =>
          simp only [hx] at h
          split at h
          · exact (ih _ _ _ _ _ h).trans (removeFirst_sublist _ _)
          · exact ih _ _ _ _ _ h

theorem suiteMin_sublist {V : Type} [DecidableEq V] (cov : Suite → V) (s : Suite) (r : Suite × Nat)
    (h : suiteMin cov s = some r) : r.1.Sublist s := by
  unfold suiteMin at h
  split at h
  · simp only [Option.some.injEq] at h; subst h; exact List.Sublist.refl _
  · exact suiteLoop_sublist cov _ _ _ _ _ _ _ h

theorem truncate_prefix : ∀ (chops : List (Option Int)) (s : Suite),
    All2 (fun t' t => t'.stmts.Sublist t.stmts) (truncate chops s) s := by
  intro chops s
  induction s generalizing chops with
  | nil => cases chops <;> exact All2.nil
  | cons t s ih =>
    cases chops with
    | nil => exact All2.refl_of _ (fun x _ => List.Sublist.refl _)
    | cons c cs =>
      unfold truncate
      refine All2.cons ?_ (ih cs)
      cases c with
      | none => exact List.Sublist.refl _
      | some p =>
        simp only [chop_stmts]
        split
        · exact List.nil_sublist _
        · exact List.take_sublist _ _


/-! ### the loops never run out of fuel and never raise `IndexError` -/

theorem scanFwd_total (acc : TC → Bool) (prot : List Name) :
    ∀ fuel tc i rem ch, tc.size - i < fuel →
      ∃ r, scanFwd acc prot fuel tc i rem ch = some r ∧ r.1.size ≤ tc.size ∧
        (r.2.2 = true → ch = true ∨ r.1.size < tc.size) := by
  intro fuel
  induction fuel with
  | zero => intro tc i rem ch h; omega
  | succ fuel ih =>
    intro tc i rem ch h
    unfold scanFwd
    cases hs : tc.stmts[i]? with
    | none => exact ⟨_, rfl, Nat.le_refl _, fun hc => Or.inl hc⟩
    | some s =>
      have hi : i < tc.size := by
        rcases Nat.lt_or_ge i tc.stmts.length with h1 | h1
        · exact h1
        · rw [List.getElem?_eq_none h1] at hs; cases hs
      simp only
      cases hprot : isProt s prot with
      | true => simp only [if_true]; exact ih _ _ _ _ (by omega)
      | false =>
        simp only [Bool.false_eq_true, if_false, clone_removeFwd]
        obtain ⟨q, hq⟩ := removeFwd_total tc i hi
        have hlt := removeFwd_size_lt hq
        simp only [hq]
        cases ha : acc q.1 with
        | true =>
          simp only [if_true]
          obtain ⟨r, h1, h2, _⟩ := ih q.1 i (rem + q.2.length) true (by omega)
          exact ⟨r, h1, by omega, fun _ => Or.inr (by omega)⟩
        | false =>
          simp only [Bool.false_eq_true, if_false]
          exact ih _ _ _ _ (by omega)

theorem fwdOuter_total (acc : TC → Bool) (prot : List Name) :
    ∀ fuel tc rem, tc.size < fuel → ∃ r, fwdOuter acc prot fuel tc rem = some r := by
  intro fuel
  induction fuel with
  | zero => intro tc rem h; omega
  | succ fuel ih =>
    intro tc rem h
    unfold fwdOuter
    obtain ⟨q, h1, h2, h3⟩ := scanFwd_total acc prot (tc.size + 1) tc 0 rem false (by omega)
    simp only [h1]
    cases hch : q.2.2 with
    | true =>
      simp only [if_true]
      rcases h3 hch with h4 | h4
      · cases h4
      · exact ih _ _ (by omega)
    | false => exact ⟨(q.1, q.2.1), by simp⟩

theorem scanBwd_total (acc : TC → Bool) (prot : List Name) (tc : TC) :
    ∀ j, j ≤ tc.size → ∃ o, scanBwd acc prot tc j = some o ∧ ∀ q, o = some q → q.1.size < tc.size := by
  intro j
  induction j with
  | zero => intro _; exact ⟨none, rfl, fun q h => by cases h⟩
  | succ j ih =>
    intro hj
    unfold scanBwd
    have hi : j < tc.stmts.length := hj
    rw [List.getElem?_eq_getElem hi]
    simp only
    cases hprot : isProt tc.stmts[j] prot with
    | true => simp only [if_true]; exact ih (by omega)
    | false =>
      simp only [Bool.false_eq_true, if_false, clone_removeFwd]
      obtain ⟨q, hq⟩ := removeFwd_total tc j hi
      have hlt := removeFwd_size_lt hq
      simp only [hq]
      cases ha : acc q.1 with
      | true =>
        simp only [if_true]
        exact ⟨_, rfl, fun q' h => by cases h; exact hlt⟩
      | false => simp only [Bool.false_eq_true, if_false]; exact ih (by omega)

theorem bwdOuter_total (acc : TC → Bool) (prot : List Name) :
    ∀ fuel tc rem, tc.size < fuel → ∃ r, bwdOuter acc prot fuel tc rem = some r := by
  intro fuel
  induction fuel with
  | zero => intro tc rem h; omega
  | succ fuel ih =>
    intro tc rem h
    unfold bwdOuter
    by_cases hsz : tc.size > 0
    · simp only [hsz, if_true]
      obtain ⟨o, h1, h2⟩ := scanBwd_total acc prot tc tc.size (Nat.le_refl _)
      simp only [h1]
      cases o with
      | none => exact ⟨_, rfl⟩
      | some q =>
        have := h2 q rfl
        exact ih _ _ (by omega)
    · simp only [hsz, if_false]; exact ⟨_, rfl⟩

theorem iterMin_total {V : Type} [DecidableEq V] (cov : Suite → V) (forward : Bool) (tc : TC) :
    ∃ r, iterMin cov forward tc = some r := by
  obtain ⟨p, hp⟩ := protectedVars_total tc.stmts
  unfold iterMin
  cases forward with
  | true => simp only [if_true, forwardMin, hp]; exact fwdOuter_total _ _ _ _ _ (by omega)
  | false => simp only [Bool.false_eq_true, if_false, backwardMin, hp]; exact bwdOuter_total _ _ _ _ _ (by omega)

theorem casePhase_total {V : Type} [DecidableEq V] (cov : Suite → V) (ru : TC → TC) (forward : Bool) (s : Suite) :
    ∃ r, casePhase cov ru forward s = some r := by
  induction s with
  | nil => exact ⟨_, rfl⟩
  | cons t s ih =>
    unfold casePhase
    obtain ⟨q, hq⟩ := iterMin_total cov forward (ru t)
    obtain ⟨r, hr⟩ := ih
    simp only [hq, hr]
    exact ⟨_, rfl⟩

end PynguinModel.Minimize
