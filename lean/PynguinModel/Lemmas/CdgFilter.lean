import PynguinModel.Lemmas.CdgDeps
import PynguinModel.Model.CdgFilter
/-!
Lemmas for the repaired `filter_dead_code_nodes` (`Model/CdgFilter.lean`): the layered breadth-first
closure `reach` computes exactly `Reach`; the predecessor-less-node loop never removes a node the
entry reaches (`Keeps`), so the reachability pass over the remaining graph sees the same reachable set
as the original graph.
-/
namespace PynguinModel.Cdg

/-! ### `reach` = `Reach` -/

theorem mem_frontier {E : List Edge} {S : List Node} {y : Node} :
    y ∈ frontier E S ↔ ∃ e ∈ E, e.src ∈ S ∧ e.dst ∉ S ∧ e.dst = y := by
  unfold frontier
  simp only [List.mem_map, List.mem_filter, Bool.and_eq_true, Bool.not_eq_true', List.contains_eq_mem,
    decide_eq_true_eq, decide_eq_false_iff_not]
  constructor
  · rintro ⟨e, ⟨he, hs, hd⟩, rfl⟩; exact ⟨e, he, hs, hd, rfl⟩
  · rintro ⟨e, he, hs, hd, rfl⟩; exact ⟨e, ⟨he, hs, hd⟩, rfl⟩

theorem reachLoop_sound (E : List Edge) (entry : Node) :
    ∀ (fuel : Nat) (S : List Node), (∀ s ∈ S, Reach E entry s) →
      ∀ n ∈ reachLoop E fuel S, Reach E entry n
  | 0, S, hS, n, hn => hS n hn
  | fuel + 1, S, hS, n, hn => by
    unfold reachLoop at hn
    split at hn
    · exact hS n hn
    · rename_i y ys hf
      refine reachLoop_sound E entry fuel _ ?_ n hn
      intro s hs
      rcases List.mem_append.1 hs with h | h
      · exact hS s h
      · have hfs : s ∈ frontier E S := by rw [hf]; exact h
        obtain ⟨e, he, hsrc, _, rfl⟩ := mem_frontier.1 hfs
        exact Reach.step (l := e.lab) (hS _ hsrc) he

/-- Edges whose target is not yet in `S`: every non-final layer shrinks this number. -/
def outside (E : List Edge) (S : List Node) : Nat := E.countP (fun e => !S.contains e.dst)

theorem reachLoop_closed (E : List Edge) :
    ∀ (fuel : Nat) (S : List Node), outside E S ≤ fuel →
      (∀ s ∈ S, s ∈ reachLoop E fuel S) ∧
      (∀ e ∈ E, e.src ∈ reachLoop E fuel S → e.dst ∈ reachLoop E fuel S)
  | 0, S, h => by
    refine ⟨fun s hs => hs, fun e he _ => ?_⟩
    have h0 : outside E S = 0 := by omega
    have := List.countP_eq_zero.1 h0 e he
    simpa [reachLoop] using this
  | fuel + 1, S, h => by
    unfold reachLoop
    split
    · rename_i hf
      refine ⟨fun s hs => hs, fun e he hsrc => ?_⟩
      by_cases hd : e.dst ∈ S
      · exact hd
      · have hfs : e.dst ∈ frontier E S := mem_frontier.2 ⟨e, he, hsrc, hd, rfl⟩
        rw [hf] at hfs; cases hfs
    · rename_i y ys hf
      have hy : y ∈ frontier E S := by rw [hf]; simp
      obtain ⟨e, he, _, hd, hey⟩ := mem_frontier.1 hy
      have hlt : outside E (S ++ y :: ys) < outside E S := by
        unfold outside
        apply countP_lt_of_witness (a := e) _ he
        · simpa using hd
        · simp [hey]
        · intro x _ hx
          simp only [Bool.not_eq_true', List.contains_eq_mem, decide_eq_false_iff_not, List.mem_append,
            not_or] at hx ⊢
          exact hx.1
      have ih := reachLoop_closed E fuel (S ++ y :: ys) (by omega)
      exact ⟨fun s hs => ih.1 s (List.mem_append_left _ hs), ih.2⟩

/-- **`reach` is exact**: the layered closure lists exactly the nodes reachable from `entry`. -/
theorem mem_reach_iff (E : List Edge) (entry n : Node) : n ∈ reach E entry ↔ Reach E entry n := by
  unfold reach
  constructor
  · refine reachLoop_sound E entry _ _ ?_ n
    intro s hs
    have : s = entry := by simpa using hs
    subst this; exact Reach.refl
  · intro h
    have hc := reachLoop_closed E E.length [entry] List.countP_le_length
    induction h with
    | refl => exact hc.1 entry (by simp)
    | step _ he ih => exact hc.2 _ he ih

/-! ### The predecessor-less-node loop keeps everything the entry reaches -/

theorem filterDead_mem_of_mem (E : List Edge) (entry : Node) :
    ∀ (fuel : Nat) (nodes : List Node) (n : Node), n ∈ filterDead E entry fuel nodes → n ∈ nodes
  | 0, _, _, h => h
  | fuel + 1, nodes, n, h => by
    unfold filterDead at h
    simp only at h
    split at h
    · exact h
    · exact (List.mem_filter.1 (filterDead_mem_of_mem E entry fuel _ n h)).1

theorem mem_induced {E : List Edge} {nodes : List Node} {e : Edge} :
    e ∈ induced E nodes ↔ e ∈ E ∧ e.src ∈ nodes ∧ e.dst ∈ nodes := by
  simp [induced]

theorem reach_mono {E E' : List Edge} {entry n : Node} (h : ∀ e ∈ E, e ∈ E')
    (r : Reach E entry n) : Reach E' entry n := by
  induction r with
  | refl => exact Reach.refl
  | step _ he ih => exact Reach.step ih (h _ he)

theorem hasPred_iff {E : List Edge} {N : List Node} {n : Node} :
    hasPred E N n = true ↔ ∃ e ∈ E, e.dst = n ∧ e.src ∈ N := by
  simp [hasPred]

/-- `N` still holds every node reachable from the entry in the graph `(nodes, E)`. -/
def Keeps (E : List Edge) (nodes : List Node) (entry : Node) (N : List Node) : Prop :=
  ∀ n, Reach (induced E nodes) entry n → n ∈ N

theorem keeps_deadSweep {E : List Edge} {nodes N : List Node} {entry : Node}
    (h : Keeps E nodes entry N) : Keeps E nodes entry (deadSweep E entry N) := by
  intro n hr
  unfold deadSweep
  rw [List.mem_filter]
  refine ⟨h n hr, ?_⟩
  cases hr with
  | refl => simp
  | step hp he =>
    simp only [Bool.or_eq_true]
    right
    exact hasPred_iff.2 ⟨_, (mem_induced.1 he).1, rfl, h _ hp⟩

theorem keeps_filterDead {E : List Edge} {nodes : List Node} {entry : Node} :
    ∀ (fuel : Nat) (N : List Node), Keeps E nodes entry N → Keeps E nodes entry (filterDead E entry fuel N)
  | 0, _, h => h
  | fuel + 1, N, h => by
    unfold filterDead
    simp only
    split
    · exact h
    · exact keeps_filterDead fuel _ (keeps_deadSweep h)

theorem keeps_self {E : List Edge} {nodes : List Node} {entry : Node} (hentry : entry ∈ nodes) :
    Keeps E nodes entry nodes := by
  intro n hr
  cases hr with
  | refl => exact hentry
  | step _ he => exact (mem_induced.1 he).2.2

/-! ### The repaired function -/

theorem filterDeadFull_eq_none_iff (E : List Edge) (entry : Node) (nodes : List Node) :
    filterDeadFull E entry nodes = none ↔ entry ∉ nodes := by
  unfold filterDeadFull
  simp only
  split
  · rename_i hc
    have hl : entry ∈ filterDead E entry nodes.length nodes := by simpa using hc
    simp only [reduceCtorEq, false_iff, not_not]
    exact filterDead_mem_of_mem E entry _ _ _ hl
  · rename_i hc
    simp only [true_iff]
    intro hentry
    exact hc (by simpa using keeps_filterDead (E := E) nodes.length nodes (keeps_self hentry) entry Reach.refl)

theorem mem_filterDeadFull_iff {E : List Edge} {entry : Node} {nodes r : List Node}
    (h : filterDeadFull E entry nodes = some r) (n : Node) :
    n ∈ r ↔ Reach (induced E nodes) entry n := by
  unfold filterDeadFull at h
  simp only at h
  split at h
  · rename_i hc
    have hl : entry ∈ filterDead E entry nodes.length nodes := by simpa using hc
    have hentry : entry ∈ nodes := filterDead_mem_of_mem E entry _ _ _ hl
    have hk := keeps_filterDead (E := E) nodes.length nodes (keeps_self hentry)
    have key : ∀ m, Reach (induced E nodes) entry m →
        Reach (induced E (filterDead E entry nodes.length nodes)) entry m := by
      intro m hr
      induction hr with
      | refl => exact Reach.refl
      | step hp he ih =>
        exact Reach.step ih (mem_induced.2 ⟨(mem_induced.1 he).1, hk _ hp, hk _ (Reach.step hp he)⟩)
    injection h with h
    subst h
    rw [List.mem_filter]
    simp only [List.contains_eq_mem, decide_eq_true_eq]
    rw [mem_reach_iff]
    constructor
    · rintro ⟨_, hr⟩
      refine reach_mono (fun e he => ?_) hr
      have := mem_induced.1 he
      exact mem_induced.2 ⟨this.1, filterDead_mem_of_mem E entry _ _ _ this.2.1,
        filterDead_mem_of_mem E entry _ _ _ this.2.2⟩
    · intro hr
      exact ⟨hk n hr, key n hr⟩
  · cases h

theorem reach_mem_nodes {E : List Edge} {entry : Node} {nodes : List Node} (hentry : entry ∈ nodes)
    {n : Node} (h : Reach (induced E nodes) entry n) : n ∈ nodes := keeps_self hentry n h

theorem induced_eq_self {E : List Edge} {nodes : List Node}
    (h : ∀ e ∈ E, e.src ∈ nodes ∧ e.dst ∈ nodes) : induced E nodes = E := by
  unfold induced
  apply List.filter_eq_self.2
  intro e he
  simpa using h e he

end PynguinModel.Cdg
