import PynguinModel.Model.ExportImports
/-! Helper lemmas for C18 (name lookup, module execution, liveness pass, function assembly). -/
namespace PynguinModel.ExportImports

/-! ### Name lookup -/

/-- No name is bound to two different objects (no import shadows another one). -/
def Consistent (env : List Binding) : Prop :=
  ∀ b1 ∈ env, ∀ b2 ∈ env, b1.1 = b2.1 → b1.2 = b2.2

theorem Consistent.prefix {a b : List Binding} (h : Consistent (a ++ b)) : Consistent a :=
  fun b1 h1 b2 h2 e => h b1 (List.mem_append_left _ h1) b2 (List.mem_append_left _ h2) e

theorem lookup_of_mem {env : List Binding} (hc : Consistent env) {n : String} {o : Obj}
    (h : (n, o) ∈ env) : lookup env n = some o := by
  unfold lookup
  cases hf : env.reverse.find? (fun b => b.1 == n) with
  | none =>
    have := List.find?_eq_none.1 hf (n, o) (List.mem_reverse.2 h)
    simp at this
  | some b =>
    have hb := List.mem_reverse.1 (List.mem_of_find?_eq_some hf)
    have hp := List.find?_some hf
    simp at hp
    simp [hc b hb (n, o) h hp]

theorem lookup_none {env : List Binding} {n : String} (h : ∀ b ∈ env, b.1 ≠ n) :
    lookup env n = none := by
  unfold lookup
  have : env.reverse.find? (fun b => b.1 == n) = none := by
    apply List.find?_eq_none.2
    intro b hb
    simpa using h b (List.mem_reverse.1 hb)
  simp [this]

theorem refOk_of_mem {env : List Binding} (hc : Consistent env) {r : Ref} (h : r ∈ env) :
    refOk env r = true := by
  obtain ⟨n, o⟩ := r
  simp [refOk, lookup_of_mem hc h]

theorem refOk_builtin {env : List Binding} {n : String} (h : ∀ b ∈ env, b.1 ≠ n) :
    refOk env (n, .builtin n) = true := by
  simp [refOk, lookup_none h]

/-! ### Module execution -/

/-- Every name a module-level statement needs is bound by an earlier module-level statement. -/
def NeedsBefore : List Top → List Binding → Prop
  | [], _ => True
  | t :: ts, env => (∀ r ∈ t.needs, r ∈ env) ∧ NeedsBefore ts (env ++ t.binds)

theorem needsBefore_append (a b : List Top) (env : List Binding) :
    NeedsBefore (a ++ b) env ↔ NeedsBefore a env ∧ NeedsBefore b (env ++ a.flatMap (·.binds)) := by
  induction a generalizing env with
  | nil => simp [NeedsBefore]
  | cons t ts ih => simp [NeedsBefore, ih, and_assoc, List.append_assoc]

theorem needsBefore_of_all (ts : List Top) (env : List Binding)
    (h : ∀ t ∈ ts, ∀ r ∈ t.needs, r ∈ env) : NeedsBefore ts env := by
  induction ts generalizing env with
  | nil => trivial
  | cons t ts ih =>
    refine ⟨h t (by simp), ih _ ?_⟩
    intro t' ht' r hr
    exact List.mem_append_left _ (h t' (by simp [ht']) r hr)

theorem runTops_ok (ts : List Top) (env : List Binding)
    (hc : Consistent (env ++ ts.flatMap (·.binds))) (hi : ∀ t ∈ ts, t.importOk = true)
    (hn : NeedsBefore ts env) : runTops ts env = some (env ++ ts.flatMap (·.binds)) := by
  induction ts generalizing env with
  | nil => simp [runTops]
  | cons t ts ih =>
    obtain ⟨hn1, hn2⟩ := hn
    have hce : Consistent env := Consistent.prefix hc
    have h1 : t.needs.all (refOk env) = true :=
      List.all_eq_true.2 fun r hr => refOk_of_mem hce (hn1 r hr)
    simp only [runTops, hi t (by simp), h1, Bool.and_self, if_true]
    rw [ih (env ++ t.binds) (by simpa [List.append_assoc] using hc)
      (fun t' ht' => hi t' (by simp [ht'])) hn2]
    simp [List.append_assoc]

/-! ### `remove_unused_variables` -/

/-- What the exporter may assume about one statement: `used_variables()` over-approximates the local
reads.  (The variables read by its assertions need no assumption: the pass itself keeps them alive.) -/
def StmtScoped (s : Stmt) : Prop := ∀ v ∈ s.reads, v ∈ s.uses

theorem removeUnusedAux_cons (s : Stmt) (ss : List Stmt) :
    removeUnusedAux (s :: ss) = ruStep s (removeUnusedAux ss) := rfl

theorem assertRoots_dropBinding (s : Stmt) : assertRoots (dropBinding s) = assertRoots s := by
  unfold dropBinding; split <;> rfl

theorem ru_inv (ss : List Stmt) (h : ∀ s ∈ ss, StmtScoped s) :
    (∀ v ∈ freeReads (removeUnusedAux ss).1, v ∈ (removeUnusedAux ss).2) ∧
    (∀ v ∈ freeReads (removeUnusedAux ss).1, v ∈ freeReads ss) := by
  induction ss with
  | nil => simp [removeUnusedAux, freeReads]
  | cons s ss ih =>
    obtain ⟨ih1, ih2⟩ := ih (fun s' hs' => h s' (by simp [hs']))
    have hs1 := h s (by simp)
    rw [removeUnusedAux_cons]
    generalize removeUnusedAux ss = acc at ih1 ih2
    obtain ⟨out, alive⟩ := acc
    simp only at ih1 ih2
    unfold ruStep
    cases hb : s.bound with
    | none =>
      simp only [freeReads, hb]
      constructor
      · intro v hv
        simp only [List.mem_append, List.mem_filter] at hv ⊢
        rcases hv with hv | ⟨hv | hv, _⟩
        · exact Or.inr (hs1 v hv)
        · exact Or.inl (Or.inr hv)
        · exact Or.inl (Or.inl (ih1 v hv))
      · intro v hv
        simp only [List.mem_append, List.mem_filter] at hv ⊢
        rcases hv with hv | ⟨hv | hv, hne⟩
        · exact Or.inl hv
        · exact Or.inr ⟨Or.inl hv, hne⟩
        · exact Or.inr ⟨Or.inr (ih2 v hv), hne⟩
    | some bv =>
      simp only
      by_cases hal : bv ∈ alive ++ assertRoots s
      · simp only [hal, if_true, freeReads, hb]
        constructor
        · intro v hv
          simp only [List.mem_append, List.mem_filter] at hv ⊢
          rcases hv with hv | ⟨hv | hv, hne⟩
          · exact Or.inr (hs1 v hv)
          · exact Or.inl ⟨Or.inr hv, by simpa using hne⟩
          · exact Or.inl ⟨Or.inl (ih1 v hv), by simpa using hne⟩
        · intro v hv
          simp only [List.mem_append, List.mem_filter] at hv ⊢
          rcases hv with hv | ⟨hv | hv, hne⟩
          · exact Or.inl hv
          · exact Or.inr ⟨Or.inl hv, hne⟩
          · exact Or.inr ⟨Or.inr (ih2 v hv), hne⟩
      · simp only [hal, if_false]
        have hnotin : ∀ v, (v ∈ assertRoots s ∨ v ∈ freeReads out) → v ≠ bv := by
          intro v hv e
          subst e
          apply hal
          simp only [List.mem_append]
          rcases hv with hv | hv
          · exact Or.inr hv
          · exact Or.inl (ih1 v hv)
        by_cases hsa : s.simpleAssign = true
        · -- the binding is removed; nothing later (and no assertion of the statement) reads `bv`
          have hd : dropBinding s = { s with bound := none } := by
            simp [dropBinding, hsa]
          simp only [freeReads, hd, assertRoots]
          constructor
          · intro v hv
            simp only [List.mem_append, List.mem_filter] at hv ⊢
            rcases hv with hv | ⟨hv | hv, _⟩
            · exact Or.inr (hs1 v hv)
            · exact Or.inl (Or.inr hv)
            · exact Or.inl (Or.inl (ih1 v hv))
          · intro v hv
            simp only [List.mem_append, List.mem_filter] at hv ⊢
            rcases hv with hv | ⟨hv | hv, _⟩
            · exact Or.inl hv
            · exact Or.inr ⟨Or.inl hv, by simpa [hb] using hnotin v (Or.inl hv)⟩
            · exact Or.inr ⟨Or.inr (ih2 v hv), by simpa [hb] using hnotin v (Or.inr hv)⟩
        · have hd : dropBinding s = s := by simp [dropBinding, hsa]
          simp only [freeReads, hd, hb]
          constructor
          · intro v hv
            simp only [List.mem_append, List.mem_filter] at hv ⊢
            rcases hv with hv | ⟨hv | hv, hne⟩
            · exact Or.inr (hs1 v hv)
            · exact Or.inl (Or.inr hv)
            · exact Or.inl (Or.inl (ih1 v hv))
          · intro v hv
            simp only [List.mem_append, List.mem_filter] at hv ⊢
            rcases hv with hv | ⟨hv | hv, hne⟩
            · exact Or.inl hv
            · exact Or.inr ⟨Or.inl hv, hne⟩
            · exact Or.inr ⟨Or.inr (ih2 v hv), hne⟩

/-- Every statement of the cleaned test case is an original statement, possibly with its binding dropped
(assertions and accessible stay). -/
theorem mem_removeUnused {ss : List Stmt} {st' : Stmt} (h : st' ∈ removeUnused ss) :
    ∃ st ∈ ss, st' = st ∨ st' = dropBinding st := by
  unfold removeUnused at h
  induction ss generalizing st' with
  | nil => simp [removeUnusedAux] at h
  | cons s ss ih =>
    rw [removeUnusedAux_cons] at h
    have key : st' = s ∨ st' = dropBinding s ∨ st' ∈ (removeUnusedAux ss).1 := by
      unfold ruStep at h
      dsimp only at h
      split at h
      · split at h <;> simp at h <;> rcases h with h | h <;> simp [h]
      · simp at h; rcases h with h | h <;> simp [h]
    rcases key with e | e | e
    · exact ⟨s, by simp, Or.inl e⟩
    · exact ⟨s, by simp, Or.inr e⟩
    · obtain ⟨st, hst, hh⟩ := ih e
      exact ⟨st, by simp [hst], hh⟩

theorem dropBinding_grefs (s : Stmt) : (dropBinding s).grefs = s.grefs := by
  unfold dropBinding; split <;> rfl

theorem dropBinding_exc (s : Stmt) : (dropBinding s).exc = s.exc := by
  unfold dropBinding; split <;> rfl

theorem dropBinding_asserts (s : Stmt) : (dropBinding s).asserts = s.asserts := by
  unfold dropBinding; split <;> rfl

theorem dropBinding_acc (s : Stmt) : (dropBinding s).acc = s.acc := by
  unfold dropBinding; split <;> rfl

theorem dropBinding_asserts_sub (s : Stmt) {a : Assertion} (h : a ∈ (dropBinding s).asserts) :
    a ∈ s.asserts := by
  rw [dropBinding_asserts] at h; exact h

/-! ### `_build_test_function` -/

theorem importableBase_spec (mro : List Cls) :
    (importableBase mro).resolvable = true ∧ excMatches mro (importableBase mro) = true := by
  unfold importableBase excMatches
  cases hf : mro.find? (·.resolvable) with
  | none => simp [baseExc]
  | some c =>
    have h1 := List.find?_some hf
    have h2 := List.mem_of_find?_eq_some hf
    simp [h1, h2]

theorem mem_items_buildFn {noXfail : Bool} {ss : List Stmt} {it : Item}
    (h : it ∈ (buildFn noXfail ss).items) : ∃ s ∈ ss, it ∈ stmtItems noXfail s := by
  simpa [buildFn, List.mem_flatMap] using h

theorem mem_stmtItems {noXfail : Bool} {s : Stmt} {it : Item} (h : it ∈ stmtItems noXfail s) :
    (it = .bare s) ∨
    (∃ mro, s.exc = some mro ∧ (noXfail || isExpected s mro) = true ∧ it = .raises (importableBase mro) s) ∨
    (∃ a ∈ s.asserts, a.kind ≠ .exception ∧ it = .assertion a) := by
  unfold stmtItems at h
  rw [List.mem_append] at h
  rcases h with h | h
  · cases he : s.exc with
    | none => simp [he] at h; exact Or.inl h
    | some mro =>
      simp only [he] at h
      by_cases hc : (noXfail || isExpected s mro) = true
      · simp only [hc, if_true, List.mem_singleton] at h
        exact Or.inr (Or.inl ⟨mro, rfl, hc, h⟩)
      · simp only [hc] at h
        exact Or.inl (by simpa using h)
  · simp only [List.mem_map, List.mem_filter] at h
    obtain ⟨a, ⟨ha, hk⟩, rfl⟩ := h
    exact Or.inr (Or.inr ⟨a, ha, by simpa using hk, rfl⟩)

/-- A used exception class is resolvable. -/
theorem usedExc_resolvable {noXfail : Bool} {ss : List Stmt} {c : Cls}
    (h : c ∈ usedExc (buildFn noXfail ss)) : c.resolvable = true := by
  simp only [usedExc, List.mem_filterMap] at h
  obtain ⟨it, hit, hc⟩ := h
  obtain ⟨s, _, hs⟩ := mem_items_buildFn hit
  rcases mem_stmtItems hs with e | ⟨mro, _, _, e⟩ | ⟨a, _, _, e⟩
  · simp [e] at hc
  · simp [e] at hc; rw [← hc]; exact (importableBase_spec mro).1
  · simp [e] at hc

/-! ### Exception imports -/

theorem mem_insertSorted {x y : String} {l : List String} :
    y ∈ insertSorted x l ↔ y = x ∨ y ∈ l := by
  induction l with
  | nil => simp [insertSorted]
  | cons z zs ih =>
    unfold insertSorted
    split
    · simp
    · split
      · rename_i h; subst h; simp
      · simp [ih]; constructor <;> (intro h; rcases h with h | h | h <;> simp [h])

theorem mem_sortDedup {l : List String} {x : String} : x ∈ sortDedup l ↔ x ∈ l := by
  unfold sortDedup
  induction l with
  | nil => simp
  | cons y ys ih => simp [List.foldr_cons, mem_insertSorted, ih]

theorem all_eq_not_any {α : Type} (l : List α) (p q : α → Bool) (h : ∀ a ∈ l, p a = !q a) :
    l.all p = !l.any q := by
  induction l with
  | nil => rfl
  | cons a l ih =>
    simp only [List.all_cons, List.any_cons, Bool.not_or]
    rw [h a (by simp), ih (fun b hb => h b (by simp [hb]))]

theorem mem_excImportTops_binds {sut : String} {used : List Cls} {c : Cls} (hc : c ∈ used)
    (hb : c.module ≠ "builtins") :
    (c.name, clsObj sut c.module c.name) ∈ (excImportTops sut used).flatMap (·.binds) := by
  simp only [excImportTops, List.mem_flatMap, List.mem_map, mem_sortDedup, List.mem_filter]
  refine ⟨_, ⟨c.module, ⟨c, ⟨hc, by simpa using hb⟩, rfl⟩, rfl⟩, ?_⟩
  simp only [List.mem_map, mem_sortDedup, List.mem_filter]
  exact ⟨c.name, ⟨c, ⟨⟨hc, by simpa using hb⟩, by simp⟩, rfl⟩, rfl⟩

theorem excImportTops_needs {sut : String} {used : List Cls} {t : Top}
    (h : t ∈ excImportTops sut used) : t.needs = [] := by
  simp only [excImportTops, List.mem_map] at h
  obtain ⟨m, _, rfl⟩ := h
  rfl

theorem excImportTops_importOk {sut : String} {used : List Cls} (hr : ∀ c ∈ used, c.resolvable = true)
    {t : Top} (h : t ∈ excImportTops sut used) : t.importOk = true := by
  simp only [excImportTops, List.mem_map] at h
  obtain ⟨m, _, rfl⟩ := h
  simp only [List.all_eq_true, List.mem_filter]
  intro c hc
  exact hr c hc.1.1

end PynguinModel.ExportImports

namespace PynguinModel.ExportImports

/-! ### The assembled module -/

theorem mentions_of_xfail {f : Fn} (h : f.xfail = true) : mentionsPytest f = true := by
  simp [mentionsPytest, h]

theorem needsPytest_of_mentions {s : Suite} {f : Fn} (hf : f ∈ fns s) (h : mentionsPytest f = true) :
    needsPytest s = true := by
  have : (fns s).any mentionsPytest = true := List.any_eq_true.2 ⟨f, hf, h⟩
  simp [needsPytest, this]

theorem fnTops_needs {s : Suite} {t : Top} {r : Ref} (ht : t ∈ fnTops s) (hr : r ∈ t.needs) :
    r = pytestRef ∧ ∃ f ∈ fns s, f.xfail = true := by
  unfold fnTops at ht
  split at ht
  · simp at ht; subst ht; simp at hr
  · simp only [List.mem_mapIdx] at ht
    obtain ⟨i, hi, rfl⟩ := ht
    simp only at hr
    split at hr
    · rename_i hx
      simp at hr
      exact ⟨hr, _, List.getElem_mem hi, hx⟩
    · simp at hr

theorem fnTops_importOk {s : Suite} {t : Top} (ht : t ∈ fnTops s) : t.importOk = true := by
  unfold fnTops at ht
  split at ht
  · simp at ht; subst ht; rfl
  · simp only [List.mem_mapIdx] at ht
    obtain ⟨i, hi, rfl⟩ := ht
    rfl

theorem pytest_mem_moduleEnv {s : Suite} (h : needsPytest s = true) : pytestRef ∈ moduleEnv s := by
  unfold moduleEnv tops
  cases hs : s.seed with
  | some n => simp [List.flatMap_append]
  | none => simp [List.flatMap_append, h]

theorem random_mem_moduleEnv {s : Suite} (h : s.seed.isSome = true) :
    ("random", Obj.randomMod) ∈ moduleEnv s := by
  unfold moduleEnv tops
  cases hs : s.seed with
  | some n => simp [List.flatMap_append]
  | none => simp [hs] at h

theorem sutImports_sub_moduleEnv {s : Suite} {b : Binding}
    (h : b ∈ (sutImportTops s).flatMap (·.binds)) : b ∈ moduleEnv s := by
  unfold moduleEnv tops
  cases hs : s.seed with
  | some n => simp only [List.flatMap_append, List.mem_append]; exact Or.inl (Or.inl (Or.inr h))
  | none => simp only [List.flatMap_append, List.mem_append]; exact Or.inl (Or.inl (Or.inr h))

theorem excImports_sub_moduleEnv {s : Suite} {b : Binding}
    (h : b ∈ (excImportTops s.sutName (allUsedExc s)).flatMap (·.binds)) : b ∈ moduleEnv s := by
  unfold moduleEnv tops
  cases hs : s.seed with
  | some n => simp only [List.flatMap_append, List.mem_append]; exact Or.inl (Or.inl (Or.inl (Or.inr h)))
  | none => simp only [List.flatMap_append, List.mem_append]; exact Or.inl (Or.inr h)

theorem alias_mem_moduleEnv (s : Suite) : (s.alias, Obj.sut) ∈ moduleEnv s :=
  sutImports_sub_moduleEnv (by simp [sutImportTops])

theorem public_mem_moduleEnv {s : Suite} {n : String} (h : n ∈ s.publicNames) :
    (n, Obj.sutAttr n) ∈ moduleEnv s := by
  apply sutImports_sub_moduleEnv
  have hne : s.publicNames.isEmpty = false := by
    cases hp : s.publicNames with
    | nil => simp [hp] at h
    | cons a l => rfl
  simp only [sutImportTops, hne, List.flatMap_append, List.mem_append]
  right
  simpa using h

theorem allUsedExc_resolvable {s : Suite} {c : Cls} (h : c ∈ allUsedExc s) : c.resolvable = true := by
  simp only [allUsedExc, fns, List.mem_flatMap, List.mem_map] at h
  obtain ⟨f, ⟨ss, _, rfl⟩, hc⟩ := h
  exact usedExc_resolvable hc

theorem tops_importOk {s : Suite} {t : Top} (ht : t ∈ tops s) : t.importOk = true := by
  have hE : ∀ t ∈ excImportTops s.sutName (allUsedExc s), t.importOk = true :=
    fun t ht => excImportTops_importOk (fun c hc => allUsedExc_resolvable hc) ht
  have hS : ∀ t ∈ sutImportTops s, t.importOk = true := by
    intro t ht
    unfold sutImportTops at ht
    split at ht <;> simp at ht <;> rcases ht with h | h | h | h <;> (try subst h) <;> rfl
  unfold tops at ht
  cases hs : s.seed with
  | some n =>
    simp only [hs, List.mem_append] at ht
    rcases ht with (((ht | ht) | ht) | ht) | ht
    · simp at ht; rcases ht with h | h | h | h <;> subst h <;> rfl
    · exact hE t ht
    · exact hS t ht
    · simp at ht; subst ht; rfl
    · exact fnTops_importOk ht
  | none =>
    simp only [hs, List.mem_append] at ht
    rcases ht with ((ht | ht) | ht) | ht
    · split at ht <;> simp at ht; subst ht; rfl
    · exact hS t ht
    · exact hE t ht
    · exact fnTops_importOk ht

theorem tops_needsBefore (s : Suite) : NeedsBefore (tops s) [] := by
  have hE : ∀ env, NeedsBefore (excImportTops s.sutName (allUsedExc s)) env := fun env =>
    needsBefore_of_all _ _ (fun t ht r hr => by simp [excImportTops_needs ht] at hr)
  have hF : ∀ env, (needsPytest s = true → pytestRef ∈ env) → NeedsBefore (fnTops s) env :=
    fun env hp => needsBefore_of_all _ _ (fun t ht r hr => by
      obtain ⟨rfl, f, hf, hx⟩ := fnTops_needs ht hr
      exact hp (needsPytest_of_mentions hf (mentions_of_xfail hx)))
  have hS : ∀ env, NeedsBefore (sutImportTops s) env := by
    intro env
    unfold sutImportTops
    split <;> simp [NeedsBefore]
  unfold tops
  cases hs : s.seed with
  | some n =>
    simp only [needsBefore_append]
    refine ⟨⟨⟨⟨?_, hE _⟩, hS _⟩, ?_⟩, hF _ ?_⟩
    · simp [NeedsBefore]
    · simp [NeedsBefore, List.flatMap_append, pytestRef]
    · intro _; simp [List.flatMap_append, pytestRef]
  | none =>
    simp only [needsBefore_append]
    refine ⟨⟨⟨?_, hS _⟩, hE _⟩, hF _ ?_⟩
    · split <;> simp [NeedsBefore]
    · intro h; simp [h, List.flatMap_append]

end PynguinModel.ExportImports

namespace PynguinModel.ExportImports

/-! ### Hypotheses of the property theorems and the per-reference / per-statement steps -/

/-- A global name mentioned by generated statement code or by a rendered assertion value is the module
alias, a public name of the module under test, or a builtin. -/
def OwnRef (s : Suite) (r : Ref) : Prop :=
  r = (s.alias, Obj.sut) ∨ (∃ n ∈ s.publicNames, r = (n, Obj.sutAttr n)) ∨ r.2 = Obj.builtin r.1

def RefsOwned (s : Suite) : Prop :=
  ∀ t ∈ s.tests, ∀ st ∈ t,
    (∀ r ∈ st.grefs, OwnRef s r) ∧ ∀ a ∈ st.asserts, ∀ r ∈ a.valueRefs, OwnRef s r

/-- No module-level name of the emitted file is bound to two different objects, and no builtin the
function bodies rely on is rebound at module level. -/
def NoShadowing (s : Suite) : Prop :=
  Consistent (moduleEnv s) ∧
  ∀ f ∈ fns s, ∀ r ∈ fnRefs s f, r.2 = Obj.builtin r.1 → ∀ b ∈ moduleEnv s, b.1 ≠ r.1

/-- The module under test is deterministic: under pytest every statement raises what the exporter
observed when it re-executed it, and every kept assertion holds. -/
def Deterministic (s : Suite) (beh : Stmt → Option (List Cls)) (holds : Assertion → Bool) : Prop :=
  ∀ t ∈ cleaned s, ∀ st ∈ t, beh st = st.exc ∧ ∀ a ∈ st.asserts, holds a = true

theorem refsOwned_cleaned {s : Suite} (ho : RefsOwned s) {t : List Stmt} (ht : t ∈ cleaned s)
    {st : Stmt} (hst : st ∈ t) :
    (∀ r ∈ st.grefs, OwnRef s r) ∧ ∀ a ∈ st.asserts, ∀ r ∈ a.valueRefs, OwnRef s r := by
  simp only [cleaned, List.mem_map] at ht
  obtain ⟨t0, ht0, rfl⟩ := ht
  obtain ⟨st0, hst0, e⟩ := mem_removeUnused hst
  obtain ⟨h1, h2⟩ := ho t0 ht0 st0 hst0
  rcases e with rfl | rfl
  · exact ⟨h1, h2⟩
  · exact ⟨by rw [dropBinding_grefs]; exact h1, fun a ha => h2 a (dropBinding_asserts_sub st0 ha)⟩

theorem ownRef_ok {s : Suite} (hc : Consistent (moduleEnv s)) {r : Ref} (h : OwnRef s r)
    (hb : r.2 = Obj.builtin r.1 → ∀ b ∈ moduleEnv s, b.1 ≠ r.1) : refOk (moduleEnv s) r = true := by
  rcases h with rfl | ⟨n, hn, rfl⟩ | h
  · exact refOk_of_mem hc (alias_mem_moduleEnv s)
  · exact refOk_of_mem hc (public_mem_moduleEnv hn)
  · obtain ⟨n, o⟩ := r
    simp only at h hb
    subst h
    exact refOk_builtin (hb rfl)

theorem raises_mem_mentions {f : Fn} {c : Cls} {st : Stmt} (h : Item.raises c st ∈ f.items) :
    mentionsPytest f = true := by
  have : f.items.any itemMentionsPytest = true := List.any_eq_true.2 ⟨_, h, rfl⟩
  simp [mentionsPytest, this]

theorem floatAssert_mem_mentions {f : Fn} {a : Assertion} (h : Item.assertion a ∈ f.items)
    (hk : a.kind = .float) : mentionsPytest f = true := by
  have : f.items.any itemMentionsPytest = true :=
    List.any_eq_true.2 ⟨_, h, by simp [itemMentionsPytest, hk]⟩
  simp [mentionsPytest, this]

theorem usedExc_mem_all {s : Suite} {f : Fn} (hf : f ∈ fns s) {c : Cls} {st : Stmt}
    (h : Item.raises c st ∈ f.items) : c ∈ allUsedExc s := by
  simp only [allUsedExc, List.mem_flatMap]
  refine ⟨f, hf, ?_⟩
  simp only [usedExc, List.mem_filterMap]
  exact ⟨_, h, rfl⟩

/-- Every global reference of every item of an emitted function resolves to the intended object. -/
theorem itemRefs_ok {s : Suite} (hs : NoShadowing s) (ho : RefsOwned s) {f : Fn} (hf : f ∈ fns s)
    {it : Item} (hit : it ∈ f.items) {r : Ref} (hr : r ∈ itemRefs s.sutName s.alias it) :
    refOk (moduleEnv s) r = true := by
  obtain ⟨hc, hb⟩ := hs
  have hbr : r.2 = Obj.builtin r.1 → ∀ b ∈ moduleEnv s, b.1 ≠ r.1 := by
    apply hb f hf r
    simp only [fnRefs, List.mem_append, List.mem_flatMap]
    exact Or.inr ⟨it, hit, hr⟩
  have hf' := hf
  simp only [fns, List.mem_map] at hf'
  obtain ⟨t, ht, rfl⟩ := hf'
  obtain ⟨st, hst, hit'⟩ := mem_items_buildFn hit
  obtain ⟨ho1, ho2⟩ := refsOwned_cleaned ho ht hst
  rcases mem_stmtItems hit' with rfl | ⟨mro, _, _, rfl⟩ | ⟨a, ha, _, rfl⟩
  · exact ownRef_ok hc (ho1 r hr) hbr
  · simp only [itemRefs, List.mem_append, List.mem_cons, List.not_mem_nil, or_false] at hr
    rcases hr with (rfl | rfl) | hr
    · exact refOk_of_mem hc (pytest_mem_moduleEnv (needsPytest_of_mentions hf (raises_mem_mentions hit)))
    · by_cases hm : (importableBase mro).module = "builtins"
      · simp only [clsObj, hm, if_true] at hbr ⊢
        exact refOk_builtin (hbr (by first | rfl | trivial))
      · exact refOk_of_mem hc (excImports_sub_moduleEnv
          (mem_excImportTops_binds (usedExc_mem_all hf hit) hm))
    · exact ownRef_ok hc (ho1 r hr) hbr
  · simp only [itemRefs, assertionRefs, List.mem_append] at hr
    rcases hr with (hr | hr) | hr
    · cases hroot : a.root with
      | none => simp [hroot] at hr; subst hr; exact refOk_of_mem hc (alias_mem_moduleEnv s)
      | some v => simp [hroot] at hr
    · cases hk : a.kind <;> simp [hk] at hr <;> subst hr
      · exact refOk_of_mem hc (pytest_mem_moduleEnv
          (needsPytest_of_mentions hf (floatAssert_mem_mentions hit hk)))
      all_goals exact refOk_builtin (hbr rfl)
    · exact ownRef_ok hc (ho2 a ha r hr) hbr

/-- Under determinism, the items emitted for one statement all run through iff the statement is not
an unexpected failure. -/
theorem stmtItems_all_ok {sut alias : String} {env : List Binding} {beh : Stmt → Option (List Cls)}
    {holds : Assertion → Bool} {noXfail : Bool} {st : Stmt}
    (hrefs : ∀ it ∈ stmtItems noXfail st, (itemRefs sut alias it).all (refOk env) = true)
    (hbeh : beh st = st.exc) (hholds : ∀ a ∈ st.asserts, holds a = true) :
    (stmtItems noXfail st).all (itemOk sut alias env beh holds) = !stmtFailing noXfail st := by
  have hass : ∀ it ∈ (st.asserts.filter (fun a => a.kind != .exception)).map Item.assertion,
      itemOk sut alias env beh holds it = true := by
    intro it hit
    have hr := hrefs it (by unfold stmtItems; exact List.mem_append_right _ hit)
    simp only [List.mem_map, List.mem_filter] at hit
    obtain ⟨a, ⟨ha, _⟩, rfl⟩ := hit
    simp [itemOk, hr, hholds a ha]
  have hass' : ((st.asserts.filter (fun a => a.kind != .exception)).map Item.assertion).all
      (itemOk sut alias env beh holds) = true := List.all_eq_true.2 hass
  cases he : st.exc with
  | none =>
    have hr := hrefs (.bare st) (by simp [stmtItems, he])
    simp only [stmtItems, he, List.all_append, hass', Bool.and_true, stmtFailing]
    simp [itemOk, hr, hbeh, he]
  | some mro =>
    by_cases hc : (noXfail || isExpected st mro) = true
    · have hr := hrefs (.raises (importableBase mro) st) (by simp [stmtItems, he, hc])
      simp only [stmtItems, he, hc, if_true, List.all_append, hass', Bool.and_true, stmtFailing]
      simp [itemOk, hr, hbeh, he, (importableBase_spec mro).2]
    · have hc' : (noXfail || isExpected st mro) = false := by simpa using hc
      simp only [stmtItems, he, hc', List.all_append, hass', Bool.and_true, stmtFailing]
      simp [itemOk, hbeh, he]

end PynguinModel.ExportImports
