import PynguinModel.Model.Types
/-!
# Lemmas for the type-system model (C25/C26)

* `fixp_unfold`, `sub_unfold`, `dist_unfold`: the fuel of `fixp` is invisible (`sub = subStep sub`, `dist = distStep dist`);
* `Reach` (reflexive-transitive closure of the edges) and `spl_isSome_iff`: the level BFS answers exactly reachability.
-/
namespace PynguinModel.Types

theorem Ty.size_pos (t : Ty) : 0 < t.size := by cases t <;> simp [Ty.size] <;> omega

theorem size_le_sizeL {a : Ty} {as : List Ty} (h : a ∈ as) : a.size ≤ sizeL as := by
  induction as with
  | nil => cases h
  | cons b bs ih =>
    simp only [sizeL]
    cases h with
    | head => omega
    | tail _ h' => have := ih h'; omega

theorem iter_stable {β : Type} (step : (Ty → Ty → β) → Ty → Ty → β) (d : β)
    (hc : ∀ (r1 r2 : Ty → Ty → β) L R,
      (∀ L' R', L'.size + R'.size < L.size + R.size → r1 L' R' = r2 L' R') → step r1 L R = step r2 L R) :
    ∀ n m L R, L.size + R.size ≤ n → L.size + R.size ≤ m → iter step d n L R = iter step d m L R := by
  intro n
  induction n with
  | zero => intro m L R h; have := L.size_pos; omega
  | succ n ih =>
    intro m L R hn hm
    cases m with
    | zero => have := L.size_pos; omega
    | succ m =>
      simp only [iter]
      apply hc
      intro L' R' hlt
      exact ih m L' R' (by omega) (by omega)

theorem fixp_unfold {β : Type} (step : (Ty → Ty → β) → Ty → Ty → β) (d : β)
    (hc : ∀ (r1 r2 : Ty → Ty → β) L R,
      (∀ L' R', L'.size + R'.size < L.size + R.size → r1 L' R' = r2 L' R') → step r1 L R = step r2 L R)
    (L R : Ty) : fixp step d L R = step (fixp step d) L R := by
  have hpos := L.size_pos
  have h1 : fixp step d L R = iter step d ((L.size + R.size - 1) + 1) L R := by
    unfold fixp; congr 1; omega
  rw [h1]; simp only [iter]
  apply hc; intro L' R' hlt
  unfold fixp
  exact iter_stable step d hc _ _ _ _ (by omega) (Nat.le_refl _)

theorem all_congr_mem {α : Type} {l : List α} {f g : α → Bool} (h : ∀ x ∈ l, f x = g x) : l.all f = l.all g := by
  induction l with
  | nil => rfl
  | cons a as ih =>
    simp only [List.all_cons]; rw [h a (by simp), ih (fun x hx => h x (by simp [hx]))]

theorem any_congr_mem {α : Type} {l : List α} {f g : α → Bool} (h : ∀ x ∈ l, f x = g x) : l.any f = l.any g := by
  induction l with
  | nil => rfl
  | cons a as ih =>
    simp only [List.any_cons]; rw [h a (by simp), ih (fun x hx => h x (by simp [hx]))]

theorem all2_congr {f g : Ty → Ty → Bool} : ∀ {as bs : List Ty},
    (∀ a ∈ as, ∀ b ∈ bs, f a b = g a b) → all2 f as bs = all2 g as bs
  | [], [], _ => rfl
  | [], _ :: _, _ => rfl
  | _ :: _, [], _ => rfl
  | a :: as, b :: bs, h => by
    simp only [all2]
    rw [h a (by simp) b (by simp), all2_congr (fun x hx y hy => h x (by simp [hx]) y (by simp [hy]))]

theorem zipWith_congr {β : Type} {f g : Ty → Ty → β} : ∀ {as bs : List Ty},
    (∀ a ∈ as, ∀ b ∈ bs, f a b = g a b) → List.zipWith f as bs = List.zipWith g as bs
  | [], _, _ => by simp
  | _ :: _, [], _ => by simp
  | a :: as, b :: bs, h => by
    simp only [List.zipWith_cons_cons]
    rw [h a (by simp) b (by simp), zipWith_congr (fun x hx y hy => h x (by simp [hx]) y (by simp [hy]))]

theorem subStep_congr (g : Graph) (anyU cov : Bool) (r1 r2 : Ty → Ty → Bool) (L R : Ty)
    (h : ∀ L' R', L'.size + R'.size < L.size + R.size → r1 L' R' = r2 L' R') :
    subStep g anyU cov r1 L R = subStep g anyU cov r2 L R := by
  cases L <;> cases R <;> simp only [subStep] <;> (try rfl)
  all_goals first
    | (split <;> first
        | (apply all_congr_mem; intro x hx; apply h; have := size_le_sizeL hx; simp only [Ty.size]; omega)
        | (apply any_congr_mem; intro x hx; apply h; have := size_le_sizeL hx; simp only [Ty.size]; omega))
    | (apply any_congr_mem; intro x hx; apply h; have := size_le_sizeL hx; simp only [Ty.size]; omega)
    | (congr 1; apply all2_congr; intro a ha b hb; apply h; have := size_le_sizeL ha; have := size_le_sizeL hb; simp only [Ty.size]; omega)
    | (congr 1; split <;> first
        | rfl
        | (apply all2_congr; intro a ha b hb; have := size_le_sizeL ha; have := size_le_sizeL hb; rw [h a b (by simp only [Ty.size]; omega), h b a (by simp only [Ty.size]; omega)]))

theorem distStep_congr (g : Graph) (anyD : Nat) (r1 r2 : Ty → Ty → Option Nat) (T S : Ty)
    (h : ∀ L' R', L'.size + R'.size < T.size + S.size → r1 L' R' = r2 L' R') :
    distStep g anyD r1 T S = distStep g anyD r2 T S := by
  cases T <;> cases S <;> simp only [distStep] <;> (try rfl)
  all_goals first
    | (congr 1; apply List.map_congr_left; intro x hx; apply h; have := size_le_sizeL hx; simp only [Ty.size]; omega)
    | (split <;> first
        | rfl
        | (congr 1; apply zipWith_congr; intro a ha b hb; apply h; have := size_le_sizeL ha; have := size_le_sizeL hb; simp only [Ty.size]; omega)
        | (split <;> first
            | rfl
            | (congr 1; apply zipWith_congr; intro a ha b hb; apply h; have := size_le_sizeL ha; have := size_le_sizeL hb; simp only [Ty.size]; omega)))

theorem sub_unfold (g : Graph) (anyU cov : Bool) (L R : Ty) :
    sub g anyU cov L R = subStep g anyU cov (sub g anyU cov) L R :=
  fixp_unfold _ _ (subStep_congr g anyU cov) L R

theorem dist_unfold (g : Graph) (anyD : Nat) (T S : Ty) :
    dist g anyD T S = distStep g anyD (dist g anyD) T S :=
  fixp_unfold _ _ (distStep_congr g anyD) T S


/-- reflexive-transitive closure of the edge relation (super → sub) -/
inductive Reach (g : Graph) : Cls → Cls → Prop
  | refl (a : Cls) : Reach g a a
  | step {a b c : Cls} : (a, b) ∈ g.edges → Reach g b c → Reach g a c

theorem Reach.trans {g : Graph} {a b c : Cls} (h1 : Reach g a b) (h2 : Reach g b c) : Reach g a c := by
  induction h1 with
  | refl => exact h2
  | step e _ ih => exact Reach.step e (ih h2)

theorem Reach.tail {g : Graph} {a b c : Cls} (h1 : Reach g a b) (e : (b, c) ∈ g.edges) : Reach g a c :=
  h1.trans (Reach.step e (Reach.refl c))

theorem Reach.eq_or_target {g : Graph} {a c : Cls} (h : Reach g a c) : a = c ∨ c ∈ g.edges.map (·.2) := by
  induction h with
  | refl => exact Or.inl rfl
  | @step a b c e _ ih =>
    rcases ih with rfl | h
    · exact Or.inr (List.mem_map.mpr ⟨(a, b), e, rfl⟩)
    · exact Or.inr h

theorem Reach.eq_or_source {g : Graph} {a c : Cls} (h : Reach g a c) : a = c ∨ a ∈ g.edges.map (·.1) := by
  cases h with
  | refl => exact Or.inl rfl
  | @step _ b _ e _ => exact Or.inr (List.mem_map.mpr ⟨(a, b), e, rfl⟩)

theorem mem_allNodes {g : Graph} {x : Cls} :
    x ∈ allNodes g ↔ x ∈ g.nodes ∨ x ∈ g.edges.map (·.1) ∨ x ∈ g.edges.map (·.2) := by
  simp only [allNodes, List.mem_eraseDups, List.mem_append, or_assoc]

theorem succOf_iff {g : Graph} {fr : List Cls} {n : Cls} :
    succOf g fr n = true ↔ ∃ f ∈ fr, (f, n) ∈ g.edges := by
  simp [succOf, List.any_eq_true]

theorem bfs_sound (g : Graph) (s t : Cls) : ∀ (fuel : Nat) (rest fr : List Cls) (d k : Nat),
    (∀ f ∈ fr, Reach g s f) → bfs g t fuel rest fr d = some k → Reach g s t := by
  intro fuel
  induction fuel with
  | zero => intro rest fr d k _ h; simp [bfs] at h
  | succ fuel ih =>
    intro rest fr d k hfr h
    simp only [bfs] at h
    split at h
    · rename_i ht
      exact hfr t (by simpa using ht)
    · split at h
      · cases h
      · refine ih _ _ _ _ ?_ h
        intro n hn
        have hn' := (List.mem_filter.mp hn).2
        obtain ⟨f, hf, e⟩ := succOf_iff.mp hn'
        exact (hfr f hf).tail e

theorem bfs_complete (g : Graph) (s t : Cls) (hst : Reach g s t) : ∀ (fuel : Nat) (rest fr : List Cls) (d : Nat),
    rest.length < fuel →
    (∀ u v, (u, v) ∈ g.edges → u ∉ rest → u ∉ fr → v ∉ rest) →
    (t ∉ rest → t ∈ fr) → (∀ f ∈ fr, f ∉ rest) → s ∉ rest →
    (bfs g t fuel rest fr d).isSome = true := by
  intro fuel
  induction fuel with
  | zero => intro rest fr d h; omega
  | succ fuel ih =>
    intro rest fr d hlen hb hc ha hs
    simp only [bfs]
    split
    · rfl
    · rename_i ht
      have ht' : t ∉ fr := by simpa using ht
      split
      · rename_i hn
        exfalso
        have hn' : ∀ x ∈ rest, succOf g fr x = false := by
          intro x hx
          have : rest.filter (succOf g fr) = [] := by simpa using hn
          have := List.filter_eq_nil_iff.mp this x hx
          simpa using this
        have closed : ∀ u v, (u, v) ∈ g.edges → u ∉ rest → v ∉ rest := by
          intro u v e hu hv
          by_cases huf : u ∈ fr
          · have := hn' v hv
            rw [Bool.eq_false_iff] at this
            exact this (succOf_iff.mpr ⟨u, huf, e⟩)
          · exact hb u v e hu huf hv
        have : ∀ a b, Reach g a b → a ∉ rest → b ∉ rest := by
          intro a b h
          induction h with
          | refl => exact id
          | step e _ ih => intro ha'; exact ih (closed _ _ e ha')
        exact ht' (hc (this s t hst hs))
      · rename_i hn
        have hne : rest.filter (succOf g fr) ≠ [] := by simpa using hn
        obtain ⟨x, hx⟩ := List.exists_mem_of_ne_nil _ hne
        have hmem : ∀ {y}, y ∈ rest.filter (fun n => !(rest.filter (succOf g fr)).contains n) ↔
            y ∈ rest ∧ y ∉ rest.filter (succOf g fr) := by
          intro y
          rw [List.mem_filter]
          constructor
          · rintro ⟨h1, h2⟩; exact ⟨h1, by simpa [List.mem_filter, h1] using h2⟩
          · rintro ⟨h1, h2⟩; exact ⟨h1, by simpa [List.mem_filter, h1] using h2⟩
        apply ih
        · have : (rest.filter (fun n => !(rest.filter (succOf g fr)).contains n)).length < rest.length := by
            apply List.length_filter_lt_length_iff_exists.mpr
            exact ⟨x, (List.mem_filter.mp hx).1, by simpa using hx⟩
          omega
        · intro u v e hu hun hv
          have hv' := hmem.mp hv
          have hur : u ∉ rest := fun h => hu (hmem.mpr ⟨h, hun⟩)
          by_cases huf : u ∈ fr
          · exact hv'.2 (List.mem_filter.mpr ⟨hv'.1, succOf_iff.mpr ⟨u, huf, e⟩⟩)
          · exact hb u v e hur huf hv'.1
        · intro htr
          by_cases h1 : t ∈ rest
          · by_cases h2 : t ∈ rest.filter (succOf g fr)
            · exact h2
            · exact absurd (hmem.mpr ⟨h1, h2⟩) htr
          · exact absurd (hc h1) ht'
        · intro f hf hfr
          exact (hmem.mp hfr).2 hf
        · intro h; exact hs (hmem.mp h).1

theorem spl_isSome_iff (g : Graph) (s t : Cls) : (spl g s t).isSome = true ↔ Reach g s t := by
  constructor
  · intro h
    obtain ⟨k, hk⟩ := Option.isSome_iff_exists.mp h
    exact bfs_sound g s t _ _ _ _ k (by intro f hf; simp at hf; subst hf; exact Reach.refl _) hk
  · intro h
    apply bfs_complete g s t h
    · have := List.length_filter_le (fun n => n != s) (allNodes g); omega
    · intro u v e hu hus hv
      have hus' : u ≠ s := by simpa using hus
      apply hu
      refine List.mem_filter.mpr ⟨mem_allNodes.mpr (Or.inr (Or.inl (List.mem_map.mpr ⟨(u, v), e, rfl⟩))), by simpa using hus'⟩
    · intro ht
      by_cases hts : t = s
      · simp [hts]
      · exfalso; apply ht
        rcases h.eq_or_target with h1 | h2
        · exact absurd h1.symm hts
        · exact List.mem_filter.mpr ⟨mem_allNodes.mpr (Or.inr (Or.inr h2)), by simpa using hts⟩
    · intro f hf; simp at hf; subst hf; simp [List.mem_filter]
    · simp [List.mem_filter]

theorem spl_self (g : Graph) (s : Cls) : spl g s s = some 0 := by
  simp [spl, bfs]

theorem isSubclass_iff (g : Graph) (l r : Cls) : isSubclass g l r = true ↔ Reach g r l := by
  simp only [isSubclass]; exact spl_isSome_iff g r l

/-! ### Python's `issubclass`, class tables, numeric tower -/

/-- Python's `issubclass` on plain classes: reflexive-transitive closure of "is a direct base of" -/
inductive PySubclass (tbl : List (Cls × List Cls)) : Cls → Cls → Prop
  | refl (c : Cls) : PySubclass tbl c c
  | base {c b d : Cls} {bases : List Cls} : (c, bases) ∈ tbl → b ∈ bases → PySubclass tbl b d → PySubclass tbl c d

theorem PySubclass.trans {tbl : List (Cls × List Cls)} {a b c : Cls} (h1 : PySubclass tbl a b)
    (h2 : PySubclass tbl b c) : PySubclass tbl a c := by
  induction h1 with
  | refl => exact h2
  | base hc hb _ ih => exact PySubclass.base hc hb (ih h2)

theorem mem_edges_ofClassTable {tbl : List (Cls × List Cls)} {gen : List (Cls × Nat)} {b c : Cls} :
    (b, c) ∈ (ofClassTable tbl gen).edges ↔ ∃ bases, (c, bases) ∈ tbl ∧ b ∈ bases := by
  simp only [ofClassTable, List.mem_flatMap, List.mem_map, Prod.mk.injEq]
  constructor
  · rintro ⟨⟨c', bases⟩, hm, b', hb', rfl, rfl⟩; exact ⟨bases, hm, hb'⟩
  · rintro ⟨bases, hm, hb⟩; exact ⟨(c, bases), hm, b, hb, rfl, rfl⟩

theorem Reach.mono {g g' : Graph} (h : ∀ e ∈ g.edges, e ∈ g'.edges) {a b : Cls} (r : Reach g a b) : Reach g' a b := by
  induction r with
  | refl => exact Reach.refl _
  | step e _ ih => exact Reach.step (h _ e) ih

theorem enableTower_edges (g : Graph) (b i f c : Cls) :
    (enableTower g b i f c).edges = g.edges ++ [(i, b), (f, i), (c, f)] := by
  simp [enableTower, addEdge]

end PynguinModel.Types
