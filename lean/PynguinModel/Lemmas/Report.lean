import PynguinModel.Model.Report
/-!
Helper lemmas for C35 (`Props/C35.lean`): dict / OrderedSet primitives, sums over the source
lines, the per-line maps of the report, the merged trace.  Mathlib-free.
-/
namespace PynguinModel.Report

/-! ### Small list facts -/

theorem sum_map_zero {α} (l : List α) (g : α → Nat) (h : ∀ x ∈ l, g x = 0) : (l.map g).sum = 0 := by
  induction l with
  | nil => rfl
  | cons a t ih =>
    simp only [List.map_cons, List.sum_cons]
    rw [h a (by simp), ih (fun x hx => h x (by simp [hx]))]

theorem sum_indicator_eq_length_filter {α} (l : List α) (c : α → Bool) :
    (l.map (fun x => if c x then 1 else 0)).sum = (l.filter c).length := by
  induction l with
  | nil => rfl
  | cons a t ih =>
    simp only [List.map_cons, List.sum_cons, List.filter_cons]
    cases c a <;> simp [ih] <;> omega

/-- Two duplicate-free lists: the part of the first inside the second is as long as the part of
the second inside the first. -/
theorem length_filter_mem_comm {α} [DecidableEq α] {l₁ l₂ : List α} (h₁ : l₁.Nodup) (h₂ : l₂.Nodup) :
    (l₁.filter (fun x => decide (x ∈ l₂))).length = (l₂.filter (fun x => decide (x ∈ l₁))).length := by
  apply List.Perm.length_eq
  rw [List.perm_ext_iff_of_nodup (h₁.filter _) (h₂.filter _)]
  intro a
  simp only [List.mem_filter, decide_eq_true_eq]
  exact And.comm

theorem length_filter_mem_of_subset {α} [DecidableEq α] {l z : List α} (hl : l.Nodup) (hz : z.Nodup)
    (hsub : ∀ x ∈ z, x ∈ l) : (l.filter (fun x => decide (x ∈ z))).length = z.length := by
  rw [length_filter_mem_comm hl hz]
  congr 1
  rw [List.filter_eq_self]
  intro a ha
  simp [hsub a ha]

theorem nodup_map_of_inj_on {α β} {f : α → β} {l : List α} (hl : l.Nodup)
    (hf : ∀ x ∈ l, ∀ y ∈ l, f x = f y → x = y) : (l.map f).Nodup := by
  induction l with
  | nil => simp
  | cons a t ih =>
    rw [List.nodup_cons] at hl
    simp only [List.map_cons, List.nodup_cons, List.mem_map, not_exists, not_and]
    refine ⟨?_, ih hl.2 (fun x hx y hy => hf x (by simp [hx]) y (by simp [hy]))⟩
    intro x hx hfx
    have := hf x (by simp [hx]) a (by simp) hfx
    subst this
    exact hl.1 hx

theorem foldl_invariant {α β} (P : β → Prop) (f : β → α → β) (xs : List α) (init : β)
    (h0 : P init) (hstep : ∀ b x, x ∈ xs → P b → P (f b x)) : P (xs.foldl f init) := by
  induction xs generalizing init with
  | nil => exact h0
  | cons a t ih =>
    simp only [List.foldl_cons]
    exact ih _ (hstep _ a (by simp) h0) (fun b x hx hb => hstep b x (by simp [hx]) hb)

/-! ### `dictSet` -/

section Dict
variable {κ α : Type} [BEq κ] [LawfulBEq κ]

theorem any_key_iff (m : List (κ × α)) (k : κ) :
    m.any (fun e => e.1 == k) = true ↔ k ∈ m.map (·.1) := by
  simp only [List.any_eq_true, beq_iff_eq, List.mem_map]

theorem replace_of_not_mem_keys (t : List (κ × α)) (k : κ) (v : α) (h : k ∉ t.map (·.1)) :
    t.map (fun e => if e.1 == k then (k, v) else e) = t := by
  refine (List.map_congr_left (fun e he => ?_)).trans (List.map_id _)
  have : ¬ (e.1 == k) = true := by
    intro h'; apply h; rw [← beq_iff_eq.1 h']; exact List.mem_map.2 ⟨e, he, rfl⟩
  simp [this]

theorem lookup_none_of_not_mem_keys (m : List (κ × α)) (k : κ) (h : k ∉ m.map (·.1)) :
    m.lookup k = none := by
  rw [List.lookup_eq_none_iff]
  intro e he
  simp only [bne_iff_ne, ne_eq]
  intro hk
  apply h
  rw [hk]
  exact List.mem_map.2 ⟨e, he, rfl⟩

theorem keys_replace (m : List (κ × α)) (k : κ) (v : α) :
    (m.map (fun e => if e.1 == k then (k, v) else e)).map (·.1) = m.map (·.1) := by
  induction m with
  | nil => rfl
  | cons e t ih =>
    simp only [List.map_cons, ih, List.cons.injEq, and_true]
    by_cases h : e.1 == k
    · simp only [h, if_true]; exact (beq_iff_eq.1 h).symm
    · simp [h]

theorem keys_dictSet (m : List (κ × α)) (k : κ) (v : α) :
    (dictSet m k v).map (·.1) = if k ∈ m.map (·.1) then m.map (·.1) else m.map (·.1) ++ [k] := by
  unfold dictSet
  by_cases h : k ∈ m.map (·.1)
  · rw [if_pos ((any_key_iff m k).2 h), if_pos h, keys_replace]
  · have : ¬ (m.any (fun e => e.1 == k) = true) := fun h' => h ((any_key_iff m k).1 h')
    rw [if_neg this, if_neg h]; simp

theorem nodup_keys_dictSet {m : List (κ × α)} (h : (m.map (·.1)).Nodup) (k : κ) (v : α) :
    ((dictSet m k v).map (·.1)).Nodup := by
  rw [keys_dictSet]
  split
  · exact h
  · rename_i hk
    rw [List.nodup_append]
    refine ⟨h, by simp, ?_⟩
    intro a ha b hb
    simp only [List.mem_singleton] at hb
    subst hb
    intro hab; subst hab; exact hk ha

theorem mem_keys_dictSet {m : List (κ × α)} {k j : κ} {v : α} :
    j ∈ (dictSet m k v).map (·.1) ↔ j ∈ m.map (·.1) ∨ j = k := by
  rw [keys_dictSet]
  split
  · rename_i hk
    constructor
    · exact Or.inl
    · rintro (h | rfl)
      · exact h
      · exact hk
  · simp

theorem lookup_replace (m : List (κ × α)) (k j : κ) (v : α) (hk : k ∈ m.map (·.1)) :
    (m.map (fun e => if e.1 == k then (k, v) else e)).lookup j =
      if j == k then some v else m.lookup j := by
  induction m with
  | nil => simp at hk
  | cons e t ih =>
    obtain ⟨ek, ev⟩ := e
    simp only [List.map_cons]
    by_cases hek : ek == k
    · have hek' : ek = k := beq_iff_eq.1 hek
      subst hek'
      simp only [beq_self_eq_true, if_true, List.lookup_cons]
      by_cases hj : j == ek
      · simp [hj]
      · simp only [hj]
        by_cases hkt : ek ∈ t.map (·.1)
        · rw [ih hkt]; simp [hj]
        · -- no further entry with this key: the map is the identity on `t`
          rw [replace_of_not_mem_keys t ek v hkt]
          simp
    · have hkt : k ∈ t.map (·.1) := by
        simp only [List.map_cons, List.mem_cons] at hk
        rcases hk with h | h
        · exact absurd (by simp [h]) hek
        · exact h
      have hek' : (ek == k) = false := by simpa using hek
      simp only [hek', Bool.false_eq_true, if_false, List.lookup_cons]
      by_cases hj : j == ek
      · have : ¬ (j == k) = true := by
          intro h; apply hek; rw [← beq_iff_eq.1 hj, beq_iff_eq.1 h]; simp
        simp [hj, this]
      · simp only [hj]; exact ih hkt

theorem lookup_dictSet (m : List (κ × α)) (k j : κ) (v : α) :
    (dictSet m k v).lookup j = if j == k then some v else m.lookup j := by
  unfold dictSet
  by_cases h : k ∈ m.map (·.1)
  · rw [if_pos ((any_key_iff m k).2 h)]; exact lookup_replace m k j v h
  · have hn : ¬ (m.any (fun e => e.1 == k) = true) := fun h' => h ((any_key_iff m k).1 h')
    rw [if_neg hn, List.lookup_append]
    by_cases hj : j == k
    · have hj' : j = k := beq_iff_eq.1 hj
      subst hj'
      have : m.lookup j = none := lookup_none_of_not_mem_keys m j h
      simp [this]
    · simp only [hj, List.lookup_cons, List.lookup_nil]
      cases m.lookup j <;> simp

end Dict

/-! ### OrderedSet primitives -/

section OSet
variable {α : Type} [DecidableEq α]

theorem mem_osetAdd {l : List α} {x y : α} : y ∈ osetAdd l x ↔ y ∈ l ∨ y = x := by
  unfold osetAdd
  split
  · rename_i h
    constructor
    · exact Or.inl
    · rintro (h' | rfl)
      · exact h'
      · exact h
  · simp

theorem nodup_osetAdd {l : List α} (h : l.Nodup) (x : α) : (osetAdd l x).Nodup := by
  unfold osetAdd
  split
  · exact h
  · rename_i hx
    rw [List.nodup_append]
    refine ⟨h, by simp, ?_⟩
    intro a ha b hb
    simp only [List.mem_singleton] at hb
    subst hb
    intro hab; subst hab; exact hx ha

theorem mem_osetUpdate {l xs : List α} {y : α} : y ∈ osetUpdate l xs ↔ y ∈ l ∨ y ∈ xs := by
  unfold osetUpdate
  induction xs generalizing l with
  | nil => simp
  | cons x t ih =>
    simp only [List.foldl_cons, ih, mem_osetAdd, List.mem_cons]
    constructor
    · rintro ((h | h) | h)
      · exact Or.inl h
      · exact Or.inr (Or.inl h)
      · exact Or.inr (Or.inr h)
    · rintro (h | h | h)
      · exact Or.inl (Or.inl h)
      · exact Or.inl (Or.inr h)
      · exact Or.inr h

theorem nodup_osetUpdate {l : List α} (h : l.Nodup) (xs : List α) : (osetUpdate l xs).Nodup := by
  unfold osetUpdate
  induction xs generalizing l with
  | nil => exact h
  | cons x t ih => exact ih (nodup_osetAdd h x)

theorem osetUpdate_of_nodup {l xs : List α} (hx : xs.Nodup) (hd : ∀ x ∈ xs, x ∉ l) :
    osetUpdate l xs = l ++ xs := by
  unfold osetUpdate
  induction xs generalizing l with
  | nil => simp
  | cons x t ih =>
    rw [List.nodup_cons] at hx
    have hxl : x ∉ l := hd x (by simp)
    simp only [List.foldl_cons, osetAdd, hxl, if_false]
    rw [ih hx.2]
    · simp
    · intro y hy
      simp only [List.mem_append, List.mem_singleton, not_or]
      refine ⟨hd y (by simp [hy]), ?_⟩
      intro hyx; subst hyx; exact hx.1 hy

theorem mem_oset {xs : List α} {y : α} : y ∈ oset xs ↔ y ∈ xs := by
  simp [oset, mem_osetUpdate]

theorem nodup_oset (xs : List α) : (oset xs).Nodup := nodup_osetUpdate List.nodup_nil xs

theorem oset_of_nodup {xs : List α} (h : xs.Nodup) : oset xs = xs := by
  simp [oset, osetUpdate_of_nodup h]

end OSet

/-! ### Coverage entries, projections -/

@[simp] theorem CovEntry.add_covered (a b : CovEntry) : (a + b).covered = a.covered + b.covered := rfl
@[simp] theorem CovEntry.add_existing (a b : CovEntry) : (a + b).existing = a.existing + b.existing := rfl

/-- A projection of `CovEntry` that commutes with `+` (`covered`, `existing`). -/
structure Additive (p : CovEntry → Nat) : Prop where
  add : ∀ a b, p (a + b) = p a + p b
  zero : p {} = 0

theorem additive_covered : Additive (·.covered) := ⟨fun _ _ => rfl, rfl⟩
theorem additive_existing : Additive (·.existing) := ⟨fun _ _ => rfl, rfl⟩

theorem CovEntry.ext' {a b : CovEntry} (h1 : a.covered = b.covered) (h2 : a.existing = b.existing) :
    a = b := by
  cases a; cases b; simp_all

/-! ### Coverage maps -/

/-- Sum of a projection over the values of a coverage map. -/
def psum (p : CovEntry → Nat) (m : CovMap) : Nat := (m.map (fun e => p e.2)).sum

def KeysNodup (m : CovMap) : Prop := (m.map (·.1)).Nodup

theorem total_eq_psum {p} (hp : Additive p) (m : CovMap) : p m.total = psum p m := by
  unfold CovMap.total psum
  suffices h : ∀ acc : CovEntry, p (m.foldl (fun acc e => acc + e.2) acc)
      = p acc + (m.map (fun e => p e.2)).sum by
    rw [h, hp.zero]; simp
  induction m with
  | nil => intro acc; simp
  | cons e t ih =>
    intro acc
    simp only [List.foldl_cons, List.map_cons, List.sum_cons]
    rw [ih, hp.add]; omega

theorem psum_replace {p} (m : CovMap) (k : LineNo) (v v0 : CovEntry) (hn : KeysNodup m)
    (hl : m.lookup k = some v0) :
    psum p (m.map (fun e => if e.1 == k then (k, v) else e)) + p v0 = psum p m + p v := by
  induction m with
  | nil => simp at hl
  | cons e t ih =>
    obtain ⟨ek, ev⟩ := e
    unfold KeysNodup at hn
    simp only [List.map_cons, List.nodup_cons] at hn
    by_cases hek : ek = k
    · subst hek
      simp only [List.lookup_cons_self, Option.some.injEq] at hl
      subst hl
      have : t.map (fun e => if e.1 == ek then (ek, v) else e) = t :=
        replace_of_not_mem_keys t ek v hn.1
      simp only [psum, List.map_cons, beq_self_eq_true, if_true, List.sum_cons, this]
      omega
    · have hb : (k == ek) = false := by simp [Ne.symm hek]
      have hb' : (ek == k) = false := by simp [hek]
      simp only [List.lookup_cons, hb] at hl
      have := ih hn.2 hl
      simp only [psum, List.map_cons, hb', List.sum_cons] at this ⊢
      simp only [Bool.false_eq_true, if_false]
      omega

theorem get_of_lookup_none {m : CovMap} {k : LineNo} (h : m.lookup k = none) : m.get k = {} := by
  simp [CovMap.get, h]

theorem psum_addAt {p} (hp : Additive p) {m : CovMap} (hn : KeysNodup m) (k : LineNo) (c : CovEntry) :
    psum p (m.addAt k c) = psum p m + p c := by
  unfold CovMap.addAt dictSet
  by_cases h : k ∈ m.map (·.1)
  · rw [if_pos ((any_key_iff m k).2 h)]
    cases hl : m.lookup k with
    | none =>
      rw [List.lookup_eq_none_iff] at hl
      obtain ⟨e, he, rfl⟩ := List.mem_map.1 h
      have := hl e he
      simp at this
    | some v0 =>
      have := psum_replace (p := p) m k (m.get k + c) v0 hn hl
      have hg : m.get k = v0 := by simp [CovMap.get, hl]
      rw [hg, hp.add] at this
      rw [hg]; omega
  · have hnk : ¬ (m.any (fun e => e.1 == k) = true) := fun h' => h ((any_key_iff m k).1 h')
    rw [if_neg hnk]
    have hl : m.lookup k = none := lookup_none_of_not_mem_keys m k h
    simp only [psum, List.map_append, List.map_cons, List.map_nil, List.sum_append_nat,
      List.sum_cons, List.sum_nil, get_of_lookup_none hl]
    rw [hp.add, hp.zero]; omega

theorem keysNodup_addAt {m : CovMap} (hn : KeysNodup m) (k : LineNo) (c : CovEntry) :
    KeysNodup (m.addAt k c) := nodup_keys_dictSet hn k _

theorem get_addAt {p} (hp : Additive p) (m : CovMap) (k j : LineNo) (c : CovEntry) :
    p ((m.addAt k c).get j) = p (m.get j) + if j = k then p c else 0 := by
  unfold CovMap.addAt
  simp only [CovMap.get, lookup_dictSet]
  by_cases h : j = k
  · subst h; simp [hp.add]
  · simp [h]

theorem mem_keys_addAt {m : CovMap} {k j : LineNo} {c : CovEntry} :
    j ∈ (m.addAt k c).map (·.1) ↔ j ∈ m.map (·.1) ∨ j = k := mem_keys_dictSet

/-! ### Sums over the source lines `idx+1 … idx+n` -/

def sumFrom (g : Int → Nat) : Nat → Nat → Nat
  | _, 0 => 0
  | idx, n + 1 => g ((idx : Int) + 1) + sumFrom g (idx + 1) n

/-- The line number is one of the lines `idx+1 … idx+n` (in particular it is not `None`). -/
def InRange (k : LineNo) (idx n : Nat) : Prop :=
  ∃ i : Int, k = some i ∧ (idx : Int) < i ∧ i ≤ (idx : Int) + n

theorem sumFrom_add (g h : Int → Nat) (idx n : Nat) :
    sumFrom (fun i => g i + h i) idx n = sumFrom g idx n + sumFrom h idx n := by
  induction n generalizing idx with
  | zero => rfl
  | succ n ih => simp only [sumFrom, ih]; omega

theorem sumFrom_zero (idx n : Nat) : sumFrom (fun _ => 0) idx n = 0 := by
  induction n generalizing idx with
  | zero => rfl
  | succ n ih => simp [sumFrom, ih]

theorem sumFrom_indicator_out (k : LineNo) (c : Nat) (idx n : Nat) (h : ¬ InRange k idx n) :
    sumFrom (fun i => if (some i : LineNo) = k then c else 0) idx n = 0 := by
  induction n generalizing idx with
  | zero => rfl
  | succ n ih =>
    simp only [sumFrom]
    have h1 : ¬ ((some ((idx : Int) + 1) : LineNo) = k) := by
      intro hk; apply h; exact ⟨(idx : Int) + 1, hk.symm, by omega, by omega⟩
    have h2 : ¬ InRange k (idx + 1) n := by
      rintro ⟨i, hk, h1, h2⟩; apply h; exact ⟨i, hk, by omega, by omega⟩
    rw [if_neg h1, ih _ h2]

theorem sumFrom_indicator_in (k : LineNo) (c : Nat) (idx n : Nat) (h : InRange k idx n) :
    sumFrom (fun i => if (some i : LineNo) = k then c else 0) idx n = c := by
  induction n generalizing idx with
  | zero => obtain ⟨i, _, h1, h2⟩ := h; omega
  | succ n ih =>
    simp only [sumFrom]
    obtain ⟨i, hk, h1, h2⟩ := h
    by_cases hi : i = (idx : Int) + 1
    · have hout : ¬ InRange k (idx + 1) n := by
        rintro ⟨j, hj, hj1, _⟩
        rw [hk] at hj
        have : i = j := by simpa using hj
        omega
      rw [sumFrom_indicator_out k c (idx + 1) n hout, hk, hi]; simp
    · have hin : InRange k (idx + 1) n := ⟨i, hk, by omega, by omega⟩
      have hne : ¬ ((some ((idx : Int) + 1) : LineNo) = k) := by
        rw [hk]; intro h'; apply hi; simpa using h'.symm
      rw [if_neg hne, ih _ hin]; omega

/-- A duplicate-free list of line numbers, all of them lines of the source: counting the source
lines that occur in it gives its length. -/
theorem sumFrom_mem_eq_length (L : List LineNo) (idx n : Nat) (hn : L.Nodup)
    (hr : ∀ k ∈ L, InRange k idx n) :
    sumFrom (fun i => if (some i : LineNo) ∈ L then 1 else 0) idx n = L.length := by
  induction L with
  | nil => simp [sumFrom_zero]
  | cons k t ih =>
    rw [List.nodup_cons] at hn
    have hfun : (fun i : Int => if (some i : LineNo) ∈ k :: t then 1 else 0)
        = fun i => (if (some i : LineNo) = k then 1 else 0) + (if (some i : LineNo) ∈ t then 1 else 0) := by
      funext i
      by_cases h1 : (some i : LineNo) = k
      · have : (some i : LineNo) ∉ t := by rw [h1]; exact hn.1
        simp [h1, hn.1]
      · simp [h1]
    rw [hfun, sumFrom_add, sumFrom_indicator_in k 1 idx n (hr k (by simp)),
      ih hn.2 (fun k' hk' => hr k' (by simp [hk']))]
    simp; omega

/-! ### The balance of a coverage map: summing its entries over the source lines gives its total -/

def Bal (p : CovEntry → Nat) (n : Nat) (m : CovMap) : Prop :=
  sumFrom (fun i => p (m.get (some i))) 0 n = psum p m

theorem bal_nil {p} (hp : Additive p) (n : Nat) : Bal p n [] := by
  unfold Bal
  have : (fun i : Int => p (CovMap.get [] (some i))) = fun _ => 0 := by
    funext i; simp [CovMap.get, hp.zero]
  rw [this, sumFrom_zero]; rfl

theorem bal_addAt {p} (hp : Additive p) {n : Nat} {m : CovMap} (hn : KeysNodup m) (hb : Bal p n m)
    (k : LineNo) (c : CovEntry) (hk : InRange k 0 n) : Bal p n (m.addAt k c) := by
  unfold Bal at hb ⊢
  rw [psum_addAt hp hn]
  have : (fun i : Int => p ((m.addAt k c).get (some i)))
      = fun i => p (m.get (some i)) + (if (some i : LineNo) = k then p c else 0) := by
    funext i; exact get_addAt hp m k (some i) c
  rw [this, sumFrom_add, hb, sumFrom_indicator_in k (p c) 0 n hk]

/-! ### Several `+=` on one key, and folds of them (the two per-line maps of the report) -/

def addMany (m : CovMap) (k : LineNo) (cs : List CovEntry) : CovMap :=
  cs.foldl (fun m c => m.addAt k c) m

theorem addMany_spec {p} (hp : Additive p) (n : Nat) (k : LineNo) (cs : List CovEntry) (m : CovMap)
    (hn : KeysNodup m) :
    KeysNodup (addMany m k cs) ∧ psum p (addMany m k cs) = psum p m + (cs.map p).sum ∧
      (InRange k 0 n → Bal p n m → Bal p n (addMany m k cs)) := by
  unfold addMany
  induction cs generalizing m with
  | nil => simp [hn]
  | cons c t ih =>
    simp only [List.foldl_cons, List.map_cons, List.sum_cons]
    obtain ⟨h1, h2, h3⟩ := ih (m.addAt k c) (keysNodup_addAt hn k c)
    refine ⟨h1, ?_, ?_⟩
    · rw [h2, psum_addAt hp hn]; omega
    · intro hk hb
      exact h3 hk (bal_addAt hp hn hb k c hk)

theorem fold_addMany_spec {β} {p} (hp : Additive p) (n : Nat) (key : β → LineNo)
    (cs : β → List CovEntry) (xs : List β) (m : CovMap) (hn : KeysNodup m) :
    KeysNodup (xs.foldl (fun m x => addMany m (key x) (cs x)) m) ∧
      psum p (xs.foldl (fun m x => addMany m (key x) (cs x)) m)
        = psum p m + (xs.map (fun x => ((cs x).map p).sum)).sum ∧
      ((∀ x ∈ xs, InRange (key x) 0 n) → Bal p n m →
        Bal p n (xs.foldl (fun m x => addMany m (key x) (cs x)) m)) := by
  induction xs generalizing m with
  | nil => simp [hn]
  | cons x t ih =>
    simp only [List.foldl_cons, List.map_cons, List.sum_cons]
    obtain ⟨a1, a2, a3⟩ := addMany_spec hp n (key x) (cs x) m hn
    obtain ⟨h1, h2, h3⟩ := ih (addMany m (key x) (cs x)) a1
    refine ⟨h1, ?_, ?_⟩
    · rw [h2, a2]; omega
    · intro hk hb
      exact h3 (fun y hy => hk y (by simp [hy])) (a3 (hk x (by simp)) hb)

def predCs (tr : Trace) (p : Nat × PredMeta) : List CovEntry :=
  ⟨0, 2⟩ :: ((if zeroIn tr.trueDistances p.1 then [⟨1, 0⟩] else [])
    ++ (if zeroIn tr.falseDistances p.1 then [⟨1, 0⟩] else []))

def blCs (tr : Trace) (c : Nat × Int) : List CovEntry :=
  ⟨0, 1⟩ :: (if c.1 ∈ tr.executedCodeObjects then [⟨1, 0⟩] else [])

theorem lineToBranchCoverage_eq (reg : Registry) (tr : Trace) :
    lineToBranchCoverage reg tr
      = reg.predicates.foldl (fun m p => addMany m p.2.lineNo (predCs tr p)) [] := by
  unfold lineToBranchCoverage
  congr 1
  funext m p
  unfold predCs addMany
  cases zeroIn tr.trueDistances p.1 <;> cases zeroIn tr.falseDistances p.1 <;> rfl

theorem lineToBranchlessCoverage_eq (reg : Registry) (tr : Trace) :
    lineToBranchlessCoverage reg tr
      = reg.branchLess.foldl (fun m c => addMany m (some c.2) (blCs tr c)) [] := by
  unfold lineToBranchlessCoverage
  congr 1
  funext m c
  unfold blCs addMany
  by_cases h : c.1 ∈ tr.executedCodeObjects <;> simp [h]

theorem keysNodup_nil : KeysNodup [] := by simp [KeysNodup]

/-! ### `annotate` -/

/-- What `annotate` returns when no assertion fires. -/
def annT (f : Int → LineAnn) : List LineAnn → Nat → List LineAnn
  | [], _ => []
  | a :: as, idx => a.addT (f ((idx : Int) + 1)) :: annT f as (idx + 1)

/-- The `k`-th annotation (from 0) carries line number `idx + k + 1`. -/
def Aligned : List LineAnn → Nat → Prop
  | [], _ => True
  | a :: as, idx => a.lineNo = (idx : Int) + 1 ∧ Aligned as (idx + 1)

theorem annotate_ok {f : Int → LineAnn} {anns : List LineAnn} {idx : Nat} {out : List LineAnn}
    (h : annotate f anns idx = .ok out) : out = annT f anns idx := by
  induction anns generalizing idx out with
  | nil => simp only [annotate, Except.ok.injEq] at h; simp [annT, ← h]
  | cons a t ih =>
    simp only [annotate, LineAnn.add?] at h
    split at h
    · cases h
    · rename_i a' hadd
      split at hadd
      · cases hadd
        cases hrest : annotate f t (idx + 1) with
        | error e => simp [hrest, Except.map] at h
        | ok r =>
          simp only [hrest, Except.map, Except.ok.injEq] at h
          rw [← h, ih hrest]; rfl
      · cases hadd

theorem annotate_aligned {f : Int → LineAnn} (hf : ∀ j, (f j).lineNo = j) {anns : List LineAnn}
    {idx : Nat} (h : Aligned anns idx) : annotate f anns idx = .ok (annT f anns idx) := by
  induction anns generalizing idx with
  | nil => rfl
  | cons a t ih =>
    obtain ⟨h1, h2⟩ := h
    simp only [annotate, LineAnn.add?, hf, h1, if_true, ih h2, Except.map, annT]

theorem aligned_annT {f : Int → LineAnn} {anns : List LineAnn} {idx : Nat} (h : Aligned anns idx) :
    Aligned (annT f anns idx) idx := by
  induction anns generalizing idx with
  | nil => trivial
  | cons a t ih => exact ⟨h.1, ih h.2⟩

theorem aligned_blank_aux (s n : Nat) :
    Aligned ((List.range' s n).map (fun (idx : Nat) => (⟨(idx : Int) + 1, {}, {}, {}, {}⟩ : LineAnn))) s := by
  induction n generalizing s with
  | zero => trivial
  | succ n ih => rw [List.range'_succ]; exact ⟨rfl, ih (s + 1)⟩

theorem aligned_blank (n : Nat) : Aligned (blankAnns n) 0 := by
  unfold blankAnns; rw [List.range_eq_range']; exact aligned_blank_aux 0 n

theorem length_annT (f : Int → LineAnn) (anns : List LineAnn) (idx : Nat) :
    (annT f anns idx).length = anns.length := by
  induction anns generalizing idx with
  | nil => rfl
  | cons a t ih => simp [annT, ih]

theorem lineNos_annT (f : Int → LineAnn) (anns : List LineAnn) (idx : Nat) :
    (annT f anns idx).map (·.lineNo) = anns.map (·.lineNo) := by
  induction anns generalizing idx with
  | nil => rfl
  | cons a t ih => simp [annT, ih, LineAnn.addT]

theorem sum_annT (q : LineAnn → Nat) (hq : ∀ a b, q (a.addT b) = q a + q b) (f : Int → LineAnn)
    (anns : List LineAnn) (idx : Nat) :
    ((annT f anns idx).map q).sum
      = (anns.map q).sum + sumFrom (fun i => q (f i)) idx anns.length := by
  induction anns generalizing idx with
  | nil => rfl
  | cons a t ih =>
    simp only [annT, List.map_cons, List.sum_cons, List.length_cons, sumFrom, ih, hq]; omega

theorem mem_annT {f : Int → LineAnn} {anns : List LineAnn} {idx : Nat} (h : Aligned anns idx)
    {a : LineAnn} (ha : a ∈ annT f anns idx) : ∃ b ∈ anns, a = b.addT (f b.lineNo) := by
  induction anns generalizing idx with
  | nil => simp [annT] at ha
  | cons c t ih =>
    simp only [annT, List.mem_cons] at ha
    rcases ha with ha | ha
    · exact ⟨c, by simp, by rw [ha, h.1]⟩
    · obtain ⟨b, hb, hab⟩ := ih h.2 ha
      exact ⟨b, by simp [hb], hab⟩

theorem length_blank (n : Nat) : (blankAnns n).length = n := by simp [blankAnns]

theorem mem_blank {n : Nat} {a : LineAnn} (h : a ∈ blankAnns n) :
    a.total = {} ∧ a.branches = {} ∧ a.branchless = {} ∧ a.lines = {} := by
  simp only [blankAnns, List.mem_map] at h
  obtain ⟨i, _, rfl⟩ := h
  exact ⟨rfl, rfl, rfl, rfl⟩

/-! ### Looking up line numbers -/

theorem mem_of_lookup {κ α} [BEq κ] [LawfulBEq κ] {m : List (κ × α)} {k : κ} {v : α}
    (h : m.lookup k = some v) : (k, v) ∈ m := by
  induction m with
  | nil => simp at h
  | cons e t ih =>
    obtain ⟨ek, ev⟩ := e
    simp only [List.lookup_cons] at h
    by_cases hk : k == ek
    · simp only [hk, Option.some.injEq] at h
      rw [beq_iff_eq.1 hk, h]; simp
    · simp only [hk] at h
      exact List.mem_cons_of_mem _ (ih h)

theorem lookup_of_mem {κ α} [BEq κ] [LawfulBEq κ] {m : List (κ × α)} {k : κ} {v : α}
    (hn : (m.map (·.1)).Nodup) (h : (k, v) ∈ m) : m.lookup k = some v := by
  induction m with
  | nil => simp at h
  | cons e t ih =>
    obtain ⟨ek, ev⟩ := e
    simp only [List.map_cons, List.nodup_cons] at hn
    simp only [List.mem_cons, Prod.mk.injEq] at h
    rcases h with ⟨rfl, rfl⟩ | h
    · simp
    · have : ¬ (k == ek) = true := by
        intro hk; apply hn.1; rw [← beq_iff_eq.1 hk]; exact List.mem_map.2 ⟨(k, v), h, rfl⟩
      simp only [List.lookup_cons, this]
      exact ih hn.2 h

/-- The line number registered for a line id (`none`: the id is not registered). -/
def lineNoOf (reg : Registry) (id : Nat) : Option LineNo := (reg.lines.lookup id).map (·.lineNo)

theorem lookupLinenos_ok {reg : Registry} {ids : List Nat} {xs : List LineNo}
    (h : lookupLinenos reg ids = .ok xs) : ids.map (lineNoOf reg) = xs.map some := by
  induction ids generalizing xs with
  | nil => simp only [lookupLinenos, Except.ok.injEq] at h; simp [← h]
  | cons id t ih =>
    simp only [lookupLinenos] at h
    split at h
    · cases h
    · rename_i m hm
      cases hrest : lookupLinenos reg t with
      | error e => simp [hrest, Except.map] at h
      | ok r =>
        simp only [hrest, Except.map, Except.ok.injEq] at h
        rw [← h]
        simp [lineNoOf, hm, ih hrest]

theorem lineidsToLinenos_ok {reg : Registry} {ids : List Nat} {ys : List LineNo}
    (h : lineidsToLinenos reg ids = .ok ys) :
    ∃ xs, ids.map (lineNoOf reg) = xs.map some ∧ ys = oset xs := by
  unfold lineidsToLinenos at h
  cases hx : lookupLinenos reg ids with
  | error e => simp [hx, Except.map] at h
  | ok xs =>
    simp only [hx, Except.map, Except.ok.injEq] at h
    exact ⟨xs, lookupLinenos_ok hx, h.symm⟩

theorem mem_linenos_iff {reg : Registry} {ids : List Nat} {xs : List LineNo}
    (h : ids.map (lineNoOf reg) = xs.map some) (x : LineNo) :
    x ∈ xs ↔ ∃ id ∈ ids, lineNoOf reg id = some x := by
  have : some x ∈ xs.map some ↔ x ∈ xs := by simp
  rw [← this, ← h, List.mem_map]

/-- Line numbers are injective over the registered line ids (one file: `register_line`
never gives two ids to one line of a file). -/
def LineNoInjective (reg : Registry) : Prop := (reg.lines.map (·.2.lineNo)).Nodup

theorem lineNoOf_key {reg : Registry} (hk : (reg.lines.map (·.1)).Nodup) {e : Nat × LineMeta}
    (he : e ∈ reg.lines) : lineNoOf reg e.1 = some e.2.lineNo := by
  simp [lineNoOf, lookup_of_mem hk (show (e.1, e.2) ∈ reg.lines from he)]

theorem linenos_of_keys {reg : Registry} (hk : (reg.lines.map (·.1)).Nodup) {xs : List LineNo}
    (h : (reg.lines.map (·.1)).map (lineNoOf reg) = xs.map some) :
    xs = reg.lines.map (·.2.lineNo) := by
  have h2 : (reg.lines.map (·.1)).map (lineNoOf reg) = (reg.lines.map (·.2.lineNo)).map some := by
    rw [List.map_map, List.map_map]
    exact List.map_congr_left (fun e he => lineNoOf_key hk he)
  rw [h2] at h
  exact ((List.map_inj_right (fun _ _ h => Option.some.inj h)).1 h).symm

theorem nodup_linenos {reg : Registry} (hinj : LineNoInjective reg)
    {ids : List Nat} (hids : ids.Nodup) {xs : List LineNo}
    (h : ids.map (lineNoOf reg) = xs.map some) : xs.Nodup := by
  have h1 : (ids.map (lineNoOf reg)).Nodup := by
    apply nodup_map_of_inj_on hids
    intro a ha b hb hab
    have hxa : lineNoOf reg a ∈ xs.map some := by rw [← h]; exact List.mem_map.2 ⟨a, ha, rfl⟩
    obtain ⟨x, _, hx⟩ := List.mem_map.1 hxa
    have ha' : lineNoOf reg a = some x := hx.symm
    have hb' : lineNoOf reg b = some x := by rw [← hab]; exact ha'
    unfold lineNoOf at ha' hb'
    cases hla : reg.lines.lookup a with
    | none => simp [hla] at ha'
    | some ma =>
      cases hlb : reg.lines.lookup b with
      | none => simp [hlb] at hb'
      | some mb =>
        simp only [hla, hlb, Option.map_some, Option.some.injEq] at ha' hb'
        have hma := mem_of_lookup hla
        have hmb := mem_of_lookup hlb
        -- two registered entries with the same line number are the same entry
        have : ∀ (l : List (Nat × LineMeta)), (l.map (·.2.lineNo)).Nodup → (a, ma) ∈ l → (b, mb) ∈ l →
            (a, ma) = (b, mb) := by
          intro l hl h1 h2
          induction l with
          | nil => simp at h1
          | cons e t ih =>
            simp only [List.map_cons, List.nodup_cons, List.mem_map, not_exists, not_and] at hl
            simp only [List.mem_cons] at h1 h2
            rcases h1 with h1 | h1 <;> rcases h2 with h2 | h2
            · rw [h1, h2]
            · exact absurd (by rw [← h1]; simp [ha', hb']) (hl.1 (b, mb) h2)
            · exact absurd (by rw [← h2]; simp [ha', hb']) (hl.1 (a, ma) h1)
            · exact ih hl.2 h1 h2
        exact (Prod.mk.inj (this _ hinj hma hmb)).1
  rw [h, List.Nodup, List.pairwise_map] at h1
  exact h1.imp (fun hne e => hne (congrArg some e))

/-! ### The merged trace -/

/-- What every trace built by `analyze_results` satisfies: its sets are sets, its dicts are dicts. -/
def TInv (t : Trace) : Prop :=
  t.executedCodeObjects.Nodup ∧ t.coveredLineIds.Nodup ∧ (t.trueDistances.map (·.1)).Nodup ∧
    (t.falseDistances.map (·.1)).Nodup

theorem nodup_keys_mergeMin {t : List (Nat × Dist)} (h : (t.map (·.1)).Nodup) (s : List (Nat × Dist)) :
    ((mergeMin t s).map (·.1)).Nodup := by
  unfold mergeMin
  exact foldl_invariant (fun m => (m.map (·.1)).Nodup) _ s t h
    (fun b x _ hb => nodup_keys_dictSet hb _ _)

theorem mem_keys_mergeMin {t s : List (Nat × Dist)} {k : Nat} (h : k ∈ (mergeMin t s).map (·.1)) :
    k ∈ t.map (·.1) ∨ k ∈ s.map (·.1) := by
  unfold mergeMin at h
  induction s generalizing t with
  | nil => exact Or.inl h
  | cons e r ih =>
    simp only [List.foldl_cons] at h
    rcases ih h with h' | h'
    · rcases mem_keys_dictSet.1 h' with h'' | h''
      · exact Or.inl h''
      · exact Or.inr (by simp [h''])
    · exact Or.inr (by simp only [List.map_cons, List.mem_cons]; exact Or.inr h')

theorem tinv_empty : TInv {} := by simp [TInv]

theorem tinv_merge {a : Trace} (h : TInv a) (b : Trace) : TInv (a.merge b) :=
  ⟨nodup_osetUpdate h.1 _, nodup_osetUpdate h.2.1 _, nodup_keys_mergeMin h.2.2.1 _,
    nodup_keys_mergeMin h.2.2.2 _⟩

theorem tinv_analyze (ts : List Trace) : TInv (analyzeResults ts) :=
  foldl_invariant TInv Trace.merge ts {} tinv_empty (fun b x _ hb => tinv_merge hb x)

theorem mem_cov_foldl (ts : List Trace) (a : Trace) (x : Nat) :
    x ∈ (ts.foldl Trace.merge a).coveredLineIds ↔
      x ∈ a.coveredLineIds ∨ ∃ t ∈ ts, x ∈ t.coveredLineIds := by
  induction ts generalizing a with
  | nil => simp
  | cons t r ih =>
    simp only [List.foldl_cons, ih, Trace.merge, mem_osetUpdate, List.mem_cons, exists_eq_or_imp]
    exact or_assoc

theorem keys_td_foldl (ts : List Trace) (a : Trace) (k : Nat)
    (h : k ∈ (ts.foldl Trace.merge a).trueDistances.map (·.1)) :
    k ∈ a.trueDistances.map (·.1) ∨ ∃ t ∈ ts, k ∈ t.trueDistances.map (·.1) := by
  induction ts generalizing a with
  | nil => exact Or.inl h
  | cons t r ih =>
    simp only [List.foldl_cons] at h
    rcases ih _ h with h' | ⟨t', ht', hk⟩
    · rcases mem_keys_mergeMin (t := a.trueDistances) (s := t.trueDistances) h' with h'' | h''
      · exact Or.inl h''
      · exact Or.inr ⟨t, by simp, h''⟩
    · exact Or.inr ⟨t', by simp [ht'], hk⟩

theorem keys_fd_foldl (ts : List Trace) (a : Trace) (k : Nat)
    (h : k ∈ (ts.foldl Trace.merge a).falseDistances.map (·.1)) :
    k ∈ a.falseDistances.map (·.1) ∨ ∃ t ∈ ts, k ∈ t.falseDistances.map (·.1) := by
  induction ts generalizing a with
  | nil => exact Or.inl h
  | cons t r ih =>
    simp only [List.foldl_cons] at h
    rcases ih _ h with h' | ⟨t', ht', hk⟩
    · rcases mem_keys_mergeMin (t := a.falseDistances) (s := t.falseDistances) h' with h'' | h''
      · exact Or.inl h''
      · exact Or.inr ⟨t, by simp, h''⟩
    · exact Or.inr ⟨t', by simp [ht'], hk⟩

/-! ### Counting covered goals two ways -/

theorem sum_map_add {α} (l : List α) (g h : α → Nat) :
    (l.map (fun x => g x + h x)).sum = (l.map g).sum + (l.map h).sum := by
  induction l with
  | nil => rfl
  | cons a t ih => simp only [List.map_cons, List.sum_cons, ih]; omega

/-- Summing "this predicate has a zero distance" over the registered predicates counts the zero
entries of the distance dict, when the dict's keys are registered predicates. -/
theorem sum_zeroIn_eq (ds : List (Nat × Dist)) (P : List Nat) (hd : (ds.map (·.1)).Nodup)
    (hP : P.Nodup) (hsub : ∀ k ∈ ds.map (·.1), k ∈ P) :
    (P.map (fun p => if zeroIn ds p then 1 else 0)).sum
      = (ds.filter (fun e => e.2.isZero)).length := by
  rw [sum_indicator_eq_length_filter]
  have hz : ∀ p, zeroIn ds p = decide (p ∈ (ds.filter (fun e => e.2.isZero)).map (·.1)) := by
    intro p
    rw [Bool.eq_iff_iff]
    simp only [zeroIn, List.any_eq_true, Bool.and_eq_true, beq_iff_eq, decide_eq_true_eq,
      List.mem_map, List.mem_filter]
    constructor
    · rintro ⟨e, he, h1, h2⟩; exact ⟨e, ⟨he, h2⟩, h1⟩
    · rintro ⟨e, ⟨he, h2⟩, h1⟩; exact ⟨e, he, h1, h2⟩
  rw [List.filter_congr (fun p _ => hz p)]
  have hzn : ((ds.filter (fun e => e.2.isZero)).map (·.1)).Nodup :=
    List.Nodup.sublist (List.Sublist.map _ List.filter_sublist) hd
  rw [length_filter_mem_of_subset hP hzn]
  · simp
  · intro x hx
    obtain ⟨e, he, rfl⟩ := List.mem_map.1 hx
    exact hsub _ (List.mem_map.2 ⟨e, (List.mem_filter.1 he).1, rfl⟩)

theorem count_branchless_eq (BL : List (Nat × Int)) (ex : List Nat) (hb : (BL.map (·.1)).Nodup)
    (he : ex.Nodup) :
    (BL.map (fun c => if c.1 ∈ ex then 1 else 0)).sum
      = (ex.filter (fun c => BL.any (fun b => b.1 == c))).length := by
  have h1 : (BL.map (fun c => if c.1 ∈ ex then 1 else 0)).sum
      = ((BL.map (·.1)).map (fun c => if decide (c ∈ ex) then 1 else 0)).sum := by
    rw [List.map_map]; congr 1; apply List.map_congr_left; intro c _; simp
  rw [h1, sum_indicator_eq_length_filter, length_filter_mem_comm hb he]
  congr 1
  apply List.filter_congr
  intro c _
  rw [Bool.eq_iff_iff]
  simp only [decide_eq_true_eq, List.mem_map, List.any_eq_true, beq_iff_eq]

/-! ### `register_line` -/

/-- Ids are `0 … n-1` in order, no two registered lines are `==`, all are lines of file `f`. -/
def RegInv (f : String) (lines : List (Nat × LineMeta)) : Prop :=
  lines.map (·.1) = List.range lines.length ∧
    lines.Pairwise (fun a b => a.2.eqv b.2 = false) ∧ ∀ e ∈ lines, e.2.file = f

theorem regInv_registerLine {f : String} {lines : List (Nat × LineMeta)} (h : RegInv f lines)
    (lm : LineMeta) (hf : lm.file = f) : RegInv f (registerLine lines lm).1 := by
  unfold registerLine
  cases hfind : lines.find? (fun e => e.2.eqv lm) with
  | some e => exact h
  | none =>
    have hnk : lines.length ∉ lines.map (·.1) := by rw [h.1]; simp
    have hset : dictSet lines lines.length lm = lines ++ [(lines.length, lm)] := by
      unfold dictSet
      have : ¬ (lines.any (fun e => e.1 == lines.length) = true) :=
        fun h' => hnk ((any_key_iff lines _).1 h')
      rw [if_neg this]
    simp only [hset]
    refine ⟨?_, ?_, ?_⟩
    · simp [h.1, List.range_succ]
    · rw [List.pairwise_append]
      refine ⟨h.2.1, by simp, ?_⟩
      intro a ha b hb
      simp only [List.mem_singleton] at hb
      subst hb
      have := List.find?_eq_none.1 hfind a ha
      simpa using this
    · intro e he
      simp only [List.mem_append, List.mem_singleton] at he
      rcases he with he | rfl
      · exact h.2.2 e he
      · exact hf

theorem regInv_registerLines {f : String} (metas : List LineMeta) (hf : ∀ m ∈ metas, m.file = f)
    {lines : List (Nat × LineMeta)} (h : RegInv f lines) : RegInv f (registerLines lines metas) := by
  unfold registerLines
  induction metas generalizing lines with
  | nil => exact h
  | cons m t ih =>
    simp only [List.foldl_cons]
    exact ih (fun m' hm' => hf m' (by simp [hm'])) (regInv_registerLine h m (hf m (by simp)))

theorem regInv_nil (f : String) : RegInv f [] := ⟨rfl, List.Pairwise.nil, by simp⟩

theorem regInv_nodup {f : String} {lines : List (Nat × LineMeta)} (h : RegInv f lines) :
    (lines.map (·.1)).Nodup ∧ (lines.map (·.2.lineNo)).Nodup := by
  refine ⟨by rw [h.1]; exact List.nodup_range, ?_⟩
  rw [List.Nodup, List.pairwise_map]
  refine h.2.1.imp_of_mem ?_
  intro a b ha hb hab heq
  have : a.2.eqv b.2 = true := by
    simp [LineMeta.eqv, heq, h.2.2 a ha, h.2.2 b hb]
  rw [hab] at this
  cases this

/-! ### What a successful `get_coverage_report` returned -/

/-- The annotations after the BRANCH step of `get_coverage_report`. -/
def anns1 (reg : Registry) (tr : Trace) (n : Nat) (b : Bool) : List LineAnn :=
  if b then annT (fun l => branchAnn l (lineToBranchlessCoverage reg tr) (lineToBranchCoverage reg tr))
    (blankAnns n) 0
  else blankAnns n

/-- What a successful `get_coverage_report` returned, spelled out. -/
structure ReportSpec (traces : List Trace) (reg : Registry) (ms : Metrics) (n : Nat) (r : Report) :
    Prop where
  nsrc_pos : n ≠ 0
  branch_on : ms.branch = true →
    (∃ bc, computeBranchCoverage (analyzeResults traces) reg = .ok bc ∧ r.branchCoverage = some bc) ∧
      r.branches = (lineToBranchCoverage reg (analyzeResults traces)).total ∧
      r.branchless = (lineToBranchlessCoverage reg (analyzeResults traces)).total
  branch_off : ms.branch = false → r.branchCoverage = none ∧ r.branches = {} ∧ r.branchless = {}
  line_on : ms.line = true → ∃ lc cl el,
    computeLineCoverage (analyzeResults traces) reg = .ok lc ∧ r.lineCoverage = some lc ∧
      lineidsToLinenos reg (analyzeResults traces).coveredLineIds = .ok cl ∧
      lineidsToLinenos reg (reg.lines.map (·.1)) = .ok el ∧
      r.lines = ⟨cl.length, el.length⟩ ∧
      r.lineAnnotations = annT (fun l => lineAnn l cl el) (anns1 reg (analyzeResults traces) n ms.branch) 0
  line_off : ms.line = false →
    r.lineCoverage = none ∧ r.lines = {} ∧ r.lineAnnotations = anns1 reg (analyzeResults traces) n ms.branch

theorem report_spec {traces reg ms n r} (h : getCoverageReport traces reg ms n = .ok r) :
    ReportSpec traces reg ms n r := by
  obtain ⟨b, l⟩ := ms
  unfold getCoverageReport at h
  simp only [bind, Except.bind, pure, Except.pure, throw, throwThe, MonadExceptOf.throw] at h
  split at h
  · cases h
  rename_i hn
  cases b <;> cases l <;> simp only [Bool.false_eq_true, if_false, if_true] at h
  · cases h
    exact ⟨hn, by simp, by simp, by simp, by simp [anns1]⟩
  · split at h
    · cases h
    rename_i lc hlc
    split at h
    · cases h
    rename_i cl hcl
    split at h
    · cases h
    rename_i el hel
    split at h
    · cases h
    rename_i a2 ha2
    cases h
    refine ⟨hn, by simp, by simp, ?_, by simp⟩
    intro _
    exact ⟨lc, cl, el, hlc, rfl, hcl, hel, rfl, by simpa [anns1] using annotate_ok ha2⟩
  · split at h
    · cases h
    rename_i bc hbc
    split at h
    · cases h
    rename_i a1 ha1
    cases h
    refine ⟨hn, ?_, by simp, by simp, ?_⟩
    · intro _; exact ⟨⟨bc, hbc, rfl⟩, rfl, rfl⟩
    · intro _; exact ⟨rfl, rfl, by simpa [anns1] using annotate_ok ha1⟩
  · split at h
    · cases h
    rename_i bc hbc
    split at h
    · cases h
    rename_i a1 ha1
    split at h
    · cases h
    rename_i lc hlc
    split at h
    · cases h
    rename_i cl hcl
    split at h
    · cases h
    rename_i el hel
    split at h
    · cases h
    rename_i a2 ha2
    cases h
    refine ⟨hn, ?_, by simp, ?_, by simp⟩
    · intro _; exact ⟨⟨bc, hbc, rfl⟩, rfl, rfl⟩
    · intro _
      refine ⟨lc, cl, el, hlc, rfl, hcl, hel, rfl, ?_⟩
      have := annotate_ok ha1
      subst this
      simpa [anns1] using annotate_ok ha2

/-! ### Auxiliary facts about the three annotation components -/

theorem sum_anns1 (reg : Registry) (tr : Trace) (n : Nat) (b : Bool) (q : LineAnn → Nat)
    (hq : ∀ a c, q (a.addT c) = q a + q c) (hz : ∀ a ∈ blankAnns n, q a = 0) :
    ((anns1 reg tr n b).map q).sum
      = if b then sumFrom (fun i => q (branchAnn i (lineToBranchlessCoverage reg tr)
          (lineToBranchCoverage reg tr))) 0 n else 0 := by
  unfold anns1
  cases b
  · simp [sum_map_zero _ q hz]
  · simp only [if_true]
    rw [sum_annT q hq, sum_map_zero _ q hz, length_blank]; omega

theorem length_anns1 (reg : Registry) (tr : Trace) (n : Nat) (b : Bool) :
    (anns1 reg tr n b).length = n := by
  unfold anns1; cases b <;> simp [length_annT, length_blank]

theorem aligned_anns1 (reg : Registry) (tr : Trace) (n : Nat) (b : Bool) :
    Aligned (anns1 reg tr n b) 0 := by
  unfold anns1; cases b
  · exact aligned_blank n
  · exact aligned_annT (aligned_blank n)

theorem lines_anns1 {reg : Registry} {tr : Trace} {n : Nat} {b : Bool} {a : LineAnn}
    (ha : a ∈ anns1 reg tr n b) : a.lines = ⟨0, 0⟩ ∧
      (b = false → a.branches = ⟨0, 0⟩ ∧ a.branchless = ⟨0, 0⟩ ∧ a.total = ⟨0, 0⟩) := by
  unfold anns1 at ha
  cases b
  · obtain ⟨h1, h2, h3, h4⟩ := mem_blank ha
    simp [h1, h2, h3, h4]
  · simp only [if_true] at ha
    obtain ⟨c, hc, rfl⟩ := mem_annT (aligned_blank n) ha
    obtain ⟨_, _, _, h4⟩ := mem_blank hc
    refine ⟨?_, by simp⟩
    simp only [LineAnn.addT, branchAnn, h4]
    rfl

/-- The two per-line maps are balanced (their entries over the source lines sum to their totals)
and their totals are the sums of the per-goal contributions. -/
theorem maps_spec (reg : Registry) (tr : Trace) (n : Nat) {p} (hp : Additive p) :
    let pr := lineToBranchCoverage reg tr
    let co := lineToBranchlessCoverage reg tr
    p pr.total = (reg.predicates.map (fun x => ((predCs tr x).map p).sum)).sum ∧
    p co.total = (reg.branchLess.map (fun c => ((blCs tr c).map p).sum)).sum ∧
    ((∀ x ∈ reg.predicates, InRange x.2.lineNo 0 n) →
      sumFrom (fun i => p (pr.get (some i))) 0 n = p pr.total) ∧
    ((∀ c ∈ reg.branchLess, InRange (some c.2) 0 n) →
      sumFrom (fun i => p (co.get (some i))) 0 n = p co.total) := by
  intro pr co
  have hpr := fold_addMany_spec hp n (fun x : Nat × PredMeta => x.2.lineNo) (predCs tr)
    reg.predicates [] keysNodup_nil
  have hco := fold_addMany_spec hp n (fun c : Nat × Int => (some c.2 : LineNo)) (blCs tr)
    reg.branchLess [] keysNodup_nil
  rw [← lineToBranchCoverage_eq] at hpr
  rw [← lineToBranchlessCoverage_eq] at hco
  have hnil : psum p [] = 0 := rfl
  refine ⟨?_, ?_, ?_, ?_⟩
  · rw [total_eq_psum hp]; show psum p (lineToBranchCoverage reg tr) = _; rw [hpr.2.1, hnil]; omega
  · rw [total_eq_psum hp]; show psum p (lineToBranchlessCoverage reg tr) = _; rw [hco.2.1, hnil]; omega
  · intro h; rw [total_eq_psum hp]; exact hpr.2.2 h (bal_nil hp n)
  · intro h; rw [total_eq_psum hp]; exact hco.2.2 h (bal_nil hp n)

theorem blank_zero (n : Nat) (g : LineAnn → CovEntry) (p : CovEntry → Nat) (hp : Additive p)
    (hg : ∀ a ∈ blankAnns n, g a = {}) : ∀ a ∈ blankAnns n, p (g a) = 0 := by
  intro a ha; rw [hg a ha, hp.zero]

/-- The line numbers returned by `lineids_to_linenos` are registered line numbers. -/
theorem linenos_in_range {reg : Registry} {n : Nat}
    (hsrc : ∀ e ∈ reg.lines, InRange e.2.lineNo 0 n)
    {ids : List Nat} {ys : List LineNo} (h : lineidsToLinenos reg ids = .ok ys) :
    ys.Nodup ∧ ∀ k ∈ ys, InRange k 0 n := by
  obtain ⟨xs, hxs, rfl⟩ := lineidsToLinenos_ok h
  refine ⟨nodup_oset xs, ?_⟩
  intro k hk
  rw [mem_oset, mem_linenos_iff hxs] at hk
  obtain ⟨id, _, hid⟩ := hk
  unfold lineNoOf at hid
  cases hl : reg.lines.lookup id with
  | none => simp [hl] at hid
  | some m =>
    simp only [hl, Option.map_some, Option.some.injEq] at hid
    rw [← hid]
    exact hsrc (id, m) (mem_of_lookup hl)

theorem assertUnit_ok {c q : Rat} (h : assertUnit c = .ok q) : q = c := by
  unfold assertUnit at h
  split at h
  · cases h; rfl
  · cases h

theorem inRange_of_bool {k : LineNo} {n : Nat}
    (h : (match k with | some i => decide (0 < i ∧ i ≤ (n : Int)) | none => false) = true) :
    InRange k 0 n := by
  cases k with
  | none => cases h
  | some i =>
    simp only [decide_eq_true_eq] at h
    exact ⟨i, rfl, by omega, by omega⟩

end PynguinModel.Report
