import PynguinModel.Model.FsIsolation
/-!
# Lemmas for the filesystem-isolation model (C29)

The invariant `Inv init s`:
* `fresh` — no recorded path existed initially (`_created ∩ initial = ∅`);
* `kept`  — every initially existing path still has its initial node/content;
* `cov`   — every existing path that did not exist initially is at or below a recorded path.

Every tracked operation preserves it (`step_pres`); `exitCleanup` removes exactly the covered paths.
-/

namespace PynguinModel.FsIsolation

/-! ## paths and the finite map -/

theorem under_iff {p r : Path} : under p r = true ↔ p <+: r := by
  simp [under]

theorem under_refl (p : Path) : under p p = true := under_iff.2 (List.prefix_refl p)

theorem under_trans {a b c : Path} (h1 : under a b = true) (h2 : under b c = true) : under a c = true :=
  under_iff.2 (List.IsPrefix.trans (under_iff.1 h1) (under_iff.1 h2))

theorem under_append (q x : Path) : under q (q ++ x) = true := under_iff.2 (List.prefix_append q x)

theorem get_filter (P : Path → Bool) (fs : FS) (r : Path) :
    get (fs.filter (fun e => P e.1)) r = if P r = true then get fs r else none := by
  induction fs with
  | nil => simp [get]
  | cons e rest ih =>
    obtain ⟨q, n⟩ := e
    by_cases hq : P q = true
    · rw [List.filter_cons_of_pos (by simpa using hq)]
      simp only [get]
      by_cases hqr : q = r
      · subst hqr; simp [hq]
      · simp only [hqr, if_false]; exact ih
    · rw [List.filter_cons_of_neg (by simpa using hq)]
      simp only [get]
      by_cases hqr : q = r
      · subst hqr; simp only [if_true]; rw [ih]; simp [hq]
      · simp only [hqr, if_false]; exact ih

theorem get_put (fs : FS) (p : Path) (n : Node) (r : Path) :
    get (put fs p n) r = if p = r then some n else get fs r := by
  unfold put
  simp only [get]
  by_cases h : p = r
  · simp [h]
  · simp only [h, if_false]
    rw [get_filter (fun x => x != p)]
    have : (r != p) = true := by simpa using fun e => h e.symm
    simp [this]

theorem get_removeSubtree (fs : FS) (p r : Path) :
    get (removeSubtree fs p) r = if under p r = true then none else get fs r := by
  unfold removeSubtree
  rw [get_filter (fun x => !under p x)]
  by_cases h : under p r = true <;> simp [h]

theorem get_removeBelow (fs : FS) (p r : Path) :
    get (removeBelow fs p) r = if (under p r && r != p) = true then none else get fs r := by
  unfold removeBelow
  rw [get_filter (fun x => !(under p x && x != p))]
  by_cases h : (under p r && r != p) = true <;> simp [h]

theorem get_append (a b : FS) (r : Path) :
    get (a ++ b) r = match get a r with | some n => some n | none => get b r := by
  induction a with
  | nil => simp [get]
  | cons e rest ih =>
    obtain ⟨q, n⟩ := e
    simp only [List.cons_append, get]
    by_cases h : q = r <;> simp [h, ih]

theorem get_some_mem {fs : FS} {r : Path} (h : get fs r ≠ none) : ∃ e ∈ fs, e.1 = r := by
  induction fs with
  | nil => simp [get] at h
  | cons e rest ih =>
    obtain ⟨q, n⟩ := e
    simp only [get] at h
    by_cases hq : q = r
    · exact ⟨(q, n), by simp, hq⟩
    · simp only [hq, if_false] at h
      obtain ⟨e, he, h1⟩ := ih h
      exact ⟨e, by simp [he], h1⟩

/-- untouched paths survive a rename -/
theorem get_rename_other (fs : FS) (p q r : Path) (hp : under p r = false) (hq : under q r = false) :
    get (renameSubtree fs p q) r = get fs r := by
  unfold renameSubtree
  rw [get_append, get_filter (fun x => !under p x && !under q x)]
  simp only [hp, hq, Bool.not_false, Bool.and_self, if_true]
  cases hg : get fs r with
  | some n => rfl
  | none =>
    simp only
    apply Classical.byContradiction
    intro hne
    obtain ⟨e, he, h1⟩ := get_some_mem hne
    simp only [List.mem_map, List.mem_filter] at he
    obtain ⟨e', _, rfl⟩ := he
    simp only [rekey] at h1
    rw [← h1, under_append] at hq
    cases hq

/-- whatever exists after a rename is below the destination, or existed before outside the source -/
theorem get_rename_ne_none (fs : FS) (p q r : Path) (h : get (renameSubtree fs p q) r ≠ none) :
    under q r = true ∨ (get fs r ≠ none ∧ under p r = false) := by
  unfold renameSubtree at h
  rw [get_append, get_filter (fun x => !under p x && !under q x)] at h
  by_cases hc : (!under p r && !under q r) = true
  · simp only [hc, if_true] at h
    cases hg : get fs r with
    | some n =>
      right
      simp only [Bool.and_eq_true, Bool.not_eq_true'] at hc
      exact ⟨by simp, hc.1⟩
    | none =>
      rw [hg] at h
      simp only at h
      obtain ⟨e, he, h1⟩ := get_some_mem h
      simp only [List.mem_map, List.mem_filter] at he
      obtain ⟨e', _, rfl⟩ := he
      simp only [rekey] at h1
      left; rw [← h1]; exact under_append _ _
  · simp only [hc] at h
    simp only [Bool.false_eq_true, if_false] at h
    obtain ⟨e, he, h1⟩ := get_some_mem h
    simp only [List.mem_map, List.mem_filter] at he
    obtain ⟨e', _, rfl⟩ := he
    simp only [rekey] at h1
    left; rw [← h1]; exact under_append _ _

/-! ## bookkeeping -/

theorem covered_iff {cr : List Path} {r : Path} : covered cr r = true ↔ ∃ c ∈ cr, under c r = true := by
  simp [covered]

theorem covered_mono {cr cr' : List Path} {r : Path} (h : ∀ c ∈ cr, c ∈ cr') (hc : covered cr r = true) :
    covered cr' r = true := by
  obtain ⟨c, hm, hu⟩ := covered_iff.1 hc
  exact covered_iff.2 ⟨c, h c hm, hu⟩

theorem mem_forget {cr : List Path} {p c : Path} : c ∈ forget cr p ↔ c ∈ cr ∧ c ≠ p := by
  simp [forget]

theorem mem_record {cr ps : List Path} {c : Path} : c ∈ record cr ps ↔ c ∈ cr ∨ c ∈ ps := by
  simp [record]

/-! ## the invariant -/

structure Inv (init : FS) (s : St) : Prop where
  fresh : ∀ c ∈ s.created, get init c = none
  kept : ∀ r, get init r ≠ none → get s.fs r = get init r
  cov : ∀ r, get s.fs r ≠ none → get init r ≠ none ∨ covered s.created r = true

theorem Inv.start (init : FS) : Inv init ⟨init, []⟩ :=
  ⟨by simp, fun _ _ => rfl, fun _ h => Or.inl h⟩

variable {init : FS}

/-- a path at or below a recorded path did not exist initially -/
theorem Inv.covered_fresh {s : St} (hs : Inv init s) (hpc : PrefixClosed init) {r : Path}
    (h : covered s.created r = true) : get init r = none := by
  obtain ⟨c, hm, hu⟩ := covered_iff.1 h
  apply Classical.byContradiction
  intro hne
  exact hpc r c hne (under_iff.1 hu) (hs.fresh c hm)

/-- `_owns` never claims an initially existing path -/
theorem Inv.owns_fresh {s : St} (hs : Inv init s) (hpc : PrefixClosed init) {p : Path}
    (h : owns s p = true) : get init p = none := by
  unfold owns at h
  rcases (Bool.or_eq_true_iff.1 h) with h1 | h1
  · apply Classical.byContradiction
    intro hne
    have := hs.kept p hne
    simp only [pexists, Bool.not_eq_true', Option.isSome_eq_false_iff, Option.isNone_iff_eq_none] at h1
    rw [h1] at this
    exact hne this.symm
  · exact hs.covered_fresh hpc h1

/-- nothing at or below a fresh path existed initially -/
theorem fresh_below (hpc : PrefixClosed init) {q r : Path} (hq : get init q = none) (hu : under q r = true) :
    get init r = none := by
  apply Classical.byContradiction
  intro hne
  exact hpc r q hne (under_iff.1 hu) hq

/-- the state after one leaf call: new file system, new bookkeeping -/
theorem Inv.step {s : St} (hs : Inv init s) (fs' : FS) (cr' : List Path)
    (hfresh : ∀ c ∈ cr', c ∈ s.created ∨ get init c = none)
    (hkept : ∀ r, get init r ≠ none → get fs' r = get s.fs r)
    (hcov : ∀ r, get fs' r ≠ none → get init r ≠ none ∨ covered cr' r = true) :
    Inv init ⟨fs', cr'⟩ :=
  ⟨fun c hc => (hfresh c hc).elim (hs.fresh c) id,
   fun r hr => (hkept r hr).trans (hs.kept r hr),
   hcov⟩

/-- bookkeeping may grow by fresh paths (and must keep everything it had) -/
theorem Inv.recordMono {s : St} (hs : Inv init s) (cr' : List Path)
    (hsup : ∀ c ∈ s.created, c ∈ cr')
    (hfresh : ∀ c ∈ cr', c ∈ s.created ∨ get init c = none) : Inv init ⟨s.fs, cr'⟩ :=
  hs.step s.fs cr' hfresh (fun _ _ => rfl)
    (fun r hr => (hs.cov r hr).imp id (covered_mono hsup))

theorem prefixClosed_of_check {fs : FS} (h : prefixClosedB fs = true) : PrefixClosed fs := by
  intro r q hr hq
  obtain ⟨e, he, rfl⟩ := get_some_mem hr
  simp only [prefixClosedB, List.all_eq_true, List.mem_range] at h
  have h1 := h e he q.length (Nat.lt_succ_of_le hq.length_le)
  rw [← List.prefix_iff_eq_take.1 hq] at h1
  simp only [pexists, Option.isSome_iff_ne_none] at h1
  exact h1

end PynguinModel.FsIsolation
