import PynguinModel.Model.Stopping
/-!
# Helper definitions and lemmas for C17

* the *recognised shapes*: `IterBudget` / `ExecBudget` / `StmtBudget` (what a condition table row has
  to say for the counter to count iterations / executions / executed statements and to be compared
  with `>=`), `Skeleton.GuardOK` / `Skeleton.WF` (what a loop skeleton has to look like);
* the invariant `Tracks P m`: every condition whose row has shape `P` holds `m s` in its counter;
* preservation of the invariant by every step of `generate_tests`.
-/
namespace PynguinModel.Stopping

/-- The row counts completed iterations and is compared with `>=`. -/
def IterBudget (sp : CondSpec) : Prop :=
  sp.cmp = .ge ∧ sp.onSearchStart = [.set0] ∧ sp.onAfterIteration = [.add1] ∧
  sp.onBeforeExec = [] ∧ sp.onAfterExec = []

/-- The row counts test executions (attached to the executor) and is compared with `>=`. -/
def ExecBudget (sp : CondSpec) : Prop :=
  sp.cmp = .ge ∧ sp.observesExecution = true ∧ sp.onSearchStart = [.set0] ∧
  sp.onAfterIteration = [] ∧ sp.onBeforeExec = [.add1] ∧ sp.onAfterExec = []

/-- The row sums `result.num_executed_statements` (attached to the executor), compared with `>=`. -/
def StmtBudget (sp : CondSpec) : Prop :=
  sp.cmp = .ge ∧ sp.observesExecution = true ∧ sp.onSearchStart = [.set0] ∧
  sp.onAfterIteration = [] ∧ sp.onBeforeExec = [] ∧ sp.onAfterExec = [.addResultStmts]

instance (sp : CondSpec) : Decidable (IterBudget sp) := by unfold IterBudget; infer_instance
instance (sp : CondSpec) : Decidable (ExecBudget sp) := by unfold ExecBudget; infer_instance
instance (sp : CondSpec) : Decidable (StmtBudget sp) := by unfold StmtBudget; infer_instance

/-- `while self.resources_left() and ..` with `resources_left = all(not sc.is_fulfilled() ..)`. -/
def Skeleton.GuardOK (sk : Skeleton) : Prop :=
  sk.rlAll = true ∧ sk.rlNegated = true ∧ sk.guardResources = true

/-- `GuardOK` and exactly one `after_search_iteration` call: the last statement of the loop body. -/
def Skeleton.WF (sk : Skeleton) : Prop :=
  sk.GuardOK ∧ sk.afterIterAtEnd = 1 ∧ sk.afterIterElsewhere = 0 ∧ sk.afterIterOutside = 0

instance (sk : Skeleton) : Decidable sk.GuardOK := by unfold Skeleton.GuardOK; infer_instance
instance (sk : Skeleton) : Decidable sk.WF := by unfold Skeleton.WF; infer_instance

theorem Skeleton.WF.guardOK {sk : Skeleton} (h : sk.WF) : sk.GuardOK := h.1
theorem Skeleton.WF.afterCalls {sk : Skeleton} (h : sk.WF) : sk.afterCalls = 1 := by
  obtain ⟨_, h1, h2, _⟩ := h
  simp [Skeleton.afterCalls, h1, h2]

/-! ### Conditions keep their row and limit -/

@[simp] theorem Cond.upd_spec (c : Cond) (us n) : (c.upd us n).spec = c.spec := rfl
@[simp] theorem Cond.upd_limit (c : Cond) (us n) : (c.upd us n).limit = c.limit := rfl
@[simp] theorem Cond.upd_counter (c : Cond) (us n) : (c.upd us n).counter = applyAll us n c.counter := rfl
@[simp] theorem Cond.searchStart_spec (c : Cond) : c.searchStart.spec = c.spec := rfl
@[simp] theorem Cond.searchStart_limit (c : Cond) : c.searchStart.limit = c.limit := rfl
@[simp] theorem Cond.afterIteration_spec (c : Cond) : c.afterIteration.spec = c.spec := rfl
@[simp] theorem Cond.afterIteration_limit (c : Cond) : c.afterIteration.limit = c.limit := rfl
@[simp] theorem Cond.exec_spec (n : Nat) (c : Cond) : (Cond.exec n c).spec = c.spec := by
  unfold Cond.exec; split <;> rfl
@[simp] theorem Cond.exec_limit (n : Nat) (c : Cond) : (Cond.exec n c).limit = c.limit := by
  unfold Cond.exec; split <;> rfl

@[simp] theorem applyAll_nil (n c : Nat) : applyAll [] n c = c := rfl
@[simp] theorem applyAll_set0 (n c : Nat) : applyAll [.set0] n c = 0 := rfl
@[simp] theorem applyAll_add1 (n c : Nat) : applyAll [.add1] n c = c + 1 := rfl
@[simp] theorem applyAll_addStmts (n c : Nat) : applyAll [.addResultStmts] n c = c + n := rfl

/-! ### Ghost counters -/

@[simp] theorem St.exec_iters (s : St) (n) : (s.exec n).iters = s.iters := rfl
@[simp] theorem St.exec_execs (s : St) (n) : (s.exec n).execs = s.execs + 1 := rfl
@[simp] theorem St.exec_stmts (s : St) (n) : (s.exec n).stmts = s.stmts + n := rfl
@[simp] theorem St.exec_conds (s : St) (n) : (s.exec n).conds = s.conds.map (Cond.exec n) := rfl
@[simp] theorem St.afterIteration_iters (s : St) : s.afterIteration.iters = s.iters := rfl
@[simp] theorem St.afterIteration_execs (s : St) : s.afterIteration.execs = s.execs := rfl
@[simp] theorem St.afterIteration_stmts (s : St) : s.afterIteration.stmts = s.stmts := rfl
@[simp] theorem St.afterIteration_conds (s : St) :
    s.afterIteration.conds = s.conds.map Cond.afterIteration := rfl

theorem St.execMany_iters (s : St) (ns : List Nat) : (s.execMany ns).iters = s.iters := by
  induction ns generalizing s with
  | nil => rfl
  | cons n ns ih => simp [St.execMany, List.foldl_cons] at ih ⊢; rw [ih]; rfl

theorem St.afterIterationN_iters (s : St) (k : Nat) : (s.afterIterationN k).iters = s.iters := by
  induction k generalizing s with
  | zero => rfl
  | succ k ih => simp [St.afterIterationN, ih]

theorem St.afterIterationN_execs (s : St) (k : Nat) : (s.afterIterationN k).execs = s.execs := by
  induction k generalizing s with
  | zero => rfl
  | succ k ih => simp [St.afterIterationN, ih]

theorem St.afterIterationN_stmts (s : St) (k : Nat) : (s.afterIterationN k).stmts = s.stmts := by
  induction k generalizing s with
  | zero => rfl
  | succ k ih => simp [St.afterIterationN, ih]

@[simp] theorem St.endIteration_iters (sk : Skeleton) (s : St) :
    (s.endIteration sk).iters = s.iters + 1 := by
  simp [St.endIteration, St.afterIterationN_iters]
@[simp] theorem St.endIteration_execs (sk : Skeleton) (s : St) :
    (s.endIteration sk).execs = s.execs := by
  simp [St.endIteration, St.afterIterationN_execs]
@[simp] theorem St.endIteration_stmts (sk : Skeleton) (s : St) :
    (s.endIteration sk).stmts = s.stmts := by
  simp [St.endIteration, St.afterIterationN_stmts]
@[simp] theorem St.endIteration_conds (sk : Skeleton) (s : St) :
    (s.endIteration sk).conds = (s.afterIterationN sk.afterCalls).conds := rfl

/-! ### The invariant -/

/-- Every condition whose row has shape `P` holds the measure `m` of the state in its counter. -/
def Tracks (P : CondSpec → Prop) (m : St → Nat) (s : St) : Prop :=
  ∀ c ∈ s.conds, P c.spec → c.counter = m s

/-- Some configured condition has shape `P` and limit `L`. -/
def HasBudget (P : CondSpec → Prop) (L : Nat) (s : St) : Prop :=
  ∃ c ∈ s.conds, P c.spec ∧ c.limit = L

theorem hasBudget_map {P L} {s s' : St} (f : Cond → Cond) (hc : s'.conds = s.conds.map f)
    (hs : ∀ c, (f c).spec = c.spec) (hl : ∀ c, (f c).limit = c.limit)
    (h : HasBudget P L s) : HasBudget P L s' := by
  obtain ⟨c, hmem, hp, hL⟩ := h
  refine ⟨f c, ?_, ?_, ?_⟩
  · rw [hc]; exact List.mem_map_of_mem hmem
  · rw [hs]; exact hp
  · rw [hl]; exact hL

theorem hasBudget_exec {P L s} (n : Nat) (h : HasBudget P L s) : HasBudget P L (s.exec n) :=
  hasBudget_map (Cond.exec n) rfl (Cond.exec_spec n) (Cond.exec_limit n) h

theorem hasBudget_execMany {P L} (ns : List Nat) : ∀ {s}, HasBudget P L s → HasBudget P L (s.execMany ns) := by
  induction ns with
  | nil => intro s h; exact h
  | cons n ns ih => intro s h; exact ih (hasBudget_exec n h)

theorem hasBudget_afterIteration {P L s} (h : HasBudget P L s) : HasBudget P L s.afterIteration :=
  hasBudget_map Cond.afterIteration rfl (fun _ => rfl) (fun _ => rfl) h

theorem hasBudget_afterIterationN {P L} (k : Nat) : ∀ {s}, HasBudget P L s → HasBudget P L (s.afterIterationN k) := by
  induction k with
  | zero => intro s h; exact h
  | succ k ih => intro s h; exact ih (hasBudget_afterIteration h)

theorem hasBudget_endIteration {P L s} (sk : Skeleton) (h : HasBudget P L s) :
    HasBudget P L (s.endIteration sk) := by
  obtain ⟨c, hmem, hp⟩ := hasBudget_afterIterationN sk.afterCalls h
  exact ⟨c, by simpa using hmem, hp⟩

theorem hasBudget_searchStart {P L s} (h : HasBudget P L s) : HasBudget P L s.searchStart :=
  hasBudget_map Cond.searchStart rfl (fun _ => rfl) (fun _ => rfl) h

/-! #### iteration counter -/

theorem tracksIter_exec {s} (n : Nat) (h : Tracks IterBudget St.iters s) :
    Tracks IterBudget St.iters (s.exec n) := by
  intro c' hc' hp
  simp only [St.exec_conds, List.mem_map] at hc'
  obtain ⟨c, hc, rfl⟩ := hc'
  rw [Cond.exec_spec] at hp
  have := h c hc hp
  obtain ⟨_, _, _, hb, ha⟩ := hp
  unfold Cond.exec
  split <;> simp [hb, ha, this]

theorem tracksIter_execMany (ns : List Nat) : ∀ {s}, Tracks IterBudget St.iters s →
    Tracks IterBudget St.iters (s.execMany ns) := by
  induction ns with
  | nil => intro s h; exact h
  | cons n ns ih => intro s h; exact ih (tracksIter_exec n h)

theorem tracksIter_endIteration {sk : Skeleton} (h1 : sk.afterCalls = 1) {s}
    (h : Tracks IterBudget St.iters s) : Tracks IterBudget St.iters (s.endIteration sk) := by
  intro c' hc' hp
  simp only [St.endIteration_conds, h1, St.afterIterationN, St.afterIteration_conds,
    List.mem_map] at hc'
  obtain ⟨c, hc, rfl⟩ := hc'
  rw [Cond.afterIteration_spec] at hp
  have := h c hc hp
  obtain ⟨_, _, hi, _, _⟩ := hp
  simp [Cond.afterIteration, hi, this]

/-! #### execution counter -/

theorem tracksExec_exec {s} (n : Nat) (h : Tracks ExecBudget St.execs s) :
    Tracks ExecBudget St.execs (s.exec n) := by
  intro c' hc' hp
  simp only [St.exec_conds, List.mem_map] at hc'
  obtain ⟨c, hc, rfl⟩ := hc'
  rw [Cond.exec_spec] at hp
  have := h c hc hp
  obtain ⟨_, ho, _, _, hb, ha⟩ := hp
  simp [Cond.exec, ho, hb, ha, this]

theorem tracksExec_execMany (ns : List Nat) : ∀ {s}, Tracks ExecBudget St.execs s →
    Tracks ExecBudget St.execs (s.execMany ns) := by
  induction ns with
  | nil => intro s h; exact h
  | cons n ns ih => intro s h; exact ih (tracksExec_exec n h)

theorem tracksExec_afterIterationN (k : Nat) : ∀ {s}, Tracks ExecBudget St.execs s →
    Tracks ExecBudget St.execs (s.afterIterationN k) := by
  induction k with
  | zero => intro s h; exact h
  | succ k ih =>
    intro s h
    apply ih
    intro c' hc' hp
    simp only [St.afterIteration_conds, List.mem_map] at hc'
    obtain ⟨c, hc, rfl⟩ := hc'
    rw [Cond.afterIteration_spec] at hp
    have := h c hc hp
    obtain ⟨_, _, _, hi, _, _⟩ := hp
    simp [Cond.afterIteration, hi, this]

theorem tracksExec_endIteration (sk : Skeleton) {s} (h : Tracks ExecBudget St.execs s) :
    Tracks ExecBudget St.execs (s.endIteration sk) := by
  intro c hc hp
  have := tracksExec_afterIterationN sk.afterCalls h c (by simpa using hc) hp
  simpa [St.afterIterationN_execs] using this

/-! #### statement counter -/

theorem tracksStmt_exec {s} (n : Nat) (h : Tracks StmtBudget St.stmts s) :
    Tracks StmtBudget St.stmts (s.exec n) := by
  intro c' hc' hp
  simp only [St.exec_conds, List.mem_map] at hc'
  obtain ⟨c, hc, rfl⟩ := hc'
  rw [Cond.exec_spec] at hp
  have := h c hc hp
  obtain ⟨_, ho, _, _, hb, ha⟩ := hp
  simp [Cond.exec, ho, hb, ha, this]

theorem tracksStmt_execMany (ns : List Nat) : ∀ {s}, Tracks StmtBudget St.stmts s →
    Tracks StmtBudget St.stmts (s.execMany ns) := by
  induction ns with
  | nil => intro s h; exact h
  | cons n ns ih => intro s h; exact ih (tracksStmt_exec n h)

theorem tracksStmt_afterIterationN (k : Nat) : ∀ {s}, Tracks StmtBudget St.stmts s →
    Tracks StmtBudget St.stmts (s.afterIterationN k) := by
  induction k with
  | zero => intro s h; exact h
  | succ k ih =>
    intro s h
    apply ih
    intro c' hc' hp
    simp only [St.afterIteration_conds, List.mem_map] at hc'
    obtain ⟨c, hc, rfl⟩ := hc'
    rw [Cond.afterIteration_spec] at hp
    have := h c hc hp
    obtain ⟨_, _, _, hi, _, _⟩ := hp
    simp [Cond.afterIteration, hi, this]

theorem tracksStmt_endIteration (sk : Skeleton) {s} (h : Tracks StmtBudget St.stmts s) :
    Tracks StmtBudget St.stmts (s.endIteration sk) := by
  intro c hc hp
  have := tracksStmt_afterIterationN sk.afterCalls h c (by simpa using hc) hp
  simpa [St.afterIterationN_stmts] using this

/-! #### the state right after `before_search_start()` -/

theorem start_conds (specs : List (CondSpec × Nat)) :
    ∀ c ∈ ((init specs).searchStart).conds, c.counter = applyAll c.spec.onSearchStart 0 0 := by
  intro c hc
  simp only [St.searchStart, init, List.map_map, List.mem_map] at hc
  obtain ⟨p, _, rfl⟩ := hc
  rfl

theorem tracksIter_start (specs) : Tracks IterBudget St.iters ((init specs).searchStart) := by
  intro c hc hp
  rw [start_conds specs c hc, hp.2.1]; rfl

theorem tracksExec_start (specs) : Tracks ExecBudget St.execs ((init specs).searchStart) := by
  intro c hc hp
  rw [start_conds specs c hc, hp.2.2.1]; rfl

theorem tracksStmt_start (specs) : Tracks StmtBudget St.stmts ((init specs).searchStart) := by
  intro c hc hp
  rw [start_conds specs c hc, hp.2.2.1]; rfl

theorem hasBudget_start {P : CondSpec → Prop} {sp : CondSpec} {L : Nat}
    {specs : List (CondSpec × Nat)} (hmem : (sp, L) ∈ specs) (hp : P sp) :
    HasBudget P L ((init specs).searchStart) := by
  refine ⟨Cond.searchStart ⟨sp, L, 0⟩, ?_, hp, rfl⟩
  simp only [St.searchStart, init, List.map_map, List.mem_map]
  exact ⟨(sp, L), hmem, rfl⟩

/-! ### Unfolding the loop -/

theorem loop_nil (sk : Skeleton) (s : St) : loop sk s [] = ⟨[], s⟩ := by rw [loop]

theorem loop_cons_true {sk : Skeleton} {s : St} {e : Effect} (es : List Effect)
    (h : guard sk s e.pure = true) :
    loop sk s (e :: es) =
      ⟨s :: (loop sk (St.endIteration sk (s.execMany e.execs)) es).starts,
       (loop sk (St.endIteration sk (s.execMany e.execs)) es).final⟩ := by
  rw [loop]; simp [h]

theorem loop_cons_false {sk : Skeleton} {s : St} {e : Effect} (es : List Effect)
    (h : ¬ guard sk s e.pure = true) : loop sk s (e :: es) = ⟨[], s⟩ := by
  rw [loop]; simp [h]

/-! ### The guard -/

theorem guard_unfulfilled {sk : Skeleton} (hg : sk.GuardOK) {s : St} {p : Bool}
    (h : guard sk s p = true) : ∀ c ∈ s.conds, c.fulfilled = false := by
  obtain ⟨h1, h2, h3⟩ := hg
  simp only [guard, h3, if_true, resourcesLeft, h1, h2, Bool.and_eq_true, List.all_eq_true] at h
  intro c hc
  simpa using h.1 c hc

theorem guard_pure {sk : Skeleton} {s : St} {p : Bool} (h : guard sk s p = true) : p = true := by
  simp only [guard, Bool.and_eq_true] at h
  exact h.2

theorem lt_of_unfulfilled_ge {c : Cond} (hge : c.spec.cmp = .ge) (h : c.fulfilled = false) :
    c.counter < c.limit := by
  simp only [Cond.fulfilled, hge, Cmp.eval, decide_eq_false_iff_not, Nat.not_le] at h
  exact h

/-! ### Loop forms of the property theorems (induction on the offered iterations) -/

/-- Generic loop form of the iteration bound. -/
theorem loop_iters_le {sk : Skeleton} (hwf : sk.WF) {L : Nat} :
    ∀ (effs : List Effect) (s : St), Tracks IterBudget St.iters s → HasBudget IterBudget L s →
      s.iters ≤ L → (loop sk s effs).final.iters ≤ L := by
  intro effs
  induction effs with
  | nil => intro s _ _ h; rw [loop_nil]; exact h
  | cons e es ih =>
    intro s ht hb hle
    by_cases hg : guard sk s e.pure = true
    · rw [loop_cons_true es hg]
      apply ih
      · exact tracksIter_endIteration hwf.afterCalls (tracksIter_execMany e.execs ht)
      · exact hasBudget_endIteration sk (hasBudget_execMany e.execs hb)
      · obtain ⟨c, hc, hp, hL⟩ := hb
        have hlt := lt_of_unfulfilled_ge hp.1 (guard_unfulfilled hwf.guardOK hg c hc)
        rw [ht c hc hp, hL] at hlt
        simp only [St.endIteration_iters, St.execMany_iters]
        omega
    · rw [loop_cons_false es hg]
      exact hle

/-- Started iterations are completed iterations: the loop body always reaches its end. -/
theorem loop_starts_length (sk : Skeleton) :
    ∀ (effs : List Effect) (s : St),
      (loop sk s effs).final.iters = s.iters + (loop sk s effs).starts.length := by
  intro effs
  induction effs with
  | nil => intro s; simp [loop_nil]
  | cons e es ih =>
    intro s
    by_cases hg : guard sk s e.pure = true
    · rw [loop_cons_true es hg]
      simp only [List.length_cons]
      rw [ih]
      simp only [St.endIteration_iters, St.execMany_iters]
      omega
    · simp [loop_cons_false es hg]


/-- Generic loop form: every boundary at which an iteration starts has `execs < L`. -/
theorem loop_starts_execs_lt {sk : Skeleton} (hg : sk.GuardOK) {L : Nat} :
    ∀ (effs : List Effect) (s : St), Tracks ExecBudget St.execs s → HasBudget ExecBudget L s →
      ∀ s' ∈ (loop sk s effs).starts, s'.execs < L := by
  intro effs
  induction effs with
  | nil => intro s _ _ s' hs'; simp [loop_nil] at hs'
  | cons e es ih =>
    intro s ht hb s' hs'
    by_cases hgd : guard sk s e.pure = true
    · rw [loop_cons_true es hgd] at hs'
      simp only [List.mem_cons] at hs'
      rcases hs' with rfl | hs'
      · obtain ⟨c, hc, hp, hL⟩ := hb
        have hlt := lt_of_unfulfilled_ge hp.1 (guard_unfulfilled hg hgd c hc)
        rw [ht c hc hp, hL] at hlt
        exact hlt
      · exact ih _ (tracksExec_endIteration sk (tracksExec_execMany e.execs ht))
          (hasBudget_endIteration sk (hasBudget_execMany e.execs hb)) s' hs'
    · simp [loop_cons_false es hgd] at hs'


/-- Generic loop form: every boundary at which an iteration starts has `stmts < L`. -/
theorem loop_starts_stmts_lt {sk : Skeleton} (hg : sk.GuardOK) {L : Nat} :
    ∀ (effs : List Effect) (s : St), Tracks StmtBudget St.stmts s → HasBudget StmtBudget L s →
      ∀ s' ∈ (loop sk s effs).starts, s'.stmts < L := by
  intro effs
  induction effs with
  | nil => intro s _ _ s' hs'; simp [loop_nil] at hs'
  | cons e es ih =>
    intro s ht hb s' hs'
    by_cases hgd : guard sk s e.pure = true
    · rw [loop_cons_true es hgd] at hs'
      simp only [List.mem_cons] at hs'
      rcases hs' with rfl | hs'
      · obtain ⟨c, hc, hp, hL⟩ := hb
        have hlt := lt_of_unfulfilled_ge hp.1 (guard_unfulfilled hg hgd c hc)
        rw [ht c hc hp, hL] at hlt
        exact hlt
      · exact ih _ (tracksStmt_endIteration sk (tracksStmt_execMany e.execs ht))
          (hasBudget_endIteration sk (hasBudget_execMany e.execs hb)) s' hs'
    · simp [loop_cons_false es hgd] at hs'


/-- Trace form: at every boundary at which an iteration started, no configured condition was
fulfilled (whatever the conditions' table rows are). -/
theorem loop_starts_unfulfilled {sk : Skeleton} (hg : sk.GuardOK) :
    ∀ (effs : List Effect) (s : St), ∀ s' ∈ (loop sk s effs).starts,
      ∀ c ∈ s'.conds, c.fulfilled = false := by
  intro effs
  induction effs with
  | nil => intro s s' hs'; simp [loop_nil] at hs'
  | cons e es ih =>
    intro s s' hs'
    by_cases hgd : guard sk s e.pure = true
    · rw [loop_cons_true es hgd] at hs'
      simp only [List.mem_cons] at hs'
      rcases hs' with rfl | hs'
      · exact guard_unfulfilled hg hgd
      · exact ih _ s' hs'
    · simp [loop_cons_false es hgd] at hs'


end PynguinModel.Stopping
