import PynguinModel.Lemmas.Mutants
/-! Helper lemmas for C28, part 2: `read` versus `replaceAt`, positions outside a replaced subtree,
`_round_robin` is a permutation, `_sample` picks existing mutations, a regenerated mutation is one of the
full enumeration. -/
namespace PynguinModel.Mutants

/-! ### `read` -/

/-- what a parent reads in slot `i` whose original child is `k` -/
def slotVal (h : Heap) (i : Nat) (k : Tree) : Tree :=
  match h [i] with
  | some r => r
  | none => read k (h.sub i)

theorem readKids_cons (k : Tree) (ks : List Tree) (h : Heap) (i : Nat) :
    readKids (k :: ks) h i = slotVal h i k :: readKids ks h (i + 1) := by
  rw [readKids]; rfl

theorem readKids_congr : ∀ (ks : List Tree) (h h' : Heap) (i : Nat),
    (∀ j, i ≤ j → h' [j] = h [j] ∧ h'.sub j = h.sub j) → readKids ks h' i = readKids ks h i := by
  intro ks
  induction ks with
  | nil => intro h h' i _; simp [readKids]
  | cons k ks ih =>
    intro h h' i hyp
    obtain ⟨e1, e2⟩ := hyp i (Nat.le_refl i)
    rw [readKids_cons, readKids_cons, ih h h' (i + 1) (fun j hj => hyp j (by omega))]
    simp only [slotVal, e1, e2]

theorem sub_clean (i : Nat) : Heap.clean.sub i = Heap.clean := rfl

theorem read_clean : ∀ t : Tree, read t Heap.clean = t := by
  intro t
  induction t using Tree.ind with
  | step l ks ih =>
    rw [read]
    congr 1
    suffices ∀ (ks : List Tree) (i : Nat), (∀ k ∈ ks, read k Heap.clean = k) → readKids ks Heap.clean i = ks from
      this ks 0 ih
    intro ks
    induction ks with
    | nil => intro i _; simp [readKids]
    | cons k ks ih2 =>
      intro i hk
      rw [readKids_cons, ih2 (i + 1) (fun k' hk' => hk k' (List.mem_cons_of_mem _ hk'))]
      simp only [slotVal, Heap.clean, sub_clean]
      exact congrArg (· :: ks) (hk k List.mem_cons_self)
  | hole v => rw [read]

/-- only the element at position `i0` of the children changes when the heaps agree elsewhere -/
theorem readKids_modify (h h' : Heap) (i0 : Nat) (f : Tree → Tree)
    (hother : ∀ j, j ≠ i0 → h' [j] = h [j] ∧ h'.sub j = h.sub j)
    (hat : ∀ k : Tree, slotVal h' i0 k = f (slotVal h i0 k)) :
    ∀ (ks : List Tree) (j0 : Nat), j0 ≤ i0 → readKids ks h' j0 = (readKids ks h j0).modify (i0 - j0) f := by
  intro ks
  induction ks with
  | nil => intro j0 _; simp [readKids]
  | cons k ks ih =>
    intro j0 hle
    by_cases hj : j0 = i0
    · subst hj
      rw [readKids_cons, readKids_cons, Nat.sub_self, List.modify_zero_cons, hat k,
        readKids_congr ks h h' (j0 + 1) (fun j hj' => hother j (by omega))]
    · obtain ⟨e1, e2⟩ := hother j0 hj
      have : i0 - j0 = (i0 - (j0 + 1)) + 1 := by omega
      rw [readKids_cons, readKids_cons, this, List.modify_succ_cons, ih (j0 + 1) (by omega)]
      simp only [slotVal, e1, e2]

/-- overriding one live slot of the heap is replacing the subtree at that path in what is read -/
theorem read_set (r : Tree) : ∀ (q : Path) (t : Tree) (h : Heap) (i : Nat),
    (∀ s, s ≠ [] → s <+: (i :: q) → s ≠ i :: q → h s = none) →
    read t (h.set (i :: q) (some r)) = (read t h).replaceAt (i :: q) r := by
  intro q
  induction q with
  | nil =>
    intro t h i _
    cases t with
    | hole v => simp [read, Tree.replaceAt]
    | node l ks =>
    rw [read, read, Tree.replaceAt]
    congr 1
    have := readKids_modify h (h.set [i] (some r)) i (fun k => k.replaceAt [] r)
      (fun j hj => ⟨by simp [Heap.set_apply, hj], by funext p; simp [Heap.sub, Heap.set_apply, hj]⟩)
      (fun k => by simp [slotVal, Heap.set_apply, Tree.replaceAt]) ks 0 (Nat.zero_le _)
    simpa using this
  | cons i' q' ih =>
    intro t h i live
    cases t with
    | hole v => simp [read, Tree.replaceAt]
    | node l ks =>
    rw [read, read, Tree.replaceAt]
    congr 1
    have hi : h [i] = none := live [i] (by simp) (by simp) (by simp)
    have := readKids_modify h (h.set (i :: i' :: q') (some r)) i (fun k => k.replaceAt (i' :: q') r)
      (fun j hj => ⟨by simp [Heap.set_apply, hj], by funext p; simp [Heap.sub, Heap.set_apply, hj]⟩)
      (fun k => by
        have e : (h.set (i :: i' :: q') (some r)) [i] = none := by simp [Heap.set_apply, hi]
        simp only [slotVal, e, hi]
        rw [Heap.sub_set_cons]
        exact ih k (h.sub i) i' (fun s hs hp hne => live (i :: s) (by simp) (by simpa using hp) (by simpa using hne)))
      ks 0 (Nat.zero_le _)
    simpa using this

theorem readRoot_clean_set (t : Tree) (q : Path) (r : Tree) :
    readRoot t (Heap.clean.set q (some r)) = t.replaceAt q r := by
  cases q with
  | nil => simp [readRoot, Heap.set_apply, Tree.replaceAt]
  | cons i q =>
    have e : (Heap.clean.set (i :: q) (some r)) [] = none := by simp [Heap.set_apply, Heap.clean]
    rw [readRoot, e, read_set r q t Heap.clean i (fun _ _ _ _ => rfl), read_clean]

/-! ### positions outside / above a replaced subtree -/

theorem get?_replaceAt_incomparable : ∀ (t : Tree) (q : Path) (r : Tree) (p : Path),
    ¬ p <+: q → ¬ q <+: p → (t.replaceAt q r).get? p = t.get? p := by
  intro t q
  induction q generalizing t with
  | nil => intro r p _ h2; exact absurd (List.nil_prefix) h2
  | cons i q ih =>
    intro r p h1 h2
    cases p with
    | nil => exact absurd (List.nil_prefix) h1
    | cons j p =>
      cases t with
      | hole v => simp [Tree.replaceAt]
      | node l ks =>
      rw [Tree.replaceAt, Tree.get?, Tree.get?, List.getElem?_modify]
      by_cases hij : i = j
      · subst hij
        cases hk : ks[i]? with
        | none => simp
        | some k =>
          simp only [Option.map_some, if_true]
          exact ih k r p (fun hp => h1 (by simpa [List.cons_prefix_cons] using hp))
            (fun hp => h2 (by simpa [List.cons_prefix_cons] using hp))
      · cases hk : ks[j]? with
        | none => simp
        | some k => simp [hij]

theorem get?_replaceAt_above : ∀ (t : Tree) (q : Path) (r : Tree) (p : Path) (s : Tree),
    p <+: q → p ≠ q → t.get? p = some s →
    ∃ s', (t.replaceAt q r).get? p = some s' ∧ s'.label = s.label ∧ s'.kids.length = s.kids.length := by
  intro t q r p
  induction p generalizing t q with
  | nil =>
    intro s _ hne hg
    cases q with
    | nil => exact absurd rfl hne
    | cons i q =>
      cases t with
      | hole v =>
        simp only [Tree.get?, Option.some.injEq] at hg
        subst hg
        exact ⟨Tree.hole v, by rw [Tree.replaceAt, Tree.get?], rfl, rfl⟩
      | node l ks =>
      simp only [Tree.get?, Option.some.injEq] at hg
      subst hg
      refine ⟨Tree.node l (ks.modify i fun k => k.replaceAt q r), ?_, rfl, ?_⟩
      · rw [Tree.replaceAt, Tree.get?]
      · simp [Tree.kids]
  | cons j p ih =>
    intro s hp hne hg
    cases q with
    | nil => simp at hp
    | cons i q =>
      obtain ⟨hji, hp'⟩ := List.cons_prefix_cons.mp hp
      subst hji
      cases t with
      | hole v => simp [Tree.get?] at hg
      | node l ks =>
      rw [Tree.get?] at hg
      cases hk : ks[j]? with
      | none => rw [hk] at hg; cases hg
      | some k =>
        rw [hk] at hg
        obtain ⟨s', e1, e2, e3⟩ := ih k q s hp' (fun e => hne (by rw [e])) hg
        refine ⟨s', ?_, e2, e3⟩
        rw [Tree.replaceAt, Tree.get?, List.getElem?_modify, hk]
        simpa using e1

/-! ### `_round_robin` -/

theorem flatten_perm_heads_tails {α : Type} : ∀ ls : List (List α),
    ls.flatten.Perm (ls.filterMap List.head? ++ (ls.map List.tail).flatten) := by
  intro ls
  induction ls with
  | nil => simp
  | cons l ls ih =>
    cases l with
    | nil =>
      rw [List.filterMap_cons_none (by rfl)]
      simpa using ih
    | cons a l =>
      rw [List.filterMap_cons_some (b := a) (by rfl)]
      simp only [List.flatten_cons, List.map_cons, List.tail_cons, List.cons_append]
      refine List.Perm.cons a ?_
      refine (List.Perm.append_left l ih).trans ?_
      rw [← List.append_assoc, ← List.append_assoc]
      exact List.Perm.append_right _ List.perm_append_comm

theorem rrAux_perm {α : Type} : ∀ (n : Nat) (ls : List (List α)), (∀ l ∈ ls, l.length ≤ n) →
    (rrAux n ls).Perm ls.flatten := by
  intro n
  induction n with
  | zero =>
    intro ls hl
    have : ls.flatten = [] := by
      rw [List.flatten_eq_nil_iff]
      intro l hm
      exact List.length_eq_zero_iff.mp (Nat.le_zero.mp (hl l hm))
    rw [this]; exact List.Perm.refl _
  | succ n ih =>
    intro ls hl
    rw [rrAux]
    refine List.Perm.trans ?_ (flatten_perm_heads_tails ls).symm
    refine List.Perm.append_left _ (ih _ ?_)
    intro l hm
    obtain ⟨l0, hm0, rfl⟩ := List.mem_map.mp hm
    have := hl l0 hm0
    simp only [List.length_tail]
    omega

theorem foldl_max_ge {α : Type} : ∀ (ls : List (List α)) (m : Nat),
    m ≤ ls.foldl (fun m l => max m l.length) m ∧ ∀ l ∈ ls, l.length ≤ ls.foldl (fun m l => max m l.length) m := by
  intro ls
  induction ls with
  | nil => intro m; simp
  | cons l ls ih =>
    intro m
    obtain ⟨h1, h2⟩ := ih (max m l.length)
    simp only [List.foldl_cons, List.mem_cons]
    refine ⟨by omega, ?_⟩
    intro l' hl'
    rcases hl' with rfl | hl'
    · omega
    · exact h2 l' hl'

theorem roundRobin_perm {α : Type} (ls : List (List α)) : (roundRobin ls).Perm ls.flatten :=
  rrAux_perm _ ls (foldl_max_ge ls 0).2

/-! ### `_sample` -/

theorem pick_spec {α : Type} (l : List α) (draw : List Nat) :
    ∃ idxs : List Nat, idxs.Perm draw ∧ pick l draw = idxs.filterMap fun i => l[i]? :=
  ⟨_, List.mergeSort_perm draw _, rfl⟩

theorem pick_subset' {α : Type} (l : List α) (draw : List Nat) : ∀ x ∈ pick l draw, x ∈ l := by
  intro x hx
  simp only [pick, List.mem_filterMap] at hx
  obtain ⟨i, _, hi⟩ := hx
  exact List.mem_of_getElem? hi

/-! ### a regenerated mutation is a mutation of the full enumeration -/

theorem mem_yields_nodeEvs {op : Op} {tgt : Target} {p : Path} {t : Tree} {i : Info}
    (hi : i ∈ yields (nodeEvs op tgt p t)) : i ∈ yields (nodeEvs op none p t) := by
  unfold nodeEvs at *
  generalize op.vis p t = l at *
  induction l with
  | nil => simpa using hi
  | cons a l ih =>
    obtain ⟨nm, r⟩ := a
    simp only [List.flatMap_cons, yields_append] at hi ⊢
    rcases List.mem_append.mp hi with h1 | h2
    · apply List.mem_append_left
      have hn : selected none p nm = true := rfl
      by_cases hs : selected tgt p nm
      · simp only [hn, if_true]
        simpa [hs] using h1
      · simp [hs, yields] at h1
    · exact List.mem_append_right _ (ih h2)

theorem mem_yields_visit_none (op : Op) (tgt : Target) : ∀ (t : Tree) (h : Heap) (p : Path) (i : Info),
    i ∈ yields (visit op tgt h p t) → i ∈ yields (visit op none h p t) := by
  intro t
  induction t using Tree.ind with
  | step l ks ih =>
    intro h p i hi
    rw [visit] at hi ⊢
    by_cases hc : ((h []).isSome || pruned tgt p) = true
    · simp [hc, yields] at hi
    · have hh : (h []).isSome = false := by
        cases hs : (h []).isSome with
        | false => rfl
        | true => simp [hs] at hc
      simp only [hc, Bool.false_eq_true, if_false, yields_append] at hi
      simp only [hh, pruned, Bool.or_self, Bool.false_eq_true, if_false, yields_append]
      rcases List.mem_append.mp hi with h1 | h3
      · rcases List.mem_append.mp h1 with h1 | h2
        · exact List.mem_append_left _ (List.mem_append_left _ (mem_yields_nodeEvs h1))
        · refine List.mem_append_left _ (List.mem_append_right _ ?_)
          suffices ∀ (ks : List Tree) (j : Nat), (∀ k ∈ ks, ∀ (h : Heap) (p : Path) (i : Info),
              i ∈ yields (visit op tgt h p k) → i ∈ yields (visit op none h p k)) →
              i ∈ yields (visitKids op tgt h p ks j) → i ∈ yields (visitKids op none h p ks j) from
            this ks 0 ih h2
          intro ks
          induction ks with
          | nil => intro j _ hm; simpa [visitKids] using hm
          | cons k ks ih2 =>
            intro j hk hm
            rw [visitKids, yields_append, yields_lift] at hm ⊢
            rcases List.mem_append.mp hm with a | b
            · obtain ⟨i0, hi0, rfl⟩ := List.mem_map.mp a
              exact List.mem_append_left _ (List.mem_map.mpr ⟨i0, hk k List.mem_cons_self _ _ _ hi0, rfl⟩)
            · exact List.mem_append_right _ (ih2 (j + 1) (fun k' hk' => hk k' (List.mem_cons_of_mem _ hk')) b)
      · simp [yields] at h3
  | hole v => intro h p i hi; simp [visit, yields] at hi

end PynguinModel.Mutants

namespace PynguinModel.Mutants

/-! ### placeholders (`Tree.hole`): the generators only ever touch slots of real nodes -/

/-- the slot an event touches: the slot written, or the slot of the mutated node of a yield -/
def Ev.slot : Ev → Path
  | .write q _ => q
  | .yield i => i.path

/-- the path names a real node of the tree (not a placeholder, not nothing) -/
def Tree.nodeAt (t : Tree) (q : Path) : Prop := ∃ l ks, t.get? q = some (.node l ks)

theorem slot_visitKids (op : Op) (tgt : Target) : ∀ (ks : List Tree) (h : Heap) (p : Path) (i : Nat),
    (∀ k ∈ ks, ∀ (h' : Heap) (p' : Path), ∀ e ∈ visit op tgt h' p' k, k.nodeAt e.slot) →
    ∀ e ∈ visitKids op tgt h p ks i,
      e.slot = [] ∨ ∃ j q' k, e.slot = (i + j) :: q' ∧ ks[j]? = some k ∧ k.nodeAt q' := by
  intro ks
  induction ks with
  | nil => intro h p i _ e he; simp [visitKids] at he
  | cons k ks ih =>
    intro h p i hk e he
    rw [visitKids] at he
    rcases List.mem_append.mp he with h1 | h2
    · obtain ⟨e0, he0, hl⟩ := List.mem_flatMap.mp h1
      have hk0 := hk k List.mem_cons_self _ _ e0 he0
      cases e0 with
      | write q0 c0 =>
        simp only [liftEv, List.mem_singleton] at hl
        subst hl
        exact Or.inr ⟨0, q0, k, by simp [Ev.slot], by simp, hk0⟩
      | yield info =>
        simp only [liftEv, List.mem_cons, List.not_mem_nil, or_false] at hl
        rcases hl with rfl | rfl
        · exact Or.inl rfl
        · exact Or.inr ⟨0, info.path, k, by simp [Ev.slot], by simp, hk0⟩
    · rcases ih h p (i + 1) (fun k' hk' => hk k' (List.mem_cons_of_mem _ hk')) e h2 with h0 | ⟨j, q', k', e1, e2, e3⟩
      · exact Or.inl h0
      · exact Or.inr ⟨j + 1, q', k', by rw [e1]; congr 1; omega, by simpa using e2, e3⟩

/-- every write of an operator generator goes to the slot of a real node, and every yielded mutation
mutates a real node: a placeholder entry of a child list is never written, restored or mutated -/
theorem slot_visit (op : Op) (tgt : Target) : ∀ (t : Tree) (h : Heap) (p : Path),
    ∀ e ∈ visit op tgt h p t, t.nodeAt e.slot := by
  intro t
  induction t using Tree.ind with
  | hole v => intro h p e he; simp [visit] at he
  | step l ks ih =>
    intro h p e he
    have root : (Tree.node l ks).nodeAt [] := ⟨l, ks, rfl⟩
    rw [visit] at he
    rcases List.mem_append.mp he with h1 | h2
    · split at h1
      · cases h1
      · rcases List.mem_append.mp h1 with a | b
        · unfold nodeEvs at a
          obtain ⟨x, _, hx⟩ := List.mem_flatMap.mp a
          obtain ⟨nm, r⟩ := x
          dsimp only at hx
          split at hx
          · simp only [List.mem_cons, List.not_mem_nil, or_false] at hx
            rcases hx with rfl | rfl <;> exact root
          · cases hx
        · rcases slot_visitKids op tgt ks h p 0 ih e b with h0 | ⟨j, q', k, e1, e2, l', ks', e3⟩
          · rw [h0]; exact root
          · refine ⟨l', ks', ?_⟩
            rw [e1, Nat.zero_add, Tree.get?, e2]
            exact e3
    · simp only [List.mem_singleton] at h2
      subst h2
      exact root

/-- a path through a placeholder ends there -/
theorem get?_hole_prefix : ∀ (t : Tree) (p q : Path) (v : Nat) (s : Tree),
    t.get? p = some (.hole v) → p <+: q → t.get? q = some s → q = p := by
  intro t p
  induction p generalizing t with
  | nil =>
    intro q v s hp _ hq
    simp only [Tree.get?, Option.some.injEq] at hp
    subst hp
    cases q with
    | nil => rfl
    | cons j q => simp [Tree.get?] at hq
  | cons i p ih =>
    intro q v s hp hpre hq
    cases q with
    | nil => simp at hpre
    | cons j q =>
      obtain ⟨hij, hpre'⟩ := List.cons_prefix_cons.mp hpre
      subst hij
      cases t with
      | hole w => simp [Tree.get?] at hp
      | node l ks =>
        rw [Tree.get?] at hp hq
        cases hk : ks[i]? with
        | none => rw [hk] at hp; cases hp
        | some k =>
          rw [hk] at hp hq
          rw [ih k q v s hp hpre' hq]

end PynguinModel.Mutants
