import PynguinModel.Lemmas.TypesSub
/-! Lemmas about `dist` (`subtype_distance`), the covariant reading, `genericsConvexB`, `fixupArgs`. -/
namespace PynguinModel.Types

theorem minOpt_some {l : List (Option Nat)} {k : Nat} (h : minOpt l = some k) : ∃ j, some j ∈ l := by
  induction l with
  | nil => simp [minOpt] at h
  | cons x xs ih =>
    cases x with
    | none => simp only [minOpt] at h; obtain ⟨j, hj⟩ := ih h; exact ⟨j, by simp [hj]⟩
    | some y => exact ⟨y, by simp⟩

theorem minOpt_zero {l : List (Option Nat)} (h : some 0 ∈ l) : minOpt l = some 0 := by
  induction l with
  | nil => cases h
  | cons x xs ih =>
    cases x with
    | none =>
      simp only [minOpt]; apply ih
      cases h with
      | tail _ h' => exact h'
    | some y =>
      simp only [minOpt]
      cases h with
      | head => cases minOpt xs <;> simp
      | tail _ h' => rw [ih h']; simp

theorem sumOpt_zipWith_all2 {f : Ty → Ty → Option Nat} {P : Ty → Ty → Bool} :
    ∀ {as bs : List Ty} {k : Nat}, as.length = bs.length → sumOpt (List.zipWith f as bs) = some k →
    (∀ a ∈ as, ∀ b ∈ bs, ∀ j, f a b = some j → P b a = true) → all2 P bs as = true
  | [], [], _, _, _, _ => rfl
  | [], _ :: _, _, h, _, _ => by simp at h
  | _ :: _, [], _, h, _, _ => by simp at h
  | a :: as, b :: bs, k, hl, h, hp => by
    simp only [List.zipWith_cons_cons] at h
    cases hfa : f a b with
    | none => rw [hfa] at h; simp [sumOpt] at h
    | some j =>
      rw [hfa] at h
      simp only [sumOpt, Option.map_eq_some_iff] at h
      obtain ⟨k', hk', _⟩ := h
      simp only [all2, Bool.and_eq_true]
      exact ⟨hp a (by simp) b (by simp) j hfa,
        sumOpt_zipWith_all2 (by simpa using hl) hk'
          (fun x hx y hy => hp x (by simp [hx]) y (by simp [hy]))⟩

theorem sumOpt_zero {f : Ty → Ty → Option Nat} : ∀ {as : List Ty}, (∀ a ∈ as, f a a = some 0) →
    sumOpt (List.zipWith f as as) = some 0
  | [], _ => rfl
  | a :: as, h => by
    simp only [List.zipWith_cons_cons]
    rw [h a (by simp)]
    simp only [sumOpt]
    rw [sumOpt_zero (fun x hx => h x (by simp [hx]))]
    rfl

/-- `dist` defined ⇒ the subtype may be a subtype of the supertype, generic arguments read covariantly. -/
theorem dist_imp_cov_aux (g : Graph) (anyD : Nat) : ∀ (n : Nat) (T S : Ty) (k : Nat),
    T.size + S.size ≤ n → T.wf g = true → S.wf g = true → dist g anyD T S = some k →
    sub g true true S T = true := by
  intro n
  induction n with
  | zero => intro T _ _ h; have := T.size_pos; omega
  | succ n ih =>
    intro T S k hn hT hS h
    rw [dist_unfold] at h
    cases T with
    | any => exact sub_any_right g _ _ S
    | none => simp [distStep] at h
    | union ts =>
      simp only [distStep] at h
      obtain ⟨j, hj⟩ := minOpt_some h
      obtain ⟨t, ht, htj⟩ := List.mem_map.mp hj
      have := size_le_sizeL ht; simp only [Ty.size] at hn
      have := ih t S j (by omega) ((wf_union.mp hT).2 t ht) hS htj
      exact sub_union_right_of_mem g _ _ S.size S t ts (Nat.le_refl _) hS ht this
    | tuple u as =>
      cases S with
      | tuple u' bs =>
        simp only [distStep] at h
        split at h
        · rename_i hl
          have hl' : as.length = bs.length := by simpa using hl
          rw [sub_tuple_tuple]
          simp only [Bool.and_eq_true, beq_iff_eq]
          refine ⟨hl'.symm, sumOpt_zipWith_all2 hl' h ?_⟩
          intro a ha b hb j hj
          have := size_le_sizeL ha; have := size_le_sizeL hb; simp only [Ty.size] at hn
          exact ih a b j (by omega) (wf_tuple.mp hT a ha) (wf_tuple.mp hS b hb) hj
        · cases h
      | _ => simp [distStep] at h
    | inst c as =>
      cases S with
      | any => rw [sub_unfold]; rfl
      | none => simp [distStep] at h
      | tuple _ _ => simp [distStep] at h
      | union ss =>
        simp only [distStep] at h
        obtain ⟨j, hj⟩ := minOpt_some h
        obtain ⟨s, hs, hsj⟩ := List.mem_map.mp hj
        have := size_le_sizeL hs; simp only [Ty.size] at hn
        have := ih (.inst c as) s j (by simp only [Ty.size]; omega) hT ((wf_union.mp hS).2 s hs) hsj
        rw [sub_union_left g _ _ ss _ (by intro h'; cases h')]
        simp only [if_true, List.any_eq_true]
        exact ⟨s, hs, this⟩
      | inst d bs =>
        simp only [distStep] at h
        rw [sub_inst_inst]
        simp only [Bool.and_eq_true]
        have hlen : ((arity g d == arity g c) = true ∧ (arity g d).isSome = true) → bs.length = as.length := by
          intro hc
          simp only [beq_iff_eq] at hc
          obtain ⟨kk, hk⟩ := Option.isSome_iff_exists.mp hc.2
          rw [(wf_inst hS).1 kk hk, (wf_inst hT).1 kk (hc.1 ▸ hk)]
        split at h
        · rename_i hne
          split at h
          · cases h
          · rename_i hsome
            refine ⟨by simp only [isSubclass]; cases hsp : spl g c d <;> simp [hsp] at hsome ⊢, ?_⟩
            split
            · rename_i hc
              have hl := hlen hc
              have := sumOpt_zipWith_all2 (P := fun b a => sub g true true b a && (true || sub g true true a b))
                hl.symm h ?_
              · exact this
              · intro a ha b hb j hj
                have := size_le_sizeL ha; have := size_le_sizeL hb; simp only [Ty.size] at hn
                simp [ih a b j (by omega) ((wf_inst hT).2 a ha) ((wf_inst hS).2 b hb) hj]
            · rfl
        · rename_i hne
          refine ⟨by simp [isSubclass, h], ?_⟩
          split
          · rename_i hc
            have hl := hlen hc
            have hne' : as = [] ∨ bs = [] := by
              cases as <;> cases bs <;> simp at hne ⊢
            have : as = [] ∧ bs = [] := by
              rcases hne' with h1 | h1
              · subst h1; exact ⟨rfl, List.length_eq_zero_iff.mp (by simpa using hl)⟩
              · subst h1; exact ⟨List.length_eq_zero_iff.mp (by simpa using hl.symm), rfl⟩
            rw [this.1, this.2]; rfl
          · rfl


theorem noArgs_union {is : List Ty} : (Ty.union is).noArgs = true ↔ ∀ t ∈ is, t.noArgs = true := by
  simp [Ty.noArgs, noArgsL_iff]
theorem noArgs_tuple {k : Bool} {is : List Ty} : (Ty.tuple k is).noArgs = true ↔ ∀ t ∈ is, t.noArgs = true := by
  simp [Ty.noArgs, noArgsL_iff]

theorem all2_nil_left (f f' : Ty → Ty → Bool) (bs : List Ty) : all2 f [] bs = all2 f' [] bs := by
  cases bs <;> rfl
theorem all2_nil_right (f f' : Ty → Ty → Bool) (as : List Ty) : all2 f as [] = all2 f' as [] := by
  cases as <;> rfl

/-- Without type arguments on one side the covariant reading coincides with `is_(maybe_)subtype`. -/
theorem sub_cov_irrelevant_aux (g : Graph) (u : Bool) : ∀ (n : Nat) (L R : Ty), L.size + R.size ≤ n →
    (L.noArgs = true ∨ R.noArgs = true) → sub g u true L R = sub g u false L R := by
  intro n
  induction n with
  | zero => intro L _ h; have := L.size_pos; omega
  | succ n ih =>
    intro L R hn hna
    rw [sub_unfold g u true, sub_unfold g u false]
    cases L with
    | union ls =>
      have key : ∀ l ∈ ls, sub g u true l R = sub g u false l R := by
        intro l hl
        have := size_le_sizeL hl; simp only [Ty.size] at hn
        exact ih l R (by omega) (hna.imp (fun h => noArgs_union.mp h l hl) id)
      cases R <;> simp only [subStep] <;> first
        | rfl
        | (split <;> first | exact any_congr_mem key | exact all_congr_mem key)
    | any => 
      cases R with
      | union rs =>
        simp only [subStep]
        apply any_congr_mem; intro r hr
        have := size_le_sizeL hr; simp only [Ty.size] at hn
        exact ih _ r (by simp only [Ty.size]; omega) (hna.imp id (fun h => noArgs_union.mp h r hr))
      | _ => rfl
    | none => 
      cases R with
      | union rs =>
        simp only [subStep]
        apply any_congr_mem; intro r hr
        have := size_le_sizeL hr; simp only [Ty.size] at hn
        exact ih _ r (by simp only [Ty.size]; omega) (hna.imp id (fun h => noArgs_union.mp h r hr))
      | _ => rfl
    | tuple k as =>
      cases R with
      | union rs =>
        simp only [subStep]
        apply any_congr_mem; intro r hr
        have := size_le_sizeL hr; simp only [Ty.size] at hn
        exact ih _ r (by simp only [Ty.size]; omega) (hna.imp id (fun h => noArgs_union.mp h r hr))
      | tuple k' bs =>
        simp only [subStep]
        congr 1
        apply all2_congr; intro a ha b hb
        have := size_le_sizeL ha; have := size_le_sizeL hb; simp only [Ty.size] at hn
        exact ih a b (by omega) (hna.imp (fun h => noArgs_tuple.mp h a ha) (fun h => noArgs_tuple.mp h b hb))
      | _ => rfl
    | inst c as =>
      cases R with
      | union rs =>
        simp only [subStep]
        apply any_congr_mem; intro r hr
        have := size_le_sizeL hr; simp only [Ty.size] at hn
        exact ih _ r (by simp only [Ty.size]; omega) (hna.imp id (fun h => noArgs_union.mp h r hr))
      | inst d bs =>
        simp only [subStep]
        congr 1
        split
        · rcases hna with h | h
          · have : as = [] := by simpa [Ty.noArgs] using h
            subst this; exact all2_nil_left _ _ _
          · have : bs = [] := by simpa [Ty.noArgs] using h
            subst this; exact all2_nil_right _ _ _
        · rfl
      | _ => rfl

theorem reflOK_inst {c : Cls} {is : List Ty} : (Ty.inst c is).reflOK = true ↔ ∀ t ∈ is, t.reflOK = true := by
  simp [Ty.reflOK, reflOKL_iff]
theorem reflOK_tuple {k : Bool} {is : List Ty} : (Ty.tuple k is).reflOK = true ↔ ∀ t ∈ is, t.reflOK = true := by
  simp [Ty.reflOK, reflOKL_iff]
theorem reflOK_union {is : List Ty} :
    (Ty.union is).reflOK = true ↔ (∃ t ∈ is, t.isInst = true) ∧ ∀ t ∈ is, t.reflOK = true := by
  simp [Ty.reflOK, reflOKL_iff, List.any_eq_true]

theorem dist_refl_aux (g : Graph) (anyD : Nat) : ∀ (n : Nat) (T : Ty), T.size ≤ n → T.reflOK = true →
    dist g anyD T T = some 0 := by
  intro n
  induction n with
  | zero => intro T h; have := T.size_pos; omega
  | succ n ih =>
    intro T hn hT
    cases T with
    | any => simp [Ty.reflOK] at hT
    | none => simp [Ty.reflOK] at hT
    | inst c as =>
      have hargs : sumOpt (List.zipWith (dist g anyD) as as) = some 0 := by
        apply sumOpt_zero; intro a ha
        have := size_le_sizeL ha; simp only [Ty.size] at hn
        exact ih a (by omega) (reflOK_inst.mp hT a ha)
      rw [dist_unfold]; simp only [distStep]
      split
      · simp only [spl_self, Option.isNone_some, Bool.false_eq_true, if_false]; exact hargs
      · exact spl_self g c
    | tuple k as =>
      rw [dist_unfold]; simp only [distStep, beq_self_eq_true, if_true]
      apply sumOpt_zero; intro a ha
      have := size_le_sizeL ha; simp only [Ty.size] at hn
      exact ih a (by omega) (reflOK_tuple.mp hT a ha)
    | union ts =>
      obtain ⟨⟨t, ht, hti⟩, hall⟩ := reflOK_union.mp hT
      rw [dist_unfold]; simp only [distStep]
      apply minOpt_zero
      refine List.mem_map.mpr ⟨t, ht, ?_⟩
      have hsz := size_le_sizeL ht; simp only [Ty.size] at hn
      have htt := ih t (by omega) (hall t ht)
      cases t with
      | inst c as =>
        rw [dist_unfold]; simp only [distStep]
        apply minOpt_zero
        exact List.mem_map.mpr ⟨_, ht, htt⟩
      | _ => simp [Ty.isInst] at hti

/-! ### `genericsConvexB` decides `GenericsConvex` -/
theorem arity_isSome_mem {g : Graph} {a : Cls} (h : (arity g a).isSome = true) : a ∈ g.generics.map (·.1) := by
  obtain ⟨k, hk⟩ := Option.isSome_iff_exists.mp h
  simp only [arity] at hk
  have := List.lookup_eq_some_iff.mp hk
  obtain ⟨l1, l2, h1, _⟩ := this
  rw [h1]; simp

theorem genericsConvexB_sound (g : Graph) (h : genericsConvexB g = true) : GenericsConvex g := by
  intro a b c hab hbc hsome hac
  by_cases hb : b ∈ allNodes g
  · simp only [genericsConvexB, List.all_eq_true] at h
    have hc' : (arity g c).isSome = true := hac ▸ hsome
    have := h a (arity_isSome_mem hsome) c (arity_isSome_mem hc') b hb
    simp only [hab, hbc, hac, Bool.and_self, beq_self_eq_true, Bool.not_true, Bool.false_or, beq_iff_eq] at this
    rw [this, hac]
  · -- a class outside the graph is only related to itself
    have hr := (isSubclass_iff g a b).mp hab
    rcases hr.eq_or_source with h1 | h1
    · rw [h1]
    · exact absurd (mem_allNodes.mpr (Or.inr (Or.inl h1))) hb

theorem fixupArgs_length (g : Graph) (c : Cls) (as : List Ty) (k : Nat) (h : arity g c = some k) :
    (fixupArgs g c as).length = k := by
  simp only [fixupArgs, h]
  split
  · simp; omega
  · simp; omega

end PynguinModel.Types
