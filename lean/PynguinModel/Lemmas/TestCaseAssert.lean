/-
Helper lemmas for C19 (`Model/TestCaseAssert.lean`): the repaired `remove_unused_variables` keeps every
statement with its complete assertion list, its alive set is exactly semantic liveness, it unbinds only dead
simple assignments and keeps every read (of statements AND assertions) bound; removal steps delete whole
statements; the export loop emits one group per statement.
-/
import PynguinModel.Model.TestCaseAssert

namespace PynguinModel.TestCaseAssert
open PynguinModel.TestCase (Name Ty Stmt ruGo closureMask)

/-! ### specifications -/

/-- `v` is read in `l` (by a statement or by an assertion below a statement) before it is rebound.
The assertions of a statement run after it, so they see its binding. -/
def Live (v : Name) : List AStmt → Prop
  | [] => False
  | s :: rest => v ∈ s.uses ∨ (s.bound ≠ some v ∧ (v ∈ s.assertReads ∨ Live v rest))

/-- every `var_k` read by a statement is bound earlier; every `var_k` read by an assertion is bound by its
statement or earlier (`bs` = names bound so far; other names are globals of the test module) -/
def ReadsOK : List Name → List AStmt → Prop
  | _, [] => True
  | bs, s :: rest =>
    (∀ u ∈ s.uses, u.isVar = true → u ∈ bs) ∧
    (∀ u ∈ s.assertReads, u.isVar = true → u ∈ bs ++ s.bound.toList) ∧
    ReadsOK (bs ++ s.bound.toList) rest

/-- the same for an exported function body -/
def ItemsOK : List Name → List Item → Prop
  | _, [] => True
  | bs, Item.stmt _ b us :: rest => (∀ u ∈ us, u.isVar = true → u ∈ bs) ∧ ItemsOK (bs ++ b.toList) rest
  | bs, Item.raises _ b us _ :: rest => (∀ u ∈ us, u.isVar = true → u ∈ bs) ∧ ItemsOK (bs ++ b.toList) rest
  | bs, Item.assertion a :: rest => (∀ u ∈ a.reads, u.isVar = true → u ∈ bs) ∧ ItemsOK bs rest
  | bs, Item.pass :: rest => ItemsOK bs rest

/-- pointwise relation between a test case and the result of the pass: a statement is kept as it is, or it was
a simple assignment to a variable that nothing reads afterwards and only its binding is gone -/
def OnlyDeadUnbound : List AStmt → List AStmt → Prop
  | [], [] => True
  | s :: rest, s' :: rest' =>
    (s' = s ∨ (s' = s.unbound ∧ s.simpleAssign = true ∧
        ∃ bv, s.bound = some bv ∧ bv ∉ s.assertReads ∧ ¬ Live bv rest)) ∧
    OnlyDeadUnbound rest rest'
  | _, _ => False

/-! ### the repaired pass -/

@[simp] theorem key_unbound (s : AStmt) : s.unbound.key = s.key := rfl
@[simp] theorem oracle_unbound (s : AStmt) : s.unbound.oracle = s.oracle := rfl
@[simp] theorem uses_unbound (s : AStmt) : s.unbound.uses = s.uses := rfl
@[simp] theorem assertReads_unbound (s : AStmt) : s.unbound.assertReads = s.assertReads := rfl
@[simp] theorem bound_unbound (s : AStmt) : s.unbound.bound = none := rfl
@[simp] theorem expected_unbound (s : AStmt) : s.unbound.expected = s.expected := rfl
@[simp] theorem sid_unbound (s : AStmt) : s.unbound.sid = s.sid := rfl
@[simp] theorem asserts_unbound (s : AStmt) : s.unbound.asserts = s.asserts := rfl

theorem ruFix_cons (s : AStmt) (rest : List AStmt) :
    ruFix (s :: rest) =
      (match s.bound with
       | some bv =>
         if bv ∈ (ruFix rest).1 ++ s.assertReads then
           (((ruFix rest).1 ++ s.assertReads).filter (fun x => decide (x ≠ bv)) ++ s.uses, s :: (ruFix rest).2)
         else ((ruFix rest).1 ++ s.assertReads ++ s.uses,
               (if s.simpleAssign then s.unbound else s) :: (ruFix rest).2)
       | none => ((ruFix rest).1 ++ s.assertReads ++ s.uses, s :: (ruFix rest).2)) := rfl

/-- the second component at a cons: the head is `s` or `s.unbound`, the tail is the pass on the tail -/
theorem ruFix_snd_cons (s : AStmt) (rest : List AStmt) :
    ∃ s', (ruFix (s :: rest)).2 = s' :: (ruFix rest).2 ∧ (s' = s ∨ s' = s.unbound) := by
  rw [ruFix_cons]
  cases hb : s.bound with
  | none => exact ⟨s, rfl, Or.inl rfl⟩
  | some bv =>
    simp only
    split
    · exact ⟨s, rfl, Or.inl rfl⟩
    · cases s.simpleAssign
      · exact ⟨s, rfl, Or.inl rfl⟩
      · exact ⟨s.unbound, rfl, Or.inr rfl⟩

theorem ruFix_key (l : List AStmt) : (ruFix l).2.map AStmt.key = l.map AStmt.key := by
  induction l with
  | nil => rfl
  | cons s rest ih =>
    obtain ⟨s', h, hs⟩ := ruFix_snd_cons s rest
    rw [h, List.map_cons, List.map_cons, ih]
    rcases hs with rfl | rfl <;> simp

theorem ruFix_length (l : List AStmt) : (ruFix l).2.length = l.length := by
  have := congrArg List.length (ruFix_key l)
  simpa using this

/-- the alive set computed by the pass is exactly semantic liveness -/
theorem mem_ruFix_alive' (l : List AStmt) : ∀ v, v ∈ (ruFix l).1 ↔ Live v l := by
  induction l with
  | nil => intro v; simp [ruFix, Live]
  | cons s rest ih =>
    intro v
    rw [ruFix_cons]
    cases hb : s.bound with
    | none =>
      simp only [Live, hb, List.mem_append, ih v]
      constructor
      · rintro ((h | h) | h)
        · exact Or.inr ⟨by simp, Or.inr h⟩
        · exact Or.inr ⟨by simp, Or.inl h⟩
        · exact Or.inl h
      · rintro (h | ⟨_, h | h⟩)
        · exact Or.inr h
        · exact Or.inl (Or.inr h)
        · exact Or.inl (Or.inl h)
    | some bv =>
      simp only [Live, hb]
      split
      · rename_i hin
        simp only [List.mem_append, List.mem_filter, decide_eq_true_eq, ih v, ne_eq, Option.some.injEq]
        constructor
        · rintro (⟨h | h, hne⟩ | h)
          · exact Or.inr ⟨fun e => hne e.symm, Or.inr h⟩
          · exact Or.inr ⟨fun e => hne e.symm, Or.inl h⟩
          · exact Or.inl h
        · rintro (h | ⟨hne, h | h⟩)
          · exact Or.inr h
          · exact Or.inl ⟨Or.inr h, fun e => hne e.symm⟩
          · exact Or.inl ⟨Or.inl h, fun e => hne e.symm⟩
      · rename_i hnin
        have hnin' : ¬ (Live bv rest ∨ bv ∈ s.assertReads) := by
          simpa only [List.mem_append, ih bv] using hnin
        simp only [List.mem_append, ih v, ne_eq, Option.some.injEq]
        constructor
        · rintro ((h | h) | h)
          · refine Or.inr ⟨?_, Or.inr h⟩
            intro e; subst e
            exact hnin' (Or.inl h)
          · refine Or.inr ⟨?_, Or.inl h⟩
            intro e; subst e
            exact hnin' (Or.inr h)
          · exact Or.inl h
        · rintro (h | ⟨_, h | h⟩)
          · exact Or.inr h
          · exact Or.inl (Or.inr h)
          · exact Or.inl (Or.inl h)

theorem mem_ruFix_alive (v : Name) (l : List AStmt) : v ∈ (ruFix l).1 ↔ Live v l := mem_ruFix_alive' l v

theorem ruFix_onlyDead (l : List AStmt) : OnlyDeadUnbound l (ruFix l).2 := by
  induction l with
  | nil => simp [ruFix, OnlyDeadUnbound]
  | cons s rest ih =>
    rw [ruFix_cons]
    cases hb : s.bound with
    | none => exact ⟨Or.inl rfl, ih⟩
    | some bv =>
      simp only
      split
      · exact ⟨Or.inl rfl, ih⟩
      · rename_i hnin
        cases hsa : s.simpleAssign
        · exact ⟨Or.inl rfl, ih⟩
        · refine ⟨Or.inr ⟨rfl, hsa, bv, hb, ?_, ?_⟩, ih⟩
          · intro h; exact hnin (List.mem_append.mpr (Or.inr h))
          · intro h; exact hnin (List.mem_append.mpr (Or.inl ((mem_ruFix_alive bv rest).mpr h)))

/-- in a well-scoped suffix every live `var_k` is bound before the suffix -/
theorem ReadsOK.live {l : List AStmt} {bs : List Name} (h : ReadsOK bs l) :
    ∀ v, Live v l → v.isVar = true → v ∈ bs := by
  induction l generalizing bs with
  | nil => intro v hv; exact absurd hv (by simp [Live])
  | cons s rest ih =>
    obtain ⟨hu, ha, hr⟩ := h
    intro v hv hvar
    rcases hv with hv | ⟨hne, hv | hv⟩
    · exact hu v hv hvar
    · have := ha v hv hvar
      rcases List.mem_append.mp this with h | h
      · exact h
      · exfalso; apply hne
        cases hb : s.bound with
        | none => simp [hb] at h
        | some b => simp [hb] at h; simp [h]
    · have := ih hr v hv hvar
      rcases List.mem_append.mp this with h | h
      · exact h
      · exfalso; apply hne
        cases hb : s.bound with
        | none => simp [hb] at h
        | some b => simp [hb] at h; simp [h]

/-- the result of the pass is well scoped in ANY environment that binds the live variables -/
theorem readsOK_ruFix_of_live (l : List AStmt) (bs : List Name)
    (h : ∀ v, Live v l → v.isVar = true → v ∈ bs) : ReadsOK bs (ruFix l).2 := by
  induction l generalizing bs with
  | nil => simp [ruFix, ReadsOK]
  | cons s rest ih =>
    have huses : ∀ u ∈ s.uses, u.isVar = true → u ∈ bs := fun u hu hv => h u (Or.inl hu) hv
    rw [ruFix_cons]
    -- the three shapes of the head
    have keep : ReadsOK bs (s :: (ruFix rest).2) := by
      refine ⟨huses, ?_, ?_⟩
      · intro u hu hv
        by_cases hbu : s.bound = some u
        · simp [hbu]
        · exact List.mem_append.mpr (Or.inl (h u (Or.inr ⟨hbu, Or.inl hu⟩) hv))
      · apply ih
        intro v hv hvar
        by_cases hbv : s.bound = some v
        · simp [hbv]
        · exact List.mem_append.mpr (Or.inl (h v (Or.inr ⟨hbv, Or.inr hv⟩) hvar))
    cases hb : s.bound with
    | none => simpa [hb] using keep
    | some bv =>
      simp only
      split
      · exact keep
      · rename_i hnin
        cases hsa : s.simpleAssign
        · exact keep
        · simp only [if_true]
          have hnl : ¬ Live bv rest := fun hl =>
            hnin (List.mem_append.mpr (Or.inl ((mem_ruFix_alive bv rest).mpr hl)))
          have hna : bv ∉ s.assertReads := fun ha => hnin (List.mem_append.mpr (Or.inr ha))
          refine ⟨by simpa using huses, ?_, ?_⟩
          · intro u hu hv
            simp only [assertReads_unbound] at hu
            simp only [bound_unbound, Option.toList_none, List.append_nil]
            have hne : s.bound ≠ some u := by
              rw [hb]; intro e; cases e; exact hna hu
            exact h u (Or.inr ⟨hne, Or.inl hu⟩) hv
          · simp only [bound_unbound, Option.toList_none, List.append_nil]
            apply ih
            intro v hv hvar
            have hne : s.bound ≠ some v := by
              rw [hb]; intro e; cases e; exact hnl hv
            exact h v (Or.inr ⟨hne, Or.inr hv⟩) hvar

theorem ReadsOK.ruFix {l : List AStmt} {bs : List Name} (h : ReadsOK bs l) : ReadsOK bs (ruFix l).2 :=
  readsOK_ruFix_of_live l bs h.live

/-! ### removal steps -/

theorem keepMask_sublist {α : Type} (l : List α) (m : List Bool) : (keepMask l m).Sublist l := by
  induction l generalizing m with
  | nil => simp [keepMask]
  | cons s l ih =>
    cases m with
    | nil => simp [keepMask]
    | cons b m =>
      simp only [keepMask]
      split
      · exact (ih m).cons s
      · exact (ih m).cons_cons s

theorem removeBatch_sublist (l : List AStmt) (idxs : List Nat) : (removeBatch l idxs).Sublist l :=
  keepMask_sublist _ _

theorem chop_sublist (l : List AStmt) (p : Int) : (chop l p).Sublist l := by
  unfold chop; split <;> exact removeBatch_sublist _ _

theorem removeFwd_sublist {l l' : List AStmt} {i : Nat} (h : removeFwd l i = some l') : l'.Sublist l := by
  unfold removeFwd at h
  cases hm : closureMask false (l.map AStmt.forget) i with
  | none => simp [hm] at h
  | some m => simp [hm] at h; subst h; exact keepMask_sublist _ _

/-- every post-processing step keeps the surviving statements' identities and complete assertion lists,
in order -/
theorem applyOp_keys (l : List AStmt) (op : Op) :
    ((applyOp l op).map AStmt.key).Sublist (l.map AStmt.key) := by
  cases op with
  | removeUnused => simp only [applyOp]; rw [ruFix_key]; exact List.Sublist.refl _
  | visitUnused => simp only [applyOp, visitUnused]; rw [ruFix_key]; exact List.Sublist.refl _
  | removeFwd i =>
    simp only [applyOp]
    cases h : removeFwd l i with
    | none => simp
    | some l' => simpa using (removeFwd_sublist h).map AStmt.key
  | chop p => exact (chop_sublist l p).map AStmt.key
  | clone => exact List.Sublist.refl _

theorem history_keys (l : List AStmt) (ops : List Op) :
    ((history l ops).map AStmt.key).Sublist (l.map AStmt.key) := by
  induction ops generalizing l with
  | nil => exact List.Sublist.refl _
  | cons op ops ih =>
    simp only [history, List.foldl_cons]
    exact (ih (applyOp l op)).trans (applyOp_keys l op)

/-- steps that are not statement removals of a minimiser: the pass, the unused-statements visitor, clones -/
def Op.isRemoveUnused : Op → Bool
  | .removeUnused => true
  | .visitUnused => true
  | .clone => true
  | _ => false

theorem history_keys_eq (l : List AStmt) (ops : List Op) (h : ∀ op ∈ ops, op.isRemoveUnused = true) :
    (history l ops).map AStmt.key = l.map AStmt.key := by
  induction ops generalizing l with
  | nil => rfl
  | cons op ops ih =>
    simp only [history, List.foldl_cons]
    have h1 := h op (by simp)
    have h2 : ∀ o ∈ ops, o.isRemoveUnused = true := fun o ho => h o (by simp [ho])
    have := ih (applyOp l op) h2
    simp only [history] at this
    rw [this]
    cases op with
    | removeUnused => exact ruFix_key l
    | visitUnused => exact ruFix_key l
    | clone => rfl
    | removeFwd i => simp [Op.isRemoveUnused] at h1
    | chop p => simp [Op.isRemoveUnused] at h1

theorem history_readsOK {l : List AStmt} {bs : List Name} (hl : ReadsOK bs l) (ops : List Op)
    (h : ∀ op ∈ ops, op.isRemoveUnused = true) : ReadsOK bs (history l ops) := by
  induction ops generalizing l with
  | nil => exact hl
  | cons op ops ih =>
    simp only [history, List.foldl_cons]
    have h1 := h op (by simp)
    have h2 : ∀ o ∈ ops, o.isRemoveUnused = true := fun o ho => h o (by simp [ho])
    apply ih _ h2
    cases op with
    | removeUnused => exact hl.ruFix
    | visitUnused => exact hl.ruFix
    | clone => exact hl
    | removeFwd i => simp [Op.isRemoveUnused] at h1
    | chop p => simp [Op.isRemoveUnused] at h1

theorem key_oracle {l l' : List AStmt} (h : l'.map AStmt.key = l.map AStmt.key) :
    l'.map AStmt.oracle = l.map AStmt.oracle := by
  have : ∀ s : AStmt, s.oracle = (fun k : Nat × List Assertion => (k.1, k.2.filter Assertion.renders)) s.key :=
    fun _ => rfl
  have e : AStmt.oracle = (fun k : Nat × List Assertion => (k.1, k.2.filter Assertion.renders)) ∘ AStmt.key :=
    funext this
  rw [e, ← List.map_map, ← List.map_map, h]

theorem keys_sublist_oracle {l l' : List AStmt} (h : (l'.map AStmt.key).Sublist (l.map AStmt.key)) :
    (l'.map AStmt.oracle).Sublist (l.map AStmt.oracle) := by
  have e : AStmt.oracle = (fun k : Nat × List Assertion => (k.1, k.2.filter Assertion.renders)) ∘ AStmt.key :=
    funext fun _ => rfl
  rw [e, ← List.map_map, ← List.map_map]
  exact h.map _

/-! ### the unused-statements visitor and the visitors that delete after the pass -/

/-- a deletion policy that never selects a statement carrying an assertion (of any class) -/
def SparesAssertions (del : List AStmt → List Nat) : Prop :=
  ∀ (l : List AStmt) (i : Nat) (s : AStmt), i ∈ del l → l[i]? = some s → s.asserts = []

/-- `(statement id, assertion list)` of a statement that carries at least one assertion -/
def carriesK (k : Nat × List Assertion) : Bool := !k.2.isEmpty

/-- the statements of a test case that carry assertions, as keys, in order -/
def carrying (l : List AStmt) : List (Nat × List Assertion) := (l.map AStmt.key).filter carriesK

theorem idxMaskFrom_true {idxs : List Nat} : ∀ (n k i : Nat),
    (PynguinModel.TestCase.idxMaskFrom idxs k n)[i]? = some true → k + i ∈ idxs := by
  intro n
  induction n with
  | zero => intro k i h; simp [PynguinModel.TestCase.idxMaskFrom] at h
  | succ n ih =>
    intro k i h
    cases i with
    | zero => simpa [PynguinModel.TestCase.idxMaskFrom] using h
    | succ i =>
      simp only [PynguinModel.TestCase.idxMaskFrom, List.getElem?_cons_succ] at h
      have := ih (k + 1) i h
      have e : k + (i + 1) = k + 1 + i := by omega
      rw [e]; exact this

/-- entries that satisfy `p` survive a mask that is set only at entries that do not -/
theorem filter_sublist_keepMask {α : Type} (p : α → Bool) (l : List α) (m : List Bool)
    (h : ∀ (i : Nat) (a : α), m[i]? = some true → l[i]? = some a → p a = false) :
    (l.filter p).Sublist (keepMask l m) := by
  induction l generalizing m with
  | nil => simp [keepMask]
  | cons s l ih =>
    cases m with
    | nil => simp only [keepMask]; exact List.filter_sublist
    | cons b m =>
      have htail : ∀ (i : Nat) (a : α), m[i]? = some true → l[i]? = some a → p a = false :=
        fun i a hm hl => h (i + 1) a (by simpa using hm) (by simpa using hl)
      cases b with
      | true =>
        have hs : p s = false := h 0 s (by simp) (by simp)
        simp only [keepMask, if_true, List.filter_cons, hs]
        exact ih m htail
      | false =>
        simp only [keepMask, List.filter_cons]
        split
        · exact (ih m htail).cons_cons s
        · exact (ih m htail).cons s

theorem carrying_eq_filter_map (l : List AStmt) :
    carrying l = (l.filter (fun s => carriesK s.key)).map AStmt.key := by
  unfold carrying
  rw [List.filter_map]
  rfl

/-- `remove_statements_batch` with indexes of assertion-free statements keeps every carrying statement -/
theorem carrying_sublist_removeBatch (l : List AStmt) (idxs : List Nat)
    (h : ∀ (i : Nat) (s : AStmt), i ∈ idxs → l[i]? = some s → s.asserts = []) :
    (carrying l).Sublist ((removeBatch l idxs).map AStmt.key) := by
  rw [carrying_eq_filter_map]
  apply List.Sublist.map
  unfold removeBatch
  apply filter_sublist_keepMask
  intro i s hm hl
  have hi := idxMaskFrom_true (idxs := idxs) l.length 0 i hm
  rw [Nat.zero_add] at hi
  have := h i s hi hl
  simp [carriesK, AStmt.key, this]

theorem carrying_ruFix (l : List AStmt) : carrying (ruFix l).2 = carrying l := by
  unfold carrying; rw [ruFix_key]

theorem carrying_sublist_keys (l : List AStmt) : (carrying l).Sublist (l.map AStmt.key) :=
  List.filter_sublist

/-- the code's visitor is the member of the family that deletes nothing -/
theorem removeBatch_nil (l : List AStmt) : removeBatch l [] = l := by
  unfold removeBatch
  have : ∀ (l : List AStmt) (k n : Nat), keepMask l (PynguinModel.TestCase.idxMaskFrom [] k n) = l := by
    intro l
    induction l with
    | nil => intro k n; simp [keepMask]
    | cons s l ih =>
      intro k n
      cases n with
      | zero => simp [PynguinModel.TestCase.idxMaskFrom, keepMask]
      | succ n => simp [PynguinModel.TestCase.idxMaskFrom, keepMask, ih]
  exact this l 0 l.length

theorem visitUnused_eq_visitWith (l : List AStmt) : visitUnused l = visitWith visitorDeleted l := by
  simp [visitUnused, visitWith, visitorDeleted, removeBatch_nil]

theorem applyOp_eq_applyOpWith (l : List AStmt) (op : Op) : applyOp l op = applyOpWith visitorDeleted l op := by
  cases op <;> simp [applyOpWith, applyOp, visitUnused_eq_visitWith]

theorem history_eq_historyWith (l : List AStmt) (ops : List Op) : history l ops = historyWith visitorDeleted l ops := by
  unfold history historyWith
  congr 1
  funext l op
  exact applyOp_eq_applyOpWith l op

theorem visitorDeleted_spares : SparesAssertions visitorDeleted := by
  intro l i s hi; simp [visitorDeleted] at hi

/-- whatever the visitor deletes, a step only removes whole statements -/
theorem applyOpWith_keys (del : List AStmt → List Nat) (l : List AStmt) (op : Op) :
    ((applyOpWith del l op).map AStmt.key).Sublist (l.map AStmt.key) := by
  cases op with
  | visitUnused =>
    simp only [applyOpWith, visitWith]
    have := (removeBatch_sublist (ruFix l).2 (del (ruFix l).2)).map AStmt.key
    rwa [ruFix_key] at this
  | removeUnused => exact applyOp_keys l .removeUnused
  | removeFwd i => exact applyOp_keys l (.removeFwd i)
  | chop p => exact applyOp_keys l (.chop p)
  | clone => exact applyOp_keys l .clone

theorem historyWith_keys (del : List AStmt → List Nat) (l : List AStmt) (ops : List Op) :
    ((historyWith del l ops).map AStmt.key).Sublist (l.map AStmt.key) := by
  induction ops generalizing l with
  | nil => exact List.Sublist.refl _
  | cons op ops ih =>
    simp only [historyWith, List.foldl_cons]
    exact (ih (applyOpWith del l op)).trans (applyOpWith_keys del l op)

/-- a step that is not a minimiser removal keeps every assertion-carrying statement, provided the visitor's
deletions spare them -/
theorem carrying_sublist_applyOpWith {del : List AStmt → List Nat} (hd : SparesAssertions del)
    (l : List AStmt) (op : Op) (h : op.isRemoveUnused = true) :
    (carrying l).Sublist ((applyOpWith del l op).map AStmt.key) := by
  cases op with
  | visitUnused =>
    simp only [applyOpWith, visitWith]
    rw [← carrying_ruFix l]
    exact carrying_sublist_removeBatch _ _ (fun i s hi hs => hd _ i s hi hs)
  | removeUnused =>
    simp only [applyOpWith, applyOp]; rw [ruFix_key]; exact carrying_sublist_keys l
  | clone => exact carrying_sublist_keys l
  | removeFwd i => simp [Op.isRemoveUnused] at h
  | chop p => simp [Op.isRemoveUnused] at h

theorem carrying_sublist_historyWith {del : List AStmt → List Nat} (hd : SparesAssertions del)
    (l : List AStmt) (ops : List Op) (h : ∀ op ∈ ops, op.isRemoveUnused = true) :
    (carrying l).Sublist ((historyWith del l ops).map AStmt.key) := by
  induction ops generalizing l with
  | nil => exact carrying_sublist_keys l
  | cons op ops ih =>
    simp only [historyWith, List.foldl_cons]
    have h1 := h op (by simp)
    have h2 : ∀ o ∈ ops, o.isRemoveUnused = true := fun o ho => h o (by simp [ho])
    have step := carrying_sublist_applyOpWith hd l op h1
    have ih' := ih (applyOpWith del l op) h2
    simp only [historyWith] at ih'
    refine List.Sublist.trans ?_ ih'
    -- carrying l ⊑ keys(l1), all of them carry ⇒ carrying l ⊑ carrying l1
    have := step.filter carriesK
    have e : (carrying l).filter carriesK = carrying l := by
      unfold carrying; rw [List.filter_filter]; simp
    rw [e] at this
    exact this

/-- from keys to exported groups: the renderable assertions of the carrying statements -/
def oracleOfKey (k : Nat × List Assertion) : Nat × List Assertion := (k.1, k.2.filter Assertion.renders)

theorem map_oracle_eq (l : List AStmt) : l.map AStmt.oracle = (l.map AStmt.key).map oracleOfKey := by
  rw [List.map_map]; rfl

/-! ### export -/

theorem perStmtGo_length (n : Nat) (outs : List Outcome) : (perStmtGo n outs).length = n := by
  induction n generalizing outs with
  | zero => simp [perStmtGo]
  | succ n ih =>
    cases outs with
    | nil => simp [perStmtGo]
    | cons o os =>
      simp only [perStmtGo]
      split
      · simp [ih]
      · simp

theorem perStmtExc_length (importOk : Bool) (l : List AStmt) (outs : List Outcome) :
    (perStmtExc importOk l outs).length = l.length := by
  unfold perStmtExc; split
  · exact perStmtGo_length _ _
  · simp

theorem takeAsserts_emitted (s : AStmt) (r : List Item) :
    takeAsserts (emitted s ++ r) = s.asserts.filter Assertion.renders ++ takeAsserts r := by
  unfold emitted
  induction s.asserts.filter Assertion.renders with
  | nil => simp
  | cons a as ih => simp [takeAsserts, ih]

theorem groups_emitted (s : AStmt) (r : List Item) : groups (emitted s ++ r) = groups r := by
  unfold emitted
  induction s.asserts.filter Assertion.renders with
  | nil => simp
  | cons a as ih => simp [groups, ih]

/-- the body produced by the loop is empty or starts with a statement -/
theorem buildGo_head (nx : Bool) (l : List AStmt) (es : List (Option Nat)) :
    takeAsserts (buildGo nx l es).1 = [] := by
  cases l with
  | nil => simp [buildGo, takeAsserts]
  | cons s ss =>
    cases es with
    | nil => simp [buildGo, takeAsserts]
    | cons e es =>
      simp only [buildGo]
      cases e with
      | none => simp [takeAsserts]
      | some x => simp only; split <;> simp [takeAsserts]

/-- reading the emitted body back gives, per statement, its id and exactly its renderable assertions -/
theorem groups_buildGo (nx : Bool) (l : List AStmt) (es : List (Option Nat)) (h : l.length ≤ es.length) :
    groups (buildGo nx l es).1 = l.map AStmt.oracle := by
  induction l generalizing es with
  | nil => simp [buildGo, groups]
  | cons s ss ih =>
    cases es with
    | nil => simp at h
    | cons e es =>
      have hlen : ss.length ≤ es.length := by simpa using h
      have hh := buildGo_head nx ss es
      have step : ∀ r : List Item, takeAsserts r = [] →
          (s.sid, takeAsserts (emitted s ++ r)) :: groups (emitted s ++ r) = s.oracle :: groups r := by
        intro r h1
        rw [takeAsserts_emitted, groups_emitted, h1]; simp [AStmt.oracle]
      simp only [buildGo, List.map_cons]
      cases e with
      | none =>
        simp only
        rw [groups, step _ hh, ih es hlen]
      | some x =>
        simp only
        split
        · rw [groups, step _ hh, ih es hlen]
        · rw [groups, step _ hh, ih es hlen]

theorem groups_buildFn (nx : Bool) (l : List AStmt) (es : List (Option Nat)) (h : l.length ≤ es.length) :
    groups (buildFn nx l es).body = l.map AStmt.oracle := by
  unfold buildFn
  simp only
  split
  · rename_i hemp
    have := groups_buildGo nx l es h
    rw [List.isEmpty_iff.mp hemp] at this
    rw [← this]; simp [groups]
  · exact groups_buildGo nx l es h

theorem itemsOK_emitted (bs : List Name) (s : AStmt) (r : List Item)
    (ha : ∀ u ∈ s.assertReads, u.isVar = true → u ∈ bs) (hr : ItemsOK bs r) : ItemsOK bs (emitted s ++ r) := by
  unfold emitted
  have : ∀ as : List Assertion, (∀ a ∈ as, ∀ u ∈ a.reads, u.isVar = true → u ∈ bs) →
      ItemsOK bs (as.map Item.assertion ++ r) := by
    intro as
    induction as with
    | nil => intro _; simpa using hr
    | cons a as ih =>
      intro h
      exact ⟨h a (by simp), ih (fun a' ha' => h a' (by simp [ha']))⟩
  apply this
  intro a ha' u hu hv
  apply ha u _ hv
  unfold AStmt.assertReads
  exact List.mem_flatMap.mpr ⟨a, (List.mem_filter.mp ha').1, hu⟩

/-- a well-scoped test case is exported as a well-scoped function body -/
theorem itemsOK_buildGo (nx : Bool) (l : List AStmt) (es : List (Option Nat)) (bs : List Name)
    (h : ReadsOK bs l) : ItemsOK bs (buildGo nx l es).1 := by
  induction l generalizing es bs with
  | nil => simp [buildGo, ItemsOK]
  | cons s ss ih =>
    cases es with
    | nil => simp [buildGo, ItemsOK]
    | cons e es =>
      obtain ⟨hu, ha, hr⟩ := h
      have tail := itemsOK_emitted (bs ++ s.bound.toList) s _ ha (ih es _ hr)
      simp only [buildGo]
      cases e with
      | none => exact ⟨hu, tail⟩
      | some x => simp only; split <;> exact ⟨hu, tail⟩

theorem itemsOK_buildFn (nx : Bool) (l : List AStmt) (es : List (Option Nat)) (bs : List Name)
    (h : ReadsOK bs l) : ItemsOK bs (buildFn nx l es).body := by
  unfold buildFn
  simp only
  split
  · simp [ItemsOK]
  · exact itemsOK_buildGo nx l es bs h

/-! ### the executable checks decide the propositions -/

theorem readsOKb_iff (bs : List Name) (l : List AStmt) : readsOKb bs l = true ↔ ReadsOK bs l := by
  induction l generalizing bs with
  | nil => simp [readsOKb, ReadsOK]
  | cons s rest ih =>
    simp only [readsOKb, ReadsOK, Bool.and_eq_true, List.all_eq_true, Bool.or_eq_true, Bool.not_eq_true',
      decide_eq_true_eq, ih]
    constructor
    · rintro ⟨⟨h1, h2⟩, h3⟩
      refine ⟨fun u hu hv => ?_, fun u hu hv => ?_, h3⟩
      · rcases h1 u hu with h | h
        · rw [hv] at h; cases h
        · exact h
      · rcases h2 u hu with h | h
        · rw [hv] at h; cases h
        · exact h
    · rintro ⟨h1, h2, h3⟩
      refine ⟨⟨fun u hu => ?_, fun u hu => ?_⟩, h3⟩
      · cases hv : u.isVar
        · exact Or.inl rfl
        · exact Or.inr (h1 u hu hv)
      · cases hv : u.isVar
        · exact Or.inl rfl
        · exact Or.inr (h2 u hu hv)

theorem itemsOKb_iff (bs : List Name) (l : List Item) : itemsOKb bs l = true ↔ ItemsOK bs l := by
  have aux : ∀ (us : List Name) (bs : List Name),
      (us.all (fun u => !u.isVar || decide (u ∈ bs)) = true) ↔ (∀ u ∈ us, u.isVar = true → u ∈ bs) := by
    intro us bs
    simp only [List.all_eq_true, Bool.or_eq_true, Bool.not_eq_true', decide_eq_true_eq]
    constructor
    · intro h u hu hv
      rcases h u hu with h | h
      · rw [hv] at h; cases h
      · exact h
    · intro h u hu
      cases hv : u.isVar
      · exact Or.inl rfl
      · exact Or.inr (h u hu hv)
  induction l generalizing bs with
  | nil => simp [itemsOKb, ItemsOK]
  | cons x rest ih =>
    cases x with
    | stmt sid b us => simp only [itemsOKb, ItemsOK, Bool.and_eq_true, aux, ih]
    | raises sid b us e => simp only [itemsOKb, ItemsOK, Bool.and_eq_true, aux, ih]
    | assertion a => simp only [itemsOKb, ItemsOK, Bool.and_eq_true, aux, ih]
    | pass => simp only [itemsOKb, ItemsOK, ih]

/-! ### relation to C15's model of the (unrepaired) pass -/

/-- on test cases without assertions the repaired pass is C15's `ruGo` -/
theorem ruFix_forget_of_no_asserts (l : List AStmt) (h : ∀ s ∈ l, s.asserts = []) :
    (ruFix l).1 = (ruGo (l.map AStmt.forget)).1 ∧
    (ruFix l).2.map AStmt.forget = (ruGo (l.map AStmt.forget)).2 := by
  induction l with
  | nil => simp [ruFix, ruGo]
  | cons s rest ih =>
    have hs : s.asserts = [] := h s (by simp)
    have har : s.assertReads = [] := by simp [AStmt.assertReads, hs]
    obtain ⟨ih1, ih2⟩ := ih (fun t ht => h t (by simp [ht]))
    rw [ruFix_cons]
    simp only [List.map_cons, ruGo]
    have hfb : (AStmt.forget s).bound = s.bound := rfl
    have hfu : (AStmt.forget s).uses = s.uses := rfl
    have hfs : (AStmt.forget s).simpleAssign = s.simpleAssign := rfl
    rw [hfb, hfu, hfs, har, List.append_nil, ← ih1, ← ih2]
    cases hb : s.bound with
    | none => simp
    | some bv =>
      simp only
      split
      · simp
      · cases hsa : s.simpleAssign
        · simp
        · simp [AStmt.forget, AStmt.unbound, Stmt.unbound, hs, AStmt.assertReads]

end PynguinModel.TestCaseAssert
