import PynguinModel.Model.GoalGraph
/-! Fold characterisations for `_GoalsManager.update` (helper lemmas for C07). -/
namespace PynguinModel.GoalGraph

theorem mem_ins {l : List Goal} {g x : Goal} : x ∈ ins l g ↔ x ∈ l ∨ x = g := by
  unfold ins; split
  · rename_i h
    have : g ∈ l := by simpa using h
    constructor
    · exact Or.inl
    · rintro (h | rfl) <;> assumption
  · simp

theorem mem_foldl_ins (gs l : List Goal) (x : Goal) : x ∈ gs.foldl ins l ↔ x ∈ l ∨ x ∈ gs := by
  induction gs generalizing l with
  | nil => simp
  | cons g gs ih => rw [List.foldl_cons, ih, mem_ins]; simp [or_assoc]

theorem mem_children {G : GG} {p c : Goal} : c ∈ children G p ↔ (p, c) ∈ G.edges := by
  unfold children
  simp only [List.mem_map, List.mem_filter, beq_iff_eq]
  constructor
  · rintro ⟨e, ⟨he, rfl⟩, rfl⟩; exact he
  · intro h; exact ⟨(p, c), ⟨h, rfl⟩, rfl⟩

theorem mem_archiveUpdate_covered (cov : Goal → Bool) (s : St) (x : Goal) :
    x ∈ (archiveUpdate cov s).covered ↔ x ∈ s.covered ∨ (x ∈ s.objectives ∧ cov x = true) := by
  unfold archiveUpdate
  simp only
  generalize s.objectives = os
  generalize s.covered = c
  induction os generalizing c with
  | nil => simp
  | cons o os ih =>
    rw [List.foldl_cons, ih]
    by_cases ho : cov o = true
    · simp only [ho, if_true, mem_ins, List.mem_cons]
      constructor
      · rintro ((h | rfl) | ⟨h, hc⟩)
        · exact Or.inl h
        · exact Or.inr ⟨Or.inl rfl, ho⟩
        · exact Or.inr ⟨Or.inr h, hc⟩
      · rintro (h | ⟨rfl | h, hc⟩)
        · exact Or.inl (Or.inl h)
        · exact Or.inl (Or.inr rfl)
        · exact Or.inr ⟨h, hc⟩
    · simp only [ho, Bool.false_eq_true, if_false, List.mem_cons]
      constructor
      · rintro (h | ⟨h, hc⟩)
        · exact Or.inl h
        · exact Or.inr ⟨Or.inr h, hc⟩
      · rintro (h | ⟨rfl | h, hc⟩)
        · exact Or.inl h
        · exact absurd hc ho
        · exact Or.inr ⟨h, hc⟩

/-- The inner loop over the structural children of one covered goal. -/
def innerStep (cur cov' : List Goal) (a : List Goal × Bool) (c : Goal) : List Goal × Bool :=
  if !cur.contains c && !cov'.contains c then (ins a.1 c, true) else a

/-- The loop over the old current goals. -/
def outerStep (G : GG) (cur cov' : List Goal) (acc : List Goal × Bool) (g : Goal) : List Goal × Bool :=
  if cov'.contains g then (children G g).foldl (innerStep cur cov') acc else (ins acc.1 g, acc.2)

theorem pass_eq (G : GG) (cov : Goal → Bool) (s : St) :
    pass G cov s =
      (let s1 := archiveUpdate cov s
       let r := s1.current.foldl (outerStep G s1.current s1.covered) ([], false)
       (addGoals { s1 with current := r.1 } r.1, r.2)) := rfl

theorem mem_inner (cur cov' cs : List Goal) (a : List Goal × Bool) (x : Goal) :
    x ∈ (cs.foldl (innerStep cur cov') a).1 ↔ x ∈ a.1 ∨ (x ∈ cs ∧ x ∉ cur ∧ x ∉ cov') := by
  induction cs generalizing a with
  | nil => simp
  | cons c cs ih =>
    rw [List.foldl_cons, ih]
    unfold innerStep
    by_cases hc : (!cur.contains c && !cov'.contains c) = true
    · have hc' : c ∉ cur ∧ c ∉ cov' := by simpa using hc
      simp only [hc, if_true, mem_ins, List.mem_cons]
      constructor
      · rintro ((h | rfl) | ⟨h, h2⟩)
        · exact Or.inl h
        · exact Or.inr ⟨Or.inl rfl, hc'⟩
        · exact Or.inr ⟨Or.inr h, h2⟩
      · rintro (h | ⟨rfl | h, h2⟩)
        · exact Or.inl (Or.inl h)
        · exact Or.inl (Or.inr rfl)
        · exact Or.inr ⟨h, h2⟩
    · have hc' : ¬ (c ∉ cur ∧ c ∉ cov') := by simpa using hc
      simp only [hc, Bool.false_eq_true, if_false, List.mem_cons]
      constructor
      · rintro (h | ⟨h, h2⟩)
        · exact Or.inl h
        · exact Or.inr ⟨Or.inr h, h2⟩
      · rintro (h | ⟨rfl | h, h2⟩)
        · exact Or.inl h
        · exact absurd h2 hc'
        · exact Or.inr ⟨h, h2⟩

theorem mem_outer (G : GG) (cur cov' gs : List Goal) (acc : List Goal × Bool) (x : Goal) :
    x ∈ (gs.foldl (outerStep G cur cov') acc).1 ↔
      x ∈ acc.1 ∨ (x ∈ gs ∧ x ∉ cov') ∨
        (∃ p, p ∈ gs ∧ p ∈ cov' ∧ (p, x) ∈ G.edges ∧ x ∉ cur ∧ x ∉ cov') := by
  induction gs generalizing acc with
  | nil => simp
  | cons g gs ih =>
    rw [List.foldl_cons, ih]
    unfold outerStep
    by_cases hg : cov'.contains g = true
    · have hg' : g ∈ cov' := by simpa using hg
      simp only [hg, if_true, mem_inner, mem_children, List.mem_cons]
      constructor
      · rintro ((h | ⟨h1, h2⟩) | ⟨h1, h2⟩ | ⟨p, hp, h⟩)
        · exact Or.inl h
        · exact Or.inr (Or.inr ⟨g, Or.inl rfl, hg', h1, h2⟩)
        · exact Or.inr (Or.inl ⟨Or.inr h1, h2⟩)
        · exact Or.inr (Or.inr ⟨p, Or.inr hp, h⟩)
      · rintro (h | ⟨rfl | h1, h2⟩ | ⟨p, rfl | hp, h⟩)
        · exact Or.inl (Or.inl h)
        · exact absurd hg' h2
        · exact Or.inr (Or.inl ⟨h1, h2⟩)
        · exact Or.inl (Or.inr ⟨h.2.1, h.2.2⟩)
        · exact Or.inr (Or.inr ⟨p, hp, h⟩)
    · have hg' : g ∉ cov' := by simpa using hg
      simp only [hg, Bool.false_eq_true, if_false, mem_ins, List.mem_cons]
      constructor
      · rintro ((h | rfl) | ⟨h1, h2⟩ | ⟨p, hp, h⟩)
        · exact Or.inl h
        · exact Or.inr (Or.inl ⟨Or.inl rfl, hg'⟩)
        · exact Or.inr (Or.inl ⟨Or.inr h1, h2⟩)
        · exact Or.inr (Or.inr ⟨p, Or.inr hp, h⟩)
      · rintro (h | ⟨rfl | h1, h2⟩ | ⟨p, rfl | hp, h⟩)
        · exact Or.inl (Or.inl h)
        · exact Or.inl (Or.inr rfl)
        · exact Or.inr (Or.inl ⟨h1, h2⟩)
        · exact absurd h.1 hg'
        · exact Or.inr (Or.inr ⟨p, hp, h⟩)

end PynguinModel.GoalGraph
