import PynguinModel.Model.StackMachine
/-!
Helper lemmas for C01: the stack machine cannot tell values apart (substitution), does not look
below the entries it needs (frame), and does not depend on the world for licensed, user-code-free
ops.  `transfer` combines them: a run on ANY stack is the image of the symbolic run the checkers
perform.
-/
namespace PynguinModel.StackMachine

/-! ### substitution of tokens -/

def Val.subst (g : Nat → Val) : Val → Val
  | .tok i => g i
  | .lit l => .lit l
  | .meth n s => .meth n (s.subst g)
  | .tup a b => .tup (a.subst g) (b.subst g)
  | .sum a b => .sum (a.subst g) (b.subst g)

def Ev.subst (g : Nat → Val) : Ev → Ev
  | .call c s args => .call (c.subst g) (s.subst g) (args.map (Val.subst g))
  | .orig id args => .orig id (args.map (Val.subst g))

def Result.subst (g : Nat → Val) (r : Result) : Result :=
  ⟨r.stack.map (Val.subst g), r.events.map (Ev.subst g), r.err⟩

theorem getD_map_subst (g : Nat → Val) (s : List Val) (i : Nat) :
    ((s.map (Val.subst g))[i]?).getD Val.dflt = ((s[i]?).getD Val.dflt).subst g := by
  rw [List.getElem?_map]
  cases s[i]? <;> simp [Val.subst, Val.dflt]

theorem Src.eval_subst (g : Nat → Val) (s : List Val) (x : Src) :
    x.eval (s.map (Val.subst g)) = (x.eval s).subst g := by
  induction x with
  | pos i => simp only [Src.eval]; exact getD_map_subst g s i
  | lit l => simp [Src.eval, Val.subst]
  | meth n x ih => simp [Src.eval, Val.subst, ih]
  | tup a b iha ihb => simp [Src.eval, Val.subst, iha, ihb]
  | sum a b iha ihb => simp [Src.eval, Val.subst, iha, ihb]

theorem Emit.events_subst (g : Nat → Val) (s : List Val) (e : Emit) :
    e.events (s.map (Val.subst g)) = (e.events s).map (Ev.subst g) := by
  cases e with
  | silent => simp [Emit.events]
  | call n =>
    simp only [Emit.events, List.map_cons, List.map_nil, Ev.subst, getD_map_subst]
    simp [List.map_take, List.map_reverse]
  | orig id p => simp [Emit.events, Ev.subst, List.map_take]

/-- a guard whose outcome does not depend on the values on the stack -/
def Guard.valueFree : Guard → Bool
  | .user => false
  | _ => true

theorem Guard.check_subst (w : World) (g : Nat → Val) (s : List Val) (gd : Guard)
    (h : gd.valueFree = true) : gd.check w (s.map (Val.subst g)) = gd.check w s := by
  cases gd <;> simp_all [Guard.check, Guard.valueFree]

theorem Desc.apply_subst (w : World) (g : Nat → Val) (d : Desc) (s : List Val)
    (h : d.guard.valueFree = true) :
    d.apply w (s.map (Val.subst g)) = (d.apply w s).subst g := by
  unfold Desc.apply
  simp only [List.length_map]
  by_cases hl : s.length < d.need
  · simp [hl, Result.subst]
  · simp only [hl, if_false]
    cases hg : d.guard with
    | raises id => simp [Result.subst, Emit.events_subst]
    | user => simp [hg, Guard.valueFree] at h
    | free => simp [Guard.check, Result.subst, Emit.events_subst, Src.eval_subst, List.map_drop]
    | invalid => simp [Guard.check, Result.subst]
    | bound k n =>
      simp only [Guard.check]
      by_cases hb : w.bound k n = true
      · simp [hb, Result.subst, Emit.events_subst, Src.eval_subst, List.map_drop]
      · simp [hb, Result.subst]

def valueFreeOps (ops : List Op) : Bool := ops.all (fun o => o.desc.guard.valueFree)

theorem run_subst (w : World) (g : Nat → Val) (ops : List Op) (s : List Val)
    (h : valueFreeOps ops = true) :
    run w ops (s.map (Val.subst g)) = (run w ops s).subst g := by
  induction ops generalizing s with
  | nil => simp [run, Result.subst]
  | cons op ops ih =>
    simp only [valueFreeOps, List.all_cons, Bool.and_eq_true] at h
    have hs : step w op (s.map (Val.subst g)) = (step w op s).subst g :=
      Desc.apply_subst w g op.desc s h.1
    simp only [run, hs]
    cases he : (step w op s).err with
    | some e => simp [Result.subst, he]
    | none =>
      have : ((step w op s).subst g).err = none := by simp [Result.subst, he]
      simp only [this]
      have ih' := ih (step w op s).stack (by simpa [valueFreeOps] using h.2)
      simp only [Result.subst] at ih' ⊢
      rw [ih']
      simp [List.map_append]

/-! ### frame -/

theorem Src.within_mono {n m : Nat} (h : n ≤ m) (x : Src) (hx : x.within n = true) :
    x.within m = true := by
  induction x with
  | pos i => simp [Src.within] at hx ⊢; omega
  | lit l => simp [Src.within]
  | meth _ x ih => simp [Src.within] at hx ⊢; exact ih hx
  | tup a b iha ihb => simp [Src.within] at hx ⊢; exact ⟨iha hx.1, ihb hx.2⟩
  | sum a b iha ihb => simp [Src.within] at hx ⊢; exact ⟨iha hx.1, ihb hx.2⟩

theorem Src.eval_append (top rest : List Val) (x : Src) (hx : x.within top.length = true) :
    x.eval (top ++ rest) = x.eval top := by
  induction x with
  | pos i =>
    simp [Src.within] at hx
    simp [Src.eval, List.getElem?_append_left hx]
  | lit l => simp [Src.eval]
  | meth _ x ih => simp [Src.within] at hx; simp [Src.eval, ih hx]
  | tup a b iha ihb => simp [Src.within] at hx; simp [Src.eval, iha hx.1, ihb hx.2]
  | sum a b iha ihb => simp [Src.within] at hx; simp [Src.eval, iha hx.1, ihb hx.2]

def Result.onTop (r : Result) (rest : List Val) : Result := ⟨r.stack ++ rest, r.events, r.err⟩

theorem Desc.apply_append (w : World) (d : Desc) (top rest : List Val) (hwf : d.wf = true)
    (hn : d.need ≤ top.length) :
    d.apply w (top ++ rest) = (d.apply w top).onTop rest := by
  unfold Desc.wf at hwf
  simp only [Bool.and_eq_true, decide_eq_true_eq, List.all_eq_true] at hwf
  obtain ⟨⟨⟨hpops, hpush⟩, hemit⟩, hguard⟩ := hwf
  have hev : d.emit.events (top ++ rest) = d.emit.events top := by
    cases he : d.emit with
    | silent => simp [Emit.events]
    | call n =>
      simp only [he, decide_eq_true_eq] at hemit
      have h1 : n + 1 < top.length := by omega
      have h2 : n < top.length := by omega
      simp [Emit.events, List.getElem?_append_left h1, List.getElem?_append_left h2,
        List.take_append_of_le_length (Nat.le_of_lt h2)]
    | orig id p =>
      simp only [he, decide_eq_true_eq] at hemit
      simp [Emit.events, List.take_append_of_le_length (Nat.le_trans hemit hn)]
  have hpushes : d.pushes.map (Src.eval (top ++ rest)) = d.pushes.map (Src.eval top) := by
    apply List.map_congr_left
    intro x hx
    exact Src.eval_append top rest x (Src.within_mono hn x (hpush x hx))
  have hdrop : (top ++ rest).drop d.pops = top.drop d.pops ++ rest :=
    List.drop_append_of_le_length (Nat.le_trans hpops hn)
  have hcheck : d.guard.check w (top ++ rest) = d.guard.check w top := by
    cases hg : d.guard with
    | user =>
      simp only [hg, decide_eq_true_eq] at hguard
      have h1 : 1 < top.length := by omega
      have h0 : 0 < top.length := by omega
      simp [Guard.check, List.getElem?_append_left h1, List.getElem?_append_left h0]
    | _ => simp [Guard.check]
  unfold Desc.apply
  have hl : ¬ (top ++ rest).length < d.need := by simp; omega
  have hl' : ¬ top.length < d.need := by omega
  simp only [hl, hl', if_false, hev, hpushes, hdrop]
  cases hg : d.guard with
  | raises id => simp [Result.onTop]
  | free => simp [Guard.check, Result.onTop, List.append_assoc]
  | invalid => simp [Guard.check, Result.onTop]
  | bound k n =>
    by_cases hb : w.bound k n = true <;> simp [Guard.check, hb, Result.onTop, List.append_assoc]
  | user =>
    rw [hg] at hcheck
    simp only [hcheck]
    cases Guard.check w top Guard.user <;> simp [Result.onTop, List.append_assoc]

theorem run_append_stack (w : World) (ops : List Op) (top rest : List Val)
    (hwf : allWf ops = true) (hu : (run w ops top).err ≠ some .underflow) :
    run w ops (top ++ rest) = (run w ops top).onTop rest := by
  induction ops generalizing top with
  | nil => simp [run, Result.onTop]
  | cons op ops ih =>
    simp only [allWf, List.all_cons, Bool.and_eq_true] at hwf
    have hneed : op.desc.need ≤ top.length := by
      apply Classical.byContradiction
      intro hlt
      have hlt' : top.length < op.desc.need := by omega
      apply hu
      simp [run, step, Desc.apply, hlt']
    have hs : step w op (top ++ rest) = (step w op top).onTop rest :=
      Desc.apply_append w op.desc top rest hwf.1 hneed
    simp only [run, hs] at hu ⊢
    cases he : (step w op top).err with
    | some e => simp [Result.onTop, he]
    | none =>
      simp only [he] at hu
      have h1 : ((step w op top).onTop rest).err = none := by simp [Result.onTop, he]
      simp only [h1]
      have ih' := ih (step w op top).stack (by simpa [allWf] using hwf.2) hu
      simp only [Result.onTop] at ih' ⊢
      rw [ih']

/-! ### independence of the world -/

theorem Desc.apply_world (w : World) (lic : List (Nat × Nat)) (d : Desc) (s : List Val)
    (hok : d.guard.okIn lic = true) (hw : ∀ p ∈ lic, w.bound p.1 p.2 = true) :
    d.apply w s = d.apply wAll s := by
  unfold Desc.apply
  cases hg : d.guard with
  | user => simp [hg, Guard.okIn] at hok
  | bound k n =>
    simp only [hg, Guard.okIn, List.contains_eq_mem, decide_eq_true_eq] at hok
    have := hw (k, n) hok
    simp [Guard.check, this, wAll]
  | _ => simp [Guard.check]

theorem run_world (w : World) (lic : List (Nat × Nat)) (ops : List Op) (s : List Val)
    (hok : observeOnly ops lic = true) (hw : ∀ p ∈ lic, w.bound p.1 p.2 = true) :
    run w ops s = run wAll ops s := by
  induction ops generalizing s with
  | nil => simp [run]
  | cons op ops ih =>
    simp only [observeOnly, List.all_cons, Bool.and_eq_true] at hok
    have hs : step w op s = step wAll op s := Desc.apply_world w lic op.desc s hok.1 hw
    simp only [run, hs]
    cases (step wAll op s).err with
    | some e => rfl
    | none => simp only; rw [ih _ (by simpa [observeOnly] using hok.2)]

theorem okIn_valueFree (lic : List (Nat × Nat)) (g : Guard) (h : g.okIn lic = true) :
    g.valueFree = true := by
  cases g <;> simp_all [Guard.okIn, Guard.valueFree]

theorem observeOnly_valueFree (ops : List Op) (lic : List (Nat × Nat))
    (h : observeOnly ops lic = true) : valueFreeOps ops = true := by
  simp only [observeOnly, valueFreeOps, List.all_eq_true] at h ⊢
  exact fun o ho => okIn_valueFree lic _ (h o ho)

/-! ### transfer: every run is the image of the symbolic run -/

/-- the substitution that sends token `i` to the `i`-th entry of `s` -/
def pick (s : List Val) : Nat → Val := fun i => (s[i]?).getD Val.dflt

theorem toks_subst_pick (s : List Val) (k : Nat) (hk : k ≤ s.length) :
    (toks k).map (Val.subst (pick s)) = s.take k := by
  apply List.ext_getElem
  · simp [toks, List.length_take, Nat.min_eq_left hk]
  · intro i h1 h2
    simp [toks] at h1
    have : i < s.length := by omega
    simp [toks, Val.subst, pick, List.getElem?_eq_getElem this]

theorem transfer (ops : List Op) (k : Nat) (lic : List (Nat × Nat)) (hwf : allWf ops = true)
    (ho : observeOnly ops lic = true) (w : World) (hw : ∀ p ∈ lic, w.bound p.1 p.2 = true)
    (s : List Val) (hk : k ≤ s.length)
    (hu : (run wAll ops (toks k)).err ≠ some .underflow) :
    run w ops s = ((run wAll ops (toks k)).subst (pick s)).onTop (s.drop k) := by
  rw [run_world w lic ops s ho hw]
  have hsplit : s = (toks k).map (Val.subst (pick s)) ++ s.drop k := by
    rw [toks_subst_pick s k hk, List.take_append_drop]
  have h1 := run_subst wAll (pick s) ops (toks k) (observeOnly_valueFree ops lic ho)
  have hu' : (run wAll ops ((toks k).map (Val.subst (pick s)))).err ≠ some .underflow := by
    rw [h1]; simpa [Result.subst] using hu
  have h2 := run_append_stack wAll ops _ (s.drop k) hwf hu'
  rw [h1] at h2
  rw [← h2, ← hsplit]

/-! ### sequencing -/

theorem run_append (w : World) (a b : List Op) (s : List Val) :
    run w (a ++ b) s =
      match (run w a s).err with
      | some _ => run w a s
      | none => ⟨(run w b (run w a s).stack).stack,
                 (run w a s).events ++ (run w b (run w a s).stack).events,
                 (run w b (run w a s).stack).err⟩ := by
  induction a generalizing s with
  | nil => simp [run]
  | cons op a ih =>
    simp only [List.cons_append, run]
    cases he : (step w op s).err with
    | some e => simp [he]
    | none =>
      simp only
      rw [ih]
      cases he2 : (run w a (step w op s).stack).err with
      | some e => simp [he2]
      | none => simp [List.append_assoc]

/-! ### callbacks only observe -/

/-- What a callback may receive: one of the observed stack entries, a value the instrumentation
brought itself (constant, frame read, output of the overridden instruction), or a pair of those. -/
inductive Observed (top : List Val) : Val → Prop
  | mem {v : Val} : v ∈ top → Observed top v
  | lit (l : Lit) : Observed top (.lit l)
  | tup {a b : Val} : Observed top a → Observed top b → Observed top (.tup a b)

/-- a callback on the instrumentation's own object `c` that receives observed values only -/
def Ev.ObservesOnly (top : List Val) (e : Ev) : Prop :=
  ∃ c name args, e = .call (.meth name (.lit (.const c))) (.lit (.const c)) args ∧
    ∀ a ∈ args, Observed top a

theorem observedSym_subst (s : List Val) (k : Nat) (hk : k ≤ s.length) (v : Val)
    (h : v.observedSym k = true) : Observed (s.take k) (v.subst (pick s)) := by
  induction v with
  | tok i =>
    simp [Val.observedSym] at h
    have hi : i < s.length := by omega
    apply Observed.mem
    simp only [Val.subst, pick, List.getElem?_eq_getElem hi, Option.getD_some]
    rw [List.mem_iff_getElem]
    exact ⟨i, by simp [List.length_take]; omega, by simp⟩
  | lit l => exact Observed.lit l
  | meth n x _ => simp [Val.observedSym] at h
  | tup a b iha ihb =>
    simp [Val.observedSym] at h
    exact Observed.tup (iha h.1) (ihb h.2)
  | sum a b _ _ => simp [Val.observedSym] at h

theorem callOk_subst (s : List Val) (k : Nat) (hk : k ≤ s.length) (e : Ev)
    (hc : e.isCall = true) (h : e.callOk k = true) :
    (e.subst (pick s)).ObservesOnly (s.take k) := by
  cases e with
  | orig id args => simp [Ev.isCall] at hc
  | call callee self args =>
    simp only [Ev.callOk, Bool.and_eq_true, List.all_eq_true] at h
    obtain ⟨h1, h2⟩ := h
    cases callee with
    | meth name x =>
      cases x with
      | lit l =>
        cases l with
        | const c =>
          cases self with
          | lit l' =>
            cases l' with
            | const c' =>
              simp at h1
              subst h1
              refine ⟨c, name, args.map (Val.subst (pick s)), by simp [Ev.subst, Val.subst], ?_⟩
              intro a ha
              obtain ⟨v, hv, rfl⟩ := List.mem_map.mp ha
              exact observedSym_subst s k hk v (h2 v hv)
            | _ => simp at h1
          | _ => simp at h1
        | _ => simp at h1
      | _ => simp at h1
    | _ => simp at h1

theorem eraseCalls_subst (g : Nat → Val) (evs : List Ev) :
    eraseCalls (evs.map (Ev.subst g)) = (eraseCalls evs).map (Ev.subst g) := by
  have hc : ∀ e : Ev, (e.subst g).isCall = e.isCall := by
    intro e; cases e <;> rfl
  induction evs with
  | nil => simp [eraseCalls]
  | cons e evs ih =>
    simp only [eraseCalls] at ih
    simp only [eraseCalls, List.map_cons, List.filter_cons, hc]
    cases e.isCall <;> simp [ih]

theorem eraseCalls_append (a b : List Ev) : eraseCalls (a ++ b) = eraseCalls a ++ eraseCalls b := by
  simp [eraseCalls]

theorem observable_err {r r0 : Result} (h : r.observable = r0.observable) : r.err = r0.err := by
  have := congrArg Result.err h
  simpa [Result.observable] using this

theorem observable_events {r r0 : Result} (h : r.observable = r0.observable) :
    eraseCalls r.events = eraseCalls r0.events := by
  have := congrArg Result.events h
  simpa [Result.observable] using this

theorem observable_stack {r r0 : Result} (h : r.observable = r0.observable) (hn : r0.err = none) :
    r.stack = r0.stack := by
  have he := observable_err h
  have := congrArg Result.stack h
  simpa [Result.observable, he, hn] using this

theorem observable_transfer (g : Nat → Val) (rest : List Val) (r r0 : Result)
    (h : r.observable = r0.observable) :
    ((r.subst g).onTop rest).observable = ((r0.subst g).onTop rest).observable := by
  have he := observable_err h
  have hev := observable_events h
  simp only [Result.observable, Result.subst, Result.onTop, eraseCalls_subst, hev, he]
  congr 1
  by_cases h0 : r0.err.isSome = true
  · simp [h0]
  · have hn : r0.err = none := by simpa using h0
    simp [hn, observable_stack h hn]

theorem observable_seq (r1 r2 : Result) (e1 e2 : List Ev) (h : r1.observable = r2.observable)
    (he : eraseCalls e1 = eraseCalls e2) :
    (Result.mk r1.stack (e1 ++ r1.events) r1.err).observable
      = (Result.mk r2.stack (e2 ++ r2.events) r2.err).observable := by
  have herr := observable_err h
  have hev := observable_events h
  simp only [Result.observable, eraseCalls_append, he, hev, herr]
  congr 1
  by_cases h0 : r2.err.isSome = true
  · simp [h0]
  · have hn : r2.err = none := by simpa using h0
    simp [hn, observable_stack h hn]

theorem observeOnly_insert (pre post : List Op) (o : Op) (lic : List (Nat × Nat))
    (h : observeOnly (pre ++ post) lic = true) (ho : o.desc.guard.okIn lic = true) :
    observeOnly (pre ++ [o] ++ post) lic = true := by
  simp only [observeOnly, List.all_append, List.all_cons, List.all_nil, Bool.and_true,
    Bool.and_eq_true] at h ⊢
  exact ⟨⟨h.1, ho⟩, h.2⟩

theorem orig_okIn (id p q : Nat) (b : Bool) (lic : List (Nat × Nat)) :
    (Op.orig id p q b).desc.guard.okIn lic = true := by
  cases b <;> simp [Op.desc, Guard.okIn]

theorem orig_events_not_call (w : World) (id p q : Nat) (r : Bool) (s : List Val) :
    ∀ e ∈ (run w [.orig id p q r] s).events, e.isCall = false := by
  intro e he
  simp only [run, step, Desc.apply, Op.desc] at he
  by_cases hl : s.length < p
  · simp [hl] at he
  · cases r <;> simp [hl, Guard.check, Emit.events] at he <;> simp [he, Ev.isCall]

end PynguinModel.StackMachine
