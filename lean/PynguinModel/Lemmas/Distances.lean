import PynguinModel.Model.Distances
/-!
Helper lemmas for C04: facts about `Num`, the rounding hypotheses (`GoodRounding`), the string
distance loops and exact integer arithmetic.  Mathlib-free.
-/
namespace PynguinModel.Distances

/-! ### `Num` -/

namespace Num

theorem gtZero_imp {x : Num} (h : x.gtZero = true) :
    x.geZero = true ∧ x.eqZero = false ∧ x.isNan = false := by
  cases x with
  | nan => simp [gtZero, lt] at h
  | pinf => simp [geZero, le, lt, eqZero, eq, isNan]
  | ninf => simp [gtZero, lt] at h
  | fin q =>
    simp only [gtZero, lt, decide_eq_true_eq] at h
    refine ⟨by simp [geZero, le, lt, h], ?_, by simp [isNan]⟩
    simp only [eqZero, eq, decide_eq_false_iff_not]
    intro h0; rw [h0] at h; exact absurd h (by decide)

@[simp] theorem zero_geZero : (fin 0).geZero = true := by decide
@[simp] theorem zero_eqZero : (fin 0).eqZero = true := by decide
@[simp] theorem zero_isNan : (fin 0).isNan = false := rfl
@[simp] theorem one_geZero : (fin 1).geZero = true := by decide
@[simp] theorem one_eqZero : (fin 1).eqZero = false := by decide
@[simp] theorem one_isNan : (fin 1).isNan = false := rfl
@[simp] theorem pinf_gtZero : pinf.gtZero = true := rfl

/-- `x` is `+inf` or a finite value `≥ c`. -/
def atLeast (x : Num) (c : Rat) : Prop := x = pinf ∨ ∃ r, x = fin r ∧ c ≤ r

theorem atLeast_mono {x : Num} {c c' : Rat} (h : x.atLeast c) (hc : c' ≤ c) : x.atLeast c' := by
  rcases h with h | ⟨r, h, hr⟩
  · exact Or.inl h
  · exact Or.inr ⟨r, h, Rat.le_trans hc hr⟩

theorem atLeast_gtZero {x : Num} {c : Rat} (h : x.atLeast c) (hc : 0 < c) : x.gtZero = true := by
  rcases h with rfl | ⟨r, rfl, hr⟩
  · rfl
  · simp only [gtZero, lt, decide_eq_true_eq]
    grind

end Num

/-- `missedBranchDistance` is the identity on an estimate that is already positive: no guidance
is lost. -/
theorem missed_of_gtZero {d : Num} (h : d.gtZero = true) : missedBranchDistance (.ok d) = d := by
  simp [missedBranchDistance, h]

/-! ### Rounding hypotheses -/

/-- What the precision theorems assume about `float` rounding (true of IEEE-754 round-to-nearest,
trusted; `exactRounding` shows the assumptions are consistent): rounding is monotone relative to
every exactly representable anchor, and `1/2` and the integers up to `2^53` are representable. -/
structure GoodRounding (rd : Rounding) : Prop where
  mono_anchor : ∀ c q : Rat, rd c = .fin c → c ≤ q → (rd q).atLeast c
  half_exact : rd (1 / 2) = .fin (1 / 2)
  int_exact : ∀ z : Int, -(2 ^ 53) ≤ z → z ≤ 2 ^ 53 → rd (z : Rat) = .fin (z : Rat)

theorem goodRounding_exact : GoodRounding exactRounding :=
  ⟨fun _ q _ h => Or.inr ⟨q, rfl, h⟩, rfl, fun _ _ _ => rfl⟩

theorem GoodRounding.zero_exact {rd} (g : GoodRounding rd) : rd 0 = .fin 0 := by
  simpa using g.int_exact 0 (by decide) (by decide)

theorem GoodRounding.one_exact {rd} (g : GoodRounding rd) : rd 1 = .fin 1 := by
  simpa using g.int_exact 1 (by decide) (by decide)

/-- Adding a non-negative float to a float `≥ 1/2` gives a float `≥ 1/2`. -/
theorem fadd_atLeast_half {rd} (g : GoodRounding rd) {x y : Num}
    (hx : x.atLeast (1 / 2)) (hy : y.atLeast 0) : (fadd rd x y).atLeast (1 / 2) := by
  rcases hx with rfl | ⟨a, rfl, ha⟩ <;> rcases hy with rfl | ⟨b, rfl, hb⟩
  · exact Or.inl rfl
  · exact Or.inl rfl
  · exact Or.inl rfl
  · exact g.mono_anchor _ _ g.half_exact (by grind)

theorem fadd_atLeast_half' {rd} (g : GoodRounding rd) {x y : Num}
    (hx : x.atLeast 0) (hy : y.atLeast (1 / 2)) : (fadd rd x y).atLeast (1 / 2) := by
  rcases hx with rfl | ⟨a, rfl, ha⟩ <;> rcases hy with rfl | ⟨b, rfl, hb⟩
  · exact Or.inl rfl
  · exact Or.inl rfl
  · exact Or.inl rfl
  · exact g.mono_anchor _ _ g.half_exact (by grind)

/-! ### String distances -/

theorem lexLt_irrefl (s : List Nat) : lexLt s s = false := by
  induction s with
  | nil => rfl
  | cons a s ih => simp [lexLt, ih]

/-- `lexLt` is the lexicographic order of code-point lists. -/
theorem lexLt_iff (s t : List Nat) : lexLt s t = true ↔ s < t := by
  induction s generalizing t with
  | nil => cases t <;> simp [lexLt]
  | cons a s ih =>
    cases t with
    | nil => simp [lexLt]
    | cons b t =>
      simp only [lexLt, List.cons_lt_cons_iff]
      by_cases h1 : a < b
      · simp [h1]
      · by_cases h2 : b < a
        · simp only [h1, h2, if_false, if_true, Bool.false_eq_true, false_iff]
          rintro (h | ⟨rfl, _⟩) <;> omega
        · have : a = b := by omega
          subst this
          simp [ih]

theorem lexLe_iff (s t : List Nat) : lexLe s t = true ↔ s ≤ t := by
  simp only [lexLe, Bool.or_eq_true, lexLt_iff, beq_iff_eq]
  exact List.le_iff_lt_or_eq.symm

theorem ltLoop_pos (s t : List Nat) : 1 ≤ ltLoop s t := by
  induction s generalizing t with
  | nil => simp [ltLoop]
  | cons a s ih =>
    cases t with
    | nil => simp [ltLoop]
    | cons b t =>
      simp only [ltLoop]
      split
      · omega
      · exact ih t

theorem leLoop_pos (s t : List Nat) : 1 ≤ leLoop s t := by
  induction s generalizing t with
  | nil => simp [leLoop]
  | cons a s ih =>
    cases t with
    | nil => simp [leLoop]
    | cons b t =>
      simp only [leLoop]
      split
      · omega
      · exact ih t

theorem half_le_ratio (d : Nat) (h : 1 ≤ d) : (1 : Rat) / 2 ≤ (d : Rat) / ((d : Rat) + 1) := by
  have hd : (1 : Rat) ≤ (d : Rat) := by exact_mod_cast h
  have hpos : (0 : Rat) < (d : Rat) + 1 := by grind
  apply Rat.not_lt.1
  intro hlt
  rw [Rat.div_lt_iff hpos] at hlt
  grind

/-- The mismatch term `difference / (difference + 1.0)` is a float `≥ 1/2`. -/
theorem term_atLeast_half {rd} (g : GoodRounding rd) (d : Nat) (h : 1 ≤ d) :
    (rd ((d : Rat) / ((d : Rat) + 1))).atLeast (1 / 2) :=
  g.mono_anchor _ _ g.half_exact (half_le_ratio d h)

theorem sdLoop_keeps_half {rd} (g : GoodRounding rd) (s t : List Nat) (acc : Num)
    (h : acc.atLeast (1 / 2)) : (sdLoop rd s t acc).atLeast (1 / 2) := by
  induction s generalizing t acc with
  | nil => simpa [sdLoop] using h
  | cons a s ih =>
    cases t with
    | nil => simpa [sdLoop] using h
    | cons b t =>
      simp only [sdLoop]
      split
      · rename_i hab
        apply ih
        apply fadd_atLeast_half g h
        refine Num.atLeast_mono (term_atLeast_half g _ ?_) (by decide +kernel)
        have : a ≠ b := by simpa using hab
        split <;> omega
      · exact ih t acc h

theorem sdLoop_differs {rd} (g : GoodRounding rd) (s t : List Nat) (acc : Num)
    (h : acc.atLeast 0) (hlen : s.length = t.length) (hne : s ≠ t) :
    (sdLoop rd s t acc).atLeast (1 / 2) := by
  induction s generalizing t acc with
  | nil =>
    cases t with
    | nil => exact absurd rfl hne
    | cons b t => simp at hlen
  | cons a s ih =>
    cases t with
    | nil => simp at hlen
    | cons b t =>
      simp only [sdLoop]
      split
      · rename_i hab
        apply sdLoop_keeps_half g
        apply fadd_atLeast_half' g h
        apply term_atLeast_half g
        have : a ≠ b := by simpa using hab
        split <;> omega
      · rename_i hab
        have hab' : a = b := by simpa using hab
        subst hab'
        apply ih t acc h
        · simpa using hlen
        · intro hst; exact hne (by rw [hst])

/-- `string_distance` of two different strings is a float `≥ 1/2` (never `0.0`, never NaN). -/
theorem stringDistance_ne {rd} (g : GoodRounding rd) (s t : List Nat) (hne : s ≠ t) :
    (stringDistance rd s t).atLeast (1 / 2) := by
  unfold stringDistance
  have hbeq : (s == t) = false := by simpa using hne
  simp only [hbeq, Bool.false_eq_true, if_false]
  by_cases hlen : s.length = t.length
  · apply sdLoop_differs g s t _ _ hlen hne
    exact Or.inr ⟨_, rfl, by simp [hlen]⟩
  · apply sdLoop_keeps_half g
    refine Or.inr ⟨_, rfl, ?_⟩
    have h1 : 1 ≤ max s.length t.length - min s.length t.length := by omega
    have : (1 : Rat) ≤ ((max s.length t.length - min s.length t.length : Nat) : Rat) := by
      exact_mod_cast h1
    grind

theorem stringDistance_self (rd : Rounding) (s : List Nat) : stringDistance rd s s = .fin 0 := by
  simp [stringDistance]

end PynguinModel.Distances
