import PynguinModel.Model.ThreadGuard
/-!
# Helper lemmas for C32 (thread guard): single-step facts and list/trace membership facts.
-/
namespace PynguinModel.ThreadGuard

@[simp] theorem setLoc_loc (s : T) (t u : Tid) (l : Local) :
    (s.setLoc t l).loc u = if u = t then l else s.loc u := rfl

@[simp] theorem setLoc_current (s : T) (t : Tid) (l : Local) : (s.setLoc t l).current = s.current := rfl

@[simp] theorem setLoc_imp (s : T) (t : Tid) (l : Local) : (s.setLoc t l).imp = s.imp := rfl

/-- A call made by thread `t` never touches the thread-local state of another thread `u`. -/
theorem step_loc_other (s : T) (t u : Tid) (op : Op) (h : u ≠ t) :
    (step s t op).1.loc u = s.loc u := by
  cases op <;> simp only [step] <;> (try split) <;> (try split) <;> (try simp [h]) <;> (try contradiction)

/-- Only `store_import_trace` and `reset` change the import trace. -/
theorem step_imp (s : T) (t : Tid) (op : Op) (h : op.isImportOp = false) :
    (step s t op).1.imp = s.imp := by
  cases op <;> simp only [step] <;> (try split) <;> (try split) <;> simp_all [Op.isImportOp]

/-- A call that raises changes nothing at all. -/
theorem step_raised_unchanged (s : T) (t : Tid) (op : Op) (h : (step s t op).2 = true) :
    (step s t op).1 = s := by
  cases op <;> simp only [step] at h ⊢ <;> (try split at h) <;> (try split at h) <;> simp_all

/-- A call that does not raise acts on the caller's local state exactly as if the thread were alone. -/
theorem step_loc_self (s : T) (t : Tid) (op : Op) (hi : op.isImportOp = false)
    (h : (step s t op).2 = false) :
    (step s t op).1.loc t = soloStep s.imp (s.loc t) op := by
  cases op <;> simp only [step, soloStep] at h ⊢ <;> (try split at h) <;> (try split at h)
    <;> simp_all [Op.isImportOp]

/-- A guarded call (explicit `check`, or a callback while the caller's flag is enabled) raises iff the
caller is not the current thread. -/
theorem step_check_raises (s : T) (t : Tid) : (step s t .check).2 = decide (s.current ≠ some t) := rfl

theorem step_cb_raises (s : T) (t : Tid) (c : Cb) :
    (step s t (.cb c)).2 = ((s.loc t).enabled && decide (s.current ≠ some t)) := by
  simp only [step]
  cases h : (s.loc t).enabled <;> simp
  split <;> simp_all

/-- `current` after a call: only `enter` can make a thread current, and only the caller itself. -/
theorem step_current_ne (s : T) (t u : Tid) (op : Op) (hc : s.current ≠ some u)
    (h : ¬ (t = u ∧ op = .enter)) : (step s t op).1.current ≠ some u := by
  cases op <;> simp only [step] <;> (try split) <;> (try split) <;> simp_all

/-! ### membership in ordered sets / count dicts -/

theorem mem_addSet {xs : List Nat} {x y : Nat} : y ∈ addSet xs x ↔ y ∈ xs ∨ y = x := by
  unfold addSet
  split
  · constructor
    · intro h; exact Or.inl h
    · intro h; rcases h with h | h
      · exact h
      · subst h; assumption
  · simp

theorem mem_keys_bump {ps : List (Nat × Nat)} {p q : Nat} :
    q ∈ keys (bump ps p) ↔ q ∈ keys ps ∨ q = p := by
  induction ps with
  | nil => simp [bump, keys]
  | cons h t ih =>
    obtain ⟨a, c⟩ := h
    simp only [bump]
    split
    · rename_i hq; subst hq
      simp only [keys, List.mem_cons]
      constructor
      · intro h; rcases h with h | h
        · exact Or.inr h
        · exact Or.inl (Or.inr h)
      · intro h; rcases h with (h | h) | h
        · exact Or.inl h
        · exact Or.inr h
        · exact Or.inl h
    · simp only [keys, List.mem_cons, ih]
      constructor
      · intro h; rcases h with h | h | h
        · exact Or.inl (Or.inl h)
        · exact Or.inl (Or.inr h)
        · exact Or.inr h
      · intro h; rcases h with (h | h) | h
        · exact Or.inl h
        · exact Or.inr (Or.inl h)
        · exact Or.inr (Or.inr h)

theorem mem_items {tr : Trace} {x : Item} :
    x ∈ tr.items ↔
      (match x with
       | .code c => c ∈ tr.codes
       | .line l => l ∈ tr.lines
       | .pred p => p ∈ keys tr.preds
       | .tbranch p => p ∈ tr.tcov
       | .fbranch p => p ∈ tr.fcov) := by
  cases x <;> simp [Trace.items]

/-- A callback adds at most its own items to a trace. -/
theorem mem_apply_items {tr : Trace} {c : Cb} {x : Item} :
    x ∈ (c.apply tr).items → x ∈ tr.items ∨ x ∈ c.items := by
  rw [mem_items, mem_items]
  cases c with
  | code c => cases x <;> simp [Cb.apply, Cb.items, mem_addSet]
  | line l => cases x <;> simp [Cb.apply, Cb.items, mem_addSet]
  | pred p b =>
    cases b <;> cases x <;> simp [Cb.apply, Cb.items, mem_addSet, mem_keys_bump]

/-- …and keeps everything that was there. -/
theorem items_subset_apply {tr : Trace} {c : Cb} {x : Item} :
    x ∈ tr.items → x ∈ (c.apply tr).items := by
  rw [mem_items, mem_items]
  cases c with
  | code c => cases x <;> simp [Cb.apply, mem_addSet] <;> intro h <;> exact Or.inl h
  | line l => cases x <;> simp [Cb.apply, mem_addSet] <;> intro h <;> exact Or.inl h
  | pred p b =>
    cases b <;> cases x <;> simp [Cb.apply, mem_addSet, mem_keys_bump] <;> intro h <;> exact Or.inl h

/-- Everything in the local trace after a solo run was there before, comes from the import trace, or
was issued by one of the run's own callbacks. -/
theorem mem_soloRun_items (imp : Trace) (ops : List Op) (l : Local) (x : Item) :
    x ∈ (soloRun imp l ops).trace.items →
      x ∈ l.trace.items ∨ x ∈ imp.items ∨ ∃ c, Op.cb c ∈ ops ∧ x ∈ c.items := by
  induction ops generalizing l with
  | nil => intro h; exact Or.inl h
  | cons op ops ih =>
    intro h
    have h' := ih (soloStep imp l op) (by simpa [soloRun] using h)
    rcases h' with h' | h' | ⟨c, hc, hx⟩
    · cases op <;> simp only [soloStep] at h' <;> (try exact Or.inl h')
      · exact Or.inr (Or.inl h')
      · rename_i c
        split at h'
        · exact Or.inl h'
        · rcases mem_apply_items h' with h'' | h''
          · exact Or.inl h''
          · exact Or.inr (Or.inr ⟨c, by simp, h''⟩)
    · exact Or.inr (Or.inl h')
    · exact Or.inr (Or.inr ⟨c, by simp [hc], hx⟩)

/-! ### schedules, solo runs, executor-shaped threads -/

theorem run_imp (s : T) (es : List Ev) (h : noImportOps es = true) : (run s es).imp = s.imp := by
  induction es generalizing s with
  | nil => rfl
  | cons e es ih =>
    simp only [noImportOps, List.all_cons, Bool.and_eq_true, Bool.not_eq_eq_eq_not, Bool.not_true] at h
    simp only [run]
    rw [ih _ (by simpa [noImportOps] using h.2), step_imp _ _ _ h.1]

/-- The calls that took effect are among the calls the thread issued, in order. -/
theorem effective_sublist (s : T) (t : Tid) (es : List Ev) :
    (effective t s es).Sublist (opsOf t es) := by
  induction es generalizing s with
  | nil => exact List.Sublist.refl _
  | cons e es ih =>
    simp only [effective, opsOf]
    by_cases ht : e.tid = t
    · simp only [ht, true_and, decide_true, List.filter_cons_of_pos, List.map_cons]
      split
      · exact List.Sublist.cons_cons _ (by simpa [opsOf, ht] using ih (step s t e.op).1)
      · exact List.Sublist.cons _ (by simpa [opsOf, ht] using ih (step s t e.op).1)
    · simp only [ht, false_and, if_false, List.nil_append, decide_false, Bool.false_eq_true,
        not_false_eq_true, List.filter_cons_of_neg]
      exact ih _

/-- If none of `t`'s calls raised, all of them took effect. -/
theorem effective_eq_opsOf (s : T) (t : Tid) (es : List Ev) (h : raisedBy t s es = false) :
    effective t s es = opsOf t es := by
  induction es generalizing s with
  | nil => rfl
  | cons e es ih =>
    simp only [raisedBy, Bool.or_eq_false_iff, Bool.and_eq_false_imp, decide_eq_true_eq] at h
    simp only [effective, opsOf]
    by_cases ht : e.tid = t
    · have hr := h.1 ht
      rw [ht] at hr
      simp only [ht, true_and, hr, if_true, decide_true, List.filter_cons_of_pos, List.map_cons,
        List.singleton_append]
      congr 1
      simpa [opsOf, ht] using ih _ h.2
    · simp only [ht, false_and, if_false, List.nil_append, decide_false, Bool.false_eq_true,
        not_false_eq_true, List.filter_cons_of_neg]
      exact ih _ h.2

theorem soloRun_append (imp : Trace) (l : Local) (a b : List Op) :
    soloRun imp l (a ++ b) = soloRun imp (soloRun imp l a) b := by
  simp [soloRun, List.foldl_append]

theorem soloRun_cbs_enabled (imp : Trace) (tr : Trace) (cs : List Cb) :
    soloRun imp ⟨true, tr⟩ (cs.map .cb) = ⟨true, cs.foldl Cb.apply tr⟩ := by
  induction cs generalizing tr with
  | nil => rfl
  | cons c cs ih => simpa [soloRun, soloStep] using ih (c.apply tr)

theorem soloRun_cbs_disabled (imp : Trace) (tr : Trace) (cs : List Cb) :
    soloRun imp ⟨false, tr⟩ (cs.map .cb) = ⟨false, tr⟩ := by
  induction cs with
  | nil => rfl
  | cons c cs ih => simpa [soloRun, soloStep] using ih

theorem soloRun_stmt (imp : Trace) (en : Bool) (tr : Trace) (st : Stmt) :
    soloRun imp ⟨en, tr⟩ st.ops = ⟨true, st.body.foldl Cb.apply tr⟩ := by
  simp only [Stmt.ops, soloRun_append]
  have h1 : soloRun imp ⟨en, tr⟩ [.check, .disable] = ⟨false, tr⟩ := rfl
  rw [h1, soloRun_cbs_disabled]
  have h2 : soloRun imp ⟨false, tr⟩ [.enable] = ⟨true, tr⟩ := rfl
  rw [h2, soloRun_cbs_enabled]
  have h3 : ∀ tr', soloRun imp ⟨true, tr'⟩ [.check, .disable] = ⟨false, tr'⟩ := fun _ => rfl
  rw [h3, soloRun_cbs_disabled]
  rfl

theorem soloRun_stmts (imp : Trace) (en : Bool) (tr : Trace) (stmts : List Stmt) :
    (soloRun imp ⟨en, tr⟩ (stmts.flatMap Stmt.ops)).trace
      = (stmts.flatMap (·.body)).foldl Cb.apply tr := by
  induction stmts generalizing tr en with
  | nil => rfl
  | cons st stmts ih =>
    simp only [List.flatMap_cons, soloRun_append, soloRun_stmt, ih, List.foldl_append]

theorem soloRun_exit (imp : Trace) (l : Local) : soloRun imp l [.exit] = l := rfl

/-- `t` is not current and does not call `__enter__` again: it never becomes current. -/
theorem abandoned_stays_abandoned (s : T) (t : Tid) (es : List Ev) (hc : s.current ≠ some t)
    (hne : ∀ e ∈ es, e.tid = t → e.op ≠ .enter) : (run s es).current ≠ some t := by
  induction es generalizing s with
  | nil => exact hc
  | cons e es ih =>
    simp only [run]
    apply ih
    · exact step_current_ne s e.tid t e.op hc (fun h => hne e (List.mem_cons_self ..) h.1 h.2)
    · exact fun e' he' => hne e' (List.mem_cons_of_mem _ he')

/-! ### the result hand-over (`return_queue`) -/

/-- A thread that runs `_execute_test_case` alone ends with the solo trace of its statements. -/
theorem soloRun_execOps (imp : Trace) (l : Local) (stmts : List Stmt) :
    (soloRun imp l (execOps stmts)).trace = soloTrace imp stmts := by
  rw [execOps, soloRun_append, soloRun_append]
  have h1 : soloRun imp l [.initTrace, .enter] = ⟨l.enabled, imp⟩ := rfl
  rw [h1, soloRun_exit, soloRun_stmts]
  rfl

@[simp] theorem setQ_tr (h : H) (i : Nat) (l : List (Nat × Res)) : (h.setQ i l).tr = h.tr := rfl

@[simp] theorem setQ_q (h : H) (i j : Nat) (l : List (Nat × Res)) :
    (h.setQ i l).q j = if j = i then l else h.q j := rfl

/-- Queue operations do not touch the tracer; a tracer call is the tracer's `step`. -/
theorem hstep_tr (m : QMode) (h : H) (e : HEv) :
    (hstep m h e).1.tr = match e with
      | .call c => (step h.tr c.tid c.op).1
      | _ => h.tr := by
  cases e with
  | call c => rfl
  | put k t exc => rfl
  | collect k alive =>
    simp only [hstep]
    split
    · rfl
    · split <;> rfl

/-- The tracer component of a history is the tracer run over the history's tracer calls: every
schedule theorem applies to histories. -/
theorem hfinal_tr (m : QMode) (h : H) (es : List HEv) :
    (hfinal m h es).tr = run h.tr (callsOf es) := by
  induction es generalizing h with
  | nil => rfl
  | cons e es ih =>
    simp only [hfinal]
    rw [ih, hstep_tr]
    cases e <;> rfl

theorem callsOf_append (a b : List HEv) : callsOf (a ++ b) = callsOf a ++ callsOf b := by
  induction a with
  | nil => rfl
  | cons e a ih => cases e <;> simp [callsOf, ih]

/-- Where an entry of a queue after one event comes from: it was there before, or this very event
is the `put` of its producer, with the producer thread's trace at that moment. -/
theorem hstep_q_mem (m : QMode) (h : H) (e : HEv) (i p : Nat) (r : Res)
    (hm : (p, r) ∈ (hstep m h e).1.q i) :
    (p, r) ∈ h.q i ∨ ∃ t exc, e = .put p t exc ∧ r = ⟨(h.tr.loc t).trace, exc⟩ := by
  cases e with
  | call c => exact Or.inl hm
  | put k t exc =>
    simp only [hstep, setQ_q] at hm
    split at hm
    · rename_i hi
      rcases List.mem_append.mp hm with h1 | h1
      · exact Or.inl (hi ▸ h1)
      · simp only [List.mem_singleton, Prod.mk.injEq] at h1
        exact Or.inr ⟨t, exc, by rw [h1.1], h1.2⟩
    · exact Or.inl hm
  | collect k alive =>
    simp only [hstep] at hm
    split at hm
    · exact Or.inl hm
    · split at hm
      · exact Or.inl hm
      · rename_i hq
        simp only [setQ_q] at hm
        split at hm
        · rename_i hi
          exact Or.inl (by rw [hi, hq]; exact List.mem_cons_of_mem _ hm)
        · exact Or.inl hm

/-- A dequeued result is the head of the queue the execution reads. -/
theorem hstep_ok_mem (m : QMode) (h : H) (e : HEv) (k p : Nat) (r : Res)
    (hr : (hstep m h e).2 = some (k, .ok p r)) : (p, r) ∈ h.q (m.qid k) := by
  cases e with
  | call c => simp [hstep] at hr
  | put k' t exc => simp [hstep] at hr
  | collect k' alive =>
    simp only [hstep] at hr
    split at hr
    · simp at hr
    · split at hr
      · simp at hr
      · rename_i hq
        simp only [Option.some.injEq, Prod.mk.injEq, HResult.ok.injEq] at hr
        obtain ⟨hk, hp, hrr⟩ := hr
        rw [← hk, hq, ← hp, ← hrr]
        exact List.mem_cons_self ..

/-- `(p, r)` was put by the thread of execution `p` at some moment of the history, and `r` carries
that thread's own trace at that moment. -/
def PutBy (m : QMode) (h : H) (es : List HEv) (p : Nat) (r : Res) : Prop :=
  ∃ pre t exc post, es = pre ++ HEv.put p t exc :: post
    ∧ r = ⟨((hfinal m h pre).tr.loc t).trace, exc⟩

/-- **Provenance** (any queue discipline): every result `execute` returns was in a queue at the
start or was `put` during the history by the thread of the execution it is tagged with. -/
theorem hresults_provenance (m : QMode) (h : H) (es : List HEv) (k p : Nat) (r : Res)
    (hm : (k, HResult.ok p r) ∈ hresults m h es) :
    (∃ i, (p, r) ∈ h.q i) ∨ PutBy m h es p r := by
  induction es generalizing h with
  | nil => simp [hresults] at hm
  | cons e es ih =>
    simp only [hresults, List.mem_append, Option.mem_toList] at hm
    rcases hm with hm | hm
    · exact Or.inl ⟨_, hstep_ok_mem m h e k p r hm⟩
    · rcases ih _ hm with ⟨i, hi⟩ | ⟨pre, t, exc, post, he, hr⟩
      · rcases hstep_q_mem m h e i p r hi with h1 | ⟨t, exc, he, hr⟩
        · exact Or.inl ⟨i, h1⟩
        · exact Or.inr ⟨[], t, exc, es, by rw [he]; rfl, hr⟩
      · exact Or.inr ⟨e :: pre, t, exc, post, by rw [he]; rfl, hr⟩

/-- Per-execution queues: every entry of queue `i` was put by execution `i`. -/
def QOwn (h : H) : Prop := ∀ i p r, (p, r) ∈ h.q i → p = i

theorem qown_init (s : T) : QOwn (H.init s) := by
  intro i p r hm
  simp [H.init] at hm

theorem hstep_qown (h : H) (e : HEv) (ho : QOwn h) : QOwn (hstep .perExecution h e).1 := by
  intro i p r hm
  rcases hstep_q_mem _ h e i p r hm with h1 | ⟨t, exc, he, _⟩
  · exact ho i p r h1
  · subst he
    simp only [hstep, QMode.qid, setQ_q] at hm
    split at hm
    · rename_i hi; exact hi.symm
    · exact ho i p r hm

/-- Per-execution queues: what `execute` number `k` dequeues was put by the thread of execution `k`. -/
theorem hresults_own (h : H) (es : List HEv) (ho : QOwn h) (k p : Nat) (r : Res)
    (hm : (k, HResult.ok p r) ∈ hresults .perExecution h es) : p = k := by
  induction es generalizing h with
  | nil => simp [hresults] at hm
  | cons e es ih =>
    simp only [hresults, List.mem_append, Option.mem_toList] at hm
    rcases hm with hm | hm
    · exact ho _ p r (hstep_ok_mem .perExecution h e k p r hm)
    · exact ih _ (hstep_qown h e ho) hm

/-- The one-pass runner computes `hfinal` and `hresults`. -/
theorem hrun_eq (m : QMode) (h : H) (acc : List (Nat × HResult)) (es : List HEv) :
    hrun m h acc es = (hfinal m h es, acc.reverse ++ hresults m h es) := by
  induction es generalizing h acc with
  | nil => simp [hrun, hfinal, hresults]
  | cons e es ih =>
    simp only [hrun, hfinal, hresults]
    split
    · rename_i hn; rw [ih, hn]; simp
    · rename_i x hs; rw [ih, hs]; simp

end PynguinModel.ThreadGuard
