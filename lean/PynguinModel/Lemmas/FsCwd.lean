import PynguinModel.Model.FsCwd
import PynguinModel.Lemmas.FsIsolationPath
/-!
# Lemmas for `Model/FsCwd.lean` (C29): processes with `chdir` and re-entered isolations

Whatever the working directory makes of a spelling, the operation finally runs on SOME pair of paths, and
`step_pres` holds for all of them; an exit re-establishes the invariant for the next isolation.
-/

namespace PynguinModel.FsIsolation

variable {init : FS}

/-- after the exit cleanup the next isolation starts from (a tree pointwise equal to) the initial tree -/
theorem Inv.reenter (hpc : PrefixClosed init) {s : St} (hs : Inv init s) : Inv init ⟨exitCleanup s, []⟩ :=
  ⟨by simp,
   fun r _ => exit_restores hpc hs r,
   fun r h => Or.inl (by rw [← exit_restores hpc hs r]; exact h)⟩

theorem stepC_pres (hpc : PrefixClosed init) (c : COp) (s : CSt) (hs : Inv init s.st) :
    Inv init (stepC c s).1.st := by
  cases c with
  | reenter => exact hs.reenter hpc
  | chdir sp =>
    simp only [stepC]
    split
    · exact hs
    · split
      · exact hs
      · split
        · exact hs
        · exact hs
  | op o sp sq =>
    simp only [stepC]
    split
    · exact hs
    · split
      · exact hs
      · split
        · exact hs
        · exact step_pres hpc _ s.st hs

theorem runC_inv (hpc : PrefixClosed init) (cops : List COp) :
    ∀ s : CSt, Inv init s.st → Inv init (runC cops s).st := by
  induction cops with
  | nil => intro s hs; exact hs
  | cons c rest ih =>
    intro s hs
    simp only [runC, List.foldl_cons]
    exact ih _ (stepC_pres hpc c s hs)

/-- every isolation of the process leaves the initial tree behind -/
theorem exitTrees_restore (hpc : PrefixClosed init) (cops : List COp) :
    ∀ s : CSt, Inv init s.st → ∀ t ∈ exitTrees cops s, ∀ r, get t r = get init r := by
  induction cops with
  | nil =>
    intro s hs t ht r
    simp only [exitTrees, List.mem_singleton] at ht
    subst ht
    exact exit_restores hpc hs r
  | cons c rest ih =>
    intro s hs t ht r
    cases c with
    | reenter =>
      simp only [exitTrees, List.mem_cons] at ht
      rcases ht with rfl | ht
      · exact exit_restores hpc hs r
      · exact ih _ (stepC_pres hpc .reenter s hs) t ht r
    | chdir sp =>
      simp only [exitTrees] at ht
      exact ih _ (stepC_pres hpc (.chdir sp) s hs) t ht r
    | op o sp sq =>
      simp only [exitTrees] at ht
      exact ih _ (stepC_pres hpc (.op o sp sq) s hs) t ht r

/-- the last tree of `exitTrees` is the final exit of `runC` -/
theorem exitTrees_last (cops : List COp) : ∀ s : CSt, exitCleanup (runC cops s).st ∈ exitTrees cops s := by
  induction cops with
  | nil => intro s; simp [exitTrees, runC]
  | cons c rest ih =>
    intro s
    have h := ih (stepC c s).1
    simp only [runC, List.foldl_cons] at h ⊢
    cases c with
    | reenter => simp only [exitTrees, List.mem_cons]; exact Or.inr h
    | chdir sp => simpa only [exitTrees] using h
    | op o sp sq => simpa only [exitTrees] using h

/-! ## resolution of spellings -/

/-- file names are appended one by one: a plain relative name denotes a path below the working directory -/
theorem climb_clean (acc segs : Path) (h : cleanPathB segs = true) : climb acc segs = some (acc ++ segs) := by
  induction segs generalizing acc with
  | nil => simp [climb]
  | cons c rest ih =>
    simp only [cleanPathB, List.all_cons, Bool.and_eq_true] at h
    have hc := h.1
    simp only [cleanNameB, Bool.and_eq_true, bne_iff_ne, ne_eq] at hc
    simp only [climb, hc.1.1.1, hc.1.1.2, hc.1.2, or_self, if_false]
    rw [ih _ h.2]
    simp

/-- a relative spelling made of file names is resolved against the working directory of the call -/
theorem resolve_rel_clean (d segs : Path) (h : cleanPathB segs = true) :
    resolve (some d) ⟨true, segs⟩ = some (d ++ segs) := by
  simp [resolve, climb_clean d segs h]

/-- an absolute spelling made of file names denotes itself, whatever the working directory -/
theorem resolve_abs_clean (cwd : Option Path) (p : Path) (h : cleanPathB p = true) :
    resolve cwd ⟨false, p⟩ = some p := by
  simp [resolve, climb_clean [] p h]

/-- an absolute spelling never consults the working directory -/
theorem resolve_abs_cwd (c1 c2 : Option Path) (segs : List String) :
    resolve c1 ⟨false, segs⟩ = resolve c2 ⟨false, segs⟩ := by
  simp [resolve]

/-- the memo is harmless for a spelling that was not used before: the legacy `_abspath` resolves it now -/
theorem legacyAbspath_miss (memo : Memo) (cwd : Option Path) (sp : Spell) (h : memoGet memo sp = none) :
    (legacyAbspath memo cwd sp).1 = resolve cwd sp := by
  unfold legacyAbspath
  rw [h]
  cases resolve cwd sp <;> rfl

/-- … and for a spelling whose memoised resolution is still the current one, the legacy `open` wrapper
is the modelled (repaired) one -/
theorem legacyOpenC_current (sp : Spell) (m : Mode) (data : List Nat) (s : CSt) (memo : Memo) (p : Path)
    (hr : resolve s.cwd sp = some p) (hm : memoGet memo sp = none ∨ memoGet memo sp = some p) :
    (legacyOpenC sp m data (s, memo)).1.1.st = (builtinOpen p m data s.st).1 ∧
    (legacyOpenC sp m data (s, memo)).2 = (builtinOpen p m data s.st).2 := by
  unfold legacyOpenC legacyAbspath
  rcases hm with hm | hm
  · simp only [hr, hm]; exact ⟨rfl, rfl⟩
  · simp only [hr, hm]; exact ⟨rfl, rfl⟩

end PynguinModel.FsIsolation
