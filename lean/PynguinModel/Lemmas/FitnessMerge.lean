import PynguinModel.Lemmas.Fitness
/-!
Lemmas about `ExecutionTrace.merge` for C11: look-up characterisation of the merged trace,
observational equivalence of traces (`Equiv`: sets as sets, dicts as finite maps), the
"covers at least as much" preorder (`Below`), and monotonicity of every fitness / coverage value
along `Below`.  Mathlib-free.
-/
namespace PynguinModel.Fitness

/-! ### What `merge` does to a key -/

/-- The value of key `k` after the loop `for key, value in source.items(): target[key] = f(target.get(key), value)`. -/
def mergeOpt {V} (f : Option V → V → V) (a b : Option V) : Option V :=
  match b with
  | none => a
  | some v => some (f a v)

theorem dget_mergeWith' {V} (f : Option V → V → V) (a b : Dict V) (hb : (keys b).Nodup) (k : Nat) :
    dget (mergeWith f a b) k = mergeOpt f (dget a k) (dget b k) := by
  rw [dget_mergeWith f a b hb k]; unfold mergeOpt; cases dget b k <;> rfl

theorem mergeOpt_isSome {V} (f : Option V → V → V) (a b : Option V) :
    (mergeOpt f a b).isSome = (a.isSome || b.isSome) := by
  cases a <;> cases b <;> simp [mergeOpt]

theorem mergeOpt_addCnt_comm (a b : Option Nat) : mergeOpt addCnt a b = mergeOpt addCnt b a := by
  cases a <;> cases b <;> simp [mergeOpt, addCnt]; omega

theorem mergeOpt_addCnt_assoc (a b c : Option Nat) :
    mergeOpt addCnt (mergeOpt addCnt a b) c = mergeOpt addCnt a (mergeOpt addCnt b c) := by
  cases a <;> cases b <;> cases c <;> simp [mergeOpt, addCnt]; omega

theorem mergeOpt_minDist_comm (a b : Option Dist) : mergeOpt minDist a b = mergeOpt minDist b a := by
  cases a <;> cases b <;> simp [mergeOpt, minDist, dmin_inf_left]; exact dmin_comm _ _

theorem mergeOpt_minDist_assoc (a b c : Option Dist) :
    mergeOpt minDist (mergeOpt minDist a b) c = mergeOpt minDist a (mergeOpt minDist b c) := by
  cases a <;> cases b <;> cases c <;> simp [mergeOpt, minDist, dmin_inf_left, dmin_assoc]

theorem mergeOpt_minDist_self (a : Option Dist) : mergeOpt minDist a a = a := by
  cases a <;> simp [mergeOpt, minDist, dmin_self]

/-! ### `Shape` and `Valid` are preserved by `merge` -/

theorem shape_merge {t u : Trace} (ht : Shape t) (hu : Shape u) : Shape (merge t u) := by
  unfold merge mergeMin
  refine ⟨nodup_osUpdate ht.code_nodup _, nodup_osUpdate ht.lines_nodup _,
    nodup_osUpdate ht.checked_nodup _, keys_mergeWith_nodup _ _ _ ht.cnt_nodup,
    keys_mergeWith_nodup _ _ _ ht.dT_nodup, keys_mergeWith_nodup _ _ _ ht.dF_nodup, ?_, ?_, ?_, ?_⟩
  · intro k
    simp only [dget_mergeWith' _ _ _ hu.dT_nodup, dget_mergeWith' _ _ _ hu.cnt_nodup, mergeOpt_isSome,
      ht.keysT, hu.keysT]
  · intro k
    simp only [dget_mergeWith' _ _ _ hu.dF_nodup, dget_mergeWith' _ _ _ hu.cnt_nodup, mergeOpt_isSome,
      ht.keysF, hu.keysF]
  · intro k v
    simp only [dget_mergeWith' _ _ _ hu.dT_nodup]
    cases hb : dget u.dT k with
    | none => simpa [mergeOpt] using ht.nonnegT k v
    | some w =>
      simp only [mergeOpt, Option.some.injEq]
      intro hv; subst hv
      exact dmin_nonneg (getInf_nonneg ht.keysT ht.nonnegT k) (hu.nonnegT k w hb)
  · intro k v
    simp only [dget_mergeWith' _ _ _ hu.dF_nodup]
    cases hb : dget u.dF k with
    | none => simpa [mergeOpt] using ht.nonnegF k v
    | some w =>
      simp only [mergeOpt, Option.some.injEq]
      intro hv; subst hv
      exact dmin_nonneg (getInf_nonneg ht.keysF ht.nonnegF k) (hu.nonnegF k w hb)

theorem valid_merge {r : Registry} {t u : Trace} (hu' : Shape u) (ht : Valid r t) (hu : Valid r u) :
    Valid r (merge t u) := by
  unfold merge
  refine ⟨?_, ?_, ?_, ?_⟩
  · intro c hc; rcases (mem_osUpdate _ _ _).1 hc with h | h
    · exact ht.code_sub c h
    · exact hu.code_sub c h
  · intro k
    simp only [dget_mergeWith' _ _ _ hu'.cnt_nodup, mergeOpt_isSome, Bool.or_eq_true]
    rintro (h | h)
    · exact ht.pred_sub k h
    · exact hu.pred_sub k h
  · intro c hc; rcases (mem_osUpdate _ _ _).1 hc with h | h
    · exact ht.lines_sub c h
    · exact hu.lines_sub c h
  · intro c hc; rcases (mem_osUpdate _ _ _).1 hc with h | h
    · exact ht.checked_sub c h
    · exact hu.checked_sub c h

theorem shape_analyze_from {ts : List Trace} (h : ∀ t ∈ ts, Shape t) {acc : Trace} (ha : Shape acc) :
    Shape (ts.foldl merge acc) := by
  induction ts generalizing acc with
  | nil => exact ha
  | cons t ts ih =>
    simp only [List.foldl_cons]
    exact ih (fun u hu => h u (by simp [hu])) (shape_merge ha (h t (by simp)))

theorem shape_analyze {ts : List Trace} (h : ∀ t ∈ ts, Shape t) : Shape (analyze ts) :=
  shape_analyze_from h shape_empty

theorem valid_analyze_from {r : Registry} {ts : List Trace} (h : ∀ t ∈ ts, Shape t)
    (hv : ∀ t ∈ ts, Valid r t) {acc : Trace} (ha : Valid r acc) : Valid r (ts.foldl merge acc) := by
  induction ts generalizing acc with
  | nil => exact ha
  | cons t ts ih =>
    simp only [List.foldl_cons]
    exact ih (fun u hu => h u (by simp [hu])) (fun u hu => hv u (by simp [hu]))
      (valid_merge (h t (by simp)) ha (hv t (by simp)))

theorem valid_analyze {r : Registry} {ts : List Trace} (h : ∀ t ∈ ts, Shape t)
    (hv : ∀ t ∈ ts, Valid r t) : Valid r (analyze ts) :=
  valid_analyze_from h hv (valid_empty r)

/-! ### Observational equivalence of traces -/

/-- Same sets (as sets) and same dicts (as finite maps): the coverage-relevant projection. -/
structure Equiv (t u : Trace) : Prop where
  code : ∀ x, x ∈ t.code ↔ x ∈ u.code
  cnt : ∀ k, dget t.cnt k = dget u.cnt k
  dT : ∀ k, dget t.dT k = dget u.dT k
  dF : ∀ k, dget t.dF k = dget u.dF k
  lines : ∀ x, x ∈ t.lines ↔ x ∈ u.lines
  checked : ∀ x, x ∈ t.checked ↔ x ∈ u.checked

theorem Equiv.refl (t : Trace) : Equiv t t :=
  ⟨fun _ => Iff.rfl, fun _ => rfl, fun _ => rfl, fun _ => rfl, fun _ => Iff.rfl, fun _ => Iff.rfl⟩

theorem Equiv.symm {t u : Trace} (h : Equiv t u) : Equiv u t :=
  ⟨fun x => (h.code x).symm, fun k => (h.cnt k).symm, fun k => (h.dT k).symm, fun k => (h.dF k).symm,
    fun x => (h.lines x).symm, fun x => (h.checked x).symm⟩

theorem Equiv.trans {t u w : Trace} (h : Equiv t u) (h' : Equiv u w) : Equiv t w :=
  ⟨fun x => (h.code x).trans (h'.code x), fun k => (h.cnt k).trans (h'.cnt k),
    fun k => (h.dT k).trans (h'.dT k), fun k => (h.dF k).trans (h'.dF k),
    fun x => (h.lines x).trans (h'.lines x), fun x => (h.checked x).trans (h'.checked x)⟩

/-- `merge` is a congruence for `Equiv`. -/
theorem merge_congr {t t' u u' : Trace} (hu : Shape u) (hu' : Shape u') (ht : Equiv t t')
    (hq : Equiv u u') : Equiv (merge t u) (merge t' u') := by
  unfold merge mergeMin
  refine ⟨?_, ?_, ?_, ?_, ?_, ?_⟩
  · intro x; simp only [mem_osUpdate, ht.code, hq.code]
  · intro k; simp only [dget_mergeWith' _ _ _ hu.cnt_nodup, dget_mergeWith' _ _ _ hu'.cnt_nodup, ht.cnt, hq.cnt]
  · intro k; simp only [dget_mergeWith' _ _ _ hu.dT_nodup, dget_mergeWith' _ _ _ hu'.dT_nodup, ht.dT, hq.dT]
  · intro k; simp only [dget_mergeWith' _ _ _ hu.dF_nodup, dget_mergeWith' _ _ _ hu'.dF_nodup, ht.dF, hq.dF]
  · intro x; simp only [mem_osUpdate, ht.lines, hq.lines]
  · intro x; simp only [mem_osUpdate, ht.checked, hq.checked]

theorem merge_empty_left {t : Trace} (ht : Shape t) : Equiv (merge Trace.empty t) t := by
  unfold merge mergeMin
  refine ⟨?_, ?_, ?_, ?_, ?_, ?_⟩
  · intro x; simp [mem_osUpdate, Trace.empty]
  · intro k; rw [dget_mergeWith' _ _ _ ht.cnt_nodup]
    cases h : dget t.cnt k <;> simp [mergeOpt, Trace.empty, dget, addCnt]
  · intro k; rw [dget_mergeWith' _ _ _ ht.dT_nodup]
    cases h : dget t.dT k <;> simp [mergeOpt, Trace.empty, dget, minDist, dmin_inf_left]
  · intro k; rw [dget_mergeWith' _ _ _ ht.dF_nodup]
    cases h : dget t.dF k <;> simp [mergeOpt, Trace.empty, dget, minDist, dmin_inf_left]
  · intro x; simp [mem_osUpdate, Trace.empty]
  · intro x; simp [mem_osUpdate, Trace.empty]

/-! ### Every modelled observable depends on the trace only through `Equiv` -/

theorem zeroAt_congr {d d' : Dict Dist} (h : ∀ k, dget d k = dget d' k) (p : Nat) :
    zeroAt d p = zeroAt d' p := by
  unfold zeroAt; rw [h]

theorem predicateFitness_congr {t u : Trace} {bd bd' : Dict Dist} (hc : ∀ k, dget t.cnt k = dget u.cnt k)
    (hb : ∀ k, dget bd k = dget bd' k) (p : Nat) :
    predicateFitness p bd t = predicateFitness p bd' u := by
  unfold predicateFitness; rw [zeroAt_congr hb, hc, hb]

theorem branchFitness_congr {t u : Trace} (h : Equiv t u) (r : Registry) (exCode exT exF : List Nat) :
    branchFitness t r exCode exT exF = branchFitness u r exCode exT exF := by
  unfold branchFitness
  have h1 : predTerm t exT exF = predTerm u exT exF := by
    funext p; unfold predTerm
    rw [predicateFitness_congr h.cnt h.dT, predicateFitness_congr h.cnt h.dF]
  have h2 : codeObjectsMissing t r exCode = codeObjectsMissing u r exCode := by
    unfold codeObjectsMissing; congr 1; funext c; simp only [h.code]
  rw [h1, h2]

theorem branchIsCovered_congr {t u : Trace} (h : Equiv t u) (r : Registry) (exCode exT exF : List Nat) :
    branchIsCovered t r exCode exT exF = branchIsCovered u r exCode exT exF := by
  unfold branchIsCovered
  have h1 : (fun p => (decide (p ∈ exT) || zeroAt t.dT p) && (decide (p ∈ exF) || zeroAt t.dF p))
      = (fun p => (decide (p ∈ exT) || zeroAt u.dT p) && (decide (p ∈ exF) || zeroAt u.dF p)) := by
    funext p; rw [zeroAt_congr h.dT, zeroAt_congr h.dF]
  have h2 : (fun c => decide (c ∉ t.code ∧ c ∉ exCode)) = (fun c => decide (c ∉ u.code ∧ c ∉ exCode)) := by
    funext c; simp only [h.code]
  rw [h1, h2]

theorem zeroCount_congr {d d' : Dict Dist} (hd : (keys d).Nodup) (hd' : (keys d').Nodup)
    (h : ∀ k, dget d k = dget d' k) : zeroCount d = zeroCount d' := by
  rw [zeroCount_eq, zeroCount_eq]
  apply length_eq_of_nodup_ext (zeroKeys_nodup hd) (zeroKeys_nodup hd')
  intro k; rw [mem_zeroKeys hd, mem_zeroKeys hd', zeroAt_congr h]

theorem branchCovered_congr {t u : Trace} (ht : Shape t) (hu : Shape u) (h : Equiv t u) (r : Registry) :
    branchCovered t r = branchCovered u r := by
  unfold branchCovered
  rw [zeroCount_congr ht.dT_nodup hu.dT_nodup h.dT, zeroCount_congr ht.dF_nodup hu.dF_nodup h.dF]
  congr 2
  apply length_eq_of_nodup_ext (List.Pairwise.filter _ ht.code_nodup) (List.Pairwise.filter _ hu.code_nodup)
  intro a; simp only [List.mem_filter, h.code]

theorem lines_length_congr {t u : Trace} (ht : Shape t) (hu : Shape u) (h : Equiv t u) :
    t.lines.length = u.lines.length ∧ t.checked.length = u.checked.length :=
  ⟨length_eq_of_nodup_ext ht.lines_nodup hu.lines_nodup h.lines,
   length_eq_of_nodup_ext ht.checked_nodup hu.checked_nodup h.checked⟩

/-! ### "Covers at least as much": the preorder along which tests are added -/

/-- `t'` records everything `t` records: more elements, higher counts, smaller distances. -/
structure Below (t' t : Trace) : Prop where
  code : ∀ x ∈ t.code, x ∈ t'.code
  cnt : ∀ k c, dget t.cnt k = some c → ∃ c', dget t'.cnt k = some c' ∧ c ≤ c'
  dT : ∀ k v, dget t.dT k = some v → ∃ v', dget t'.dT k = some v' ∧ Dist.le v' v
  dF : ∀ k v, dget t.dF k = some v → ∃ v', dget t'.dF k = some v' ∧ Dist.le v' v
  lines : ∀ x ∈ t.lines, x ∈ t'.lines
  checked : ∀ x ∈ t.checked, x ∈ t'.checked

theorem dle_refl (a : Dist) : Dist.le a a := by
  unfold Dist.le; cases a <;> simp [Dist.lt, Rat.lt_irrefl]

theorem below_merge_left {t u : Trace} (hu : Shape u) : Below (merge t u) t := by
  unfold merge mergeMin
  refine ⟨?_, ?_, ?_, ?_, ?_, ?_⟩
  · intro x hx; exact (mem_osUpdate _ _ _).2 (Or.inl hx)
  · intro k c hc
    rw [dget_mergeWith' _ _ _ hu.cnt_nodup, hc]
    cases dget u.cnt k with
    | none => exact ⟨c, rfl, Nat.le_refl _⟩
    | some d => exact ⟨c + d, by simp [mergeOpt, addCnt], Nat.le_add_right _ _⟩
  · intro k v hv
    rw [dget_mergeWith' _ _ _ hu.dT_nodup, hv]
    cases dget u.dT k with
    | none => exact ⟨v, rfl, dle_refl v⟩
    | some w => exact ⟨dmin v w, by simp [mergeOpt, minDist], dmin_le_left v w⟩
  · intro k v hv
    rw [dget_mergeWith' _ _ _ hu.dF_nodup, hv]
    cases dget u.dF k with
    | none => exact ⟨v, rfl, dle_refl v⟩
    | some w => exact ⟨dmin v w, by simp [mergeOpt, minDist], dmin_le_left v w⟩
  · intro x hx; exact (mem_osUpdate _ _ _).2 (Or.inl hx)
  · intro x hx; exact (mem_osUpdate _ _ _).2 (Or.inl hx)

theorem below_merge_right {t u : Trace} (hu : Shape u) : Below (merge t u) u := by
  unfold merge mergeMin
  refine ⟨?_, ?_, ?_, ?_, ?_, ?_⟩
  · intro x hx; exact (mem_osUpdate _ _ _).2 (Or.inr hx)
  · intro k c hc
    rw [dget_mergeWith' _ _ _ hu.cnt_nodup, hc]
    exact ⟨_, rfl, by simp [addCnt]⟩
  · intro k v hv
    rw [dget_mergeWith' _ _ _ hu.dT_nodup, hv]
    exact ⟨_, rfl, dmin_le_right _ v⟩
  · intro k v hv
    rw [dget_mergeWith' _ _ _ hu.dF_nodup, hv]
    exact ⟨_, rfl, dmin_le_right _ v⟩
  · intro x hx; exact (mem_osUpdate _ _ _).2 (Or.inr hx)
  · intro x hx; exact (mem_osUpdate _ _ _).2 (Or.inr hx)

theorem isZero_of_le {a b : Dist} (ha : a.nonneg = true) (hab : Dist.le a b) (hb : b.isZero = true) :
    a.isZero = true := by
  cases a <;> cases b <;> simp [Dist.le, Dist.lt, Dist.isZero, Dist.nonneg] at * <;> grind

theorem zeroAt_of_below {d d' : Dict Dist} (hn' : ∀ k v, dget d' k = some v → v.nonneg = true)
    (h : ∀ k v, dget d k = some v → ∃ v', dget d' k = some v' ∧ Dist.le v' v) {p : Nat}
    (hz : zeroAt d p = true) : zeroAt d' p = true := by
  unfold zeroAt at hz ⊢
  cases hd : dget d p with
  | none => simp [hd] at hz
  | some v =>
    obtain ⟨v', hv', hle⟩ := h p v hd
    simp only [hd] at hz
    simp only [hv']
    exact isZero_of_le (hn' p v' hv') hle hz

/-- One `_predicate_fitness` summand does not grow when more is recorded. -/
theorem pfPure_antitone {bd bd' : Dict Dist} {t t' : Trace}
    (hk : ∀ k, (dget bd k).isSome = (dget t.cnt k).isSome)
    (hn : ∀ k v, dget bd k = some v → v.nonneg = true)
    (hk' : ∀ k, (dget bd' k).isSome = (dget t'.cnt k).isSome)
    (hn' : ∀ k v, dget bd' k = some v → v.nonneg = true)
    (hc : ∀ k c, dget t.cnt k = some c → ∃ c', dget t'.cnt k = some c' ∧ c ≤ c')
    (hd : ∀ k v, dget bd k = some v → ∃ v', dget bd' k = some v' ∧ Dist.le v' v) (p : Nat) :
    pfPure p bd' t' ≤ pfPure p bd t := by
  by_cases hz : zeroAt bd p = true
  · have hz' := zeroAt_of_below hn' hd hz
    simp [pfPure, hz, hz']
  · by_cases hz' : zeroAt bd' p = true
    · have := pfPure_nonneg hk hn p
      simpa [pfPure, hz'] using this
    · have hle1 := pfPure_le_one hk' hn' p
      unfold pfPure at hle1 ⊢
      simp only [hz, hz', Bool.false_eq_true, if_false] at hle1 ⊢
      cases hcp : dget t.cnt p with
      | none => simpa using hle1
      | some c =>
        simp only
        by_cases h2 : 2 ≤ c
        · obtain ⟨c', hc', hcc⟩ := hc p c hcp
          have h2' : 2 ≤ c' := Nat.le_trans h2 hcc
          simp only [hc', h2, h2', if_true]
          cases hb : dget bd p with
          | none => have := hk p; simp [hb, hcp] at this
          | some v =>
            obtain ⟨v', hv', hle⟩ := hd p v hb
            simp only [getInf, hb, hv', Option.getD_some]
            exact norm_mono (hn' p v' hv') hle
        · simpa [h2] using hle1

theorem predTermPure_antitone {t t' : Trace} (ht : Shape t) (ht' : Shape t') (hb : Below t' t)
    (exT exF : List Nat) (p : Nat) : predTermPure t' exT exF p ≤ predTermPure t exT exF p := by
  unfold predTermPure
  have a : (if p ∈ exT then 0 else pfPure p t'.dT t') ≤ (if p ∈ exT then 0 else pfPure p t.dT t) := by
    split
    · exact Rat.le_refl
    · exact pfPure_antitone ht.keysT ht.nonnegT ht'.keysT ht'.nonnegT hb.cnt hb.dT p
  have b : (if p ∈ exF then 0 else pfPure p t'.dF t') ≤ (if p ∈ exF then 0 else pfPure p t.dF t) := by
    split
    · exact Rat.le_refl
    · exact pfPure_antitone ht.keysF ht.nonnegF ht'.keysF ht'.nonnegF hb.cnt hb.dF p
  grind

theorem branchFitnessPure_antitone {t t' : Trace} (ht : Shape t) (ht' : Shape t') (hb : Below t' t)
    (r : Registry) (exCode exT exF : List Nat) :
    branchFitnessPure t' r exCode exT exF ≤ branchFitnessPure t r exCode exT exF := by
  unfold branchFitnessPure codeObjectsMissing
  have h1 : ((List.countP (fun c => decide (c ∉ t'.code ∧ c ∉ exCode)) r.branchless : Nat) : Rat) ≤
      ((List.countP (fun c => decide (c ∉ t.code ∧ c ∉ exCode)) r.branchless : Nat) : Rat) := by
    apply Rat.natCast_le_natCast.2
    apply List.countP_mono_left
    intro c _; simp only [decide_eq_true_eq]
    rintro ⟨h1, h2⟩; exact ⟨fun hx => h1 (hb.code c hx), h2⟩
  have h2 := sum_map_le_sum_map (l := r.predIds) (g := predTermPure t' exT exF) (g' := predTermPure t exT exF)
    (fun p _ => predTermPure_antitone ht ht' hb exT exF p)
  grind

theorem branchCovered_monotone {r : Registry} {t t' : Trace} (hr : RWF r) (ht : Shape t) (ht' : Shape t')
    (hv : Valid r t) (hv' : Valid r t') (hb : Below t' t) : branchCovered t r ≤ branchCovered t' r := by
  rw [branchCovered_eq hr ht hv, branchCovered_eq hr ht' hv']
  have a : r.branchless.countP (fun c => decide (c ∈ t.code)) ≤ r.branchless.countP (fun c => decide (c ∈ t'.code)) := by
    apply List.countP_mono_left; intro c _; simp only [decide_eq_true_eq]; exact hb.code c
  have b : r.predIds.countP (zeroAt t.dT) ≤ r.predIds.countP (zeroAt t'.dT) := by
    apply List.countP_mono_left; intro p _; exact zeroAt_of_below ht'.nonnegT hb.dT
  have c : r.predIds.countP (zeroAt t.dF) ≤ r.predIds.countP (zeroAt t'.dF) := by
    apply List.countP_mono_left; intro p _; exact zeroAt_of_below ht'.nonnegF hb.dF
  omega

theorem lines_length_monotone {t t' : Trace} (ht : Shape t) (ht' : Shape t') (hb : Below t' t) :
    t.lines.length ≤ t'.lines.length ∧ t.checked.length ≤ t'.checked.length :=
  ⟨length_le_of_nodup_subset ht.lines_nodup ht'.lines_nodup hb.lines,
   length_le_of_nodup_subset ht.checked_nodup ht'.checked_nodup hb.checked⟩

end PynguinModel.Fitness
