import PynguinModel.Model.MasterWorker
/-!
Helper lemmas for C33: arithmetic of `remainingTime`, the case analysis of one `get_result` pass
(`step`), and a generic invariant principle for the recursion of `getResult`.
-/
namespace PynguinModel.MasterWorker

/-! ### `int(max(cur - elapsed, 0.0))` -/

theorem remainingTime_nonneg (cur : Int) (e : Elapsed) : 0 ≤ remainingTime cur e := by
  unfold remainingTime
  have hd : (0 : Int) < (e.den : Int) := by exact_mod_cast e.den_pos
  simp only
  split
  · exact Int.le_refl 0
  · next h => exact Int.ediv_nonneg (by omega) (by omega)

/-- A positive elapsed time strictly reduces a positive remaining search time (by at least 1,
because the result is truncated to an `int`). -/
theorem remainingTime_lt {cur : Int} {e : Elapsed} (hpos : 0 < e.num) (hcur : 0 < cur) :
    remainingTime cur e < cur := by
  unfold remainingTime
  have hd : (0 : Int) < (e.den : Int) := by exact_mod_cast e.den_pos
  simp only
  split
  · exact hcur
  · exact Int.ediv_lt_of_lt_mul hd (by omega)

theorem remainingTime_le {cur : Int} {e : Elapsed} (hpos : 0 ≤ e.num) (hcur : 0 ≤ cur) :
    remainingTime cur e ≤ cur := by
  unfold remainingTime
  have hd : (0 : Int) < (e.den : Int) := by exact_mod_cast e.den_pos
  simp only
  split
  · exact hcur
  · have : (cur * (e.den : Int) - e.num) / (e.den : Int) ≤ (cur * (e.den : Int)) / (e.den : Int) :=
      Int.ediv_le_ediv hd (by omega)
    rwa [Int.mul_ediv_cancel _ (by omega)] at this

/-- Without clock progress nothing is subtracted. -/
theorem remainingTime_zero {cur : Int} {e : Elapsed} (h0 : e.num = 0) (hcur : 0 < cur) :
    remainingTime cur e = cur := by
  unfold remainingTime
  have hd : (0 : Int) < (e.den : Int) := by exact_mod_cast e.den_pos
  have hm : 0 < cur * (e.den : Int) := Int.mul_pos hcur hd
  simp only [h0, Int.sub_zero]
  rw [if_neg (by omega)]
  exact Int.mul_ediv_cancel _ (by omega)

/-! ### `_restart` -/

theorem adjust_of_nonpos {t : Task} (h : t.maxSearchTime ≤ 0) (e : Elapsed) :
    adjustSearchTimeAfterCrash t e = t := by
  unfold adjustSearchTimeAfterCrash
  rw [if_neg (by omega)]

theorem adjust_of_pos {t : Task} (h : 0 < t.maxSearchTime) (e : Elapsed) :
    (adjustSearchTimeAfterCrash t e).maxSearchTime = remainingTime t.maxSearchTime e := by
  unfold adjustSearchTimeAfterCrash
  rw [if_pos h]

/-- Facts about an aborted restart (`return False`). -/
theorem restartPrefix_false {cfg : Cfg} {s : State} {e : Elapsed}
    (h : (restartPrefix cfg s e).2 = false) :
    (restartPrefix cfg s e).1 = { s with task := adjustSearchTimeAfterCrash s.task e } ∧
    (adjustSearchTimeAfterCrash s.task e).maxSearchTime ≤ 0 := by
  unfold restartPrefix at h ⊢
  simp only at h ⊢
  split
  · next hle => exact ⟨rfl, hle⟩
  · next hgt =>
    rw [if_neg hgt] at h
    split at h <;> simp at h

/-- Facts about a restart that goes ahead. -/
theorem restartPrefix_true {cfg : Cfg} {s : State} {e : Elapsed}
    (h : (restartPrefix cfg s e).2 = true) :
    0 < (adjustSearchTimeAfterCrash s.task e).maxSearchTime ∧
    (restartPrefix cfg s e).1.task.maxSearchTime = (adjustSearchTimeAfterCrash s.task e).maxSearchTime ∧
    (restartPrefix cfg s e).1.restartCount = s.restartCount + 1 ∧
    (restartPrefix cfg s e).1.started = s.started ∧
    (restartPrefix cfg s e).1.timeline = s.timeline ∧
    (restartPrefix cfg s e).1.writeEndClosed = s.writeEndClosed := by
  unfold restartPrefix at h ⊢
  simp only at h ⊢
  split
  · next hle => rw [if_pos hle] at h; simp at h
  · next hgt =>
    refine ⟨by omega, ?_⟩
    split <;> simp

/-- A restart only goes ahead when search time was left before the crash, too. -/
theorem restartPrefix_true_pos {cfg : Cfg} {s : State} {e : Elapsed}
    (h : (restartPrefix cfg s e).2 = true) : 0 < s.task.maxSearchTime := by
  have h1 := (restartPrefix_true h).1
  by_cases hp : 0 < s.task.maxSearchTime
  · exact hp
  · rw [adjust_of_nonpos (by omega)] at h1
    exact h1

/-- After the first crash in master-worker mode the task runs in subprocess mode. -/
theorem restartPrefix_forces_subprocess {cfg : Cfg} {s : State} {e : Elapsed}
    (h : (restartPrefix cfg s e).2 = true) (hmw : cfg.useMasterWorker = true) :
    (restartPrefix cfg s e).1.forceSubprocess = true := by
  unfold restartPrefix at h ⊢
  simp only at h ⊢
  split
  · next hle => rw [if_pos hle] at h; simp at h
  · split
    · rfl
    · next hc => simp [hmw] at hc; simpa using hc

/-! ### One pass through `get_result` -/

theorem step_msg {cfg : Cfg} {s : State} {b : Behaviour} {r : WorkerResult}
    (h : receive cfg.liveness s (workerMain b) = .msg r) :
    step cfg s b = .done (.returned { r with restartCount := s.restartCount } s) := by
  unfold step; rw [h]

theorem step_hang {cfg : Cfg} {s : State} {b : Behaviour}
    (h : receive cfg.liveness s (workerMain b) = .hang) :
    step cfg s b = .done (.hang s) := by
  unfold step; rw [h]

theorem step_abort {cfg : Cfg} {s : State} {b : Behaviour} {e : Elapsed}
    (h : receive cfg.liveness s (workerMain b) = .exc e) (h2 : (restartPrefix cfg s e).2 = false) :
    step cfg s b = .done (.returned (errorResult (restartPrefix cfg s e).1.restartCount)
      (restartPrefix cfg s e).1) := by
  unfold step; rw [h]
  simp only
  generalize restartPrefix cfg s e = rp at h2 ⊢
  obtain ⟨s', ok⟩ := rp
  simp only at h2
  subst h2
  rfl

theorem step_restart {cfg : Cfg} {s : State} {b : Behaviour} {e : Elapsed}
    (h : receive cfg.liveness s (workerMain b) = .exc e) (h2 : (restartPrefix cfg s e).2 = true) :
    step cfg s b = .restart (restartPrefix cfg s e).1 := by
  unfold step; rw [h]
  simp only
  generalize restartPrefix cfg s e = rp at h2 ⊢
  obtain ⟨s', ok⟩ := rp
  simp only at h2
  subst h2
  rfl

/-- The master only takes the `except` branch for a worker that did not deliver, and the elapsed
time it then measures is the one of that worker. -/
theorem receive_exc {l : Bool} {s : State} {b : Behaviour} {e : Elapsed}
    (h : receive l s (workerMain b) = .exc e) : b.elapsed? = some e := by
  cases b with
  | returns rc => simp [workerMain, receive] at h
  | raises => simp [workerMain, receive] at h
  | raisesSendFails e' =>
    simp only [workerMain, receive] at h
    split at h <;> simp_all [Behaviour.elapsed?]
  | interrupted e' =>
    simp only [workerMain, receive] at h
    split at h <;> simp_all [Behaviour.elapsed?]
  | killed e' o =>
    cases o <;> simp only [workerMain, receive] at h <;> split at h <;> simp_all [Behaviour.elapsed?]

/-- A message is only received when the worker sent one: it returned or raised. -/
theorem receive_msg {l : Bool} {s : State} {b : Behaviour} {r : WorkerResult}
    (h : receive l s (workerMain b) = .msg r) :
    (∃ rc, b = .returns rc ∧ r = ⟨.ok, some rc, false, 0⟩) ∨ (b = .raises ∧ r = ⟨.ok, none, true, 0⟩) := by
  cases b with
  | returns rc => simp only [workerMain, receive, Recv.msg.injEq] at h; exact Or.inl ⟨rc, rfl, h.symm⟩
  | raises => simp only [workerMain, receive, Recv.msg.injEq] at h; exact Or.inr ⟨rfl, h.symm⟩
  | raisesSendFails e' => simp only [workerMain, receive] at h; split at h <;> simp at h
  | interrupted e' => simp only [workerMain, receive] at h; split at h <;> simp at h
  | killed e' o => cases o <;> simp only [workerMain, receive] at h <;> split at h <;> simp at h

/-- The only ways to wait forever: no liveness check, and either the master kept its own copy of
the sending end or an orphan of the worker holds it. -/
theorem receive_hang {l : Bool} {s : State} {b : Behaviour}
    (h : receive l s (workerMain b) = .hang) :
    l = false ∧ (s.writeEndClosed = false ∨ ∃ e, b = .killed e true) := by
  cases b with
  | returns rc => simp [workerMain, receive] at h
  | raises => simp [workerMain, receive] at h
  | raisesSendFails e' =>
    simp only [workerMain, receive] at h
    split at h
    · simp at h
    · next hc => simp at hc; exact ⟨hc.2, Or.inl hc.1⟩
  | interrupted e' =>
    simp only [workerMain, receive] at h
    split at h
    · simp at h
    · next hc => simp at hc; exact ⟨hc.2, Or.inl hc.1⟩
  | killed e' o =>
    cases o
    · simp only [workerMain, receive] at h
      split at h
      · simp at h
      · next hc => simp at hc; exact ⟨hc.2, Or.inl hc.1⟩
    · simp only [workerMain, receive] at h
      split at h
      · simp at h
      · next hc => simp at hc; exact ⟨hc, Or.inr ⟨e', rfl⟩⟩

/-! ### Generic invariant principle for `getResult`

`R` holds whenever a worker is running, `A` is what is to be shown about the outcome, `GB` is the
assumption on the behaviours in the script. -/

def Fate.Good (GB : Behaviour → Prop) : Fate → Prop
  | .spawnFails => True
  | .runs b => GB b

theorem getResult_invariant (cfg : Cfg) (GB : Behaviour → Prop) (R : State → Prop) (A : Outcome → Prop)
    (hmsg : ∀ s b r, R s → GB b → receive cfg.liveness s (workerMain b) = .msg r →
      A (.returned { r with restartCount := s.restartCount } s))
    (hhang : ∀ s b, R s → GB b → receive cfg.liveness s (workerMain b) = .hang → A (.hang s))
    (habort : ∀ s b e, R s → GB b → b.elapsed? = some e → (restartPrefix cfg s e).2 = false →
      A (.returned (errorResult (restartPrefix cfg s e).1.restartCount) (restartPrefix cfg s e).1))
    (hblocked : ∀ s b e, R s → GB b → b.elapsed? = some e → (restartPrefix cfg s e).2 = true →
      A (.blocked (restartPrefix cfg s e).1))
    (hraised : ∀ s b e, R s → GB b → b.elapsed? = some e → (restartPrefix cfg s e).2 = true →
      A (.raised (restartPrefix cfg s e).1))
    (hrestart : ∀ s b e, R s → GB b → b.elapsed? = some e → (restartPrefix cfg s e).2 = true →
      R (startWorker (restartPrefix cfg s e).1)) :
    ∀ (rest : List Fate) (s : State) (b : Behaviour), R s → GB b →
      (∀ f ∈ rest, f.Good GB) → A (getResult cfg s b rest) := by
  intro rest
  induction rest with
  | nil =>
    intro s b hR hb _
    cases hrecv : receive cfg.liveness s (workerMain b) with
    | msg r => simp only [getResult, step_msg hrecv]; exact hmsg s b r hR hb hrecv
    | hang => simp only [getResult, step_hang hrecv]; exact hhang s b hR hb hrecv
    | exc e =>
      have he := receive_exc hrecv
      cases h2 : (restartPrefix cfg s e).2 with
      | false => simp only [getResult, step_abort hrecv h2]; exact habort s b e hR hb he h2
      | true => simp only [getResult, step_restart hrecv h2]; exact hblocked s b e hR hb he h2
  | cons f rest ih =>
    intro s b hR hb hrest
    cases hrecv : receive cfg.liveness s (workerMain b) with
    | msg r => simp only [getResult, step_msg hrecv]; exact hmsg s b r hR hb hrecv
    | hang => simp only [getResult, step_hang hrecv]; exact hhang s b hR hb hrecv
    | exc e =>
      have he := receive_exc hrecv
      cases h2 : (restartPrefix cfg s e).2 with
      | false => simp only [getResult, step_abort hrecv h2]; exact habort s b e hR hb he h2
      | true =>
        simp only [getResult, step_restart hrecv h2]
        cases f with
        | spawnFails => exact hraised s b e hR hb he h2
        | runs b' =>
          exact ih _ b' (hrestart s b e hR hb he h2)
            (hrest (.runs b') (List.mem_cons_self ..))
            (fun f hf => hrest f (List.mem_cons_of_mem _ hf))

/-- The positivity assumption of the model file, as an instance of `Fate.Good`. -/
def PosB (b : Behaviour) : Prop := ∀ e, b.elapsed? = some e → 0 < e.num

theorem posElapsed_iff_good (f : Fate) : f.PosElapsed ↔ f.Good PosB := by
  cases f <;> exact Iff.rfl

/-- Whether the restart goes ahead only depends on the adjusted search time. -/
theorem restartPrefix_snd (cfg : Cfg) (s : State) (e : Elapsed) :
    (restartPrefix cfg s e).2 = decide (0 < (adjustSearchTimeAfterCrash s.task e).maxSearchTime) := by
  unfold restartPrefix
  simp only
  split
  · next hle => simp only [decide_eq_false_iff_not, Bool.false_eq]; omega
  · next hgt =>
    have : decide (0 < (adjustSearchTimeAfterCrash s.task e).maxSearchTime) = true := by
      simp only [decide_eq_true_eq]; omega
    rw [this]
    split <;> rfl

def Outcome.state : Outcome → State
  | .returned _ s => s
  | .raised s => s
  | .blocked s => s
  | .hang s => s

def ClientOutcome.state : ClientOutcome → State
  | .code _ _ s => s
  | .blocked s => s
  | .hang s => s

theorem masterGetResult_state (cfg : Cfg) (s : State) (b : Behaviour) (rest : List Fate) :
    (masterGetResult cfg s b rest).state = (getResult cfg s b rest).state := by
  unfold masterGetResult
  cases getResult cfg s b rest <;> rfl

/-- The state `runPynguin` ends in is the state `getResult` ends in. -/
theorem runPynguin_state_runs (cfg : Cfg) (t : Task) (b : Behaviour) (rest : List Fate) :
    (runPynguin cfg t (.runs b :: rest)).state
      = (getResult cfg (startWorker (initState t)) b rest).state := by
  simp only [runPynguin]
  rw [← masterGetResult_state]
  cases masterGetResult cfg (startWorker (initState t)) b rest <;> rfl

end PynguinModel.MasterWorker
