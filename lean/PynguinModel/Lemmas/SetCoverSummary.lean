import PynguinModel.Lemmas.SetCover
/-!
Helper lemmas for C21, second part: mutation metrics/score, the summary loop
(`__compute_mutation_summary`), verification traces, the kill map and the assertion-removal passes.
-/
namespace PynguinModel.SetCover

/-! ### counting -/

theorem filter_length_add_not {α} (p : α → Bool) (l : List α) :
    (l.filter p).length + (l.filter (fun x => !p x)).length = l.length := by
  induction l with
  | nil => simp
  | cons a l ih =>
    by_cases h : p a = true
    · simp [h]; omega
    · simp [h]; omega

theorem filter_length_mono {α} (p q : α → Bool) (l : List α) (h : ∀ x, p x = true → q x = true) :
    (l.filter p).length ≤ (l.filter q).length := by
  induction l with
  | nil => simp
  | cons a l ih =>
    by_cases hp : p a = true
    · simp [hp, h a hp]; exact ih
    · by_cases hq : q a = true
      · simp [hp, hq]; omega
      · simp [hp, hq]; exact ih

/-- Two lists that agree pointwise on `p`/`q` have equally many hits. -/
theorem filter_length_congr {α β} (p : α → Bool) (q : β → Bool) :
    ∀ (l₁ : List α) (l₂ : List β), l₁.length = l₂.length →
      (∀ (j : Nat) a b, l₁[j]? = some a → l₂[j]? = some b → p a = q b) →
      (l₁.filter p).length = (l₂.filter q).length := by
  intro l₁
  induction l₁ with
  | nil => intro l₂ hl _; cases l₂ with
    | nil => rfl
    | cons _ _ => simp at hl
  | cons a l₁ ih =>
    intro l₂ hl h
    cases l₂ with
    | nil => simp at hl
    | cons b l₂ =>
      have hab : p a = q b := h 0 a b (by simp) (by simp)
      have hrest := ih l₂ (by simpa using hl) (fun j a' b' ha hb => h (j + 1) a' b' (by simpa using ha) (by simpa using hb))
      by_cases hp : p a = true
      · have hq : q b = true := hab ▸ hp
        simp [hp, hq, hrest]
      · have hq : ¬ q b = true := hab ▸ hp
        simp [hp, hq, hrest]

/-! ### metrics and score -/

/-- the mutants that did not time out -/
def live (infos : List MutantInfo) : List MutantInfo := infos.filter (fun i => !isTimedOut i)

theorem isKilled_live {i : MutantInfo} (h : isKilled i = true) : (!isTimedOut i) = true := by
  unfold isKilled at h
  unfold isTimedOut
  simp only [Bool.and_eq_true] at h
  simp [h.2]

theorem killed_le_live (infos : List MutantInfo) : (infos.filter isKilled).length ≤ (live infos).length :=
  filter_length_mono _ _ _ (fun _ h => isKilled_live h)

/-- `get_score` of `get_metrics`: never the `AssertionError`, the divisor is the number of mutants
that did not time out, `1.0` when there is none. -/
theorem getScore_getMetrics (infos : List MutantInfo) :
    getScore (getMetrics infos) =
      some (if (live infos).length = 0 then (1, 1)
            else (((infos.filter isKilled).length : Int), ((live infos).length : Int))) := by
  have hsum := filter_length_add_not isTimedOut infos
  unfold getScore getMetrics live
  simp only
  have hdiv : ((infos.length : Int) - ((infos.filter isTimedOut).length : Int))
      = (((infos.filter (fun i => !isTimedOut i)).length : Nat) : Int) := by omega
  rw [hdiv]
  by_cases h0 : (infos.filter (fun i => !isTimedOut i)).length = 0
  · simp [h0]
  · have h1 : ¬ (((infos.filter (fun i => !isTimedOut i)).length : Int) < 0) := by omega
    simp [h0, h1]

theorem filter_isKilled_live (infos : List MutantInfo) :
    (live infos).filter isKilled = infos.filter isKilled := by
  unfold live
  rw [List.filter_filter]
  congr 1
  funext i
  by_cases h : isKilled i = true
  · simp [h, isKilled_live h]
  · simp [h]

theorem live_live (infos : List MutantInfo) : live (live infos) = live infos := by
  unfold live
  rw [List.filter_filter]
  congr 1
  funext i
  simp

/-! ### the summary loop -/

theorem isTimedOut_upd (t : Nat) (i : MutantInfo) (r : Option Obs) :
    isTimedOut (upd t i r) = true ↔ isTimedOut i = true ∨ ∃ o, r = some o ∧ o.timeout = true := by
  unfold upd isTimedOut
  cases r with
  | none => simp
  | some o =>
    by_cases h1 : i.timedOutBy.isEmpty = true
    · by_cases h2 : o.timeout = true
      · simp [h1, h2]
      · by_cases h3 : o.violated = true <;> simp [h1, h2, h3]
    · simp [h1]

theorem killedBy_upd (t : Nat) (i : MutantInfo) (r : Option Obs) (hn : isTimedOut (upd t i r) = false) :
    (upd t i r).killedBy ≠ [] ↔ i.killedBy ≠ [] ∨ ∃ o, r = some o ∧ o.violated = true := by
  have hn' : ¬ (isTimedOut i = true ∨ ∃ o, r = some o ∧ o.timeout = true) := by
    rw [← isTimedOut_upd t i r]; simp [hn]
  have h1 : i.timedOutBy.isEmpty = true := by
    have : ¬ isTimedOut i = true := fun h => hn' (Or.inl h)
    unfold isTimedOut at this
    simpa using this
  unfold upd
  cases r with
  | none => simp
  | some o =>
    have h2 : ¬ o.timeout = true := fun h => hn' (Or.inr ⟨o, rfl, h⟩)
    by_cases h3 : o.violated = true
    · simp [h1, h2, h3]
    · simp [h1, h2, h3]

theorem mutNum_upd (t : Nat) (i : MutantInfo) (r : Option Obs) : (upd t i r).mutNum = i.mutNum := by
  unfold upd
  cases r with
  | none => rfl
  | some o =>
    by_cases h1 : i.timedOutBy.isEmpty = true
    · by_cases h2 : o.timeout = true
      · simp [h1, h2]
      · by_cases h3 : o.violated = true <;> simp [h1, h2, h3]
    · simp [h1]

/-- "some test's result for mutant column `j` is a timeout" -/
def ColTimedOut (rows : List (List (Option Obs))) (j : Nat) : Prop :=
  ∃ row ∈ rows, ∃ o, row[j]? = some (some o) ∧ o.timeout = true

/-- "some test's result for mutant column `j` has a violated assertion or a test exception" -/
def ColViolated (rows : List (List (Option Obs))) (j : Nat) : Prop :=
  ∃ row ∈ rows, ∃ o, row[j]? = some (some o) ∧ o.violated = true

theorem summaryLoop_spec :
    ∀ (rows : List (List (Option Obs))) (t : Nat) (infos0 infos : List MutantInfo),
      summaryLoop t infos0 rows = some infos →
      infos.length = infos0.length ∧
      ∀ j i0, infos0[j]? = some i0 → ∃ i, infos[j]? = some i ∧ i.mutNum = i0.mutNum ∧
        (isTimedOut i = true ↔ isTimedOut i0 = true ∨ ColTimedOut rows j) ∧
        (isTimedOut i = false → (i.killedBy ≠ [] ↔ i0.killedBy ≠ [] ∨ ColViolated rows j)) := by
  intro rows
  induction rows with
  | nil =>
    intro t infos0 infos h
    simp only [summaryLoop, Option.some.injEq] at h
    subst h
    refine ⟨rfl, ?_⟩
    intro j i0 hj
    refine ⟨i0, hj, rfl, ?_, ?_⟩
    · simp [ColTimedOut]
    · intro _; simp [ColViolated]
  | cons row rows ih =>
    intro t infos0 infos h
    unfold summaryLoop at h
    by_cases hl : row.length = infos0.length
    · simp only [hl, if_true] at h
      obtain ⟨hlen, hpt⟩ := ih _ _ _ h
      refine ⟨by rw [hlen]; simp [hl], ?_⟩
      intro j i0 hj
      have hjlt : j < infos0.length := (List.getElem?_eq_some_iff.1 hj).1
      have hjr : j < row.length := by omega
      obtain ⟨r, hr⟩ : ∃ r, row[j]? = some r := ⟨row[j], List.getElem?_eq_getElem hjr⟩
      have hz : (List.zipWith (upd t) infos0 row)[j]? = some (upd t i0 r) := by
        simp [List.getElem?_zipWith, hj, hr]
      obtain ⟨i, hi, hnum, hto, hk⟩ := hpt j _ hz
      have hcto : ColTimedOut (row :: rows) j ↔ (∃ o, r = some o ∧ o.timeout = true) ∨ ColTimedOut rows j := by
        unfold ColTimedOut
        simp only [List.mem_cons, exists_eq_or_imp, hr, Option.some.injEq]
      have hcv : ColViolated (row :: rows) j ↔ (∃ o, r = some o ∧ o.violated = true) ∨ ColViolated rows j := by
        unfold ColViolated
        simp only [List.mem_cons, exists_eq_or_imp, hr, Option.some.injEq]
      refine ⟨i, hi, by rw [hnum, mutNum_upd], ?_, ?_⟩
      · rw [hto, isTimedOut_upd, hcto]
        constructor
        · rintro ((h | h) | h)
          · exact Or.inl h
          · exact Or.inr (Or.inl h)
          · exact Or.inr (Or.inr h)
        · rintro (h | h | h)
          · exact Or.inl (Or.inl h)
          · exact Or.inl (Or.inr h)
          · exact Or.inr h
      · intro hnt
        have hnu : isTimedOut (upd t i0 r) = false := by
          cases hu : isTimedOut (upd t i0 r) with
          | false => rfl
          | true => have := hto.2 (Or.inl hu); rw [hnt] at this; cases this
        rw [hk hnt, killedBy_upd t i0 r hnu, hcv]
        constructor
        · rintro ((h | h) | h)
          · exact Or.inl h
          · exact Or.inr (Or.inl h)
          · exact Or.inr (Or.inr h)
        · rintro (h | h | h)
          · exact Or.inl (Or.inl h)
          · exact Or.inl (Or.inr h)
          · exact Or.inr h
    · simp [hl] at h

theorem getElem?_initInfos {n j : Nat} (h : j < n) : (initInfos n)[j]? = some ⟨j, [], []⟩ := by
  unfold initInfos
  simp [List.getElem?_map, List.getElem?_range h]

/-- **What `__compute_mutation_summary` computes**, mutant by mutant. -/
theorem computeSummary_spec {n : Nat} {rows : List (List (Option Obs))} {infos : List MutantInfo}
    (h : computeSummary n rows = some infos) :
    infos.length = n ∧ ∀ j, j < n → ∃ i, infos[j]? = some i ∧ i.mutNum = j ∧
      (isTimedOut i = true ↔ ColTimedOut rows j) ∧
      (isKilled i = true ↔ ¬ ColTimedOut rows j ∧ ColViolated rows j) ∧
      (isSurvived i = true ↔ ¬ ColTimedOut rows j ∧ ¬ ColViolated rows j) := by
  unfold computeSummary at h
  obtain ⟨hlen, hpt⟩ := summaryLoop_spec _ _ _ _ h
  refine ⟨by rw [hlen]; simp [initInfos], ?_⟩
  intro j hj
  obtain ⟨i, hi, hnum, hto, hk⟩ := hpt j _ (getElem?_initInfos hj)
  have hto' : isTimedOut i = true ↔ ColTimedOut rows j := by
    rw [hto]; simp [isTimedOut]
  refine ⟨i, hi, hnum, hto', ?_, ?_⟩
  · constructor
    · intro hkil
      have hnt : isTimedOut i = false := by simpa using isKilled_live hkil
      refine ⟨fun hc => (by rw [hto'.2 hc] at hnt; cases hnt), ?_⟩
      have := (hk hnt).1 (by
        unfold isKilled at hkil
        simp only [Bool.and_eq_true, Bool.not_eq_true', List.isEmpty_eq_false_iff] at hkil
        exact hkil.1)
      simpa using this
    · rintro ⟨hnc, hv⟩
      have hnt : isTimedOut i = false := by
        cases hu : isTimedOut i with
        | false => rfl
        | true => exact absurd (hto'.1 hu) hnc
      have hne := (hk hnt).2 (Or.inr hv)
      unfold isKilled
      unfold isTimedOut at hnt
      simp only [Bool.not_eq_false', ] at hnt
      simp [hne, hnt]
  · constructor
    · intro hs
      unfold isSurvived at hs
      simp only [Bool.and_eq_true, List.isEmpty_iff] at hs
      have hnt : isTimedOut i = false := by simp [isTimedOut, hs.2]
      refine ⟨fun hc => (by rw [hto'.2 hc] at hnt; cases hnt), ?_⟩
      intro hv
      exact (hk hnt).2 (Or.inr hv) hs.1
    · rintro ⟨hnc, hnv⟩
      have hnt : isTimedOut i = false := by
        cases hu : isTimedOut i with
        | false => rfl
        | true => exact absurd (hto'.1 hu) hnc
      have hke : i.killedBy = [] := by
        cases hkb : i.killedBy with
        | nil => rfl
        | cons a l =>
          have := (hk hnt).1 (by simp [hkb])
          simp at this
          exact absurd this hnv
      unfold isSurvived
      unfold isTimedOut at hnt
      simp only [Bool.not_eq_false'] at hnt
      simp [hke, hnt]

/-! ### verification traces -/

theorem dictHas_iff {d : List (Nat × List Nat)} {s a : Nat} :
    dictHas d s a = true ↔ ∃ e ∈ d, e.1 = s ∧ a ∈ e.2 := by
  simp [dictHas, List.any_eq_true]

theorem dictHas_dictUpdate {d : List (Nat × List Nat)} {pos : Nat} {xs : List Nat} {s a : Nat} :
    dictHas (dictUpdate d pos xs) s a = true ↔ dictHas d s a = true ∨ (pos = s ∧ a ∈ xs) := by
  unfold dictUpdate
  by_cases hany : d.any (fun e => e.1 == pos) = true
  · simp only [hany, if_true]
    obtain ⟨e0, he0, hk0⟩ := List.any_eq_true.1 hany
    have hk0' : e0.1 = pos := by simpa using hk0
    rw [dictHas_iff, dictHas_iff]
    constructor
    · rintro ⟨e', he', hs, ha⟩
      obtain ⟨e, he, rfl⟩ := List.mem_map.1 he'
      by_cases hp : (e.1 == pos) = true
      · simp only [hp, if_true] at hs ha
        rcases mem_setUnion.1 ha with h | h
        · exact Or.inl ⟨e, he, hs, h⟩
        · exact Or.inr ⟨by rw [← hs]; exact (by simpa using hp : e.1 = pos).symm, h⟩
      · simp only [hp, Bool.false_eq_true, if_false] at hs ha
        exact Or.inl ⟨e, he, hs, ha⟩
    · rintro (⟨e, he, hs, ha⟩ | ⟨hps, ha⟩)
      · refine ⟨_, List.mem_map.2 ⟨e, he, rfl⟩, ?_, ?_⟩
        · by_cases hp : (e.1 == pos) = true
          · simp only [hp, if_true]; exact hs
          · simp only [hp, Bool.false_eq_true, if_false]; exact hs
        · by_cases hp : (e.1 == pos) = true
          · simp only [hp, if_true]; exact mem_setUnion.2 (Or.inl ha)
          · simp only [hp, Bool.false_eq_true, if_false]; exact ha
      · refine ⟨_, List.mem_map.2 ⟨e0, he0, rfl⟩, ?_, ?_⟩
        · simp [hk0', hps]
        · simp only [hk0', beq_self_eq_true, if_true]; exact mem_setUnion.2 (Or.inr ha)
  · simp only [hany, Bool.false_eq_true, if_false]
    rw [dictHas_iff, dictHas_iff]
    constructor
    · rintro ⟨e, he, hs, ha⟩
      rcases List.mem_append.1 he with h | h
      · exact Or.inl ⟨e, h, hs, ha⟩
      · rw [List.mem_singleton] at h
        subst h
        rcases mem_setUnion.1 ha with h | h
        · cases h
        · exact Or.inr ⟨hs, h⟩
    · rintro (⟨e, he, hs, ha⟩ | ⟨hps, ha⟩)
      · exact ⟨e, List.mem_append_left _ he, hs, ha⟩
      · exact ⟨_, List.mem_append_right _ (List.mem_singleton.2 rfl), hps, mem_setUnion.2 (Or.inr ha)⟩

theorem dictHas_foldl_update (l : List (Nat × List Nat)) (d0 : List (Nat × List Nat)) (s a : Nat) :
    dictHas (l.foldl (fun d e => dictUpdate d e.1 e.2) d0) s a = true ↔
      dictHas d0 s a = true ∨ dictHas l s a = true := by
  induction l generalizing d0 with
  | nil => simp [dictHas]
  | cons e l ih =>
    simp only [List.foldl_cons]
    rw [ih, dictHas_dictUpdate, @dictHas_iff (e :: l)]
    simp only [List.mem_cons, exists_eq_or_imp]
    rw [← dictHas_iff]
    constructor
    · rintro ((h | h) | h)
      · exact Or.inl h
      · exact Or.inr (Or.inl h)
      · exact Or.inr (Or.inr h)
    · rintro (h | h | h)
      · exact Or.inl (Or.inl h)
      · exact Or.inl (Or.inr h)
      · exact Or.inr h

theorem wasViolated_merge (t o : VTrace) (s a : Nat) :
    (t.merge o).wasViolated s a = true ↔ t.wasViolated s a = true ∨ o.wasViolated s a = true := by
  unfold VTrace.wasViolated VTrace.merge
  simp only [Bool.or_eq_true, dictHas_foldl_update]
  constructor
  · rintro ((h | h) | (h | h))
    · exact Or.inl (Or.inl h)
    · exact Or.inr (Or.inl h)
    · exact Or.inl (Or.inr h)
    · exact Or.inr (Or.inr h)
  · rintro ((h | h) | (h | h))
    · exact Or.inl (Or.inl h)
    · exact Or.inr (Or.inl h)
    · exact Or.inl (Or.inr h)
    · exact Or.inr (Or.inr h)

/-- The merged trace of the non-minimising path records exactly the violations of the valid runs. -/
theorem wasViolated_mergedTrace (valid : List (Nat × Res)) (s a : Nat) :
    (mergedTrace valid).wasViolated s a = true ↔ ∃ p ∈ valid, p.2.trace.wasViolated s a = true := by
  unfold mergedTrace
  suffices h : ∀ (t0 : VTrace), (valid.foldl (fun t p => t.merge p.2.trace) t0).wasViolated s a = true ↔
      t0.wasViolated s a = true ∨ ∃ p ∈ valid, p.2.trace.wasViolated s a = true by
    rw [h]
    simp [VTrace.wasViolated, dictHas]
  induction valid with
  | nil => intro t0; simp
  | cons p valid ih =>
    intro t0
    simp only [List.foldl_cons, ih, wasViolated_merge, List.mem_cons, exists_eq_or_imp]
    constructor
    · rintro ((h | h) | h)
      · exact Or.inl h
      · exact Or.inr (Or.inl h)
      · exact Or.inr (Or.inr h)
    · rintro (h | h | h)
      · exact Or.inl (Or.inl h)
      · exact Or.inl (Or.inr h)
      · exact Or.inr h

/-! ### kill map -/

theorem mem_killSet {valid : List (Nat × Res)} {s a : Nat} {j : Mutant} :
    j ∈ killSet valid s a ↔ ∃ r, (j, r) ∈ valid ∧ r.trace.wasViolated s a = true := by
  unfold killSet
  simp only [List.mem_map, List.mem_filter]
  constructor
  · rintro ⟨p, ⟨hp, hv⟩, rfl⟩; exact ⟨p.2, hp, hv⟩
  · rintro ⟨r, hr, hv⟩; exact ⟨(j, r), ⟨hr, hv⟩, rfl⟩

theorem mem_buildKillMapFrom {valid : List (Nat × Res)} {test : Test} {s0 : Nat} {e : Key × List Mutant} :
    e ∈ buildKillMapFrom valid s0 test ↔
      ∃ i st a, test[i]? = some st ∧ hasOnlyException st = false ∧ a < st.length ∧
        e = ((s0 + i, a), killSet valid (s0 + i) a) := by
  induction test generalizing s0 with
  | nil => simp [buildKillMapFrom]
  | cons st rest ih =>
    unfold buildKillMapFrom
    rw [List.mem_append, ih]
    constructor
    · rintro (h | ⟨i, st', a, hi, hne, ha, rfl⟩)
      · by_cases hx : hasOnlyException st = true
        · simp [hx] at h
        · simp only [hx, Bool.false_eq_true, if_false, List.mem_map, List.mem_range] at h
          obtain ⟨a, ha, rfl⟩ := h
          exact ⟨0, st, a, by simp, by simpa using hx, ha, by simp⟩
      · refine ⟨i + 1, st', a, by simpa using hi, hne, ha, ?_⟩
        have : s0 + 1 + i = s0 + (i + 1) := by omega
        rw [this]
    · rintro ⟨i, st', a, hi, hne, ha, rfl⟩
      cases i with
      | zero =>
        simp only [List.getElem?_cons_zero, Option.some.injEq] at hi
        subst hi
        left
        simp only [hne, Bool.false_eq_true, if_false, List.mem_map, List.mem_range]
        exact ⟨a, ha, by simp⟩
      | succ i =>
        right
        refine ⟨i, st', a, by simpa using hi, hne, ha, ?_⟩
        have : s0 + 1 + i = s0 + (i + 1) := by omega
        rw [this]

theorem keysNodup_buildKillMapFrom (valid : List (Nat × Res)) (test : Test) (s0 : Nat) :
    KeysNodup (buildKillMapFrom valid s0 test) := by
  induction test generalizing s0 with
  | nil => simp [buildKillMapFrom, KeysNodup]
  | cons st rest ih =>
    unfold buildKillMapFrom KeysNodup
    rw [List.map_append, List.nodup_append]
    refine ⟨?_, ih (s0 + 1), ?_⟩
    · by_cases hx : hasOnlyException st = true
      · simp [hx]
      · simp only [hx, Bool.false_eq_true, if_false, List.map_map]
        exact List.Pairwise.map _ (fun a b hab h => hab (by simpa using h)) List.nodup_range
    · intro k hk k' hk' hkk
      subst hkk
      have h1 : k.1 = s0 := by
        by_cases hx : hasOnlyException st = true
        · simp [hx] at hk
        · simp only [hx, Bool.false_eq_true, if_false, List.map_map, List.mem_map, List.mem_range] at hk
          obtain ⟨a, _, rfl⟩ := hk
          rfl
      obtain ⟨e, he, hek⟩ := List.mem_map.1 hk'
      obtain ⟨i, st', a, _, _, _, rfl⟩ := mem_buildKillMapFrom.1 he
      rw [← hek] at h1
      simp at h1
      omega

/-! ### assertion removal by position -/

theorem mem_keepPositions {st : Stmt} {p : Nat → Bool} {x : Assertion} :
    x ∈ keepPositions st p ↔ ∃ a, st[a]? = some x ∧ p a = true := by
  unfold keepPositions
  simp only [List.mem_map, List.mem_filter, List.mem_zipIdx_iff_getElem?]
  constructor
  · rintro ⟨q, ⟨hq, hp⟩, rfl⟩; exact ⟨q.2, hq, hp⟩
  · rintro ⟨a, ha, hp⟩; exact ⟨(x, a), ⟨ha, hp⟩, rfl⟩

theorem keepPositions_sublist (st : Stmt) (p : Nat → Bool) : (keepPositions st p).Sublist st := by
  unfold keepPositions
  have h := (List.filter_sublist (l := st.zipIdx) (p := fun q => p q.2)).map Prod.fst
  rwa [List.zipIdx_map_fst] at h

theorem getElem?_applyKeepFrom (keep : List Key) (test : Test) (s0 i : Nat) :
    (applyKeepFrom keep s0 test)[i]? = test[i]?.map (fun st =>
      if hasOnlyException st then st else keepPositions st (fun a => keep.contains (s0 + i, a))) := by
  induction test generalizing s0 i with
  | nil => simp [applyKeepFrom]
  | cons st rest ih =>
    unfold applyKeepFrom
    cases i with
    | zero => simp
    | succ i =>
      simp only [List.getElem?_cons_succ, ih]
      have : s0 + 1 + i = s0 + (i + 1) := by omega
      rw [this]

theorem length_applyKeepFrom (keep : List Key) (test : Test) (s0 : Nat) :
    (applyKeepFrom keep s0 test).length = test.length := by
  induction test generalizing s0 with
  | nil => simp [applyKeepFrom]
  | cons st rest ih => simp [applyKeepFrom, ih]

theorem getElem?_relevantFrom (merged : VTrace) (test : Test) (s0 i : Nat) :
    (relevantFrom merged s0 test)[i]? = test[i]?.map (fun st =>
      keepPositions st (fun a => merged.wasViolated (s0 + i) a)) := by
  induction test generalizing s0 i with
  | nil => simp [relevantFrom]
  | cons st rest ih =>
    unfold relevantFrom
    cases i with
    | zero => simp
    | succ i =>
      simp only [List.getElem?_cons_succ, ih]
      have : s0 + 1 + i = s0 + (i + 1) := by omega
      rw [this]

theorem length_relevantFrom (merged : VTrace) (test : Test) (s0 : Nat) :
    (relevantFrom merged s0 test).length = test.length := by
  induction test generalizing s0 with
  | nil => simp [relevantFrom]
  | cons st rest ih => simp [relevantFrom, ih]

/-! ### `_handle_add_assertions`: the grid of results and the mutants that got a column -/

/-- The checked mutants' columns, in order: skipped mutants (`None` from `create_mutants`) and
mutants cut by the budget are simply not there. -/
def checkedCols (stream : List (Option (List (Option Res)))) : List (List (Option Res)) :=
  stream.filterMap id

/-- the property's own reading of one checked mutant's column of results: some test timed out -/
def colTimedOut (col : List (Option Res)) : Bool :=
  col.any (fun r => match r with | some r => r.timeout | none => false)

/-- … some test had a violated assertion or raised -/
def colViolated (col : List (Option Res)) : Bool :=
  col.any (fun r => match r with | some r => r.obs.violated | none => false)

theorem colTimedOut_iff {c : List (Option Res)} :
    colTimedOut c = true ↔ ∃ r, some r ∈ c ∧ r.timeout = true := by
  unfold colTimedOut
  rw [List.any_eq_true]
  constructor
  · rintro ⟨x, hx, h⟩
    cases x with
    | none => simp at h
    | some r => exact ⟨r, hx, h⟩
  · rintro ⟨r, hr, h⟩; exact ⟨some r, hr, h⟩

theorem colViolated_iff {c : List (Option Res)} :
    colViolated c = true ↔ ∃ r, some r ∈ c ∧ r.obs.violated = true := by
  unfold colViolated
  rw [List.any_eq_true]
  constructor
  · rintro ⟨x, hx, h⟩
    cases x with
    | none => simp at h
    | some r => exact ⟨r, hx, h⟩
  · rintro ⟨r, hr, h⟩; exact ⟨some r, hr, h⟩

theorem allSome_spec {α} : ∀ (l : List (Option α)) (r : List α), allSome l = some r → l = r.map some := by
  intro l
  induction l with
  | nil => intro r h; simp only [allSome, Option.some.injEq] at h; subst h; rfl
  | cons x l ih =>
    intro r h
    cases x with
    | none => simp [allSome] at h
    | some a =>
      simp only [allSome, Option.map_eq_some_iff] at h
      obtain ⟨r', hr', rfl⟩ := h
      rw [ih r' hr']; rfl

theorem collect_skip (stream : List (Option (List (Option Res)))) (acc : Nat × List (List (Option Res))) :
    collect stream acc = collect (stream.filter Option.isSome) acc := by
  induction stream generalizing acc with
  | nil => rfl
  | cons x rest ih =>
    cases x with
    | none => simp only [collect, List.filter_cons, Option.isSome_none, Bool.false_eq_true, if_false]; exact ih acc
    | some col =>
      obtain ⟨n, rows⟩ := acc
      simp only [collect, List.filter_cons, Option.isSome_some, if_true]
      cases appendColumn rows col with
      | none => rfl
      | some rows' => exact ih _

theorem collect_spec :
    ∀ (stream : List (Option (List (Option Res)))) (n0 : Nat) (rows0 : List (List (Option Res)))
      (n : Nat) (rows : List (List (Option Res))),
      collect stream (n0, rows0) = some (n, rows) →
      n = n0 + (checkedCols stream).length ∧ rows.length = rows0.length ∧
      (∀ c ∈ checkedCols stream, c.length = rows0.length) ∧
      ∀ (i : Nat) row0, rows0[i]? = some row0 →
        rows[i]? = some (row0 ++ (checkedCols stream).map (fun c => c.getD i none)) := by
  intro stream
  induction stream with
  | nil =>
    intro n0 rows0 n rows h
    simp only [collect, Option.some.injEq, Prod.mk.injEq] at h
    obtain ⟨rfl, rfl⟩ := h
    simp [checkedCols]
  | cons x rest ih =>
    intro n0 rows0 n rows h
    cases x with
    | none =>
      simp only [collect] at h
      simpa [checkedCols] using ih n0 rows0 n rows h
    | some col =>
      simp only [collect] at h
      cases hap : appendColumn rows0 col with
      | none => rw [hap] at h; cases h
      | some rows' =>
        rw [hap] at h
        unfold appendColumn at hap
        by_cases hl : col.length = rows0.length
        · simp only [hl, if_true, Option.some.injEq] at hap
          subst hap
          obtain ⟨hn, hlen, hcs, hpt⟩ := ih _ _ _ _ h
          have hzl : (List.zipWith (fun row r => row ++ [r]) rows0 col).length = rows0.length := by
            simp [hl]
          have hcc : checkedCols (some col :: rest) = col :: checkedCols rest := by simp [checkedCols]
          rw [hcc]
          refine ⟨by simp; omega, by rw [hlen, hzl], ?_, ?_⟩
          · intro c hc
            rcases List.mem_cons.1 hc with rfl | hc
            · exact hl
            · rw [hcs c hc, hzl]
          · intro i row0 hi
            have hilt : i < rows0.length := (List.getElem?_eq_some_iff.1 hi).1
            have hic : col[i]? = some (col.getD i none) := by
              have hlt : i < col.length := by omega
              rw [List.getD_eq_getElem?_getD, List.getElem?_eq_getElem hlt]; rfl
            have hz : (List.zipWith (fun row r => row ++ [r]) rows0 col)[i]? = some (row0 ++ [col.getD i none]) := by
              simp only [List.getElem?_zipWith, hi, hic]
            rw [hpt i _ hz]
            simp
        · simp [hl] at hap

/-- the grid handed to `__compute_mutation_summary` -/
def obsRows (rows : List (List (Option Res))) : List (List (Option Obs)) :=
  rows.map (fun row => row.map (fun r => r.map Res.obs))

theorem ColTimedOut_grid {nT : Nat} {cols rows : List (List (Option Res))} (hrows : rows.length = nT)
    (hpt : ∀ i, i < nT → rows[i]? = some (cols.map (fun c => c.getD i none)))
    (hc : ∀ c ∈ cols, c.length = nT) {j : Nat} {c : List (Option Res)} (hj : cols[j]? = some c) :
    (ColTimedOut (obsRows rows) j ↔ colTimedOut c = true) ∧
    (ColViolated (obsRows rows) j ↔ colViolated c = true) := by
  have hcl : c.length = nT := hc c (List.mem_of_getElem? hj)
  -- the generic statement for a predicate on observations
  have key : ∀ (f : Obs → Bool),
      (∃ row ∈ obsRows rows, ∃ o, row[j]? = some (some o) ∧ f o = true) ↔
        ∃ r, some r ∈ c ∧ f r.obs = true := by
    intro f
    constructor
    · rintro ⟨row, hrow, o, ho, hf⟩
      unfold obsRows at hrow
      obtain ⟨row', hrow', rfl⟩ := List.mem_map.1 hrow
      obtain ⟨i, hi⟩ := List.mem_iff_getElem?.1 hrow'
      have hilt : i < nT := by rw [← hrows]; exact (List.getElem?_eq_some_iff.1 hi).1
      rw [hpt i hilt] at hi
      cases hi
      simp only [List.getElem?_map, hj, Option.map_some, Option.some.injEq] at ho
      cases hg : c.getD i none with
      | none => rw [hg] at ho; cases ho
      | some r =>
        rw [hg] at ho
        simp only [Option.map_some, Option.some.injEq] at ho
        subst ho
        refine ⟨r, ?_, hf⟩
        rw [List.getD_eq_getElem?_getD] at hg
        cases hci : c[i]? with
        | none => rw [hci] at hg; cases hg
        | some x =>
          rw [hci] at hg
          simp only [Option.getD_some] at hg
          subst hg
          exact List.mem_of_getElem? hci
    · rintro ⟨r, hr, hf⟩
      obtain ⟨i, hi⟩ := List.mem_iff_getElem?.1 hr
      have hilt : i < nT := by rw [← hcl]; exact (List.getElem?_eq_some_iff.1 hi).1
      refine ⟨(cols.map (fun c => c.getD i none)).map (fun r => r.map Res.obs), ?_, r.obs, ?_, hf⟩
      · unfold obsRows
        exact List.mem_map.2 ⟨_, List.mem_of_getElem? (hpt i hilt), rfl⟩
      · rw [List.getElem?_map, List.getElem?_map, hj]
        simp only [Option.map_some]
        rw [List.getD_eq_getElem?_getD, hi]
        rfl
  constructor
  · unfold ColTimedOut
    rw [key (fun o => o.timeout), colTimedOut_iff]
    rfl
  · unfold ColViolated
    rw [key (fun o => o.violated), colViolated_iff]

/-! ### which results enter the kill map -/

theorem mem_validResultsFrom {results : List (Option Res)} {infos : List MutantInfo} {j0 j : Nat} {r : Res} :
    (j, r) ∈ validResultsFrom j0 results infos ↔
      ∃ k i, j = j0 + k ∧ results[k]? = some (some r) ∧ infos[k]? = some i ∧ i.timedOutBy = [] := by
  induction results generalizing j0 infos with
  | nil => simp [validResultsFrom]
  | cons x rs ih =>
    cases infos with
    | nil => simp [validResultsFrom]
    | cons i0 is =>
      unfold validResultsFrom
      rw [List.mem_append, ih]
      constructor
      · rintro (h | ⟨k, i, rfl, hr, hi, he⟩)
        · cases x with
          | none => simp at h
          | some r0 =>
            by_cases he : i0.timedOutBy.isEmpty = true
            · simp only [he, if_true, List.mem_singleton, Prod.mk.injEq] at h
              obtain ⟨rfl, rfl⟩ := h
              exact ⟨0, i0, by simp, by simp, by simp, List.isEmpty_iff.1 he⟩
            · simp [he] at h
        · exact ⟨k + 1, i, by omega, by simpa using hr, by simpa using hi, he⟩
      · rintro ⟨k, i, rfl, hr, hi, he⟩
        cases k with
        | zero =>
          left
          simp only [List.getElem?_cons_zero, Option.some.injEq] at hr hi
          subst hr; subst hi
          simp [he]
        | succ k =>
          right
          exact ⟨k, i, by omega, by simpa using hr, by simpa using hi, he⟩

theorem mem_validResults {results : List (Option Res)} {infos : List MutantInfo} {j : Nat} {r : Res} :
    (j, r) ∈ validResults results infos ↔
      results[j]? = some (some r) ∧ ∃ i, infos[j]? = some i ∧ i.timedOutBy = [] := by
  unfold validResults
  rw [mem_validResultsFrom]
  constructor
  · rintro ⟨k, i, hj, hr, hi, he⟩
    have : j = k := by omega
    subst this
    exact ⟨hr, i, hi, he⟩
  · rintro ⟨hr, i, hi, he⟩
    exact ⟨j, i, by omega, hr, hi, he⟩

theorem validResults_functional {results : List (Option Res)} {infos : List MutantInfo} {j : Nat} {r r' : Res}
    (h : (j, r) ∈ validResults results infos) (h' : (j, r') ∈ validResults results infos) : r = r' := by
  have h1 := (mem_validResults.1 h).1
  have h2 := (mem_validResults.1 h').1
  rw [h1] at h2
  simpa using h2

/-! ### taking `_handle_add_assertions` apart -/

theorem handleAdd_unfold {mn : Bool} {tests : List Test} {stream : List (Option (List (Option Res)))}
    {o : Outcome} (h : handleAdd mn tests stream = some o) :
    ∃ n rows, collect stream (0, tests.map (fun _ => [])) = some (n, rows) ∧
      computeSummary n (obsRows rows) = some o.infos ∧
      o.metrics = getMetrics o.infos ∧ o.score = getScore (getMetrics o.infos) ∧
      (mn = true → allSome ((List.zip tests rows).map
          (fun p => minimizeTest? p.1 (validResults p.2 o.infos))) = some o.tests) ∧
      (mn = false → o.tests = (List.zip tests rows).map
          (fun p => relevantTest p.1 (validResults p.2 o.infos))) := by
  unfold handleAdd at h
  cases hc : collect stream (0, tests.map (fun _ => [])) with
  | none => rw [hc] at h; cases h
  | some nr =>
    obtain ⟨n, rows⟩ := nr
    rw [hc] at h
    simp only at h
    cases hs : computeSummary n (rows.map (fun row => row.map (fun r => r.map Res.obs))) with
    | none => rw [hs] at h; cases h
    | some infos =>
      rw [hs] at h
      simp only [Option.map_eq_some_iff] at h
      obtain ⟨ts, hts, rfl⟩ := h
      refine ⟨n, rows, rfl, hs, rfl, rfl, ?_, ?_⟩
      · intro hm
        simpa [hm] using hts
      · intro hm
        simp only [hm, Bool.false_eq_true, if_false, Option.some.injEq] at hts
        exact hts.symm

/-- Shape facts about the grid built by `_handle_add_assertions`. -/
theorem handleAdd_grid {tests : List Test} {stream : List (Option (List (Option Res)))} {n : Nat}
    {rows : List (List (Option Res))} (hc : collect stream (0, tests.map (fun _ => [])) = some (n, rows)) :
    n = (checkedCols stream).length ∧ rows.length = tests.length ∧
      (∀ c ∈ checkedCols stream, c.length = tests.length) ∧
      ∀ i, i < tests.length → rows[i]? = some ((checkedCols stream).map (fun c => c.getD i none)) := by
  obtain ⟨hn, hlen, hcs, hpt⟩ := collect_spec _ _ _ _ _ hc
  refine ⟨by omega, by simpa using hlen, by simpa using hcs, ?_⟩
  intro i hi
  have : (tests.map (fun _ => ([] : List (Option Res))))[i]? = some [] := by
    simp [List.getElem?_map, List.getElem?_eq_getElem hi]
  simpa using hpt i [] this

/-- **The summary of `_handle_add_assertions`, mutant by mutant, in terms of the checked columns.** -/
theorem handleAdd_infos {mn : Bool} {tests : List Test} {stream : List (Option (List (Option Res)))}
    {o : Outcome} (h : handleAdd mn tests stream = some o) :
    o.infos.length = (checkedCols stream).length ∧
    ∀ j c, (checkedCols stream)[j]? = some c → ∃ i, o.infos[j]? = some i ∧ i.mutNum = j ∧
      isTimedOut i = colTimedOut c ∧
      isKilled i = (!colTimedOut c && colViolated c) ∧
      isSurvived i = (!colTimedOut c && !colViolated c) := by
  obtain ⟨n, rows, hc, hs, _, _, _, _⟩ := handleAdd_unfold h
  obtain ⟨hn, hrl, hcl, hpt⟩ := handleAdd_grid hc
  obtain ⟨hil, hip⟩ := computeSummary_spec hs
  refine ⟨by rw [hil, hn], ?_⟩
  intro j c hj
  have hjn : j < n := by rw [hn]; exact (List.getElem?_eq_some_iff.1 hj).1
  obtain ⟨i, hi, hnum, hto, hk, hsv⟩ := hip j hjn
  obtain ⟨g1, g2⟩ := ColTimedOut_grid hrl hpt hcl hj
  refine ⟨i, hi, hnum, ?_, ?_, ?_⟩
  · rw [Bool.eq_iff_iff, hto, g1]
  · rw [Bool.eq_iff_iff, hk, g1, g2]; simp
  · rw [Bool.eq_iff_iff, hsv, g1, g2]; simp

/-- The per-test view: the test's row of results and its valid results. -/
theorem handleAdd_valid {tests : List Test} {stream : List (Option (List (Option Res)))} {n : Nat}
    {rows : List (List (Option Res))} {infos : List MutantInfo}
    (hc : collect stream (0, tests.map (fun _ => [])) = some (n, rows))
    (hi : ∀ (j : Nat) c, (checkedCols stream)[j]? = some c → ∃ i, infos[j]? = some i ∧ isTimedOut i = colTimedOut c)
    {t : Nat} {test : Test} (ht : tests[t]? = some test) :
    ∃ row, (List.zip tests rows)[t]? = some (test, row) ∧
      ∀ j r, (j, r) ∈ validResults row infos ↔
        ∃ c, (checkedCols stream)[j]? = some c ∧ c[t]? = some (some r) ∧ colTimedOut c = false := by
  obtain ⟨_, hrl, hcl, hpt⟩ := handleAdd_grid hc
  have htl : t < tests.length := (List.getElem?_eq_some_iff.1 ht).1
  refine ⟨(checkedCols stream).map (fun c => c.getD t none),
    List.getElem?_zip_eq_some.2 ⟨ht, hpt t htl⟩, ?_⟩
  intro j r
  rw [mem_validResults]
  constructor
  · rintro ⟨hr, i, hij, he⟩
    simp only [List.getElem?_map, Option.map_eq_some_iff] at hr
    obtain ⟨c, hjc, hg⟩ := hr
    obtain ⟨i', hi', hto⟩ := hi j c hjc
    rw [hij] at hi'
    cases hi'
    refine ⟨c, hjc, ?_, ?_⟩
    · rw [List.getD_eq_getElem?_getD] at hg
      cases hct : c[t]? with
      | none => rw [hct] at hg; cases hg
      | some x => rw [hct] at hg; simp only [Option.getD_some] at hg; rw [hg]
    · rw [← hto]; simp [isTimedOut, he]
  · rintro ⟨c, hjc, hct, hnt⟩
    obtain ⟨i, hij, hto⟩ := hi j c hjc
    refine ⟨?_, i, hij, ?_⟩
    · rw [List.getElem?_map, hjc]
      simp only [Option.map_some, Option.some.injEq]
      rw [List.getD_eq_getElem?_getD, hct]; rfl
    · rw [hnt] at hto
      unfold isTimedOut at hto
      simpa using hto

end PynguinModel.SetCover
