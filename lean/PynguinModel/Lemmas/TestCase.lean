import PynguinModel.Model.TestCase
/-!
Helper lemmas for C15: well-formedness (`WF`) of test cases and its preservation by every editing
primitive / composite of `Model/TestCase.lean`.
-/
namespace PynguinModel.TestCase

/-- every *variable* read is in `bs` (the names bound so far) when its statement is reached -/
def readsOK : List Name → List Stmt → Prop
  | _, [] => True
  | bs, s :: rest => (∀ u ∈ s.uses, u.isVar = true → u ∈ bs) ∧ readsOK (bs ++ s.bound.toList) rest

/-- Well-formedness of a test case: each variable read is bound by an earlier statement, bound names
are pairwise distinct, every bound name is a `var_k` below the fresh-name counter, and the per-type registry
is exactly what `_rebuild_registry` computes from the statements. -/
structure WF (tc : TC) : Prop where
  reads : readsOK [] tc.stmts
  nodup : (boundNames tc.stmts).Nodup
  fresh : ∀ v ∈ boundNames tc.stmts, ∃ k, v = Name.var k ∧ k < tc.counter
  reg : tc.registry = rebuild tc.stmts

@[simp] theorem boundNames_nil : boundNames [] = [] := rfl

theorem boundNames_cons (s : Stmt) (l : List Stmt) :
    boundNames (s :: l) = s.bound.toList ++ boundNames l := by
  cases h : s.bound <;> simp [boundNames, h]

theorem boundNames_append (l1 l2 : List Stmt) :
    boundNames (l1 ++ l2) = boundNames l1 ++ boundNames l2 := by
  simp [boundNames, List.filterMap_append]

theorem readsOK_mono {bs bs' : List Name} {l : List Stmt} (h : ∀ v ∈ bs, v ∈ bs') :
    readsOK bs l → readsOK bs' l := by
  induction l generalizing bs bs' with
  | nil => intro _; trivial
  | cons s rest ih =>
    intro ⟨h1, h2⟩
    refine ⟨fun u hu hv => h _ (h1 u hu hv), ih ?_ h2⟩
    intro v hv
    rcases List.mem_append.1 hv with hv | hv
    · exact List.mem_append.2 (Or.inl (h _ hv))
    · exact List.mem_append.2 (Or.inr hv)

theorem readsOK_append {bs : List Name} {l1 l2 : List Stmt} :
    readsOK bs (l1 ++ l2) ↔ readsOK bs l1 ∧ readsOK (bs ++ boundNames l1) l2 := by
  induction l1 generalizing bs with
  | nil => simp [readsOK]
  | cons s rest ih =>
    simp only [List.cons_append, readsOK, ih, boundNames_cons, List.append_assoc, and_assoc]

/-! ### registry -/

theorem mem_regGet_regAdd {r : Registry} {t t' : Ty} {v x : Name} :
    x ∈ regGet (regAdd r t v) t' → x ∈ regGet r t' ∨ x = v := by
  induction r with
  | nil =>
    simp only [regAdd, regGet]
    split <;> simp
  | cons p r ih =>
    obtain ⟨t0, vs⟩ := p
    simp only [regAdd]
    by_cases h : t0 = t
    · simp only [h, if_true, regGet]
      by_cases h' : t = t'
      · simp only [h', if_true, List.mem_append, List.mem_singleton]; exact id
      · simp only [h', if_false]; exact Or.inl
    · simp only [h, if_false, regGet]
      by_cases h' : t0 = t'
      · simp only [h', if_true]; exact Or.inl
      · simp only [h', if_false]; exact ih

theorem mem_regGet_register {r : Registry} {s : Stmt} {t : Ty} {x : Name} :
    x ∈ regGet (register r s) t → x ∈ regGet r t ∨ s.bound = some x := by
  unfold register
  split
  · rename_i v t0 hb _
    intro h
    rcases mem_regGet_regAdd h with h | h
    · exact Or.inl h
    · exact Or.inr (by rw [hb, h])
  · exact Or.inl

theorem mem_regGet_foldl {l : List Stmt} {r : Registry} {t : Ty} {x : Name} :
    x ∈ regGet (l.foldl register r) t → x ∈ regGet r t ∨ x ∈ boundNames l := by
  induction l generalizing r with
  | nil => exact Or.inl
  | cons s l ih =>
    intro h
    rcases ih h with h | h
    · rcases mem_regGet_register h with h | h
      · exact Or.inl h
      · exact Or.inr (by rw [boundNames_cons, h]; simp)
    · exact Or.inr (by rw [boundNames_cons]; exact List.mem_append.2 (Or.inr h))

theorem mem_regGet_rebuild {l : List Stmt} {t : Ty} {x : Name} :
    x ∈ regGet (rebuild l) t → x ∈ boundNames l := by
  intro h
  rcases mem_regGet_foldl (r := []) h with h | h
  · simp [regGet] at h
  · exact h

theorem rebuild_append_singleton (l : List Stmt) (s : Stmt) :
    rebuild (l ++ [s]) = register (rebuild l) s := by
  simp [rebuild, List.foldl_append]

theorem WF.mem_variablesOfType {tc : TC} (h : WF tc) {t : Ty} {x : Name} :
    x ∈ tc.variablesOfType t → x ∈ boundNames tc.stmts := by
  unfold TC.variablesOfType
  rw [h.reg]
  exact mem_regGet_rebuild

/-! ### generic constructors of `WF` -/

theorem WF.withStmts {tc : TC} {l : List Stmt} (hr : readsOK [] l) (hn : (boundNames l).Nodup)
    (hf : ∀ v ∈ boundNames l, ∃ k, v = Name.var k ∧ k < tc.counter) : WF (tc.withStmts l) :=
  ⟨hr, hn, hf, rfl⟩

theorem WF_empty : WF TC.empty := ⟨trivial, List.nodup_nil, by simp [TC.empty], rfl⟩

theorem WF.clone {tc : TC} (h : WF tc) : WF tc.clone := WF.withStmts h.reads h.nodup h.fresh

theorem WF.nextVar {tc : TC} (h : WF tc) : WF tc.nextVar.2 :=
  ⟨h.reads, h.nodup, fun v hv => let ⟨k, e, lt⟩ := h.fresh v hv; ⟨k, e, Nat.lt_succ_of_lt lt⟩, h.reg⟩

/-- `var counter` is not bound yet -/
theorem WF.counter_fresh {tc : TC} (h : WF tc) : Name.var tc.counter ∉ boundNames tc.stmts :=
  fun hm => by
    obtain ⟨k, e, lt⟩ := h.fresh _ hm
    injection e with e
    omega

/-! ### insertion / replacement (the factory contract) -/

theorem readsOK_insert {l1 l2 : List Stmt} {s : Stmt} (h : readsOK [] (l1 ++ l2))
    (hs : ∀ u ∈ s.uses, u.isVar = true → u ∈ boundNames l1) : readsOK [] (l1 ++ s :: l2) := by
  rw [readsOK_append] at h ⊢
  refine ⟨h.1, ?_, readsOK_mono (fun v hv => List.mem_append.2 (Or.inl hv)) h.2⟩
  simpa using hs

theorem readsOK_replace {l1 l2 : List Stmt} {o s : Stmt} (h : readsOK [] (l1 ++ o :: l2))
    (hs : ∀ u ∈ s.uses, u.isVar = true → u ∈ boundNames l1)
    (hb : ∀ v, o.bound = some v → s.bound = some v) : readsOK [] (l1 ++ s :: l2) := by
  rw [readsOK_append] at h ⊢
  refine ⟨h.1, by simpa using hs, readsOK_mono ?_ h.2.2⟩
  intro v hv
  rcases List.mem_append.1 hv with hv | hv
  · exact List.mem_append.2 (Or.inl hv)
  · cases ho : o.bound with
    | none => simp [ho] at hv
    | some w =>
      simp [ho] at hv
      subst hv
      simp [hb _ ho]

theorem boundNames_perm_middle (l1 l2 : List Stmt) (s : Stmt) :
    (boundNames (l1 ++ s :: l2)).Perm (s.bound.toList ++ boundNames (l1 ++ l2)) := by
  rw [boundNames_append, boundNames_cons, boundNames_append]
  cases s.bound with
  | none => simp
  | some v => simp [List.perm_middle]

/-- What `TestFactory` must guarantee for a statement it appends / inserts at index `i`: it reads only
variables bound before `i`, and binds nothing or a name that is new and was handed out by
`next_var_name()`. -/
structure InsertOK (tc : TC) (i : Nat) (s : Stmt) : Prop where
  reads : ∀ u ∈ s.uses, u.isVar = true → u ∈ boundNames (tc.stmts.take i)
  freshB : ∀ v, s.bound = some v → v ∉ boundNames tc.stmts
  below : ∀ v, s.bound = some v → ∃ k, v = Name.var k ∧ k < tc.counter

theorem WF.insert {tc : TC} (h : WF tc) {i : Nat} {s : Stmt} (ok : InsertOK tc i s) :
    WF (tc.insert i s) := by
  have hsplit : tc.stmts.take i ++ tc.stmts.drop i = tc.stmts := List.take_append_drop i tc.stmts
  have hperm := boundNames_perm_middle (tc.stmts.take i) (tc.stmts.drop i) s
  rw [hsplit] at hperm
  refine WF.withStmts (readsOK_insert (by rw [hsplit]; exact h.reads) ok.reads) ?_ ?_
  · rw [hperm.nodup_iff]
    cases hb : s.bound with
    | none => simpa using h.nodup
    | some v => simpa using ⟨ok.freshB v hb, h.nodup⟩
  · intro w hk
    have := hperm.mem_iff.1 hk
    rcases List.mem_append.1 this with hk | hk
    · cases hb : s.bound with
      | none => simp [hb] at hk
      | some v =>
        simp [hb] at hk
        exact ok.below w (by rw [hb, hk])
    · exact h.fresh w hk

theorem add_eq_insert {tc : TC} (h : WF tc) (s : Stmt) : tc.add s = tc.insert tc.stmts.length s := by
  simp [TC.add, TC.insert, TC.withStmts, h.reg, rebuild_append_singleton]

theorem WF.add {tc : TC} (h : WF tc) {s : Stmt} (ok : InsertOK tc tc.stmts.length s) : WF (tc.add s) := by
  rw [add_eq_insert h]; exact h.insert ok

/-- What `TestFactory` / local search must guarantee for a statement that replaces the one at `i`:
it reads only variables bound before `i` and keeps the binder (or, when the old statement bound
nothing, binds nothing or a new name handed out by `next_var_name()`). -/
structure ReplaceOK (tc : TC) (i : Nat) (s : Stmt) : Prop where
  reads : ∀ u ∈ s.uses, u.isVar = true → u ∈ boundNames (tc.stmts.take i)
  binder : ∀ o, tc.stmts[i]? = some o →
    s.bound = o.bound ∨ (o.bound = none ∧ (∀ v, s.bound = some v → v ∉ boundNames tc.stmts) ∧
      ∀ v, s.bound = some v → ∃ k, v = Name.var k ∧ k < tc.counter)

theorem WF.replace {tc tc' : TC} (h : WF tc) {i : Nat} {s : Stmt} (ok : ReplaceOK tc i s)
    (hr : tc.replace i s = some tc') : WF tc' := by
  unfold TC.replace at hr
  split at hr
  · rename_i hlt
    injection hr with hr
    subst hr
    have hget : tc.stmts[i]? = some tc.stmts[i] := List.getElem?_eq_getElem hlt
    have hsplit : tc.stmts = tc.stmts.take i ++ tc.stmts[i] :: tc.stmts.drop (i + 1) := by
      rw [← List.drop_eq_getElem_cons hlt, List.take_append_drop]
    have hset : tc.stmts.set i s = tc.stmts.take i ++ s :: tc.stmts.drop (i + 1) := by
      rw [List.set_eq_take_append_cons_drop, if_pos hlt]
    have hreads : readsOK [] (tc.stmts.take i ++ tc.stmts[i] :: tc.stmts.drop (i + 1)) := by
      rw [← hsplit]; exact h.reads
    have hpo := boundNames_perm_middle (tc.stmts.take i) (tc.stmts.drop (i + 1)) tc.stmts[i]
    rw [← hsplit] at hpo
    have hpn := boundNames_perm_middle (tc.stmts.take i) (tc.stmts.drop (i + 1)) s
    rw [← hset] at hpn
    rcases ok.binder _ hget with hb | ⟨hnone, hfr, hbel⟩
    · -- same binder
      refine WF.withStmts ?_ ?_ ?_
      · rw [hset]; exact readsOK_replace hreads ok.reads (fun v hv => by rw [hb, hv])
      · rw [hpn.nodup_iff, hb, ← hpo.nodup_iff]; exact h.nodup
      · intro w hk
        apply h.fresh w
        rw [hpo.mem_iff, ← hb, ← hpn.mem_iff]; exact hk
    · -- the old statement bound nothing
      rw [hnone] at hpo
      have hrest : ∀ v, v ∈ boundNames (tc.stmts.take i ++ tc.stmts.drop (i + 1)) ↔ v ∈ boundNames tc.stmts := by
        intro v; simpa using (hpo.mem_iff (a := v)).symm
      refine WF.withStmts ?_ ?_ ?_
      · rw [hset]; exact readsOK_replace hreads ok.reads (fun v hv => by rw [hnone] at hv; cases hv)
      · rw [hpn.nodup_iff]
        have hnd : (boundNames (tc.stmts.take i ++ tc.stmts.drop (i + 1))).Nodup := by
          have := hpo.nodup_iff.1 h.nodup; simpa using this
        cases hb : s.bound with
        | none => simpa using hnd
        | some v => simpa using ⟨fun hm => hfr v hb ((hrest v).1 hm), hnd⟩
      · intro w hk
        rcases List.mem_append.1 (hpn.mem_iff.1 hk) with hk | hk
        · cases hb : s.bound with
          | none => simp [hb] at hk
          | some v =>
            simp [hb] at hk
            exact hbel w (by rw [hb, hk])
        · exact h.fresh w ((hrest _).1 hk)
  · cases hr

/-! ### removing a set of statements -/

theorem maskFilter_nil_mask (l : List Stmt) : maskFilter l [] = l := by cases l <;> rfl

theorem maskFilter_cons (s : Stmt) (l : List Stmt) (m : List Bool) :
    maskFilter (s :: l) m = if m.headD false then maskFilter l m.tail else s :: maskFilter l m.tail := by
  cases m with
  | nil => simp [maskFilter, maskFilter_nil_mask]
  | cons b m => simp [maskFilter]

theorem maskFilter_sublist (l : List Stmt) (m : List Bool) : (maskFilter l m).Sublist l := by
  induction l generalizing m with
  | nil => simp [maskFilter]
  | cons s l ih =>
    rw [maskFilter_cons]
    split
    · exact (ih _).cons _
    · exact (ih _).cons_cons _

/-- `D` collects the names bound by the removed statements met so far; no kept statement reads one -/
def closedD : List Name → List Stmt → List Bool → Prop
  | _, [], _ => True
  | D, s :: l, m =>
    if m.headD false then closedD (D ++ s.bound.toList) l m.tail
    else (∀ u ∈ s.uses, u ∉ D) ∧ closedD D l m.tail

theorem readsOK_maskFilter {l : List Stmt} {m : List Bool} {bs bs' D : List Name}
    (h : readsOK bs l) (hc : closedD D l m) (hb : ∀ v ∈ bs, v ∈ bs' ∨ v ∈ D) :
    readsOK bs' (maskFilter l m) := by
  induction l generalizing m bs bs' D with
  | nil => simp [maskFilter, readsOK]
  | cons s l ih =>
    rw [maskFilter_cons]
    unfold closedD at hc
    obtain ⟨h1, h2⟩ := h
    split
    · rename_i hm
      rw [if_pos hm] at hc
      refine ih h2 hc ?_
      intro v hv
      rcases List.mem_append.1 hv with hv | hv
      · rcases hb v hv with hv | hv
        · exact Or.inl hv
        · exact Or.inr (List.mem_append.2 (Or.inl hv))
      · exact Or.inr (List.mem_append.2 (Or.inr hv))
    · rename_i hm
      rw [if_neg hm] at hc
      refine ⟨?_, ih h2 hc.2 ?_⟩
      · intro u hu hv
        rcases hb u (h1 u hu hv) with h | h
        · exact h
        · exact absurd h (hc.1 u hu)
      · intro v hv
        rcases List.mem_append.1 hv with hv | hv
        · rcases hb v hv with hv | hv
          · exact Or.inl (List.mem_append.2 (Or.inl hv))
          · exact Or.inr hv
        · exact Or.inl (List.mem_append.2 (Or.inr hv))

theorem WF.maskFilter {tc : TC} (h : WF tc) {m : List Bool} (hc : closedD [] tc.stmts m) :
    WF (tc.withStmts (maskFilter tc.stmts m)) := by
  have hsub : (boundNames (PynguinModel.TestCase.maskFilter tc.stmts m)).Sublist (boundNames tc.stmts) :=
    (maskFilter_sublist tc.stmts m).filterMap _
  exact WF.withStmts (readsOK_maskFilter h.reads hc (by simp)) (h.nodup.sublist hsub)
    (fun k hk => h.fresh k (hsub.subset hk))

/-- removing `range(p, size)` keeps the first `p` statements -/
theorem maskFilter_pyRange (l : List Stmt) (p n k : Nat) (hn : k + l.length = n) :
    maskFilter l (idxMaskFrom (pyRange p n) k l.length) = l.take (p - k) := by
  induction l generalizing k with
  | nil => simp [maskFilter]
  | cons s l ih =>
    simp only [List.length_cons] at hn ⊢
    simp only [idxMaskFrom, maskFilter, pyRange, List.mem_range'_1]
    by_cases hk : p ≤ k
    · have h1 : (p ≤ k ∧ k < p + (n - p)) := ⟨hk, by omega⟩
      have h2 : p - k = 0 := by omega
      simp only [h1, and_self, decide_true, if_true]
      have := ih (k + 1) (by omega)
      simp only [pyRange] at this
      rw [this, h2]
      have h3 : p - (k + 1) = 0 := by omega
      simp [h3]
    · have h1 : ¬ (p ≤ k ∧ k < p + (n - p)) := fun h => hk h.1
      simp only [h1, decide_false, Bool.false_eq_true, if_false]
      have := ih (k + 1) (by omega)
      simp only [pyRange] at this
      rw [this]
      have h3 : p - k = (p - (k + 1)) + 1 := by omega
      rw [h3, List.take_succ_cons]

theorem removeBatch_pyRange (tc : TC) (p : Nat) :
    tc.removeBatch (pyRange p tc.size) = tc.withStmts (tc.stmts.take p) := by
  unfold TC.removeBatch TC.size
  rw [maskFilter_pyRange tc.stmts p tc.stmts.length 0 (by simp)]
  simp

theorem WF.take {tc : TC} (h : WF tc) (p : Nat) : WF (tc.withStmts (tc.stmts.take p)) := by
  have hsub : (boundNames (tc.stmts.take p)).Sublist (boundNames tc.stmts) :=
    (List.take_sublist p tc.stmts).filterMap _
  have hr : readsOK [] (tc.stmts.take p ++ tc.stmts.drop p) := by
    rw [List.take_append_drop]; exact h.reads
  exact WF.withStmts (readsOK_append.1 hr).1 (h.nodup.sublist hsub) (fun k hk => h.fresh k (hsub.subset hk))

theorem WF.chop {tc : TC} (h : WF tc) (position : Int) : WF (tc.chop position) := by
  unfold TC.chop
  split <;> (rw [removeBatch_pyRange]; exact h.take _)

theorem chop_stmts (tc : TC) (position : Int) :
    (tc.chop position).stmts = if position < 0 then [] else tc.stmts.take (position.toNat + 1) := by
  unfold TC.chop
  split <;> simp [removeBatch_pyRange, TC.withStmts]

/-! ### the forward-dependency closure (`forward_dependencies`, `delete_statement_gracefully`) -/

/-- removed statements' bound names are in `T` -/
def remOK (T : List Name) : List Stmt → List Bool → Prop
  | [], _ => True
  | s :: l, m => (m.headD false = true → ∀ v, s.bound = some v → v ∈ T) ∧ remOK T l m.tail

/-- kept statements read no name of `T` -/
def keptOK (T : List Name) : List Stmt → List Bool → Prop
  | [], _ => True
  | s :: l, m => (m.headD false = false → ∀ u ∈ s.uses, u ∉ T) ∧ keptOK T l m.tail

/-- number of statements not (yet) in the closure -/
def cf : List Stmt → List Bool → Nat
  | [], _ => 0
  | _ :: l, m => (if m.headD false then 0 else 1) + cf l m.tail

theorem mem_taintAdd {t : List Name} {o : Option Name} {v : Name} :
    v ∈ taintAdd t o ↔ v ∈ t ∨ o = some v := by
  cases o with
  | none => simp [taintAdd]
  | some w =>
    simp only [taintAdd]
    split
    · constructor
      · exact Or.inl
      · rintro (h | h)
        · exact h
        · injection h with h; subst h; assumption
    · simp only [List.mem_cons, Option.some.injEq]
      constructor
      · rintro (h | h)
        · exact Or.inr h.symm
        · exact Or.inl h
      · rintro (h | h)
        · exact Or.inr h
        · exact Or.inl h.symm

theorem remOK_mono {T T' : List Name} {l : List Stmt} {m : List Bool} (h : ∀ v ∈ T, v ∈ T') :
    remOK T l m → remOK T' l m := by
  induction l generalizing m with
  | nil => intro _; trivial
  | cons s l ih => exact fun ⟨h1, h2⟩ => ⟨fun hm v hv => h _ (h1 hm v hv), ih h2⟩

theorem remOK_nil_mask (T : List Name) (l : List Stmt) : remOK T l [] := by
  induction l with
  | nil => trivial
  | cons s l ih => exact ⟨by simp, ih⟩

theorem cf_nil_mask (l : List Stmt) : cf l [] = l.length := by
  induction l with
  | nil => rfl
  | cons s l ih => simp [cf, ih]; omega

theorem closurePass_taint_mono (strict : Bool) (t : List Name) (l : List Stmt) (m : List Bool) :
    ∀ v ∈ t, v ∈ (closurePass strict t l m).1 := by
  induction l generalizing t m with
  | nil => intro v hv; simpa [closurePass] using hv
  | cons s l ih =>
    intro v hv
    unfold closurePass
    split
    · exact ih _ _ v hv
    · split
      · exact ih _ _ v (mem_taintAdd.2 (Or.inl hv))
      · exact ih _ _ v hv

theorem closurePass_remOK (strict : Bool) (t : List Name) (l : List Stmt) (m : List Bool)
    (h : remOK t l m) : remOK (closurePass strict t l m).1 l (closurePass strict t l m).2.1 := by
  induction l generalizing t m with
  | nil => trivial
  | cons s l ih =>
    obtain ⟨h1, h2⟩ := h
    unfold closurePass
    split
    · rename_i hm
      exact ⟨fun _ v hv => closurePass_taint_mono _ _ _ _ v (h1 hm v hv), ih _ _ h2⟩
    · split
      · refine ⟨fun _ v hv => closurePass_taint_mono _ _ _ _ v (mem_taintAdd.2 (Or.inr hv)), ih _ _ ?_⟩
        exact remOK_mono (fun v hv => mem_taintAdd.2 (Or.inl hv)) h2
      · exact ⟨by simp, ih _ _ h2⟩

theorem usesAny_false {s : Stmt} {t : List Name} (h : ¬ usesAny s t = true) : ∀ u ∈ s.uses, u ∉ t := by
  intro u hu hm
  apply h
  simp only [usesAny, List.any_eq_true, decide_eq_true_eq]
  exact ⟨u, hu, hm⟩

/-- a sweep that reports `changed = False` left the tainted names alone and found no reader of them -/
theorem closurePass_fix (strict : Bool) (t : List Name) (l : List Stmt) (m : List Bool)
    (h : (closurePass strict t l m).2.2 = false) :
    (closurePass strict t l m).1 = t ∧ keptOK t l (closurePass strict t l m).2.1 := by
  induction l generalizing t m with
  | nil => simp [closurePass, keptOK]
  | cons s l ih =>
    unfold closurePass at h ⊢
    split
    · rename_i hm
      simp only [hm, if_true] at h
      exact ⟨(ih _ _ h).1, by simp, (ih _ _ h).2⟩
    · rename_i hm
      simp only [hm] at h
      split
      · rename_i hu
        simp only [hu, if_true] at h
        cases strict with
        | false => simp at h
        | true =>
          simp at h
          obtain ⟨ht, hrec⟩ := h
          have := ih _ _ hrec
          rw [ht] at this
          rw [ht]
          exact ⟨this.1, by simp, this.2⟩
      · rename_i hu
        simp only [hu] at h
        exact ⟨(ih _ _ h).1, fun _ => usesAny_false hu, (ih _ _ h).2⟩

theorem closurePass_cf (strict : Bool) (t : List Name) (l : List Stmt) (m : List Bool) :
    cf l (closurePass strict t l m).2.1 ≤ cf l m ∧
    ((closurePass strict t l m).2.2 = true → cf l (closurePass strict t l m).2.1 < cf l m) := by
  induction l generalizing t m with
  | nil => simp [closurePass, cf]
  | cons s l ih =>
    unfold closurePass
    split
    · rename_i hm
      have := ih t m.tail
      simp only [cf, hm, List.headD_cons, List.tail_cons, if_true]
      exact ⟨by omega, fun h => by have := this.2 h; omega⟩
    · rename_i hm
      have hmf : m.headD false = false := by simpa using hm
      split
      · have := ih (taintAdd t s.bound) m.tail
        simp only [cf, hmf, List.headD_cons, List.tail_cons, if_true, Bool.false_eq_true, if_false]
        exact ⟨by omega, fun _ => by omega⟩
      · have := ih t m.tail
        simp only [cf, hmf, List.headD_cons, List.tail_cons, Bool.false_eq_true, if_false]
        exact ⟨by omega, fun h => by have := this.2 h; omega⟩

theorem closureLoop_spec (strict : Bool) (fuel : Nat) (t : List Name) (l : List Stmt) (m : List Bool)
    (hf : cf l m < fuel) (hr : remOK t l m) :
    ∃ T m', closureLoop strict fuel t l m = some (T, m') ∧ remOK T l m' ∧ keptOK T l m' ∧
      ∀ v ∈ t, v ∈ T := by
  induction fuel generalizing t m with
  | zero => omega
  | succ fuel ih =>
    unfold closureLoop
    have hcf := closurePass_cf strict t l m
    have hrem := closurePass_remOK strict t l m hr
    have hmono := closurePass_taint_mono strict t l m
    cases hc : (closurePass strict t l m).2.2 with
    | true =>
      simp only [hc, if_true]
      obtain ⟨T, m', h1, h2, h3, h4⟩ := ih _ _ (by have := hcf.2 hc; omega) hrem
      exact ⟨T, m', h1, h2, h3, fun v hv => h4 v (hmono v hv)⟩
    | false =>
      simp only [hc, Bool.false_eq_true, if_false]
      have hfix := closurePass_fix strict t l m hc
      refine ⟨_, _, rfl, hrem, ?_, hmono⟩
      rw [hfix.1]; exact hfix.2

theorem closedD_of {D T : List Name} {l : List Stmt} {m : List Bool} (hD : ∀ v ∈ D, v ∈ T)
    (hr : remOK T l m) (hk : keptOK T l m) : closedD D l m := by
  induction l generalizing D m with
  | nil => trivial
  | cons s l ih =>
    unfold closedD
    split
    · rename_i hm
      refine ih ?_ hr.2 hk.2
      intro v hv
      rcases List.mem_append.1 hv with hv | hv
      · exact hD v hv
      · exact hr.1 hm v (by simpa [Option.mem_toList] using hv)
    · rename_i hm
      exact ⟨fun u hu hd => hk.1 (by simpa using hm) u hu (hD u hd), ih hD hr.2 hk.2⟩

theorem closedD_prefix (l1 l2 : List Stmt) (m2 : List Bool) (h : closedD [] l2 m2) :
    closedD [] (l1 ++ l2) (List.replicate l1.length false ++ m2) := by
  induction l1 with
  | nil => simpa using h
  | cons s l1 ih =>
    simp only [List.cons_append, List.length_cons, List.replicate_succ]
    unfold closedD
    simp only [List.headD_cons, Bool.false_eq_true, if_false, List.tail_cons]
    exact ⟨by simp, ih⟩

/-- The closure computation never runs out of fuel, and the mask it returns is closed. -/
theorem closureMask_spec (strict : Bool) (l : List Stmt) (index : Nat) (hi : index < l.length) :
    ∃ m, closureMask strict l index = some m ∧ closedD [] l m := by
  unfold closureMask
  rw [List.getElem?_eq_getElem hi]
  simp only
  obtain ⟨T, m', h1, h2, h3, h4⟩ := closureLoop_spec strict ((l.drop (index + 1)).length + 1)
    (taintAdd [] l[index].bound) (l.drop (index + 1)) [] (by rw [cf_nil_mask]; omega) (remOK_nil_mask _ _)
  rw [h1]
  refine ⟨_, rfl, ?_⟩
  have hsplit : l = l.take index ++ l[index] :: l.drop (index + 1) := by
    rw [← List.drop_eq_getElem_cons hi, List.take_append_drop]
  have hlen : (l.take index).length = index := by simp; omega
  have := closedD_prefix (l.take index) (l[index] :: l.drop (index + 1)) (true :: m') (by
    unfold closedD
    simp only [List.headD_cons, if_true, List.tail_cons, List.nil_append]
    refine closedD_of ?_ h2 h3
    intro v hv
    exact h4 v (mem_taintAdd.2 (Or.inr (by simpa [Option.mem_toList] using hv))))
  rw [← hsplit, hlen] at this
  exact this

theorem closureMask_none (strict : Bool) (l : List Stmt) (index : Nat) (hi : ¬ index < l.length) :
    closureMask strict l index = none := by
  unfold closureMask
  rw [List.getElem?_eq_none (by omega)]

/-! ### `remove_unused_variables` -/

theorem boundNames_ruGo_sublist (l : List Stmt) : (boundNames (ruGo l).2).Sublist (boundNames l) := by
  induction l with
  | nil => simp [ruGo]
  | cons s rest ih =>
    simp only [ruGo]
    cases hb : s.bound with
    | none =>
      simp only [boundNames_cons, hb]
      exact List.Sublist.append_left ih _
    | some bv =>
      simp only
      split
      · simp only [boundNames_cons, hb]
        exact List.Sublist.append_left ih _
      · split
        · simp only [boundNames_cons, hb, Stmt.unbound, Option.toList_none, List.nil_append]
          exact ih.trans (List.sublist_append_right _ _)
        · simp only [boundNames_cons, hb]
          exact List.Sublist.append_left ih _

/-- liveness: a name dropped from the bound set (`bs` to `bs'`) must not be alive -/
theorem readsOK_ruGo {l : List Stmt} {bs bs' : List Name} (h : readsOK bs l)
    (hb : ∀ v ∈ bs, v ∈ bs' ∨ v ∉ (ruGo l).1) : readsOK bs' (ruGo l).2 := by
  induction l generalizing bs bs' with
  | nil => simp [ruGo, readsOK]
  | cons s rest ih =>
    obtain ⟨h1, h2⟩ := h
    simp only [ruGo] at hb ⊢
    cases hbd : s.bound with
    | none =>
      simp only [hbd] at hb h2 ⊢
      refine ⟨?_, ih h2 ?_⟩
      · intro u hu hv
        rcases hb u (h1 u hu hv) with h | h
        · exact h
        · exact absurd (List.mem_append.2 (Or.inr hu)) h
      · intro v hv
        simp only [hbd, Option.toList_none, List.append_nil] at hv ⊢
        rcases hb v hv with h | h
        · exact Or.inl h
        · exact Or.inr (fun hm => h (List.mem_append.2 (Or.inl hm)))
    | some bv =>
      simp only [hbd] at hb h2 ⊢
      by_cases hal : bv ∈ (ruGo rest).1
      · simp only [hal, if_true] at hb ⊢
        refine ⟨?_, ih h2 ?_⟩
        · intro u hu hv
          rcases hb u (h1 u hu hv) with h | h
          · exact h
          · exact absurd (List.mem_append.2 (Or.inr hu)) h
        · intro v hv
          simp only [hbd, Option.toList_some] at hv ⊢
          rcases List.mem_append.1 hv with hv | hv
          · rcases hb v hv with h | h
            · exact Or.inl (List.mem_append.2 (Or.inl h))
            · by_cases hvb : v = bv
              · exact Or.inl (List.mem_append.2 (Or.inr (by simp [hvb])))
              · refine Or.inr (fun hm => h (List.mem_append.2 (Or.inl ?_)))
                simp [List.mem_filter, hm, hvb]
          · exact Or.inl (List.mem_append.2 (Or.inr hv))
      · simp only [hal, if_false] at hb ⊢
        by_cases hsa : s.simpleAssign = true
        · simp only [hsa, if_true]
          refine ⟨?_, ih h2 ?_⟩
          · intro u hu hv
            simp only [Stmt.unbound] at hu
            rcases hb u (h1 u hu hv) with h | h
            · exact h
            · exact absurd (List.mem_append.2 (Or.inr hu)) h
          · intro v hv
            simp only [Stmt.unbound, Option.toList_none, List.append_nil]
            rcases List.mem_append.1 hv with hv | hv
            · rcases hb v hv with h | h
              · exact Or.inl h
              · exact Or.inr (fun hm => h (List.mem_append.2 (Or.inl hm)))
            · simp at hv
              subst hv
              exact Or.inr hal
        · simp only [hsa, Bool.false_eq_true, if_false]
          refine ⟨?_, ih h2 ?_⟩
          · intro u hu hv
            rcases hb u (h1 u hu hv) with h | h
            · exact h
            · exact absurd (List.mem_append.2 (Or.inr hu)) h
          · intro v hv
            simp only [hbd, Option.toList_some] at hv ⊢
            rcases List.mem_append.1 hv with hv | hv
            · rcases hb v hv with h | h
              · exact Or.inl (List.mem_append.2 (Or.inl h))
              · exact Or.inr (fun hm => h (List.mem_append.2 (Or.inl hm)))
            · exact Or.inl (List.mem_append.2 (Or.inr hv))

theorem WF.removeUnused {tc : TC} (h : WF tc) : WF tc.removeUnused := by
  have hsub := boundNames_ruGo_sublist tc.stmts
  exact WF.withStmts (readsOK_ruGo h.reads (by simp)) (h.nodup.sublist hsub)
    (fun v hv => h.fresh v (hsub.subset hv))

end PynguinModel.TestCase
