import PynguinModel.Model.AssertFilter
import PynguinModel.Lemmas.SetCover
/-! Helper lemmas for `Model/AssertFilter.lean` (C21: `__remove_non_holding_assertions`). -/
namespace PynguinModel.AssertFilter
open PynguinModel.SetCover

theorem mem_osUpdate (xs : List Nat) : ∀ (acc : List Nat) (y : Nat),
    y ∈ osUpdate acc xs ↔ y ∈ acc ∨ y ∈ xs := by
  induction xs with
  | nil => intro acc y; simp [osUpdate]
  | cons x xs ih =>
    intro acc y
    unfold osUpdate
    split
    · rename_i hx
      rw [ih]
      constructor
      · rintro (h | h)
        · exact Or.inl h
        · exact Or.inr (List.mem_cons_of_mem _ h)
      · rintro (h | h)
        · exact Or.inl h
        · rcases List.mem_cons.1 h with h | h
          · exact Or.inl (h ▸ hx)
          · exact Or.inr h
    · rw [ih]
      simp [or_assoc]

theorem nodup_osUpdate (xs : List Nat) : ∀ (acc : List Nat), acc.Nodup → (osUpdate acc xs).Nodup := by
  induction xs with
  | nil => intro acc h; simpa [osUpdate] using h
  | cons x xs ih =>
    intro acc h
    unfold osUpdate
    split
    · exact ih acc h
    · rename_i hx
      apply ih
      rw [List.nodup_append]
      refine ⟨h, by simp, ?_⟩
      intro a ha b hb
      rw [List.mem_singleton] at hb
      subst hb
      intro hab
      exact hx (hab ▸ ha)

theorem mem_toDelete (t : VTrace) (idx y : Nat) :
    y ∈ toDelete t idx ↔ y ∈ dictGet t.failed idx ∨ y ∈ dictGet t.error idx := by
  unfold toDelete
  rw [mem_osUpdate, mem_osUpdate]
  simp

theorem nodup_toDelete (t : VTrace) (idx : Nat) : (toDelete t idx).Nodup := by
  unfold toDelete
  exact nodup_osUpdate _ _ (nodup_osUpdate _ _ List.nodup_nil)

theorem perm_insertSorted {α} (le : α → α → Bool) (x : α) (l : List α) :
    (insertSorted le x l).Perm (x :: l) := by
  induction l with
  | nil => simp [insertSorted]
  | cons y ys ih =>
    unfold insertSorted
    split
    · exact List.Perm.refl _
    · exact (List.Perm.cons y ih).trans (List.Perm.swap x y ys)

theorem perm_isort {α} (le : α → α → Bool) (l : List α) : (isort le l).Perm l := by
  unfold isort
  induction l with
  | nil => simp
  | cons z zs ih =>
    rw [List.foldr_cons]
    exact (perm_insertSorted le z _).trans (List.Perm.cons z ih)

/-- The removal loop: for a duplicate-free snapshot and duplicate-free valid positions whose values
are all still in the list, the loop ends normally, keeps a sublist, and removes exactly the values
the snapshot has at the given positions — in whatever order the positions come. -/
theorem removeKeys_spec {α} [DecidableEq α] (snap : List α) (hs : snap.Nodup) :
    ∀ (ps : List Nat) (cur : List α), cur.Nodup → ps.Nodup →
      (∀ p ∈ ps, ∃ h : p < snap.length, snap[p] ∈ cur) →
      ∃ kept, removeKeys snap cur ps = some kept ∧ kept.Sublist cur ∧
        ∀ a, a ∈ kept ↔ a ∈ cur ∧ ∀ p ∈ ps, snap[p]? ≠ some a := by
  intro ps
  induction ps with
  | nil => intro cur _ _ _; exact ⟨cur, rfl, List.Sublist.refl _, by simp⟩
  | cons p ps ih =>
    intro cur hc hps hin
    obtain ⟨hp, hmem⟩ := hin p List.mem_cons_self
    have hpn : p ∉ ps := (List.nodup_cons.1 hps).1
    have hin' : ∀ q ∈ ps, ∃ h : q < snap.length, snap[q] ∈ cur.erase snap[p] := by
      intro q hq
      obtain ⟨hql, hqm⟩ := hin q (List.mem_cons_of_mem _ hq)
      refine ⟨hql, ?_⟩
      rw [List.Nodup.mem_erase_iff hc]
      refine ⟨?_, hqm⟩
      intro heq
      have : q = p := (List.getElem_inj hs).1 heq
      exact hpn (this ▸ hq)
    obtain ⟨kept, hk, hsub, hspec⟩ := ih (cur.erase snap[p]) (hc.erase _) (List.nodup_cons.1 hps).2 hin'
    refine ⟨kept, ?_, hsub.trans List.erase_sublist, ?_⟩
    · unfold removeKeys
      rw [List.getElem?_eq_getElem hp]
      simp only [hmem, if_true]
      exact hk
    · intro a
      rw [hspec, List.Nodup.mem_erase_iff hc]
      constructor
      · rintro ⟨⟨hne, hac⟩, hall⟩
        refine ⟨hac, ?_⟩
        intro q hq
        rcases List.mem_cons.1 hq with rfl | hq
        · rw [List.getElem?_eq_getElem hp]
          intro h
          exact hne (Option.some.inj h).symm
        · exact hall q hq
      · rintro ⟨hac, hall⟩
        refine ⟨⟨?_, hac⟩, fun q hq => hall q (List.mem_cons_of_mem _ hq)⟩
        intro h
        have := hall p List.mem_cons_self
        rw [List.getElem?_eq_getElem hp] at this
        exact this (by rw [h])

/-- One statement: exactly the assertions at the positions in `del` disappear, order preserved. -/
theorem removeStmt_spec {α} [DecidableEq α] (st : List α) (hs : st.Nodup) (del : List Nat)
    (hd : del.Nodup) (hr : ∀ p ∈ del, p < st.length) :
    ∃ kept, removeStmt st del = some kept ∧ kept.Sublist st ∧
      ∀ i (h : i < st.length), st[i] ∈ kept ↔ i ∉ del := by
  have hperm := perm_isort geB del
  obtain ⟨kept, hk, hsub, hspec⟩ := removeKeys_spec st hs (sortedDesc del) st hs
    (hperm.nodup_iff.2 hd)
    (fun p hp => ⟨hr p (hperm.mem_iff.1 hp), List.getElem_mem _⟩)
  refine ⟨kept, hk, hsub, ?_⟩
  intro i hi
  rw [hspec]
  constructor
  · rintro ⟨_, hall⟩ hid
    exact hall i (hperm.mem_iff.2 hid) (List.getElem?_eq_getElem hi)
  · intro hid
    refine ⟨List.getElem_mem _, ?_⟩
    intro p hp heq
    have hpl : p < st.length := hr p (hperm.mem_iff.1 hp)
    rw [List.getElem?_eq_getElem hpl] at heq
    have : p = i := (List.getElem_inj hs).1 (Option.some.inj heq)
    exact hid (this ▸ hperm.mem_iff.1 hp)

/-- The statement loop: every statement is filtered by its own `to_delete`, nothing else changes. -/
theorem removeNonHoldingFrom_spec {α} [DecidableEq α] (t : VTrace) :
    ∀ (test : List (List α)) (idx : Nat), (∀ st ∈ test, st.Nodup) →
      (∀ k (h : k < test.length) p, p ∈ toDelete t (idx + k) → p < test[k].length) →
      ∃ out, removeNonHoldingFrom t idx test = some out ∧ out.length = test.length ∧
        ∀ k (h : k < test.length) (h' : k < out.length), out[k].Sublist test[k] ∧
          ∀ i (hi : i < test[k].length), test[k][i] ∈ out[k] ↔ i ∉ toDelete t (idx + k) := by
  intro test
  induction test with
  | nil => intro idx _ _; exact ⟨[], rfl, rfl, fun k h => absurd h (Nat.not_lt_zero k)⟩
  | cons st rest ih =>
    intro idx hs hr
    obtain ⟨st', h1, h2, h3⟩ := removeStmt_spec st (hs st List.mem_cons_self) (toDelete t idx)
      (nodup_toDelete t idx) (fun p hp => hr 0 (Nat.zero_lt_succ _) p (by simpa using hp))
    obtain ⟨rest', r1, r2, r3⟩ := ih (idx + 1) (fun s hsm => hs s (List.mem_cons_of_mem _ hsm))
      (fun k hk p hp => by
        have e : idx + 1 + k = idx + (k + 1) := by omega
        rw [e] at hp
        have := hr (k + 1) (Nat.succ_lt_succ hk) p hp
        simpa using this)
    refine ⟨st' :: rest', ?_, by simp [r2], ?_⟩
    · unfold removeNonHoldingFrom
      rw [h1, r1]
    · intro k hk hk'
      cases k with
      | zero => exact ⟨by simpa using h2, fun i hi => by simpa using h3 i hi⟩
      | succ k =>
        have hk2 : k < rest.length := Nat.lt_of_succ_lt_succ hk
        have hk3 : k < rest'.length := by rw [r2]; exact hk2
        have e : idx + 1 + k = idx + (k + 1) := by omega
        obtain ⟨q1, q2⟩ := r3 k hk2 hk3
        rw [e] at q2
        exact ⟨by simpa using q1, fun i hi => by simpa using q2 i (by simpa using hi)⟩

end PynguinModel.AssertFilter
