import PynguinModel.Lemmas.TestCase
/-!
C15 helper lemmas: `append_test_case_from` / `_resolve_head_references` keep a test case well-formed.
-/
namespace PynguinModel.TestCase

theorem dlookup_cons {β : Type} (k : Name) (v : β) (d : List (Name × β)) (n : Name) :
    dlookup ((k, v) :: d) n = if k = n then some v else dlookup d n := rfl

/-- every rename target is a name bound in the receiving test case -/
def ValsIn (rn : List (Name × Name)) (l : List Stmt) : Prop :=
  ∀ k v, dlookup rn k = some v → v ∈ boundNames l

theorem ValsIn.mono {rn : List (Name × Name)} {l l' : List Stmt} (h : ValsIn rn l)
    (hs : ∀ v ∈ boundNames l, v ∈ boundNames l') : ValsIn rn l' :=
  fun k v hk => hs v (h k v hk)

theorem mem_pick {cands : List Name} (r : Nat) (h : cands.isEmpty = false) : pick cands r ∈ cands := by
  unfold pick
  have hpos : 0 < cands.length := by
    cases cands with
    | nil => simp at h
    | cons a l => simp
  have hlt : r % cands.length < cands.length := Nat.mod_lt _ hpos
  rw [List.getD_eq_getElem?_getD, List.getElem?_eq_getElem hlt]
  simp

theorem resolveHead_spec {tc : TC} (hwf : WF tc) (head : List (Name × Option Ty)) (dropped : List Name)
    (ns : List Name) (rn : List (Name × Name)) (ch : List Nat) (hv : ValsIn rn tc.stmts) :
    let r := resolveHead tc head dropped ns rn ch
    ValsIn r.2.1 tc.stmts ∧
    (∀ k, (dlookup rn k).isSome → (dlookup r.2.1 k).isSome) ∧
    (r.1 = true → ∀ n ∈ ns, n ∉ dropped ∧ ((dlookup r.2.1 n).isSome ∨ dlookup head n = none)) := by
  induction ns generalizing rn ch with
  | nil => simp [resolveHead, hv]
  | cons n ns ih =>
    simp only [resolveHead]
    by_cases hd : n ∈ dropped
    · simp [hd, hv]
    · simp only [hd, if_false]
      by_cases hs : (dlookup rn n).isSome
      · simp only [hs, if_true]
        obtain ⟨i1, i2, i3⟩ := ih rn ch hv
        refine ⟨i1, i2, fun hr m hm => ?_⟩
        rcases List.mem_cons.1 hm with hm | hm
        · subst hm; exact ⟨hd, Or.inl (i2 _ hs)⟩
        · exact i3 hr m hm
      · simp only [hs, Bool.false_eq_true, if_false]
        cases hh : dlookup head n with
        | none =>
          simp only
          obtain ⟨i1, i2, i3⟩ := ih rn ch hv
          refine ⟨i1, i2, fun hr m hm => ?_⟩
          rcases List.mem_cons.1 hm with hm | hm
          · subst hm; exact ⟨hd, Or.inr hh⟩
          · exact i3 hr m hm
        | some ht =>
          simp only
          by_cases hc : (tc.candidates ht).isEmpty = true
          · simp [hc, hv]
          · simp only [hc, Bool.false_eq_true, if_false]
            have hc' : (tc.candidates ht).isEmpty = false := by simpa using hc
            have hpick := mem_pick (ch.headD 0) hc'
            have hbound : pick (tc.candidates ht) (ch.headD 0) ∈ boundNames tc.stmts := by
              cases ht with
              | none => simp [TC.candidates] at hc'
              | some t => exact hwf.mem_variablesOfType hpick
            have hv' : ValsIn ((n, pick (tc.candidates ht) (ch.headD 0)) :: rn) tc.stmts := by
              intro k v hk
              rw [dlookup_cons] at hk
              split at hk
              · injection hk with hk; rw [← hk]; exact hbound
              · exact hv k v hk
            obtain ⟨i1, i2, i3⟩ := ih _ ch.tail hv'
            refine ⟨i1, fun k hk => i2 k ?_, fun hr m hm => ?_⟩
            · rw [dlookup_cons]; split <;> simp [hk]
            · rcases List.mem_cons.1 hm with hm | hm
              · subst hm
                exact ⟨hd, Or.inl (i2 _ (by rw [dlookup_cons]; simp))⟩
              · exact i3 hr m hm

/-- Loop invariant of `append_test_case_from`; `bsO` = names bound by `other` so far (head + processed tail). -/
structure AppInv (head : List (Name × Option Ty)) (bsO : List Name) (st : AppState) : Prop where
  wf : WF st.tc
  vals : ValsIn st.rename st.tc.stmts
  cover : ∀ v ∈ bsO, (dlookup st.rename v).isSome ∨ (dlookup head v).isSome ∨ v ∈ st.dropped

theorem renamed_read_bound {head : List (Name × Option Ty)} {bsO : List Name} {st : AppState} {s : Stmt}
    (inv : AppInv head bsO st) (hreads : ∀ u ∈ s.uses, u.isVar = true → u ∈ bsO)
    (hr1 : (resolveHead st.tc head st.dropped s.uses st.rename st.draws).1 = true)
    (extra : List (Name × Name))
    (hextra : ∀ u ∈ s.uses, dlookup (extra ++ (resolveHead st.tc head st.dropped s.uses st.rename st.draws).2.1) u
      = dlookup (resolveHead st.tc head st.dropped s.uses st.rename st.draws).2.1 u) :
    ∀ u' ∈ s.uses.map (renameName (extra ++ (resolveHead st.tc head st.dropped s.uses st.rename st.draws).2.1)),
      u'.isVar = true → u' ∈ boundNames st.tc.stmts := by
  obtain ⟨i1, i2, i3⟩ := resolveHead_spec inv.wf head st.dropped s.uses st.rename st.draws inv.vals
  intro u' hu' hvar
  obtain ⟨u, hu, rfl⟩ := List.mem_map.1 hu'
  unfold renameName at hvar ⊢
  rw [hextra u hu] at hvar ⊢
  cases hl : dlookup (resolveHead st.tc head st.dropped s.uses st.rename st.draws).2.1 u with
  | some v => simpa [hl] using i1 u v hl
  | none =>
    simp only [hl, Option.getD_none] at hvar ⊢
    obtain ⟨j1, j2⟩ := i3 hr1 u hu
    rcases inv.cover u (hreads u hu hvar) with h | h | h
    · have := i2 u h; simp [hl] at this
    · rcases j2 with j2 | j2
      · simp [hl] at j2
      · simp [j2] at h
    · exact absurd h j1

theorem appendStep_inv {head : List (Name × Option Ty)} {bsO : List Name} {st : AppState} {s : Stmt}
    (inv : AppInv head bsO st) (hreads : ∀ u ∈ s.uses, u.isVar = true → u ∈ bsO)
    (hnew : ∀ v, s.bound = some v → v ∉ bsO ∧ v.isVar = true) :
    AppInv head (bsO ++ s.bound.toList) (appendStep head st s) := by
  obtain ⟨i1, i2, i3⟩ := resolveHead_spec inv.wf head st.dropped s.uses st.rename st.draws inv.vals
  cases hr1 : (resolveHead st.tc head st.dropped s.uses st.rename st.draws).1 with
  | false =>
    cases hb : s.bound with
    | none =>
      simp only [appendStep, hr1, hb, Bool.false_eq_true, if_false, Option.toList_none, List.append_nil]
      exact ⟨inv.wf, i1, fun v hv => by
        rcases inv.cover v hv with h | h | h
        · exact Or.inl (i2 v h)
        · exact Or.inr (Or.inl h)
        · exact Or.inr (Or.inr h)⟩
    | some bv =>
      simp only [appendStep, hr1, hb, Bool.false_eq_true, if_false, Option.toList_some]
      refine ⟨inv.wf, i1, fun v hv => ?_⟩
      rcases List.mem_append.1 hv with hv | hv
      · rcases inv.cover v hv with h | h | h
        · exact Or.inl (i2 v h)
        · exact Or.inr (Or.inl h)
        · exact Or.inr (Or.inr (List.mem_cons_of_mem _ h))
      · simp at hv; subst hv
        exact Or.inr (Or.inr (by simp))
  | true =>
    cases hb : s.bound with
    | none =>
      simp only [appendStep, hr1, hb, if_true, Option.toList_none, List.append_nil]
      have hrd := renamed_read_bound inv hreads hr1 [] (by simp)
      simp only [List.nil_append] at hrd
      refine ⟨?_, ?_, ?_⟩
      · apply inv.wf.add
        refine ⟨?_, by simp, by simp⟩
        intro u hu hv
        rw [List.take_length]
        exact hrd u hu hv
      · intro k v hk
        have := i1 k v hk
        simp only [TC.add, boundNames_append]
        exact List.mem_append.2 (Or.inl this)
      · intro v hv
        rcases inv.cover v hv with h | h | h
        · exact Or.inl (i2 v h)
        · exact Or.inr (Or.inl h)
        · exact Or.inr (Or.inr h)
    | some bv =>
      simp only [appendStep, hr1, hb, if_true, Option.toList_some]
      have hbv := hnew bv hb
      have hrd := renamed_read_bound inv hreads hr1 [(bv, st.tc.nextVar.1)] (by
        intro u hu
        simp only [List.singleton_append, dlookup_cons]
        split
        · rename_i he
          subst he
          exact absurd (hreads bv hu hbv.2) hbv.1
        · rfl)
      simp only [List.singleton_append] at hrd
      refine ⟨?_, ?_, ?_⟩
      · apply (inv.wf.nextVar).add
        refine ⟨?_, ?_, ?_⟩
        · intro u hu hv
          rw [List.take_length]
          exact hrd u hu hv
        · intro v hv
          simp only [Option.some.injEq] at hv
          subst hv
          exact inv.wf.counter_fresh
        · intro v hv
          simp only [Option.some.injEq] at hv
          subst hv
          exact ⟨st.tc.counter, rfl, Nat.lt_succ_self _⟩
      · intro k v hk
        simp only [TC.add, TC.nextVar, boundNames_append, boundNames_cons, boundNames_nil,
          Option.toList_some, List.append_nil]
        rw [dlookup_cons] at hk
        split at hk
        · injection hk with hk
          exact List.mem_append.2 (Or.inr (by simp [← hk, TC.nextVar]))
        · exact List.mem_append.2 (Or.inl (i1 k v hk))
      · intro v hv
        rw [dlookup_cons]
        rcases List.mem_append.1 hv with hv | hv
        · rcases inv.cover v hv with h | h | h
          · refine Or.inl ?_
            split
            · rfl
            · exact i2 v h
          · exact Or.inr (Or.inl h)
          · exact Or.inr (Or.inr h)
        · simp at hv; subst hv
          simp

theorem foldl_appendStep_inv {head : List (Name × Option Ty)} (tail : List Stmt) :
    ∀ (bsO : List Name) (st : AppState), AppInv head bsO st → readsOK bsO tail →
      (bsO ++ boundNames tail).Nodup → (∀ v ∈ boundNames tail, v.isVar = true) →
      AppInv head (bsO ++ boundNames tail) (tail.foldl (appendStep head) st) := by
  induction tail with
  | nil => intro bsO st inv _ _ _; simpa using inv
  | cons s rest ih =>
    intro bsO st inv hr hn hv
    obtain ⟨h1, h2⟩ := hr
    rw [boundNames_cons] at hn hv ⊢
    rw [← List.append_assoc] at hn ⊢
    have hnew : ∀ v, s.bound = some v → v ∉ bsO ∧ v.isVar = true := by
      intro v hb
      refine ⟨fun hm => ?_, hv v (by simp [hb])⟩
      have hd := (List.nodup_append.1 (List.nodup_append.1 hn).1).2.2
      exact hd v hm v (by simp [hb]) rfl
    simp only [List.foldl_cons]
    exact ih _ _ (appendStep_inv inv h1 hnew) h2 hn
      (fun v hm => hv v (List.mem_append.2 (Or.inr hm)))

theorem headTypes_isSome (head : List Stmt) (v : Name) (acc : List (Name × Option Ty))
    (h : v ∈ boundNames head ∨ (dlookup acc v).isSome) :
    (dlookup (head.foldl (fun d s => match s.bound with | some v => (v, s.btype) :: d | none => d) acc) v).isSome := by
  induction head generalizing acc with
  | nil => simpa using h
  | cons s rest ih =>
    simp only [List.foldl_cons]
    apply ih
    rw [boundNames_cons] at h
    rcases h with h | h
    · rcases List.mem_append.1 h with h | h
      · cases hb : s.bound with
        | none => simp [hb] at h
        | some w =>
          simp [hb] at h
          subst h
          exact Or.inr (by simp [dlookup_cons])
      · exact Or.inl h
    · refine Or.inr ?_
      cases hb : s.bound with
      | none => simpa using h
      | some w =>
        simp only [dlookup_cons]
        split
        · rfl
        · exact h

/-- `append_test_case_from` keeps the receiver well-formed for every well-formed `other`, every start
index and every outcome of the random choices. -/
theorem WF.appendFrom {tc : TC} (h : WF tc) {other : List Stmt} (hor : readsOK [] other)
    (hon : (boundNames other).Nodup) (hov : ∀ v ∈ boundNames other, v.isVar = true)
    (start : Nat) (draws : List Nat) : WF (tc.appendFrom other start draws) := by
  unfold TC.appendFrom
  have hsplit : other.take start ++ other.drop start = other := List.take_append_drop start other
  rw [← hsplit] at hor hon hov
  rw [readsOK_append] at hor
  rw [boundNames_append] at hon hov
  have inv0 : AppInv (headTypes (other.take start)) ([] ++ boundNames (other.take start)) ⟨tc, [], [], draws⟩ :=
    ⟨h, fun k v hk => by simp [dlookup] at hk, fun v hv =>
      Or.inr (Or.inl (headTypes_isSome _ v [] (Or.inl (by simpa using hv))))⟩
  exact (foldl_appendStep_inv (other.drop start) _ _ inv0 hor.2 (by simpa using hon)
    (fun v hm => hov v (List.mem_append.2 (Or.inr hm)))).wf

end PynguinModel.TestCase
