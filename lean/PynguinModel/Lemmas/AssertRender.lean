import PynguinModel.Model.AssertRender
import PynguinModel.Lemmas.Literals
/-!
Helper lemmas for C20: the value predicates used as hypotheses, evaluation of a rendered value,
reflexivity of the abstract `==`, validity of rendered values and type expressions.
-/
namespace PynguinModel.AssertRender
open PynguinModel.Literals

/-! ## Predicates on values -/

mutual
/-- No NaN anywhere (`float` or a component of a `complex`). -/
def AVal.nanFree : AVal → Bool
  | .float f => !f.isNan
  | .complex re im => !re.isNan && !im.isNan
  | .list xs | .tuple xs | .set xs => nanFreeList xs
  | .dict kvs => nanFreePairs kvs
  | _ => true
def nanFreeList : List AVal → Bool
  | [] => true
  | x :: xs => x.nanFree && nanFreeList xs
def nanFreePairs : List (AVal × AVal) → Bool
  | [] => true
  | (k, v) :: kvs => k.nanFree && v.nanFree && nanFreePairs kvs
end

mutual
/-- Every enum member inside the value has non-empty names and its class is bound (by its bare
name) in the namespace the assertion is evaluated in. -/
def AVal.enumsOk (bound : List String) : AVal → Bool
  | .enum cls member => decide (cls ∈ bound) && cls != "" && member != ""
  | .list xs | .tuple xs | .set xs => enumsOkList bound xs
  | .dict kvs => enumsOkPairs bound kvs
  | _ => true
def enumsOkList (bound : List String) : List AVal → Bool
  | [] => true
  | x :: xs => x.enumsOk bound && enumsOkList bound xs
def enumsOkPairs (bound : List String) : List (AVal × AVal) → Bool
  | [] => true
  | (k, v) :: kvs => k.enumsOk bound && v.enumsOk bound && enumsOkPairs bound kvs
end

mutual
/-- No opaque object inside (everything has a literal rendering). -/
def AVal.noOpaque : AVal → Bool
  | .obj _ _ => false
  | .list xs | .tuple xs | .set xs => noOpaqueList xs
  | .dict kvs => noOpaquePairs kvs
  | _ => true
def noOpaqueList : List AVal → Bool
  | [] => true
  | x :: xs => x.noOpaque && noOpaqueList xs
def noOpaquePairs : List (AVal × AVal) → Bool
  | [] => true
  | (k, v) :: kvs => k.noOpaque && v.noOpaque && noOpaquePairs kvs
end

mutual
theorem noOpaque_of_isAssertable : ∀ (d : Nat) (v : AVal), isAssertable d v = true → v.noOpaque = true
  | _, .none, _ | _, .bool _, _ | _, .int _, _ | _, .complex _ _, _ | _, .str _, _ | _, .bytes _, _
  | _, .enum _ _, _ => by simp [AVal.noOpaque]
  | _, .float _, h => by simp [isAssertable] at h
  | _, .obj _ _, h => by simp [isAssertable] at h
  | d, .list xs, h => by
      simp only [isAssertable, Bool.and_eq_true] at h
      simpa [AVal.noOpaque] using noOpaqueList_of_isAssertable (d + 1) xs h.2
  | d, .tuple xs, h => by
      simp only [isAssertable, Bool.and_eq_true] at h
      simpa [AVal.noOpaque] using noOpaqueList_of_isAssertable (d + 1) xs h.2
  | d, .set xs, h => by
      simp only [isAssertable, Bool.and_eq_true] at h
      simpa [AVal.noOpaque] using noOpaqueList_of_isAssertable (d + 1) xs h.2
  | d, .dict kvs, h => by
      simp only [isAssertable, Bool.and_eq_true] at h
      simpa [AVal.noOpaque] using noOpaquePairs_of_isAssertable (d + 1) kvs h.2
theorem noOpaqueList_of_isAssertable : ∀ (d : Nat) (xs : List AVal),
    isAssertableList d xs = true → noOpaqueList xs = true
  | _, [], _ => by simp [noOpaqueList]
  | d, x :: xs, h => by
      simp only [isAssertableList, Bool.and_eq_true] at h
      simp [noOpaqueList, noOpaque_of_isAssertable d x h.1, noOpaqueList_of_isAssertable d xs h.2]
theorem noOpaquePairs_of_isAssertable : ∀ (d : Nat) (kvs : List (AVal × AVal)),
    isAssertablePairs d kvs = true → noOpaquePairs kvs = true
  | _, [], _ => by simp [noOpaquePairs]
  | d, (k, v) :: kvs, h => by
      simp only [isAssertablePairs, Bool.and_eq_true] at h
      simp [noOpaquePairs, noOpaque_of_isAssertable d k h.1.1, noOpaque_of_isAssertable d v h.1.2,
        noOpaquePairs_of_isAssertable d kvs h.2]
end

/-! ## Evaluating rendered values -/

theorem aeval_intLiteral (ns : Namespace) (z : Int) : aeval ns (intLiteral z) = some (.int z) := by
  unfold intLiteral
  split
  · simp [aeval, negAVal, ofDigits_toDigits]; omega
  · simp [aeval, ofDigits_toDigits]; omega

/-- A rendered float evaluates to the float itself (NaN: to a NaN; the sign bit of a NaN is not
rendered). -/
theorem aeval_makeFloatLiteral (ns : Namespace) (f : PyFloat) (h : f.isNan = false) :
    aeval ns (makeFloatLiteral f) = some (.float f) := by
  cases f with
  | nan s => simp [PyFloat.isNan] at h
  | inf s => cases s <;>
      simp [makeFloatLiteral, aeval, aevalList, floatOfText, strInf, strNegInf]
  | fin s m => cases s <;> simp [makeFloatLiteral, aeval, negAVal, PyFloat.neg]

theorem aeval_makeFloatLiteral_nan (ns : Namespace) (s : Bool) :
    aeval ns (makeFloatLiteral (.nan s)) = some (.float (.nan false)) := by
  simp [makeFloatLiteral, aeval, aevalList, floatOfText, strInf, strNegInf, strNan]

mutual
theorem aeval_valueToCst (ns : Namespace) : ∀ v : AVal, v.nanFree = true →
    v.enumsOk ns.enumClasses = true → v.noOpaque = true → aeval ns (valueToCst v) = some v
  | .none, _, _, _ => by simp [valueToCst, aeval]
  | .bool b, _, _, _ => by cases b <;> simp [valueToCst, aeval]
  | .int z, _, _, _ => by simpa [valueToCst] using aeval_intLiteral ns z
  | .float f, h, _, _ => by
      simp only [AVal.nanFree, Bool.not_eq_true'] at h
      simpa [valueToCst] using aeval_makeFloatLiteral ns f h
  | .complex re im, h, _, _ => by
      simp only [AVal.nanFree, Bool.and_eq_true, Bool.not_eq_true'] at h
      simp [valueToCst, aeval, aevalList, aeval_makeFloatLiteral ns re h.1,
        aeval_makeFloatLiteral ns im h.2]
  | .str s, _, _, _ => by simp [valueToCst, aeval]
  | .bytes b, _, _, _ => by simp [valueToCst, aeval]
  | .enum cls member, _, h, _ => by
      simp only [AVal.enumsOk, Bool.and_eq_true, decide_eq_true_eq] at h
      simp [valueToCst, aeval, h.1.1]
  | .obj _ _, _, _, h => by simp [AVal.noOpaque] at h
  | .list xs, h1, h2, h3 => by
      simp only [AVal.nanFree] at h1; simp only [AVal.enumsOk] at h2; simp only [AVal.noOpaque] at h3
      simp [valueToCst, aeval, aevalList_valuesToCst ns xs h1 h2 h3]
  | .tuple xs, h1, h2, h3 => by
      simp only [AVal.nanFree] at h1; simp only [AVal.enumsOk] at h2; simp only [AVal.noOpaque] at h3
      simp [valueToCst, aeval, aevalList_valuesToCst ns xs h1 h2 h3]
  | .set xs, h1, h2, h3 => by
      simp only [AVal.nanFree] at h1; simp only [AVal.enumsOk] at h2; simp only [AVal.noOpaque] at h3
      cases xs with
      | nil => simp [valueToCst, aeval, aevalList]
      | cons x xs =>
        have h := aevalList_valuesToCst ns (x :: xs) h1 h2 h3
        simp only [valueToCst, List.isEmpty_cons, Bool.false_eq_true, if_false, aeval]
        simp only [valuesToCst] at h ⊢
        simp [h]
  | .dict kvs, h1, h2, h3 => by
      simp only [AVal.nanFree] at h1; simp only [AVal.enumsOk] at h2; simp only [AVal.noOpaque] at h3
      simp [valueToCst, aeval, aevalPairs_pairsToCst ns kvs h1 h2 h3]
theorem aevalList_valuesToCst (ns : Namespace) : ∀ xs : List AVal, nanFreeList xs = true →
    enumsOkList ns.enumClasses xs = true → noOpaqueList xs = true →
    aevalList ns (valuesToCst xs) = some xs
  | [], _, _, _ => by simp [valuesToCst, aevalList]
  | x :: xs, h1, h2, h3 => by
      simp only [nanFreeList, Bool.and_eq_true] at h1
      simp only [enumsOkList, Bool.and_eq_true] at h2
      simp only [noOpaqueList, Bool.and_eq_true] at h3
      simp [valuesToCst, aevalList, aeval_valueToCst ns x h1.1 h2.1 h3.1,
        aevalList_valuesToCst ns xs h1.2 h2.2 h3.2]
theorem aevalPairs_pairsToCst (ns : Namespace) : ∀ kvs : List (AVal × AVal),
    nanFreePairs kvs = true → enumsOkPairs ns.enumClasses kvs = true → noOpaquePairs kvs = true →
    aevalPairs ns (pairsToCst kvs) = some kvs
  | [], _, _, _ => by simp [pairsToCst, aevalPairs]
  | (k, v) :: kvs, h1, h2, h3 => by
      simp only [nanFreePairs, Bool.and_eq_true] at h1
      simp only [enumsOkPairs, Bool.and_eq_true] at h2
      simp only [noOpaquePairs, Bool.and_eq_true] at h3
      simp [pairsToCst, aevalPairs, aeval_valueToCst ns k h1.1.1 h2.1.1 h3.1.1,
        aeval_valueToCst ns v h1.1.2 h2.1.2 h3.1.2, aevalPairs_pairsToCst ns kvs h1.2 h2.2 h3.2]
end

/-! ## Reflexivity of the abstract `==` on NaN-free values -/

theorem PyFloat.pyEq_self (f : PyFloat) (h : f.isNan = false) : f.pyEq f = true := by
  cases f with
  | nan s => simp [PyFloat.isNan] at h
  | inf s => simp [PyFloat.pyEq]
  | fin s m => simp [PyFloat.pyEq]

mutual
theorem pyEq_self : ∀ v : AVal, v.nanFree = true → v.noOpaque = true → pyEq v v = true
  | .none, _, _ => by simp [pyEq]
  | .bool _, _, _ => by simp [pyEq]
  | .int _, _, _ => by simp [pyEq]
  | .float f, h, _ => by
      simp only [AVal.nanFree, Bool.not_eq_true'] at h
      simpa [pyEq] using PyFloat.pyEq_self f h
  | .complex re im, h, _ => by
      simp only [AVal.nanFree, Bool.and_eq_true, Bool.not_eq_true'] at h
      simp [pyEq, PyFloat.pyEq_self re h.1, PyFloat.pyEq_self im h.2]
  | .str _, _, _ => by simp [pyEq]
  | .bytes _, _, _ => by simp [pyEq]
  | .enum _ _, _, _ => by simp [pyEq]
  | .obj _ _, _, h => by simp [AVal.noOpaque] at h
  | .list xs, h, h' => by
      simp only [AVal.nanFree] at h; simp only [AVal.noOpaque] at h'
      simpa [pyEq] using pyEqList_self xs h h'
  | .tuple xs, h, h' => by
      simp only [AVal.nanFree] at h; simp only [AVal.noOpaque] at h'
      simpa [pyEq] using pyEqList_self xs h h'
  | .set xs, h, h' => by
      simp only [AVal.nanFree] at h; simp only [AVal.noOpaque] at h'
      simpa [pyEq] using subsetEq_of_subset xs xs h h' (fun _ hx => hx)
  | .dict kvs, h, h' => by
      simp only [AVal.nanFree] at h; simp only [AVal.noOpaque] at h'
      simpa [pyEq] using subsetPairs_of_subset kvs kvs h h' (fun _ hx => hx)
theorem pyEqList_self : ∀ xs : List AVal, nanFreeList xs = true → noOpaqueList xs = true →
    pyEqList xs xs = true
  | [], _, _ => by simp [pyEqList]
  | x :: xs, h, h' => by
      simp only [nanFreeList, Bool.and_eq_true] at h
      simp only [noOpaqueList, Bool.and_eq_true] at h'
      simp [pyEqList, pyEq_self x h.1 h'.1, pyEqList_self xs h.2 h'.2]
theorem subsetEq_of_subset : ∀ (xs ys : List AVal), nanFreeList xs = true → noOpaqueList xs = true →
    (∀ x, x ∈ xs → x ∈ ys) → subsetEq xs ys = true
  | [], _, _, _, _ => by simp [subsetEq]
  | x :: xs, ys, h, h', hs => by
      simp only [nanFreeList, Bool.and_eq_true] at h
      simp only [noOpaqueList, Bool.and_eq_true] at h'
      have hx : x ∈ ys := hs x (by simp)
      have h1 : ys.any (pyEq x) = true := List.any_eq_true.2 ⟨x, hx, pyEq_self x h.1 h'.1⟩
      have h2 := subsetEq_of_subset xs ys h.2 h'.2 (fun y hy => hs y (by simp [hy]))
      simp [subsetEq, h1, h2]
theorem subsetPairs_of_subset : ∀ (kvs kws : List (AVal × AVal)), nanFreePairs kvs = true →
    noOpaquePairs kvs = true → (∀ p, p ∈ kvs → p ∈ kws) → subsetPairs kvs kws = true
  | [], _, _, _, _ => by simp [subsetPairs]
  | (k, v) :: kvs, kws, h, h', hs => by
      simp only [nanFreePairs, Bool.and_eq_true] at h
      simp only [noOpaquePairs, Bool.and_eq_true] at h'
      have hx : (k, v) ∈ kws := hs (k, v) (by simp)
      have h1 : kws.any (fun p => pyEq k p.1 && pyEq v p.2) = true :=
        List.any_eq_true.2 ⟨(k, v), hx, by simp [pyEq_self k h.1.1 h'.1.1, pyEq_self v h.1.2 h'.1.2]⟩
      have h2 := subsetPairs_of_subset kvs kws h.2 h'.2 (fun y hy => hs y (by simp [hy]))
      simp [subsetPairs, h1, h2]
end

/-! ## Validity of rendered values -/

theorem intLiteral_valid (z : Int) : (intLiteral z).valid = true := by
  unfold intLiteral
  split <;> simp [Expr.valid, validDigits_toDigits]

theorem makeFloatLiteral_valid (f : PyFloat) : (makeFloatLiteral f).valid = true := by
  cases f with
  | nan s => simp [makeFloatLiteral, Expr.valid, validList]
  | inf s => simp [makeFloatLiteral, Expr.valid, validList]
  | fin s m => cases s <;> simp [makeFloatLiteral, Expr.valid]

mutual
theorem valueToCst_valid : ∀ (bound : List String) (v : AVal), v.enumsOk bound = true →
    v.noOpaque = true → (valueToCst v).valid = true
  | _, .none, _, _ => by simp [valueToCst, Expr.valid]
  | _, .bool b, _, _ => by cases b <;> simp [valueToCst, Expr.valid]
  | _, .int z, _, _ => by simpa [valueToCst] using intLiteral_valid z
  | _, .float f, _, _ => by simpa [valueToCst] using makeFloatLiteral_valid f
  | _, .complex re im, _, _ => by
      simp [valueToCst, Expr.valid, validList, makeFloatLiteral_valid]
  | _, .str _, _, _ => by simp [valueToCst, Expr.valid]
  | _, .bytes _, _, _ => by simp [valueToCst, Expr.valid]
  | _, .enum cls member, h, _ => by
      simp only [AVal.enumsOk, Bool.and_eq_true] at h
      simp [valueToCst, Expr.valid, h.1.2, h.2]
  | _, .obj _ _, _, h => by simp [AVal.noOpaque] at h
  | b, .list xs, h2, h3 => by
      simp only [AVal.enumsOk] at h2; simp only [AVal.noOpaque] at h3
      simp [valueToCst, Expr.valid, valuesToCst_valid b xs h2 h3]
  | b, .tuple xs, h2, h3 => by
      simp only [AVal.enumsOk] at h2; simp only [AVal.noOpaque] at h3
      simp [valueToCst, Expr.valid, valuesToCst_valid b xs h2 h3]
  | b, .set xs, h2, h3 => by
      simp only [AVal.enumsOk] at h2; simp only [AVal.noOpaque] at h3
      cases xs with
      | nil => simp [valueToCst, Expr.valid, validList]
      | cons x xs =>
        have h := valuesToCst_valid b (x :: xs) h2 h3
        simp only [valueToCst, List.isEmpty_cons, Bool.false_eq_true, if_false, Expr.valid]
        simp only [valuesToCst] at h ⊢
        simp [h]
  | b, .dict kvs, h2, h3 => by
      simp only [AVal.enumsOk] at h2; simp only [AVal.noOpaque] at h3
      simp [valueToCst, Expr.valid, pairsToCst_valid b kvs h2 h3]
theorem valuesToCst_valid : ∀ (bound : List String) (xs : List AVal), enumsOkList bound xs = true →
    noOpaqueList xs = true → validList (valuesToCst xs) = true
  | _, [], _, _ => by simp [valuesToCst, validList]
  | b, x :: xs, h2, h3 => by
      simp only [enumsOkList, Bool.and_eq_true] at h2
      simp only [noOpaqueList, Bool.and_eq_true] at h3
      simp [valuesToCst, validList, valueToCst_valid b x h2.1 h3.1, valuesToCst_valid b xs h2.2 h3.2]
theorem pairsToCst_valid : ∀ (bound : List String) (kvs : List (AVal × AVal)),
    enumsOkPairs bound kvs = true → noOpaquePairs kvs = true → validPairs (pairsToCst kvs) = true
  | _, [], _, _ => by simp [pairsToCst, validPairs]
  | b, (k, v) :: kvs, h2, h3 => by
      simp only [enumsOkPairs, Bool.and_eq_true] at h2
      simp only [noOpaquePairs, Bool.and_eq_true] at h3
      simp [pairsToCst, validPairs, valueToCst_valid b k h2.1.1 h3.1.1,
        valueToCst_valid b v h2.1.2 h3.1.2, pairsToCst_valid b kvs h2.2 h3.2]
end

/-! ## Type expressions -/

theorem validIdent_ne_empty {s : String} (h : validIdent s = true) : (s != "") = true := by
  unfold validIdent at h
  simp only [Bool.and_eq_true] at h
  exact h.1.1

/-- `a.b.c` built by the `for part in qualname.split(".")` loop. -/
theorem exprPath_foldl (parts : List String) (e : Expr) :
    exprPath (parts.foldl (fun e part => Expr.attr e part) e) = (exprPath e).map (· ++ parts) := by
  induction parts generalizing e with
  | nil => cases h : exprPath e <;> simp [h]
  | cons p ps ih =>
    simp only [List.foldl_cons, ih, exprPath]
    cases exprPath e <;> simp

theorem valid_foldl (parts : List String) (e : Expr) (he : e.valid = true)
    (hp : ∀ p ∈ parts, validIdent p = true) :
    (parts.foldl (fun e part => Expr.attr e part) e).valid = true := by
  induction parts generalizing e with
  | nil => simpa using he
  | cons p ps ih =>
    simp only [List.foldl_cons]
    apply ih
    · simp [Expr.valid, he, validIdent_ne_empty (hp p (by simp))]
    · intro q hq; exact hp q (by simp [hq])

theorem namesValid_foldl (parts : List String) (e : Expr) (he : namesValid e = true)
    (hp : ∀ p ∈ parts, validIdent p = true) :
    namesValid (parts.foldl (fun e part => Expr.attr e part) e) = true := by
  induction parts generalizing e with
  | nil => simpa using he
  | cons p ps ih =>
    simp only [List.foldl_cons]
    apply ih
    · simp [namesValid, he, hp p (by simp)]
    · intro q hq; exact hp q (by simp [hq])

theorem nanFreeList_perm {xs ys : List AVal} (h : xs.Perm ys) : nanFreeList xs = nanFreeList ys := by
  induction h with
  | nil => rfl
  | cons x _ ih => simp [nanFreeList, ih]
  | swap x y l => simp [nanFreeList, Bool.and_left_comm]
  | trans _ _ ih1 ih2 => exact ih1.trans ih2

theorem noOpaqueList_perm {xs ys : List AVal} (h : xs.Perm ys) : noOpaqueList xs = noOpaqueList ys := by
  induction h with
  | nil => rfl
  | cons x _ ih => simp [noOpaqueList, ih]
  | swap x y l => simp [noOpaqueList, Bool.and_left_comm]
  | trans _ _ ih1 ih2 => exact ih1.trans ih2

/-- An `IsInstanceAssertion` among what `_check_value` records is about the observed value's own type,
and `_is_type_importable` accepted that type. -/
theorem mem_checkValue_isInstance (te : TypeEnv) (src : String) (v : AVal) (src' : String) (t : TypeId)
    (h : Assertion.isInstance src' t ∈ checkValue te src v) :
    src' = src ∧ t = v.typeOf ∧ isTypeImportable te t = true := by
  have key : Assertion.isInstance src' t ∈ checkTypeAndLen te src v →
      src' = src ∧ t = v.typeOf ∧ isTypeImportable te t = true := by
    intro h
    simp only [checkTypeAndLen, List.mem_append] at h
    rcases h with h | h
    · split at h
      · rename_i himp
        simp only [List.mem_singleton, Assertion.isInstance.injEq] at h
        exact ⟨h.1, h.2, h.2 ▸ himp⟩
      · simp at h
    · cases hl : v.len? <;> simp [hl] at h
  unfold checkValue at h
  split at h
  · simp at h
  · split at h
    · simp at h
    · exact key h

/-- The dotted path the rendered type expression denotes. -/
def typePath (env : RenderEnv) (t : TypeId) : List String :=
  if t.module = "builtins" then [joinDots t.qual] else env.alias t.module :: t.qual

theorem exprPath_typeExpr (env : RenderEnv) (t : TypeId) :
    exprPath (typeExpr env t) = some (typePath env t) := by
  unfold typeExpr typePath
  split
  · simp [exprPath]
  · simp [exprPath_foldl, exprPath]

end PynguinModel.AssertRender
