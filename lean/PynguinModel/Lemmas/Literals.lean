import PynguinModel.Model.Literals
/-!
Helper lemmas for C23 (and C20): decimal digits, the `Gen` post-condition calculus, and the
evaluation lemmas used by the structural inductions.
-/
namespace PynguinModel.Literals

/-! ## Digits -/

theorem ofDigits_append_single (l : List Nat) (d : Nat) :
    ofDigits (l ++ [d]) = 10 * ofDigits l + d := by
  simp [ofDigits, List.foldl_append]

theorem toDigits_lt {n : Nat} (h : n < 10) : toDigits n = [n] := by
  rw [toDigits]; simp [h]

theorem toDigits_ge {n : Nat} (h : ¬ n < 10) : toDigits n = toDigits (n / 10) ++ [n % 10] := by
  rw [toDigits]; simp [h]

/-- `int(str(n)) == n`. -/
theorem ofDigits_toDigits (n : Nat) : ofDigits (toDigits n) = n := by
  induction n using Nat.strongRecOn with
  | _ n ih =>
    by_cases h : n < 10
    · rw [toDigits_lt h]; simp [ofDigits]
    · rw [toDigits_ge h, ofDigits_append_single, ih (n / 10) (by omega)]; omega

theorem toDigits_ne_nil (n : Nat) : toDigits n ≠ [] := by
  by_cases h : n < 10
  · rw [toDigits_lt h]; simp
  · rw [toDigits_ge h]; simp

theorem toDigits_all_lt (n : Nat) : ∀ d ∈ toDigits n, d < 10 := by
  induction n using Nat.strongRecOn with
  | _ n ih =>
    by_cases h : n < 10
    · rw [toDigits_lt h]; simpa using h
    · rw [toDigits_ge h]
      intro d hd
      rcases List.mem_append.1 hd with hd | hd
      · exact ih (n / 10) (by omega) d hd
      · have : d = n % 10 := by simpa using hd
        omega

theorem toDigits_eq_zero {n : Nat} (h : toDigits n = [0]) : n = 0 := by
  have := ofDigits_toDigits n
  rw [h] at this
  simpa [ofDigits] using this.symm

/-- No leading zero: `str(n)` starts with `0` only for `n = 0`. -/
theorem toDigits_head_zero {n : Nat} (h : (toDigits n).head? = some 0) : toDigits n = [0] := by
  induction n using Nat.strongRecOn with
  | _ n ih =>
    by_cases hn : n < 10
    · rw [toDigits_lt hn] at h ⊢
      simp at h; simp [h]
    · exfalso
      rw [toDigits_ge hn] at h
      have hne := toDigits_ne_nil (n / 10)
      have hh : (toDigits (n / 10)).head? = some 0 := by
        cases hd : toDigits (n / 10) with
        | nil => exact absurd hd hne
        | cons a l => rw [hd] at h; simpa using h
      have := toDigits_eq_zero (ih (n / 10) (by omega) hh)
      omega

theorem validDigits_toDigits (n : Nat) : validDigits (toDigits n) = true := by
  have h1 := toDigits_ne_nil n
  have h2 := toDigits_all_lt n
  unfold validDigits
  simp only [Bool.and_eq_true, Bool.not_eq_true', List.isEmpty_eq_false_iff, ne_eq,
    List.all_eq_true, decide_eq_true_eq, Bool.or_eq_true, bne_iff_ne, beq_iff_eq]
  refine ⟨⟨h1, h2⟩, ?_⟩
  by_cases hz : (toDigits n).head? = some 0
  · right; rw [toDigits_head_zero hz]; rfl
  · left; exact hz

/-- The number of decimal digits: `len(str(n)) ≤ k ↔ n < 10^k` (for `k ≥ 1`). -/
theorem toDigits_length_le_iff (n k : Nat) (hk : 0 < k) :
    (toDigits n).length ≤ k ↔ n < 10 ^ k := by
  induction n using Nat.strongRecOn generalizing k with
  | _ n ih =>
    by_cases hn : n < 10
    · rw [toDigits_lt hn]
      have : 10 ^ 1 ≤ 10 ^ k := Nat.pow_le_pow_right (by omega) hk
      simp only [List.length_singleton]
      constructor
      · intro _; omega
      · intro _; omega
    · rw [toDigits_ge hn]
      simp only [List.length_append, List.length_singleton]
      by_cases hk1 : k = 1
      · subst hk1
        have : 0 < (toDigits (n / 10)).length :=
          List.length_pos_iff.2 (toDigits_ne_nil _)
        constructor
        · intro h; omega
        · intro h; simp at h; omega
      · have hk' : 0 < k - 1 := by omega
        have := ih (n / 10) (by omega) (k - 1) hk'
        have hpow : 10 ^ k = 10 ^ (k - 1) * 10 := by
          rw [← Nat.pow_succ]; congr 1; omega
        rw [hpow, ← Nat.div_lt_iff_lt_mul (by omega : 0 < 10), ← this]
        omega

/-! ## `Gen` post-conditions -/

/-- Every result the computation can produce (on any draw list) satisfies `P`. -/
structure Post {α} (x : Gen α) (P : α → Prop) : Prop where
  out : ∀ s a s', x s = some (a, s') → P a

theorem Post.pure {α} {P : α → Prop} {a : α} (h : P a) : Post (Pure.pure a : Gen α) P := by
  constructor
  intro s b s' hb
  have : b = a := by
    simp only [Pure.pure, Gen.pure, Option.some.injEq, Prod.mk.injEq] at hb
    exact hb.1.symm
  exact this ▸ h

theorem Post.bind {α β} {x : Gen α} {f : α → Gen β} {P : α → Prop} {Q : β → Prop}
    (hx : Post x P) (hf : ∀ a, P a → Post (f a) Q) : Post (x >>= f) Q := by
  constructor
  intro s b s' hb
  simp only [Bind.bind, Gen.bind] at hb
  split at hb
  · cases hb
  · rename_i a s1 hxa
    exact (hf a (hx.out _ _ _ hxa)).out _ _ _ hb

theorem Post.mono {α} {x : Gen α} {P Q : α → Prop} (h : Post x P) (hpq : ∀ a, P a → Q a) :
    Post x Q := ⟨fun s a s' ha => hpq a (h.out s a s' ha)⟩

theorem Post.trivial {α} (x : Gen α) : Post x (fun _ => True) := ⟨fun _ _ _ _ => True.intro⟩

theorem Post.ite {α} {c : Prop} [Decidable c] {x y : Gen α} {P : α → Prop}
    (hx : Post x P) (hy : Post y P) : Post (if c then x else y) P := by
  split <;> assumption

theorem Post.seq {α β} {x : Gen α} {y : Gen β} {Q : β → Prop} (hy : Post y Q) :
    Post (x >>= fun _ => y) Q := Post.bind (Post.trivial x) (fun _ _ => hy)

/-- Bind where nothing is needed about the intermediate value. -/
theorem Post.bind' {α β} {x : Gen α} {f : α → Gen β} {Q : β → Prop}
    (hf : ∀ a, Post (f a) Q) : Post (x >>= f) Q := Post.bind (Post.trivial x) (fun a _ => hf a)

/-! ## Evaluation lemmas -/

theorem evalList_append_single {es : List Expr} {vs : List LitVal} {e : Expr} {v : LitVal}
    (h1 : evalList es = some vs) (h2 : eval e = some v) : evalList (es ++ [e]) = some (vs ++ [v]) := by
  induction es generalizing vs with
  | nil => simp [evalList] at h1; subst h1; simp [evalList, h2]
  | cons a es ih =>
    simp only [evalList] at h1
    split at h1
    · rename_i va vr ha hr
      cases h1
      simp [evalList, ha, ih hr]
    · cases h1

theorem evalList_eraseIdx {es : List Expr} {vs : List LitVal} (h : evalList es = some vs) (i : Nat) :
    evalList (es.eraseIdx i) = some (vs.eraseIdx i) := by
  induction es generalizing vs i with
  | nil => simp [evalList] at h; subst h; simp [evalList]
  | cons a es ih =>
    simp only [evalList] at h
    split at h
    · rename_i va vr ha hr
      cases h
      cases i with
      | zero => simpa using hr
      | succ i => simp [evalList, ha, ih hr i]
    · cases h

theorem evalList_length {es : List Expr} {vs : List LitVal} (h : evalList es = some vs) :
    vs.length = es.length := by
  induction es generalizing vs with
  | nil => simp [evalList] at h; subst h; rfl
  | cons a es ih =>
    simp only [evalList] at h
    split at h
    · rename_i va vr ha hr
      cases h; simp [ih hr]
    · cases h

theorem evalPairs_append_single {kvs : List (Expr × Expr)} {vs : List (LitVal × LitVal)}
    {k v : Expr} {a b : LitVal}
    (h1 : evalPairs kvs = some vs) (hk : eval k = some a) (hv : eval v = some b) :
    evalPairs (kvs ++ [(k, v)]) = some (vs ++ [(a, b)]) := by
  induction kvs generalizing vs with
  | nil => simp [evalPairs] at h1; subst h1; simp [evalPairs, hk, hv]
  | cons p kvs ih =>
    obtain ⟨pk, pv⟩ := p
    simp only [evalPairs] at h1
    split at h1
    · rename_i va vb vr ha hb hr
      cases h1
      simp [evalPairs, ha, hb, ih hr]
    · cases h1

theorem evalPairs_eraseIdx {kvs : List (Expr × Expr)} {vs : List (LitVal × LitVal)}
    (h : evalPairs kvs = some vs) (i : Nat) :
    evalPairs (kvs.eraseIdx i) = some (vs.eraseIdx i) := by
  induction kvs generalizing vs i with
  | nil => simp [evalPairs] at h; subst h; simp [evalPairs]
  | cons p kvs ih =>
    obtain ⟨pk, pv⟩ := p
    simp only [evalPairs] at h
    split at h
    · rename_i va vb vr ha hb hr
      cases h
      cases i with
      | zero => simpa using hr
      | succ i => simp [evalPairs, ha, hb, ih hr i]
    · cases h

theorem eval_tuple_some {es : List Expr} {c : Bool} {v : LitVal} (h : eval (.tuple es c) = some v) :
    ∃ vs, evalList es = some vs := by
  simp only [eval] at h
  cases hl : evalList es with
  | none => rw [hl] at h; simp at h
  | some vs => exact ⟨vs, rfl⟩

theorem eval_tuple_norm {es : List Expr} {vs : List LitVal} (h : evalList es = some vs) (c : Bool) :
    eval (.tuple es c) = some (.tuple vs) := by
  simp [eval, h]

/-! ## Round trips of the scalar renderers through the evaluator -/

theorem eval_intToCst (z : Int) : eval (intToCst z) = some (.int z) := by
  unfold intToCst
  split
  · simp [eval, negVal, ofDigits_toDigits]; omega
  · simp [eval, ofDigits_toDigits]; omega

theorem eval_floatToCst (f : PyFloat) : eval (floatToCst f) = some (.float f) := by
  cases f with
  | nan s => cases s <;>
      simp [floatToCst, PyFloat.abs, PyFloat.signBit, eval, evalList, negVal, floatOfText, strNan,
        strInf, strNegInf, PyFloat.neg]
  | inf s => cases s <;>
      simp [floatToCst, PyFloat.abs, PyFloat.signBit, eval, evalList, negVal, floatOfText, strInf,
        PyFloat.neg]
  | fin s m => cases s <;> simp [floatToCst, PyFloat.abs, PyFloat.signBit, eval, negVal, PyFloat.neg]

theorem eval_complexToCst (re im : PyFloat) :
    eval (complexToCst re im) = some (.complex re im) := by
  simp [complexToCst, eval, evalList, eval_floatToCst]

theorem eval_boolName (b : Bool) : eval (boolName b) = some (.bool b) := by
  cases b <;> simp [boolName, eval]

/-! ## Generation: the result evaluates to a value of the requested type -/

/-- The expression evaluates (in a builtins-only namespace) to a value of type `raw`. -/
def IsLit (raw : RawType) (e : Expr) : Prop := ∃ v, eval e = some v ∧ v.typeOf = raw
def Evaluates (e : Expr) : Prop := ∃ v, eval e = some v

theorem IsLit.evaluates {raw e} (h : IsLit raw e) : Evaluates e := let ⟨v, hv, _⟩ := h; ⟨v, hv⟩

theorem nextNat_post (lo hi : Nat) : Post (nextNat lo hi) (fun a => lo ≤ a ∧ a < hi) := by
  constructor
  intro s a s' h
  unfold nextNat at h
  split at h
  · rename_i i r hi'
    cases h
    cases s with
    | nil => simp [nextInt] at hi'
    | cons d r' =>
      cases d <;> simp only [nextInt] at hi' <;> try (cases hi')
      split at hi'
      · rename_i hc; cases hi'; omega
      · cases hi'
  · cases h

theorem whenG_post {α} {c : Bool} {g : Gen (Option α)} {P : Option α → Prop}
    (hg : Post g P) (hn : P none) : Post (whenG c g) P := by
  unfold whenG; split
  · exact hg
  · exact Post.pure hn

theorem genInt_post (cfg : Config) : Post (genInt cfg) (IsLit .int) := by
  unfold genInt
  apply Post.bind'; intro p
  apply Post.bind'; intro seeded
  split
  · exact Post.pure ⟨_, eval_intToCst _, rfl⟩
  · apply Post.bind'; intro q
    apply Post.ite
    · apply Post.bind'; intro i
      exact Post.pure ⟨_, eval_intToCst _, rfl⟩
    · apply Post.bind'; intro _
      apply Post.bind'; intro z
      exact Post.pure ⟨_, eval_intToCst _, rfl⟩

theorem genFloat_post (cfg : Config) : Post (genFloat cfg) (IsLit .float) := by
  unfold genFloat
  apply Post.bind'; intro p
  apply Post.bind'; intro seeded
  split
  · exact Post.pure ⟨_, eval_floatToCst _, rfl⟩
  · apply Post.bind'; intro _
    apply Post.bind'; intro f
    exact Post.pure ⟨_, eval_floatToCst _, rfl⟩

theorem genComplex_post (cfg : Config) : Post (genComplex cfg) (IsLit .complex) := by
  unfold genComplex
  apply Post.bind'; intro p
  apply Post.bind'; intro seeded
  split
  · exact Post.pure ⟨_, eval_complexToCst _ _, rfl⟩
  · apply Post.bind'; intro _
    apply Post.bind'; intro _
    apply Post.bind'; intro re
    apply Post.bind'; intro _
    apply Post.bind'; intro _
    apply Post.bind'; intro im
    exact Post.pure ⟨_, eval_complexToCst _ _, rfl⟩

theorem isLit_str (s : Chars) : IsLit .str (.str s) := ⟨.str s, by simp [eval], rfl⟩
theorem isLit_bytes (b : Chars) : IsLit .bytes (.bytes b) := ⟨.bytes b, by simp [eval], rfl⟩

theorem genStr_post (cfg : Config) : Post (genStr cfg) (IsLit .str) := by
  unfold genStr
  apply Post.bind'; intro a
  apply Post.bind'; intro assembled
  split
  · exact Post.pure (isLit_str _)
  · apply Post.bind'; intro p
    apply Post.bind'; intro seeded
    split
    · exact Post.pure (isLit_str _)
    · apply Post.bind'; intro len
      apply Post.bind'; intro s
      exact Post.pure (isLit_str _)

theorem genBytes_post (cfg : Config) : Post (genBytes cfg) (IsLit .bytes) := by
  unfold genBytes
  apply Post.bind'; intro p
  apply Post.bind'; intro seeded
  split
  · exact Post.pure (isLit_bytes _)
  · apply Post.bind'; intro len
    apply Post.bind'; intro b
    exact Post.pure (isLit_bytes _)

theorem randomPrimitiveElement_post (cfg : Config) :
    Post (randomPrimitiveElement cfg) Evaluates := by
  unfold randomPrimitiveElement
  apply Post.bind'; intro i
  apply Post.ite
  · apply Post.bind'; intro b
    exact Post.pure ⟨_, eval_boolName b⟩
  · apply Post.ite
    · exact (genInt_post cfg).mono (fun _ h => h.evaluates)
    · apply Post.ite
      · exact (genFloat_post cfg).mono (fun _ h => h.evaluates)
      · exact (genStr_post cfg).mono (fun _ h => h.evaluates)

/-- Without a pool of references every element is a primitive literal. -/
theorem elementValue_post (cfg : Config) : Post (elementValue cfg []) Evaluates := by
  unfold elementValue
  have : andG (!([] : List Expr).isEmpty) (do let p ← nextFloat; pure (p.lt cfg.refProb) : Gen Bool)
      = (pure false : Gen Bool) := by simp [andG]
  rw [this]
  apply Post.bind (P := fun b => b = false) (Post.pure rfl)
  intro b hb
  subst hb
  simpa using randomPrimitiveElement_post cfg

theorem elementValues_post (cfg : Config) (n : Nat) :
    Post (elementValues cfg [] n) (fun es => es.length = n ∧ ∃ vs, evalList es = some vs) := by
  induction n with
  | zero => unfold elementValues; exact Post.pure ⟨rfl, [], by simp [evalList]⟩
  | succ n ih =>
    unfold elementValues
    apply Post.bind (elementValue_post cfg); intro e he
    apply Post.bind ih; intro es hes
    obtain ⟨v, hv⟩ := he
    obtain ⟨hl, vs, hvs⟩ := hes
    exact Post.pure ⟨by simp [hl], v :: vs, by simp [evalList, hv, hvs]⟩

theorem collectionCount_post (cfg : Config) : Post (collectionCount cfg) (fun n => 1 ≤ n) :=
  (nextNat_post _ _).mono (fun _ h => h.1)

theorem genList_post (cfg : Config) : Post (genList cfg []) (IsLit .list) := by
  unfold genList
  apply Post.bind'; intro empty
  apply Post.ite
  · exact Post.pure ⟨.list [], by simp [eval, evalList], rfl⟩
  · apply Post.bind'; intro n
    apply Post.bind (elementValues_post cfg n); intro es hes
    obtain ⟨_, vs, hvs⟩ := hes
    exact Post.pure ⟨.list vs, by simp [eval, hvs], rfl⟩

theorem genSet_post (cfg : Config) : Post (genSet cfg []) (IsLit .set) := by
  unfold genSet
  apply Post.bind'; intro empty
  apply Post.ite
  · exact Post.pure ⟨.set [], by simp [eval, evalList], rfl⟩
  · apply Post.bind (collectionCount_post cfg); intro n hn
    apply Post.bind (elementValues_post cfg n); intro es hes
    obtain ⟨hl, vs, hvs⟩ := hes
    have hne : es.isEmpty = false := by
      cases es with
      | nil => simp at hl; omega
      | cons _ _ => rfl
    exact Post.pure ⟨.set vs, by simp [eval, hvs, hne], rfl⟩

theorem genTuple_post (cfg : Config) : Post (genTuple cfg []) (IsLit .tuple) := by
  unfold genTuple
  apply Post.bind'; intro empty
  apply Post.ite
  · exact Post.pure ⟨.tuple [], by simp [eval, evalList], rfl⟩
  · apply Post.bind'; intro n
    apply Post.bind (elementValues_post cfg n); intro es hes
    obtain ⟨_, vs, hvs⟩ := hes
    exact Post.pure ⟨.tuple vs, eval_tuple_norm hvs _, rfl⟩

theorem dictEntry_post (cfg : Config) :
    Post (dictEntry cfg []) (fun kv => Evaluates kv.1 ∧ Evaluates kv.2) := by
  unfold dictEntry
  apply Post.bind (genStr_post cfg); intro k hk
  apply Post.bind (elementValue_post cfg); intro v hv
  exact Post.pure ⟨hk.evaluates, hv⟩

theorem dictEntries_post (cfg : Config) (n : Nat) :
    Post (dictEntries cfg [] n) (fun kvs => ∃ vs, evalPairs kvs = some vs) := by
  induction n with
  | zero => unfold dictEntries; exact Post.pure ⟨[], by simp [evalPairs]⟩
  | succ n ih =>
    unfold dictEntries
    apply Post.bind (dictEntry_post cfg); intro kv hkv
    apply Post.bind ih; intro kvs hkvs
    obtain ⟨k, v⟩ := kv
    obtain ⟨⟨a, ha⟩, ⟨b, hb⟩⟩ := hkv
    obtain ⟨vs, hvs⟩ := hkvs
    exact Post.pure ⟨(a, b) :: vs, by simp [evalPairs, ha, hb, hvs]⟩

theorem genDict_post (cfg : Config) : Post (genDict cfg []) (IsLit .dict) := by
  unfold genDict
  apply Post.bind'; intro empty
  apply Post.ite
  · exact Post.pure ⟨.dict [], by simp [eval, evalPairs], rfl⟩
  · apply Post.bind'; intro n
    apply Post.bind (dictEntries_post cfg n); intro kvs hkvs
    obtain ⟨vs, hvs⟩ := hkvs
    exact Post.pure ⟨.dict vs, by simp [eval, hvs], rfl⟩

theorem genLiteral_post (cfg : Config) (raw : RawType) : Post (genLiteral cfg [] raw) (IsLit raw) := by
  cases raw <;> unfold genLiteral
  · apply Post.bind'; intro b
    exact Post.pure ⟨_, eval_boolName b, rfl⟩
  · exact genInt_post cfg
  · exact genFloat_post cfg
  · exact genComplex_post cfg
  · exact genStr_post cfg
  · exact genBytes_post cfg
  · exact genList_post cfg
  · exact genSet_post cfg
  · exact genTuple_post cfg
  · exact genDict_post cfg
  · exact Post.pure ⟨.none, by simp [eval], rfl⟩

/-! ## Mutation -/

theorem andG_post {a : Bool} {g : Gen Bool} {P : Bool → Prop} (hg : Post g P) (hf : P false) :
    Post (andG a g) P := by
  unfold andG; split
  · exact hg
  · exact Post.pure hf

theorem removeOrAppend_post {α} {elems : List α} {fresh : Gen α} {Ok : List α → Prop}
    {P : α → Prop} (herase : ∀ i, Ok (elems.eraseIdx i)) (happ : ∀ x, P x → Ok (elems ++ [x]))
    (hf : Post fresh P) : Post (removeOrAppend elems fresh) Ok := by
  unfold removeOrAppend
  apply Post.bind'; intro remove
  apply Post.ite
  · apply Post.bind'; intro idx
    exact Post.pure (herase idx)
  · apply Post.bind hf; intro x hx
    exact Post.pure (happ x hx)

theorem mutateBool_post (e : Expr) : Post (mutateBool e) (IsLit .bool) := by
  unfold mutateBool
  split
  · rename_i id
    by_cases h : id = "True"
    · exact Post.pure ⟨.bool false, by simp [h, eval], rfl⟩
    · exact Post.pure ⟨.bool true, by simp [h, eval], rfl⟩
  · apply Post.bind'; intro b
    exact Post.pure ⟨_, eval_boolName b, rfl⟩

theorem mutateInt_post (cfg : Config) (e : Expr) : Post (mutateInt cfg e) (IsLit .int) := by
  unfold mutateInt
  split
  · exact genInt_post cfg
  · apply Post.bind'; intro _
    apply Post.bind'; intro d
    exact Post.pure ⟨_, eval_intToCst _, rfl⟩

theorem mutateFloat_post (cfg : Config) (e : Expr) : Post (mutateFloat cfg e) (IsLit .float) := by
  unfold mutateFloat
  split
  · exact genFloat_post cfg
  · apply Post.ite
    · apply Post.bind'; intro _
      apply Post.bind'; intro f
      exact Post.pure ⟨_, eval_floatToCst _, rfl⟩
    · exact genFloat_post cfg

theorem mutateComplex_post (rd : Int → Option PyFloat) (cfg : Config) (e : Expr) :
    Post (mutateComplex rd cfg e) (IsLit .complex) := by
  unfold mutateComplex
  split
  · exact genComplex_post cfg
  · apply Post.ite
    · apply Post.bind'; intro c
      apply Post.bind'; intro _
      apply Post.bind'; intro onReal
      apply Post.bind'; intro x
      apply Post.ite <;> exact Post.pure ⟨_, eval_complexToCst _ _, rfl⟩
    · exact genComplex_post cfg

theorem mutateStr_post (cfg : Config) (e : Expr) : Post (mutateStr cfg e) (IsLit .str) := by
  unfold mutateStr
  split
  · apply Post.ite
    · apply Post.bind'; intro c
      exact Post.pure (isLit_str _)
    · apply Post.bind'; intro op
      apply Post.ite
      · apply Post.bind'; intro pos
        apply Post.bind'; intro ch
        exact Post.pure (isLit_str _)
      · apply Post.ite
        · apply Post.bind'; intro pos
          exact Post.pure (isLit_str _)
        · apply Post.bind'; intro pos
          apply Post.bind'; intro ch
          exact Post.pure (isLit_str _)
  · exact genStr_post cfg

theorem mutateBytes_post (cfg : Config) (e : Expr) : Post (mutateBytes cfg e) (IsLit .bytes) := by
  unfold mutateBytes
  split
  · apply Post.bind'; intro len
    apply Post.bind'; intro b
    exact Post.pure (isLit_bytes _)
  · exact genBytes_post cfg

theorem removeOrAppend_list_post (cfg : Config) {es : List Expr} {vs : List LitVal}
    (h : evalList es = some vs) :
    Post (removeOrAppend es (elementValue cfg [])) (fun es' => ∃ vs', evalList es' = some vs') :=
  removeOrAppend_post (P := Evaluates)
    (fun i => ⟨_, evalList_eraseIdx h i⟩)
    (fun _ hx => let ⟨_, hv⟩ := hx; ⟨_, evalList_append_single h hv⟩)
    (elementValue_post cfg)

theorem mutateList_post (cfg : Config) (e : Expr) (he : Evaluates e) :
    Post (mutateList cfg [] e) (IsLit .list) := by
  unfold mutateList
  split
  · rename_i es
    obtain ⟨v, hv⟩ := he
    simp only [eval] at hv
    cases hes : evalList es with
    | none => simp [hes] at hv
    | some vs =>
      apply Post.bind (removeOrAppend_list_post cfg hes); intro es' hes'
      obtain ⟨vs', hvs'⟩ := hes'
      exact Post.pure ⟨.list vs', by simp [eval, hvs'], rfl⟩
  · exact genList_post cfg

theorem mutateTuple_post (cfg : Config) (e : Expr) (he : Evaluates e) :
    Post (mutateTuple cfg [] e) (IsLit .tuple) := by
  unfold mutateTuple
  split
  · rename_i es c
    obtain ⟨v, hv⟩ := he
    obtain ⟨vs, hes⟩ := eval_tuple_some hv
    apply Post.bind (removeOrAppend_list_post cfg hes); intro es' hes'
    obtain ⟨vs', hvs'⟩ := hes'
    exact Post.pure ⟨.tuple vs', eval_tuple_norm hvs' _, rfl⟩
  · exact genTuple_post cfg

theorem mutateDict_post (cfg : Config) (e : Expr) (he : Evaluates e) :
    Post (mutateDict cfg [] e) (IsLit .dict) := by
  unfold mutateDict
  split
  · rename_i kvs
    obtain ⟨v, hv⟩ := he
    simp only [eval] at hv
    cases hes : evalPairs kvs with
    | none => simp [hes] at hv
    | some vs =>
      have hp : Post (removeOrAppend kvs (dictEntry cfg []))
          (fun kvs' => ∃ vs', evalPairs kvs' = some vs') :=
        removeOrAppend_post (P := fun kv => Evaluates kv.1 ∧ Evaluates kv.2)
          (fun i => ⟨_, evalPairs_eraseIdx hes i⟩)
          (fun kv hkv => by
            obtain ⟨k, x⟩ := kv
            obtain ⟨⟨a, ha⟩, ⟨b, hb⟩⟩ := hkv
            exact ⟨_, evalPairs_append_single hes ha hb⟩)
          (dictEntry_post cfg)
      apply Post.bind hp; intro kvs' hkvs'
      obtain ⟨vs', hvs'⟩ := hkvs'
      exact Post.pure ⟨.dict vs', by simp [eval, hvs'], rfl⟩
  · exact genDict_post cfg

theorem mutateSet_post (cfg : Config) (e : Expr) (he : Evaluates e) :
    Post (mutateSet cfg [] e) (IsLit .set) := by
  unfold mutateSet
  split
  · apply Post.bind (elementValue_post cfg); intro x hx
    obtain ⟨v, hv⟩ := hx
    exact Post.pure ⟨.set [v], by simp [eval, evalList, hv], rfl⟩
  · rename_i es
    obtain ⟨v, hv⟩ := he
    simp only [eval] at hv
    split at hv
    · cases hv
    · cases hes : evalList es with
      | none => simp [hes] at hv
      | some vs =>
        apply Post.bind (removeOrAppend_list_post cfg hes); intro es' hes'
        obtain ⟨vs', hvs'⟩ := hes'
        split
        · exact Post.pure ⟨.set [], by simp [eval, evalList], rfl⟩
        · rename_i hne
          exact Post.pure ⟨.set vs', by simp [eval, hvs', hne], rfl⟩
  · exact genSet_post cfg

theorem dispatchMutate_post (rd : Int → Option PyFloat) (cfg : Config) (raw : RawType) (e : Expr)
    (he : Evaluates e) : Post (dispatchMutate rd cfg [] raw e) (IsLit raw) := by
  cases raw <;> unfold dispatchMutate
  · exact mutateBool_post e
  · exact mutateInt_post cfg e
  · exact mutateFloat_post cfg e
  · exact mutateComplex_post rd cfg e
  · exact mutateStr_post cfg e
  · exact mutateBytes_post cfg e
  · exact mutateList_post cfg e he
  · exact mutateSet_post cfg e he
  · exact mutateTuple_post cfg e he
  · exact mutateDict_post cfg e he
  · exact genLiteral_post cfg .other

end PynguinModel.Literals
