import PynguinModel.Model.LineTracer
import PynguinModel.Lemmas.LineInstr
/-! Helper lemmas for the tracer side of C02 (`Model/LineTracer.lean`). -/
namespace PynguinModel.LineTracer
open PynguinModel.LineInstr

theorem mem_mergeIds (s o : List Nat) (i : Nat) : i ∈ mergeIds s o ↔ i ∈ s ∨ i ∈ o :=
  mem_foldl_addId o s i

/-- The ids an operation sequence hands to the trace: those of the visits made while the tracer is enabled
and entered (control state followed with `Ctl.step` only). -/
def recordedIds : Ctl → List Op → List Nat
  | _, [] => []
  | c, .visit id :: os => if c.recording then id :: recordedIds c os else recordedIds c os
  | c, o :: os => recordedIds (c.step o) os

def noStart (ops : List Op) : Prop := ∀ o ∈ ops, o.isStart = false

/-! ### one step -/

theorem foldl_visit_disabled (ids : List Nat) : ∀ (s : Run), s.proxy.tracer.enabled = false →
    ids.foldl Run.visit s = s := by
  induction ids with
  | nil => intro s _; rfl
  | cons i is ih =>
    intro s h
    have h1 : s.visit i = s := by
      obtain ⟨⟨⟨en, ent, imp, tr⟩⟩, st, ab⟩ := s
      simp only at h
      subst h
      simp [Run.visit, Proxy.trackLineVisit, Tracer.trackLineVisit, Tracer.gate]
    simp only [List.foldl_cons, h1]
    exact ih s h

/-- the tracer's own evaluation of a predicate leaves trace and control state alone -/
theorem step_predicate (s : Run) (ids : List Nat) :
    (s.step (.predicate ids)).trace = s.trace ∧ (s.step (.predicate ids)).ctl = s.ctl := by
  obtain ⟨⟨⟨en, ent, imp, tr⟩⟩, st, ab⟩ := s
  cases en <;> cases ent <;>
    simp [Run.step, Tracer.gate, Run.trace, Run.ctl]
  have h := foldl_visit_disabled ids (Run.tdEnter ⟨⟨⟨true, true, imp, tr⟩⟩, st, ab⟩)
    (by simp [Run.tdEnter, Proxy.disable])
  rw [h]
  simp [Run.tdEnter, Run.cmExit, Proxy.disable, Proxy.enable]

theorem step_ctl (s : Run) (o : Op) : (s.step o).ctl = s.ctl.step o := by
  cases o with
  | predicate ids => rw [(step_predicate s ids).2]; rfl
  | visit id =>
    obtain ⟨⟨⟨en, ent, imp, tr⟩⟩, st, ab⟩ := s
    cases en <;> cases ent <;>
      simp [Run.step, Run.visit, Proxy.trackLineVisit, Tracer.trackLineVisit, Tracer.gate, Run.ctl, Ctl.step]
  | cmExit =>
    obtain ⟨⟨⟨en, ent, imp, tr⟩⟩, st, ab⟩ := s
    cases st with
    | nil => simp [Run.step, Run.cmExit, Run.ctl, Ctl.step]
    | cons r st => cases r <;> simp [Run.step, Run.cmExit, Run.ctl, Ctl.step, Proxy.enable, Proxy.disable]
  | _ =>
    obtain ⟨⟨⟨en, ent, imp, tr⟩⟩, st, ab⟩ := s
    cases en <;>
      simp [Run.step, Run.ctl, Ctl.step, Run.tdEnter, Run.teEnter, Proxy.enable, Proxy.disable, Proxy.enter,
        Proxy.exit, Proxy.initTrace, Proxy.storeImportTrace, Proxy.reset, Proxy.setFresh, Tracer.initTrace,
        Tracer.storeImportTrace, Tracer.reset, Tracer.fresh]

theorem step_trace_visit (s : Run) (id : Nat) :
    (s.step (.visit id)).trace = if s.ctl.recording then addId s.trace id else s.trace := by
  obtain ⟨⟨⟨en, ent, imp, tr⟩⟩, st, ab⟩ := s
  cases en <;> cases ent <;>
    simp [Run.step, Run.visit, Proxy.trackLineVisit, Tracer.trackLineVisit, Tracer.gate, Run.ctl, Run.trace,
      Ctl.recording]

theorem step_trace_other (s : Run) (o : Op) (hs : o.isStart = false) (hv : ∀ id, o ≠ .visit id) :
    (s.step o).trace = s.trace := by
  cases o with
  | predicate ids => exact (step_predicate s ids).1
  | visit id => exact absurd rfl (hv id)
  | cmExit =>
    obtain ⟨⟨⟨en, ent, imp, tr⟩⟩, st, ab⟩ := s
    cases st with
    | nil => simp [Run.step, Run.cmExit, Run.trace]
    | cons r st => cases r <;> simp [Run.step, Run.cmExit, Run.trace, Proxy.enable, Proxy.disable]
  | initTrace => cases hs
  | storeImportTrace => cases hs
  | reset => cases hs
  | setFresh => cases hs
  | _ =>
    obtain ⟨⟨⟨en, ent, imp, tr⟩⟩, st, ab⟩ := s
    cases en <;>
      simp [Run.step, Run.trace, Run.tdEnter, Run.teEnter, Proxy.enable, Proxy.disable, Proxy.enter, Proxy.exit]

/-! ### histories without a new trace -/

theorem run_ctl (ops : List Op) : ∀ (s : Run), (s.run ops).ctl = ops.foldl Ctl.step s.ctl := by
  induction ops with
  | nil => intro s; rfl
  | cons o os ih =>
    intro s
    simp only [Run.run, List.foldl_cons] at ih ⊢
    rw [ih (s.step o), step_ctl]

theorem run_append (s : Run) (a b : List Op) : s.run (a ++ b) = (s.run a).run b := by
  simp [Run.run, List.foldl_append]

theorem run_trace (ops : List Op) : ∀ (s : Run), noStart ops →
    (s.run ops).trace = (recordedIds s.ctl ops).foldl addId s.trace := by
  induction ops with
  | nil => intro s _; rfl
  | cons o os ih =>
    intro s h
    have hos : noStart os := fun x hx => h x (List.mem_cons_of_mem _ hx)
    have ho : o.isStart = false := h o (by simp)
    have ih' := ih (s.step o) hos
    simp only [Run.run, List.foldl_cons] at ih' ⊢
    rw [ih', step_ctl]
    by_cases hv : ∃ id, o = .visit id
    · obtain ⟨id, rfl⟩ := hv
      rw [step_trace_visit]
      have hc : s.ctl.step (.visit id) = s.ctl := rfl
      rw [hc]
      by_cases hr : s.ctl.recording = true
      · simp [recordedIds, hr]
      · simp [recordedIds, hr]
    · have hv' : ∀ id, o ≠ .visit id := fun id h' => hv ⟨id, h'⟩
      rw [step_trace_other s o ho hv']
      cases o <;> first | rfl | exact absurd rfl (hv' _)

theorem recordedIds_visits_append (c : Ctl) (ids : List Nat) (os : List Op) :
    recordedIds c (ids.map Op.visit ++ os) = (if c.recording then ids else []) ++ recordedIds c os := by
  induction ids with
  | nil => simp
  | cons i is ih =>
    simp only [List.map_cons, List.cons_append, recordedIds, ih]
    by_cases hr : c.recording = true <;> simp [hr]

theorem mem_recordedIds (ops : List Op) : ∀ (c : Ctl) (id : Nat), id ∈ recordedIds c ops →
    ∃ pre post, ops = pre ++ .visit id :: post ∧ (pre.foldl Ctl.step c).recording = true := by
  induction ops with
  | nil => intro c id h; cases h
  | cons o os ih =>
    intro c id h
    have key : ∀ c', id ∈ recordedIds c' os → c' = c.step o →
        ∃ pre post, o :: os = pre ++ .visit id :: post ∧ (pre.foldl Ctl.step c).recording = true := by
      intro c' h' hc
      obtain ⟨pre, post, h1, h2⟩ := ih c' id h'
      exact ⟨o :: pre, post, by simp [h1], by simpa [hc] using h2⟩
    cases o with
    | visit j =>
      simp only [recordedIds] at h
      by_cases hr : c.recording = true
      · simp only [hr, if_true, List.mem_cons] at h
        rcases h with rfl | h
        · exact ⟨[], os, rfl, hr⟩
        · exact key c h rfl
      · simp only [hr] at h
        exact key c h rfl
    | _ => exact key _ h rfl

/-- events of one trace: block visits and tracer operations other than a new trace; the injected
`track_line_visit` calls only come from blocks -/
def Ev.plain : Ev → Bool
  | .blk _ => true
  | .op (.visit _) => false
  | .op o => !o.isStart

def plainEvs (evs : List Ev) : Prop := ∀ e ∈ evs, e.plain = true

theorem recordedIds_flatten (prog : List (List (List OEntry))) (evs : List Ev) : ∀ (c : Ctl),
    plainEvs evs → recordedIds c (flatten prog evs) = runHistory prog (recordedVisits c evs) := by
  induction evs with
  | nil => intro c _; rfl
  | cons e es ih =>
    intro c h
    have hes : plainEvs es := fun x hx => h x (List.mem_cons_of_mem _ hx)
    have he : e.plain = true := h e (by simp)
    cases e with
    | blk v =>
      have ih' := ih c hes
      simp only [flatten, List.flatMap_cons, Ev.ops] at ih' ⊢
      rw [recordedIds_visits_append, ih']
      by_cases hr : c.recording = true
      · simp [recordedVisits, hr, runHistory]
      · simp [recordedVisits, hr, runHistory]
    | op o =>
      have ih' := ih (c.step o) hes
      simp only [flatten, List.flatMap_cons, Ev.ops, List.cons_append, List.nil_append] at ih' ⊢
      cases o with
      | visit id => cases he
      | _ => simp only [recordedIds, recordedVisits, ih']

theorem flatten_noStart (prog : List (List (List OEntry))) (evs : List Ev) (h : plainEvs evs) :
    noStart (flatten prog evs) := by
  intro o ho
  simp only [flatten, List.mem_flatMap] at ho
  obtain ⟨e, he, hoe⟩ := ho
  have hp := h e he
  cases e with
  | blk v =>
    simp only [Ev.ops, List.mem_map] at hoe
    obtain ⟨_, _, rfl⟩ := hoe
    rfl
  | op o' =>
    simp only [Ev.ops, List.mem_singleton] at hoe
    subst hoe
    cases o <;> first | rfl | cases hp

/-- **the trace of one execution**: from any state, events without a new trace add exactly the ids of the
block visits made while the tracer is enabled and entered -/
theorem run_flatten_trace (prog : List (List (List OEntry))) (s : Run) (evs : List Ev) (h : plainEvs evs) :
    (s.run (flatten prog evs)).trace = (runHistory prog (recordedVisits s.ctl evs)).foldl addId s.trace := by
  rw [run_trace _ s (flatten_noStart prog evs h), recordedIds_flatten prog evs s.ctl h]

end PynguinModel.LineTracer
