import PynguinModel.Model.ExecIsolation
/-!
# Helper lemmas for C30 (file-descriptor table, statement loop, context protocol)
-/
namespace PynguinModel.ExecIsolation

/-! ## The descriptor table -/

theorem lookup_erase_eq (t : FdTable) (fd : Nat) : lookup (erase t fd) fd = none := by
  induction t with
  | nil => rfl
  | cons p r ih =>
    obtain ⟨k, d⟩ := p
    unfold erase at ih ⊢
    rw [List.filter_cons]
    by_cases h : k = fd
    · simp [h, ih]
    · have : ((k, d).1 != fd) = true := by simpa using h
      simp [this, lookup, h, ih]

theorem lookup_erase_ne (t : FdTable) {a b : Nat} (h : a ≠ b) :
    lookup (erase t a) b = lookup t b := by
  induction t with
  | nil => rfl
  | cons p r ih =>
    obtain ⟨k, d⟩ := p
    unfold erase at ih ⊢
    rw [List.filter_cons]
    by_cases hk : k = a
    · subst hk
      simp [lookup, h, ih]
    · have : ((k, d).1 != a) = true := by simpa using hk
      simp only [this, if_true, lookup]
      by_cases hb : k = b
      · simp [hb]
      · simp [hb, ih]

theorem lookup_set_eq (t : FdTable) (fd d : Nat) : lookup (set t fd d) fd = some d := by
  simp [set, lookup]

theorem lookup_set_ne (t : FdTable) {a b : Nat} (d : Nat) (h : a ≠ b) :
    lookup (set t a d) b = lookup t b := by
  simp [set, lookup, h, lookup_erase_ne t h]

theorem le_maxKey {t : FdTable} {n d : Nat} (h : lookup t n = some d) : n ≤ maxKey t := by
  induction t with
  | nil => simp [lookup] at h
  | cons p r ih =>
    obtain ⟨k, e⟩ := p
    by_cases hk : k = n
    · subst hk; simp [maxKey]; omega
    · simp only [lookup, hk, if_false] at h
      have := ih h
      simp [maxKey]; omega

/-- `dup`/`open` never hand out a descriptor that is in use. -/
theorem lowestFree_free (t : FdTable) : lookup t (lowestFree t) = none := by
  unfold lowestFree
  cases hf : (List.range (maxKey t + 2)).find? (fun n => (lookup t n).isNone) with
  | some n =>
    have := List.find?_some hf
    simpa using this
  | none =>
    simp only [Option.getD_none]
    cases hl : lookup t (maxKey t + 1) with
    | none => rfl
    | some d => have := le_maxKey hl; omega

theorem lowestFree_ne {t : FdTable} {n d : Nat} (h : lookup t n = some d) : lowestFree t ≠ n := by
  intro e
  have := lowestFree_free t
  rw [e, h] at this
  cases this

/-! ## One statement of the module under test -/

theorem closeSlot_nullFd (s : Proc) (sl : Slot) : (s.closeSlot sl).nullFd = s.nullFd := by
  unfold Proc.closeSlot
  cases s.get sl <;> cases sl <;> simp [Proc.put] <;> split <;> rfl

theorem closeSlot_nullClosed_mono (s : Proc) (sl : Slot) (h : s.nullClosed = true) :
    (s.closeSlot sl).nullClosed = true := by
  unfold Proc.closeSlot
  cases s.get sl <;> cases sl <;> simp [Proc.put, h]

theorem closeSlot_fds (s : Proc) (sl : Slot) :
    (s.closeSlot sl).fds = s.fds ∨
      (s.nullClosed = false ∧ (s.closeSlot sl).fds = erase s.fds s.nullFd) := by
  unfold Proc.closeSlot
  cases s.get sl <;> cases sl <;> simp [Proc.put] <;> cases s.nullClosed <;> simp

theorem step_nullFd (a : Action) (s : Proc) : (step a s).1.nullFd = s.nullFd := by
  cases a <;> simp only [step, closeSlot_nullFd] <;> (try split) <;> (try split) <;>
    (try cases ‹Slot›) <;> simp [Proc.put]

theorem step_nullClosed_mono (a : Action) (s : Proc) (h : s.nullClosed = true) :
    (step a s).1.nullClosed = true := by
  cases a <;> simp only [step, closeSlot_nullClosed_mono _ _ h] <;> (try split) <;> (try split) <;>
    (try cases ‹Slot›) <;> simp [Proc.put, h]

theorem closeSlot_fds' (s : Proc) (sl : Slot) :
    (s.closeSlot sl).fds = s.fds ∧ (s.closeSlot sl).nullClosed = s.nullClosed ∨
      (s.closeSlot sl).nullClosed = true := by
  unfold Proc.closeSlot
  cases s.get sl <;> cases sl <;> simp [Proc.put] <;> cases h : s.nullClosed <;> simp [h]

theorem step_keeps_aux {a : Action} {s : Proc} {x d : Nat}
    (h : lookup s.fds x = some d)
    (hn : (∃ sl, a = .close sl) → (s.nullClosed = true ∨ x ≠ s.nullFd))
    (ha : a ≠ .closeFd x) : lookup (step a s).1.fds x = some d := by
  cases a with
  | close sl =>
    have hn := hn ⟨sl, rfl⟩
    simp only [step]
    rcases closeSlot_fds s sl with e | ⟨hc, e⟩
    · rw [e]; exact h
    · rw [e]
      rcases hn with hn | hn
      · rw [hc] at hn; cases hn
      · rw [lookup_erase_ne _ (Ne.symm hn)]; exact h
  | closeFd fd =>
    have hne : fd ≠ x := fun e => ha (by rw [e])
    simp only [step]
    split
    · exact h
    · simp only [lookup_erase_ne _ hne]; exact h
  | openNew =>
    simp only [step]
    rw [lookup_set_ne _ _ (lowestFree_ne h)]; exact h
  | bind sl => cases sl <;> simpa [step, Proc.put] using h
  | print e =>
    by_cases hc : s.isClosed (if e then .err else .out) = true <;> simp [step, hc, h]
  | instRand i => simp only [step]; split <;> (try split) <;> exact h
  | instSeed i y => simp only [step]; split <;> (try split) <;> exact h
  | _ => simpa [step] using h

/-- A descriptor that the statement does not close explicitly, and that is not the descriptor of an
open `_null_file`, stays what it is. -/
theorem step_keeps {a : Action} {s : Proc} {x d : Nat}
    (h : lookup s.fds x = some d) (hn : s.nullClosed = true ∨ x ≠ s.nullFd)
    (ha : a ≠ .closeFd x) : lookup (step a s).1.fds x = some d :=
  step_keeps_aux h (fun _ => hn) ha

/-- An open `_null_file` keeps its descriptor unless the statement closes that descriptor number. -/
theorem step_null {a : Action} {s : Proc}
    (h : s.nullClosed = true ∨ (lookup s.fds s.nullFd).isSome = true)
    (ha : a ≠ .closeFd s.nullFd) :
    (step a s).1.nullClosed = true ∨
      (lookup (step a s).1.fds (step a s).1.nullFd).isSome = true := by
  rcases h with h | h
  · exact Or.inl (step_nullClosed_mono a s h)
  · obtain ⟨d, hd⟩ := Option.isSome_iff_exists.mp h
    by_cases hcl : ∃ sl, a = .close sl
    · obtain ⟨sl, rfl⟩ := hcl
      simp only [step]
      rcases closeSlot_fds' s sl with ⟨e, _⟩ | e
      · right; rw [e, closeSlot_nullFd]; exact h
      · exact Or.inl e
    · right
      rw [step_nullFd, step_keeps_aux hd (fun hx => absurd hx hcl) ha]; rfl

/-- The statement loop. -/
theorem runStmts_keeps {t : List Action} {s : Proc} {x d : Nat}
    (h : lookup s.fds x = some d) (hn : s.nullClosed = true ∨ x ≠ s.nullFd)
    (ha : Action.closeFd x ∉ t) : lookup (runStmts t s).1.fds x = some d := by
  induction t generalizing s with
  | nil => exact h
  | cons a as ih =>
    have h1 : a ≠ .closeFd x := fun e => ha (by simp [e])
    have h2 : Action.closeFd x ∉ as := fun e => ha (by simp [e])
    have hk := step_keeps h hn h1
    have hn' : (step a s).1.nullClosed = true ∨ x ≠ (step a s).1.nullFd := by
      rcases hn with hn | hn
      · exact Or.inl (step_nullClosed_mono a s hn)
      · exact Or.inr (by rw [step_nullFd]; exact hn)
    simp only [runStmts]
    split
    · exact hk
    · exact ih hk hn' h2

theorem runStmts_nullFd (t : List Action) (s : Proc) : (runStmts t s).1.nullFd = s.nullFd := by
  induction t generalizing s with
  | nil => rfl
  | cons a as ih =>
    simp only [runStmts]
    split
    · exact step_nullFd a s
    · rw [ih, step_nullFd]

theorem runStmts_null {t : List Action} {s : Proc}
    (h : s.nullClosed = true ∨ (lookup s.fds s.nullFd).isSome = true)
    (ha : Action.closeFd s.nullFd ∉ t) :
    (runStmts t s).1.nullClosed = true ∨
      (lookup (runStmts t s).1.fds (runStmts t s).1.nullFd).isSome = true := by
  induction t generalizing s with
  | nil => exact h
  | cons a as ih =>
    have h1 : a ≠ .closeFd s.nullFd := fun e => ha (by simp [e])
    have h2 : Action.closeFd (step a s).1.nullFd ∉ as := by
      rw [step_nullFd]; exact fun e => ha (by simp [e])
    have hk := step_null h h1
    simp only [runStmts]
    split
    · exact hk
    · exact ih hk h2

/-! ## `__enter__` and `restore()` -/

theorem reopenNull_lookup (cfg : Cfg) (s : Proc) {i d : Nat} (h : lookup s.fds i = some d) :
    lookup (reopenNull cfg s).fds i = some d := by
  unfold reopenNull
  split
  · simp only
    rw [lookup_set_ne _ _ (lowestFree_ne h)]; exact h
  · exact h

theorem reopenNull_null (cfg : Cfg) (s : Proc)
    (hn : s.nullClosed = true ∨ (lookup s.fds s.nullFd).isSome = true) :
    (reopenNull cfg s).nullClosed = true ∨
      (lookup (reopenNull cfg s).fds (reopenNull cfg s).nullFd).isSome = true := by
  unfold reopenNull
  split
  · right; simp [lookup_set_eq]
  · exact hn

theorem reopenNull_other (cfg : Cfg) (s : Proc) :
    (reopenNull cfg s).inp = s.inp ∧ (reopenNull cfg s).logDisable = s.logDisable ∧
    (reopenNull cfg s).tracked = s.tracked ∧ (reopenNull cfg s).globalRng = s.globalRng ∧
    (reopenNull cfg s).cfgSeed = s.cfgSeed ∧ (reopenNull cfg s).glob = s.glob ∧
    (reopenNull cfg s).origInClosed = s.origInClosed := by
  unfold reopenNull; split <;> simp

/-- What `__enter__` of a fresh context does to the table when 0, 1, 2 are open. -/
theorem saveAll_spec {t : FdTable} {d0 d1 d2 : Nat} (h0 : lookup t 0 = some d0)
    (h1 : lookup t 1 = some d1) (h2 : lookup t 2 = some d2) :
    ∃ a b c, saveFd 2 (saveFd 1 (saveFd 0 (t, []))) =
        (set (set (set t a d0) b d1) c d2, [(0, a), (1, b), (2, c)]) ∧
      a ≠ b ∧ a ≠ c ∧ b ≠ c ∧ 3 ≤ a ∧ 3 ≤ b ∧ 3 ≤ c ∧
      lookup t a = none ∧ lookup t b = none ∧ lookup t c = none := by
  let a := lowestFree t
  have fa : lookup t a = none := lowestFree_free t
  have a0 : a ≠ 0 := lowestFree_ne h0
  have a1 : a ≠ 1 := lowestFree_ne h1
  have a2 : a ≠ 2 := lowestFree_ne h2
  let t1 := set t a d0
  have g1 : lookup t1 1 = some d1 := by rw [lookup_set_ne _ _ a1]; exact h1
  have g2 : lookup t1 2 = some d2 := by rw [lookup_set_ne _ _ a2]; exact h2
  have g0 : lookup t1 0 = some d0 := by rw [lookup_set_ne _ _ a0]; exact h0
  have ga : lookup t1 a = some d0 := lookup_set_eq _ _ _
  let b := lowestFree t1
  have fb : lookup t1 b = none := lowestFree_free t1
  have b0 : b ≠ 0 := lowestFree_ne g0
  have b1 : b ≠ 1 := lowestFree_ne g1
  have b2 : b ≠ 2 := lowestFree_ne g2
  have ba : b ≠ a := lowestFree_ne ga
  let t2 := set t1 b d1
  have k0 : lookup t2 0 = some d0 := by rw [lookup_set_ne _ _ b0]; exact g0
  have k1 : lookup t2 1 = some d1 := by rw [lookup_set_ne _ _ b1]; exact g1
  have k2 : lookup t2 2 = some d2 := by rw [lookup_set_ne _ _ b2]; exact g2
  have ka : lookup t2 a = some d0 := by rw [lookup_set_ne _ _ ba]; exact ga
  have kb : lookup t2 b = some d1 := lookup_set_eq _ _ _
  let c := lowestFree t2
  have fc : lookup t2 c = none := lowestFree_free t2
  have c0 : c ≠ 0 := lowestFree_ne k0
  have c1 : c ≠ 1 := lowestFree_ne k1
  have c2 : c ≠ 2 := lowestFree_ne k2
  have ca : c ≠ a := lowestFree_ne ka
  have cb : c ≠ b := lowestFree_ne kb
  refine ⟨a, b, c, ?_, Ne.symm ba, Ne.symm ca, Ne.symm cb, by omega, by omega, by omega, fa, ?_, ?_⟩
  · simp [saveFd, h0, g1, k2, dictSet, a, b, c, t1, t2]
  · rw [← fb, lookup_set_ne _ _ (Ne.symm ba)]
  · rw [← fc, lookup_set_ne _ _ (Ne.symm cb), lookup_set_ne _ _ (Ne.symm ca)]

/-- `restore()` of a context that saved 0, 1, 2 as `a`, `b`, `c`. -/
theorem restore3_eq {t : FdTable} {a b c d0 d1 d2 : Nat} (ha : lookup t a = some d0)
    (hb : lookup t b = some d1) (hc : lookup t c = some d2) (hab : a ≠ b) (hac : a ≠ c)
    (hbc : b ≠ c) (_h3a : 3 ≤ a) (h3b : 3 ≤ b) (h3c : 3 ≤ c) :
    [(0, a), (1, b), (2, c)].foldl restoreFd t =
      erase (set (erase (set (erase (set t 0 d0) a) 1 d1) b) 2 d2) c := by
  have n0b : (0 : Nat) ≠ b := by omega
  have n0c : (0 : Nat) ≠ c := by omega
  have n1c : (1 : Nat) ≠ c := by omega
  have e1 : restoreFd t (0, a) = erase (set t 0 d0) a := by simp [restoreFd, ha]
  have l1b : lookup (erase (set t 0 d0) a) b = some d1 := by
    rw [lookup_erase_ne _ hab, lookup_set_ne _ _ n0b]; exact hb
  have e2 : restoreFd (erase (set t 0 d0) a) (1, b) =
      erase (set (erase (set t 0 d0) a) 1 d1) b := by simp [restoreFd, l1b]
  have l2c : lookup (erase (set (erase (set t 0 d0) a) 1 d1) b) c = some d2 := by
    rw [lookup_erase_ne _ hbc, lookup_set_ne _ _ n1c, lookup_erase_ne _ hac,
      lookup_set_ne _ _ n0c]; exact hc
  have e3 : restoreFd (erase (set (erase (set t 0 d0) a) 1 d1) b) (2, c) =
      erase (set (erase (set (erase (set t 0 d0) a) 1 d1) b) 2 d2) c := by simp [restoreFd, l2c]
  simp only [List.foldl, e1, e2, e3]

theorem restore3 {t : FdTable} {a b c d0 d1 d2 : Nat} (ha : lookup t a = some d0)
    (hb : lookup t b = some d1) (hc : lookup t c = some d2) (hab : a ≠ b) (hac : a ≠ c)
    (hbc : b ≠ c) (h3a : 3 ≤ a) (h3b : 3 ≤ b) (h3c : 3 ≤ c) :
    lookup ([(0, a), (1, b), (2, c)].foldl restoreFd t) 0 = some d0 ∧
    lookup ([(0, a), (1, b), (2, c)].foldl restoreFd t) 1 = some d1 ∧
    lookup ([(0, a), (1, b), (2, c)].foldl restoreFd t) 2 = some d2 ∧
    lookup ([(0, a), (1, b), (2, c)].foldl restoreFd t) a = none ∧
    lookup ([(0, a), (1, b), (2, c)].foldl restoreFd t) b = none ∧
    lookup ([(0, a), (1, b), (2, c)].foldl restoreFd t) c = none := by
  have n0a : (0 : Nat) ≠ a := by omega
  have n0b : (0 : Nat) ≠ b := by omega
  have n0c : (0 : Nat) ≠ c := by omega
  have n1a : (1 : Nat) ≠ a := by omega
  have n1b : (1 : Nat) ≠ b := by omega
  have n1c : (1 : Nat) ≠ c := by omega
  have n2a : (2 : Nat) ≠ a := by omega
  have n2b : (2 : Nat) ≠ b := by omega
  have n2c : (2 : Nat) ≠ c := by omega
  rw [restore3_eq ha hb hc hab hac hbc h3a h3b h3c]
  refine ⟨?_, ?_, ?_, ?_, ?_, ?_⟩
  · rw [lookup_erase_ne _ (Ne.symm n0c), lookup_set_ne _ _ (by omega), lookup_erase_ne _ (Ne.symm n0b),
      lookup_set_ne _ _ (by omega), lookup_erase_ne _ (Ne.symm n0a), lookup_set_eq]
  · rw [lookup_erase_ne _ (Ne.symm n1c), lookup_set_ne _ _ (by omega), lookup_erase_ne _ (Ne.symm n1b),
      lookup_set_eq]
  · rw [lookup_erase_ne _ (Ne.symm n2c), lookup_set_eq]
  · rw [lookup_erase_ne _ (Ne.symm hac), lookup_set_ne _ _ n2a, lookup_erase_ne _ (Ne.symm hab),
      lookup_set_ne _ _ n1a, lookup_erase_eq]
  · rw [lookup_erase_ne _ (Ne.symm hbc), lookup_set_ne _ _ n2b, lookup_erase_eq]
  · rw [lookup_erase_eq]

/-- Descriptors other than 0, 1, 2 and the private duplicates are not touched by `restore()`. -/
theorem restore3_other {t : FdTable} {a b c d0 d1 d2 x : Nat} (ha : lookup t a = some d0)
    (hb : lookup t b = some d1) (hc : lookup t c = some d2) (hab : a ≠ b) (hac : a ≠ c)
    (hbc : b ≠ c) (h3a : 3 ≤ a) (h3b : 3 ≤ b) (h3c : 3 ≤ c)
    (hx : 3 ≤ x) (hxa : x ≠ a) (hxb : x ≠ b) (hxc : x ≠ c) :
    lookup ([(0, a), (1, b), (2, c)].foldl restoreFd t) x = lookup t x := by
  rw [restore3_eq ha hb hc hab hac hbc h3a h3b h3c]
  rw [lookup_erase_ne _ (Ne.symm hxc), lookup_set_ne _ _ (by omega), lookup_erase_ne _ (Ne.symm hxb),
    lookup_set_ne _ _ (by omega), lookup_erase_ne _ (Ne.symm hxa), lookup_set_ne _ _ (by omega)]

/-! ## One execution -/

/-- Pynguin's process between two executions: descriptors 0, 1, 2 are open and an open `_null_file`
owns a descriptor of its own. -/
structure WF (s : Proc) : Prop where
  fd0 : (lookup s.fds 0).isSome = true
  fd1 : (lookup s.fds 1).isSome = true
  fd2 : (lookup s.fds 2).isSome = true
  null : s.nullClosed = true ∨ ((lookup s.fds s.nullFd).isSome = true ∧ 3 ≤ s.nullFd)

/-- The descriptors Pynguin owns while the test case runs: the one of `_null_file` and the private
duplicates of 0, 1, 2 made by `__enter__`. -/
def protectedFds (cfg : Cfg) (s : Proc) : List Nat :=
  (enter cfg Ctx.new (makeDeterministic s)).2.nullFd ::
    (enter cfg Ctx.new (makeDeterministic s)).1.savedFds.map (·.2)

/-- The test case closes none of the descriptors Pynguin owns. -/
def Tame (cfg : Cfg) (s : Proc) (t : Test) : Prop :=
  ∀ n ∈ protectedFds cfg s, Action.closeFd n ∉ t

instance (cfg : Cfg) (s : Proc) (t : Test) : Decidable (Tame cfg s t) := by
  unfold Tame; infer_instance

theorem enter_new_eq (cfg : Cfg) (m : Proc) {d0 d1 d2 : Nat}
    (h0 : lookup (reopenNull cfg m).fds 0 = some d0) (h1 : lookup (reopenNull cfg m).fds 1 = some d1)
    (h2 : lookup (reopenNull cfg m).fds 2 = some d2) :
    ∃ a b c, enter cfg Ctx.new m =
        (⟨false, [(0, a), (1, b), (2, c)]⟩,
         { reopenNull cfg m with
           fds := set (set (set (reopenNull cfg m).fds a d0) b d1) c d2, out := .null, err := .null }) ∧
      a ≠ b ∧ a ≠ c ∧ b ≠ c ∧ 3 ≤ a ∧ 3 ≤ b ∧ 3 ≤ c ∧
      lookup (reopenNull cfg m).fds a = none ∧ lookup (reopenNull cfg m).fds b = none ∧
      lookup (reopenNull cfg m).fds c = none := by
  obtain ⟨a, b, c, heq, r⟩ := saveAll_spec h0 h1 h2
  refine ⟨a, b, c, ?_, r⟩
  simp [enter, Ctx.new, heq]

theorem restore_fresh (sv : List (Nat × Nat)) (s : Proc) :
    (restore ⟨false, sv⟩ s).2 = { s with fds := sv.foldl restoreFd s.fds, out := .orig, err := .orig } := by
  simp [restore]

theorem putBack_fds (cfg : Cfg) (s0 s : Proc) :
    (putBack cfg s0 s).fds = s.fds ∧ (putBack cfg s0 s).nullFd = s.nullFd ∧
      (putBack cfg s0 s).nullClosed = s.nullClosed := by
  unfold putBack; split <;> split <;> simp

/-- The core of `fds_restored`: after an execution whose test case closes none of Pynguin's own
descriptors, 0, 1, 2 are the open files they were, and the process is in its normal state again. -/
theorem execute_fds_core (cfg : Cfg) (s : Proc) (t : Test) (wf : WF s) (tame : Tame cfg s t) :
    lookup (execute cfg s t).1.fds 0 = lookup s.fds 0 ∧
    lookup (execute cfg s t).1.fds 1 = lookup s.fds 1 ∧
    lookup (execute cfg s t).1.fds 2 = lookup s.fds 2 ∧ WF (execute cfg s t).1 := by
  obtain ⟨d0, h0⟩ := Option.isSome_iff_exists.mp wf.fd0
  obtain ⟨d1, h1⟩ := Option.isSome_iff_exists.mp wf.fd1
  obtain ⟨d2, h2⟩ := Option.isSome_iff_exists.mp wf.fd2
  -- `_make_deterministic` does not touch descriptors
  have m0 : lookup (makeDeterministic s).fds 0 = some d0 := h0
  have m1 : lookup (makeDeterministic s).fds 1 = some d1 := h1
  have m2 : lookup (makeDeterministic s).fds 2 = some d2 := h2
  have k0 := reopenNull_lookup cfg _ m0
  have k1 := reopenNull_lookup cfg _ m1
  have k2 := reopenNull_lookup cfg _ m2
  -- the null file after the possible reopen
  have kn : (reopenNull cfg (makeDeterministic s)).nullClosed = true ∨
      ((lookup (reopenNull cfg (makeDeterministic s)).fds
          (reopenNull cfg (makeDeterministic s)).nullFd).isSome = true ∧
        3 ≤ (reopenNull cfg (makeDeterministic s)).nullFd) := by
    unfold reopenNull
    split
    · right
      refine ⟨by simp [lookup_set_eq], ?_⟩
      have a0 := lowestFree_ne m0
      have a1 := lowestFree_ne m1
      have a2 := lowestFree_ne m2
      simp only; omega
    · exact wf.null
  obtain ⟨a, b, c, heq, hab, hac, hbc, h3a, h3b, h3c, fa, fb, fc⟩ := enter_new_eq cfg _ k0 k1 k2
  have tame' : ∀ n ∈ protectedFds cfg s, Action.closeFd n ∉ t := tame
  simp only [protectedFds, heq, List.map, List.mem_cons, List.not_mem_nil, or_false] at tame'
  have ta := tame' a (by simp)
  have tb := tame' b (by simp)
  have tc := tame' c (by simp)
  have tn := tame' _ (Or.inl rfl)
  -- the state right after `__enter__`
  generalize hs1 : reopenNull cfg (makeDeterministic s) = s1 at *
  let e : Proc := { s1 with fds := set (set (set s1.fds a d0) b d1) c d2, out := .null, err := .null }
  have ea : lookup e.fds a = some d0 := by
    show lookup (set (set (set s1.fds a d0) b d1) c d2) a = some d0
    rw [lookup_set_ne _ _ (Ne.symm hac), lookup_set_ne _ _ (Ne.symm hab), lookup_set_eq]
  have eb : lookup e.fds b = some d1 := by
    show lookup (set (set (set s1.fds a d0) b d1) c d2) b = some d1
    rw [lookup_set_ne _ _ (Ne.symm hbc), lookup_set_eq]
  have ec : lookup e.fds c = some d2 := by
    show lookup (set (set (set s1.fds a d0) b d1) c d2) c = some d2
    rw [lookup_set_eq]
  have en : e.nullClosed = true ∨
      ((lookup e.fds e.nullFd).isSome = true ∧ 3 ≤ e.nullFd ∧ e.nullFd ≠ a ∧ e.nullFd ≠ b ∧ e.nullFd ≠ c) := by
    rcases kn with kn | ⟨kn, k3⟩
    · exact Or.inl kn
    · right
      obtain ⟨dn, hdn⟩ := Option.isSome_iff_exists.mp kn
      have na : s1.nullFd ≠ a := fun h => by rw [h, fa] at hdn; cases hdn
      have nb : s1.nullFd ≠ b := fun h => by rw [h, fb] at hdn; cases hdn
      have nc : s1.nullFd ≠ c := fun h => by rw [h, fc] at hdn; cases hdn
      refine ⟨?_, k3, na, nb, nc⟩
      show (lookup (set (set (set s1.fds a d0) b d1) c d2) s1.nullFd).isSome = true
      rw [lookup_set_ne _ _ (Ne.symm nc), lookup_set_ne _ _ (Ne.symm nb), lookup_set_ne _ _ (Ne.symm na)]
      exact kn
  have hna : e.nullClosed = true ∨ a ≠ e.nullFd := en.imp id (fun h => Ne.symm h.2.2.1)
  have hnb : e.nullClosed = true ∨ b ≠ e.nullFd := en.imp id (fun h => Ne.symm h.2.2.2.1)
  have hnc : e.nullClosed = true ∨ c ≠ e.nullFd := en.imp id (fun h => Ne.symm h.2.2.2.2)
  have ra := runStmts_keeps (t := t) ea hna ta
  have rb := runStmts_keeps (t := t) eb hnb tb
  have rc := runStmts_keeps (t := t) ec hnc tc
  have rn := runStmts_null (t := t) (s := e) (en.imp id (fun h => h.1)) tn
  have rfd : (runStmts t e).1.nullFd = e.nullFd := runStmts_nullFd t e
  obtain ⟨q0, q1, q2, _, _, _⟩ := restore3 ra rb rc hab hac hbc h3a h3b h3c
  have hex : (execute cfg s t).1 =
      putBack cfg s { (runStmts t e).1 with
        fds := [(0, a), (1, b), (2, c)].foldl restoreFd (runStmts t e).1.fds,
        out := .orig, err := .orig } := by
    simp only [execute, heq, restore_fresh]
    rfl
  obtain ⟨pf, pn, pc⟩ := putBack_fds cfg s { (runStmts t e).1 with
        fds := [(0, a), (1, b), (2, c)].foldl restoreFd (runStmts t e).1.fds,
        out := .orig, err := .orig }
  rw [hex, pf]
  refine ⟨by rw [q0, h0], by rw [q1, h1], by rw [q2, h2], ?_⟩
  refine ⟨by rw [pf, q0]; rfl, by rw [pf, q1]; rfl, by rw [pf, q2]; rfl, ?_⟩
  rw [pf, pn, pc]
  show (runStmts t e).1.nullClosed = true ∨ _
  rcases rn with rn | rn
  · exact Or.inl rn
  · rcases en with en | ⟨_, k3, na, nb, nc⟩
    · exact Or.inl (by
        have : ∀ (l : List Action) (x : Proc), x.nullClosed = true → (runStmts l x).1.nullClosed = true := by
          intro l
          induction l with
          | nil => intro x h; exact h
          | cons a as ih =>
            intro x h
            simp only [runStmts]
            split
            · exact step_nullClosed_mono a x h
            · exact ih _ (step_nullClosed_mono a x h)
        exact this t e en)
    · right
      show (lookup ([(0, a), (1, b), (2, c)].foldl restoreFd (runStmts t e).1.fds)
        (runStmts t e).1.nullFd).isSome = true ∧ 3 ≤ (runStmts t e).1.nullFd
      rw [rfd]
      refine ⟨?_, k3⟩
      rw [restore3_other ra rb rc hab hac hbc h3a h3b h3c k3 na nb nc, ← rfd]
      exact rn

theorem step_print_fst (e : Bool) (s : Proc) : (step (.print e) s).1 = s := by
  by_cases hc : s.isClosed (if e then .err else .out) = true <;> simp [step, hc]

/-! ## Random generators -/

/-- What Pynguin sees of the tracked instances: the state of its own generator(s), by position. -/
def pyView (i : Inst) : Option Rng := if i.isPynguin then some i.rng else none

theorem setInst_view {l : List Inst} {i : Nat} {inst : Inst} (r : Rng) (h : l[i]? = some inst)
    (hp : inst.isPynguin = false) : (setInst l i r).map pyView = l.map pyView := by
  induction l generalizing i with
  | nil => rfl
  | cons x t ih =>
    cases i with
    | zero =>
      simp only [List.getElem?_cons_zero, Option.some.injEq] at h
      subst h
      simp [setInst, pyView, hp]
    | succ j =>
      simp only [List.getElem?_cons_succ] at h
      simp [setInst, ih h]

theorem step_view (a : Action) (s : Proc) : (step a s).1.tracked.map pyView = s.tracked.map pyView := by
  cases a with
  | instRand i =>
    simp only [step]
    split
    · rfl
    · rename_i inst hi
      by_cases hp : inst.isPynguin = true
      · simp [hp]
      · simp only [hp]; exact setInst_view _ hi (by simpa using hp)
  | instSeed i x =>
    simp only [step]
    split
    · rfl
    · rename_i inst hi
      by_cases hp : inst.isPynguin = true
      · simp [hp]
      · simp only [hp]; exact setInst_view _ hi (by simpa using hp)
  | close sl =>
    simp only [step, Proc.closeSlot]
    cases s.get sl <;> cases sl <;> simp [Proc.put] <;> split <;> rfl
  | bind sl => cases sl <;> rfl
  | print e => rw [step_print_fst]
  | closeFd fd => simp only [step]; split <;> rfl
  | _ => rfl

theorem runStmts_view (t : List Action) (s : Proc) :
    (runStmts t s).1.tracked.map pyView = s.tracked.map pyView := by
  induction t generalizing s with
  | nil => rfl
  | cons a as ih =>
    simp only [runStmts]
    split
    · exact step_view a s
    · rw [ih, step_view]

theorem makeDeterministic_view (s : Proc) :
    (makeDeterministic s).tracked.map pyView = s.tracked.map pyView := by
  simp only [makeDeterministic, List.map_map]
  apply List.map_congr_left
  intro i _
  by_cases hp : i.isPynguin = true <;> simp [pyView, hp]

theorem enter_other (cfg : Cfg) (c : Ctx) (s : Proc) :
    (enter cfg c s).2.tracked = s.tracked ∧ (enter cfg c s).2.inp = s.inp ∧
    (enter cfg c s).2.logDisable = s.logDisable ∧ (enter cfg c s).2.origInClosed = s.origInClosed ∧
    (enter cfg c s).2.cfgSeed = s.cfgSeed ∧ (enter cfg c s).2.globalRng = s.globalRng ∧
    (enter cfg c s).2.glob = s.glob := by
  simp only [enter]
  obtain ⟨h1, h2, h3, h4, h5, h6, h7⟩ := reopenNull_other cfg s
  exact ⟨h3, h1, h2, h7, h5, h4, h6⟩

theorem restore_other (c : Ctx) (s : Proc) :
    (restore c s).2.tracked = s.tracked ∧ (restore c s).2.inp = s.inp ∧
    (restore c s).2.logDisable = s.logDisable ∧ (restore c s).2.origInClosed = s.origInClosed ∧
    (restore c s).2.cfgSeed = s.cfgSeed ∧ (restore c s).2.globalRng = s.globalRng ∧
    (restore c s).2.glob = s.glob := by
  unfold restore; split <;> simp

theorem putBack_other (cfg : Cfg) (s0 s : Proc) :
    (putBack cfg s0 s).tracked = s.tracked ∧ (putBack cfg s0 s).origInClosed = s.origInClosed ∧
    (putBack cfg s0 s).out = s.out ∧ (putBack cfg s0 s).err = s.err ∧
    (putBack cfg s0 s).cfgSeed = s.cfgSeed := by
  unfold putBack; split <;> split <;> simp

/-! ## The original `sys.stdin` object -/

theorem step_origIn {a : Action} (s : Proc) (h : a ≠ .close .inp) :
    (step a s).1.origInClosed = s.origInClosed := by
  cases a with
  | close sl =>
    cases sl with
    | inp => exact absurd rfl h
    | out => simp only [step, Proc.closeSlot]; cases s.get .out <;> simp [Proc.put] <;> split <;> rfl
    | err => simp only [step, Proc.closeSlot]; cases s.get .err <;> simp [Proc.put] <;> split <;> rfl
  | bind sl => cases sl <;> rfl
  | print e => rw [step_print_fst]
  | closeFd fd => simp only [step]; split <;> rfl
  | instRand i => simp only [step]; split <;> (try split) <;> rfl
  | instSeed i x => simp only [step]; split <;> (try split) <;> rfl
  | _ => rfl

theorem runStmts_origIn {t : List Action} (s : Proc) (h : Action.close .inp ∉ t) :
    (runStmts t s).1.origInClosed = s.origInClosed := by
  induction t generalizing s with
  | nil => rfl
  | cons a as ih =>
    have h1 : a ≠ .close .inp := fun e => h (by simp [e])
    have h2 : Action.close .inp ∉ as := fun e => h (by simp [e])
    simp only [runStmts]
    split
    · exact step_origIn s h1
    · rw [ih _ h2, step_origIn s h1]

/-! ## What the statements of a test case can observe

`view` keeps exactly the part of the process state that the outcome of a statement without hidden
state depends on; `stepV` recomputes a statement on the view alone. -/

/-- A statement whose outcome does not involve a module global or a descriptor number outside
0/1/2. -/
def Action.stateless : Action → Bool
  | .openNew | .setGlobal _ | .getGlobal => false
  | .closeFd fd => decide (fd < 3)
  | _ => true

/-- The generator of a tracked instance as far as the module under test can reach it. -/
def vis (i : Inst) : Option Rng := if i.isPynguin then none else some i.rng

structure View where
  inp : Obj
  out : Obj
  err : Obj
  nullClosed : Bool
  o0 : Bool
  o1 : Bool
  o2 : Bool
  grng : Rng
  insts : List (Option Rng)
  cfgSeed : Nat
  deriving DecidableEq, Repr

def view (s : Proc) : View :=
  ⟨s.inp, s.out, s.err, s.nullClosed, (lookup s.fds 0).isSome, (lookup s.fds 1).isSome,
   (lookup s.fds 2).isSome, s.globalRng, s.tracked.map vis, s.cfgSeed⟩

def View.get (v : View) : Slot → Obj
  | .inp => v.inp | .out => v.out | .err => v.err

def View.put (v : View) (sl : Slot) (o : Obj) : View :=
  match sl with
  | .inp => { v with inp := o } | .out => { v with out := o } | .err => { v with err := o }

def View.isClosed (v : View) (sl : Slot) : Bool :=
  match v.get sl with
  | .orig => false
  | .null => v.nullClosed
  | .other c => c

def View.closeSlot (v : View) (sl : Slot) : View :=
  match v.get sl with
  | .orig => v
  | .null => { v with nullClosed := true }
  | .other _ => v.put sl (.other true)

def setVis : List (Option Rng) → Nat → Rng → List (Option Rng)
  | [], _, _ => []
  | _ :: t, 0, r => some r :: t
  | x :: t, i + 1, r => x :: setVis t i r

def stepV (a : Action) (v : View) : View × Outcome :=
  match a with
  | .print e => if v.isClosed (if e then .err else .out) then (v, .closedFile) else (v, .ok)
  | .raise => (v, .raised)
  | .close sl => (v.closeSlot sl, .ok)
  | .bind sl => (v.put sl (.other false), .ok)
  | .closeFd fd =>
    if fd = 0 then (if v.o0 then ({ v with o0 := false }, .ok) else (v, .osError))
    else if fd = 1 then (if v.o1 then ({ v with o1 := false }, .ok) else (v, .osError))
    else if fd = 2 then (if v.o2 then ({ v with o2 := false }, .ok) else (v, .osError))
    else (v, .ok)
  | .logDisable _ => (v, .ok)
  | .seed x => ({ v with grng := ⟨x, 0⟩ }, .ok)
  | .rand => ({ v with grng := { v.grng with draws := v.grng.draws + 1 } }, .rnd v.grng.seed v.grng.draws)
  | .instRand i =>
    match v.insts[i]? with
    | some (some r) =>
      ({ v with insts := setVis v.insts i { r with draws := r.draws + 1 } }, .rnd r.seed r.draws)
    | _ => (v, .notSut)
  | .instSeed i x =>
    match v.insts[i]? with
    | some (some _) => ({ v with insts := setVis v.insts i ⟨x.getD v.cfgSeed, 0⟩ }, .ok)
    | _ => (v, .notSut)
  | _ => (v, .ok)

def runStmtsV : List Action → View → List Outcome
  | [], _ => []
  | a :: as, v =>
    let r := stepV a v
    if r.2.isExc then [r.2] else r.2 :: runStmtsV as r.1

/-- While the test case runs, `sys.stdout`/`sys.stderr` are not the interpreter's objects and an open
`_null_file` does not sit on a standard descriptor. -/
def Good (s : Proc) : Prop :=
  s.out ≠ .orig ∧ s.err ≠ .orig ∧ (s.nullClosed = true ∨ 3 ≤ s.nullFd)

theorem setInst_vis {l : List Inst} {i : Nat} {inst : Inst} (r : Rng) (h : l[i]? = some inst)
    (hp : inst.isPynguin = false) : (setInst l i r).map vis = setVis (l.map vis) i r := by
  induction l generalizing i with
  | nil => simp at h
  | cons x t ih =>
    cases i with
    | zero =>
      simp only [List.getElem?_cons_zero, Option.some.injEq] at h
      subst h
      simp [setInst, setVis, vis, hp]
    | succ j =>
      simp only [List.getElem?_cons_succ] at h
      simp [setInst, setVis, ih h]

theorem view_isClosed (s : Proc) (sl : Slot) (h : s.get sl ≠ .orig) :
    s.isClosed sl = (view s).isClosed sl := by
  unfold Proc.isClosed View.isClosed
  have : (view s).get sl = s.get sl := by cases sl <;> rfl
  rw [this]
  cases hg : s.get sl with
  | orig => exact absurd hg h
  | null => rfl
  | other c => rfl

theorem step_view_sim {a : Action} {s : Proc} (g : Good s) (hs : a.stateless = true) :
    view (step a s).1 = (stepV a (view s)).1 ∧ (step a s).2 = (stepV a (view s)).2 ∧
      Good (step a s).1 := by
  obtain ⟨go, ge, gn⟩ := g
  cases a with
  | print e =>
    have hc : s.isClosed (if e then .err else .out) = (view s).isClosed (if e then .err else .out) := by
      cases e
      · exact view_isClosed s .out go
      · exact view_isClosed s .err ge
    simp only [step, stepV, ← hc]
    by_cases h : s.isClosed (if e then .err else .out) = true <;> simp [h, Good, go, ge, gn]
  | raise => exact ⟨rfl, rfl, go, ge, gn⟩
  | close sl =>
    simp only [step, stepV]
    refine ⟨?_, by trivial, ?_⟩
    · unfold Proc.closeSlot View.closeSlot
      have hg : (view s).get sl = s.get sl := by cases sl <;> rfl
      rw [hg]
      cases s.get sl with
      | orig => cases sl <;> rfl
      | null =>
        simp only
        by_cases hc : s.nullClosed = true
        · simp [hc, view]
        · have h3 : 3 ≤ s.nullFd := by rcases gn with h | h; exact absurd h hc; exact h
          simp only [hc]
          simp only [view, Bool.false_eq_true, if_false, View.mk.injEq, true_and]
          rw [lookup_erase_ne _ (by omega : s.nullFd ≠ 0), lookup_erase_ne _ (by omega : s.nullFd ≠ 1),
            lookup_erase_ne _ (by omega : s.nullFd ≠ 2)]
          simp
      | other c => cases sl <;> rfl
    · unfold Good
      rw [closeSlot_nullFd]
      refine ⟨?_, ?_, ?_⟩
      · unfold Proc.closeSlot
        cases hg : s.get sl <;> cases sl <;> simp [Proc.put, go] <;> (try split) <;> simp_all [Proc.get]
      · unfold Proc.closeSlot
        cases hg : s.get sl <;> cases sl <;> simp [Proc.put, ge] <;> (try split) <;> simp_all [Proc.get]
      · rcases gn with h | h
        · exact Or.inl (closeSlot_nullClosed_mono s sl h)
        · exact Or.inr h
  | bind sl => cases sl <;> simp [step, stepV, view, Proc.put, View.put, Good, go, ge, gn]
  | closeFd fd =>
    have hfd : fd < 3 := by simpa [Action.stateless] using hs
    have : fd = 0 ∨ fd = 1 ∨ fd = 2 := by omega
    rcases this with rfl | rfl | rfl
    · cases h0 : lookup s.fds 0 with
      | none => simp [step, stepV, h0, view, Good, go, ge, gn]
      | some d =>
        simp [step, stepV, h0, view, Good, go, ge, gn, lookup_erase_eq,
          lookup_erase_ne s.fds (by decide : (0 : Nat) ≠ 1), lookup_erase_ne s.fds (by decide : (0 : Nat) ≠ 2)]
    · cases h1 : lookup s.fds 1 with
      | none => simp [step, stepV, h1, view, Good, go, ge, gn]
      | some d =>
        simp [step, stepV, h1, view, Good, go, ge, gn, lookup_erase_eq,
          lookup_erase_ne s.fds (by decide : (1 : Nat) ≠ 0), lookup_erase_ne s.fds (by decide : (1 : Nat) ≠ 2)]
    · cases h2 : lookup s.fds 2 with
      | none => simp [step, stepV, h2, view, Good, go, ge, gn]
      | some d =>
        simp [step, stepV, h2, view, Good, go, ge, gn, lookup_erase_eq,
          lookup_erase_ne s.fds (by decide : (2 : Nat) ≠ 0), lookup_erase_ne s.fds (by decide : (2 : Nat) ≠ 1)]
  | openNew => simp [Action.stateless] at hs
  | setGlobal v => simp [Action.stateless] at hs
  | getGlobal => simp [Action.stateless] at hs
  | logDisable l => exact ⟨rfl, rfl, go, ge, gn⟩
  | seed x => exact ⟨rfl, rfl, go, ge, gn⟩
  | rand => exact ⟨rfl, rfl, go, ge, gn⟩
  | instRand i =>
    have hm : (view s).insts[i]? = (s.tracked[i]?).map vis := by simp [view]
    simp only [step, stepV, hm]
    cases hi : s.tracked[i]? with
    | none => exact ⟨rfl, rfl, go, ge, gn⟩
    | some inst =>
      by_cases hp : inst.isPynguin = true
      · simp [hp, vis, Good, go, ge, gn]
      · have hp' : inst.isPynguin = false := by simpa using hp
        simp only [hp', Option.map_some, vis, Bool.false_eq_true, if_false]
        refine ⟨?_, by trivial, go, ge, gn⟩
        simp only [view, View.mk.injEq, true_and, and_true]
        exact setInst_vis _ hi hp'
  | instSeed i x =>
    have hm : (view s).insts[i]? = (s.tracked[i]?).map vis := by simp [view]
    simp only [step, stepV, hm]
    cases hi : s.tracked[i]? with
    | none => exact ⟨rfl, rfl, go, ge, gn⟩
    | some inst =>
      by_cases hp : inst.isPynguin = true
      · simp [hp, vis, Good, go, ge, gn]
      · have hp' : inst.isPynguin = false := by simpa using hp
        simp only [hp', Option.map_some, vis, Bool.false_eq_true, if_false]
        refine ⟨?_, by trivial, go, ge, gn⟩
        simp only [view, View.mk.injEq, true_and, and_true]
        exact setInst_vis _ hi hp'

theorem runStmts_view_sim {t : List Action} {s : Proc} (g : Good s)
    (hs : ∀ a ∈ t, Action.stateless a = true) : (runStmts t s).2 = runStmtsV t (view s) := by
  induction t generalizing s with
  | nil => rfl
  | cons a as ih =>
    obtain ⟨hv, ho, g'⟩ := step_view_sim g (hs a (by simp))
    simp only [runStmts, runStmtsV, ho]
    split
    · rfl
    · simp only [List.cons.injEq, true_and]
      rw [ih g' (fun b hb => hs b (by simp [hb])), hv]

/-! ## The start of every execution looks the same -/

/-- The view with which the statements of every test case start (repaired code, normal state):
a function of `sys.stdin`, the configured seed and *which* tracked instances are Pynguin's. -/
def startView (inp : Obj) (cfgSeed : Nat) (flags : List Bool) : View :=
  ⟨inp, .null, .null, false, true, true, true, ⟨cfgSeed, 0⟩,
   flags.map (fun p => if p then none else some ⟨cfgSeed, 0⟩), cfgSeed⟩

theorem reopenNull_repaired_open (m : Proc) : (reopenNull .repaired m).nullClosed = false := by
  unfold reopenNull
  split
  · rfl
  · rename_i h
    simpa [Cfg.repaired] using h

theorem enter_view (s : Proc) (wf : WF s) :
    view (enter .repaired Ctx.new (makeDeterministic s)).2 =
        startView s.inp s.cfgSeed (s.tracked.map (·.isPynguin)) ∧
      Good (enter .repaired Ctx.new (makeDeterministic s)).2 := by
  obtain ⟨d0, h0⟩ := Option.isSome_iff_exists.mp wf.fd0
  obtain ⟨d1, h1⟩ := Option.isSome_iff_exists.mp wf.fd1
  obtain ⟨d2, h2⟩ := Option.isSome_iff_exists.mp wf.fd2
  have m0 : lookup (makeDeterministic s).fds 0 = some d0 := h0
  have m1 : lookup (makeDeterministic s).fds 1 = some d1 := h1
  have m2 : lookup (makeDeterministic s).fds 2 = some d2 := h2
  have k0 := reopenNull_lookup .repaired _ m0
  have k1 := reopenNull_lookup .repaired _ m1
  have k2 := reopenNull_lookup .repaired _ m2
  have k3 : 3 ≤ (reopenNull .repaired (makeDeterministic s)).nullFd := by
    unfold reopenNull
    split
    · have a0 := lowestFree_ne m0
      have a1 := lowestFree_ne m1
      have a2 := lowestFree_ne m2
      simp only; omega
    · rename_i h
      have hc : s.nullClosed = false := by simpa [Cfg.repaired, makeDeterministic] using h
      rcases wf.null with hn | hn
      · rw [hc] at hn; cases hn
      · exact hn.2
  have kc := reopenNull_repaired_open (makeDeterministic s)
  obtain ⟨o1, o2, o3, o4, o5, o6, o7⟩ := reopenNull_other .repaired (makeDeterministic s)
  obtain ⟨a, b, c, heq, hab, hac, hbc, h3a, h3b, h3c, fa, fb, fc⟩ := enter_new_eq .repaired _ k0 k1 k2
  rw [heq]
  generalize reopenNull .repaired (makeDeterministic s) = s1 at *
  refine ⟨?_, by simp, by simp, Or.inr k3⟩
  simp only [view, startView, View.mk.injEq]
  refine ⟨o1, trivial, trivial, kc, ?_, ?_, ?_, ?_, ?_, ?_⟩
  · rw [lookup_set_ne _ _ (by omega), lookup_set_ne _ _ (by omega), lookup_set_ne _ _ (by omega), k0]; rfl
  · rw [lookup_set_ne _ _ (by omega), lookup_set_ne _ _ (by omega), lookup_set_ne _ _ (by omega), k1]; rfl
  · rw [lookup_set_ne _ _ (by omega), lookup_set_ne _ _ (by omega), lookup_set_ne _ _ (by omega), k2]; rfl
  · rw [o4]; rfl
  · rw [o3]
    simp only [makeDeterministic, List.map_map]
    apply List.map_congr_left
    intro i _
    by_cases hp : i.isPynguin = true <;> simp [vis, hp]
  · rw [o5]; rfl

/-- With the repaired code and Pynguin's process in its normal state, the outcomes of a test case
without hidden state are a function of the test case, `sys.stdin`, the configured seed and the
positions of Pynguin's own generators among the tracked instances — of nothing else. -/
theorem execute_result_eq (s : Proc) (t : Test) (wf : WF s)
    (hs : ∀ a ∈ t, Action.stateless a = true) :
    (execute .repaired s t).2 =
      runStmtsV t (startView s.inp s.cfgSeed (s.tracked.map (·.isPynguin))) := by
  obtain ⟨hv, g⟩ := enter_view s wf
  simp only [execute]
  rw [runStmts_view_sim g hs, hv]

/-! ## What stays fixed along a history -/

theorem setInst_flags (l : List Inst) (i : Nat) (r : Rng) :
    (setInst l i r).map (·.isPynguin) = l.map (·.isPynguin) := by
  induction l generalizing i with
  | nil => rfl
  | cons x t ih => cases i <;> simp [setInst, ih]

theorem step_env (a : Action) (s : Proc) :
    (step a s).1.cfgSeed = s.cfgSeed ∧
      (step a s).1.tracked.map (·.isPynguin) = s.tracked.map (·.isPynguin) := by
  cases a with
  | instRand i =>
    simp only [step]
    split
    · exact ⟨rfl, rfl⟩
    · split
      · exact ⟨rfl, rfl⟩
      · exact ⟨rfl, setInst_flags _ _ _⟩
  | instSeed i x =>
    simp only [step]
    split
    · exact ⟨rfl, rfl⟩
    · split
      · exact ⟨rfl, rfl⟩
      · exact ⟨rfl, setInst_flags _ _ _⟩
  | close sl =>
    simp only [step, Proc.closeSlot]
    cases s.get sl <;> cases sl <;> simp [Proc.put] <;> split <;> simp
  | bind sl => cases sl <;> exact ⟨rfl, rfl⟩
  | print e => rw [step_print_fst]; exact ⟨rfl, rfl⟩
  | closeFd fd => simp only [step]; split <;> exact ⟨rfl, rfl⟩
  | _ => exact ⟨rfl, rfl⟩

theorem runStmts_env (t : List Action) (s : Proc) :
    (runStmts t s).1.cfgSeed = s.cfgSeed ∧
      (runStmts t s).1.tracked.map (·.isPynguin) = s.tracked.map (·.isPynguin) := by
  induction t generalizing s with
  | nil => exact ⟨rfl, rfl⟩
  | cons a as ih =>
    simp only [runStmts]
    split
    · exact step_env a s
    · exact ⟨(ih _).1.trans (step_env a s).1, (ih _).2.trans (step_env a s).2⟩

theorem execute_env (cfg : Cfg) (s : Proc) (t : Test) :
    (execute cfg s t).1.cfgSeed = s.cfgSeed ∧
      (execute cfg s t).1.tracked.map (·.isPynguin) = s.tracked.map (·.isPynguin) := by
  simp only [execute]
  obtain ⟨p1, _, _, _, p5⟩ := putBack_other cfg s (restore (enter cfg Ctx.new (makeDeterministic s)).1
    (runStmts t (enter cfg Ctx.new (makeDeterministic s)).2).1).2
  obtain ⟨r1, _, _, _, r5, _, _⟩ := restore_other (enter cfg Ctx.new (makeDeterministic s)).1
    (runStmts t (enter cfg Ctx.new (makeDeterministic s)).2).1
  obtain ⟨e1, _, _, _, e5, _, _⟩ := enter_other cfg Ctx.new (makeDeterministic s)
  obtain ⟨q5, q1⟩ := runStmts_env t (enter cfg Ctx.new (makeDeterministic s)).2
  rw [p1, p5, r1, r5, q1, q5, e1, e5]
  refine ⟨rfl, ?_⟩
  simp only [makeDeterministic, List.map_map]
  apply List.map_congr_left
  intro i _
  by_cases hp : i.isPynguin = true <;> simp [hp]

/-- Every test case of the history leaves Pynguin's own descriptors alone (`Tame` in the state in
which it is executed). -/
def TameHist (cfg : Cfg) : Proc → List Test → Prop
  | _, [] => True
  | s, t :: ts => Tame cfg s t ∧ TameHist cfg (execute cfg s t).1 ts

instance TameHist.dec (cfg : Cfg) : (s : Proc) → (h : List Test) → Decidable (TameHist cfg s h)
  | _, [] => isTrue trivial
  | s, t :: ts =>
    have := TameHist.dec cfg (execute cfg s t).1 ts
    inferInstanceAs (Decidable (Tame cfg s t ∧ TameHist cfg (execute cfg s t).1 ts))

/-- Normal state, and the same `sys.stdin`, configured seed and tracked instances as `s0`. -/
def SameEnv (s0 s : Proc) : Prop :=
  WF s ∧ s.inp = s0.inp ∧ s.cfgSeed = s0.cfgSeed ∧
    s.tracked.map (·.isPynguin) = s0.tracked.map (·.isPynguin)

theorem execute_sameEnv {s0 s : Proc} {t : Test} (h : SameEnv s0 s) (tame : Tame .repaired s t) :
    SameEnv s0 (execute .repaired s t).1 := by
  obtain ⟨wf, hi, hc, hf⟩ := h
  obtain ⟨_, _, _, wf'⟩ := execute_fds_core .repaired s t wf tame
  obtain ⟨ec, ef⟩ := execute_env .repaired s t
  refine ⟨wf', ?_, ec.trans hc, ef.trans hf⟩
  have : (execute .repaired s t).1.inp = s.inp := by
    simp [execute, putBack, Cfg.repaired]
  exact this.trans hi

theorem runHistory_sameEnv {s0 s : Proc} {h : List Test} (e : SameEnv s0 s)
    (th : TameHist .repaired s h) : SameEnv s0 (runHistory .repaired s h).1 := by
  induction h generalizing s with
  | nil => exact e
  | cons t ts ih =>
    simp only [runHistory]
    exact ih (execute_sameEnv e th.1) th.2

end PynguinModel.ExecIsolation
