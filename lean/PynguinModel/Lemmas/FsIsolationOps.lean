import PynguinModel.Lemmas.FsIsolation
/-!
# Every tracked operation preserves the isolation invariant (C29)
-/

namespace PynguinModel.FsIsolation

variable {init : FS}

/-- `f` preserves the invariant, whatever it returns -/
def Pres (init : FS) (f : St → St × Res) : Prop := ∀ s, Inv init s → Inv init (f s).1

/-! ## state changes of the leaf calls -/

/-- a new or rewritten node at an owned path, recorded -/
theorem Inv.create {s : St} (hs : Inv init s) (hpc : PrefixClosed init) {p : Path} (ho : owns s p = true)
    (fs' : FS) (hother : ∀ r, r ≠ p → get fs' r = get s.fs r) : Inv init ⟨fs', record s.created [p]⟩ := by
  have hfp := hs.owns_fresh hpc ho
  refine hs.step fs' _ ?_ ?_ ?_
  · intro c hc
    rcases mem_record.1 hc with h | h
    · exact Or.inl h
    · simp only [List.mem_singleton] at h; subst h; exact Or.inr hfp
  · intro r hr
    apply hother
    intro e; subst e; exact hr hfp
  · intro r hr
    by_cases e : r = p
    · subst e
      exact Or.inr (covered_iff.2 ⟨r, mem_record.2 (Or.inr (by simp)), under_refl r⟩)
    · rw [hother r e] at hr
      exact (hs.cov r hr).imp id (covered_mono (fun c hc => mem_record.2 (Or.inl hc)))

/-- a recorded subtree is removed and forgotten -/
theorem Inv.remove {s : St} (hs : Inv init s) (hpc : PrefixClosed init) {p : Path} (hp : p ∈ s.created) :
    Inv init ⟨removeSubtree s.fs p, record (forget s.created p) []⟩ := by
  refine hs.step _ _ ?_ ?_ ?_
  · intro c hc
    rcases mem_record.1 hc with h | h
    · exact Or.inl (mem_forget.1 h).1
    · simp at h
  · intro r hr
    rw [get_removeSubtree]
    by_cases hu : under p r = true
    · exact absurd (hs.covered_fresh hpc (covered_iff.2 ⟨p, hp, hu⟩)) hr
    · simp [hu]
  · intro r hr
    rw [get_removeSubtree] at hr
    by_cases hu : under p r = true
    · simp [hu] at hr
    · simp only [hu] at hr
      refine (hs.cov r (by simpa using hr)).imp id ?_
      intro hc
      obtain ⟨c, hm, hcu⟩ := covered_iff.1 hc
      refine covered_iff.2 ⟨c, mem_record.2 (Or.inl (mem_forget.2 ⟨hm, ?_⟩)), hcu⟩
      intro e; subst e; exact hu hcu

/-- the contents of a recorded directory are removed -/
theorem Inv.removeBelow {s : St} (hs : Inv init s) (hpc : PrefixClosed init) {p : Path} (hp : p ∈ s.created) :
    Inv init ⟨removeBelow s.fs p, s.created⟩ := by
  refine hs.step _ _ (fun c hc => Or.inl hc) ?_ ?_
  · intro r hr
    rw [get_removeBelow]
    by_cases hu : under p r = true
    · exact absurd (hs.covered_fresh hpc (covered_iff.2 ⟨p, hp, hu⟩)) hr
    · simp [hu]
  · intro r hr
    rw [get_removeBelow] at hr
    by_cases hu : (under p r && r != p) = true
    · simp [hu] at hr
    · simp only [hu] at hr
      exact hs.cov r (by simpa using hr)

/-- a recorded subtree moves to an owned destination; the source is forgotten, the destination recorded -/
theorem Inv.rename {s : St} (hs : Inv init s) (hpc : PrefixClosed init) {p q : Path} (hp : p ∈ s.created)
    (hq : owns s q = true) : Inv init ⟨renameSubtree s.fs p q, record (forget s.created p) [q]⟩ := by
  have hfq := hs.owns_fresh hpc hq
  refine hs.step _ _ ?_ ?_ ?_
  · intro c hc
    rcases mem_record.1 hc with h | h
    · exact Or.inl (mem_forget.1 h).1
    · simp only [List.mem_singleton] at h; subst h; exact Or.inr hfq
  · intro r hr
    apply get_rename_other
    · cases hu : under p r with
      | false => rfl
      | true => exact absurd (hs.covered_fresh hpc (covered_iff.2 ⟨p, hp, hu⟩)) hr
    · cases hu : under q r with
      | false => rfl
      | true => exact absurd (fresh_below hpc hfq hu) hr
  · intro r hr
    rcases get_rename_ne_none _ _ _ _ hr with h | ⟨h1, h2⟩
    · exact Or.inr (covered_iff.2 ⟨q, mem_record.2 (Or.inr (by simp)), h⟩)
    · refine (hs.cov r h1).imp id ?_
      intro hc
      obtain ⟨c, hm, hcu⟩ := covered_iff.1 hc
      refine covered_iff.2 ⟨c, mem_record.2 (Or.inl (mem_forget.2 ⟨hm, ?_⟩)), hcu⟩
      intro e; subst e; rw [hcu] at h2; cases h2

/-- renaming a recorded path onto itself keeps it recorded (forget first, then record) -/
theorem Inv.renameSame {s : St} (hs : Inv init s) {p : Path} (hp : p ∈ s.created) :
    Inv init ⟨s.fs, record (forget s.created p) [p]⟩ := by
  refine hs.recordMono _ ?_ ?_
  · intro c hc
    by_cases e : c = p
    · exact mem_record.2 (Or.inr (by simp [e]))
    · exact mem_record.2 (Or.inl (mem_forget.2 ⟨hc, e⟩))
  · intro c hc
    rcases mem_record.1 hc with h | h
    · exact Or.inl (mem_forget.1 h).1
    · simp only [List.mem_singleton] at h; subst h; exact Or.inl hp

/-! ## the unpatched calls -/

theorem rawOpen_other {sp : OpenSpec} {fs fs' : FS} {p : Path} {d : List Nat}
    (h : rawOpen sp fs p d = some fs') (r : Path) (hr : r ≠ p) : get fs' r = get fs r := by
  unfold rawOpen at h
  have hp : ∀ n, get (put fs p n) r = get fs r := by
    intro n; rw [get_put, if_neg (fun e => hr e.symm)]
  split at h
  · split at h
    · injection h with h; subst h; exact hp _
    · cases h
  · split at h
    · injection h with h; subst h; rfl
    · cases h
  · split at h
    · cases h
    · split at h
      · injection h with h; subst h; exact hp _
      · injection h with h; subst h; rfl

theorem rawOpen_mode_readonly {m : Mode} (hm : isWriteMode m = false) {fs fs' : FS} {p : Path} {d : List Nat}
    (h : rawOpen (modeSpec m) fs p d = some fs') : fs' = fs := by
  cases m <;> simp [isWriteMode] at hm <;>
  · unfold rawOpen modeSpec at h
    split at h <;> simp at h <;> exact h.symm

theorem rawOpen_flags_readonly {fl : Flags} (hm : flagged fl = false) {fs fs' : FS} {p : Path} {d : List Nat}
    (h : rawOpen (flagSpec fl) fs p d = some fs') : fs' = fs := by
  cases fl <;> simp [flagged] at hm <;>
  · unfold rawOpen flagSpec at h
    split at h <;> simp at h <;> exact h.symm

theorem rawRename_spec {fs fs' : FS} {p q : Path} (h : rawRename fs p q = some fs') :
    get fs p ≠ none ∧ ((p = q ∧ fs' = fs) ∨ fs' = renameSubtree fs p q) := by
  unfold rawRename at h
  split at h
  · cases h
  · rename_i src hsrc
    refine ⟨by simp [hsrc], ?_⟩
    split at h
    · rename_i e; injection h with h; exact Or.inl ⟨e, h.symm⟩
    · split at h
      · cases h
      · split at h
        · cases h
        · right
          split at h
          · injection h with h; exact h.symm
          · injection h with h; exact h.symm
          · cases h
          · cases h
          · split at h
            · cases h
            · injection h with h; exact h.symm

/-! ## the wrappers -/

theorem trackedOpen_leaf (hpc : PrefixClosed init) (write : Bool) (p : Path) (raw : FS → Option FS)
    (hother : ∀ fs fs', raw fs = some fs' → ∀ r, r ≠ p → get fs' r = get fs r)
    (hro : write = false → ∀ fs fs', raw fs = some fs' → fs' = fs) :
    Pres init (trackedOpen write p (liftRaw raw)) := by
  intro s hs
  unfold trackedOpen
  by_cases hg : (write && !owns s p) = true
  · simp only [hg, if_true]; exact hs
  · simp only [hg]
    cases hraw : raw s.fs with
    | none => simp [liftRaw, hraw]; exact hs
    | some fs' =>
      cases write with
      | false =>
        have := hro rfl _ _ hraw
        subst this
        simp [liftRaw, hraw]; exact hs
      | true =>
        have ho : owns s p = true := by simpa using hg
        simp [liftRaw, hraw]
        exact hs.create hpc ho fs' (hother _ _ hraw)

theorem trackedOpen_comp (hpc : PrefixClosed init) (write : Bool) (p : Path) (inner : St → St × Res)
    (hin : Pres init inner) : Pres init (trackedOpen write p inner) := by
  intro s hs
  unfold trackedOpen
  by_cases hg : (write && !owns s p) = true
  · simp only [hg, if_true]; exact hs
  · simp only [hg]
    have hi := hin s hs
    by_cases hok : (inner s).2 = .ok
    · cases write with
      | false => simp [hok]; exact hi
      | true =>
        have ho : owns s p = true := by simpa using hg
        simp [hok]
        refine hi.recordMono _ (fun c hc => mem_record.2 (Or.inl hc)) ?_
        intro c hc
        rcases mem_record.1 hc with h | h
        · exact Or.inl h
        · simp only [List.mem_singleton] at h; subst h; exact Or.inr (hs.owns_fresh hpc ho)
    · simp [hok]; exact hi

/-- the generic wrapper around a body that itself preserves the invariant -/
theorem tracked_comp (hpc : PrefixClosed init) (t : Track) (body : St → St × Res) (s : St) (hs : Inv init s)
    (hb : (∀ p, t.forgetArg = some p → p ∈ s.created) → Inv init (body s).1)
    (hf : ∀ p, t.forgetArg = some p → (body s).2 = .ok → p ∈ (body s).1.created →
      p ∈ (optList t.recArg ++ optList t.dstArg).filter (owns s)) :
    Inv init (tracked t body s).1 := by
  unfold tracked
  by_cases g1 : (optList t.forgetArg).any (fun p => !decide (p ∈ s.created)) = true
  · simp only [g1, if_true]; exact hs
  · by_cases g2 : (t.replacesDst && (optList t.dstArg).any (fun q => !owns s q)) = true
    · simp only [g1, g2, if_true]; exact hs
    · simp only [g1, g2]
      have hfa : ∀ p, t.forgetArg = some p → p ∈ s.created := by
        intro p hp
        simp [hp, optList] at g1
        exact g1
      have hb' := hb hfa
      by_cases hok : (body s).2 = .ok
      · simp only [hok, if_true, Bool.false_eq_true, if_false]
        refine hb'.recordMono _ ?_ ?_
        · intro c hc
          cases hfo : t.forgetArg with
          | none => exact mem_record.2 (Or.inl (by simpa [forgetOpt] using hc))
          | some p =>
            by_cases e : c = p
            · subst e; exact mem_record.2 (Or.inr (hf c hfo hok hc))
            · exact mem_record.2 (Or.inl (by simpa [forgetOpt] using mem_forget.2 ⟨hc, e⟩))
        · intro c hc
          rcases mem_record.1 hc with h | h
          · left
            cases hfo : t.forgetArg with
            | none => simpa [hfo, forgetOpt] using h
            | some p => rw [hfo] at h; exact (mem_forget.1 h).1
          · right
            exact hs.owns_fresh hpc (List.mem_filter.1 h).2
      · simp only [hok, if_false, Bool.false_eq_true]; exact hb'

/-- a successful wrapper that only forgets has forgotten -/
theorem tracked_forgot (p : Path) (body : St → St × Res) (s : St)
    (h : (tracked { forgetArg := some p } body s).2 = .ok) :
    p ∉ (tracked { forgetArg := some p } body s).1.created := by
  unfold tracked at h ⊢
  by_cases g1 : (optList (some p)).any (fun p => !decide (p ∈ s.created)) = true
  · simp [g1] at h
  · simp only [g1] at h ⊢
    simp only [Bool.false_and, Bool.false_eq_true, if_false] at h ⊢
    by_cases hok : (body s).2 = .ok
    · simp only [hok, if_true]
      simp [optList, record, forgetOpt, forget]
    · simp [hok] at h

/-! ## leaves -/

theorem builtinOpen_pres (hpc : PrefixClosed init) (p : Path) (m : Mode) (d : List Nat) :
    Pres init (builtinOpen p m d) :=
  trackedOpen_leaf hpc _ p _ (fun _ _ h => rawOpen_other h) (fun hm _ _ h => rawOpen_mode_readonly hm h)

theorem pathOpen_pres (hpc : PrefixClosed init) (p : Path) (m : Mode) (d : List Nat) :
    Pres init (pathOpen p m d) :=
  trackedOpen_comp hpc _ p _ (builtinOpen_pres hpc p m d)

theorem osOpen_pres (hpc : PrefixClosed init) (p : Path) (fl : Flags) (d : List Nat) :
    Pres init (osOpen p fl d) :=
  trackedOpen_leaf hpc _ p _ (fun _ _ h => rawOpen_other h) (fun hm _ _ h => rawOpen_flags_readonly hm h)

/-- the three ways a tracked call can end -/
theorem tracked_cases (t : Track) (body : St → St × Res) (s : St) :
    (tracked t body s = (s, .refused)) ∨
    ((∀ p, t.forgetArg = some p → p ∈ s.created) ∧
     (t.replacesDst = true → ∀ q, t.dstArg = some q → owns s q = true) ∧
     (((body s).2 = .ok ∧ tracked t body s =
        (⟨(body s).1.fs, record (forgetOpt (body s).1.created t.forgetArg)
            ((optList t.recArg ++ optList t.dstArg).filter (owns s))⟩, .ok)) ∨
      ((body s).2 ≠ .ok ∧ tracked t body s = body s))) := by
  unfold tracked
  by_cases g1 : (optList t.forgetArg).any (fun p => !decide (p ∈ s.created)) = true
  · left; simp only [g1, if_true]
  · by_cases g2 : (t.replacesDst && (optList t.dstArg).any (fun q => !owns s q)) = true
    · left; simp only [g1, g2, if_true, Bool.false_eq_true, if_false]
    · right
      refine ⟨?_, ?_, ?_⟩
      · intro p hp
        simp [hp, optList] at g1
        exact g1
      · intro hr q hq
        simp [hr, hq, optList] at g2
        exact g2
      · by_cases hok : (body s).2 = .ok
        · left; refine ⟨hok, ?_⟩; simp only [g1, g2, hok, if_true, Bool.false_eq_true, if_false]
        · right; refine ⟨hok, ?_⟩; simp only [g1, g2, hok, if_false, Bool.false_eq_true]

theorem liftRaw_cases (raw : FS → Option FS) (s : St) :
    (raw s.fs = none ∧ liftRaw raw s = (s, .failed)) ∨
    (∃ fs', raw s.fs = some fs' ∧ liftRaw raw s = (⟨fs', s.created⟩, .ok)) := by
  unfold liftRaw
  cases h : raw s.fs with
  | none => left; exact ⟨rfl, rfl⟩
  | some fs' => right; exact ⟨fs', rfl, rfl⟩

theorem rawMkdir_ok {fs fs' : FS} {p : Path} (h : rawMkdir fs p = .ok fs') :
    pexists fs p = false ∧ fs' = put fs p .dir := by
  unfold rawMkdir at h
  by_cases hex : pexists fs p = true
  · simp [hex] at h
  · simp only [hex, Bool.false_eq_true, if_false] at h
    split at h
    · cases h
    · injection h with h; exact ⟨by simpa using hex, h.symm⟩
    · cases h

theorem liftMkdir_cases (p : Path) (s : St) :
    ((liftMkdir p s).2 ≠ .ok ∧ (liftMkdir p s).1 = s) ∨
    (pexists s.fs p = false ∧ liftMkdir p s = (⟨put s.fs p .dir, s.created⟩, .ok)) := by
  cases hm : rawMkdir s.fs p with
  | error e => left; cases e <;> simp [liftMkdir, hm]
  | ok fs' =>
    right
    obtain ⟨h1, h2⟩ := rawMkdir_ok hm
    subst h2
    exact ⟨h1, by simp [liftMkdir, hm]⟩

theorem osMkdir_pres (hpc : PrefixClosed init) (p : Path) : Pres init (osMkdir p) := by
  intro s hs
  unfold osMkdir
  rcases tracked_cases { recArg := some p } (liftMkdir p) s with h | ⟨_, _, ⟨hok, h⟩ | ⟨hok, h⟩⟩
  · rw [h]; exact hs
  · rw [h]
    rcases liftMkdir_cases p s with ⟨h1, _⟩ | ⟨hex, h2⟩
    · exact absurd hok h1
    · have ho : owns s p = true := by simp [owns, hex]
      rw [h2]
      simp only [optList, List.append_nil, forgetOpt, List.filter_cons, ho, if_true, List.filter_nil]
      refine hs.create hpc ho _ ?_
      intro r hr; rw [get_put, if_neg (fun e => hr e.symm)]
  · rw [h]
    rcases liftMkdir_cases p s with ⟨_, h2⟩ | ⟨_, h2⟩
    · rw [h2]; exact hs
    · rw [h2] at hok; exact absurd rfl hok

theorem osRename_pres (hpc : PrefixClosed init) (p q : Path) : Pres init (osRename p q) := by
  intro s hs
  unfold osRename
  rcases tracked_cases { forgetArg := some p, dstArg := some q, replacesDst := true }
      (liftRaw (fun fs => rawRename fs p q)) s with h | ⟨hp, hq, ⟨hok, h⟩ | ⟨hok, h⟩⟩
  · rw [h]; exact hs
  · rw [h]
    have hpm : p ∈ s.created := hp p rfl
    have hqo : owns s q = true := hq rfl q rfl
    rcases liftRaw_cases (fun fs => rawRename fs p q) s with ⟨_, h2⟩ | ⟨fs', hraw, h2⟩
    · rw [h2] at hok; cases hok
    · rw [h2]
      simp only [optList, List.nil_append, forgetOpt, List.filter_cons, hqo, if_true, List.filter_nil]
      rcases (rawRename_spec hraw).2 with ⟨e, hfs⟩ | hfs
      · subst e; subst hfs; exact hs.renameSame hpm
      · subst hfs; exact hs.rename hpc hpm hqo
  · rw [h]
    rcases liftRaw_cases (fun fs => rawRename fs p q) s with ⟨_, h2⟩ | ⟨fs', _, h2⟩
    · rw [h2]; exact hs
    · rw [h2] at hok; exact absurd rfl hok

theorem osRename_ok {p q : Path} {s : St} (h : (osRename p q s).2 = .ok) :
    owns s q = true ∧ pexists s.fs p = true ∧ (p ∈ (osRename p q s).1.created → p = q) := by
  unfold osRename at h ⊢
  rcases tracked_cases { forgetArg := some p, dstArg := some q, replacesDst := true }
      (liftRaw (fun fs => rawRename fs p q)) s with h1 | ⟨_, hq, ⟨hok, h1⟩ | ⟨hok, h1⟩⟩
  · rw [h1] at h; cases h
  · have hq := hq rfl q rfl
    rw [h1]
    rcases liftRaw_cases (fun fs => rawRename fs p q) s with ⟨_, h2⟩ | ⟨fs', hraw, h2⟩
    · rw [h2] at hok; cases hok
    · have hex := (rawRename_spec hraw).1
      refine ⟨hq, ?_, ?_⟩
      · simp only [pexists]
        cases hg : get s.fs p with
        | none => exact absurd hg hex
        | some n => rfl
      · rw [h2]
        simp only [optList, List.nil_append, forgetOpt, List.filter_cons, hq, if_true, List.filter_nil]
        intro hc
        rcases mem_record.1 hc with hc | hc
        · exact absurd rfl (mem_forget.1 hc).2
        · simpa using hc
  · rw [h1] at h; exact absurd h hok

/-- removal leaves: `os.unlink`, `os.remove`, `os.rmdir` -/
theorem removeLeaf_pres (hpc : PrefixClosed init) (p : Path) (raw : FS → Option FS)
    (hraw : ∀ fs fs', raw fs = some fs' → fs' = removeSubtree fs p) :
    Pres init (tracked { forgetArg := some p } (liftRaw raw)) := by
  intro s hs
  rcases tracked_cases { forgetArg := some p } (liftRaw raw) s with h | ⟨hp, _, ⟨hok, h⟩ | ⟨hok, h⟩⟩
  · rw [h]; exact hs
  · rw [h]
    have hp := hp p rfl
    rcases liftRaw_cases raw s with ⟨_, h2⟩ | ⟨fs', hr, h2⟩
    · rw [h2] at hok; cases hok
    · rw [h2, hraw _ _ hr]
      simp only [optList, List.append_nil, forgetOpt, List.filter_nil]
      exact hs.remove hpc hp
  · rw [h]
    rcases liftRaw_cases raw s with ⟨_, h2⟩ | ⟨fs', _, h2⟩
    · rw [h2]; exact hs
    · rw [h2] at hok; exact absurd rfl hok

theorem osUnlink_pres (hpc : PrefixClosed init) (p : Path) : Pres init (osUnlink p) :=
  removeLeaf_pres hpc p _ (by
    intro fs fs' h
    unfold rawUnlink at h
    split at h
    · injection h with h; exact h.symm
    · cases h)

theorem osRmdir_pres (hpc : PrefixClosed init) (p : Path) : Pres init (osRmdir p) :=
  removeLeaf_pres hpc p _ (by
    intro fs fs' h
    unfold rawRmdir at h
    split at h
    · injection h with h; exact h.symm
    · cases h)

end PynguinModel.FsIsolation
