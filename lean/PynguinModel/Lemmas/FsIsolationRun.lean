import PynguinModel.Lemmas.FsIsolationOps
/-!
# Composite library functions, whole runs and the exit cleanup (C29)
-/

namespace PynguinModel.FsIsolation

variable {init : FS}

/-- a wrapper that forgets nothing, around a body that preserves the invariant -/
theorem tracked_noforget (hpc : PrefixClosed init) (t : Track) (ht : t.forgetArg = none)
    (body : St → St × Res) (hb : Pres init body) : Pres init (tracked t body) := by
  intro s hs
  refine tracked_comp hpc t body s hs (fun _ => hb s hs) ?_
  intro p hp; rw [ht] at hp; cases hp

theorem touch_pres (hpc : PrefixClosed init) (p : Path) (e : Bool) : Pres init (touch p e) := by
  unfold touch
  refine tracked_noforget hpc _ rfl _ ?_
  intro s hs
  by_cases h : (e && pexists s.fs p) = true
  · simp only [h, if_true]; exact hs
  · simp only [h]; exact osOpen_pres hpc _ _ _ s hs

theorem writeText_pres (hpc : PrefixClosed init) (p : Path) (d : List Nat) : Pres init (writeText p d) :=
  tracked_noforget hpc _ rfl _ (pathOpen_pres hpc p .w d)

theorem copyfile_pres (hpc : PrefixClosed init) (p q : Path) : Pres init (copyfile p q) := by
  unfold copyfile
  refine tracked_noforget hpc _ rfl _ ?_
  intro s hs
  by_cases h : (decide (p = q) && pexists s.fs p) = true
  · simp only [h, if_true]; exact hs
  · simp only [h]
    have h1 := builtinOpen_pres hpc p .rb [] s hs
    by_cases hok : (builtinOpen p .rb [] s).2 = .ok
    · simp only [hok, ne_eq, not_true_eq_false, if_false, Bool.false_eq_true]
      exact builtinOpen_pres hpc q .wb _ _ h1
    · simp only [hok, ne_eq, not_false_eq_true, if_true, Bool.false_eq_true, if_false]; exact h1

theorem copy_pres (hpc : PrefixClosed init) (p q : Path) : Pres init (copy p q) := by
  unfold copy
  refine tracked_noforget hpc _ rfl _ ?_
  intro s hs
  exact copyfile_pres hpc _ _ s hs

theorem makedirs_tail (hpc : PrefixClosed init) (p : Path) (e : Bool) (r1 : St × Res) (h1 : Inv init r1.1) :
    Inv init (if r1.2 ≠ .ok then r1
      else if (osMkdir p r1.1).2 = .ok then osMkdir p r1.1
      else if (e && isDir (osMkdir p r1.1).1.fs p) = true then ((osMkdir p r1.1).1, Res.ok)
      else osMkdir p r1.1).1 := by
  have h2 := osMkdir_pres hpc p _ h1
  split
  · exact h1
  · split
    · exact h2
    · split
      · exact h2
      · exact h2

theorem makedirsAux_pres (hpc : PrefixClosed init) (fuel : Nat) :
    ∀ (p : Path) (e : Bool), Pres init (makedirsAux fuel p e) := by
  induction fuel with
  | zero => intro p e s hs; exact hs
  | succ n ih =>
    intro p e s0 hs0
    unfold makedirsAux
    refine tracked_noforget hpc _ rfl _ ?_ s0 hs0
    intro s hs
    have h1 : Inv init (if p ≠ [] ∧ (!pexists s.fs (parent p)) = true then makedirsAux n (parent p) e s
        else (s, Res.ok)).1 := by
      split
      · exact ih _ _ s hs
      · exact hs
    exact makedirs_tail hpc p e _ h1

theorem makedirs_pres (hpc : PrefixClosed init) (p : Path) (e : Bool) : Pres init (makedirs p e) :=
  makedirsAux_pres hpc _ p e

theorem pathMkdirAux_pres (hpc : PrefixClosed init) (fuel : Nat) :
    ∀ (p : Path) (ps e : Bool), Pres init (pathMkdirAux fuel p ps e) := by
  induction fuel with
  | zero => intro p ps e s hs; exact hs
  | succ n ih =>
    intro p ps e s0 hs0
    unfold pathMkdirAux
    refine tracked_noforget hpc _ rfl _ ?_ s0 hs0
    intro s hs
    have h1 := osMkdir_pres hpc p s hs
    try simp only
    split
    · exact h1
    · split
      · split
        · exact h1
        · have h2 := ih (parent p) true true _ h1
          split
          · exact h2
          · exact ih p false e _ h2
      · split
        · exact h1
        · exact h1

theorem pathMkdir_pres (hpc : PrefixClosed init) (p : Path) (ps e : Bool) : Pres init (pathMkdir p ps e) :=
  pathMkdirAux_pres hpc _ p ps e

theorem osUnlink_forgot {p : Path} {s : St} (h : (osUnlink p s).2 = .ok) : p ∉ (osUnlink p s).1.created :=
  tracked_forgot p _ s h

theorem osRmdir_forgot {p : Path} {s : St} (h : (osRmdir p s).2 = .ok) : p ∉ (osRmdir p s).1.created :=
  tracked_forgot p _ s h

theorem moveTo_pres (hpc : PrefixClosed init) (p q real : Path) : Pres init (moveTo p q real) := by
  intro s hs
  unfold moveTo
  have h1 := osRename_pres hpc p real s hs
  try simp only
  split
  · exact h1
  · split
    · split
      · exact h1
      · split
        · exact h1
        · exact h1
    · have h2 := copyfile_pres hpc p real _ h1
      split
      · exact h2
      · exact osUnlink_pres hpc p _ h2

/-- if `moveTo` succeeds and the source is still recorded, the source was renamed onto itself -/
theorem moveTo_ok {p q real : Path} {s : St} (h : (moveTo p q real s).2 = .ok)
    (hc : p ∈ (moveTo p q real s).1.created) : p = real ∧ owns s real = true ∧ pexists s.fs p = true := by
  unfold moveTo at h hc
  try simp only at h hc
  split at h
  · rename_i hok
    simp only [hok, if_true] at hc
    obtain ⟨h1, h2, h3⟩ := osRename_ok hok
    exact ⟨h3 hc, h1, h2⟩
  · rename_i hok
    simp only [hok, if_false] at hc
    split at h
    · split at h
      · cases h
      · split at h
        · cases h
        · cases h
    · rename_i hd
      simp only [hd, Bool.false_eq_true, if_false] at hc
      split at h
      · rename_i h2; exact absurd h h2
      · rename_i h2
        simp only [h2, if_false] at hc
        exact absurd hc (osUnlink_forgot h)

theorem move_pres (hpc : PrefixClosed init) (p q : Path) : Pres init (move p q) := by
  intro s hs
  unfold move
  refine tracked_comp hpc _ _ s hs ?_ ?_
  · intro _
    try simp only
    split
    · split
      · exact osRename_pres hpc p q s hs
      · split
        · exact hs
        · exact moveTo_pres hpc _ _ _ s hs
    · exact moveTo_pres hpc _ _ _ s hs
  · intro p' hp' hok hc
    simp only [Option.some.injEq] at hp'
    subst hp'
    simp only [optList, List.nil_append, List.mem_filter, List.mem_singleton]
    try simp only at hok hc
    split at hok
    · rename_i hd
      simp only [hd, if_true] at hc
      split at hok
      · rename_i e
        simp only [e, if_true] at hc
        obtain ⟨h1, _, _⟩ := osRename_ok hok
        exact ⟨e, by rw [e]; exact h1⟩
      · rename_i e
        simp only [e, if_false] at hc
        split at hok
        · cases hok
        · rename_i hex
          simp only [hex, Bool.false_eq_true, if_false] at hc
          obtain ⟨h1, _, h3⟩ := moveTo_ok hok hc
          rw [← h1] at hex
          exact absurd h3 hex
    · rename_i hd
      simp only [hd, Bool.false_eq_true, if_false] at hc
      obtain ⟨h1, h2, _⟩ := moveTo_ok hok hc
      exact ⟨h1, by rw [h1]; exact h2⟩

theorem pathRename_pres (hpc : PrefixClosed init) (p q : Path) : Pres init (pathRename p q) := by
  intro s hs
  unfold pathRename
  by_cases g1 : (!decide (p ∈ s.created)) = true
  · simp only [g1, if_true]; exact hs
  · simp only [g1, Bool.false_eq_true, if_false]
    have h1 := osRename_pres hpc p q s hs
    by_cases hok : (osRename p q s).2 = .ok
    · simp only [hok, if_true]
      obtain ⟨hq, _, h3⟩ := osRename_ok hok
      simp only [hq, if_true]
      refine h1.recordMono _ ?_ ?_
      · intro c hc
        by_cases e : c = p
        · subst e; exact mem_record.2 (Or.inr (by simp [h3 hc]))
        · exact mem_record.2 (Or.inl (mem_forget.2 ⟨hc, e⟩))
      · intro c hc
        rcases mem_record.1 hc with h | h
        · exact Or.inl (mem_forget.1 h).1
        · simp only [List.mem_singleton] at h; subst h; exact Or.inr (hs.owns_fresh hpc hq)
    · simp only [hok, if_false]; exact h1

theorem pathUnlink_pres (hpc : PrefixClosed init) (p : Path) : Pres init (pathUnlink p) := by
  intro s hs
  unfold pathUnlink
  refine tracked_comp hpc _ _ s hs (fun _ => osUnlink_pres hpc p s hs) ?_
  intro p' hp' hok hc
  simp only [Option.some.injEq] at hp'
  subst hp'
  exact absurd hc (osUnlink_forgot hok)

theorem pathRmdir_pres (hpc : PrefixClosed init) (p : Path) : Pres init (pathRmdir p) := by
  intro s hs
  unfold pathRmdir
  refine tracked_comp hpc _ _ s hs (fun _ => osRmdir_pres hpc p s hs) ?_
  intro p' hp' hok hc
  simp only [Option.some.injEq] at hp'
  subst hp'
  exact absurd hc (osRmdir_forgot hok)

theorem rmtree_pres (hpc : PrefixClosed init) (p : Path) : Pres init (rmtree p) := by
  intro s hs
  unfold rmtree
  refine tracked_comp hpc _ _ s hs ?_ ?_
  · intro hg
    have hp : p ∈ s.created := hg p rfl
    try simp only
    split
    · exact hs
    · exact osRmdir_pres hpc p _ (hs.removeBelow hpc hp)
  · intro p' hp' hok hc
    simp only [Option.some.injEq] at hp'
    subst hp'
    try simp only at hok hc
    split at hok
    · cases hok
    · rename_i hd
      simp only [hd, Bool.false_eq_true, if_false] at hc
      exact absurd hc (osRmdir_forgot hok)

theorem step_pres (hpc : PrefixClosed init) (op : Op) : Pres init (step op) := by
  cases op with
  | fopen api p m d =>
    cases api
    · exact builtinOpen_pres hpc p m d
    · exact builtinOpen_pres hpc p m d
    · exact pathOpen_pres hpc p m d
  | osopen p fl d => exact osOpen_pres hpc p fl d
  | writeText p d => exact writeText_pres hpc p d
  | touch p e => exact touch_pres hpc p e
  | mkdir p => exact osMkdir_pres hpc p
  | makedirs p e => exact makedirs_pres hpc p e
  | pmkdir p ps e => exact pathMkdir_pres hpc p ps e
  | rename api p q =>
    cases api
    · exact osRename_pres hpc p q
    · exact osRename_pres hpc p q
    · exact pathRename_pres hpc p q
    · exact pathRename_pres hpc p q
  | copy api p q =>
    cases api
    · exact copyfile_pres hpc p q
    · exact copy_pres hpc p q
    · exact copy_pres hpc p q
  | move p q => exact move_pres hpc p q
  | remove api p =>
    cases api
    · exact osUnlink_pres hpc p
    · exact osUnlink_pres hpc p
    · exact pathUnlink_pres hpc p
  | rmdir api p =>
    cases api
    · exact osRmdir_pres hpc p
    · exact pathRmdir_pres hpc p
  | rmtree p => exact rmtree_pres hpc p

theorem run_inv (hpc : PrefixClosed init) (ops : List Op) : ∀ s, Inv init s → Inv init (run ops s) := by
  induction ops with
  | nil => intro s hs; exact hs
  | cons op rest ih =>
    intro s hs
    simp only [run, List.foldl_cons]
    exact ih _ (step_pres hpc op s hs)

/-! ## exit -/

theorem get_foldl_removeSubtree (l : List Path) : ∀ (fs : FS) (r : Path),
    get (l.foldl removeSubtree fs) r = if covered l r = true then none else get fs r := by
  induction l with
  | nil => intro fs r; simp [covered]
  | cons x rest ih =>
    intro fs r
    simp only [List.foldl_cons]
    rw [ih, get_removeSubtree]
    have hc : covered (x :: rest) r = (under x r || covered rest r) := by simp [covered]
    rw [hc]
    cases under x r <;> cases covered rest r <;> simp

theorem get_exitCleanup (s : St) (r : Path) :
    get (exitCleanup s) r = if covered s.created r = true then none else get s.fs r := by
  unfold exitCleanup
  rw [get_foldl_removeSubtree]
  have : covered (s.created.mergeSort exitBefore) r = covered s.created r := by
    apply Bool.eq_iff_iff.2
    rw [covered_iff, covered_iff]
    constructor
    · rintro ⟨c, hm, hu⟩; exact ⟨c, (List.mergeSort_perm _ _).mem_iff.1 hm, hu⟩
    · rintro ⟨c, hm, hu⟩; exact ⟨c, (List.mergeSort_perm _ _).mem_iff.2 hm, hu⟩
  rw [this]

/-- after the cleanup of a state satisfying the invariant, the tree is the initial tree -/
theorem exit_restores (hpc : PrefixClosed init) {s : St} (hs : Inv init s) (r : Path) :
    get (exitCleanup s) r = get init r := by
  rw [get_exitCleanup]
  by_cases hc : covered s.created r = true
  · simp only [hc, if_true]; exact (hs.covered_fresh hpc hc).symm
  · simp only [hc, Bool.false_eq_true, if_false]
    cases hg : get s.fs r with
    | some n =>
      rcases hs.cov r (by simp [hg]) with h | h
      · rw [← hs.kept r h, hg]
      · exact absurd h hc
    | none =>
      cases hi : get init r with
      | none => rfl
      | some n =>
        have := hs.kept r (by simp [hi])
        rw [hg, hi] at this
        exact this

end PynguinModel.FsIsolation
