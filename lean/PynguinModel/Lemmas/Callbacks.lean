import PynguinModel.Model.Callbacks
/-! Helper lemmas for the callback model of C01 (`Model/Callbacks.lean`). -/
namespace PynguinModel.Callbacks

/-- no call in the list is user code -/
def NoUser (cs : List Call) : Prop := ∀ c ∈ cs, c.isUser = false

theorem userCalls_eq_nil_iff (cs : List Call) : userCalls cs = [] ↔ NoUser cs := by
  simp [userCalls, NoUser, List.filter_eq_nil_iff]

theorem NoUser.append {a b : List Call} (ha : NoUser a) (hb : NoUser b) : NoUser (a ++ b) := by
  intro c hc
  rcases List.mem_append.mp hc with h | h
  · exact ha c h
  · exact hb c h

theorem noUser_nil : NoUser [] := by intro c hc; cases hc

theorem noUser_cons {c : Call} {cs : List Call} (hc : c.isUser = false) (hcs : NoUser cs) :
    NoUser (c :: cs) := by
  intro x hx
  rcases List.mem_cons.mp hx with h | h
  · exact h ▸ hc
  · exact hcs x h

/-- an operator applied to a value whose type is exactly a listed builtin type is not user code -/
theorem dispatch_exact (i : Nat) (o : Operand) (op : String) (he : o.exact = true)
    (hb : o.base ≠ .other) : (dispatch i o op).isUser = false := by
  simp [dispatch, he, hb, Call.isUser]

theorem typeIs_exact {o : Operand} {b : Base} (h : o.typeIs b = true) : o.exact = true ∧ o.base = b := by
  simpa [Operand.typeIs] using h

/-- the type check of `add_value` lets only exact builtin values through -/
theorem isConstantType_exact {o : Operand} (h : o.isConstantType = true) :
    o.exact = true ∧ o.base ≠ .other := by
  simp only [Operand.isConstantType, Bool.or_eq_true] at h
  rcases h with (((h | h) | h) | h) | h <;> obtain ⟨he, hb⟩ := typeIs_exact h <;> simp [he, hb]

/-- `add_value` never runs user code, whatever it is handed -/
theorem addValue_noUser (maxLen i : Nat) (o : Operand) : NoUser (addValue maxLen i o) := by
  unfold addValue
  by_cases hc : o.isConstantType = true
  · obtain ⟨he, hb⟩ := isConstantType_exact hc
    have hd : ∀ op, (dispatch i o op).isUser = false := fun op => dispatch_exact i o op he hb
    simp only [hc, if_true]
    split
    · split
      · exact noUser_cons (hd _) noUser_nil
      · exact noUser_cons (hd _) (noUser_cons (hd _) (noUser_cons rfl noUser_nil))
    · exact noUser_cons (hd _) (noUser_cons rfl noUser_nil)
  · simp only [hc]
    exact noUser_nil

theorem map_dispatch_noUser (i : Nat) (o : Operand) (ops : List String) (he : o.exact = true)
    (hb : o.base ≠ .other) : NoUser (ops.map (dispatch i o)) := by
  intro c hc
  obtain ⟨op, _, rfl⟩ := List.mem_map.mp hc
  exact dispatch_exact i o op he hb

theorem stringsBody_noUser (maxLen : Nat) (v : Operand) (name : String) (f : StrFn)
    (hv : v.typeIs .str = true) : NoUser (stringsBody maxLen v name f) := by
  obtain ⟨he, hb⟩ := typeIs_exact hv
  have hne : v.base ≠ .other := by simp [hb]
  unfold stringsBody
  refine ((addValue_noUser maxLen 0 v).append
    (noUser_cons (dispatch_exact 0 v name he hne) noUser_nil)).append ?_
  split
  · exact (map_dispatch_noUser 0 v _ he hne).append (addValue_noUser _ _ _)
  · exact (map_dispatch_noUser 0 v _ he hne).append (addValue_noUser _ _ _)

theorem textPairExact_exact {v p : Operand} (h : textPairExact v p = true) :
    (v.exact = true ∧ v.base ≠ .other) ∧ (p.exact = true ∧ p.base ≠ .other) := by
  simp only [textPairExact, Bool.or_eq_true, Bool.and_eq_true] at h
  rcases h with ⟨hv, hp⟩ | ⟨hv, hp⟩ <;> obtain ⟨hve, hvb⟩ := typeIs_exact hv <;>
    obtain ⟨hpe, hpb⟩ := typeIs_exact hp <;> simp [hve, hvb, hpe, hpb]

theorem binaryAdd_noUser (il ir : Nat) (l r : Operand) (hl : l.exact = true ∧ l.base ≠ .other)
    (hr : r.exact = true ∧ r.base ≠ .other) : NoUser (binaryAdd il l ir r) :=
  noUser_cons (dispatch_exact il l _ hl.1 hl.2) (noUser_cons (dispatch_exact ir r _ hr.1 hr.2) noUser_nil)

/-! ### what reaches the constant pool -/

/-- every `add_constant` is for one of the five constant types, strings / bytes within the length limit -/
def PoolOk (maxLen : Nat) (cs : List Call) : Prop :=
  ∀ x ∈ poolAdds cs,
      (x.1 = .str ∨ x.1 = .bytes ∨ x.1 = .int ∨ x.1 = .float ∨ x.1 = .complex) ∧
      ((x.1 = .str ∨ x.1 = .bytes) → x.2 ≤ maxLen)

theorem poolAdds_append (a b : List Call) : poolAdds (a ++ b) = poolAdds a ++ poolAdds b := by
  simp [poolAdds, List.filterMap_append]

theorem PoolOk.append {m : Nat} {a b : List Call} (ha : PoolOk m a) (hb : PoolOk m b) :
    PoolOk m (a ++ b) := by
  intro x hx
  rw [poolAdds_append] at hx
  rcases List.mem_append.mp hx with h | h
  · exact ha x h
  · exact hb x h

theorem poolAdds_dispatch_cons (i : Nat) (o : Operand) (op : String) (cs : List Call) :
    poolAdds (dispatch i o op :: cs) = poolAdds cs := by
  unfold dispatch
  split <;> simp [poolAdds]

theorem poolOk_nil (m : Nat) : PoolOk m [] := by intro x hx; simp [poolAdds] at hx

theorem poolOk_dispatch_cons {m : Nat} (i : Nat) (o : Operand) (op : String) {cs : List Call}
    (h : PoolOk m cs) : PoolOk m (dispatch i o op :: cs) := by
  intro x hx
  rw [poolAdds_dispatch_cons] at hx
  exact h x hx

theorem poolOk_map_dispatch (m i : Nat) (o : Operand) (ops : List String) :
    PoolOk m (ops.map (dispatch i o)) := by
  induction ops with
  | nil => exact poolOk_nil m
  | cons op rest ih => exact poolOk_dispatch_cons i o op ih

theorem addValue_poolOk (m i : Nat) (o : Operand) : PoolOk m (addValue m i o) := by
  unfold addValue
  by_cases hc : o.isConstantType = true
  · simp only [hc, if_true]
    have hb : o.base = .str ∨ o.base = .bytes ∨ o.base = .int ∨ o.base = .float ∨ o.base = .complex := by
      simp only [Operand.isConstantType, Bool.or_eq_true] at hc
      rcases hc with (((h | h) | h) | h) | h <;> simp [(typeIs_exact h).2]
    split
    · apply poolOk_dispatch_cons
      split
      · exact poolOk_nil m
      · apply poolOk_dispatch_cons
        intro x hx
        simp only [poolAdds, List.filterMap_cons, List.filterMap_nil, List.mem_singleton] at hx
        subst hx
        exact ⟨hb, fun _ => by omega⟩
    · rename_i hnt
      apply poolOk_dispatch_cons
      intro x hx
      simp only [poolAdds, List.filterMap_cons, List.filterMap_nil, List.mem_singleton] at hx
      subst hx
      refine ⟨hb, fun h => ?_⟩
      exfalso
      apply hnt
      rcases h with h | h <;> (simp only at h; simp [Operand.isInstance, h])
  · simp only [hc]
    exact poolOk_nil m

end PynguinModel.Callbacks
