import PynguinModel.Model.OrderedSet
/-!
Abstract specification of an insertion-ordered set and the simulation lemmas for the two
dict primitives.  The property theorems are in `Props/C34.lean`.
-/
namespace PynguinModel.OrderedSet

/-- The specification: a mathematical set (`mem`) together with, for each member, the logical time
(`stamp`) of the insertion that made it a member.  Re-inserting a member does not change its stamp;
removing and re-inserting gives a new, later stamp.  Iteration order is increasing stamp. -/
structure Abs where
  mem : Elem → Bool
  stamp : Elem → Nat
  clock : Nat

def Abs.empty : Abs := ⟨fun _ => false, fun _ => 0, 0⟩

def Abs.insert (a : Abs) (x : Elem) : Abs :=
  if a.mem x then a
  else ⟨fun y => if y = x then true else a.mem y, fun y => if y = x then a.clock else a.stamp y,
        a.clock + 1⟩

def Abs.insertAll (a : Abs) (xs : List Elem) : Abs := xs.foldl Abs.insert a

/-- Keep only the members satisfying `p` (stamps of the survivors unchanged). -/
def Abs.restrict (a : Abs) (p : Elem → Bool) : Abs := { a with mem := fun y => a.mem y && p y }

/-- Refinement relation between the key list and the specification state. -/
structure R (l : List Elem) (a : Abs) : Prop where
  nodup : l.Nodup
  mem_iff : ∀ x, x ∈ l ↔ a.mem x = true
  sorted : l.Pairwise (fun x y => a.stamp x < a.stamp y)
  lt_clock : ∀ x ∈ l, a.stamp x < a.clock

theorem R_empty : R [] Abs.empty :=
  ⟨List.nodup_nil, by simp [Abs.empty], List.Pairwise.nil, by simp⟩

theorem R_dset {l a} (h : R l a) (x : Elem) : R (dset l x) (a.insert x) := by
  unfold dset Abs.insert
  by_cases hx : x ∈ l
  · have : a.mem x = true := (h.mem_iff x).1 hx
    simp [hx, this, h]
  · have hm : a.mem x = false := by
      cases hmx : a.mem x with
      | false => rfl
      | true => exact absurd ((h.mem_iff x).2 hmx) hx
    simp only [hx, hm, if_false, Bool.false_eq_true]
    refine ⟨?_, ?_, ?_, ?_⟩
    · exact List.nodup_append.2 ⟨h.nodup, by simp, by
        intro y hy z hz; simp at hz; subst hz; intro hyz; subst hyz; exact hx hy⟩
    · intro y
      by_cases hy : y = x
      · subst hy; simp
      · simp [hy, h.mem_iff y]
    · rw [List.pairwise_append]
      refine ⟨?_, by simp, ?_⟩
      · exact h.sorted.imp_of_mem (fun {y z} hy hz hlt => by
          have hy' : y ≠ x := fun e => hx (e ▸ hy)
          have hz' : z ≠ x := fun e => hx (e ▸ hz)
          simp [hy', hz', hlt])
      · intro y hy z hz
        simp at hz; subst hz
        have hy' : y ≠ z := fun e => hx (e ▸ hy)
        simp [hy', h.lt_clock y hy]
    · intro y hy
      simp at hy
      rcases hy with hy | hy
      · have hy' : y ≠ x := fun e => hx (e ▸ hy)
        have := h.lt_clock y hy
        simp [hy']; omega
      · subst hy; simp

theorem R_dsetAll {l a} (h : R l a) (xs : List Elem) : R (dsetAll l xs) (a.insertAll xs) := by
  induction xs generalizing l a with
  | nil => simpa [dsetAll, Abs.insertAll] using h
  | cons x xs ih => simpa [dsetAll, Abs.insertAll] using ih (R_dset h x)

theorem R_filter {l a} (h : R l a) (p : Elem → Bool) : R (l.filter p) (a.restrict p) := by
  refine ⟨h.nodup.filter _, ?_, ?_, ?_⟩
  · intro x; simp [Abs.restrict, List.mem_filter, h.mem_iff x]
  · exact List.Pairwise.filter _ h.sorted
  · intro x hx; exact h.lt_clock x (List.mem_filter.1 hx).1

/-- Two abstract states with the same members and the same stamps on members are related to the same
lists. -/
theorem R_congr {l a b} (h : R l a) (hm : ∀ x, a.mem x = b.mem x)
    (hs : ∀ x, a.mem x = true → a.stamp x = b.stamp x) (hc : a.clock ≤ b.clock) : R l b := by
  refine ⟨h.nodup, fun x => by rw [← hm]; exact h.mem_iff x, ?_, ?_⟩
  · exact h.sorted.imp_of_mem (fun {y z} hy hz hlt => by
      rw [← hs y ((h.mem_iff y).1 hy), ← hs z ((h.mem_iff z).1 hz)]; exact hlt)
  · intro x hx
    rw [← hs x ((h.mem_iff x).1 hx)]
    exact Nat.lt_of_lt_of_le (h.lt_clock x hx) hc

theorem dset_of_mem {l : List Elem} {x} (h : x ∈ l) : dset l x = l := by simp [dset, h]

theorem mem_dset {l : List Elem} {x y} : y ∈ dset l x ↔ y ∈ l ∨ y = x := by
  unfold dset; split <;> simp_all

theorem mem_dsetAll {l xs : List Elem} {y} : y ∈ dsetAll l xs ↔ y ∈ l ∨ y ∈ xs := by
  induction xs generalizing l with
  | nil => simp [dsetAll]
  | cons x xs ih =>
    have := ih (l := dset l x)
    simp only [dsetAll, List.foldl_cons] at this ⊢
    rw [this, mem_dset]; simp [or_assoc]

theorem nodup_dset {l : List Elem} (h : l.Nodup) (x) : (dset l x).Nodup := by
  unfold dset; split
  · exact h
  · rename_i hx
    exact List.nodup_append.2 ⟨h, by simp, by
      intro y hy z hz; simp at hz; subst hz; intro e; subst e; exact hx hy⟩

theorem nodup_dsetAll {l : List Elem} (h : l.Nodup) (xs) : (dsetAll l xs).Nodup := by
  induction xs generalizing l with
  | nil => simpa [dsetAll]
  | cons x xs ih => simpa [dsetAll] using ih (nodup_dset h x)

/-- Re-inserting a prefix that is already there changes nothing: `cls(self)` copies. -/
theorem dsetAll_append_self (l m : List Elem) (h : (l ++ m).Nodup) :
    dsetAll l m = l ++ m := by
  induction m generalizing l with
  | nil => simp [dsetAll]
  | cons x m ih =>
    have hx : x ∉ l := by
      intro hx
      have := List.nodup_append.1 h
      exact this.2.2 x hx x (by simp) rfl
    have h' : (l ++ [x] ++ m).Nodup := by simpa using h
    have := ih (l ++ [x]) h'
    simp only [dsetAll, List.foldl_cons, dset, hx, if_false] at this ⊢
    simpa using this

theorem new_of_nodup {l : List Elem} (h : l.Nodup) : new l = l := by
  have := dsetAll_append_self [] l (by simpa using h)
  simpa [new] using this

theorem dsetAll_append (l xs ys : List Elem) : dsetAll l (xs ++ ys) = dsetAll (dsetAll l xs) ys := by
  simp [dsetAll, List.foldl_append]

end PynguinModel.OrderedSet
