import PynguinModel.Model.ClusterFilter
/-! Helper lemmas for C27 (`Model/ClusterFilter.lean`): strings and the regular-expression fragment,
membership characterisations of the per-member analysis, soundness (`*_ok`) and completeness
(`*_complete`) of the traversal loops. -/
set_option linter.unusedSimpArgs false
namespace PynguinModel.ClusterFilter

/-! ## strings and the regular-expression fragment -/
theorem startsWith_iff (n p : Name) : startsWith n p = true ↔ p <+: n := by
  simp [startsWith]

theorem endsWith_iff (n p : Name) : endsWith n p = true ↔ p <:+ n := by
  simp [endsWith]

theorem starMatch_iff (t : Char → Bool) (k : Name → Bool) (s : Name) :
    starMatch t k s = true ↔ ∃ pre suf, s = pre ++ suf ∧ pre.all t = true ∧ k suf = true := by
  induction s with
  | nil =>
    simp only [starMatch]
    constructor
    · intro h; exact ⟨[], [], rfl, rfl, h⟩
    · rintro ⟨pre, suf, h, _, hk⟩
      have : pre = [] ∧ suf = [] := by simpa using h.symm
      simpa [this.2] using hk
  | cons x r ih =>
    simp only [starMatch, Bool.or_eq_true, Bool.and_eq_true, ih]
    constructor
    · rintro (h | ⟨hx, pre, suf, rfl, hp, hk⟩)
      · exact ⟨[], x :: r, rfl, rfl, h⟩
      · exact ⟨x :: pre, suf, rfl, by simp [hx, hp], hk⟩
    · rintro ⟨pre, suf, h, hp, hk⟩
      cases pre with
      | nil => left; simp at h; subst h; exact hk
      | cons y pre =>
        simp at h hp
        obtain ⟨rfl, rfl⟩ := h
        right; exact ⟨hp.1, pre, suf, rfl, by simpa using hp.2, hk⟩

theorem matchItems_nil (s : Name) : matchItems [] s = true ↔ s = [] := by
  simp [matchItems]

theorem matchItems_one (c : CClass) (r : List RItem) (s : Name) :
    matchItems (.one c :: r) s = true ↔ ∃ x t, s = x :: t ∧ c.test x = true ∧ matchItems r t = true := by
  cases s with
  | nil => simp [matchItems]
  | cons y t =>
    simp only [matchItems, Bool.and_eq_true]
    constructor
    · rintro ⟨h1, h2⟩; exact ⟨y, t, rfl, h1, h2⟩
    · rintro ⟨x, t', h, h1, h2⟩
      simp at h; obtain ⟨rfl, rfl⟩ := h; exact ⟨h1, h2⟩

theorem matchItems_star (c : CClass) (r : List RItem) (s : Name) :
    matchItems (.star c :: r) s = true ↔
      ∃ pre suf, s = pre ++ suf ∧ pre.all c.test = true ∧ matchItems r suf = true := by
  simp only [matchItems]; exact starMatch_iff _ _ _

theorem matchItems_plus (c : CClass) (r : List RItem) (s : Name) :
    matchItems (.plus c :: r) s = true ↔
      ∃ x pre suf, s = x :: (pre ++ suf) ∧ c.test x = true ∧ pre.all c.test = true ∧ matchItems r suf = true := by
  cases s with
  | nil => simp [matchItems]
  | cons y t =>
    simp only [matchItems, Bool.and_eq_true, starMatch_iff]
    constructor
    · rintro ⟨hy, pre, suf, rfl, hp, hk⟩; exact ⟨y, pre, suf, rfl, hy, hp, hk⟩
    · rintro ⟨x, pre, suf, h, hx, hp, hk⟩
      simp at h; obtain ⟨rfl, rfl⟩ := h
      exact ⟨hx, pre, suf, rfl, hp, hk⟩

/-! ## the per-member analysis -/
theorem mem_analyseFunction {P : Preds} {cfg : Cfg} {f : Func} {att : Bool} {a : Acc} :
    a ∈ analyseFunction P cfg f att ↔
      ∃ vn cn, f.visibleName = some vn ∧ f.clusterName = some cn ∧
        P.shouldSkip cfg.visibility vn att = false ∧ f.isCoroutine = false ∧ att = true ∧ a = .func f cn := by
  unfold analyseFunction
  split
  · rename_i vn cn hv hc
    by_cases h1 : P.shouldSkip cfg.visibility vn att = true
    · simp [h1, hv, hc]
    · by_cases h2 : f.isCoroutine = true
      · simp [h1, h2, hv, hc]
      · by_cases h3 : att = true
        · simp [h1, h2, h3, hv, hc]
        · simp [h1, h2, h3, hv, hc]
  · rename_i hno
    simp only [List.not_mem_nil, false_iff]
    rintro ⟨vn, cn, hv, hc, _⟩
    exact hno vn cn hv hc

theorem mem_analyseMethod {P : Preds} {cfg : Cfg} {c : Cls} {m : Meth} {att : Bool} {a : Acc} :
    a ∈ analyseMethod P cfg c m att ↔
      P.isAnnotate m.name = false ∧ P.shouldSkip cfg.visibility (lastSegment m.name) att = false ∧
      P.isConstructor m.name = false ∧ m.definedIn c = true ∧ methodListed P cfg m.qualified = false ∧
      m.isCoroutine = false ∧ att = true ∧ a = .meth c m := by
  unfold analyseMethod
  by_cases h0 : (P.isAnnotate m.name || P.shouldSkip cfg.visibility (lastSegment m.name) att
      || P.isConstructor m.name || !m.definedIn c) = true
  · rw [if_pos h0]
    simp only [List.not_mem_nil, false_iff]
    rintro ⟨a1, a2, a3, a4, _⟩
    simp [a1, a2, a3, a4] at h0
  · rw [if_neg h0]
    simp only [Bool.or_eq_true, not_or, Bool.not_eq_true, Bool.not_eq_eq_eq_not, Bool.not_true,
      Bool.not_eq_false'] at h0
    obtain ⟨⟨⟨a1, a2⟩, a3⟩, a4⟩ := h0
    by_cases h1 : methodListed P cfg m.qualified = true
    · simp [h1]
    · by_cases h2 : m.isCoroutine = true
      · simp [h1, h2]
      · by_cases h3 : att = true
        · simp [h1, h2, h3, a1, a2, a3, a4] ; simp_all
        · simp [h1, h2, h3]

theorem mem_analyseClass {P : Preds} {cfg : Cfg} {c : Cls} {att : Bool} {a : Acc} :
    a ∈ analyseClass P cfg c att ↔
      (c.isEnum && c.enumNames == 0) = false ∧
      ((c.isAbstract = false ∧ att = true ∧ a = (if c.isEnum then .enum c else .ctor c)) ∨
        ∃ m ∈ c.methods, a ∈ analyseMethod P cfg c m att) := by
  unfold analyseClass
  by_cases h0 : (c.isEnum && c.enumNames == 0) = true
  · simp [h0]
  · rw [if_neg h0]
    simp only [List.mem_append, List.mem_flatMap]
    have h0' : (c.isEnum && c.enumNames == 0) = false := by simpa using h0
    simp only [h0', true_and]
    apply or_congr _ Iff.rfl
    by_cases h1 : (!c.isAbstract && att) = true
    · rw [if_pos h1]
      simp only [Bool.and_eq_true, Bool.not_eq_eq_eq_not, Bool.not_true] at h1
      simp [h1.1, h1.2]
    · rw [if_neg h1]
      simp only [List.not_mem_nil, false_iff]
      rintro ⟨b1, b2, _⟩
      simp [b1, b2] at h1

/-! ## traversal: everything visited is justified -/
theorem findClass_mem {env : Env} {id : Nat} {c : Cls} (h : env.findClass id = some c) :
    c ∈ env.classes ∧ c.id = id := by
  unfold Env.findClass at h
  exact ⟨List.mem_of_find?_eq_some h, by simpa using List.find?_some h⟩

theorem findModule_mem {env : Env} {n : Name} {m : Mod} (h : env.findModule n = some m) :
    m ∈ env.modules ∧ m.name = n := by
  unfold Env.findModule at h
  exact ⟨List.mem_of_find?_eq_some h, by simpa using List.find?_some h⟩

/-- what a visit must look like: the right `add_to_test`, and the entity exists in the environment -/
def VisitOK (P : Preds) (cfg : Cfg) (env : Env) (root : Name) : Visit → Prop
  | .cls c a => a = (c.module == root) ∧ c ∈ env.classes
  | .fn f a => a = (f.module == root) ∧ funcBlacklisted P cfg f = false ∧ ∃ md ∈ env.modules, f ∈ md.funcs

theorem classLoop_ok (P : Preds) (cfg : Cfg) (env : Env) (root : Name) :
    ∀ (fuel : Nat) (wl seen : List Nat) (s : List Nat) (vs : List Visit),
      classLoop env root fuel wl seen = some (s, vs) → ∀ v ∈ vs, VisitOK P cfg env root v := by
  intro fuel
  induction fuel with
  | zero =>
    intro wl seen s vs h
    cases wl with
    | nil => simp [classLoop] at h; obtain ⟨_, rfl⟩ := h; intro v hv; simp at hv
    | cons a t => simp [classLoop] at h
  | succ k ih =>
    intro wl seen s vs h
    cases wl with
    | nil => simp [classLoop] at h; obtain ⟨_, rfl⟩ := h; intro v hv; simp at hv
    | cons cur rest =>
      simp only [classLoop] at h
      split at h
      · exact ih _ _ _ _ h
      · split at h
        · simp at h
        · rename_i c hc
          split at h
          · simp at h
          · rename_i s' vs' hrec
            simp at h
            obtain ⟨rfl, rfl⟩ := h
            intro v hv
            rcases List.mem_cons.mp hv with rfl | hv
            · exact ⟨rfl, (findClass_mem hc).1⟩
            · exact ih _ _ _ _ hrec v hv

theorem funcLoop_ok (root : Name) (fs : List Func) :
    ∀ (seen : List Func), ∀ v ∈ (funcLoop root fs seen).2, ∃ f ∈ fs, v = .fn f (f.module == root) := by
  induction fs with
  | nil => intro seen v hv; simp [funcLoop] at hv
  | cons f fs ih =>
    intro seen v hv
    simp only [funcLoop] at hv
    split at hv
    · obtain ⟨g, hg, rfl⟩ := ih _ v hv; exact ⟨g, List.mem_cons_of_mem _ hg, rfl⟩
    · rcases List.mem_cons.mp hv with rfl | hv
      · exact ⟨f, List.mem_cons_self, rfl⟩
      · obtain ⟨g, hg, rfl⟩ := ih _ v hv; exact ⟨g, List.mem_cons_of_mem _ hg, rfl⟩

theorem moduleLoop_ok (P : Preds) (cfg : Cfg) (env : Env) (root : Name) (cfuel : Nat) :
    ∀ (fuel : Nat) (q : List Name) (st : Seen) (vs : List Visit),
      moduleLoop P cfg env root cfuel fuel q st = some vs → ∀ v ∈ vs, VisitOK P cfg env root v := by
  intro fuel
  induction fuel with
  | zero =>
    intro q st vs h
    cases q with
    | nil => simp [moduleLoop] at h; subst h; intro v hv; simp at hv
    | cons a t => simp [moduleLoop] at h
  | succ k ih =>
    intro q st vs h
    cases q with
    | nil => simp [moduleLoop] at h; subst h; intro v hv; simp at hv
    | cons m q =>
      simp only [moduleLoop] at h
      split at h
      · exact ih _ _ _ h
      · split at h
        · simp at h
        · rename_i md hmd
          split at h
          · simp at h
          · rename_i seenC vc hc
            split at h
            · simp at h
            · rename_i rest hrest
              simp at h
              subst h
              intro v hv
              simp only [List.mem_append] at hv
              rcases hv with hv | hv | hv
              · exact classLoop_ok P cfg env root _ _ _ _ _ hc v hv
              · obtain ⟨f, hf, rfl⟩ := funcLoop_ok root _ _ v hv
                simp only [List.mem_filter] at hf
                exact ⟨rfl, by simpa using hf.2, md, (findModule_mem hmd).1, hf.1⟩
              · exact ih _ _ _ hrest v hv

theorem visits_ok (P : Preds) (cfg : Cfg) (env : Env) (root : Name) (fuel : Nat) (vs : List Visit)
    (h : visits P cfg env root fuel = some vs) : ∀ v ∈ vs, VisitOK P cfg env root v :=
  moduleLoop_ok P cfg env root fuel fuel _ _ vs h

/-- a blacklisted module under test: nothing is analysed at all -/
theorem visits_root_blacklisted (P : Preds) (cfg : Cfg) (env : Env) (root : Name) (fuel : Nat)
    (vs : List Visit) (hb : moduleBlacklisted P cfg root = true)
    (h : visits P cfg env root fuel = some vs) : vs = [] := by
  unfold visits at h
  cases fuel with
  | zero => simp [moduleLoop] at h
  | succ k =>
    simp only [moduleLoop, hb, Bool.or_true, if_true] at h
    cases k <;> simp [moduleLoop] at h <;> first | exact h | exact h.symm

/-! ## traversal: the namespace of the module under test is visited completely -/
theorem classLoop_complete (env : Env) (root : Name) :
    ∀ (fuel : Nat) (wl seen : List Nat) (s : List Nat) (vs : List Visit),
      classLoop env root fuel wl seen = some (s, vs) →
      ∀ id ∈ wl, id ∉ seen → ∃ c, env.findClass id = some c ∧ Visit.cls c (c.module == root) ∈ vs := by
  intro fuel
  induction fuel with
  | zero =>
    intro wl seen s vs h
    cases wl with
    | nil => intro id hid; simp at hid
    | cons a t => simp [classLoop] at h
  | succ k ih =>
    intro wl seen s vs h
    cases wl with
    | nil => intro id hid; simp at hid
    | cons cur rest =>
      simp only [classLoop] at h
      intro id hid hns
      split at h
      · rename_i hc
        have hne : id ≠ cur := by
          intro e; subst e; exact hns (by simpa using hc)
        have : id ∈ rest := by
          rcases List.mem_cons.mp hid with e | e
          · exact absurd e hne
          · exact e
        exact ih _ _ _ _ h id this hns
      · split at h
        · simp at h
        · rename_i c hc
          split at h
          · simp at h
          · rename_i s' vs' hrec
            simp at h
            obtain ⟨rfl, rfl⟩ := h
            by_cases e : id = cur
            · subst e; exact ⟨c, hc, List.mem_cons_self⟩
            · have h1 : id ∈ rest ++ c.bases := by
                rcases List.mem_cons.mp hid with e' | e'
                · exact absurd e' e
                · exact List.mem_append_left _ e'
              have h2 : id ∉ cur :: seen := by
                intro hm; rcases List.mem_cons.mp hm with e' | e'
                · exact e e'
                · exact hns e'
              obtain ⟨c', hc', hv⟩ := ih _ _ _ _ hrec id h1 h2
              exact ⟨c', hc', List.mem_cons_of_mem _ hv⟩

theorem funcLoop_complete (root : Name) (fs : List Func) :
    ∀ (seen : List Func), ∀ f ∈ fs, f ∉ seen → Visit.fn f (f.module == root) ∈ (funcLoop root fs seen).2 := by
  induction fs with
  | nil => intro seen f hf; simp at hf
  | cons g fs ih =>
    intro seen f hf hns
    simp only [funcLoop]
    split
    · rename_i hc
      have hne : f ≠ g := by
        intro e; subst e; exact hns (by simpa using hc)
      have : f ∈ fs := by
        rcases List.mem_cons.mp hf with e | e
        · exact absurd e hne
        · exact e
      exact ih _ f this hns
    · by_cases e : f = g
      · subst e; exact List.mem_cons_self
      · have h1 : f ∈ fs := by
          rcases List.mem_cons.mp hf with e' | e'
          · exact absurd e' e
          · exact e'
        have h2 : f ∉ g :: seen := by
          intro hm; rcases List.mem_cons.mp hm with e' | e'
          · exact e e'
          · exact hns e'
        exact List.mem_cons_of_mem _ (ih _ f h1 h2)

theorem visits_complete (P : Preds) (cfg : Cfg) (env : Env) (root : Name) (fuel : Nat) (vs : List Visit)
    (h : visits P cfg env root fuel = some vs) (hb : moduleBlacklisted P cfg root = false) :
    ∃ md, env.findModule root = some md ∧
      (∀ id ∈ md.classes, ∀ c, env.findClass id = some c → classBlacklisted P cfg c = false →
          Visit.cls c (c.module == root) ∈ vs) ∧
      (∀ f ∈ md.funcs, funcBlacklisted P cfg f = false → Visit.fn f (f.module == root) ∈ vs) := by
  unfold visits at h
  cases fuel with
  | zero => simp [moduleLoop] at h
  | succ k =>
    simp only [moduleLoop, hb, List.contains_nil, Bool.or_false, Bool.false_eq_true, if_false] at h
    split at h
    · simp at h
    · rename_i md hmd
      split at h
      · simp at h
      · rename_i seenC vc hc
        split at h
        · simp at h
        · rename_i rest hrest
          simp at h
          subst h
          refine ⟨md, hmd, ?_, ?_⟩
          · intro id hid c hfc hnb
            have hin : id ∈ initialClasses P cfg env md := by
              simp only [initialClasses, List.mem_filter]
              exact ⟨hid, by simp [hfc, hnb]⟩
            obtain ⟨c', hc', hv⟩ := classLoop_complete env root _ _ _ _ _ hc id hin (by simp)
            have : c' = c := by rw [hfc] at hc'; exact (Option.some.inj hc').symm
            subst this
            simp only [List.mem_append]; exact Or.inl hv
          · intro f hf hnb
            have hin : f ∈ md.funcs.filter (fun f => !funcBlacklisted P cfg f) := by
              simp only [List.mem_filter]; exact ⟨hf, by simp [hnb]⟩
            have := funcLoop_complete root _ [] f hin (by simp)
            simp only [List.mem_append]; exact Or.inr (Or.inl this)

/-! ## more string facts -/
theorem startsWith_false_iff (n p : Name) : startsWith n p = false ↔ ¬ p <+: n := by
  rw [← startsWith_iff]; simp
theorem endsWith_false_iff (n p : Name) : endsWith n p = false ↔ ¬ p <:+ n := by
  rw [← endsWith_iff]; simp

/-! ## the naming convention, stated independently of the code -/
/-- `__x__` (also `__`, `___`): starts and ends with a double underscore -/
def Dunder (n : Name) : Prop := ['_', '_'] <+: n ∧ ['_', '_'] <:+ n
/-- `__x`: double leading underscore, not a dunder name -/
def PrivateName (n : Name) : Prop := ['_', '_'] <+: n ∧ ¬ ['_', '_'] <:+ n
/-- leading underscore, not a dunder name: everything PUBLIC excludes -/
def NonPublicName (n : Name) : Prop := ['_'] <+: n ∧ ¬ Dunder n
def Letter (c : Char) : Prop := inRanges [('A', 'Z'), ('a', 'z')] c = true
def Word (c : Char) : Prop := inRanges asciiWord c = true
/-- `_<Class>__<attr>`: one underscore, an identifier starting with a letter, a double underscore, a
non-empty attribute name; not ending in a double underscore -/
def MangledShape (n : Name) : Prop :=
  ∃ c cls a attr, n = '_' :: c :: (cls ++ '_' :: '_' :: a :: attr) ∧ Letter c ∧ (∀ x ∈ cls, Word x) ∧
    Word a ∧ (∀ x ∈ attr, Word x) ∧ ¬ ['_', '_'] <:+ n

theorem pre2_pre1 {n : Name} (h : ['_', '_'] <+: n) : ['_'] <+: n := by
  obtain ⟨t, rfl⟩ := h; exact ⟨'_' :: t, rfl⟩

theorem letter_ne_underscore {c : Char} (h : Letter c) : c ≠ '_' := by
  intro e; subst e; unfold Letter at h; revert h; decide

theorem mangled_protected {n : Name} (h : MangledShape n) : ['_'] <+: n ∧ ¬ ['_', '_'] <+: n := by
  obtain ⟨c, cls, a, attr, rfl, hc, -⟩ := h
  refine ⟨⟨_, rfl⟩, ?_⟩
  rintro ⟨t, ht⟩
  simp at ht
  exact letter_ne_underscore hc ht.1.symm

theorem nonpublic_iff (n : Name) :
    NonPublicName n ↔ (PrivateName n ∨ (['_'] <+: n ∧ ¬ ['_', '_'] <+: n)) := by
  unfold NonPublicName Dunder PrivateName
  by_cases h2 : ['_', '_'] <+: n
  · have := pre2_pre1 h2
    by_cases he : ['_', '_'] <:+ n <;> simp [h2, he, this]
  · by_cases h1 : ['_'] <+: n <;> simp [h2, h1]

/-! ## the cluster as a union of analysed visits -/
/-- the entity an accessible was built from occurs in the inspected project -/
def Acc.InEnv (env : Env) : Acc → Prop
  | .func f _ => ∃ md ∈ env.modules, f ∈ md.funcs
  | .ctor c => c ∈ env.classes
  | .enum c => c ∈ env.classes
  | .meth c m => c ∈ env.classes ∧ m ∈ c.methods

section
variable (P : Preds) (cfg : Cfg) (env : Env) (root : Name) (fuel : Nat)
theorem mem_underTest {accs : List Acc} (h : underTest P cfg env root fuel = some accs) {a : Acc}
    (ha : a ∈ accs) : ∃ vs v, visits P cfg env root fuel = some vs ∧ v ∈ vs ∧ a ∈ analyseVisit P cfg v := by
  unfold underTest at h
  cases hv : visits P cfg env root fuel with
  | none => simp [hv] at h
  | some vs =>
    simp [hv] at h; subst h
    obtain ⟨v, hv1, hv2⟩ := List.mem_flatMap.mp ha
    exact ⟨vs, v, rfl, hv1, hv2⟩

end

/-! ## the traversal does not depend on the visibility; the analysis is monotone in it -/
section mono
variable (P : Preds) (env : Env) (root : Name)

theorem moduleLoop_congr (cfg1 cfg2 : Cfg) (h1 : cfg1.ignoreModules = cfg2.ignoreModules)
    (h2 : cfg1.ignoreMethods = cfg2.ignoreMethods) (cfuel : Nat) :
    ∀ (fuel : Nat) (q : List Name) (st : Seen),
      moduleLoop P cfg1 env root cfuel fuel q st = moduleLoop P cfg2 env root cfuel fuel q st := by
  have hm : moduleBlacklisted P cfg1 = moduleBlacklisted P cfg2 := by
    funext m; simp [moduleBlacklisted, h1]
  have hf : funcBlacklisted P cfg1 = funcBlacklisted P cfg2 := by
    funext f; simp [funcBlacklisted, methodListed, hm, h2]
  have hi : initialClasses P cfg1 env = initialClasses P cfg2 env := by
    funext md; simp [initialClasses, classBlacklisted, hm]
  intro fuel
  induction fuel with
  | zero => intro q st; cases q <;> simp [moduleLoop]
  | succ k ih =>
    intro q st
    cases q with
    | nil => simp [moduleLoop]
    | cons m q => simp only [moduleLoop, hm, hf, hi, ih]

theorem visits_congr (cfg1 cfg2 : Cfg) (h1 : cfg1.ignoreModules = cfg2.ignoreModules)
    (h2 : cfg1.ignoreMethods = cfg2.ignoreMethods) (fuel : Nat) :
    visits P cfg1 env root fuel = visits P cfg2 env root fuel :=
  moduleLoop_congr P env root cfg1 cfg2 h1 h2 fuel fuel _ _

theorem analyseVisit_mono (cfg1 cfg2 : Cfg) (h2 : cfg1.ignoreMethods = cfg2.ignoreMethods)
    (hskip : ∀ n, P.shouldSkip cfg2.visibility n true = true → P.shouldSkip cfg1.visibility n true = true)
    (v : Visit) : ∀ a ∈ analyseVisit P cfg1 v, a ∈ analyseVisit P cfg2 v := by
  have hs : ∀ n, P.shouldSkip cfg1.visibility n true = false → P.shouldSkip cfg2.visibility n true = false := by
    intro n h
    cases h' : P.shouldSkip cfg2.visibility n true with
    | false => rfl
    | true => rw [hskip n h'] at h; exact absurd h (by simp)
  have hl : methodListed P cfg1 = methodListed P cfg2 := by
    funext q; simp [methodListed, h2]
  intro a ha
  cases v with
  | cls c att =>
    simp only [analyseVisit, mem_analyseClass] at ha ⊢
    obtain ⟨h0, (h | ⟨m, hm, hmm⟩)⟩ := ha
    · exact ⟨h0, Or.inl h⟩
    · refine ⟨h0, Or.inr ⟨m, hm, ?_⟩⟩
      rw [mem_analyseMethod] at hmm ⊢
      obtain ⟨a1, a2, a3, a4, a5, a6, a7, a8⟩ := hmm
      subst a7
      exact ⟨a1, hs _ a2, a3, a4, by rw [← hl]; exact a5, a6, rfl, a8⟩
  | fn f att =>
    simp only [analyseVisit, mem_analyseFunction] at ha ⊢
    obtain ⟨vn, cn, b1, b2, b3, b4, b5, b6⟩ := ha
    subst b5
    exact ⟨vn, cn, b1, b2, hs _ b3, b4, rfl, b6⟩
end mono


end PynguinModel.ClusterFilter
