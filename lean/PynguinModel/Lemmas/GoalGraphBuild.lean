import PynguinModel.Lemmas.GoalGraph
/-! Helper lemmas for the static part of C07: `mapE`, `assemble`, graph relations on the stored CDG,
soundness of the certificate checkers. -/
namespace PynguinModel.GoalGraph
open PynguinModel.Cdg (Node Label)

/-- Reachability in the goal graph from a root goal. -/
inductive GoalReach (G : GG) : Goal → Prop
  | root {g : Goal} : g ∈ G.roots → GoalReach G g
  | step {p c : Goal} : GoalReach G p → (p, c) ∈ G.edges → GoalReach G c

/-! ### `mapE` -/

theorem mapE_ok_of_forall {α β ε : Type} {f : α → Except ε β} :
    ∀ {l : List α}, (∀ a ∈ l, ∃ b, f a = .ok b) → ∃ bs, mapE f l = .ok bs
  | [], _ => ⟨[], rfl⟩
  | a :: as, h => by
    obtain ⟨b, hb⟩ := h a (by simp)
    obtain ⟨bs, hbs⟩ := mapE_ok_of_forall (l := as) (fun x hx => h x (by simp [hx]))
    exact ⟨b :: bs, by simp [mapE, hb, hbs]⟩

theorem mapE_ok_cons {α β ε : Type} {f : α → Except ε β} {a : α} {as : List α} {r : List β}
    (h : mapE f (a :: as) = .ok r) : ∃ b bs, r = b :: bs ∧ f a = .ok b ∧ mapE f as = .ok bs := by
  unfold mapE at h
  split at h
  · cases h
  · rename_i b hb
    split at h
    · cases h
    · rename_i bs hbs
      cases h
      exact ⟨b, bs, rfl, hb, hbs⟩

theorem mapE_ok_getElem? {α β ε : Type} {f : α → Except ε β} :
    ∀ {l : List α} {bs : List β}, mapE f l = .ok bs → ∀ (i : Nat) (a : α), l[i]? = some a →
      ∃ b, bs[i]? = some b ∧ f a = .ok b
  | [], _, _, i, a, hi => by simp at hi
  | x :: xs, r, h, i, a, hi => by
    obtain ⟨b, bs, rfl, hb, hbs⟩ := mapE_ok_cons h
    cases i with
    | zero =>
      simp only [List.getElem?_cons_zero, Option.some.injEq] at hi
      subst hi
      exact ⟨b, by simp, hb⟩
    | succ i =>
      simp only [List.getElem?_cons_succ] at hi ⊢
      exact mapE_ok_getElem? hbs i a hi

theorem mapE_ok_mem {α β ε : Type} {f : α → Except ε β} {l : List α} {bs : List β}
    (h : mapE f l = .ok bs) {a : α} (ha : a ∈ l) : ∃ b, b ∈ bs ∧ f a = .ok b := by
  obtain ⟨i, hi⟩ := List.mem_iff_getElem?.1 ha
  obtain ⟨b, hb, hf⟩ := mapE_ok_getElem? h i a hi
  exact ⟨b, List.mem_iff_getElem?.2 ⟨i, hb⟩, hf⟩

/-! ### `assemble` -/

theorem mem_addEdge_fold_mono (i : Goal) (ps : List Goal) (es : List (Goal × Goal)) (e : Goal × Goal)
    (h : e ∈ es) : e ∈ ps.foldl (addEdge i) es := by
  induction ps generalizing es with
  | nil => exact h
  | cons p ps ih =>
    rw [List.foldl_cons]
    apply ih
    unfold addEdge
    split
    · exact h
    · exact List.mem_append_left _ h

theorem mem_addEdge_fold (i : Goal) (ps : List Goal) (es : List (Goal × Goal)) (j : Goal)
    (h : j ∈ ps) : (j, i) ∈ ps.foldl (addEdge i) es := by
  induction ps generalizing es with
  | nil => cases h
  | cons p ps ih =>
    rw [List.foldl_cons]
    rcases List.mem_cons.1 h with rfl | h
    · apply mem_addEdge_fold_mono
      unfold addEdge
      split
      · rename_i hc
        simpa using hc
      · simp
    · exact ih _ h

theorem assemble_root {plans : List Plan} {i : Nat} {p : Plan} (hp : plans[i]? = some p)
    (hr : p.root = true) : i ∈ (assemble plans).roots := by
  have hm : (p, i) ∈ plans.zipIdx := List.mem_zipIdx_iff_getElem?.2 hp
  unfold assemble
  simp only
  generalize plans.zipIdx = L at hm
  suffices h : ∀ (r : List Goal), i ∈ L.foldl (fun r (p : Plan × Nat) => if p.1.root then ins r p.2 else r) r
    from h []
  have mono : ∀ (L : List (Plan × Nat)) (r : List Goal), i ∈ r →
      i ∈ L.foldl (fun r (p : Plan × Nat) => if p.1.root then ins r p.2 else r) r := by
    intro L
    induction L with
    | nil => intro r h; exact h
    | cons q L ih =>
      intro r h
      rw [List.foldl_cons]
      apply ih
      show i ∈ (if q.1.root then ins r q.2 else r)
      split
      · exact mem_ins.2 (Or.inl h)
      · exact h
  induction L with
  | nil => cases hm
  | cons q L ih =>
    intro r
    rw [List.foldl_cons]
    rcases List.mem_cons.1 hm with rfl | hm
    · apply mono
      show i ∈ (if p.root then ins r i else r)
      rw [if_pos hr]
      exact mem_ins.2 (Or.inr rfl)
    · exact ih hm _

theorem assemble_edge {plans : List Plan} {i : Nat} {p : Plan} (hp : plans[i]? = some p) {j : Goal}
    (hj : j ∈ p.parents) : (j, i) ∈ (assemble plans).edges := by
  have hm : (p, i) ∈ plans.zipIdx := List.mem_zipIdx_iff_getElem?.2 hp
  unfold assemble
  simp only
  generalize plans.zipIdx = L at hm
  suffices h : ∀ (es : List (Goal × Goal)),
      (j, i) ∈ L.foldl (fun es (p : Plan × Nat) => p.1.parents.foldl (addEdge p.2) es) es from h []
  have mono : ∀ (L : List (Plan × Nat)) (es : List (Goal × Goal)), (j, i) ∈ es →
      (j, i) ∈ L.foldl (fun es (p : Plan × Nat) => p.1.parents.foldl (addEdge p.2) es) es := by
    intro L
    induction L with
    | nil => intro es h; exact h
    | cons q L ih =>
      intro es h
      rw [List.foldl_cons]
      apply ih
      exact mem_addEdge_fold_mono _ _ _ _ h
  induction L with
  | nil => cases hm
  | cons q L ih =>
    intro es
    rw [List.foldl_cons]
    rcases List.mem_cons.1 hm with rfl | hm
    · apply mono
      exact mem_addEdge_fold _ _ _ _ hj
    · exact ih hm _

/-! ### converses: where the elements of a successful `mapE` and the edges of `assemble` come from -/

theorem mapE_ok_mem_inv {α β ε : Type} {f : α → Except ε β} {l : List α} {bs : List β}
    (h : mapE f l = .ok bs) {b : β} (hb : b ∈ bs) : ∃ a, a ∈ l ∧ f a = .ok b := by
  induction l generalizing bs with
  | nil =>
    simp only [mapE] at h
    cases h
    cases hb
  | cons a as ih =>
    simp only [mapE] at h
    split at h
    · cases h
    · rename_i b0 hf
      split at h
      · cases h
      · rename_i bs0 hbs
        cases h
        rcases List.mem_cons.1 hb with rfl | hb
        · exact ⟨a, List.mem_cons_self, hf⟩
        · obtain ⟨a', ha', hfa'⟩ := ih hbs hb
          exact ⟨a', List.mem_cons_of_mem _ ha', hfa'⟩

theorem mapE_ok_length {α β ε : Type} {f : α → Except ε β} {l : List α} {bs : List β}
    (h : mapE f l = .ok bs) : bs.length = l.length := by
  induction l generalizing bs with
  | nil =>
    simp only [mapE] at h
    cases h
    rfl
  | cons a as ih =>
    simp only [mapE] at h
    split at h
    · cases h
    · split at h
      · cases h
      · rename_i bs0 hbs
        cases h
        simp [ih hbs]

theorem mem_addEdge_fold_inv (i : Goal) (ps : List Goal) (es : List (Goal × Goal)) (e : Goal × Goal)
    (h : e ∈ ps.foldl (addEdge i) es) : e ∈ es ∨ (e.2 = i ∧ e.1 ∈ ps) := by
  induction ps generalizing es with
  | nil => exact Or.inl h
  | cons p ps ih =>
    rw [List.foldl_cons] at h
    rcases ih _ h with h | ⟨h1, h2⟩
    · unfold addEdge at h
      split at h
      · exact Or.inl h
      · rcases List.mem_append.1 h with h | h
        · exact Or.inl h
        · simp only [List.mem_singleton] at h
          subst h
          exact Or.inr ⟨rfl, List.mem_cons_self⟩
    · exact Or.inr ⟨h1, List.mem_cons_of_mem _ h2⟩

/-- Every edge of the assembled goal graph was added for a parent in the plan of its target. -/
theorem assemble_edge_inv {plans : List Plan} {j i : Goal} (h : (j, i) ∈ (assemble plans).edges) :
    ∃ p, plans[i]? = some p ∧ j ∈ p.parents := by
  unfold assemble at h
  simp only at h
  have key : ∀ (L : List (Plan × Nat)) (es : List (Goal × Goal)),
      (j, i) ∈ L.foldl (fun es (p : Plan × Nat) => p.1.parents.foldl (addEdge p.2) es) es →
      (j, i) ∈ es ∨ ∃ q ∈ L, q.2 = i ∧ j ∈ q.1.parents := by
    intro L
    induction L with
    | nil => intro es h; exact Or.inl h
    | cons q L ih =>
      intro es h
      rw [List.foldl_cons] at h
      rcases ih _ h with h | ⟨q', hq', h1, h2⟩
      · rcases mem_addEdge_fold_inv _ _ _ _ h with h | ⟨h1, h2⟩
        · exact Or.inl h
        · exact Or.inr ⟨q, List.mem_cons_self, h1.symm, h2⟩
      · exact Or.inr ⟨q', List.mem_cons_of_mem _ hq', h1, h2⟩
  rcases key _ _ h with h | ⟨q, hq, h1, h2⟩
  · cases h
  · obtain ⟨p, k⟩ := q
    simp only at h1 h2
    subst h1
    exact ⟨p, List.mem_zipIdx_iff_getElem?.1 hq, h2⟩

/-! ### `findGoal`, `nodePred` -/

theorem findGoal_some {goals : List GoalKind} {g : GoalKind} {j : Nat} (h : findGoal goals g = some j) :
    goals[j]? = some g := by
  unfold findGoal at h
  simp only at h
  split at h
  · rename_i hlt
    cases h
    have := List.findIdx_getElem (w := hlt)
    simp only [beq_iff_eq] at this
    rw [List.getElem?_eq_some_iff]
    exact ⟨hlt, this⟩
  · cases h

theorem findGoal_isSome {goals : List GoalKind} {g : GoalKind} (h : g ∈ goals) :
    ∃ j, findGoal goals g = some j := by
  unfold findGoal
  have : List.findIdx (fun x => x == g) goals < goals.length :=
    List.findIdx_lt_length.2 ⟨g, h, by simp⟩
  simp [this]

theorem nodePred_some {preds : List Pred} {co node : Nat} {dp : Pred} (h : nodePred preds co node = some dp) :
    dp ∈ preds ∧ dp.co = co ∧ dp.node = node := by
  unfold nodePred at h
  have := List.mem_of_getLast? h
  simpa using this

theorem nodePred_isSome {preds : List Pred} {co node : Nat} {dp : Pred} (hm : dp ∈ preds)
    (hc : dp.co = co) (hn : dp.node = node) : ∃ dp', nodePred preds co node = some dp' := by
  unfold nodePred
  cases h : (preds.filter (fun p => p.co == co && p.node == node)).getLast? with
  | some d => exact ⟨d, rfl⟩
  | none =>
    rw [List.getLast?_eq_none_iff] at h
    have : dp ∈ preds.filter (fun p => p.co == co && p.node == node) := by
      simp [hm, hc, hn]
    rw [h] at this
    cases this

/-! ### Relations on a stored CDG -/

/-- An edge the two CDG walks pass through: not (labelled and leaving a basic block). -/
def PassEdge (g : CG) (isBlock : Node → Bool) (a b : Node) : Prop :=
  ∃ l, (a, b, l) ∈ g ∧ isPass isBlock (a, b, l) = true

/-- A control-dependence edge proper: labelled, leaving a basic block. -/
def DepEdge (g : CG) (isBlock : Node → Bool) (p : Node) (v : Bool) (m : Node) : Prop :=
  (p, m, some v) ∈ g ∧ isBlock p = true

inductive PassPath (g : CG) (isBlock : Node → Bool) : Node → Node → Prop
  | refl (n : Node) : PassPath g isBlock n n
  | head {a b n : Node} : PassEdge g isBlock a b → PassPath g isBlock b n → PassPath g isBlock a n

/-- Reachability in the stored CDG along any edges. -/
inductive Reach (g : CG) (root : Node) : Node → Prop
  | root : Reach g root root
  | step {m n : Node} {l : Label} : Reach g root m → (m, n, l) ∈ g → Reach g root n

/-- Every edge is a pass edge or a dependence edge. -/
theorem edge_cases {g : CG} {isBlock : Node → Bool} {m n : Node} {l : Label} (h : (m, n, l) ∈ g) :
    PassEdge g isBlock m n ∨ ∃ v, DepEdge g isBlock m v n := by
  by_cases hp : isPass isBlock (m, n, l) = true
  · exact Or.inl ⟨l, h, hp⟩
  · right
    unfold isPass at hp
    simp only [Bool.not_eq_true', Bool.not_eq_false, Bool.and_eq_true, Option.isSome_iff_exists] at hp
    obtain ⟨hb, v, rfl⟩ := hp
    exact ⟨v, h, hb⟩

/-! ### Certificate checkers are sound -/

theorem wfBack_sound {g : CG} {isBlock : Node → Bool} {n : Node} :
    ∀ {S : List Node}, wfBack g isBlock n S = true → n ∈ S ∧ ∀ m ∈ S, PassPath g isBlock m n
  | [], h => by simp [wfBack] at h
  | [m], h => by
    simp only [wfBack, beq_iff_eq] at h
    subst h
    exact ⟨by simp, fun x hx => by
      have : x = m := by simpa using hx
      subst this
      exact PassPath.refl _⟩
  | m :: m' :: rest, h => by
    simp only [wfBack, Bool.and_eq_true, List.any_eq_true, beq_iff_eq, List.contains_eq_mem,
      decide_eq_true_eq] at h
    obtain ⟨⟨e, he, ⟨he1, hpass⟩, hin⟩, hrest⟩ := h
    obtain ⟨hn, ih⟩ := wfBack_sound (S := m' :: rest) hrest
    refine ⟨List.mem_cons_of_mem _ hn, ?_⟩
    intro x hx
    rcases List.mem_cons.1 hx with rfl | hx
    · have hb := ih e.2.1 hin
      refine PassPath.head ⟨e.2.2, ?_, ?_⟩ hb
      · rw [← he1]; exact he
      · rw [← he1]; exact hpass
    · exact ih x hx

theorem closedBack_complete {g : CG} {isBlock : Node → Bool} {S : List Node}
    (hc : closedBack g isBlock S = true) {m n : Node} (hp : PassPath g isBlock m n) (hn : n ∈ S) :
    m ∈ S := by
  induction hp with
  | refl _ => exact hn
  | head he _ ih =>
    have hb := ih hn
    obtain ⟨l, hmem, hpass⟩ := he
    simp only [closedBack, List.all_eq_true, Bool.or_eq_true, Bool.not_eq_true', Bool.and_eq_false_iff,
      List.contains_eq_mem, decide_eq_false_iff_not, decide_eq_true_eq] at hc
    rcases hc _ hmem with (h1 | h1) | h1
    · exact absurd hb h1
    · rw [hpass] at h1; cases h1
    · exact h1

theorem mem_specDeps {g : CG} {isBlock : Node → Bool} {S : List Node} {p : Node} {v : Bool} :
    (p, v) ∈ specDeps g isBlock S ↔ ∃ m, DepEdge g isBlock p v m ∧ m ∈ S := by
  unfold specDeps DepEdge
  rw [List.mem_filterMap]
  constructor
  · rintro ⟨⟨a, b, l⟩, he, h⟩
    simp only at h
    split at h
    · rename_i hc
      simp only [Bool.and_eq_true, List.contains_eq_mem, decide_eq_true_eq] at hc
      cases l with
      | none => simp at h
      | some w =>
        simp only [Option.map_some, Option.some.injEq, Prod.mk.injEq] at h
        obtain ⟨rfl, rfl⟩ := h
        exact ⟨b, ⟨he, hc.1⟩, hc.2⟩
    · cases h
  · rintro ⟨m, ⟨he, hb⟩, hm⟩
    refine ⟨(p, m, some v), he, ?_⟩
    simp [hb, hm]

theorem wfFwd_sound {g : CG} {root : Node} :
    ∀ {R : List Node}, wfFwd g root R = true → ∀ m ∈ R, Reach g root m
  | [], h => by simp [wfFwd] at h
  | [m], h => by
    simp only [wfFwd, beq_iff_eq] at h
    subst h
    intro x hx
    have : x = m := by simpa using hx
    subst this
    exact Reach.root
  | m :: m' :: rest, h => by
    simp only [wfFwd, Bool.and_eq_true, List.any_eq_true, beq_iff_eq, List.contains_eq_mem,
      decide_eq_true_eq] at h
    obtain ⟨⟨e, he, he1, hin⟩, hrest⟩ := h
    have ih := wfFwd_sound (R := m' :: rest) hrest
    intro x hx
    rcases List.mem_cons.1 hx with rfl | hx
    · have hr := ih e.1 hin
      refine Reach.step (l := e.2.2) hr ?_
      rw [← he1]; exact he
    · exact ih x hx

/-! ### `removeNode` -/

/-- The re-linking loop: `add_edge(pred, succ)` without attributes. -/
def relink (acc : CG) (q : Node × Node) : CG :=
  if acc.any (fun e => e.1 == q.1 && e.2.1 == q.2) then acc else acc ++ [(q.1, q.2, none)]

theorem removeNode_eq (g : CG) (x : Node) :
    removeNode g x =
      ((((g.filter (fun e => e.2.1 == x && e.1 != x)).map (fun e => e.1)).eraseDups).flatMap
        (fun p => (((g.filter (fun e => e.1 == x && e.2.1 != x)).map (fun e => e.2.1)).eraseDups).map
          (fun s => (p, s)))).foldl relink (g.filter (fun e => e.1 != x && e.2.1 != x)) := rfl

theorem relink_fold_mono (qs : List (Node × Node)) (acc : CG) (e : Node × Node × Label) (h : e ∈ acc) :
    e ∈ qs.foldl relink acc := by
  induction qs generalizing acc with
  | nil => exact h
  | cons q qs ih =>
    rw [List.foldl_cons]
    apply ih
    unfold relink
    split
    · exact h
    · exact List.mem_append_left _ h

theorem relink_fold_new (qs : List (Node × Node)) (acc : CG) (q : Node × Node) (h : q ∈ qs) :
    ∃ l, (q.1, q.2, l) ∈ qs.foldl relink acc := by
  induction qs generalizing acc with
  | nil => cases h
  | cons q' qs ih =>
    rw [List.foldl_cons]
    rcases List.mem_cons.1 h with rfl | h
    · by_cases hc : acc.any (fun e => e.1 == q.1 && e.2.1 == q.2) = true
      · obtain ⟨e, he, hq⟩ := List.any_eq_true.1 hc
        simp only [Bool.and_eq_true, beq_iff_eq] at hq
        refine ⟨e.2.2, relink_fold_mono _ _ _ ?_⟩
        unfold relink
        rw [if_pos hc, ← hq.1, ← hq.2]
        exact he
      · refine ⟨none, relink_fold_mono _ _ _ ?_⟩
        unfold relink
        rw [if_neg hc]
        simp
    · exact ih _ h

theorem relink_fold_mem (qs : List (Node × Node)) (acc : CG) (e : Node × Node × Label)
    (h : e ∈ qs.foldl relink acc) : e ∈ acc ∨ e.2.2 = none := by
  induction qs generalizing acc with
  | nil => exact Or.inl h
  | cons q qs ih =>
    rw [List.foldl_cons] at h
    rcases ih _ h with h1 | h1
    · unfold relink at h1
      split at h1
      · exact Or.inl h1
      · rcases List.mem_append.1 h1 with h2 | h2
        · exact Or.inl h2
        · right
          have : e = (q.1, q.2, none) := by simpa using h2
          rw [this]
    · exact Or.inr h1

theorem removeNode_kept {g : CG} {x m n : Node} {l : Label} (h : (m, n, l) ∈ g) (hm : m ≠ x) (hn : n ≠ x) :
    (m, n, l) ∈ removeNode g x := by
  rw [removeNode_eq]
  apply relink_fold_mono
  simp [h, hm, hn]

theorem removeNode_new {g : CG} {x p s : Node} {l1 l2 : Label} (h1 : (p, x, l1) ∈ g) (hp : p ≠ x)
    (h2 : (x, s, l2) ∈ g) (hs : s ≠ x) : ∃ l, (p, s, l) ∈ removeNode g x := by
  rw [removeNode_eq]
  apply relink_fold_new _ _ (p, s)
  simp only [List.mem_flatMap, List.mem_eraseDups, List.mem_map, List.mem_filter, Bool.and_eq_true,
    beq_iff_eq, bne_iff_ne, ne_eq, Prod.mk.injEq]
  exact ⟨p, ⟨(p, x, l1), ⟨h1, rfl, hp⟩, rfl⟩, s, ⟨(x, s, l2), ⟨h2, rfl, hs⟩, rfl⟩, rfl, rfl⟩

theorem removeNode_some {g : CG} {x p m : Node} {v : Bool} (h : (p, m, some v) ∈ removeNode g x) :
    (p, m, some v) ∈ g ∧ p ≠ x ∧ m ≠ x := by
  rw [removeNode_eq] at h
  rcases relink_fold_mem _ _ _ h with h1 | h1
  · simpa using h1
  · cases h1

/-! ### `removedNodes` / `checkPrune` (which nodes `_create_covered_cdg` removes) -/

theorem not_mem_removedNodes {hasAst : Bool} {bs : List BlockInfo} {b : BlockInfo} (hb : b ∈ bs)
    (h : b.node ∉ removedNodes hasAst bs) : hasAst = false ∨ keepNode b = true := by
  unfold removedNodes at h
  cases hasAst with
  | false => exact Or.inl rfl
  | true =>
    right
    simp only [if_true, List.mem_map, List.mem_filter, Bool.not_eq_true', not_exists, not_and] at h
    cases hk : keepNode b with
    | true => rfl
    | false => exact absurd rfl (h b ⟨hb, hk⟩)

theorem checkPrune_root {preds : List Pred} {co : Nat} {hasAst : Bool} {isBlock : Node → Bool} {root : Node}
    {bs : List BlockInfo} {full : CG} (h : checkPrune preds co hasAst isBlock root bs full = true) :
    root ∉ removedNodes hasAst bs := by
  unfold checkPrune at h
  simp only [Bool.and_eq_true, List.all_eq_true] at h
  unfold removedNodes
  cases hasAst with
  | false => simp
  | true =>
    simp only [if_true, List.mem_map, List.mem_filter, Bool.not_eq_true', not_exists, not_and]
    intro b ⟨hb, hk⟩ hn
    have := h.1 b hb
    simp only [hn, bne_self_eq_false, Bool.false_or, Bool.not_eq_true'] at this
    unfold keepNode at hk
    simp [this] at hk

end PynguinModel.GoalGraph
