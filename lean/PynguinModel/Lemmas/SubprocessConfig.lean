import PynguinModel.Model.SubprocessConfig
import PynguinModel.Lemmas.SubprocessAlign
/-!
# Lemmas for C31, configuration transport: the tuple round trip, the fallback executor, `zip`, sums of bounds.
-/
namespace PynguinModel.SubprocessAlign

theorem childEntry_setupArgs (g : Nat) (c : ExecConfig) (ts : List τ) (bs : List Bindings) :
    childEntry (setupArgs g c ts bs) =
      some { settings := g, cfg := fallbackConfig c, tests := ts, binds := bs } := rfl

theorem yieldRemote_fallback (c : ExecConfig) : (fallbackConfig c).yieldRemote = c.yieldRemote := by
  simp [fallbackConfig, ExecConfig.yieldRemote]

theorem timeBound_fallback (c : ExecConfig) (n : Nat) : timeBound (fallbackConfig c) n = timeBound c n := rfl

theorem pollTimeout_fallback (c : ExecConfig) (ns : List Nat) :
    pollTimeout (fallbackConfig c) ns = pollTimeout c ns := rfl

theorem fallbackConfig_idem (c : ExecConfig) : fallbackConfig (fallbackConfig c) = fallbackConfig c := by
  simp [fallbackConfig, ExecConfig.yieldRemote]

theorem execute_fallback (c : ExecConfig) (size : τ → Nat) (dur : τ → Nat)
    (body : Nat → Nat → List String → τ → Res) :
    execute (fallbackConfig c) size dur body = execute c size dur body := by
  funext t
  simp only [execute, timeBound_fallback, yieldRemote_fallback]
  rfl

theorem zipBindings_map (ts : List τ) (f : τ → Res) (bind : τ → Bindings) :
    zipBindings (ts.map f) (ts.map bind) = some (ts.map (fun t => newBindings (f t) (bind t))) := by
  induction ts with
  | nil => rfl
  | cons t r ih => simp [zipBindings, ih]

theorem zipBindings_length (rs : List Res) (bs : List Bindings) (out : List (Option Bindings))
    (h : zipBindings rs bs = some out) : rs.length = bs.length ∧ out.length = rs.length := by
  induction rs generalizing bs out with
  | nil =>
    cases bs with
    | nil => simp [zipBindings] at h; subst h; simp
    | cons b bs => simp [zipBindings] at h
  | cons r rs ih =>
    cases bs with
    | nil => simp [zipBindings] at h
    | cons b bs =>
      simp only [zipBindings] at h
      cases hz : zipBindings rs bs with
      | none => simp [hz] at h
      | some o =>
        simp [hz] at h
        subst h
        have := ih bs o hz
        simp [this.1, this.2]

theorem childRun_maps (run : τ → Res) (probe : τ → Probes) (bind : τ → Bindings) (tests : List τ) :
    childRun run probe bind tests =
      (tests.map (fun t => fixForPickle (probe t) (run t)),
       tests.map (fun t => newBindings (fixForPickle (probe t) (run t)) (bind t))) := by
  simp only [childRun, Prod.mk.injEq, true_and]
  induction tests with
  | nil => rfl
  | cons t r ih => simp [ih]

/-- The child started on the tuple of `_setup_subprocess_execution` answers what `childRun` describes for
the executor `execute c`: the configuration arrives intact. -/
theorem childMain_setupArgs (g : Nat) (c : ExecConfig) (size : τ → Nat) (dur : τ → Nat)
    (body : Nat → Nat → List String → τ → Res) (probe : τ → Probes) (bind : τ → Bindings) (ts : List τ) :
    childMain size dur body probe (setupArgs g c ts (ts.map bind)) =
      .results (childRun (execute c size dur body) probe bind ts).1
               (childRun (execute c size dur body) probe bind ts).2 := by
  simp only [childMain, childEntry_setupArgs, execute_fallback, childRun_maps]
  rw [zipBindings_map ts (fun t => fixForPickle (probe t) (execute c size dur body t)) bind]

theorem childMain_fallback (g : Nat) (c : ExecConfig) (size : τ → Nat) (dur : τ → Nat)
    (body : Nat → Nat → List String → τ → Res) (probe : τ → Probes) (ts : List τ) (bs : List Bindings) :
    childMain size dur body probe (setupArgs g (fallbackConfig c) ts bs) =
      childMain size dur body probe (setupArgs g c ts bs) := by
  simp only [childMain, childEntry_setupArgs, fallbackConfig_idem]

theorem remoteCfg_eq_remoteOf (g : Nat) (c : ExecConfig) (size : τ → Nat) (dur : τ → Nat)
    (body : Nat → Nat → List String → τ → Res) (probe : τ → Probes) (bind : τ → Bindings)
    (crash : List τ → Crash) :
    remoteCfg g c size dur body probe bind crash = remoteOf crash (execute c size dur body) probe bind := by
  funext ts
  simp only [remoteCfg, remoteOf]
  cases crash ts with
  | noResults => rfl
  | recvFailed => rfl
  | none => simp only [childMain_setupArgs]

theorem sum_timeBound_le (c : ExecConfig) (sizes : List Nat) :
    (sizes.map (timeBound c)).sum ≤ c.maxTimeout * sizes.length ∧
    (sizes.map (timeBound c)).sum ≤ (sizes.map (fun s => c.perStatement * max s 1)).sum := by
  induction sizes with
  | nil => simp
  | cons s r ih =>
    simp only [List.map_cons, List.sum_cons, List.length_cons]
    have h1 : timeBound c s ≤ c.maxTimeout := Nat.min_le_left _ _
    have h2 : timeBound c s ≤ c.perStatement * max s 1 := Nat.min_le_right _ _
    refine ⟨?_, by omega⟩
    rw [Nat.mul_succ]
    omega

end PynguinModel.SubprocessAlign
