import PynguinModel.Lemmas.TestCase
/-!
C15 helper lemmas: what `_rebuild_registry` computes, per type.
-/
namespace PynguinModel.TestCase

set_option linter.unusedSimpArgs false

theorem regGet_regAdd (r : Registry) (t t' : Ty) (v : Name) :
    regGet (regAdd r t v) t' = if t = t' then regGet r t' ++ [v] else regGet r t' := by
  induction r with
  | nil => simp [regAdd, regGet]
  | cons p r ih =>
    obtain ⟨t0, vs⟩ := p
    simp only [regAdd]
    by_cases h0 : t0 = t
    · subst h0
      by_cases h1 : t0 = t' <;> simp [regGet, h1]
    · simp only [h0, if_false, regGet, ih]
      by_cases h1 : t = t'
      · subst h1; simp [h0]
      · simp [h1]

/-- the names bound with type `t` by a statement list, in statement order -/
def typedNames (t : Ty) (l : List Stmt) : List Name :=
  (l.filter (fun s => decide (s.btype = some t))).filterMap (·.bound)

theorem regGet_register (r : Registry) (s : Stmt) (t : Ty) :
    regGet (register r s) t = regGet r t ++ typedNames t [s] := by
  unfold register typedNames
  cases hb : s.bound with
  | none => cases ht : s.btype <;> simp [List.filter_cons, hb]
  | some v =>
    cases ht : s.btype with
    | none => simp [hb, ht, List.filter_cons]
    | some t0 =>
      simp only [regGet_regAdd, List.filter_cons, ht, Option.some.injEq]
      by_cases h : t0 = t <;> simp [h, hb]

theorem regGet_foldl (l : List Stmt) (r : Registry) (t : Ty) :
    regGet (l.foldl register r) t = regGet r t ++ typedNames t l := by
  induction l generalizing r with
  | nil => simp [typedNames]
  | cons s l ih =>
    simp only [List.foldl_cons, ih, regGet_register, List.append_assoc]
    congr 1
    simp only [typedNames, List.filter_cons]
    split
    · cases hb : s.bound <;> simp [List.filterMap_cons, hb]
    · simp

end PynguinModel.TestCase
