import PynguinModel.Lemmas.Cache
/-!
# C12 — the two hosts (test case, suite), the operators, and the world step
-/
namespace PynguinModel.Cache

/-! ## test-case chromosomes -/

/-- an unchanged test case's stored result is the result of its current statements -/
def TcGood (t : Tc) : Prop := t.changed = false → ∀ r, t.result = some r → r = t.content

/-- full invariant of a test-case chromosome -/
def TcOK (S : Sem Content) (t : Tc) : Prop :=
  TcGood t ∧ RegInv t.cache ∧ (t.changed = false → CacheFresh S t.cache t.content)

theorem tcLaws : Laws tcHost (fun t : Tc => t.content) TcGood where
  run_good := by
    intro t hg
    obtain ⟨c, ch, r, ca⟩ := t
    cases ch <;> cases r <;> simp_all [tcHost, Tc.run, TcGood]
  run_val := by
    intro t hg
    obtain ⟨c, ch, r, ca⟩ := t
    cases ch <;> cases r <;> simp_all [tcHost, Tc.run, TcGood]
  run_truth := by
    intro t
    obtain ⟨c, ch, r, ca⟩ := t
    cases ch <;> cases r <;> simp [tcHost, Tc.run]
  run_clear := by
    intro t hg
    obtain ⟨c, ch, r, ca⟩ := t
    cases ch <;> cases r <;> simp_all [tcHost, Tc.run, TcGood]
  clear_truth := by intro t; rfl

theorem tcQuery_spec {S : Sem Content} (hS : S.Consistent) {V : Ver} (hV : V.keepFlag = true) (q : Query) (t : Tc)
    (ht : TcOK S t) (hq : Registered t.cache q) :
    TcOK S (Tc.query S V q t).1 ∧ (Tc.query S V q t).1.content = t.content ∧
    (Tc.query S V q t).1.cache.funcs = t.cache.funcs ∧ (Tc.query S V q t).1.cache.covFuncs = t.cache.covFuncs ∧
    (Tc.query S V q t).2 = expected S t.content t.cache.funcs t.cache.covFuncs q := by
  obtain ⟨hg, hr, hf⟩ := ht
  obtain ⟨a1, a2, a3, a4, a5, a6, a7⟩ := cacheQuery_spec tcLaws hS hV q t t.cache hg hr hf hq
  simp only [Tc.query]
  refine ⟨⟨?_, a4, ?_⟩, a2, a5, a6, a7⟩
  · intro h r hr'; exact a1 h r hr'
  · intro _; exact a2 ▸ a3

theorem final_unflagged {V : Ver} (hV : V.useInsert = true) (e : MutEff) (c0 : Content) (hh : e.honest c0 = true)
    (hf : (e.final V c0).2 = false) : (e.final V c0).1 = c0 := by
  obtain ⟨chop, del, chg, ins, hasCall, ins2⟩ := e
  cases chop <;> cases del <;> cases chg <;> cases ins <;> cases hasCall <;>
    simp_all [MutEff.final, MutEff.honest, MutEff.start, applySub, subHonest, curOf]

theorem tcMutate_content {V : Ver} (hV : V.useInsert = true) (t : Tc) (e : MutEff) (hh : e.honest t.content = true)
    (hc : (t.mutate V e).changed = false) : (t.mutate V e).content = t.content ∧ t.changed = false := by
  simp only [Tc.mutate] at hc ⊢
  by_cases h2 : (e.final V t.content).2 = true
  · simp [h2] at hc
  · have h2' : (e.final V t.content).2 = false := by simpa using h2
    simp [h2'] at hc
    exact ⟨final_unflagged hV e t.content hh h2', hc⟩

theorem tcMutate_ok {S : Sem Content} {V : Ver} (hV : V.useInsert = true) (t : Tc) (e : MutEff)
    (hh : e.honest t.content = true) (ht : TcOK S t) : TcOK S (t.mutate V e) := by
  obtain ⟨hg, hr, hf⟩ := ht
  refine ⟨?_, hr, ?_⟩
  · intro hc
    obtain ⟨e1, e2⟩ := tcMutate_content hV t e hh hc
    intro r hres
    rw [e1]; exact hg e2 r hres
  · intro hc
    obtain ⟨e1, e2⟩ := tcMutate_content hV t e hh hc
    rw [e1]; exact hf e2

theorem tcSplice_ok {S : Sem Content} (t : Tc) (o : Option Content) (ht : TcOK S t) : TcOK S (t.splice o) := by
  cases o with
  | none => exact ht
  | some c => exact ⟨by simp [TcGood, Tc.splice], ht.2.1, by simp [Tc.splice]⟩

theorem tcNew_ok {S : Sem Content} (c : Content) (fs : List Func) : TcOK S (Tc.new c fs) :=
  ⟨by simp [TcGood, Tc.new], regInv_empty fs, by simp [Tc.new]⟩

theorem regInv_addFit {c : Cache} (h : RegInv c) (f : Func) : RegInv (c.addFit f) := by
  obtain ⟨n1, n2, n3, s1, s2, s3⟩ := h
  exact ⟨n1, n2, n3, fun g hg => by simp [Cache.addFit, s1 g hg], fun g hg => by simp [Cache.addFit, s2 g hg], s3⟩

theorem regInv_addCov {c : Cache} (h : RegInv c) (f : Func) : RegInv (c.addCov f) := by
  obtain ⟨n1, n2, n3, s1, s2, s3⟩ := h
  exact ⟨n1, n2, n3, s1, s2, fun g hg => by simp [Cache.addCov, s3 g hg]⟩

/-- cache edits that keep the invariants (add a function, invalidate) -/
def CacheEdit (g : Cache → Cache) : Prop :=
  (∀ c, RegInv c → RegInv (g c)) ∧ (∀ (R : Type) (S : Sem R) c r, CacheFresh S c r → CacheFresh S (g c) r)

theorem cacheEdit_addFit (f : Func) : CacheEdit (·.addFit f) :=
  ⟨fun _ h => regInv_addFit h f, fun _ _ _ _ h => h⟩

theorem cacheEdit_addCov (f : Func) : CacheEdit (·.addCov f) :=
  ⟨fun _ h => regInv_addCov h f, fun _ _ _ _ h => h⟩

theorem cacheEdit_invalidate : CacheEdit (·.invalidate) :=
  ⟨fun c _ => regInv_invalidate c, fun _ S c r _ => cacheFresh_invalidate S c r⟩

theorem tcEdit_ok {S : Sem Content} {g : Cache → Cache} (hg : CacheEdit g) (t : Tc) (ht : TcOK S t) :
    TcOK S { t with cache := g t.cache } :=
  ⟨ht.1, hg.1 _ ht.2.1, fun h => hg.2 _ S _ _ (ht.2.2 h)⟩

/-! ## suites (member objects by reference) -/

theorem mem_of_getElem? {l : List α} {i : Nat} {a : α} (h : l[i]? = some a) : a ∈ l :=
  List.mem_iff_getElem?.2 ⟨i, h⟩

theorem forall_set {P : α → Prop} {l : List α} (h : ∀ a ∈ l, P a) (i : Nat) (b : α) (hb : P b) :
    ∀ a ∈ l.set i b, P a := by
  intro a ha
  rcases List.mem_or_eq_of_mem_set ha with e | e
  · exact h a e
  · exact e ▸ hb

def SuGood (S : Sem Content) (s : Suite) : Prop := ∀ t ∈ s.objs, TcOK S t

def contents (ts : List Tc) : List Content := ts.map (·.content)

def SuiteOK (S : Sems) (s : Suite) : Prop :=
  SuGood S.tc s ∧ RegInv s.cache ∧ (s.changed = false → CacheFresh S.su s.cache (contents s.members))

theorem objAt_of_getElem? {st : List Tc} {i : Nat} {t : Tc} (h : st[i]? = some t) : objAt st i = t := by
  simp [objAt, List.getD_eq_getElem?_getD, h]

theorem objAt_ok {S : Sem Content} {st : List Tc} (h : ∀ t ∈ st, TcOK S t) (i : Nat) : TcOK S (objAt st i) := by
  cases hi : st[i]? with
  | none => simp only [objAt, List.getD_eq_getElem?_getD, hi, Option.getD_none]; exact tcNew_ok 0 []
  | some t => rw [objAt_of_getElem? hi]; exact h t (mem_of_getElem? hi)

theorem objAt_set (st : List Tc) (i j : Nat) (x : Tc) :
    objAt (st.set i x) j = if i = j ∧ i < st.length then x else objAt st j := by
  simp only [objAt, List.getD_eq_getElem?_getD, List.getElem?_set]
  by_cases hij : i = j
  · subst hij
    by_cases hl : i < st.length
    · simp [hl]
    · simp [hl]
  · simp [hij]

/-- the two stores hold the same statements, object by object -/
def SameC (st st' : List Tc) : Prop := ∀ j, (objAt st' j).content = (objAt st j).content

theorem sameC_set (st : List Tc) (i : Nat) (x : Tc) (hx : x.content = (objAt st i).content) :
    SameC st (st.set i x) := by
  intro j
  rw [objAt_set]
  by_cases h : i = j ∧ i < st.length
  · rw [if_pos h, hx, h.1]
  · rw [if_neg h]

theorem contents_congr {st st' : List Tc} (h : SameC st st') (order : List Nat) :
    contents (order.map (objAt st')) = contents (order.map (objAt st)) := by
  simp only [contents, List.map_map]
  exact List.map_congr_left fun i _ => h i

theorem members_ok {S : Sem Content} (s : Suite) (hg : SuGood S s) : ∀ t ∈ s.members, TcOK S t := by
  intro t ht
  simp only [Suite.members, List.mem_map] at ht
  obtain ⟨i, _, e⟩ := ht
  exact e ▸ objAt_ok hg i

theorem executed_ok {S : Sem Content} (t : Tc) (ht : TcOK S t) : TcOK S (t.executed t.content) := by
  obtain ⟨_, hr, _⟩ := ht
  refine ⟨?_, regInv_invalidate _, fun _ => cacheFresh_invalidate S _ _⟩
  intro _ r hres
  simp only [Tc.executed, Option.some.injEq] at hres
  exact hres.symm

/-- the hand-out loop never touches the statements -/
theorem handOut_sameC : ∀ (ps : List (Nat × Bool)) (st : List Tc) (it : List Content) (p : List Tc × List Content),
    handOut st ps it = some p → SameC st p.1
  | [], st, it, p, h => by
    simp only [handOut, Option.some.injEq] at h
    subst h; intro j; rfl
  | (i, true) :: ps, st, [], p, h => by simp [handOut] at h
  | (i, true) :: ps, st, r :: it, p, h => by
    simp only [handOut, Option.map_eq_some_iff] at h
    obtain ⟨q, hq, e⟩ := h
    subst e
    have ih := handOut_sameC ps _ it q hq
    intro j
    rw [ih j]
    exact sameC_set st i ((objAt st i).executed r) rfl j
  | (i, false) :: ps, st, it, p, h => by
    simp only [handOut] at h
    cases hr : (objAt st i).result with
    | none => simp [hr] at h
    | some r =>
      simp only [hr, Option.map_eq_some_iff] at h
      obtain ⟨q, hq, e⟩ := h
      subst e
      exact handOut_sameC ps st it q hq

/-- **every position is handed the result of executing ITS OWN test**: with the flags of the snapshot and the
results of the flagged positions in position order, the loop neither runs dry nor shifts — also when one object
sits at several positions (flagged at all of them, executed once per position, every copy of the result equal) -/
theorem handOut_spec {S : Sem Content} : ∀ (ps : List (Nat × Bool)) (st : List Tc) (it : List Content),
    (∀ t ∈ st, TcOK S t) → it = pendingResults st ps →
    (∀ p ∈ ps, p.2 = false → needsExec (objAt st p.1) = false) →
    ∃ st', handOut st ps it = some (st', ps.map fun p => (objAt st p.1).content) ∧ (∀ t ∈ st', TcOK S t)
  | [], st, it, h, _, _ => ⟨st, by simp [handOut], h⟩
  | (i, true) :: ps, st, it, h, hit, hn => by
    have hit' : it = (objAt st i).content :: pendingResults st ps := by simpa [pendingResults] using hit
    subst hit'
    obtain ⟨x, hxdef⟩ : ∃ x, x = (objAt st i).executed (objAt st i).content := ⟨_, rfl⟩
    have hx : TcOK S x := hxdef ▸ executed_ok _ (objAt_ok h i)
    have hxc : x.content = (objAt st i).content := by rw [hxdef]; rfl
    have hst' : ∀ t ∈ st.set i x, TcOK S t := forall_set h i x hx
    have hsame : SameC st (st.set i x) := sameC_set st i x hxc
    have hpend : pendingResults st ps = pendingResults (st.set i x) ps := by
      simp only [pendingResults]
      exact List.map_congr_left fun p _ => (hsame p.1).symm
    have hn' : ∀ p ∈ ps, p.2 = false → needsExec (objAt (st.set i x) p.1) = false := by
      intro p hp hf
      rw [objAt_set]
      by_cases hc : i = p.1 ∧ i < st.length
      · rw [if_pos hc, hxdef]; simp [needsExec, Tc.executed]
      · rw [if_neg hc]; exact hn p (List.mem_cons_of_mem _ hp) hf
    obtain ⟨st', e1, e2⟩ := handOut_spec ps (st.set i x) _ hst' hpend hn'
    refine ⟨st', ?_, e2⟩
    simp only [handOut, ← hxdef, e1, Option.map_some, List.map_cons]
    congr 2
    congr 1
    exact List.map_congr_left fun p _ => hsame p.1
  | (i, false) :: ps, st, it, h, hit, hn => by
    have hne := hn (i, false) (by simp) rfl
    simp only [needsExec, Bool.or_eq_false_iff] at hne
    have hgood := (objAt_ok (S := S) h i).1 hne.1
    have hit' : it = pendingResults st ps := by simpa [pendingResults] using hit
    obtain ⟨st', e1, e2⟩ := handOut_spec ps st it h hit' (fun p hp => hn p (List.mem_cons_of_mem _ hp))
    refine ⟨st', ?_, e2⟩
    cases hr : (objAt st i).result with
    | none => simp [hr] at hne
    | some r =>
      have := hgood r hr
      simp only [handOut, hr, e1, Option.map_some, List.map_cons, this]

theorem suRun_spec {S : Sem Content} (s : Suite) (hg : SuGood S s) :
    ∃ st', s.run = ({ s with objs := st' }, contents s.members) ∧ (∀ t ∈ st', TcOK S t) ∧ SameC s.objs st' := by
  obtain ⟨st', e1, e2⟩ := handOut_spec (S := S) (snapshot s.objs s.order) s.objs _ hg rfl (by
    intro p hp hf
    simp only [snapshot, List.mem_map] at hp
    obtain ⟨i, _, e⟩ := hp
    subst e
    exact hf)
  refine ⟨st', ?_, e2, handOut_sameC _ _ _ _ e1⟩
  simp only [Suite.run, e1]
  simp only [contents, Suite.members, snapshot, List.map_map]
  rfl

theorem suRun_truth (s : Suite) : contents s.run.1.members = contents s.members := by
  simp only [Suite.run]
  cases h : handOut s.objs (snapshot s.objs s.order) (pendingResults s.objs (snapshot s.objs s.order)) with
  | none => rfl
  | some p => exact contents_congr (handOut_sameC _ _ _ _ h) s.order

theorem suLaws (S : Sem Content) : Laws suiteHost (fun s : Suite => contents s.members) (SuGood S) where
  run_good := by
    intro s hg
    obtain ⟨st', e, h1, _⟩ := suRun_spec s hg
    simp only [suiteHost, e]; exact h1
  run_val := by
    intro s hg
    obtain ⟨st', e, _, _⟩ := suRun_spec s hg
    simp only [suiteHost, e]
  run_truth := by intro s; exact suRun_truth s
  run_clear := by
    intro s hg
    obtain ⟨st', e, h1, _⟩ := suRun_spec s hg
    simp only [suiteHost, e]; exact h1
  clear_truth := by intro s; rfl

theorem suQuery_spec {S : Sems} (hS : S.su.Consistent) {V : Ver} (hV : V.keepFlag = true) (q : Query) (s : Suite)
    (hs : SuiteOK S s) (hq : Registered s.cache q) :
    SuiteOK S (Suite.query S.su V q s).1 ∧
    (Suite.query S.su V q s).2 = expected S.su (contents s.members) s.cache.funcs s.cache.covFuncs q := by
  obtain ⟨hg, hr, hf⟩ := hs
  obtain ⟨a1, a2, a3, a4, _, _, a7⟩ := cacheQuery_spec (suLaws S.tc) hS hV q s s.cache hg hr hf hq
  simp only [Suite.query]
  exact ⟨⟨a1, a4, fun _ => a2 ▸ a3⟩, a7⟩

/-- editing one member object without touching its statements keeps the suite's invariant -/
theorem suite_setMember {S : Sems} (s : Suite) (i : Nat) (t t' : Tc) (hs : SuiteOK S s) (hk : s.objs[i]? = some t)
    (ht' : TcOK S.tc t') (hc : t'.content = t.content) : SuiteOK S { s with objs := s.objs.set i t' } := by
  obtain ⟨hg, hr, hf⟩ := hs
  refine ⟨forall_set hg i t' ht', hr, ?_⟩
  intro hch
  have hsame : SameC s.objs (s.objs.set i t') := sameC_set _ i t' (by rw [objAt_of_getElem? hk]; exact hc)
  have := contents_congr hsame s.order
  simp only [Suite.members] at this ⊢
  rw [this]; exact hf hch

theorem mutObjs_spec {S : Sem Content} {V : Ver} (hV : V.useInsert = true) :
    ∀ (is : List Nat) (es : List (Option MutEff)) (st : List Tc), perHonest V st is es = true →
      (∀ t ∈ st, TcOK S t) →
      (∀ t ∈ (mutObjs V st is es).1, TcOK S t) ∧ ((mutObjs V st is es).2 = false → SameC st (mutObjs V st is es).1)
  | [], [], st, _, h => ⟨by simpa [mutObjs] using h, fun _ j => by simp [mutObjs]⟩
  | [], _ :: _, st, _, h => ⟨by simpa [mutObjs] using h, fun _ j => by simp [mutObjs]⟩
  | _ :: _, [], st, _, h => ⟨by simpa [mutObjs] using h, fun _ j => by simp [mutObjs]⟩
  | i :: is, none :: es, st, hh, h => by
    have ih := mutObjs_spec hV is es st (by simpa [perHonest] using hh) h
    simpa only [mutObjs] using ih
  | i :: is, some e :: es, st, hh, h => by
    simp only [perHonest, Bool.and_eq_true] at hh
    have hti := objAt_ok h i
    have hok := tcMutate_ok hV (objAt st i) e hh.1 hti
    have ih := mutObjs_spec hV is es (st.set i ((objAt st i).mutate V e)) hh.2 (forall_set h i _ hok)
    simp only [mutObjs]
    refine ⟨ih.1, ?_⟩
    intro hb
    simp only [Bool.or_eq_false_iff] at hb
    have hc := (tcMutate_content hV (objAt st i) e hh.1 hb.1).1
    intro j
    rw [ih.2 hb.2 j]
    exact sameC_set st i _ hc j

theorem filter_eq_of_length {p : α → Bool} {l : List α} (h : (l.filter p).length = l.length) : l.filter p = l := by
  induction l with
  | nil => rfl
  | cons a l ih =>
    by_cases ha : p a = true
    · simp only [List.filter_cons, ha, if_true, List.length_cons] at h ⊢
      rw [ih (by omega)]
    · have := List.length_filter_le p l
      simp only [List.filter_cons, ha, Bool.false_eq_true, if_false, List.length_cons] at h
      omega

theorem suMutate_ok {S : Sems} {V : Ver} (hV : V.useInsert = true) (s : Suite) (e : SuiteMutEff)
    (hh : perHonest V s.objs s.order e.per = true) (hfl : V.flagFilter = true ∨ s.filterOk V e = true)
    (hs : SuiteOK S s) : SuiteOK S (s.mutate V e) := by
  obtain ⟨hg, hr, hf⟩ := hs
  have sp := mutObjs_spec (S := S.tc) hV s.order e.per s.objs hh hg
  refine ⟨?_, hr, ?_⟩
  · intro x hx
    simp only [Suite.mutate, List.mem_append, List.mem_map] at hx
    rcases hx with h | ⟨p, _, hp⟩
    · exact sp.1 x h
    · exact hp ▸ tcNew_ok p.1 p.2
  · intro hch
    simp only [Suite.mutate] at hch
    -- the flag stayed False: nothing was flagged, nothing added, nothing dropped
    by_cases hb : (mutObjs V s.objs s.order e.per).2 = true
    · cases hV3 : V.flagFilter <;> simp [hb, hV3] at hch
    · have hb' : (mutObjs V s.objs s.order e.per).2 = false := by simpa using hb
      by_cases hadd : e.added = []
      · simp only [hadd, List.map_nil, List.append_nil, List.isEmpty_nil, Bool.not_true, Bool.or_false, hb',
          List.length_nil, List.range_zero] at hch
        have hkeep : s.order.filter (fun i => (objAt (mutObjs V s.objs s.order e.per).1 i).content != 0) = s.order := by
          rcases hfl with h3 | h3
          · simp only [h3, if_true, Bool.false_or] at hch
            by_cases hl : (s.order.filter (fun i => (objAt (mutObjs V s.objs s.order e.per).1 i).content != 0)).length
                = s.order.length
            · exact filter_eq_of_length hl
            · simp [hl] at hch
          · simp only [Suite.filterOk, hb', hadd, List.isEmpty_nil, Bool.not_true, Bool.or_false, Bool.false_or,
              List.all_eq_true] at h3
            exact List.filter_eq_self.2 h3
        have hsch : s.changed = false := by
          cases hV3 : V.flagFilter <;> simp [hV3, hkeep] at hch <;> exact hch
        have hmem : (s.mutate V e).members = s.order.map (objAt (mutObjs V s.objs s.order e.per).1) := by
          simp only [Suite.mutate, Suite.members, hadd, List.map_nil, List.append_nil, List.length_nil,
            List.range_zero, hkeep]
        rw [hmem, contents_congr (sp.2 hb') s.order]
        exact hf hsch
      · have : e.added.isEmpty = false := by
          cases hx : e.added with
          | nil => exact absurd hx hadd
          | cons _ _ => rfl
        cases hV3 : V.flagFilter <;> simp [this, hV3] at hch

theorem suAddTest_ok {S : Sems} (s : Suite) (t : Tc) (hs : SuiteOK S s) (ht : TcOK S.tc t) : SuiteOK S (s.addTest t) := by
  refine ⟨?_, hs.2.1, by simp [Suite.addTest]⟩
  intro x hx
  simp only [Suite.addTest, List.mem_append, List.mem_singleton] at hx
  rcases hx with h | h
  · exact hs.1 x h
  · exact h ▸ ht

theorem suAddAlias_ok {S : Sems} (s : Suite) (k : Nat) (hs : SuiteOK S s) : SuiteOK S (s.addAlias k) := by
  simp only [Suite.addAlias]
  cases s.order[k]? with
  | none => exact hs
  | some i => exact ⟨hs.1, hs.2.1, by simp⟩

theorem suSetAlias_ok {S : Sems} (s : Suite) (k j : Nat) (hs : SuiteOK S s) : SuiteOK S (s.setAlias k j) := by
  simp only [Suite.setAlias]
  cases s.order[j]? with
  | none => exact hs
  | some i => exact ⟨hs.1, hs.2.1, by simp⟩

theorem suDelTest_ok {S : Sems} (s : Suite) (k : Nat) (hs : SuiteOK S s) : SuiteOK S (s.delTest k) := by
  by_cases hk : k < s.order.length
  · simp only [Suite.delTest, hk, if_true]
    exact ⟨hs.1, hs.2.1, by simp⟩
  · simp only [Suite.delTest, hk, if_false]; exact hs

theorem suSetTest_ok {S : Sems} (s : Suite) (k : Nat) (t : Tc) (hs : SuiteOK S s) (ht : TcOK S.tc t) :
    SuiteOK S (s.setTest k t) := by
  refine ⟨?_, hs.2.1, by simp [Suite.setTest]⟩
  intro x hx
  simp only [Suite.setTest, List.mem_append, List.mem_singleton] at hx
  rcases hx with h | h
  · exact hs.1 x h
  · exact h ▸ ht

theorem suSplice_ok {S : Sems} (s : Suite) (o : List Tc) (p1 p2 : Nat) (hs : SuiteOK S s) (ho : ∀ t ∈ o, TcOK S.tc t) :
    SuiteOK S (s.splice o p1 p2) := by
  refine ⟨?_, hs.2.1, by simp [Suite.splice]⟩
  intro x hx
  simp only [Suite.splice, List.mem_append] at hx
  rcases hx with h | h
  · exact hs.1 x h
  · exact ho x (List.mem_of_mem_drop h)

theorem range_map_objAt (l : List Tc) : (List.range l.length).map (objAt l) = l := by
  apply List.ext_getElem
  · simp
  · intro j h1 h2
    simp only [List.getElem_map, List.getElem_range]
    exact objAt_of_getElem? (List.getElem?_eq_getElem h2)

/-- `clone()` copies position by position: same statements, same flags, same caches — no shared objects -/
theorem suClone_ok {S : Sems} (s : Suite) (hs : SuiteOK S s) : SuiteOK S s.clone := by
  refine ⟨members_ok s hs.1, hs.2.1, ?_⟩
  intro hch
  have : s.clone.members = s.members := by
    have hl : s.order.length = s.members.length := by simp [Suite.members]
    simp only [Suite.clone, Suite.members] at hl ⊢
    rw [hl]; exact range_map_objAt _
  rw [this]; exact hs.2.2 hch

theorem suEdit_ok {S : Sems} {g : Cache → Cache} (hg : CacheEdit g) (s : Suite) (hs : SuiteOK S s) :
    SuiteOK S { s with cache := g s.cache } :=
  ⟨hs.1, hg.1 _ hs.2.1, fun h => hg.2 _ S.su _ _ (hs.2.2 h)⟩

/-! ## worlds -/

def WOK (S : Sems) (w : World) : Prop := (∀ t ∈ w.tcs, TcOK S.tc t) ∧ (∀ s ∈ w.suites, SuiteOK S s)

theorem forall_put {P : α → Prop} {l l' : List α} (h : ∀ a ∈ l, P a) (i : Nat) (b : α) (hb : P b)
    (hp : put l i b = some l') : ∀ a ∈ l', P a := by
  by_cases h1 : i < l.length
  · simp only [put, h1, if_true, Option.some.injEq] at hp; exact hp ▸ forall_set h i b hb
  · by_cases h2 : i = l.length
    · subst h2
      simp [put] at hp
      subst hp
      intro a ha
      rcases List.mem_append.1 ha with e | e
      · exact h a e
      · simp at e; exact e ▸ hb
    · simp [put, h1, h2] at hp

theorem onTc_ok {S : Sems} (w : World) (i : Nat) (f : Tc → Tc × Out) (hw : WOK S w)
    (hf : ∀ t, w.tcs[i]? = some t → TcOK S.tc (f t).1) : WOK S (onTc w i f).1 := by
  simp only [onTc]
  cases h : w.tcs[i]? with
  | none => exact hw
  | some t => exact ⟨forall_set hw.1 i _ (hf t h), hw.2⟩

theorem onSuite_ok {S : Sems} (w : World) (i : Nat) (f : Suite → Suite × Out) (hw : WOK S w)
    (hf : ∀ s, w.suites[i]? = some s → SuiteOK S (f s).1) : WOK S (onSuite w i f).1 := by
  simp only [onSuite]
  cases h : w.suites[i]? with
  | none => exact hw
  | some s => exact ⟨hw.1, forall_set hw.2 i _ (hf s h)⟩

theorem onMem_ok {S : Sems} (w : World) (i k : Nat) (f : Tc → Tc × Out) (hw : WOK S w)
    (hf : ∀ s j t, w.suites[i]? = some s → s.order[k]? = some j → s.objs[j]? = some t →
      TcOK S.tc (f t).1 ∧ (f t).1.content = t.content) :
    WOK S (onMem w i k f).1 := by
  simp only [onMem]
  apply onSuite_ok w i _ hw
  intro s hs
  have hsok := hw.2 s (mem_of_getElem? hs)
  cases hj : s.order[k]? with
  | none => exact hsok
  | some j =>
    dsimp only
    cases ht : s.objs[j]? with
    | none => exact hsok
    | some t =>
      obtain ⟨h1, h2⟩ := hf s j t hs hj ht
      exact suite_setMember s j t (f t).1 hsok ht h1 h2

theorem onCache_ok {S : Sems} (w : World) (r : Ref) {g : Cache → Cache} (hg : CacheEdit g) (hw : WOK S w) :
    WOK S (onCache w r g).1 := by
  cases r with
  | tc i => exact onTc_ok w i _ hw fun t ht => tcEdit_ok hg t (hw.1 t (mem_of_getElem? ht))
  | su s => exact onSuite_ok w s _ hw fun x hx => suEdit_ok hg x (hw.2 x (mem_of_getElem? hx))
  | mem s k =>
    exact onMem_ok w s k _ hw fun x _ t hx _ ht =>
      ⟨tcEdit_ok hg t ((hw.2 x (mem_of_getElem? hx)).1 t (mem_of_getElem? ht)), rfl⟩

/-- the versions covered by the theorems: both proposed repairs applied -/
def Ver.Repaired (V : Ver) : Prop := V.keepFlag = true ∧ V.useInsert = true

def Sems.Consistent (S : Sems) : Prop := S.tc.Consistent ∧ S.su.Consistent

/-- one step preserves the world invariant (for admissible steps) -/
theorem step_ok {S : Sems} (hS : S.Consistent) {V : Ver} (hV : V.Repaired) (strict : Bool)
    (hst : V.flagFilter = true ∨ strict = true) (w : World) (op : Op) (hw : WOK S w)
    (ha : admissible V strict w op = true) : WOK S (step S V w op).1 := by
  cases op with
  | newTc c fs =>
    refine ⟨?_, hw.2⟩
    intro t ht
    simp only [step, List.mem_append, List.mem_singleton] at ht
    rcases ht with h | h
    · exact hw.1 t h
    · exact h ▸ tcNew_ok c fs
  | cloneTc src dst =>
    cases h : w.tcs[src]? with
    | none => simp only [step, h]; exact hw
    | some t =>
      cases hp : put w.tcs dst t with
      | none => simp only [step, h, hp]; exact hw
      | some l =>
        simp only [step, h, hp]
        exact ⟨forall_put hw.1 dst t (hw.1 t (mem_of_getElem? h)) hp, hw.2⟩
  | mutateTc i e =>
    simp only [step]
    apply onTc_ok w i _ hw
    intro t ht
    simp only [admissible, ht] at ha
    exact tcMutate_ok hV.2 t e ha (hw.1 t (mem_of_getElem? ht))
  | xoverTc i j ei ej =>
    simp only [step]
    cases hi : w.tcs[i]? with
    | none => exact hw
    | some ti =>
      cases hj : w.tcs[j]? with
      | none => exact hw
      | some tj =>
        by_cases hij : i = j
        · simp [hij]; exact hw
        · simp only [hij, if_false]
          exact ⟨forall_set (forall_set hw.1 i _ (tcSplice_ok ti ei (hw.1 ti (mem_of_getElem? hi)))) j _
            (tcSplice_ok tj ej (hw.1 tj (mem_of_getElem? hj))), hw.2⟩
  | newSuite =>
    refine ⟨hw.1, ?_⟩
    intro s hs
    simp only [step, List.mem_append, List.mem_singleton] at hs
    rcases hs with h | h
    · exact hw.2 s h
    · subst h
      exact ⟨by intro t ht; simp at ht, regInv_empty [], by simp⟩
  | cloneSuite src dst =>
    cases h : w.suites[src]? with
    | none => simp only [step, h]; exact hw
    | some s =>
      cases hp : put w.suites dst s.clone with
      | none => simp only [step, h, hp]; exact hw
      | some l =>
        simp only [step, h, hp]
        exact ⟨hw.1, forall_put hw.2 dst s.clone (suClone_ok s (hw.2 s (mem_of_getElem? h))) hp⟩
  | addTest s i =>
    simp only [step]
    cases h : w.tcs[i]? with
    | none => exact hw
    | some t =>
      exact onSuite_ok w s _ hw fun x hx => suAddTest_ok x t (hw.2 x (mem_of_getElem? hx)) (hw.1 t (mem_of_getElem? h))
  | delTest s k =>
    simp only [step]
    exact onSuite_ok w s _ hw fun x hx => suDelTest_ok x k (hw.2 x (mem_of_getElem? hx))
  | setTest s k i =>
    simp only [step]
    cases h : w.tcs[i]? with
    | none => exact hw
    | some t =>
      apply onSuite_ok w s _ hw
      intro x hx
      by_cases hk : k < x.order.length
      · simp only [hk, if_true]
        exact suSetTest_ok x k t (hw.2 x (mem_of_getElem? hx)) (hw.1 t (mem_of_getElem? h))
      · simp only [hk, if_false]; exact hw.2 x (mem_of_getElem? hx)
  | addAlias s k =>
    simp only [step]
    apply onSuite_ok w s _ hw
    intro x hx
    by_cases hk : k < x.order.length
    · simp only [hk, if_true]; exact suAddAlias_ok x k (hw.2 x (mem_of_getElem? hx))
    · simp only [hk, if_false]; exact hw.2 x (mem_of_getElem? hx)
  | setAlias s k j =>
    simp only [step]
    apply onSuite_ok w s _ hw
    intro x hx
    by_cases hk : (k < x.order.length && j < x.order.length) = true
    · simp only [hk, if_true]; exact suSetAlias_ok x k j (hw.2 x (mem_of_getElem? hx))
    · simp only [hk]; exact hw.2 x (mem_of_getElem? hx)
  | mutateSuite s e =>
    simp only [step]
    apply onSuite_ok w s _ hw
    intro x hx
    simp only [admissible, hx, Bool.and_eq_true, Bool.or_eq_true, Bool.not_eq_true'] at ha
    have hfl : V.flagFilter = true ∨ x.filterOk V e = true := by
      rcases hst with h | h
      · exact Or.inl h
      · rcases ha.2 with (h' | h') | h'
        · simp [h] at h'
        · exact Or.inl h'
        · exact Or.inr h'
    exact suMutate_ok hV.2 x e ha.1 hfl (hw.2 x (mem_of_getElem? hx))
  | xoverSuite s t p1 p2 =>
    simp only [step]
    cases hs : w.suites[s]? with
    | none => exact hw
    | some a =>
      cases ht : w.suites[t]? with
      | none => exact hw
      | some b =>
        have ha' := hw.2 a (mem_of_getElem? hs)
        have hb' := hw.2 b (mem_of_getElem? ht)
        by_cases hst' : s = t
        · simp [hst']; exact hw
        · by_cases hsm : (a.order.length < 2 || b.order.length < 2) = true
          · simp only [hst', if_false, hsm, if_true]; exact hw
          · simp only [hst', if_false, hsm]
            exact ⟨hw.1, forall_set (forall_set hw.2 s _ (suSplice_ok a b.members p1 p2 ha' (members_ok b hb'.1))) t _
              (suSplice_ok b a.members p2 p1 hb' (members_ok a ha'.1))⟩
  | crossTc i j e =>
    simp only [step]
    cases hi : w.tcs[i]? with
    | none => exact hw
    | some ti =>
      cases hj : w.tcs[j]? with
      | none => exact hw
      | some tj => exact ⟨forall_set hw.1 i _ (tcSplice_ok ti e (hw.1 ti (mem_of_getElem? hi))), hw.2⟩
  | crossSuite s t p1 p2 =>
    simp only [step]
    cases hs : w.suites[s]? with
    | none => exact hw
    | some a =>
      cases ht : w.suites[t]? with
      | none => exact hw
      | some b =>
        exact ⟨hw.1, forall_set hw.2 s _
          (suSplice_ok a b.members p1 p2 (hw.2 a (mem_of_getElem? hs)) (members_ok b (hw.2 b (mem_of_getElem? ht)).1))⟩
  | addFit r f => exact onCache_ok w r (cacheEdit_addFit f) hw
  | addCov r f => exact onCache_ok w r (cacheEdit_addCov f) hw
  | invalidate r => exact onCache_ok w r cacheEdit_invalidate hw
  | query r q =>
    cases r with
    | tc i =>
      simp only [step]
      apply onTc_ok w i _ hw
      intro t ht
      simp only [admissible, refCache, ht, Option.map_some] at ha
      exact (tcQuery_spec hS.1 hV.1 q t (hw.1 t (mem_of_getElem? ht)) ((registered_iff _ _).1 ha)).1
    | su s =>
      simp only [step]
      apply onSuite_ok w s _ hw
      intro x hx
      simp only [admissible, refCache, hx, Option.map_some] at ha
      exact (suQuery_spec hS.2 hV.1 q x (hw.2 x (mem_of_getElem? hx)) ((registered_iff _ _).1 ha)).1
    | mem s k =>
      simp only [step]
      apply onMem_ok w s k _ hw
      intro x j t hx hj ht
      simp only [admissible, refCache, hx, Option.bind_some, hj, ht, Option.map_some] at ha
      have := tcQuery_spec hS.1 hV.1 q t ((hw.2 x (mem_of_getElem? hx)).1 t (mem_of_getElem? ht))
        ((registered_iff _ _).1 ha)
      exact ⟨this.1, this.2.1⟩

/-- the output of an admissible step is the from-scratch value -/
theorem step_out {S : Sems} (hS : S.Consistent) {V : Ver} (hV : V.Repaired) (strict : Bool) (w : World) (op : Op)
    (hw : WOK S w) (ha : admissible V strict w op = true) : outOk S w op (step S V w op).2 := by
  cases op with
  | query r q =>
    simp only [outOk]
    intro e he
    cases r with
    | tc i =>
      simp only [scratch] at he
      cases ht : w.tcs[i]? with
      | none => simp [ht] at he
      | some t =>
        simp only [ht, Option.map_some, Option.some.injEq] at he
        simp only [admissible, refCache, ht, Option.map_some] at ha
        have := (tcQuery_spec hS.1 hV.1 q t (hw.1 t (mem_of_getElem? ht)) ((registered_iff _ _).1 ha)).2.2.2.2
        simp only [step, onTc, ht]
        rw [this, he]
    | su s =>
      simp only [scratch] at he
      cases hx : w.suites[s]? with
      | none => simp [hx] at he
      | some x =>
        simp only [hx, Option.map_some, Option.some.injEq] at he
        simp only [admissible, refCache, hx, Option.map_some] at ha
        have := (suQuery_spec hS.2 hV.1 q x (hw.2 x (mem_of_getElem? hx)) ((registered_iff _ _).1 ha)).2
        simp only [step, onSuite, hx]
        rw [this]; exact he
    | mem s k =>
      simp only [scratch] at he
      cases hx : w.suites[s]? with
      | none => simp [hx] at he
      | some x =>
        cases hj : x.order[k]? with
        | none => simp [hx, hj] at he
        | some j =>
          cases ht : x.objs[j]? with
          | none => simp [hx, hj, ht] at he
          | some t =>
            simp only [hx, Option.bind_some, hj, ht, Option.map_some, Option.some.injEq] at he
            simp only [admissible, refCache, hx, Option.bind_some, hj, ht, Option.map_some] at ha
            have := (tcQuery_spec hS.1 hV.1 q t ((hw.2 x (mem_of_getElem? hx)).1 t (mem_of_getElem? ht))
              ((registered_iff _ _).1 ha)).2.2.2.2
            simp only [step, onMem, onSuite, hx, hj, ht]
            rw [this, he]
  | _ => simp [outOk]

theorem wok_empty (S : Sems) : WOK S {} := ⟨by intro t ht; simp at ht, by intro s hs; simp at hs⟩

end PynguinModel.Cache
