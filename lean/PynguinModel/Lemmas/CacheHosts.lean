import PynguinModel.Lemmas.Cache
/-!
# C12 — the two hosts (test case, suite), the operators, and the world step
-/
namespace PynguinModel.Cache

/-! ## test-case chromosomes -/

/-- an unchanged test case's stored result is the result of its current statements -/
def TcGood (t : Tc) : Prop := t.changed = false → ∀ r, t.result = some r → r = t.content

/-- full invariant of a test-case chromosome -/
def TcOK (S : Sem Content) (t : Tc) : Prop :=
  TcGood t ∧ RegInv t.cache ∧ (t.changed = false → CacheFresh S t.cache t.content)

theorem tcLaws : Laws tcHost (fun t : Tc => t.content) TcGood where
  run_good := by
    intro t hg
    obtain ⟨c, ch, r, ca⟩ := t
    cases ch <;> cases r <;> simp_all [tcHost, Tc.run, TcGood]
  run_val := by
    intro t hg
    obtain ⟨c, ch, r, ca⟩ := t
    cases ch <;> cases r <;> simp_all [tcHost, Tc.run, TcGood]
  run_truth := by
    intro t
    obtain ⟨c, ch, r, ca⟩ := t
    cases ch <;> cases r <;> simp [tcHost, Tc.run]
  run_clear := by
    intro t hg
    obtain ⟨c, ch, r, ca⟩ := t
    cases ch <;> cases r <;> simp_all [tcHost, Tc.run, TcGood]
  clear_truth := by intro t; rfl

theorem tcQuery_spec {S : Sem Content} (hS : S.Consistent) {V : Ver} (hV : V.keepFlag = true) (q : Query) (t : Tc)
    (ht : TcOK S t) (hq : Registered t.cache q) :
    TcOK S (Tc.query S V q t).1 ∧ (Tc.query S V q t).1.content = t.content ∧
    (Tc.query S V q t).1.cache.funcs = t.cache.funcs ∧ (Tc.query S V q t).1.cache.covFuncs = t.cache.covFuncs ∧
    (Tc.query S V q t).2 = expected S t.content t.cache.funcs t.cache.covFuncs q := by
  obtain ⟨hg, hr, hf⟩ := ht
  obtain ⟨a1, a2, a3, a4, a5, a6, a7⟩ := cacheQuery_spec tcLaws hS hV q t t.cache hg hr hf hq
  simp only [Tc.query]
  refine ⟨⟨?_, a4, ?_⟩, a2, a5, a6, a7⟩
  · intro h r hr'; exact a1 h r hr'
  · intro _; exact a2 ▸ a3

theorem final_unflagged {V : Ver} (hV : V.useInsert = true) (e : MutEff) (c0 : Content) (hh : e.honest c0 = true)
    (hf : (e.final V c0).2 = false) : (e.final V c0).1 = c0 := by
  obtain ⟨chop, del, chg, ins, hasCall, ins2⟩ := e
  cases chop <;> cases del <;> cases chg <;> cases ins <;> cases hasCall <;>
    simp_all [MutEff.final, MutEff.honest, MutEff.start, applySub, subHonest, curOf]

theorem tcMutate_content {V : Ver} (hV : V.useInsert = true) (t : Tc) (e : MutEff) (hh : e.honest t.content = true)
    (hc : (t.mutate V e).changed = false) : (t.mutate V e).content = t.content ∧ t.changed = false := by
  simp only [Tc.mutate] at hc ⊢
  by_cases h2 : (e.final V t.content).2 = true
  · simp [h2] at hc
  · have h2' : (e.final V t.content).2 = false := by simpa using h2
    simp [h2'] at hc
    exact ⟨final_unflagged hV e t.content hh h2', hc⟩

theorem tcMutate_ok {S : Sem Content} {V : Ver} (hV : V.useInsert = true) (t : Tc) (e : MutEff)
    (hh : e.honest t.content = true) (ht : TcOK S t) : TcOK S (t.mutate V e) := by
  obtain ⟨hg, hr, hf⟩ := ht
  refine ⟨?_, hr, ?_⟩
  · intro hc
    obtain ⟨e1, e2⟩ := tcMutate_content hV t e hh hc
    intro r hres
    rw [e1]; exact hg e2 r hres
  · intro hc
    obtain ⟨e1, e2⟩ := tcMutate_content hV t e hh hc
    rw [e1]; exact hf e2

theorem tcSplice_ok {S : Sem Content} (t : Tc) (o : Option Content) (ht : TcOK S t) : TcOK S (t.splice o) := by
  cases o with
  | none => exact ht
  | some c => exact ⟨by simp [TcGood, Tc.splice], ht.2.1, by simp [Tc.splice]⟩

theorem tcNew_ok {S : Sem Content} (c : Content) (fs : List Func) : TcOK S (Tc.new c fs) :=
  ⟨by simp [TcGood, Tc.new], regInv_empty fs, by simp [Tc.new]⟩

theorem regInv_addFit {c : Cache} (h : RegInv c) (f : Func) : RegInv (c.addFit f) := by
  obtain ⟨n1, n2, n3, s1, s2, s3⟩ := h
  exact ⟨n1, n2, n3, fun g hg => by simp [Cache.addFit, s1 g hg], fun g hg => by simp [Cache.addFit, s2 g hg], s3⟩

theorem regInv_addCov {c : Cache} (h : RegInv c) (f : Func) : RegInv (c.addCov f) := by
  obtain ⟨n1, n2, n3, s1, s2, s3⟩ := h
  exact ⟨n1, n2, n3, s1, s2, fun g hg => by simp [Cache.addCov, s3 g hg]⟩

/-- cache edits that keep the invariants (add a function, invalidate) -/
def CacheEdit (g : Cache → Cache) : Prop :=
  (∀ c, RegInv c → RegInv (g c)) ∧ (∀ (R : Type) (S : Sem R) c r, CacheFresh S c r → CacheFresh S (g c) r)

theorem cacheEdit_addFit (f : Func) : CacheEdit (·.addFit f) :=
  ⟨fun _ h => regInv_addFit h f, fun _ _ _ _ h => h⟩

theorem cacheEdit_addCov (f : Func) : CacheEdit (·.addCov f) :=
  ⟨fun _ h => regInv_addCov h f, fun _ _ _ _ h => h⟩

theorem cacheEdit_invalidate : CacheEdit (·.invalidate) :=
  ⟨fun c _ => regInv_invalidate c, fun _ S c r _ => cacheFresh_invalidate S c r⟩

theorem tcEdit_ok {S : Sem Content} {g : Cache → Cache} (hg : CacheEdit g) (t : Tc) (ht : TcOK S t) :
    TcOK S { t with cache := g t.cache } :=
  ⟨ht.1, hg.1 _ ht.2.1, fun h => hg.2 _ S _ _ (ht.2.2 h)⟩

/-! ## suites -/

def SuGood (S : Sem Content) (s : Suite) : Prop := ∀ t ∈ s.tests, TcOK S t

def contents (ts : List Tc) : List Content := ts.map (·.content)

def SuiteOK (S : Sems) (s : Suite) : Prop :=
  SuGood S.tc s ∧ RegInv s.cache ∧ (s.changed = false → CacheFresh S.su s.cache (contents s.tests))

theorem runMember_spec {S : Sem Content} (t : Tc) (ht : TcOK S t) :
    TcOK S (runMember t).1 ∧ (runMember t).1.content = t.content ∧ (runMember t).2 = t.content := by
  obtain ⟨hg, hr, hf⟩ := ht
  obtain ⟨c, ch, r, ca⟩ := t
  cases ch <;> cases r <;>
    simp_all [runMember, TcOK, TcGood, regInv_invalidate, cacheFresh_invalidate]

theorem suLaws (S : Sem Content) : Laws suiteHost (fun s : Suite => contents s.tests) (SuGood S) where
  run_good := by
    intro s hg t' ht'
    simp only [suiteHost, Suite.run, List.mem_map] at ht'
    obtain ⟨t, ht, e⟩ := ht'
    exact e ▸ (runMember_spec t (hg t ht)).1
  run_val := by
    intro s hg
    simp only [suiteHost, Suite.run, contents]
    exact List.map_congr_left fun t ht => (runMember_spec t (hg t ht)).2.2
  run_truth := by
    intro s
    simp only [suiteHost, Suite.run, contents, List.map_map]
    apply List.map_congr_left
    intro t _
    obtain ⟨c, ch, r, ca⟩ := t
    cases ch <;> cases r <;> simp [runMember]
  run_clear := by
    intro s hg t' ht'
    simp only [suiteHost, Suite.run, List.mem_map] at ht'
    obtain ⟨t, ht, e⟩ := ht'
    exact e ▸ (runMember_spec t (hg t ht)).1
  clear_truth := by intro s; rfl

theorem suQuery_spec {S : Sems} (hS : S.su.Consistent) {V : Ver} (hV : V.keepFlag = true) (q : Query) (s : Suite)
    (hs : SuiteOK S s) (hq : Registered s.cache q) :
    SuiteOK S (Suite.query S.su V q s).1 ∧
    (Suite.query S.su V q s).2 = expected S.su (contents s.tests) s.cache.funcs s.cache.covFuncs q := by
  obtain ⟨hg, hr, hf⟩ := hs
  obtain ⟨a1, a2, a3, a4, _, _, a7⟩ := cacheQuery_spec (suLaws S.tc) hS hV q s s.cache hg hr hf hq
  simp only [Suite.query]
  exact ⟨⟨a1, a4, fun _ => a2 ▸ a3⟩, a7⟩

/-- editing one member without touching its content keeps the suite's invariant -/
theorem suite_setMember {S : Sems} (s : Suite) (k : Nat) (t t' : Tc) (hs : SuiteOK S s) (hk : s.tests[k]? = some t)
    (ht' : TcOK S.tc t') (hc : t'.content = t.content) : SuiteOK S { s with tests := s.tests.set k t' } := by
  obtain ⟨hg, hr, hf⟩ := hs
  refine ⟨?_, hr, ?_⟩
  · intro x hx
    rcases List.mem_or_eq_of_mem_set hx with h | h
    · exact hg x h
    · exact h ▸ ht'
  · intro hch
    have : contents (s.tests.set k t') = contents s.tests := by
      simp only [contents, List.map_set]
      apply List.ext_getElem?
      intro i
      rw [List.getElem?_set]
      by_cases hik : k = i
      · subst hik
        obtain ⟨hlt, hget⟩ := List.getElem?_eq_some_iff.1 hk
        simp [hlt, hc, hget]
      · simp [hik]
    simp only [this]; exact hf hch

theorem mutMembers_spec {S : Sem Content} {V : Ver} (hV : V.useInsert = true) :
    ∀ (ts : List Tc) (es : List (Option MutEff)), perHonest ts es = true → (∀ t ∈ ts, TcOK S t) →
      (∀ t ∈ (mutMembers V ts es).1, TcOK S t) ∧
      ((mutMembers V ts es).2 = false → contents (mutMembers V ts es).1 = contents ts)
  | [], es, _, h => by cases es <;> simp [mutMembers]
  | t :: ts, [], _, h => ⟨by simpa [mutMembers] using h, fun _ => by simp [mutMembers]⟩
  | t :: ts, none :: es, hh, h => by
    have ih := mutMembers_spec hV ts es (by simpa [perHonest] using hh) (fun x hx => h x (List.mem_cons_of_mem _ hx))
    simp only [mutMembers]
    refine ⟨?_, ?_⟩
    · intro x hx
      rcases List.mem_cons.1 hx with e | e
      · exact e ▸ h t (by simp)
      · exact ih.1 x e
    · intro hb
      simp only [contents, List.map_cons]
      have := ih.2 hb
      simp only [contents] at this
      rw [this]
  | t :: ts, some e :: es, hh, h => by
    simp only [perHonest, Bool.and_eq_true] at hh
    have ih := mutMembers_spec hV ts es hh.2 (fun x hx => h x (List.mem_cons_of_mem _ hx))
    simp only [mutMembers]
    refine ⟨?_, ?_⟩
    · intro x hx
      rcases List.mem_cons.1 hx with e' | e'
      · exact e' ▸ tcMutate_ok hV t e hh.1 (h t (by simp))
      · exact ih.1 x e'
    · intro hb
      simp only [Bool.or_eq_false_iff] at hb
      simp only [contents, List.map_cons]
      have := ih.2 hb.2
      simp only [contents] at this
      rw [this, (tcMutate_content hV t e hh.1 hb.1).1]

theorem filter_eq_of_length {p : Tc → Bool} {l : List Tc} (h : (l.filter p).length = l.length) : l.filter p = l := by
  induction l with
  | nil => rfl
  | cons a l ih =>
    by_cases ha : p a = true
    · simp only [List.filter_cons, ha, if_true, List.length_cons] at h ⊢
      rw [ih (by omega)]
    · have := List.length_filter_le p l
      simp only [List.filter_cons, ha, Bool.false_eq_true, if_false, List.length_cons] at h
      omega

theorem suMutate_ok {S : Sems} {V : Ver} (hV : V.useInsert = true) (s : Suite) (e : SuiteMutEff)
    (hh : perHonest s.tests e.per = true) (hfl : V.flagFilter = true ∨ s.filterOk V e = true) (hs : SuiteOK S s) :
    SuiteOK S (s.mutate V e) := by
  obtain ⟨hg, hr, hf⟩ := hs
  have sp := mutMembers_spec (S := S.tc) hV s.tests e.per hh hg
  refine ⟨?_, hr, ?_⟩
  · intro x hx
    simp only [Suite.mutate, List.mem_filter, List.mem_append, List.mem_map] at hx
    rcases hx.1 with h | ⟨p, _, hp⟩
    · exact sp.1 x h
    · exact hp ▸ tcNew_ok p.1 p.2
  · intro hch
    simp only [Suite.mutate] at hch ⊢
    -- the flag stayed False: nothing was flagged, nothing added, nothing dropped
    by_cases hb : (mutMembers V s.tests e.per).2 = true
    · cases hV3 : V.flagFilter <;> simp [hb, hV3] at hch
    · have hb' : (mutMembers V s.tests e.per).2 = false := by simpa using hb
      by_cases hadd : e.added = []
      · simp only [hadd, List.map_nil, List.append_nil, List.isEmpty_nil, Bool.not_true, Bool.or_false, hb'] at hch ⊢
        have hkeep : (mutMembers V s.tests e.per).1.filter (fun t => t.content != 0) = (mutMembers V s.tests e.per).1 := by
          rcases hfl with h3 | h3
          · simp only [h3, if_true, Bool.false_or] at hch
            by_cases hl : ((mutMembers V s.tests e.per).1.filter (fun t => t.content != 0)).length
                = (mutMembers V s.tests e.per).1.length
            · exact filter_eq_of_length hl
            · simp [hl] at hch
          · simp only [Suite.filterOk, hb', hadd, List.isEmpty_nil, Bool.not_true, Bool.or_false, Bool.false_or,
              List.map_nil, List.append_nil, List.all_eq_true] at h3
            exact List.filter_eq_self.2 h3
        have hsch : s.changed = false := by
          cases hV3 : V.flagFilter <;> simp [hV3, hkeep] at hch <;> exact hch
        rw [hkeep, sp.2 hb']
        exact hf hsch
      · have : e.added.isEmpty = false := by
          cases hx : e.added with
          | nil => exact absurd hx hadd
          | cons _ _ => rfl
        cases hV3 : V.flagFilter <;> simp [this, hV3] at hch

theorem suAddTest_ok {S : Sems} (s : Suite) (t : Tc) (hs : SuiteOK S s) (ht : TcOK S.tc t) : SuiteOK S (s.addTest t) := by
  refine ⟨?_, hs.2.1, by simp [Suite.addTest]⟩
  intro x hx
  simp only [Suite.addTest, List.mem_append, List.mem_singleton] at hx
  rcases hx with h | h
  · exact hs.1 x h
  · exact h ▸ ht

theorem suDelTest_ok {S : Sems} (s : Suite) (k : Nat) (hs : SuiteOK S s) : SuiteOK S (s.delTest k) := by
  by_cases hk : k < s.tests.length
  · simp only [Suite.delTest, hk, if_true]
    exact ⟨fun x hx => hs.1 x (List.mem_of_mem_eraseIdx hx), hs.2.1, by simp⟩
  · simp only [Suite.delTest, hk, if_false]; exact hs

theorem suSetTest_ok {S : Sems} (s : Suite) (k : Nat) (t : Tc) (hs : SuiteOK S s) (ht : TcOK S.tc t) :
    SuiteOK S (s.setTest k t) := by
  refine ⟨?_, hs.2.1, by simp [Suite.setTest]⟩
  intro x hx
  rcases List.mem_or_eq_of_mem_set hx with h | h
  · exact hs.1 x h
  · exact h ▸ ht

theorem suSplice_ok {S : Sems} (s : Suite) (o : List Tc) (p1 p2 : Nat) (hs : SuiteOK S s) (ho : ∀ t ∈ o, TcOK S.tc t) :
    SuiteOK S (s.splice o p1 p2) := by
  refine ⟨?_, hs.2.1, by simp [Suite.splice]⟩
  intro x hx
  simp only [Suite.splice, List.mem_append] at hx
  rcases hx with h | h
  · exact hs.1 x (List.mem_of_mem_take h)
  · exact ho x (List.mem_of_mem_drop h)

theorem suEdit_ok {S : Sems} {g : Cache → Cache} (hg : CacheEdit g) (s : Suite) (hs : SuiteOK S s) :
    SuiteOK S { s with cache := g s.cache } :=
  ⟨hs.1, hg.1 _ hs.2.1, fun h => hg.2 _ S.su _ _ (hs.2.2 h)⟩

/-! ## worlds -/

def WOK (S : Sems) (w : World) : Prop := (∀ t ∈ w.tcs, TcOK S.tc t) ∧ (∀ s ∈ w.suites, SuiteOK S s)

theorem mem_of_getElem? {l : List α} {i : Nat} {a : α} (h : l[i]? = some a) : a ∈ l :=
  List.mem_iff_getElem?.2 ⟨i, h⟩

theorem forall_set {P : α → Prop} {l : List α} (h : ∀ a ∈ l, P a) (i : Nat) (b : α) (hb : P b) :
    ∀ a ∈ l.set i b, P a := by
  intro a ha
  rcases List.mem_or_eq_of_mem_set ha with e | e
  · exact h a e
  · exact e ▸ hb

theorem forall_put {P : α → Prop} {l l' : List α} (h : ∀ a ∈ l, P a) (i : Nat) (b : α) (hb : P b)
    (hp : put l i b = some l') : ∀ a ∈ l', P a := by
  by_cases h1 : i < l.length
  · simp only [put, h1, if_true, Option.some.injEq] at hp; exact hp ▸ forall_set h i b hb
  · by_cases h2 : i = l.length
    · subst h2
      simp [put] at hp
      subst hp
      intro a ha
      rcases List.mem_append.1 ha with e | e
      · exact h a e
      · simp at e; exact e ▸ hb
    · simp [put, h1, h2] at hp

theorem onTc_ok {S : Sems} (w : World) (i : Nat) (f : Tc → Tc × Out) (hw : WOK S w)
    (hf : ∀ t, w.tcs[i]? = some t → TcOK S.tc (f t).1) : WOK S (onTc w i f).1 := by
  simp only [onTc]
  cases h : w.tcs[i]? with
  | none => exact hw
  | some t => exact ⟨forall_set hw.1 i _ (hf t h), hw.2⟩

theorem onSuite_ok {S : Sems} (w : World) (i : Nat) (f : Suite → Suite × Out) (hw : WOK S w)
    (hf : ∀ s, w.suites[i]? = some s → SuiteOK S (f s).1) : WOK S (onSuite w i f).1 := by
  simp only [onSuite]
  cases h : w.suites[i]? with
  | none => exact hw
  | some s => exact ⟨hw.1, forall_set hw.2 i _ (hf s h)⟩

theorem onMem_ok {S : Sems} (w : World) (i k : Nat) (f : Tc → Tc × Out) (hw : WOK S w)
    (hf : ∀ s t, w.suites[i]? = some s → s.tests[k]? = some t → TcOK S.tc (f t).1 ∧ (f t).1.content = t.content) :
    WOK S (onMem w i k f).1 := by
  simp only [onMem]
  apply onSuite_ok w i _ hw
  intro s hs
  have hsok := hw.2 s (mem_of_getElem? hs)
  cases ht : s.tests[k]? with
  | none => exact hsok
  | some t =>
    obtain ⟨h1, h2⟩ := hf s t hs ht
    exact suite_setMember s k t (f t).1 hsok ht h1 h2

theorem onCache_ok {S : Sems} (w : World) (r : Ref) {g : Cache → Cache} (hg : CacheEdit g) (hw : WOK S w) :
    WOK S (onCache w r g).1 := by
  cases r with
  | tc i => exact onTc_ok w i _ hw fun t ht => tcEdit_ok hg t (hw.1 t (mem_of_getElem? ht))
  | su s => exact onSuite_ok w s _ hw fun x hx => suEdit_ok hg x (hw.2 x (mem_of_getElem? hx))
  | mem s k =>
    exact onMem_ok w s k _ hw fun x t hx ht =>
      ⟨tcEdit_ok hg t ((hw.2 x (mem_of_getElem? hx)).1 t (mem_of_getElem? ht)), rfl⟩

/-- the versions covered by the theorems: both proposed repairs applied -/
def Ver.Repaired (V : Ver) : Prop := V.keepFlag = true ∧ V.useInsert = true

def Sems.Consistent (S : Sems) : Prop := S.tc.Consistent ∧ S.su.Consistent

/-- one step preserves the world invariant (for admissible steps) -/
theorem step_ok {S : Sems} (hS : S.Consistent) {V : Ver} (hV : V.Repaired) (strict : Bool)
    (hst : V.flagFilter = true ∨ strict = true) (w : World) (op : Op) (hw : WOK S w)
    (ha : admissible V strict w op = true) : WOK S (step S V w op).1 := by
  cases op with
  | newTc c fs =>
    refine ⟨?_, hw.2⟩
    intro t ht
    simp only [step, List.mem_append, List.mem_singleton] at ht
    rcases ht with h | h
    · exact hw.1 t h
    · exact h ▸ tcNew_ok c fs
  | cloneTc src dst =>
    cases h : w.tcs[src]? with
    | none => simp only [step, h]; exact hw
    | some t =>
      cases hp : put w.tcs dst t with
      | none => simp only [step, h, hp]; exact hw
      | some l =>
        simp only [step, h, hp]
        exact ⟨forall_put hw.1 dst t (hw.1 t (mem_of_getElem? h)) hp, hw.2⟩
  | mutateTc i e =>
    simp only [step]
    apply onTc_ok w i _ hw
    intro t ht
    simp only [admissible, ht] at ha
    exact tcMutate_ok hV.2 t e ha (hw.1 t (mem_of_getElem? ht))
  | xoverTc i j ei ej =>
    simp only [step]
    cases hi : w.tcs[i]? with
    | none => exact hw
    | some ti =>
      cases hj : w.tcs[j]? with
      | none => exact hw
      | some tj =>
        by_cases hij : i = j
        · simp [hij]; exact hw
        · simp only [hij, if_false]
          exact ⟨forall_set (forall_set hw.1 i _ (tcSplice_ok ti ei (hw.1 ti (mem_of_getElem? hi)))) j _
            (tcSplice_ok tj ej (hw.1 tj (mem_of_getElem? hj))), hw.2⟩
  | newSuite =>
    refine ⟨hw.1, ?_⟩
    intro s hs
    simp only [step, List.mem_append, List.mem_singleton] at hs
    rcases hs with h | h
    · exact hw.2 s h
    · subst h
      exact ⟨by intro t ht; simp at ht, regInv_empty [], by simp⟩
  | cloneSuite src dst =>
    cases h : w.suites[src]? with
    | none => simp only [step, h]; exact hw
    | some s =>
      cases hp : put w.suites dst s with
      | none => simp only [step, h, hp]; exact hw
      | some l =>
        simp only [step, h, hp]
        exact ⟨hw.1, forall_put hw.2 dst s (hw.2 s (mem_of_getElem? h)) hp⟩
  | addTest s i =>
    simp only [step]
    cases h : w.tcs[i]? with
    | none => exact hw
    | some t =>
      exact onSuite_ok w s _ hw fun x hx => suAddTest_ok x t (hw.2 x (mem_of_getElem? hx)) (hw.1 t (mem_of_getElem? h))
  | delTest s k =>
    simp only [step]
    exact onSuite_ok w s _ hw fun x hx => suDelTest_ok x k (hw.2 x (mem_of_getElem? hx))
  | setTest s k i =>
    simp only [step]
    cases h : w.tcs[i]? with
    | none => exact hw
    | some t =>
      apply onSuite_ok w s _ hw
      intro x hx
      by_cases hk : k < x.tests.length
      · simp only [hk, if_true]
        exact suSetTest_ok x k t (hw.2 x (mem_of_getElem? hx)) (hw.1 t (mem_of_getElem? h))
      · simp only [hk, if_false]; exact hw.2 x (mem_of_getElem? hx)
  | mutateSuite s e =>
    simp only [step]
    apply onSuite_ok w s _ hw
    intro x hx
    simp only [admissible, hx, Bool.and_eq_true, Bool.or_eq_true, Bool.not_eq_true'] at ha
    have hfl : V.flagFilter = true ∨ x.filterOk V e = true := by
      rcases hst with h | h
      · exact Or.inl h
      · rcases ha.2 with (h' | h') | h'
        · simp [h] at h'
        · exact Or.inl h'
        · exact Or.inr h'
    exact suMutate_ok hV.2 x e ha.1 hfl (hw.2 x (mem_of_getElem? hx))
  | xoverSuite s t p1 p2 =>
    simp only [step]
    cases hs : w.suites[s]? with
    | none => exact hw
    | some a =>
      cases ht : w.suites[t]? with
      | none => exact hw
      | some b =>
        have ha' := hw.2 a (mem_of_getElem? hs)
        have hb' := hw.2 b (mem_of_getElem? ht)
        by_cases hst' : s = t
        · simp [hst']; exact hw
        · by_cases hsm : (a.tests.length < 2 || b.tests.length < 2) = true
          · simp only [hst', if_false, hsm, if_true]; exact hw
          · simp only [hst', if_false, hsm]
            exact ⟨hw.1, forall_set (forall_set hw.2 s _ (suSplice_ok a b.tests p1 p2 ha' hb'.1)) t _
              (suSplice_ok b a.tests p2 p1 hb' ha'.1)⟩
  | crossTc i j e =>
    simp only [step]
    cases hi : w.tcs[i]? with
    | none => exact hw
    | some ti =>
      cases hj : w.tcs[j]? with
      | none => exact hw
      | some tj => exact ⟨forall_set hw.1 i _ (tcSplice_ok ti e (hw.1 ti (mem_of_getElem? hi))), hw.2⟩
  | crossSuite s t p1 p2 =>
    simp only [step]
    cases hs : w.suites[s]? with
    | none => exact hw
    | some a =>
      cases ht : w.suites[t]? with
      | none => exact hw
      | some b =>
        exact ⟨hw.1, forall_set hw.2 s _
          (suSplice_ok a b.tests p1 p2 (hw.2 a (mem_of_getElem? hs)) (hw.2 b (mem_of_getElem? ht)).1)⟩
  | addFit r f => exact onCache_ok w r (cacheEdit_addFit f) hw
  | addCov r f => exact onCache_ok w r (cacheEdit_addCov f) hw
  | invalidate r => exact onCache_ok w r cacheEdit_invalidate hw
  | query r q =>
    cases r with
    | tc i =>
      simp only [step]
      apply onTc_ok w i _ hw
      intro t ht
      simp only [admissible, refCache, ht, Option.map_some] at ha
      exact (tcQuery_spec hS.1 hV.1 q t (hw.1 t (mem_of_getElem? ht)) ((registered_iff _ _).1 ha)).1
    | su s =>
      simp only [step]
      apply onSuite_ok w s _ hw
      intro x hx
      simp only [admissible, refCache, hx, Option.map_some] at ha
      exact (suQuery_spec hS.2 hV.1 q x (hw.2 x (mem_of_getElem? hx)) ((registered_iff _ _).1 ha)).1
    | mem s k =>
      simp only [step]
      apply onMem_ok w s k _ hw
      intro x t hx ht
      simp only [admissible, refCache, hx, Option.bind_some, ht, Option.map_some] at ha
      have := tcQuery_spec hS.1 hV.1 q t ((hw.2 x (mem_of_getElem? hx)).1 t (mem_of_getElem? ht))
        ((registered_iff _ _).1 ha)
      exact ⟨this.1, this.2.1⟩

/-- the output of an admissible step is the from-scratch value -/
theorem step_out {S : Sems} (hS : S.Consistent) {V : Ver} (hV : V.Repaired) (strict : Bool) (w : World) (op : Op)
    (hw : WOK S w) (ha : admissible V strict w op = true) : outOk S w op (step S V w op).2 := by
  cases op with
  | query r q =>
    simp only [outOk]
    intro e he
    cases r with
    | tc i =>
      simp only [scratch] at he
      cases ht : w.tcs[i]? with
      | none => simp [ht] at he
      | some t =>
        simp only [ht, Option.map_some, Option.some.injEq] at he
        simp only [admissible, refCache, ht, Option.map_some] at ha
        have := (tcQuery_spec hS.1 hV.1 q t (hw.1 t (mem_of_getElem? ht)) ((registered_iff _ _).1 ha)).2.2.2.2
        simp only [step, onTc, ht]
        rw [this, he]
    | su s =>
      simp only [scratch] at he
      cases hx : w.suites[s]? with
      | none => simp [hx] at he
      | some x =>
        simp only [hx, Option.map_some, Option.some.injEq] at he
        simp only [admissible, refCache, hx, Option.map_some] at ha
        have := (suQuery_spec hS.2 hV.1 q x (hw.2 x (mem_of_getElem? hx)) ((registered_iff _ _).1 ha)).2
        simp only [step, onSuite, hx]
        rw [this]; exact he
    | mem s k =>
      simp only [scratch] at he
      cases hx : w.suites[s]? with
      | none => simp [hx] at he
      | some x =>
        cases ht : x.tests[k]? with
        | none => simp [hx, ht] at he
        | some t =>
          simp only [hx, Option.bind_some, ht, Option.map_some, Option.some.injEq] at he
          simp only [admissible, refCache, hx, Option.bind_some, ht, Option.map_some] at ha
          have := (tcQuery_spec hS.1 hV.1 q t ((hw.2 x (mem_of_getElem? hx)).1 t (mem_of_getElem? ht))
            ((registered_iff _ _).1 ha)).2.2.2.2
          simp only [step, onMem, onSuite, hx, ht]
          rw [this, he]
  | _ => simp [outOk]

theorem wok_empty (S : Sems) : WOK S {} := ⟨by intro t ht; simp at ht, by intro s hs; simp at hs⟩

end PynguinModel.Cache
