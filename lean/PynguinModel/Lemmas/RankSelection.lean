import PynguinModel.Model.Ranking
import Mathlib.Analysis.Real.Sqrt
import Mathlib.Tactic.Linarith
import Mathlib.Tactic.Positivity
import Mathlib.Tactic.FieldSimp
import Mathlib.Tactic.Ring
/-! Real-valued analysis of `RankSelection.get_index` (C14): the position
`(b - sqrt(b^2 - 4(b-1)r)) / 2 / (b-1)` lies in `[0, min 1 (1/(b-1)))`, is the inverse of the
cumulative distribution `x ↦ b x - (b-1) x^2`, and the induced probability mass of the indices never
grows with the index.  IEEE rounding is not modelled here (see the design note). -/
namespace PynguinModel.Ranking
set_option linter.unusedVariables false

/-- the formula of `get_index` over the reals -/
noncomputable def gR (b r : ℝ) : ℝ := (b - Real.sqrt (b ^ 2 - 4 * (b - 1) * r)) / 2 / (b - 1)

/-- repaired code: `position = random_value if bias == 1.0 else <formula>` -/
noncomputable def positionR (b r : ℝ) : ℝ := if b = 1 then r else gR b r

/-- probability that the position is below `x` (inverse of the formula, before capping) -/
def cdfR (b x : ℝ) : ℝ := b * x - (b - 1) * x ^ 2

/-- upper end of the positions: `1` for `b ≤ 2`, `1/(b-1)` above ("cutting off the lower ranked") -/
noncomputable def capR (b : ℝ) : ℝ := if b ≤ 2 then 1 else 1 / (b - 1)

/-- probability that the position is below `x` -/
noncomputable def cdfC (b x : ℝ) : ℝ := cdfR b (min x (capR b))

theorem radicand_ge (b r : ℝ) (hb : 1 ≤ b) (hr1 : r ≤ 1) :
    (b - 2) ^ 2 ≤ b ^ 2 - 4 * (b - 1) * r := by nlinarith

theorem radicand_gt (b r : ℝ) (hb : 1 < b) (hr1 : r < 1) :
    (b - 2) ^ 2 < b ^ 2 - 4 * (b - 1) * r := by nlinarith

theorem radicand_nonneg (b r : ℝ) (hb : 1 ≤ b) (hr1 : r ≤ 1) : 0 ≤ b ^ 2 - 4 * (b - 1) * r :=
  le_trans (sq_nonneg _) (radicand_ge b r hb hr1)

theorem sqrt_le_bias (b r : ℝ) (hb : 1 ≤ b) (hr0 : 0 ≤ r) :
    Real.sqrt (b ^ 2 - 4 * (b - 1) * r) ≤ b := by
  have : b ^ 2 - 4 * (b - 1) * r ≤ b ^ 2 := by nlinarith
  calc Real.sqrt (b ^ 2 - 4 * (b - 1) * r) ≤ Real.sqrt (b ^ 2) := Real.sqrt_le_sqrt this
    _ = b := Real.sqrt_sq (by linarith)

theorem abs_lt_sqrt (b r : ℝ) (hb : 1 < b) (hr1 : r < 1) :
    |b - 2| < Real.sqrt (b ^ 2 - 4 * (b - 1) * r) := by
  have h := Real.sqrt_lt_sqrt (sq_nonneg (b - 2)) (radicand_gt b r hb hr1)
  rwa [Real.sqrt_sq_eq_abs] at h

theorem gR_nonneg (b r : ℝ) (hb : 1 < b) (hr0 : 0 ≤ r) : 0 ≤ gR b r := by
  unfold gR
  have := sqrt_le_bias b r hb.le hr0
  apply div_nonneg (div_nonneg _ _) <;> linarith

theorem gR_lt_cap (b r : ℝ) (hb : 1 < b) (hr1 : r < 1) : gR b r < capR b := by
  have hs := abs_lt_sqrt b r hb hr1
  have hb1 : 0 < b - 1 := by linarith
  unfold gR capR
  split
  · rw [div_lt_one hb1, div_lt_iff₀ (by norm_num : (0 : ℝ) < 2)]
    have := neg_abs_le (b - 2)
    linarith
  · rw [div_lt_div_iff_of_pos_right hb1, div_lt_iff₀ (by norm_num : (0 : ℝ) < 2)]
    have := le_abs_self (b - 2)
    linarith

theorem capR_pos (b : ℝ) (hb : 1 ≤ b) : 0 < capR b := by
  unfold capR; split
  · exact one_pos
  · apply div_pos one_pos; linarith

theorem capR_le_one (b : ℝ) : capR b ≤ 1 := by
  unfold capR; split
  · exact le_refl _
  · rw [div_le_one (by linarith)]; linarith

/-- the slope of the distribution function is still non-negative at the cap -/
theorem slope_at_cap (b : ℝ) (hb : 1 ≤ b) : 0 ≤ b - 2 * (b - 1) * capR b := by
  unfold capR; split
  · linarith
  · have hb1 : 0 < b - 1 := by linarith
    have : 2 * (b - 1) * (1 / (b - 1)) = 2 := by field_simp
    rw [this]; linarith

theorem cdfR_cap (b : ℝ) (hb : 1 ≤ b) : cdfR b (capR b) = 1 := by
  unfold cdfR capR; split
  · ring
  · have hb1 : b - 1 ≠ 0 := by intro h; linarith
    field_simp

/-- the distribution function inverts the formula -/
theorem cdfR_gR (b r : ℝ) (hb : 1 < b) (hr1 : r ≤ 1) : cdfR b (gR b r) = r := by
  have hs := Real.sq_sqrt (radicand_nonneg b r hb.le hr1)
  have hb1 : b - 1 ≠ 0 := by intro h; linarith
  unfold cdfR gR
  generalize Real.sqrt (b ^ 2 - 4 * (b - 1) * r) = s at hs
  field_simp
  nlinarith

theorem cdfR_strictMono_on (b x y : ℝ) (hb : 1 ≤ b) (hx : 0 ≤ x) (hxy : x < y) (hy : y ≤ capR b) :
    cdfR b x < cdfR b y := by
  have hk := slope_at_cap b hb
  have : cdfR b y - cdfR b x = (y - x) * (b - (b - 1) * (x + y)) := by unfold cdfR; ring
  have h2 : 0 < b - (b - 1) * (x + y) := by
    have : (b - 1) * (x + y) ≤ (b - 1) * (2 * capR b) := by
      apply mul_le_mul_of_nonneg_left _ (by linarith); linarith
    rcases eq_or_lt_of_le hb with rfl | hb'
    · simp
    · have : (b - 1) * (x + y) < (b - 1) * (2 * capR b) := by
        apply mul_lt_mul_of_pos_left _ (by linarith); linarith
      linarith
  have : 0 < (y - x) * (b - (b - 1) * (x + y)) := mul_pos (by linarith) h2
  linarith

/-- positions of the repaired code: in `[0, cap)`, and `position < x ↔ r < cdf x` below the cap -/
theorem positionR_nonneg (b r : ℝ) (hb : 1 ≤ b) (hr0 : 0 ≤ r) : 0 ≤ positionR b r := by
  unfold positionR; split
  · exact hr0
  · exact gR_nonneg b r (lt_of_le_of_ne hb (Ne.symm ‹_›)) hr0

theorem positionR_lt_cap (b r : ℝ) (hb : 1 ≤ b) (hr1 : r < 1) : positionR b r < capR b := by
  unfold positionR; split
  · subst b; simpa [capR] using hr1
  · exact gR_lt_cap b r (lt_of_le_of_ne hb (Ne.symm ‹_›)) hr1

theorem cdfR_positionR (b r : ℝ) (hb : 1 ≤ b) (hr1 : r ≤ 1) : cdfR b (positionR b r) = r := by
  unfold positionR; split
  · subst b; simp [cdfR]
  · exact cdfR_gR b r (lt_of_le_of_ne hb (Ne.symm ‹_›)) hr1

theorem positionR_lt_iff (b r x : ℝ) (hb : 1 ≤ b) (hr0 : 0 ≤ r) (hr1 : r < 1) (hx : 0 ≤ x) :
    positionR b r < x ↔ r < cdfC b x := by
  have hp0 := positionR_nonneg b r hb hr0
  have hpc := positionR_lt_cap b r hb hr1
  have hinv := cdfR_positionR b r hb hr1.le
  unfold cdfC
  rcases le_total x (capR b) with hxc | hxc
  · rw [min_eq_left hxc]
    constructor
    · intro h
      have := cdfR_strictMono_on b _ _ hb hp0 h hxc
      rwa [hinv] at this
    · intro h
      by_contra hcon
      rw [not_lt] at hcon
      rcases eq_or_lt_of_le hcon with heq | hlt
      · rw [heq, hinv] at h; exact lt_irrefl _ h
      · have := cdfR_strictMono_on b _ _ hb hx hlt hpc.le
        rw [hinv] at this; linarith
  · rw [min_eq_right hxc, cdfR_cap b hb]
    exact ⟨fun _ => hr1, fun _ => lt_of_lt_of_le hpc hxc⟩

/-- increments of `min · c` over intervals of equal length shrink to the right -/
theorem min_increment_antitone (c x y h : ℝ) (hxy : x ≤ y) (hh : 0 ≤ h) :
    min (y + h) c - min y c ≤ min (x + h) c - min x c := by
  simp only [min_def]
  split_ifs <;> linarith

/-- the distribution function is concave: its increments over intervals of equal length shrink -/
theorem cdfC_increment_antitone (b x y h : ℝ) (hb : 1 ≤ b) (hx : 0 ≤ x) (hxy : x ≤ y) (hh : 0 ≤ h) :
    cdfC b (y + h) - cdfC b y ≤ cdfC b (x + h) - cdfC b x := by
  have hk := slope_at_cap b hb
  have hc := capR_pos b hb
  unfold cdfC
  have hinc := min_increment_antitone (capR b) x y h hxy hh
  generalize ha1 : min x (capR b) = a1 at *
  generalize ha2 : min (x + h) (capR b) = a2 at *
  generalize ha3 : min y (capR b) = a3 at *
  generalize ha4 : min (y + h) (capR b) = a4 at *
  have h12 : a1 ≤ a2 := by subst ha1 ha2; exact min_le_min_right _ (by linarith)
  have h34 : a3 ≤ a4 := by subst ha3 ha4; exact min_le_min_right _ (by linarith)
  have h13 : a1 ≤ a3 := by subst ha1 ha3; exact min_le_min_right _ hxy
  have h24 : a2 ≤ a4 := by subst ha2 ha4; exact min_le_min_right _ (by linarith)
  have h3c : a3 ≤ capR b := by subst ha3; exact min_le_right _ _
  have h4c : a4 ≤ capR b := by subst ha4; exact min_le_right _ _
  have e1 : cdfR b a2 - cdfR b a1 = (a2 - a1) * (b - (b - 1) * (a1 + a2)) := by unfold cdfR; ring
  have e2 : cdfR b a4 - cdfR b a3 = (a4 - a3) * (b - (b - 1) * (a3 + a4)) := by unfold cdfR; ring
  rw [e1, e2]
  have hb1 : 0 ≤ b - 1 := by linarith
  have s2 : 0 ≤ b - (b - 1) * (a3 + a4) := by
    have : (b - 1) * (a3 + a4) ≤ (b - 1) * (2 * capR b) := mul_le_mul_of_nonneg_left (by linarith) hb1
    linarith
  have s12 : b - (b - 1) * (a3 + a4) ≤ b - (b - 1) * (a1 + a2) := by
    have : (b - 1) * (a1 + a2) ≤ (b - 1) * (a3 + a4) := mul_le_mul_of_nonneg_left (by linarith) hb1
    linarith
  calc (a4 - a3) * (b - (b - 1) * (a3 + a4)) ≤ (a2 - a1) * (b - (b - 1) * (a3 + a4)) :=
        mul_le_mul_of_nonneg_right hinc s2
    _ ≤ (a2 - a1) * (b - (b - 1) * (a1 + a2)) := mul_le_mul_of_nonneg_left s12 (by linarith)

/-! ### the executable rational model computes the real-valued formula -/

theorem exactSqrt_spec (q s : Rat) (h : exactSqrt q = some s) : 0 ≤ s ∧ s * s = q := by
  unfold exactSqrt at h
  split at h
  · cases h
  · rename_i hq
    simp only at h
    split at h
    · rename_i hsq
      cases h
      obtain ⟨hn, hd⟩ := hsq
      have hq0 : 0 ≤ q := not_lt.1 hq
      have hnum : 0 ≤ q.num := Rat.num_nonneg.2 hq0
      have hsd : (Nat.sqrt q.den : ℚ) ≠ 0 := by
        intro h0
        have : Nat.sqrt q.den = 0 := by exact_mod_cast h0
        rw [this] at hd
        exact q.den_nz hd.symm
      refine ⟨by positivity, ?_⟩
      have h1 : ((Nat.sqrt q.num.toNat : ℚ)) * (Nat.sqrt q.num.toNat : ℚ) = (q.num : ℚ) := by
        have : ((Nat.sqrt q.num.toNat * Nat.sqrt q.num.toNat : ℕ) : ℤ) = q.num := by
          rw [hn]; exact Int.toNat_of_nonneg hnum
        exact_mod_cast this
      have h2 : ((Nat.sqrt q.den : ℚ)) * (Nat.sqrt q.den : ℚ) = (q.den : ℚ) := by exact_mod_cast hd
      have h3 : (q.num : ℚ) / (q.den : ℚ) = q := Rat.num_div_den q
      rw [div_mul_div_comm, h1, h2, h3]
    · cases h

theorem rankFormula_real (b r p : Rat) (h : rankFormula b r = .ok p) : (p : ℝ) = gR b r := by
  unfold rankFormula at h
  simp only at h
  split at h
  · cases h
  · split at h
    · cases h
    · rename_i s hs
      split at h
      · cases h
      · cases h
        obtain ⟨hs0, hss⟩ := exactSqrt_spec _ _ hs
        have hrad : ((b : ℝ) ^ 2 - 4 * ((b : ℝ) - 1) * (r : ℝ)) = (s : ℝ) ^ 2 := by
          have : (b * b - 4 * (b - 1) * r : ℚ) = s ^ 2 := by rw [← hss]; ring
          have := congrArg (fun x : ℚ => (x : ℝ)) this
          simp only [Rat.cast_sub, Rat.cast_mul, Rat.cast_pow, Rat.cast_ofNat, Rat.cast_one] at this
          rw [← this]; ring
        unfold gR
        rw [hrad, Real.sqrt_sq (by exact_mod_cast hs0)]
        push_cast
        ring

theorem rankPosition_real (b r p : Rat) (h : rankPosition b r = .ok p) :
    (p : ℝ) = positionR b r := by
  unfold rankPosition at h
  unfold positionR
  split at h
  · rename_i hb
    cases h
    have : (b : ℝ) = 1 := by exact_mod_cast hb
    rw [if_pos this]
  · rename_i hb
    have : ¬ (b : ℝ) = 1 := by intro h1; exact hb (by exact_mod_cast h1)
    rw [if_neg this]
    exact rankFormula_real b r p h

/-- Whenever the exact model answers with an index, it is the floor of the real-valued position
times the population size (the clamp is the identity over the reals). -/
theorem rankIndex_real (b r : Rat) (n : Nat) (i : Int) (h : rankIndex b r n = .idx i)
    (hb : 1 ≤ b) (hr0 : 0 ≤ r) (hr1 : r < 1) (hn : 0 < n) :
    i = ⌊(n : ℝ) * positionR b r⌋ := by
  unfold rankIndex at h
  split at h
  · cases h
    rename_i e he
    -- an `.error e` answer is never an index
    unfold rankPosition rankFormula at he
    simp only at he
    split at he
    · cases he
    · split at he
      · cases he
      · split at he
        · cases he
        · split at he
          · cases he
          · cases he
  · rename_i p hp
    cases h
    have hpr := rankPosition_real b r p hp
    have hbR : (1 : ℝ) ≤ b := by exact_mod_cast hb
    have hr0R : (0 : ℝ) ≤ r := by exact_mod_cast hr0
    have hr1R : (r : ℝ) < 1 := by exact_mod_cast hr1
    have hp0R := positionR_nonneg b r hbR hr0R
    have hp1R : positionR (b : ℝ) r < 1 :=
      lt_of_lt_of_le (positionR_lt_cap b r hbR hr1R) (capR_le_one _)
    rw [← hpr] at hp0R hp1R
    have hp0 : 0 ≤ p := by exact_mod_cast hp0R
    have hnp0 : 0 ≤ (n : Rat) * p := mul_nonneg (by positivity) hp0
    have hfl : ⌊(n : ℝ) * positionR b r⌋ = ((n : Rat) * p).floor := by
      rw [Int.floor_eq_iff, ← hpr]
      constructor
      · have := Rat.floor_le ((n : Rat) * p)
        have := (Rat.cast_le (K := ℝ)).2 this
        push_cast at this ⊢
        exact this
      · have := Rat.lt_floor_add_one ((n : Rat) * p)
        have := (Rat.cast_lt (K := ℝ)).2 this
        push_cast at this ⊢
        exact this
    have hlt : ((n : Rat) * p).floor < n := by
      rw [Rat.floor_lt_iff]
      have : (n : ℝ) * (p : ℝ) < (n : ℝ) * 1 := mul_lt_mul_of_pos_left hp1R (by exact_mod_cast hn)
      have : ((n : Rat) * p : ℝ) < ((n : Int) : ℝ) := by push_cast; linarith
      exact_mod_cast this
    rw [hfl]
    unfold truncInt clampIdx
    rw [if_pos hnp0]
    omega

end PynguinModel.Ranking
