import PynguinModel.Model.Cdg
import Mathlib.Tactic.Tauto
/-! Helper lemmas for C06: tree chains, `takeWhile`/`find?` decompositions, DiGraph insertion. -/
namespace PynguinModel.Cdg

/-- The parameter `up` really describes a tree: the ancestors of the parent are the rest of the
chain. (Checked by the driver on every exported post-dominator tree.) -/
def TreeOK (up : Node → List Node) : Prop := ∀ v p rest, up v = p :: rest → up p = rest

theorem up_suffix {up} (h : TreeOK up) :
    ∀ (pre : List Node) (v x : Node) (post : List Node), up v = pre ++ x :: post → up x = post := by
  intro pre
  induction pre with
  | nil => intro v x post hv; exact h v x post (by simpa using hv)
  | cons p pre ih =>
    intro v x post hv
    have hp : up p = pre ++ x :: post := h v p _ (by simpa using hv)
    exact ih p x post hp

theorem chain_suffix {up} (h : TreeOK up) (pre : List Node) (v x : Node) (post : List Node)
    (hc : chain up v = pre ++ x :: post) : up x = post := by
  cases pre with
  | nil =>
    simp only [chain, List.nil_append, List.cons.injEq] at hc
    obtain ⟨rfl, rfl⟩ := hc; rfl
  | cons p pre =>
    simp only [chain, List.cons_append, List.cons.injEq] at hc
    exact up_suffix h pre v x post hc.2

theorem not_mem_up_self {up} (h : TreeOK up) (v : Node) : v ∉ up v := by
  intro hv
  obtain ⟨pre, post, hsplit⟩ := List.append_of_mem hv
  have := up_suffix h pre v v post hsplit
  rw [this] at hsplit
  have := congrArg List.length hsplit
  simp at this
  omega

/-- Ancestors of an ancestor are ancestors. -/
theorem up_trans {up} (h : TreeOK up) {v x y : Node} (hx : x ∈ up v) (hy : y ∈ up x) : y ∈ up v := by
  obtain ⟨pre, post, hsplit⟩ := List.append_of_mem hx
  have := up_suffix h pre v x post hsplit
  rw [hsplit]; simp only [List.mem_append, List.mem_cons]
  right; right; rw [← this]; exact hy

theorem mem_takeWhile_iff {α} (p : α → Bool) (l : List α) (b : α) :
    b ∈ l.takeWhile p ↔ ∃ pre post, l = pre ++ b :: post ∧ (∀ y ∈ pre, p y = true) ∧ p b = true := by
  induction l with
  | nil => simp
  | cons a l ih =>
    by_cases ha : p a = true
    · rw [List.takeWhile_cons_of_pos ha, List.mem_cons, ih]
      constructor
      · rintro (rfl | ⟨pre, post, rfl, hpre, hb⟩)
        · exact ⟨[], l, rfl, by simp, ha⟩
        · exact ⟨a :: pre, post, rfl, by
            intro y hy; rcases List.mem_cons.1 hy with rfl | hy
            · exact ha
            · exact hpre y hy, hb⟩
      · rintro ⟨pre, post, hl, hpre, hb⟩
        cases pre with
        | nil => simp at hl; left; exact hl.1.symm
        | cons q pre =>
          simp only [List.cons_append, List.cons.injEq] at hl
          right; exact ⟨pre, post, hl.2, fun y hy => hpre y (List.mem_cons_of_mem _ hy), hb⟩
    · rw [List.takeWhile_cons_of_neg ha]
      constructor
      · intro hb; cases hb
      · rintro ⟨pre, post, hl, hpre, hb⟩
        cases pre with
        | nil => simp at hl; rw [← hl.1] at hb; exact absurd hb ha
        | cons q pre =>
          simp only [List.cons_append, List.cons.injEq] at hl
          exact absurd (hpre q (by simp)) (by rw [← hl.1]; exact ha)

/-! ### DiGraph insertion -/

def SameKey (x y : Node × Node × Label) : Prop := x.1 = y.1 ∧ x.2.1 = y.2.1

/-- No two insertions for the same (source, target) disagree on the label. -/
def LabelConsistent (es : List (Node × Node × Label)) : Prop :=
  ∀ x ∈ es, ∀ y ∈ es, x.1 = y.1 → x.2.1 = y.2.1 → x.2.2 = y.2.2

theorem mem_digraphAdd {g : List (Node × Node × Label)} {e x}
    (hc : LabelConsistent (g ++ [e])) : x ∈ digraphAdd g e ↔ x ∈ g ∨ x = e := by
  unfold digraphAdd
  split
  · rename_i hany
    have hmap : g.map (fun x => if (x.1 == e.1 && x.2.1 == e.2.1) = true then e else x) = g := by
      have : ∀ y ∈ g, (if (y.1 == e.1 && y.2.1 == e.2.1) = true then e else y) = y := by
        intro y hy
        split
        · rename_i hk
          simp only [Bool.and_eq_true, beq_iff_eq] at hk
          have hl := hc y (by simp [hy]) e (by simp) hk.1 hk.2
          rcases y with ⟨y1, y2, y3⟩; rcases e with ⟨e1, e2, e3⟩
          simp_all
        · rfl
      conv => rhs; rw [← List.map_id g]
      exact List.map_congr_left this
    rw [hmap]
    constructor
    · exact Or.inl
    · rintro (h | rfl)
      · exact h
      · obtain ⟨y, hy, hk⟩ := List.any_eq_true.1 hany
        simp only [Bool.and_eq_true, beq_iff_eq] at hk
        have hl := hc y (by simp [hy]) x (by simp) hk.1 hk.2
        rcases y with ⟨y1, y2, y3⟩; rcases x with ⟨e1, e2, e3⟩
        simp_all
  · simp

theorem mem_foldl_digraphAdd (es g : List (Node × Node × Label)) (hc : LabelConsistent (g ++ es)) (x) :
    x ∈ es.foldl digraphAdd g ↔ x ∈ g ∨ x ∈ es := by
  induction es generalizing g with
  | nil => simp
  | cons e es ih =>
    have hc1 : LabelConsistent (g ++ [e]) := by
      intro a ha b hb; exact hc a (by simp at ha ⊢; tauto) b (by simp at hb ⊢; tauto)
    have hmem : ∀ z, z ∈ digraphAdd g e ↔ z ∈ g ∨ z = e := fun z => mem_digraphAdd hc1
    have hc2 : LabelConsistent (digraphAdd g e ++ es) := by
      intro a ha b hb
      apply hc a _ b _
      · simp only [List.mem_append, hmem] at ha; simp; tauto
      · simp only [List.mem_append, hmem] at hb; simp; tauto
    rw [List.foldl_cons, ih _ hc2, hmem]; simp; tauto

end PynguinModel.Cdg
