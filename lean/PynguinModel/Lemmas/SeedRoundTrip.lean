import PynguinModel.Model.SeedRoundTrip
/-! Helper lemmas for C24: the renamer is the identity under an identity map, chains, literal
round trip, rendering of a statement list, and the invariant of the deserialisation loop. -/
namespace PynguinModel.SeedRoundTrip

/-! ## renaming with an identity map -/

def IdMap (m : List (Name × Name)) : Prop := ∀ p ∈ m, p.1 = p.2

theorem renameName_id {m : List (Name × Name)} (h : IdMap m) (n : Name) : renameName m n = n := by
  unfold renameName
  cases hf : m.find? (fun p => p.1 == n) with
  | none => rfl
  | some p =>
    have hm := List.mem_of_find?_eq_some hf
    have hp := List.find?_some hf
    simp at hp
    simp [← h p hm, hp]

theorem renameNames_id {m : List (Name × Name)} (h : IdMap m) (ps : List Name) :
    ps.map (renameName m) = ps := by
  induction ps with
  | nil => rfl
  | cons p ps ih => simp [renameName_id h, ih]

mutual
theorem renameE_id {m : List (Name × Name)} (h : IdMap m) : ∀ e : Expr, renameE m e = e
  | .name n => by simp [renameE, renameName_id h]
  | .attr e a => by simp [renameE, renameName_id h, renameE_id h e]
  | .call f args => by simp [renameE, renameE_id h f, renameEs_id h args]
  | .kwarg k v => by simp [renameE, renameName_id h, renameE_id h v]
  | .star n v => by simp [renameE, renameE_id h v]
  | .const k => by simp [renameE]
  | .neg e => by simp [renameE, renameE_id h e]
  | .list es => by simp [renameE, renameEs_id h es]
  | .tuple es => by simp [renameE, renameEs_id h es]
  | .set es => by simp [renameE, renameEs_id h es]
  | .dict es => by simp [renameE, renameEs_id h es]
  | .lam ps b => by simp [renameE, renameNames_id h, renameE_id h b]
  | .cmp l op r => by simp [renameE, renameE_id h l, renameE_id h r]
  | .or_ l r => by simp [renameE, renameE_id h l, renameE_id h r]
  | .fstr ps => by simp [renameE, renameEs_id h ps]
  | .opaque t ss => by simp [renameE, renameEs_id h ss]
theorem renameEs_id {m : List (Name × Name)} (h : IdMap m) : ∀ es : List Expr, renameEs m es = es
  | [] => by simp [renameEs]
  | e :: es => by simp [renameEs, renameE_id h e, renameEs_id h es]
end

theorem renameSmall_id {m : List (Name × Name)} (h : IdMap m) (s : Small) : renameSmall m s = s := by
  cases s <;> simp [renameSmall, renameE_id h, renameEs_id h]

theorem renameSmalls_id {m : List (Name × Name)} (h : IdMap m) (ss : List Small) :
    ss.map (renameSmall m) = ss := by
  induction ss with
  | nil => rfl
  | cons s ss ih => simp [renameSmall_id h, ih]

theorem renameLine_id {m : List (Name × Name)} (h : IdMap m) (l : Line) : renameLine m l = l := by
  cases l <;> simp [renameLine, renameSmall_id h, renameSmalls_id h, renameEs_id h]

/-! ## chains -/

theorem chain_buildChainFrom (root : Expr) (r : List Name) (h : chain root = some r) :
    ∀ ps : List Name, chain (buildChainFrom root ps) = some (r ++ ps) := by
  intro ps
  induction ps generalizing root r with
  | nil => simp [buildChainFrom, h]
  | cons a as ih =>
    simp only [buildChainFrom]
    rw [ih (.attr root a) (r ++ [a]) (by simp [chain, h])]
    simp

theorem chain_buildChain (p : Name) (ps : List Name) : chain (buildChain (p :: ps)) = some (p :: ps) := by
  simp [buildChain, chain_buildChainFrom (.name p) [p] (by simp [chain])]

theorem buildChainFrom_not_name (root : Expr) (hroot : ∀ n, root ≠ .name n) :
    ∀ ps n, buildChainFrom root ps ≠ .name n := by
  intro ps
  induction ps generalizing root with
  | nil => simpa [buildChainFrom] using hroot
  | cons a as ih => intro n; simp only [buildChainFrom]; exact ih (.attr root a) (by simp) n

/-! ## literal round trip -/

mutual
/-- no `nan` / `inf` float anywhere in the value -/
def finiteVal : Val → Bool
  | .float f => f.tok != "nan" && f.tok != "inf"
  | .list xs => finiteVals xs
  | .tuple xs => finiteVals xs
  | .set xs => finiteVals xs
  | .dict xs => finiteVals xs
  | _ => true
def finiteVals : List Val → Bool
  | [] => true
  | x :: xs => finiteVal x && finiteVals xs
end

theorem literalEval_intExpr (z : Int) : literalEval (intExpr z) = some (.int z) := by
  unfold intExpr
  split
  · rename_i h
    simp only [literalEval]
    congr 2
    omega
  · rename_i h
    simp only [literalEval, constVal]
    congr 2
    omega

theorem literalEval_makeFloat (f : FloatV) (h1 : f.tok ≠ "nan") (h2 : f.tok ≠ "inf") :
    literalEval (makeFloat f) = some (.float f) := by
  unfold makeFloat
  simp only [h1, h2, if_false]
  cases hneg : f.neg
  · simp [literalEval, constVal]
    cases f; simp_all
  · simp [literalEval]
    cases f; simp_all

mutual
theorem literalEval_valueToCst : ∀ v : Val, finiteVal v = true → literalEval (valueToCst v) = some v
  | .none, _ => by simp [valueToCst, literalEval, constVal]
  | .bool b, _ => by cases b <;> simp [valueToCst, literalEval, constVal]
  | .int z, _ => by simp [valueToCst, literalEval_intExpr]
  | .float f, h => by
      simp [finiteVal] at h
      simp [valueToCst, literalEval_makeFloat f h.1 h.2]
  | .str t, _ => by simp [valueToCst, literalEval, constVal]
  | .bytes t, _ => by simp [valueToCst, literalEval, constVal]
  | .list xs, h => by
      simp [finiteVal] at h
      simp [valueToCst, literalEval, literalEvals_valuesToCst xs h]
  | .tuple xs, h => by
      simp [finiteVal] at h
      simp [valueToCst, literalEval, literalEvals_valuesToCst xs h]
  | .set [], _ => by simp [valueToCst, literalEval]
  | .set (x :: xs), h => by
      simp only [finiteVal] at h
      simp [valueToCst, literalEval, literalEvals_valuesToCst (x :: xs) h]
  | .dict xs, h => by
      simp [finiteVal] at h
      simp [valueToCst, literalEval, literalEvals_valuesToCst xs h]
theorem literalEvals_valuesToCst : ∀ vs : List Val, finiteVals vs = true →
    literalEvals (valuesToCst vs) = some vs
  | [], _ => by simp [valuesToCst, literalEvals]
  | v :: vs, h => by
      simp [finiteVals] at h
      simp [valuesToCst, literalEvals, literalEval_valueToCst v h.1, literalEvals_valuesToCst vs h.2]
end

mutual
theorem finite_of_assertable : ∀ (v : Val) (d : Nat), isAssertable v d = true → finiteVal v = true
  | .none, _, _ => by simp [finiteVal]
  | .bool _, _, _ => by simp [finiteVal]
  | .int _, _, _ => by simp [finiteVal]
  | .float _, _, h => by simp [isAssertable] at h
  | .str _, _, _ => by simp [finiteVal]
  | .bytes _, _, _ => by simp [finiteVal]
  | .list xs, d, h => by
      simp [isAssertable] at h; simp [finiteVal, finites_of_assertable xs (d + 1) h.2]
  | .tuple xs, d, h => by
      simp [isAssertable] at h; simp [finiteVal, finites_of_assertable xs (d + 1) h.2]
  | .set xs, d, h => by
      simp [isAssertable] at h; simp [finiteVal, finites_of_assertable xs (d + 1) h.2]
  | .dict xs, d, h => by
      simp [isAssertable] at h; simp [finiteVal, finites_of_assertable xs (d + 1) h.2]
theorem finites_of_assertable : ∀ (vs : List Val) (d : Nat), allAssertable vs d = true → finiteVals vs = true
  | [], _, _ => by simp [finiteVals]
  | v :: vs, d, h => by
      simp [allAssertable] at h
      simp [finiteVals, finite_of_assertable v d h.1, finites_of_assertable vs d h.2]
end

/-! ## rendering a statement list -/

theorem renderBody_append (ps qs : List PStmt) : renderBody (ps ++ qs) = renderBody ps ++ renderBody qs := by
  induction ps with
  | nil => rfl
  | cons p ps ih => simp [renderBody, ih]

theorem renderBody_single (l : Line) (b : Option Name) :
    renderBody [{ node := l, bound := b, assertions := [] }] = [l] := by
  simp [renderBody]

theorem renderBody_appendAssertion_last (ps : List PStmt) (a : Assertion) (h : ps ≠ []) :
    renderBody (appendAssertion ps (ps.length - 1) a) = renderBody ps ++ [renderAssertion a] := by
  induction ps with
  | nil => exact absurd rfl h
  | cons p ps ih =>
    cases ps with
    | nil => simp [appendAssertion, renderBody]
    | cons q qs =>
      have := ih (by simp)
      simp only [appendAssertion, List.length_cons, Nat.add_sub_cancel] at this ⊢
      simp only [List.modify_succ_cons, renderBody]
      rw [this]
      simp [renderBody]

theorem appendAssertion_bound (ps : List PStmt) (i j : Nat) (a : Assertion) :
    ((appendAssertion ps i a)[j]?).map (·.bound) = (ps[j]?).map (·.bound) := by
  unfold appendAssertion
  rw [List.getElem?_modify]
  by_cases h : i = j <;> cases hp : ps[j]? <;> simp [h]

theorem appendAssertion_ne_nil (ps : List PStmt) (i : Nat) (a : Assertion) (h : ps ≠ []) :
    appendAssertion ps i a ≠ [] := by
  unfold appendAssertion
  intro hc
  have := congrArg List.length hc
  simp at this
  exact h this

/-! ## the loop invariant -/

structure Inv (st : St) : Prop where
  idmap : IdMap st.renameMap
  binder : ∀ v ∈ st.boundKeys, ∃ i, lookupIdx st.lastIdx v = some i ∧ (st.stmts[i]?).map (·.bound) = some (some v)

theorem Inv.stmts_ne_nil {st : St} (h : Inv st) {v : Name} (hv : v ∈ st.boundKeys) : st.stmts ≠ [] := by
  obtain ⟨i, _, hi⟩ := h.binder v hv
  intro hc
  simp [hc] at hi

theorem subsetB_iff (xs ys : List Name) : subsetB xs ys = true ↔ ∀ x ∈ xs, x ∈ ys := by
  simp [subsetB]

end PynguinModel.SeedRoundTrip
