import PynguinModel.Model.Ranking
/-! Helper lemmas for C14: the comparators compute Pareto dominance / the lexicographic preference,
the incremental scan of `_get_non_dominated_solutions` computes the non-dominated filter, the zero
front holds a best individual per goal, the `while` loop of `compute_ranking_assignment` terminates.
Mathlib-free. -/
namespace PynguinModel.Ranking

/-! ### `compare` -/

theorem cmp_neg (a b : Rat) : cmp a b < 0 ↔ a < b := by
  unfold cmp; split
  · simp_all
  · split <;> simp_all

theorem cmp_pos (a b : Rat) : cmp a b > 0 ↔ b < a := by
  unfold cmp; split
  · rename_i h; simp; grind
  · split <;> simp_all

/-! ### Pareto dominance and `DominanceComparator` -/

/-- some goal on which `a` is strictly better than `b` -/
def ltSome (gs : List Nat) (a b : Ind) : Bool := gs.any fun g => decide (fitOf a g < fitOf b g)

/-- Pareto dominance on the goals `gs`, from the definition: nowhere worse, somewhere better. -/
def Dominates (gs : List Nat) (a b : Ind) : Prop :=
  (∀ g ∈ gs, fitOf a g ≤ fitOf b g) ∧ ∃ g ∈ gs, fitOf a g < fitOf b g

instance (gs : List Nat) (a b : Ind) : Decidable (Dominates gs a b) := by
  unfold Dominates; exact inferInstance

/-- The loop of `DominanceComparator.compare` with its early exits, in closed form. -/
theorem domLoop_eq (c1 c2 : Ind) (gs : List Nat) (d1 d2 : Bool) :
    domLoop c1 c2 gs d1 d2 =
      (if (d1 || ltSome gs c1 c2) && !(d2 || ltSome gs c2 c1) then -1
       else if (d2 || ltSome gs c2 c1) && !(d1 || ltSome gs c1 c2) then 1 else 0) := by
  induction gs generalizing d1 d2 with
  | nil => cases d1 <;> cases d2 <;> simp [domLoop, ltSome]
  | cons g gs ih =>
    unfold domLoop
    simp only [cmp_neg, cmp_pos]
    by_cases h1 : fitOf c1 g < fitOf c2 g
    · have h2 : ¬ fitOf c2 g < fitOf c1 g := by grind
      simp only [h1, if_true]
      cases d2
      · simp only [ih]; simp [ltSome, h1, h2]
      · simp [ltSome, h1, h2]
    · by_cases h2 : fitOf c2 g < fitOf c1 g
      · simp only [h1, h2, if_true, if_false]
        cases d1
        · simp only [ih]; simp [ltSome, h1, h2]
        · simp [ltSome, h1, h2]
      · simp only [h1, h2, if_false, ih]; simp [ltSome, h1, h2]

theorem ltSome_iff (gs a b) : ltSome gs a b = true ↔ ∃ g ∈ gs, fitOf a g < fitOf b g := by
  simp [ltSome]

theorem not_ltSome_iff (gs a b) : ltSome gs b a = false ↔ ∀ g ∈ gs, fitOf a g ≤ fitOf b g := by
  simp [ltSome]
  constructor <;> intro h g hg <;> have := h g hg <;> grind

theorem domCompare_neg_iff (gs a b) : domCompare gs (some a) (some b) = -1 ↔ Dominates gs a b := by
  simp only [domCompare, domLoop_eq, Bool.false_or, Dominates, ← ltSome_iff, ← not_ltSome_iff]
  cases ltSome gs a b <;> cases ltSome gs b a <;> simp

theorem domCompare_pos_iff (gs a b) : domCompare gs (some a) (some b) = 1 ↔ Dominates gs b a := by
  simp only [domCompare, domLoop_eq, Bool.false_or, Dominates, ← ltSome_iff, ← not_ltSome_iff]
  cases ltSome gs a b <;> cases ltSome gs b a <;> simp

theorem domCompare_range (gs a b) : domCompare gs (some a) (some b) = -1 ∨
    domCompare gs (some a) (some b) = 0 ∨ domCompare gs (some a) (some b) = 1 := by
  simp only [domCompare, domLoop_eq]
  split
  · simp
  · split <;> simp

theorem domCompare_lt_iff (gs a b) : domCompare gs (some a) (some b) < 0 ↔ Dominates gs a b := by
  rw [← domCompare_neg_iff]
  rcases domCompare_range gs a b with h | h | h <;> simp [h]

theorem domCompare_gt_iff (gs a b) : domCompare gs (some a) (some b) > 0 ↔ Dominates gs b a := by
  rw [← domCompare_pos_iff]
  rcases domCompare_range gs a b with h | h | h <;> simp [h]

theorem Dominates.irrefl (gs a) : ¬ Dominates gs a a := by
  rintro ⟨_, g, _, h⟩; grind

theorem Dominates.trans {gs a b c} (h1 : Dominates gs a b) (h2 : Dominates gs b c) :
    Dominates gs a c := by
  obtain ⟨l1, g, hg, s1⟩ := h1
  obtain ⟨l2, _⟩ := h2
  refine ⟨fun g hg => ?_, g, hg, ?_⟩
  · have := l1 g hg; have := l2 g hg; grind
  · have := l2 g hg; grind

theorem Dominates.asymm {gs a b} (h1 : Dominates gs a b) : ¬ Dominates gs b a :=
  fun h2 => Dominates.irrefl gs a (h1.trans h2)

/-! ### the non-dominated filter and `_get_non_dominated_solutions` -/

/-- `a` is dominated by some member of `l`. -/
def dominatedIn (gs : List Nat) (l : List Ind) (a : Ind) : Bool := l.any fun b => decide (Dominates gs b a)

/-- The members of `l` that no member of `l` dominates (order and multiplicity kept). -/
def ndFilter (gs : List Nat) (l : List Ind) : List Ind := l.filter fun a => !dominatedIn gs l a

theorem dominatedIn_iff (gs l a) : dominatedIn gs l a = true ↔ ∃ b ∈ l, Dominates gs b a := by
  simp [dominatedIn]

/-- Every dominated individual has a dominator that is itself non-dominated in `l`. -/
theorem exists_nondominated_dominator (gs : List Nat) (l : List Ind) :
    ∀ p, (∃ b ∈ l, Dominates gs b p) → ∃ q ∈ l, Dominates gs q p ∧ dominatedIn gs l q = false := by
  induction l with
  | nil => intro p ⟨b, hb, _⟩; cases hb
  | cons x l ih =>
    -- if `x` dominates `p` we find a suitable `q`
    have viaX : ∀ p, Dominates gs x p → ∃ q ∈ x :: l, Dominates gs q p ∧ dominatedIn gs (x :: l) q = false := by
      intro p hxp
      by_cases hc : ∃ c ∈ l, Dominates gs c x
      · obtain ⟨q, hq, hqx, hnd⟩ := ih x hc
        refine ⟨q, List.mem_cons_of_mem _ hq, hqx.trans hxp, ?_⟩
        have : ¬ Dominates gs x q := hqx.asymm
        simp [dominatedIn] at hnd ⊢
        exact ⟨this, hnd⟩
      · refine ⟨x, List.mem_cons_self, hxp, ?_⟩
        simp [dominatedIn]
        exact ⟨Dominates.irrefl gs x, fun c hc' hd => hc ⟨c, hc', hd⟩⟩
    intro p ⟨b, hb, hbp⟩
    by_cases hl : ∃ b ∈ l, Dominates gs b p
    · obtain ⟨q, hq, hqp, hnd⟩ := ih p hl
      by_cases hxq : Dominates gs x q
      · exact viaX p (hxq.trans hqp)
      · refine ⟨q, List.mem_cons_of_mem _ hq, hqp, ?_⟩
        simp [dominatedIn] at hnd ⊢
        exact ⟨hxq, hnd⟩
    · rcases List.mem_cons.1 hb with rfl | hb'
      · exact viaX p hbp
      · exact absurd ⟨b, hb', hbp⟩ hl

theorem mem_ndFilter (gs l a) : a ∈ ndFilter gs l ↔ a ∈ l ∧ ∀ b ∈ l, ¬ Dominates gs b a := by
  simp [ndFilter, dominatedIn]

/-- Every member of `l` is in the non-dominated filter or dominated by a member of the filter. -/
theorem ndFilter_covers (gs l p) (hp : p ∈ l) :
    p ∈ ndFilter gs l ∨ ∃ q ∈ ndFilter gs l, Dominates gs q p := by
  by_cases h : ∃ b ∈ l, Dominates gs b p
  · obtain ⟨q, hq, hqp, hnd⟩ := exists_nondominated_dominator gs l p h
    refine Or.inr ⟨q, ?_, hqp⟩
    simp [ndFilter, hq, hnd]
  · refine Or.inl ((mem_ndFilter gs l p).2 ⟨hp, fun b hb hd => h ⟨b, hb, hd⟩⟩)

theorem ndFilter_ne_nil (gs l) (h : l ≠ []) : ndFilter gs l ≠ [] := by
  cases l with
  | nil => exact absurd rfl h
  | cons x l =>
    intro hnil
    rcases ndFilter_covers gs (x :: l) x List.mem_cons_self with h | ⟨q, h, _⟩ <;> simp [hnil] at h

/-! ### `for e in xs: if e in l: l.remove(e)` -/

theorem removeAll_nil (l : List Ind) : removeAll l [] = l := rfl

theorem removeAll_cons (l : List Ind) (e : Ind) (xs : List Ind) :
    removeAll l (e :: xs) = removeAll (if e ∈ l then l.erase e else l) xs := rfl

theorem removeAll_cons_of_not_mem (x : Ind) (ys : List Ind) (hx : x ∉ ys) :
    ∀ l, removeAll (x :: l) ys = x :: removeAll l ys := by
  induction ys with
  | nil => intro l; rfl
  | cons e ys ih =>
    intro l
    have hne : e ≠ x := fun h => hx (h ▸ List.mem_cons_self)
    have hx' : x ∉ ys := fun h => hx (List.mem_cons_of_mem _ h)
    have hne' : ¬ (x == e) = true := by simpa using fun h : x = e => hne h.symm
    rw [removeAll_cons, removeAll_cons]
    by_cases he : e ∈ l
    · have : e ∈ x :: l := List.mem_cons_of_mem _ he
      rw [if_pos this, if_pos he, List.erase_cons_tail hne', ih hx']
    · have : e ∉ x :: l := by simp [hne, he]
      rw [if_neg this, if_neg he, ih hx']

/-- Removing, one `remove` call each, all members that satisfy `p` leaves the others. -/
theorem removeAll_filter (p : Ind → Bool) :
    ∀ l : List Ind, removeAll l (l.filter p) = l.filter fun a => !p a := by
  intro l
  induction l with
  | nil => rfl
  | cons x l ih =>
    by_cases hp : p x = true
    · rw [List.filter_cons_of_pos hp, removeAll_cons, if_pos List.mem_cons_self,
        List.erase_cons_head, ih]
      simp [hp]
    · have hx : x ∉ l.filter p := by simp [hp]
      rw [List.filter_cons_of_neg hp, removeAll_cons_of_not_mem x _ hx, ih]
      simp [hp]

theorem removeAll_length_le (xs : List Ind) : ∀ l : List Ind, (removeAll l xs).length ≤ l.length := by
  induction xs with
  | nil => intro l; exact Nat.le_refl _
  | cons e xs ih =>
    intro l
    rw [removeAll_cons]
    split
    · exact Nat.le_trans (ih _) (List.length_erase_le)
    · exact ih _

theorem removeAll_subset (xs : List Ind) : ∀ l : List Ind, ∀ a ∈ removeAll l xs, a ∈ l := by
  induction xs with
  | nil => intro l a h; exact h
  | cons e xs ih =>
    intro l a h
    rw [removeAll_cons] at h
    split at h
    · exact List.mem_of_mem_erase (ih _ a h)
    · exact ih _ a h

/-! ### `_get_non_dominated_solutions` computes the non-dominated filter -/

/-- The `for best in front` scan: dominated iff a member of the front dominates `sol`; otherwise the
collected `dominated_solutions` are the members `sol` dominates. -/
theorem scanFront_spec (gs : List Nat) (sol : Ind) : ∀ (front acc : List Ind),
    (scanFront gs sol front acc).1 = dominatedIn gs front sol ∧
    ((scanFront gs sol front acc).1 = false →
      (scanFront gs sol front acc).2 = acc ++ front.filter fun b => decide (Dominates gs sol b)) := by
  intro front
  induction front with
  | nil => intro acc; simp [scanFront, dominatedIn]
  | cons b bs ih =>
    intro acc
    unfold scanFront
    simp only [domCompare_lt_iff, domCompare_gt_iff]
    by_cases hb : Dominates gs b sol
    · simp [hb, dominatedIn]
    · have hrest := ih (if Dominates gs sol b then acc ++ [b] else acc)
      simp only [hb, if_false]
      refine ⟨by simpa [dominatedIn, hb] using hrest.1, fun hnd => ?_⟩
      rw [hrest.2 hnd]
      by_cases hs : Dominates gs sol b <;> simp [hs]

/-- One step of the scan turns the filter of a prefix into the filter of the extended prefix. -/
theorem nonDomStep_ndFilter (gs : List Nat) (pre : List Ind) (s : Ind) :
    nonDomStep gs (ndFilter gs pre) s = ndFilter gs (pre ++ [s]) := by
  have hspec := scanFront_spec gs s (ndFilter gs pre) []
  unfold nonDomStep
  -- is `s` dominated by a member of the current front?
  by_cases hd : dominatedIn gs (ndFilter gs pre) s = true
  · -- yes: the front is unchanged
    have h1 : (scanFront gs s (ndFilter gs pre) []).1 = true := by rw [hspec.1, hd]
    obtain ⟨q, hq, hqs⟩ := (dominatedIn_iff _ _ _).1 hd
    have hqpre : q ∈ pre := ((mem_ndFilter gs pre q).1 hq).1
    have : ndFilter gs (pre ++ [s]) = ndFilter gs pre := by
      unfold ndFilter
      rw [List.filter_append]
      have hs : ([s].filter fun a => !dominatedIn gs (pre ++ [s]) a) = [] := by
        have : dominatedIn gs (pre ++ [s]) s = true :=
          (dominatedIn_iff _ _ _).2 ⟨q, List.mem_append_left _ hqpre, hqs⟩
        simp [this]
      rw [hs, List.append_nil]
      apply List.filter_congr
      intro a ha
      have : dominatedIn gs (pre ++ [s]) a = dominatedIn gs pre a := by
        rw [Bool.eq_iff_iff, dominatedIn_iff, dominatedIn_iff]
        constructor
        · rintro ⟨b, hb, hba⟩
          rcases List.mem_append.1 hb with hb | hb
          · exact ⟨b, hb, hba⟩
          · have : b = s := by simpa using hb
            subst this
            exact ⟨q, hqpre, hqs.trans hba⟩
        · rintro ⟨b, hb, hba⟩
          exact ⟨b, List.mem_append_left _ hb, hba⟩
      rw [this]
    rw [this]
    generalize scanFront gs s (ndFilter gs pre) [] = r at h1
    obtain ⟨r1, r2⟩ := r
    simp at h1; subst h1; rfl
  · -- no: `s` joins, the members it dominates leave
    have hd' : dominatedIn gs (ndFilter gs pre) s = false := by simpa using hd
    have h1 : (scanFront gs s (ndFilter gs pre) []).1 = false := by rw [hspec.1, hd']
    have h2 := hspec.2 h1
    -- nobody in `pre` dominates `s`
    have hnone : ∀ b ∈ pre, ¬ Dominates gs b s := by
      intro b hb hbs
      rcases ndFilter_covers gs pre b hb with h | ⟨q, hq, hqb⟩
      · exact absurd ((dominatedIn_iff _ _ _).2 ⟨b, h, hbs⟩) (by simp [hd'])
      · exact absurd ((dominatedIn_iff _ _ _).2 ⟨q, hq, hqb.trans hbs⟩) (by simp [hd'])
    have hres : nonDomStep gs (ndFilter gs pre) s =
        removeAll (ndFilter gs pre ++ [s])
          ((ndFilter gs pre ++ [s]).filter fun b => decide (Dominates gs s b)) := by
      unfold nonDomStep
      generalize scanFront gs s (ndFilter gs pre) [] = r at h1 h2
      obtain ⟨r1, r2⟩ := r
      simp at h1 h2; subst h1; subst h2
      simp [List.filter_append, Dominates.irrefl]
    unfold nonDomStep at hres
    rw [hres, removeAll_filter]
    unfold ndFilter
    rw [List.filter_append, List.filter_append, List.filter_filter]
    congr 1
    · apply List.filter_congr
      intro a ha
      have : dominatedIn gs (pre ++ [s]) a = (dominatedIn gs pre a || decide (Dominates gs s a)) := by
        simp [dominatedIn, List.any_append]
      rw [this]
      cases dominatedIn gs pre a <;> cases decide (Dominates gs s a) <;> rfl
    · have : dominatedIn gs (pre ++ [s]) s = false := by
        simp [dominatedIn, Dominates.irrefl]; exact hnone
      simp [this, Dominates.irrefl]

theorem foldl_nonDomStep (gs : List Nat) : ∀ (rest pre : List Ind),
    rest.foldl (nonDomStep gs) (ndFilter gs pre) = ndFilter gs (pre ++ rest) := by
  intro rest
  induction rest with
  | nil => intro pre; simp
  | cons s rest ih =>
    intro pre
    rw [List.foldl_cons, nonDomStep_ndFilter, ih]
    simp

/-- `_get_non_dominated_solutions` returns exactly the non-dominated members, in order. -/
theorem nonDominated_eq_ndFilter (gs : List Nat) (sols : List Ind) :
    nonDominated gs sols = ndFilter gs sols := by
  have := foldl_nonDomStep gs sols []
  simpa [nonDominated, ndFilter] using this

/-! ### `PreferenceSortingComparator` and `_get_zero_front` -/

/-- `b` is at least as good as `t` for goal `g`: smaller fitness, or equal fitness and not longer. -/
def prefLe (g : Nat) (b t : Ind) : Prop :=
  fitOf b g < fitOf t g ∨ (fitOf b g = fitOf t g ∧ b.len ≤ t.len)

theorem prefLe_refl (g b) : prefLe g b b := Or.inr ⟨rfl, Nat.le_refl _⟩

theorem prefLe_trans {g a b c} (h1 : prefLe g a b) (h2 : prefLe g b c) : prefLe g a c := by
  unfold prefLe at *; grind

theorem prefCompare_neg (g a b) : prefCompare g (some a) (some b) < 0 →
    prefLe g a b := by
  unfold prefCompare prefLe
  simp only
  split
  · intro _; exact Or.inl ‹_›
  · split
    · simp
    · split
      · intro _; refine Or.inr ⟨by grind, by omega⟩
      · split <;> simp

theorem prefCompare_zero (g a b) : prefCompare g (some a) (some b) = 0 →
    prefLe g a b ∧ prefLe g b a := by
  unfold prefCompare prefLe
  simp only
  split
  · simp
  · split
    · simp
    · split
      · simp
      · split
        · simp
        · intro _; exact ⟨Or.inr ⟨by grind, by omega⟩, Or.inr ⟨by grind, by omega⟩⟩

theorem prefCompare_nonneg (g a b) : ¬ prefCompare g (some a) (some b) < 0 →
    prefLe g b a := by
  unfold prefCompare prefLe
  simp only
  split
  · simp
  · split
    · intro _; exact Or.inl (by grind)
    · split
      · simp
      · intro _; exact Or.inr ⟨by grind, by omega⟩

/-- The inner loop of `_get_zero_front`: the result is a lexicographically (fitness, length) best
individual among the scanned ones and the initial `best`. -/
theorem bestFor_spec (g : Nat) : ∀ (ss : List Ind) (best : Option Ind) (flips : List Bool),
    (∀ b, (bestFor g ss best flips).1 = some b →
      (b ∈ ss ∨ best = some b) ∧ (∀ t ∈ ss, prefLe g b t) ∧ (∀ b0, best = some b0 → prefLe g b b0)) ∧
    ((bestFor g ss best flips).1 = none → best = none ∧ ss = []) := by
  intro ss
  induction ss with
  | nil =>
    intro best flips
    simp only [bestFor]
    refine ⟨fun b hb => ⟨Or.inr hb, by simp, fun b0 h0 => ?_⟩, fun h => by simpa using h⟩
    rw [hb] at h0; cases h0; exact prefLe_refl g b
  | cons s ss ih =>
    intro best flips
    -- taking `s` as the new best
    have take : ∀ fl, (∀ b0, best = some b0 → prefLe g s b0) →
        (∀ b, (bestFor g ss (some s) fl).1 = some b →
          (b ∈ s :: ss ∨ best = some b) ∧ (∀ t ∈ s :: ss, prefLe g b t) ∧
            (∀ b0, best = some b0 → prefLe g b b0)) ∧
        ((bestFor g ss (some s) fl).1 = none → best = none ∧ s :: ss = []) := by
      intro fl hs
      obtain ⟨h1, h2⟩ := ih (some s) fl
      refine ⟨fun b hb => ?_, fun hn => ?_⟩
      · obtain ⟨hm, hall, hb0⟩ := h1 b hb
        have hbs : prefLe g b s := hb0 s rfl
        refine ⟨?_, ?_, fun b0 h0 => prefLe_trans hbs (hs b0 h0)⟩
        · rcases hm with hm | hm
          · exact Or.inl (List.mem_cons_of_mem _ hm)
          · cases hm; exact Or.inl List.mem_cons_self
        · intro t ht
          rcases List.mem_cons.1 ht with rfl | ht
          · exact hbs
          · exact hall t ht
      · exact absurd (h2 hn).1 (by simp)
    -- keeping the old best `b0`
    have keep : ∀ fl b0, best = some b0 → prefLe g b0 s →
        (∀ b, (bestFor g ss best fl).1 = some b →
          (b ∈ s :: ss ∨ best = some b) ∧ (∀ t ∈ s :: ss, prefLe g b t) ∧
            (∀ b0, best = some b0 → prefLe g b b0)) ∧
        ((bestFor g ss best fl).1 = none → best = none ∧ s :: ss = []) := by
      intro fl b0 hb0 hle
      obtain ⟨h1, h2⟩ := ih best fl
      refine ⟨fun b hb => ?_, fun hn => ?_⟩
      · obtain ⟨hm, hall, hbb⟩ := h1 b hb
        refine ⟨?_, ?_, hbb⟩
        · rcases hm with hm | hm
          · exact Or.inl (List.mem_cons_of_mem _ hm)
          · exact Or.inr hm
        · intro t ht
          rcases List.mem_cons.1 ht with rfl | ht
          · exact prefLe_trans (hbb b0 hb0) hle
          · exact hall t ht
      · have := (h2 hn).1; rw [hb0] at this; cases this
    unfold bestFor
    cases best with
    | none =>
      have hlt : (-1 : Int) < 0 := by decide
      rw [show prefCompare g (some s) none = -1 from rfl, if_pos hlt]
      exact take flips (by simp)
    | some b0 =>
      simp only
      by_cases hneg : prefCompare g (some s) (some b0) < 0
      · rw [if_pos hneg]
        exact take flips (fun b h => by cases h; exact prefCompare_neg g s b0 hneg)
      · rw [if_neg hneg]
        by_cases hz : prefCompare g (some s) (some b0) = 0
        · have hz' : (prefCompare g (some s) (some b0) == 0) = true := by simp [hz]
          rw [if_pos hz']
          by_cases hfl : (nextBool flips).fst = true
          · rw [if_pos hfl]
            exact take _ (fun b h => by cases h; exact (prefCompare_zero g s b0 hz).1)
          · rw [if_neg hfl]
            exact keep _ b0 rfl (prefCompare_zero g s b0 hz).2
        · have hz' : ¬ (prefCompare g (some s) (some b0) == 0) = true := by simp [hz]
          rw [if_neg hz']
          exact keep flips b0 rfl (prefCompare_nonneg g s b0 hneg)

theorem mem_osAdd (zf : List Ind) (x a : Ind) : a ∈ osAdd zf x ↔ a ∈ zf ∨ a = x := by
  unfold osAdd; split
  · constructor
    · exact Or.inl
    · rintro (h | rfl) <;> assumption
  · simp

/-- `_get_zero_front` never trips its assertion on a non-empty population; the result keeps what was
already in the set, adds only members of the population, and holds a best individual per goal. -/
theorem zeroFront_spec (sols : List Ind) (hne : sols ≠ []) : ∀ (gs : List Nat) (zf : List Ind)
    (flips : List Bool), ∃ zf' fl', zeroFront sols gs zf flips = some (zf', fl') ∧
      (∀ a ∈ zf, a ∈ zf') ∧ (∀ a ∈ zf', a ∈ zf ∨ a ∈ sols) ∧
      ∀ g ∈ gs, ∃ b ∈ zf', b ∈ sols ∧ ∀ t ∈ sols, prefLe g b t := by
  intro gs
  induction gs with
  | nil => intro zf flips; exact ⟨zf, flips, rfl, fun a h => h, fun a h => Or.inl h, by simp⟩
  | cons g gs ih =>
    intro zf flips
    obtain ⟨hsome, hnone⟩ := bestFor_spec g sols none flips
    unfold zeroFront
    cases hb : bestFor g sols none flips with
    | mk r fl =>
      cases r with
      | none =>
        have := hnone (by rw [hb])
        exact absurd this.2 hne
      | some best =>
        simp only
        obtain ⟨hm, hall, _⟩ := hsome best (by rw [hb])
        have hbs : best ∈ sols := by
          rcases hm with h | h
          · exact h
          · cases h
        obtain ⟨zf', fl', heq, hkeep, hsrc, hgoals⟩ := ih (osAdd zf best) fl
        refine ⟨zf', fl', heq, fun a ha => hkeep a ((mem_osAdd zf best a).2 (Or.inl ha)), ?_, ?_⟩
        · intro a ha
          rcases hsrc a ha with h | h
          · rcases (mem_osAdd zf best a).1 h with h | rfl
            · exact Or.inl h
            · exact Or.inr hbs
          · exact Or.inr h
        · intro g' hg'
          rcases List.mem_cons.1 hg' with rfl | hg'
          · exact ⟨best, hkeep best ((mem_osAdd zf best best).2 (Or.inr rfl)), hbs, hall⟩
          · exact hgoals g' hg'

/-! ### the `while` loop of `compute_ranking_assignment` -/

/-- Every front is the non-dominated filter of what was left before it, and non-empty. -/
def FrontsOK (gs : List Nat) : List Ind → List (List Ind) → Prop
  | _, [] => True
  | rem, f :: fs => f = ndFilter gs rem ∧ f ≠ [] ∧ FrontsOK gs (removeAll rem f) fs

theorem filter_length_add (p : Ind → Bool) (l : List Ind) :
    (l.filter p).length + (l.filter fun a => !p a).length = l.length := by
  induction l with
  | nil => rfl
  | cons x l ih =>
    by_cases hp : p x = true
    · simp [hp]; omega
    · simp [hp]; omega

theorem removeAll_ndFilter_length (gs : List Nat) (rem : List Ind) (h : rem ≠ []) :
    (removeAll rem (ndFilter gs rem)).length < rem.length := by
  have h1 : (ndFilter gs rem).length > 0 := List.length_pos_iff.2 (ndFilter_ne_nil gs rem h)
  have h2 := filter_length_add (fun a => !dominatedIn gs rem a) rem
  unfold ndFilter at h1 ⊢
  rw [removeAll_filter]
  omega

theorem rankLoop_spec (gs : List Nat) (pop : Nat) : ∀ (fuel : Nat) (rem : List Ind) (ranked : Nat)
    (fs : List (List Ind)), rankLoop gs pop fuel rem ranked = some fs →
      FrontsOK gs rem fs ∧
      (pop ≤ ranked + (fs.map List.length).sum ∨ fs.foldl removeAll rem = []) := by
  intro fuel
  induction fuel with
  | zero =>
    intro rem ranked fs h
    unfold rankLoop at h
    split at h
    · cases h
    · cases h
      rename_i hc
      refine ⟨trivial, ?_⟩
      simp only [List.map_nil, List.sum_nil, List.foldl_nil, Nat.add_zero]
      by_cases hr : ranked < pop
      · right
        have : ¬ rem.length > 0 := fun hl => hc ⟨hr, hl⟩
        exact List.length_eq_zero_iff.1 (by omega)
      · left; omega
  | succ fuel ih =>
    intro rem ranked fs h
    unfold rankLoop at h
    split at h
    · rename_i hc
      simp only at h
      cases hrec : rankLoop gs pop fuel (removeAll rem (nonDominated gs rem))
          (ranked + (nonDominated gs rem).length) with
      | none => rw [hrec] at h; cases h
      | some fs' =>
        rw [hrec] at h
        cases h
        obtain ⟨hok, hstop⟩ := ih _ _ _ hrec
        have hne : rem ≠ [] := List.ne_nil_of_length_pos hc.2
        refine ⟨⟨nonDominated_eq_ndFilter gs rem, ?_, hok⟩, ?_⟩
        · rw [nonDominated_eq_ndFilter]; exact ndFilter_ne_nil gs rem hne
        · simp only [List.map_cons, List.sum_cons, List.foldl_cons]
          rcases hstop with h | h
          · left; omega
          · right; exact h
    · cases h
      rename_i hc
      refine ⟨trivial, ?_⟩
      simp only [List.map_nil, List.sum_nil, List.foldl_nil, Nat.add_zero]
      by_cases hr : ranked < pop
      · right
        have : ¬ rem.length > 0 := fun hl => hc ⟨hr, hl⟩
        exact List.length_eq_zero_iff.1 (by omega)
      · left; omega

theorem rankLoop_terminates (gs : List Nat) (pop : Nat) : ∀ (fuel : Nat) (rem : List Ind)
    (ranked : Nat), rem.length < fuel → ∃ fs, rankLoop gs pop fuel rem ranked = some fs := by
  intro fuel
  induction fuel with
  | zero => intro rem ranked h; omega
  | succ fuel ih =>
    intro rem ranked h
    unfold rankLoop
    split
    · rename_i hc
      have hne : rem ≠ [] := List.ne_nil_of_length_pos hc.2
      have hlt := removeAll_ndFilter_length gs rem hne
      rw [← nonDominated_eq_ndFilter] at hlt
      obtain ⟨fs, hfs⟩ := ih (removeAll rem (nonDominated gs rem))
        (ranked + (nonDominated gs rem).length) (by omega)
      simp only
      rw [hfs]
      exact ⟨_, rfl⟩
    · exact ⟨[], rfl⟩

/-! ### `fast_epsilon_dominance_assignment` -/

theorem crowdValue_unit (n k : Nat) (h1 : 1 ≤ k) (h2 : k ≤ n) :
    0 ≤ crowdValue n k ∧ crowdValue n k < 1 := by
  unfold crowdValue
  have hn : (0 : Rat) < (n : Rat) := by exact_mod_cast (by omega : 0 < n)
  have hk : ((((n : Int) - (k : Int) : Int)) : Rat) = (n : Rat) - (k : Rat) := by push_cast; rfl
  rw [hk]
  have hk1 : (1 : Rat) ≤ (k : Rat) := by exact_mod_cast h1
  have hk2 : (k : Rat) ≤ (n : Rat) := by exact_mod_cast h2
  constructor
  · rw [Rat.div_def]; apply Rat.mul_nonneg
    · grind
    · exact Rat.le_of_lt (Rat.inv_pos.2 hn)
  · rw [Rat.div_lt_iff hn]; grind

def InUnit (dist : List Rat) : Prop := ∀ d ∈ dist, 0 ≤ d ∧ d < 1

theorem scanStep_minSet_length (sc : GoalScan) (i : Nat) (v : Rat) (h : sc.minSet.length ≤ i) :
    (scanStep sc i v).minSet.length ≤ i + 1 := by
  unfold scanStep
  simp only
  split
  · simp
  · split
    · simp; omega
    · omega

theorem scanGoalFrom_minSet_length : ∀ (vs : List Rat) (sc : GoalScan) (i : Nat),
    sc.minSet.length ≤ i → (scanGoalFrom sc i vs).minSet.length ≤ i + vs.length := by
  intro vs
  induction vs with
  | nil => intro sc i h; simpa [scanGoalFrom] using h
  | cons v vs ih =>
    intro sc i h
    have := ih (scanStep sc i v) (i + 1) (scanStep_minSet_length sc i v h)
    simp only [scanGoalFrom, List.length_cons]
    omega

theorem scanGoal_minSet_length (fmax : Rat) (vs : List Rat) :
    (scanGoal fmax vs).minSet.length ≤ vs.length := by
  have := scanGoalFrom_minSet_length vs { minimum := fmax, minSet := [], maximum := 0 } 0 (by simp)
  simpa [scanGoal] using this

theorem assign_fold_unit (v : Rat) (hv : 0 ≤ v ∧ v < 1) : ∀ (is : List Nat) (dist : List Rat),
    InUnit dist →
    InUnit (is.foldl (fun d i => d.set i (if v > d.getD i 0 then v else d.getD i 0)) dist) := by
  intro is
  induction is with
  | nil => intro dist h; exact h
  | cons i is ih =>
    intro dist h
    rw [List.foldl_cons]
    apply ih
    intro d hd
    rcases List.mem_or_eq_of_mem_set hd with hd | rfl
    · exact h d hd
    · split
      · exact hv
      · by_cases hi : i < dist.length
        · have : dist.getD i 0 ∈ dist := by
            rw [List.getD_eq_getElem?_getD, List.getElem?_eq_getElem hi]; simp
          exact h _ this
        · have : dist.getD i 0 = 0 := by
            rw [List.getD_eq_getElem?_getD, List.getElem?_eq_none (by omega)]; rfl
          rw [this]; exact ⟨Rat.le_refl, by decide⟩

theorem assignGoal_unit (n : Nat) (minSet : List Nat) (dist : List Rat) (hk : minSet.length ≤ n)
    (h : InUnit dist) : InUnit (assignGoal n minSet dist) := by
  unfold assignGoal
  cases minSet with
  | nil => exact h
  | cons i is =>
    exact assign_fold_unit _ (crowdValue_unit n _ (by simp) hk) _ _ h

theorem crowdStep_unit (fmax : Rat) (front : List Ind) (dist : List Rat) (g : Nat)
    (h : InUnit dist) : InUnit (crowdStep fmax front dist g) := by
  unfold crowdStep
  simp only
  split
  · exact h
  · apply assignGoal_unit _ _ _ _ h
    have := scanGoal_minSet_length fmax (front.map (fitOf · g))
    simpa using this

theorem crowding_unit (fmax : Rat) (front : List Ind) : ∀ (goals : List Nat) (dist : List Rat),
    InUnit dist → InUnit (goals.foldl (crowdStep fmax front) dist) := by
  intro goals
  induction goals with
  | nil => intro dist h; exact h
  | cons g gs ih => intro dist h; exact ih _ (crowdStep_unit fmax front dist g h)

end PynguinModel.Ranking
